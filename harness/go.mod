module verif/harness

go 1.24.0

require (
	github.com/woodsbury/decimal128 v1.4.0
	github.com/woodsbury/jmespath v0.0.0
)

require (
	golang.org/x/mod v0.22.0 // indirect
	golang.org/x/sync v0.10.0 // indirect
	golang.org/x/tools v0.29.0
)

replace github.com/woodsbury/jmespath => /repo
