package main

import (
	"encoding/json"
	"fmt"
	"os"
	"strings"

	"github.com/woodsbury/jmespath"
)

func main() {
	expr := os.Args[1]
	doc := "null"
	if len(os.Args) > 2 {
		doc = os.Args[2]
	}
	d := json.NewDecoder(strings.NewReader(doc))
	d.UseNumber()
	var v any
	if err := d.Decode(&v); err != nil {
		panic(err)
	}
	r, err := jmespath.Search(expr, v)
	fmt.Printf("%#v | %T | err=%v\n", r, r, err)
	b, _ := json.Marshal(r)
	fmt.Println(string(b))
}
