package main

// transl: a tiny translator from the *integer preludes* of selected Go functions to Lean definitions
// (Jmes/Generated/Transl.lean), regenerated from the tree under test on every run (DESIGN.md §6.7).
//
// A region is the body of a function, or the body of `if x, ok := v.(T); ok { … }` at its top level. From the first
// statement of the region the translator follows straight-line integer code — `x := e`, `x = e`, `x += e`, `x++`,
// `var n int`, `if c { … } else { … }` over `int`-typed variables with `+ - * / %`, unary minus, comparisons and
// `&& || !` — and stops at the first statement it does not understand (a loop, a call with effects, …). Every way
// out of the translated code is an `Exit`:
//   ret k env    a `return e`; k indexes the region's table of distinct return texts
//   reach k env  the first untranslated statement; k indexes the table of such statements (source text, first line)
//   divz         an integer division whose divisor is zero (Go panics)
// `env` holds the current values of the region's *frame*: the function's int parameters and the int variables
// declared at the top level of the region, in declaration order (0 before the declaration is reached).
// Integer-typed values the translator cannot compute (`len(a)`, `utf8.RuneCountInString(s)`) become parameters of
// the generated definition; their source texts are listed in `<region>_inputs`.
// Go's `int` is 64-bit: `+ - *` and unary minus wrap (`wadd` …), `/` and `%` truncate (`Int.tdiv`, `Int.tmod`).
// `if` continuations are inlined into both branches, so the output is a decision tree; the regions handled are small.

import (
	"fmt"
	"go/ast"
	"go/printer"
	"go/token"
	"go/types"
	"sort"
	"strings"

	"golang.org/x/tools/go/packages"
)

type translTarget struct {
	pkgSuffix, fn string
}

var translTargets = []translTarget{
	{"internal/evaluator", "slice"},
	{"internal/evaluator", "sliceStep"},
	{"internal/evaluator", "index"},
}

// second group (Jmes/Generated/Transl2.lean, namespace T2): the integer preludes of the string builtins that take counts,
// widths and offsets. The int variables defined by the statements before the region (`w, isNum, ok := toInt(width)`)
// are parameters of the region.
var translTargets2 = []translTarget{
	{"internal/evaluator", "splitCount"},
	{"internal/evaluator", "split"},
	{"internal/evaluator", "padSpaceLeft"},
	{"internal/evaluator", "padSpaceRight"},
	{"internal/evaluator", "padLeft"},
	{"internal/evaluator", "padRight"},
	{"internal/evaluator", "replaceCount"},
	{"internal/evaluator", "findFirstBetween"},
	{"internal/evaluator", "findFirstFrom"},
	{"internal/evaluator", "findLastBetween"},
	{"internal/evaluator", "findLastFrom"},
}

type region struct {
	name    string
	params  []string // lean parameter names: frame parameters first, then inputs
	inputs  [][2]string
	frame   []types.Object
	rets    []string
	reaches []string
	body    string
}

type tr struct {
	pkg    *packages.Package
	fset   *token.FileSet
	reg    *region
	names  map[types.Object]string
	used   map[string]bool
	inputs map[string]string // source text of an opaque int expression -> lean parameter
}

func (t *tr) src(n ast.Node) string {
	var b strings.Builder
	printer.Fprint(&b, t.fset, n)
	s := b.String()
	if i := strings.IndexByte(s, '\n'); i >= 0 {
		s = s[:i]
	}
	return s
}

func isIntType(ty types.Type) bool {
	if ty == nil {
		return false
	}
	b, ok := ty.Underlying().(*types.Basic)
	return ok && (b.Kind() == types.Int || b.Kind() == types.UntypedInt)
}

func (t *tr) fresh(base string) string {
	n := base
	for i := 1; t.used[n] || leanReserved[n]; i++ {
		n = fmt.Sprintf("%s_%d", base, i)
	}
	t.used[n] = true
	return n
}

var leanReserved = map[string]bool{"end": true, "at": true, "from": true, "have": true, "show": true, "fun": true, "let": true, "if": true, "then": true, "else": true, "do": true, "in": true, "open": true, "def": true, "by": true}

func (t *tr) nameOf(o types.Object) string {
	if n, ok := t.names[o]; ok {
		return n
	}
	n := t.fresh(o.Name())
	t.names[o] = n
	return n
}

func (t *tr) objOf(id *ast.Ident) types.Object {
	if o := t.pkg.TypesInfo.Defs[id]; o != nil {
		return o
	}
	return t.pkg.TypesInfo.Uses[id]
}

// expr translates an int-typed expression; divisors met on the way are appended to divs. ok=false: not translatable.
func (t *tr) expr(e ast.Expr, divs *[]string) (string, bool) {
	if tv, ok := t.pkg.TypesInfo.Types[e]; ok && tv.Value != nil && isIntType(tv.Type) {
		s := tv.Value.ExactString()
		if strings.HasPrefix(s, "-") {
			return "(" + s + ")", true
		}
		return s, true
	}
	switch e := e.(type) {
	case *ast.ParenExpr:
		return t.expr(e.X, divs)
	case *ast.Ident:
		o := t.objOf(e)
		if v, ok := o.(*types.Var); ok && isIntType(v.Type()) {
			if n, ok := t.names[o]; ok {
				return n, true
			}
		}
		return "", false
	case *ast.UnaryExpr:
		x, ok := t.expr(e.X, divs)
		if !ok {
			return "", false
		}
		switch e.Op {
		case token.SUB:
			return "(wneg " + x + ")", true
		case token.ADD:
			return x, true
		}
		return "", false
	case *ast.BinaryExpr:
		if !isIntType(t.pkg.TypesInfo.TypeOf(e)) {
			return "", false
		}
		x, ok1 := t.expr(e.X, divs)
		y, ok2 := t.expr(e.Y, divs)
		if !ok1 || !ok2 {
			return "", false
		}
		switch e.Op {
		case token.ADD:
			return "(wadd " + x + " " + y + ")", true
		case token.SUB:
			return "(wsub " + x + " " + y + ")", true
		case token.MUL:
			return "(wmul " + x + " " + y + ")", true
		case token.QUO:
			*divs = append(*divs, y)
			return "(wquo " + x + " " + y + ")", true
		case token.REM:
			*divs = append(*divs, y)
			return "(Int.tmod " + x + " " + y + ")", true
		}
		return "", false
	case *ast.CallExpr:
		// an int-valued call without int-variable arguments the translator tracks (len(a), utf8.RuneCountInString(s)):
		// an input of the region, the same text giving the same input
		if !isIntType(t.pkg.TypesInfo.TypeOf(e)) {
			return "", false
		}
		// the builtins min and max over ints
		if id, ok := e.Fun.(*ast.Ident); ok && (id.Name == "min" || id.Name == "max") && len(e.Args) >= 2 {
			if _, isBuiltin := t.pkg.TypesInfo.Uses[id].(*types.Builtin); isBuiltin {
				acc, ok := t.expr(e.Args[0], divs)
				if !ok {
					return "", false
				}
				for _, a := range e.Args[1:] {
					x, ok := t.expr(a, divs)
					if !ok {
						return "", false
					}
					acc = "(" + id.Name + " " + acc + " " + x + ")"
				}
				return acc, true
			}
		}
		for _, a := range e.Args {
			if isIntType(t.pkg.TypesInfo.TypeOf(a)) {
				return "", false
			}
		}
		txt := t.src(e)
		if n, ok := t.inputs[txt]; ok {
			return n, true
		}
		base := "in"
		if id, ok := e.Fun.(*ast.Ident); ok {
			base = id.Name
		} else if se, ok := e.Fun.(*ast.SelectorExpr); ok {
			base = strings.ToLower(se.Sel.Name[:1]) + se.Sel.Name[1:]
		}
		n := t.fresh(base + "_in")
		t.inputs[txt] = n
		t.reg.inputs = append(t.reg.inputs, [2]string{n, txt})
		return n, true
	}
	return "", false
}

// cond translates a boolean condition over ints to a decidable Lean proposition
func (t *tr) cond(e ast.Expr, divs *[]string) (string, bool) {
	switch e := e.(type) {
	case *ast.ParenExpr:
		return t.cond(e.X, divs)
	case *ast.UnaryExpr:
		if e.Op == token.NOT {
			c, ok := t.cond(e.X, divs)
			return "(¬ " + c + ")", ok
		}
	case *ast.BinaryExpr:
		switch e.Op {
		case token.LAND, token.LOR:
			// Go short-circuits; a division in the right operand would need a guard that depends on the left one
			var d2 []string
			a, ok1 := t.cond(e.X, divs)
			b, ok2 := t.cond(e.Y, &d2)
			if !ok1 || !ok2 || len(d2) > 0 {
				return "", false
			}
			if e.Op == token.LAND {
				return "(" + a + " ∧ " + b + ")", true
			}
			return "(" + a + " ∨ " + b + ")", true
		case token.LSS, token.LEQ, token.GTR, token.GEQ, token.EQL, token.NEQ:
			if !isIntType(t.pkg.TypesInfo.TypeOf(e.X)) || !isIntType(t.pkg.TypesInfo.TypeOf(e.Y)) {
				return "", false
			}
			a, ok1 := t.expr(e.X, divs)
			b, ok2 := t.expr(e.Y, divs)
			if !ok1 || !ok2 {
				return "", false
			}
			op := map[token.Token]string{token.LSS: "<", token.LEQ: "≤", token.GTR: ">", token.GEQ: "≥", token.EQL: "=", token.NEQ: "≠"}[e.Op]
			return "(" + a + " " + op + " " + b + ")", true
		}
	}
	return "", false
}

func (t *tr) env() string {
	var xs []string
	for _, o := range t.reg.frame {
		if n, ok := t.names[o]; ok {
			xs = append(xs, n)
		} else {
			xs = append(xs, "0")
		}
	}
	return "[" + strings.Join(xs, ", ") + "]"
}

// envWith: the frame, followed by the current values of the int variables that the statement reached mentions and that
// are not in the frame (a variable declared inside a branch: `n := …; r := make([]any, n+1)`), in order of appearance.
// For loops and conditionals only the header is looked at.
func (t *tr) envWith(s ast.Stmt) string {
	inFrame := map[types.Object]bool{}
	for _, o := range t.reg.frame {
		inFrame[o] = true
	}
	var nodes []ast.Node
	switch s := s.(type) {
	case *ast.ForStmt:
		if s.Init != nil {
			nodes = append(nodes, s.Init)
		}
		if s.Cond != nil {
			nodes = append(nodes, s.Cond)
		}
	case *ast.IfStmt:
		if s.Init != nil {
			nodes = append(nodes, s.Init)
		}
		nodes = append(nodes, s.Cond)
	case *ast.RangeStmt:
		nodes = append(nodes, s.X)
	case *ast.SwitchStmt, *ast.TypeSwitchStmt, *ast.BlockStmt:
	default:
		nodes = append(nodes, s)
	}
	env := t.env()
	var extra []string
	seen := map[types.Object]bool{}
	for _, n := range nodes {
		ast.Inspect(n, func(m ast.Node) bool {
			if id, ok := m.(*ast.Ident); ok {
				if o := t.pkg.TypesInfo.Uses[id]; o != nil && !inFrame[o] && !seen[o] {
					if name, ok := t.names[o]; ok {
						seen[o] = true
						extra = append(extra, name)
					}
				}
			}
			return true
		})
	}
	if len(extra) == 0 {
		return env
	}
	if env == "[]" {
		return "[" + strings.Join(extra, ", ") + "]"
	}
	return env[:len(env)-1] + ", " + strings.Join(extra, ", ") + "]"
}

func tableIdx(tab *[]string, s string) int {
	for i, x := range *tab {
		if x == s {
			return i
		}
	}
	*tab = append(*tab, s)
	return len(*tab) - 1
}

func guard(divs []string, ind, body string) string {
	for _, d := range divs {
		body = fmt.Sprintf("if %s = 0 then Exit.divz else\n%s%s", d, ind, body)
	}
	return body
}

// stmts translates the statement list `ss` followed by the continuation `k` (a thunk producing the code that follows
// the enclosing block, so that it is generated in the scope of whatever the block assigned)
func (t *tr) stmts(ss []ast.Stmt, k func(ind string) string, ind string) string {
	if len(ss) == 0 {
		return k(ind)
	}
	s, rest := ss[0], ss[1:]
	next := func(ind string) string { return t.stmts(rest, k, ind) }
	stop := func() string {
		return fmt.Sprintf("Exit.reach %d %s", tableIdx(&t.reg.reaches, t.src(s)), t.envWith(s))
	}
	letIn := func(o types.Object, rhs string, divs []string) string {
		n := t.nameOf(o)
		return guard(divs, ind, fmt.Sprintf("let %s : Int := %s\n%s%s", n, rhs, ind, next(ind)))
	}
	switch s := s.(type) {
	case *ast.ReturnStmt:
		var parts []string
		for _, r := range s.Results {
			parts = append(parts, t.src(r))
		}
		return fmt.Sprintf("Exit.ret %d %s", tableIdx(&t.reg.rets, strings.Join(parts, ", ")), t.env())
	case *ast.DeclStmt:
		gd, ok := s.Decl.(*ast.GenDecl)
		if !ok || gd.Tok != token.VAR || len(gd.Specs) != 1 {
			return stop()
		}
		vs := gd.Specs[0].(*ast.ValueSpec)
		if len(vs.Names) != 1 || len(vs.Values) != 0 {
			return stop()
		}
		o := t.pkg.TypesInfo.Defs[vs.Names[0]]
		if o == nil || !isIntType(o.Type()) {
			return stop()
		}
		return letIn(o, "0", nil)
	case *ast.IncDecStmt:
		id, ok := s.X.(*ast.Ident)
		if !ok {
			return stop()
		}
		o := t.objOf(id)
		n, ok := t.names[o]
		if !ok {
			return stop()
		}
		if s.Tok == token.INC {
			return letIn(o, "wadd "+n+" 1", nil)
		}
		return letIn(o, "wsub "+n+" 1", nil)
	case *ast.AssignStmt:
		if len(s.Lhs) != 1 || len(s.Rhs) != 1 {
			return stop()
		}
		id, ok := s.Lhs[0].(*ast.Ident)
		if !ok || id.Name == "_" {
			return stop()
		}
		o := t.objOf(id)
		if o == nil || !isIntType(o.Type()) {
			return stop()
		}
		var divs []string
		rhs, ok := t.expr(s.Rhs[0], &divs)
		if !ok {
			return stop()
		}
		switch s.Tok {
		case token.DEFINE, token.ASSIGN:
			if s.Tok == token.ASSIGN {
				if _, known := t.names[o]; !known {
					return stop()
				}
			}
			return letIn(o, rhs, divs)
		case token.ADD_ASSIGN, token.SUB_ASSIGN, token.MUL_ASSIGN:
			n, known := t.names[o]
			if !known {
				return stop()
			}
			f := map[token.Token]string{token.ADD_ASSIGN: "wadd", token.SUB_ASSIGN: "wsub", token.MUL_ASSIGN: "wmul"}[s.Tok]
			return letIn(o, f+" "+n+" "+rhs, divs)
		}
		return stop()
	case *ast.IfStmt:
		if s.Init != nil {
			// `if c := e; cond { … }`: the init statement, then the test (c is a distinct object: no capture)
			if as, ok := s.Init.(*ast.AssignStmt); ok && as.Tok == token.DEFINE {
				s2 := *s
				s2.Init = nil
				return t.stmts(append([]ast.Stmt{as, &s2}, rest...), k, ind)
			}
			return stop()
		}
		var divs []string
		c, ok := t.cond(s.Cond, &divs)
		if !ok {
			return stop()
		}
		ind2 := ind + "  "
		// names assigned inside a branch must not leak into the other branch: the bindings are lexical in the
		// generated code, so only the name table needs restoring
		saved := map[types.Object]string{}
		for o, n := range t.names {
			saved[o] = n
		}
		th := t.stmts(s.Body.List, next, ind2)
		t.names = map[types.Object]string{}
		for o, n := range saved {
			t.names[o] = n
		}
		var el string
		switch e := s.Else.(type) {
		case nil:
			el = next(ind2)
		case *ast.BlockStmt:
			el = t.stmts(e.List, next, ind2)
		case *ast.IfStmt:
			el = t.stmts([]ast.Stmt{e}, next, ind2)
		}
		t.names = saved
		return guard(divs, ind, fmt.Sprintf("if %s then\n%s%s\n%selse\n%s%s", c, ind2, th, ind, ind2, el))
	}
	return stop()
}

func (t *tr) region(name string, fd *ast.FuncDecl, body []ast.Stmt, free ...types.Object) *region {
	t.reg = &region{name: name}
	t.names = map[types.Object]string{}
	t.used = map[string]bool{}
	t.inputs = map[string]string{}
	for _, f := range fd.Type.Params.List {
		for _, id := range f.Names {
			o := t.pkg.TypesInfo.Defs[id]
			if o != nil && isIntType(o.Type()) {
				t.reg.frame = append(t.reg.frame, o)
				t.reg.params = append(t.reg.params, t.nameOf(o))
			}
		}
	}
	// int variables defined by the statements before the region (`w, isNum, ok := toInt(width)`): parameters of the
	// region, every 64-bit value being possible
	for _, o := range free {
		t.reg.frame = append(t.reg.frame, o)
		t.reg.params = append(t.reg.params, t.nameOf(o))
	}
	// frame: int variables declared at the top level of the region
	for _, s := range body {
		switch s := s.(type) {
		case *ast.AssignStmt:
			if s.Tok == token.DEFINE {
				for _, l := range s.Lhs {
					if id, ok := l.(*ast.Ident); ok {
						if o := t.pkg.TypesInfo.Defs[id]; o != nil && isIntType(o.Type()) {
							t.reg.frame = append(t.reg.frame, o)
						}
					}
				}
			}
		case *ast.DeclStmt:
			if gd, ok := s.Decl.(*ast.GenDecl); ok && gd.Tok == token.VAR {
				for _, sp := range gd.Specs {
					for _, id := range sp.(*ast.ValueSpec).Names {
						if o := t.pkg.TypesInfo.Defs[id]; o != nil && isIntType(o.Type()) {
							t.reg.frame = append(t.reg.frame, o)
						}
					}
				}
			}
		}
	}
	t.reg.body = t.stmts(body, func(string) string {
		return fmt.Sprintf("Exit.reach %d %s", tableIdx(&t.reg.reaches, "<end of block>"), t.env())
	}, "    ")
	for _, in := range t.reg.inputs {
		t.reg.params = append(t.reg.params, in[0])
	}
	return t.reg
}

func typeTag(s string) string {
	switch s {
	case "[]any":
		return "arr"
	case "string":
		return "str"
	case "map[string]any":
		return "obj"
	}
	var b strings.Builder
	for _, r := range s {
		if r >= 'a' && r <= 'z' || r >= 'A' && r <= 'Z' || r >= '0' && r <= '9' {
			b.WriteRune(r)
		}
	}
	return b.String()
}

func genTransl(pkgs []*packages.Package) string { return genTranslOf(pkgs, translTargets, "T") }

func genTransl2(pkgs []*packages.Package) string { return genTranslOf(pkgs, translTargets2, "T2") }

func genTranslOf(pkgs []*packages.Package, targets []translTarget, ns string) string {
	var regs []*region
	for _, tg := range targets {
		fd, pkg := findFunc(pkgs, tg.pkgSuffix, "", tg.fn)
		if fd == nil || fd.Body == nil {
			continue
		}
		t := &tr{pkg: pkg, fset: pkg.Fset}
		typed := 0
		for _, s := range fd.Body.List {
			// `if x, ok := v.(T); ok { … }` opens a region named after T
			is, ok := s.(*ast.IfStmt)
			if !ok || is.Init == nil || is.Else != nil {
				continue
			}
			as, ok := is.Init.(*ast.AssignStmt)
			if !ok || len(as.Rhs) != 1 {
				continue
			}
			ta, ok := as.Rhs[0].(*ast.TypeAssertExpr)
			if !ok || ta.Type == nil {
				continue
			}
			typed++
			regs = append(regs, t.region(tg.fn+"_"+typeTag(types.ExprString(ta.Type)), fd, is.Body.List))
		}
		if typed == 0 {
			// `x, ok := v.(T); if !ok { return … }` prefix: skip the leading statements that are not int code
			body := fd.Body.List
			var free []types.Object
			for len(body) > 0 {
				t2 := &tr{pkg: pkg, fset: pkg.Fset}
				r := t2.region(tg.fn, fd, body, free...)
				if !strings.HasPrefix(r.body, "Exit.reach") {
					regs = append(regs, r)
					break
				}
				// the statement is skipped: int variables it defines become parameters of the region
				if as, ok := body[0].(*ast.AssignStmt); ok && as.Tok == token.DEFINE {
					for _, l := range as.Lhs {
						if id, ok := l.(*ast.Ident); ok && id.Name != "_" {
							if o := pkg.TypesInfo.Defs[id]; o != nil && isIntType(o.Type()) {
								free = append(free, o)
							}
						}
					}
				}
				body = body[1:]
			}
		}
	}
	sort.SliceStable(regs, func(i, j int) bool { return regs[i].name < regs[j].name })
	var b strings.Builder
	b.WriteString("/- GENERATED by /verif/harness/cmd/facts (transl.go) from the tree under test; do not edit -/\n")
	b.WriteString("import Jmes.Tie.TranslBase\nnamespace Jmes.Generated." + ns + "\nopen Jmes.Tie.TranslBase\n\n")
	var names []string
	for _, r := range regs {
		names = append(names, leanStr(r.name))
		var ps []string
		for _, p := range r.params {
			ps = append(ps, p)
		}
		fmt.Fprintf(&b, "def %s (%s : Int) : Exit :=\n    %s\n\n", r.name, strings.Join(ps, " "), r.body)
		strs := func(xs []string) string {
			var q []string
			for _, x := range xs {
				q = append(q, leanStr(x))
			}
			return "[" + strings.Join(q, ", ") + "]"
		}
		var fr []string
		for _, o := range r.frame {
			fr = append(fr, o.Name())
		}
		var ins []string
		for _, in := range r.inputs {
			ins = append(ins, in[1])
		}
		fmt.Fprintf(&b, "def %s_frame : List String := %s\n", r.name, strs(fr))
		fmt.Fprintf(&b, "def %s_inputs : List String := %s\n", r.name, strs(ins))
		fmt.Fprintf(&b, "def %s_rets : List String := %s\n", r.name, strs(r.rets))
		fmt.Fprintf(&b, "def %s_reaches : List String := %s\n\n", r.name, strs(r.reaches))
	}
	fmt.Fprintf(&b, "def regions : List String := [%s]\n\nend Jmes.Generated.%s\n", strings.Join(names, ", "), ns)
	return b.String()
}
