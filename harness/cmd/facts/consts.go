package main

// constants.json: every integer and rune literal of the four packages (non-test files). The correspondence harness
// turns them into boundary inputs (array and string lengths, indices, counts, characters around each value), so that a
// threshold or a character class that appears in the code is probed from both sides whatever its value is.

import (
	"encoding/json"
	"go/ast"
	"go/constant"
	"go/token"
	"go/types"
	"math/big"
	"sort"
	"strconv"
	"strings"

	"golang.org/x/tools/go/packages"
)

func genConsts(pkgs []*packages.Package) []byte {
	ints := map[string]bool{}
	runes := map[int]bool{}
	for _, p := range pkgs {
		for _, f := range p.Syntax {
			if strings.HasSuffix(p.Fset.Position(f.Pos()).Filename, "_test.go") {
				continue
			}
			ast.Inspect(f, func(n ast.Node) bool {
				// every constant-valued integer expression (1<<8, len("…"), a + 1 over constants): by value
				if ex, ok := n.(ast.Expr); ok {
					if tv, ok := p.TypesInfo.Types[ex]; ok && tv.Value != nil && tv.Value.Kind() == constant.Int {
						if _, isLit := n.(*ast.BasicLit); !isLit {
							if v, ok := new(big.Int).SetString(tv.Value.ExactString(), 10); ok {
								if _, isId := n.(*ast.Ident); !isId {
									ints[v.String()] = true
								}
							}
						}
					}
				}
				// named constants used in the code (math.MaxUint8, utf8.RuneSelf, the package's own): by value
				if id, ok := n.(*ast.Ident); ok {
					if c, ok := p.TypesInfo.Uses[id].(*types.Const); ok && c.Val().Kind() == constant.Int {
						if v, ok := new(big.Int).SetString(c.Val().ExactString(), 10); ok {
							if b, isBasic := c.Type().Underlying().(*types.Basic); isBasic && b.Kind() == types.UntypedRune || (isBasic && b.Kind() == types.Int32 && v.IsInt64() && v.Int64() > 127 && v.Int64() < 0x110000 && strings.Contains(strings.ToLower(c.Name()), "rune")) {
								runes[int(v.Int64())] = true
							} else {
								ints[v.String()] = true
							}
						}
					}
					return true
				}
				bl, ok := n.(*ast.BasicLit)
				if !ok {
					return true
				}
				switch bl.Kind {
				case token.INT:
					if v, ok := new(big.Int).SetString(strings.ReplaceAll(bl.Value, "_", ""), 0); ok {
						ints[v.String()] = true
					}
				case token.CHAR:
					if r, _, _, err := strconv.UnquoteChar(bl.Value[1:len(bl.Value)-1], '\''); err == nil {
						runes[int(r)] = true
					}
				}
				return true
			})
		}
	}
	var il []string
	for k := range ints {
		il = append(il, k)
	}
	sort.Slice(il, func(i, j int) bool {
		a, _ := new(big.Int).SetString(il[i], 10)
		b, _ := new(big.Int).SetString(il[j], 10)
		return a.Cmp(b) < 0
	})
	var rl []int
	for k := range runes {
		rl = append(rl, k)
	}
	sort.Ints(rl)
	out, _ := json.MarshalIndent(map[string]any{"ints": il, "runes": rl}, "", " ")
	return append(out, '\n')
}
