package main

// Series M (evaluation-time fast paths keyed on the shape of the data): deterministic families aimed at the places where
// a shortcut "correct for almost every document" goes wrong — machine-word accumulators and comparisons, batches,
// singleton containers, pooled buffers at their boundary length, state left behind by a failing call.

import (
	"fmt"
	"math/big"
	"strings"
)

// sum / avg over many large addends: a batch accumulator in a machine word overflows only when enough 17–19-digit
// integers of one sign meet in one batch (seeded M02); every count around the usual batch sizes, every digit length
// around the 64-bit limit, same sign / alternating sign / one non-integer in the middle
func genSumBatch(c *GenCtx) {
	counts := []int{2, 3, 8, 9, 10, 11, 15, 16, 17, 20, 31, 32, 33, 64, 65, 100}
	for _, digits := range []int{9, 10, 15, 16, 17, 18, 19, 20, 34} {
		nines := strings.Repeat("9", digits)
		one := "1" + strings.Repeat("0", digits-1)
		for _, n := range counts {
			for variant := 0; variant < 6; variant++ {
				var xs []string
				for i := 0; i < n; i++ {
					v := nines
					switch variant {
					case 1:
						v = "-" + nines
					case 2:
						if i%2 == 1 {
							v = "-" + nines
						}
					case 3:
						v = one
					case 4: // one non-integer in the middle: a flush of the batch
						if i == n/2 {
							v = "0.5"
						}
					case 5: // exponent spelling of the same magnitude among plain integers
						if i%3 == 2 {
							v = "9." + strings.Repeat("9", digits-1) + "e" + fmt.Sprint(digits-1)
						}
					}
					xs = append(xs, v)
				}
				doc := `{"a":[` + strings.Join(xs, ",") + `]}`
				c.add("sum-batch", "[sum(a), avg(a)]", doc)
				if variant < 2 {
					c.add("sum-batch", "sum(a) == avg(a) * length(a)", doc)
					c.add("sum-batch", "sum(a[*]) > `0`", doc)
				}
			}
		}
	}
}

// numbers that coincide modulo 2^8 … 2^64 (a machine-word shortcut in ==, <, sort, contains, arithmetic confuses
// exactly these: seeded M10 wraps 19-digit integers, seeded M07 rounds through float64), as documents and as literals
func genWrapPairs(c *GenCtx) {
	p := func(s string) *big.Int { v, _ := new(big.Int).SetString(s, 10); return v }
	bases := []*big.Int{p("9223372036854775807"), p("9223372036854775808"), p("9223372036854775809"), p("9999999999999999999"), p("18446744073709551615"),
		p("18446744073709551616"), p("18446744073709551617"), p("10000000000000000000"), p("4294967296"), p("4294967297"), p("2147483648"), p("9007199254740993"),
		p("9007199254740992"), p("36028797018963969"), p("65536"), p("256"), p("128"), p("12345678901234567890"), p("-9223372036854775809"), p("-9223372036854775808")}
	var pairs [][2]string
	for _, x := range bases {
		for _, bits := range []uint{8, 16, 32, 53, 63, 64} {
			m := new(big.Int).Lsh(big.NewInt(1), bits)
			y := new(big.Int).Sub(x, m)
			z := new(big.Int).Add(x, m)
			pairs = append(pairs, [2]string{x.String(), y.String()}, [2]string{x.String(), z.String()})
		}
		// the neighbour that binary64 cannot tell apart
		pairs = append(pairs, [2]string{x.String(), new(big.Int).Add(x, big.NewInt(1)).String()}, [2]string{x.String(), new(big.Int).Sub(x, big.NewInt(1)).String()},
			[2]string{x.String(), x.String() + ".0"}, [2]string{x.String(), x.String() + ".5"})
	}
	exprs := []string{"a == b", "a != b", "b == a", "contains(l, b)", "contains(l, a)", "a < b", "a <= b", "a > b", "a >= b", "sort([a, b]) == sort([b, a])", "sort([b, a])[0] == min([a, b])",
		"max([a, b]) == a", "a - b", "[a, b] == [b, a]", "{k: a} == {k: b}", "l[?@ == $.b]", "(a == b) == !(a != b)", "sort_by([{v: a}, {v: b}], &v)[0].v", "a == a", "abs(a) == abs(b)", "l[?@ < $.b]", "[a, b][?@ > `100`]", "[{v: a}, {v: b}][?v >= $.a].v"}
	for _, pr := range pairs {
		doc := `{"a":` + pr[0] + `,"b":` + pr[1] + `,"l":[0,` + pr[0] + `,"x"]}`
		for _, e := range exprs {
			c.add("wrap-pairs", e, doc)
		}
		// the same pair carried by Go kinds: a as int64 / uint64, b as float64 when binary64 holds it exactly
		if kd := kindDoc(pr[0], pr[1]); kd != "" {
			for _, e := range exprs[:12] {
				c.add("wrap-pairs-kinds", e, kd)
			}
		}
		c.add("wrap-pairs", bt(pr[0])+" == "+bt(pr[1]), "null")
		c.add("wrap-pairs", bt(pr[0])+" < "+bt(pr[1]), "null")
		c.add("wrap-pairs", "contains(`["+pr[0]+"]`, "+bt(pr[1])+")", "null")
	}
}

// deeply nested SMALL documents (singleton arrays, singleton objects, alternating): a shortcut that visits the one
// element of a singleton twice costs 2^depth (seeded M05: == compares both ends of an array); the work of every operation
// that walks a value must stay linear in the ~100 nodes
func genDeepData(c *GenCtx) {
	for _, depth := range []int{1, 2, 8, 24, 60} {
		for shape := 0; shape < 4; shape++ {
			v, w := "7", "7"
			for i := 0; i < depth; i++ {
				switch {
				case shape == 0 || (shape == 2 && i%2 == 0):
					v, w = "["+v+"]", "["+w+"]"
				case shape == 1 || shape == 2:
					v, w = `{"k":`+v+`}`, `{"k":`+w+`}`
				default: // two-element arrays whose second element is a leaf: still linear
					v, w = "["+v+",0]", "["+w+",0]"
				}
			}
			doc := `{"a":` + v + `,"b":` + w + `,"l":[1,` + v + `],"o":{"p":` + v + `}}`
			for ei, e := range []string{"a == b", "a != b", "contains(l, a)", "l[?@ == $.a] | length(@)", "[a] == [b]", "{x: a} == {x: b}", "a == a", "to_string(a) == to_string(b)",
				"not_null(a) == b", "merge(o, {q: a}) == {p: b, q: a}", "type(a)", "length(to_string(a))", "[a, b][?@ == $.b] | length(@)", "a == `null`", "values(o) == [b]",
				"sort_by([{v: a}], &to_string(v)) == [{v: b}]", "a[] == b[]", "[a][] == [b][]", "l[1] == a", "(a || b) == (b && a)"} {
				if depth >= 24 && ei%3 != 0 {
					continue // the deep documents get a third of the expressions: on a tree where they are exponential every one costs a deadline
				}
				c.ops = append(c.ops, Op{Kind: "S", Expr: []byte(e), Data: doc, Family: "cost-deepdata", Risky: depth >= 24})
			}
		}
	}
}

// projections, filters, flattens and slices whose RESULT has exactly a boundary length (pooled buffers are detached by a
// length test: seeded M09 hands out the pooled buffer at exactly 64), observed after the call has returned (the harness
// canonicalises the result after Search returns) and fed through a pipe
func genBoundaryLengths(c *GenCtx) {
	for _, n := range []int{7, 8, 9, 15, 16, 17, 31, 32, 33, 63, 64, 65, 127, 128, 129, 255, 256, 257, 511, 512, 513, 1023, 1024, 1025} {
		var rows, pairs []string
		for i := 0; i < n; i++ {
			rows = append(rows, fmt.Sprintf(`{"id":%d,"t":["a%d"]}`, i, i))
		}
		for i := 0; i < n/2; i++ {
			pairs = append(pairs, fmt.Sprintf(`[%d,%d]`, 2*i, 2*i+1))
		}
		doc := `{"rows":[` + strings.Join(rows, ",") + `],"pairs":[` + strings.Join(pairs, ",") + `]}`
		for _, e := range []string{"rows[*].id", "rows[?id >= `0`].id", "rows[].id", "rows[*].t[]", "pairs[]", "pairs[][]", "rows[?id >= `1`].id", "rows[1:].id", "rows[::-1].id",
			"map(&id, rows)", "rows[*].id | [0]", "rows[*].id | [-1]", "rows[*].t | [-1]", "rows[?id >= `0`] | [0].id", "pairs[] | [-1]", "sort_by(rows, &id)[-1].id", "rows[*].id | length(@)",
			"[rows[*].id, rows[*].id][1][-1]", "rows[*].[id][]", "rows[*].{i: id}.i | [-1]", "reverse(rows[*].id)[0]", "sort(rows[*].id)[-1]", "to_array(rows[*].id)[-1]", "rows[*].id | [?@ >= `0`] | [-1]"} {
			c.add("boundary-len", e, doc)
		}
	}
}

// kindDoc: {"a": <x as int64 or uint64>, "b": <y as float64>, "l": [...]} when x fits the integer kind and y is an integer
// that binary64 represents exactly; "" otherwise
func kindDoc(x, y string) string {
	xi, ok1 := new(big.Int).SetString(x, 10)
	yi, ok2 := new(big.Int).SetString(y, 10)
	if !ok1 || !ok2 {
		return ""
	}
	var xk string
	switch {
	case xi.IsInt64():
		xk = `{"#":"i64","v":"` + x + `"}`
	case xi.IsUint64():
		xk = `{"#":"u64","v":"` + x + `"}`
	default:
		return ""
	}
	// binary64 holds y exactly iff its odd part has at most 53 bits; spelled <mantissa>p<exponent>
	ay := new(big.Int).Abs(yi)
	e := 0
	for ay.Sign() != 0 && ay.Bit(0) == 0 {
		ay.Rsh(ay, 1)
		e++
	}
	if ay.BitLen() > 53 || e > 900 {
		return ""
	}
	sign := ""
	if yi.Sign() < 0 {
		sign = "-"
	}
	yk := `{"#":"f64","v":"` + sign + ay.String() + "p" + fmt.Sprint(e) + `"}`
	return `{"a":` + xk + `,"b":` + yk + `,"l":[0,` + xk + `,"x"]}`
}

// every width / position / count from 0 to the BYTE length + 2 over homogeneous strings of each UTF-8 length class (and
// a mixed one): anything that judges a code-point quantity from the byte length — exactly, or through a bound such as
// bytes/3 (seeded N03: `w <= len(s)/3` means "already wide enough") — differs somewhere in that window
func genByteWindow(c *GenCtx) {
	classes := [][]string{{"a", "b", "c", "d", "e", "f"}, {"é", "ß", "ñ", "ü", "ø", "å"}, {"€", "한", "あ", "中", "♥", "✓"}, {"😀", "😁", "😂", "😃", "𝄞", "🜁"}, {"a", "😀", "é", "€", "😁", "b"}}
	for _, cl := range classes {
		for k := 1; k <= 6; k++ {
			s := strings.Join(cl[:k], "")
			doc := `{"s":` + c.jstr(s) + `,"last":` + c.jstr(cl[k-1]) + `,"first":` + c.jstr(cl[0]) + `}`
			for w := 0; w <= len(s)+2; w++ {
				ws := fmt.Sprint(w)
				for _, e := range []string{"pad_left(s, `" + ws + "`, '-')", "pad_right(s, `" + ws + "`, 'é')", "pad_left(s, `" + ws + "`)", "pad_right(s, `" + ws + "`)",
					"length(pad_left(s, `" + ws + "`, '😀'))", "find_first(s, last, `" + ws + "`)", "find_last(s, first, `0`, `" + ws + "`)", "find_first(s, last, `0`, `" + ws + "`)",
					"find_last(s, last, `" + ws + "`)", "s[" + ws + ":]", "s[:" + ws + "]", "s[-" + ws + ":]", "split(s, '', `" + ws + "`)", "length(split(s, '', `" + ws + "`))",
					"replace(s, '', '-', `" + ws + "`)", "[s][?length(@) == `" + ws + "`]", "s[" + ws + "::-1]"} {
					c.add("byte-window", e, doc)
				}
			}
		}
	}
}
