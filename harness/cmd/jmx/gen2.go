package main

// Property-directed generator families (DESIGN.md §2.5, §3).

import (
	"encoding/hex"
	"fmt"
	"math/big"
	"strconv"
	"strings"
)

// ---------------------------------------------------------------------------------------------
// helpers

func bt(jsonText string) string { return "`" + strings.ReplaceAll(jsonText, "`", "\\`") + "`" }

func rawLit(s string) string {
	s = strings.ReplaceAll(s, "\\", "\\\\")
	s = strings.ReplaceAll(s, "'", "\\'")
	return "'" + s + "'"
}

var uniPool = []string{"a", "b", "é", "€", "😀", "\u0301", "\ufffd", "\uffff", "\U00010000", "z", " ", "Σ", "я"}

func (c *GenCtx) uniString(maxLen int) string {
	n := c.Rng.Intn(maxLen + 1)
	var sb strings.Builder
	for i := 0; i < n; i++ {
		sb.WriteString(c.Rng.Pick(uniPool))
	}
	return sb.String()
}

var smallInts = []string{"-2", "-1", "0", "1", "2", "3", "5", "7", "10", "2.0", "2e0", "1.5", "-0", "1e1", "9223372036854775808", "1e400", "0.5e1"}

var bigInts = []string{"4611686018427387904", "-4611686018427387904", "9223372036854775807", "-9223372036854775808", "2147483648", "-2147483649"}

// ---------------------------------------------------------------------------------------------
// C12: slices, bounded-exhaustive

var specs13 = []string{":", "::", "1:", ":2", "1:3", "::2", "::-1", "-2:", ":-1", "3:1:-1", "0:0", "10:", "::0"}

func genSlices(c *GenCtx) {
	maxN := c.n(4, 7)
	mixed := []string{"a", "é", "€", "😀", "b", "\u0301", "c", "я"}
	for n := 0; n <= maxN; n++ {
		var elems []string
		for i := 0; i < n; i++ {
			elems = append(elems, strconv.Itoa(i))
		}
		arr := "[" + strings.Join(elems, ",") + "]"
		str := strings.Join(mixed[:n], "")
		// data-shape variants of the string (a fast path keyed on "all ASCII", "ASCII up to here" must see each): all
		// single-byte, single-byte with one multi-byte character last, multi-byte first and single-byte after it
		ascii := "abcdefgh"[:n]
		asciiLast, asciiFirst := ascii, ascii
		if n >= 1 {
			asciiLast = ascii[:n-1] + "é"
			asciiFirst = "€" + ascii[1:]
		}
		doc := `{"a":` + arr + `,"s":` + c.jstr(str) + `,"t":` + c.jstr(ascii) + `,"u":` + c.jstr(asciiLast) + `,"v":` + c.jstr(asciiFirst) + `}`
		vals := []string{""}
		for v := -n - 2; v <= n+2; v++ {
			vals = append(vals, strconv.Itoa(v))
		}
		vals = append(vals, "4611686018427387904", "-4611686018427387904", "9223372036854775807", "-9223372036854775808")
		for _, st := range vals {
			for _, sp := range vals {
				for _, step := range vals {
					var spec string
					if step == "" {
						if c.Rng.Bool() {
							spec = st + ":" + sp
						} else {
							spec = st + ":" + sp + ":"
						}
					} else {
						spec = st + ":" + sp + ":" + step
					}
					c.add("slice-arr", "a["+spec+"]", doc)
					c.add("slice-str", "s["+spec+"]", doc)
					c.add("slice-str-ascii", "t["+spec+"]", doc)
					if n >= 2 {
						c.add("slice-str-shape", "u["+spec+"]", doc)
						c.add("slice-str-shape", "v["+spec+"]", doc)
					}
				}
			}
		}
	}
	// slices as projections, on nulls, on other types, after other selectors
	docs := []string{`{"a":[null,{"b":1},{"b":null},{"b":[1,2]},3],"s":"héllo","o":{"x":1},"n":5}`,
		`{"a":[[1,2,3],[4,5],"xyz",null],"s":"","o":{},"n":null}`}
	tails := []string{"", ".b", "[0]", "[*]", ".b[0]", "[]", " | [0]", "[1:]", ".*", "[?b]"}
	heads := []string{"a", "s", "o", "n", "a[*]", "a[]", "@.a", "missing"}
	// bracket forms with no left operand: at the start, after a pipe, in parentheses, as an argument, as a member
	lead := []string{"%s", "@ | %s", "(%s)", "to_array(%s)", "[%s]", "{k: %s}", "a && %s", "!%s", "a | %s"}
	ldocs := []string{`["a",null,"b",null,"c"]`, `[[1,null],null,[null,2],{"b":null}]`, `"héllo"`, `{"a":[null,1]}`}
	for _, d := range ldocs {
		for _, l := range lead {
			for _, t := range []string{"", "[0]", ".b", "[*]", " | [0]", "[1:]", "[]"} {
				for _, s := range append([]string{"*", "?@", "0", "-1", ""}, specs13...) {
					c.add("slice-lead", fmt.Sprintf(l, "["+s+"]"+t), d)
				}
			}
		}
	}
	specs := specs13
	for _, d := range docs {
		for _, h := range heads {
			for _, s := range specs {
				for _, t := range tails {
					c.add("slice-ctx", h+"["+s+"]"+t, d)
				}
			}
		}
	}
	// indices around the sizes of the small integer types, on arrays long enough to hold them, with and without a left
	// operand and inside projections
	mk := func(n int) string {
		var sb strings.Builder
		sb.WriteString("[")
		for i := 0; i < n; i++ {
			if i > 0 {
				sb.WriteString(",")
			}
			sb.WriteString(strconv.Itoa(i))
		}
		sb.WriteString("]")
		return sb.String()
	}
	a300 := mk(300)
	for _, ix := range []int{0, 1, 126, 127, 128, 129, 254, 255, 256, 257, 258, 298, 299, 300, 301, 511, 512} {
		for _, sign := range []string{"", "-"} {
			lit := sign + strconv.Itoa(ix)
			c.add("index-boundary", "["+lit+"]", a300)
			c.add("index-boundary", "@["+lit+"]", a300)
			c.add("index-boundary", "rows[*]["+lit+"]", `{"rows":[`+a300+`,[0,1]]}`)
			c.add("index-boundary", "rows[0]["+lit+"]", `{"rows":[`+a300+`]}`)
			c.add("index-boundary", "["+lit+":]"+" | [0]", a300)
			c.add("index-boundary", "[:"+lit+"]"+" | length(@)", a300)
		}
	}
	// a truncating conversion shows on a short array too: the index must be out of range (null), not wrap to a small one
	for _, ix := range []string{"32767", "32768", "65535", "65536", "65537", "2147483647", "2147483648", "4294967295", "4294967296", "4294967297", "9223372036854775807"} {
		for _, sign := range []string{"", "-"} {
			c.add("index-boundary", "["+sign+ix+"]", a300)
			c.add("index-boundary", "@["+sign+ix+"]", `[0,1,2]`)
			c.add("index-boundary", "rows[*]["+sign+ix+"]", `{"rows":[[0,1,2],[3]]}`)
		}
	}
}

// ---------------------------------------------------------------------------------------------
// C02: builtin argument matrix

type fnSig struct {
	name     string
	min, max int // max < 0: variadic
	expAt    int // index of the &expr argument, -1 if none
}

var fnSigs = []fnSig{
	{"abs", 1, 1, -1}, {"avg", 1, 1, -1}, {"ceil", 1, 1, -1}, {"contains", 2, 2, -1}, {"ends_with", 2, 2, -1},
	{"find_first", 2, 4, -1}, {"find_last", 2, 4, -1}, {"floor", 1, 1, -1}, {"from_items", 1, 1, -1}, {"group_by", 2, 2, 1},
	{"items", 1, 1, -1}, {"join", 2, 2, -1}, {"keys", 1, 1, -1}, {"length", 1, 1, -1}, {"lower", 1, 1, -1}, {"map", 2, 2, 0},
	{"max", 1, 1, -1}, {"max_by", 2, 2, 1}, {"merge", 1, -1, -1}, {"min", 1, 1, -1}, {"min_by", 2, 2, 1}, {"not_null", 1, -1, -1},
	{"pad_left", 2, 3, -1}, {"pad_right", 2, 3, -1}, {"replace", 3, 4, -1}, {"reverse", 1, 1, -1}, {"sort", 1, 1, -1},
	{"sort_by", 2, 2, 1}, {"split", 2, 3, -1}, {"starts_with", 2, 2, -1}, {"sum", 1, 1, -1}, {"to_array", 1, 1, -1},
	{"to_number", 1, 1, -1}, {"to_string", 1, 1, -1}, {"trim", 1, 2, -1}, {"trim_left", 1, 2, -1}, {"trim_right", 1, 2, -1},
	{"type", 1, 1, -1}, {"upper", 1, 1, -1}, {"values", 1, 1, -1}, {"zip", 1, -1, -1},
}

// one representative per JSON type (and the interesting sub-cases)
var typeReps = []string{"null", "true", "1", "-1", "2.5", `"abc"`, `""`, `[1,2]`, `["a","b"]`, `[]`, `{"a":1}`, `{}`}

// a well-typed argument vector of maximal arity per builtin
var validArgs = map[string][]string{
	"abs": {"`-1`"}, "avg": {"`[1,2]`"}, "ceil": {"`1.5`"}, "contains": {"'abc'", "'b'"}, "ends_with": {"'abc'", "'c'"},
	"find_first": {"'abcabc'", "'b'", "`1`", "`5`"}, "find_last": {"'abcabc'", "'b'", "`1`", "`5`"}, "floor": {"`1.5`"},
	"from_items": {"`[[\"a\",1]]`"}, "group_by": {"`[{\"a\":\"x\"}]`", "&a"}, "items": {"`{\"a\":1}`"}, "join": {"','", "`[\"a\",\"b\"]`"},
	"keys": {"`{\"a\":1}`"}, "length": {"'abc'"}, "lower": {"'ABC'"}, "map": {"&@", "`[1,2]`"}, "max": {"`[1,2]`"},
	"max_by": {"`[{\"a\":1}]`", "&a"}, "merge": {"`{\"a\":1}`", "`{\"b\":2}`", "`{\"a\":3}`"}, "min": {"`[1,2]`"}, "min_by": {"`[{\"a\":1}]`", "&a"},
	"not_null": {"`null`", "`1`", "`2`"}, "pad_left": {"'abc'", "`5`", "'-'"}, "pad_right": {"'abc'", "`5`", "'-'"},
	"replace": {"'abcabc'", "'b'", "'x'", "`1`"}, "reverse": {"'abc'"}, "sort": {"`[2,1]`"}, "sort_by": {"`[{\"a\":1}]`", "&a"},
	"split": {"'a,b,c'", "','", "`1`"}, "starts_with": {"'abc'", "'a'"}, "sum": {"`[1,2]`"}, "to_array": {"`1`"}, "to_number": {"'1'"},
	"to_string": {"`1`"}, "trim": {"' a '", "' '"}, "trim_left": {"' a '", "' '"}, "trim_right": {"' a '", "' '"}, "type": {"`1`"},
	"upper": {"'abc'"}, "values": {"`{\"a\":1}`"}, "zip": {"`[1,2]`", "`[3,4]`", "`[5,6]`"},
}

var expReps = []string{"&@", "&a", "&to_string(@)", "&length(@)"}

func (c *GenCtx) fnCall(sig fnSig, args []string) string {
	return sig.name + "(" + strings.Join(args, ", ") + ")"
}

func genArgs(c *GenCtx) {
	genArgsNest(c)
	r := c.Rng
	doc := `{"a":1,"s":"abc","arr":[{"a":2,"k":"x"},{"a":1,"k":"y"},{"a":2,"k":"x"}]}`
	for _, sig := range fnSigs {
		maxAr := sig.max
		if maxAr < 0 {
			maxAr = 3
		}
		// every arity from 0 to max+1, every type at every position (sampled when the matrix is large)
		for ar := 0; ar <= maxAr+1; ar++ {
			total := 1
			for i := 0; i < ar; i++ {
				total *= len(typeReps)
			}
			budget := c.n(400, 30000)
			if total <= budget {
				idx := make([]int, ar)
				for {
					args := make([]string, ar)
					for i := range args {
						if i == sig.expAt {
							args[i] = expReps[idx[i]%len(expReps)]
						} else {
							args[i] = bt(typeReps[idx[i]])
						}
					}
					c.add("args-matrix", c.fnCall(sig, args), doc)
					j := ar - 1
					for j >= 0 {
						idx[j]++
						if idx[j] < len(typeReps) {
							break
						}
						idx[j] = 0
						j--
					}
					if j < 0 {
						break
					}
				}
			} else {
				for k := 0; k < budget; k++ {
					args := make([]string, ar)
					for i := range args {
						if i == sig.expAt {
							args[i] = r.Pick(expReps)
						} else {
							args[i] = bt(r.Pick(typeReps))
						}
					}
					c.add("args-matrix", c.fnCall(sig, args), doc)
				}
			}
		}
		// expression reference in the wrong place / missing
		if sig.expAt >= 0 {
			c.add("args-expref", sig.name+"(`[1]`, `[1]`)", doc)
			c.add("args-expref", sig.name+"(&a, &a)", doc)
		} else if sig.min >= 1 {
			args := make([]string, sig.min)
			for i := range args {
				args[i] = "&a"
			}
			c.add("args-expref", c.fnCall(sig, args), doc)
		}
	}
	// one position at a time away from a well-typed call: every arity, every position, every type representative (as a
	// literal and as a reference into the document), so that no optional position is left to sampling
	for _, sig := range fnSigs {
		base, ok := validArgs[sig.name]
		if !ok {
			continue
		}
		for ar := sig.min; ar <= len(base); ar++ {
			for pos := 0; pos < ar; pos++ {
				if pos == sig.expAt {
					continue
				}
				subs := []string{"missing", "nul", "@", "$"}
				for _, t := range typeReps {
					subs = append(subs, bt(t))
				}
				for _, sub := range subs {
					args := append([]string(nil), base[:ar]...)
					args[pos] = sub
					c.add("args-oneoff", c.fnCall(sig, args), `{"nul":null,"a":1}`)
				}
			}
		}
	}
	// malformed argument lists: at every position a missing comma, a wrong closing token, a trailing comma, nothing
	for _, sig := range fnSigs {
		maxAr := sig.max
		if maxAr < 0 {
			maxAr = 3
		}
		for k := 1; k <= maxAr+1; k++ {
			args := make([]string, k)
			for i := range args {
				args[i] = "a"
				if i == sig.expAt {
					args[i] = "&a"
				}
			}
			good := strings.Join(args, ", ")
			for _, bad := range []string{good + " b", good + "]", good + ",", good + ", )", good + " &b", strings.Replace(good, ", ", " ", 1), good + ")", "," + good, good + ", ,b"} {
				c.add("args-syntax", sig.name+"("+bad+")", doc)
			}
			c.add("args-syntax", sig.name+"("+good, doc)
		}
	}
	// well-typed calls with boundary values
	ints := []string{"-2", "-1", "0", "1", "2", "3", "5", "100", "2.0", "2e0", "1.5", "2.5", "0.5", "-1.5", "1e-1", "-0", "4611686018427387904", "9223372036854775807", "-9223372036854775808", "9223372036854775808", "1e400"}
	strs := []string{"", "a", "abc", "abcabc", "aaa", "héllo", "€€", "😀x😀", "a b  ", "  a", "\u0301e", "x\ufffdy", "AbC", "ΣΑΣ", "Яя"}
	pats := []string{"", "a", "b", "bc", "aa", "é", "€", "😀", " ", "x", "l", "ab"}
	n := c.n(6000, 200000)
	for k := 0; k < n; k++ {
		s := rawLit(r.Pick(strs))
		p := rawLit(r.Pick(pats))
		i := bt(r.Pick(ints))
		j := bt(r.Pick(ints))
		var e string
		switch r.Intn(22) {
		case 0:
			e = fmt.Sprintf("find_first(%s, %s)", s, p)
		case 1:
			e = fmt.Sprintf("find_first(%s, %s, %s)", s, p, i)
		case 2:
			e = fmt.Sprintf("find_first(%s, %s, %s, %s)", s, p, i, j)
		case 3:
			e = fmt.Sprintf("find_last(%s, %s)", s, p)
		case 4:
			e = fmt.Sprintf("find_last(%s, %s, %s)", s, p, i)
		case 5:
			e = fmt.Sprintf("find_last(%s, %s, %s, %s)", s, p, i, j)
		case 6:
			e = fmt.Sprintf("pad_left(%s, %s)", s, bt(r.Pick(smallInts)))
		case 7:
			e = fmt.Sprintf("pad_right(%s, %s, %s)", s, bt(r.Pick(smallInts)), p)
		case 8:
			e = fmt.Sprintf("pad_left(%s, %s, %s)", s, bt(r.Pick(smallInts)), p)
		case 9:
			e = fmt.Sprintf("replace(%s, %s, %s)", s, p, rawLit(r.Pick(pats)))
		case 10:
			e = fmt.Sprintf("replace(%s, %s, %s, %s)", s, p, rawLit(r.Pick(pats)), i)
		case 11:
			e = fmt.Sprintf("split(%s, %s)", s, p)
		case 12:
			e = fmt.Sprintf("split(%s, %s, %s)", s, p, i)
		case 13:
			e = fmt.Sprintf("trim(%s, %s)", s, p)
		case 14:
			e = fmt.Sprintf("%s(%s, %s)", r.Pick([]string{"trim_left", "trim_right", "starts_with", "ends_with", "contains"}), s, p)
		case 15:
			e = fmt.Sprintf("%s(%s)", r.Pick([]string{"length", "reverse", "upper", "lower", "trim", "trim_left", "trim_right", "to_number", "to_string", "to_array", "type"}), s)
		case 16:
			e = fmt.Sprintf("join(%s, [%s, %s, %s])", p, s, rawLit(r.Pick(strs)), rawLit(r.Pick(pats)))
		case 17:
			e = fmt.Sprintf("%s(%s)", r.Pick([]string{"abs", "ceil", "floor", "to_number", "to_string", "type", "to_array"}), i)
		case 18:
			e = fmt.Sprintf("to_number(%s)", rawLit(r.Pick([]string{"1", "-1", "1.5", "1e2", "01", "+1", ".5", "5.", "", "null", " 1", "1 ", "1e", "0x10", "1_0", "NaN", "Infinity", "-0", "1E+2", "12345678901234567890123456789012345678"})))
		case 19:
			e = fmt.Sprintf("from_items(%s)", bt(r.Pick([]string{`[["a",1],["b",2]]`, `[["a",1],["a",2]]`, `[[1,1]]`, `[["a"]]`, `[["a",1,2]]`, `["a"]`, `[[null,1]]`, `[]`, `[["",null]]`})))
		case 20:
			e = fmt.Sprintf("%s(%s)", r.Pick([]string{"items", "keys", "values", "length", "to_string", "sort(keys(@))||to_array"}), bt(r.Pick([]string{`{"a":1,"b":[2]}`, `{}`, `{"a":null}`, `{"b":1,"a":2,"c":3}`})))
		default:
			e = fmt.Sprintf("zip(%s, %s)", bt(r.Pick([]string{`[1,2,3]`, `[]`, `["a"]`, `[[1],[2]]`})), bt(r.Pick([]string{`[1,2]`, `[null]`, `["x","y","z"]`})))
		}
		c.add("args-boundary", e, doc)
	}
}

// ---------------------------------------------------------------------------------------------
// C11: strings over the Unicode pool, every position

func genStrings(c *GenCtx) {
	r := c.Rng
	n := c.n(8000, 200000)
	for k := 0; k < n; k++ {
		s := c.uniString(6)
		p := c.uniString(2)
		L := len([]rune(s))
		pos := func() string { return strconv.Itoa(r.Intn(2*L+5) - L - 2) }
		doc := `{"s":` + c.jstr(s) + `,"p":` + c.jstr(p) + `,"arr":[` + c.jstr(c.uniString(3)) + `,` + c.jstr(c.uniString(3)) + `,` + c.jstr(s) + `]}`
		var e string
		switch r.Intn(20) {
		case 0:
			e = "length(s)"
		case 1:
			e = "s[" + pos() + ":" + pos() + "]"
		case 2:
			e = "s[" + pos() + ":" + pos() + ":" + r.Pick([]string{"1", "2", "-1", "-2", "3"}) + "]"
		case 3:
			e = "reverse(s)"
		case 4:
			e = "find_first(s, p)"
		case 5:
			e = "find_first(s, p, `" + pos() + "`)"
		case 6:
			e = "find_first(s, p, `" + pos() + "`, `" + pos() + "`)"
		case 7:
			e = "find_last(s, p, `" + pos() + "`, `" + pos() + "`)"
		case 8:
			e = "find_last(s, p)"
		case 9:
			e = "pad_left(s, `" + strconv.Itoa(r.Intn(L+4)) + "`, " + rawLit(r.Pick(uniPool)) + ")"
		case 10:
			e = "pad_right(s, `" + strconv.Itoa(r.Intn(L+4)) + "`)"
		case 11:
			e = "split(s, '')"
		case 12:
			e = "split(s, p)"
		case 13:
			e = "split(s, '', `" + strconv.Itoa(r.Intn(L+3)) + "`)"
		case 14:
			e = "join(p, arr)"
		case 15:
			e = "replace(s, p, " + rawLit(r.Pick(uniPool)) + ")"
		case 16:
			e = r.Pick([]string{"trim", "trim_left", "trim_right"}) + "(s, p)"
		case 17:
			e = r.Pick([]string{"sort(arr)", "max(arr)", "min(arr)", "sort_by(arr, &@)", "max_by(arr, &@)", "min_by(arr, &@)"})
		case 18:
			e = r.Pick([]string{"contains(s, p)", "starts_with(s, p)", "ends_with(s, p)", "s == p", "s < p"})
		default:
			e = r.Pick([]string{"upper(s)", "lower(s)", "to_string(s)", "to_string(arr)", "s[::-1]", "length(arr[0])"})
		}
		c.add("strings", e, doc)
		// the same with the string written as a literal in the expression
		if r.Chance(30) {
			if strings.HasPrefix(e, "length(s)") || strings.HasPrefix(e, "reverse(s)") || strings.HasPrefix(e, "s[") {
				c.add("strings-lit", strings.Replace(e, "s", rawLit(s), 1)[0:0]+strings.Replace(strings.Replace(e, "(s)", "("+rawLit(s)+")", 1), "s[", rawLit(s)+"[", 1), `{}`)
			}
		}
	}
}

// ---------------------------------------------------------------------------------------------
// C05: decimal arithmetic

func (c *GenCtx) decimalText() string {
	r := c.Rng
	nd := 1 + r.Intn(34)
	if r.Chance(30) {
		nd = 1 + r.Intn(4)
	}
	var sb strings.Builder
	if r.Chance(35) {
		sb.WriteString("-")
	}
	digits := make([]byte, nd)
	for i := range digits {
		digits[i] = byte('0' + r.Intn(10))
	}
	if r.Chance(15) {
		for i := range digits {
			digits[i] = '9'
		}
	}
	if digits[0] == '0' && nd > 1 {
		digits[0] = byte('1' + r.Intn(9))
	}
	switch r.Intn(4) {
	case 0:
		sb.Write(digits)
	case 1:
		k := r.Intn(nd)
		if k == 0 {
			sb.WriteString("0.")
			sb.Write(digits)
		} else {
			sb.Write(digits[:k])
			sb.WriteString(".")
			sb.Write(digits[k:])
		}
	case 2:
		sb.Write(digits[:1])
		if nd > 1 {
			sb.WriteString(".")
			sb.Write(digits[1:])
		}
		e := r.Intn(80) - 40
		if r.Chance(10) {
			e = r.Intn(12200) - 6100
		}
		sb.WriteString("e" + strconv.Itoa(e))
	default:
		sb.Write(digits)
		sb.WriteString("E+" + strconv.Itoa(r.Intn(30)))
	}
	return sb.String()
}

// results at and beyond the edge of the decimal range, with every sign combination
func genOverflow(c *GenCtx) {
	r := c.Rng
	// every operator on every pair of range-end operands, both signs: overflow upwards and downwards, underflow
	ends := []string{"9e6144", "-9e6144", "5e6144", "-5e6144", "1e6144", "-1e6144", "9.999999999999999999999999999999999e6144", "-9.999999999999999999999999999999999e6144",
		"1e-6176", "-1e-6176", "1e6000", "-1e6000", "1e-6000", "-1e-6000", "2", "-2", "0"}
	for _, a := range ends {
		for _, b := range ends {
			for _, e := range []string{"a + b", "a - b", "a * b", "a / b", "a // b", "a % b", "sum([a, b])", "avg([a, b])", "sum([a, b, a])", "-a - b", "a + b + a", "abs(a) + abs(b)"} {
				c.add("overflow-ends", e, `{"a":`+a+`,"b":`+b+`}`)
			}
		}
	}
	bigs := []string{"1e6000", "-1e6000", "9e6144", "-9e6144", "1e3100", "-1e3100", "5e6143", "-5e6143", "1e-6000", "-1e-6000", "1e-3100", "2", "-2", "0", "-0", "1e200", "-1e200", "0.5", "-3"}
	for k := 0; k < c.n(3000, 60000); k++ {
		a, b := r.Pick(bigs), r.Pick(bigs)
		doc := `{"a":` + a + `,"b":` + b + `,"arr":[` + a + `,` + b + `,` + r.Pick(bigs) + `]}`
		e := r.Pick([]string{"a * b", "a / b", "a + b", "a - b", "a // b", "a % b", "sum(arr)", "avg(arr)", "a * b * arr[2]", "a / b / arr[2]", "-a * b", "abs(a) * b", "a * `1e6000`", "`-1e6000` * b",
			"[a * b]", "{p: a / b}", "to_string(a * b)", "type(a * b)", "a * b == a * b", "max([a * b, a])", "sort([a / b, b])", "ceil(a * b)", "floor(a / b)", "arr[*] | [0] * [1]", "map(&(@ * `1e6000`), arr)"})
		c.add("overflow", e, doc)
	}
}

func genNumbers(c *GenCtx) {
	genLitPadded(c)
	r := c.Rng
	ops := []string{"+", "-", "*", "/", "//", "%", "==", "!=", "<", "<=", ">", ">=", "×", "÷", "−"}
	special := []string{"0", "-0", "1", "-1", "0.1", "0.2", "0.5", "1.5", "2.5", "3", "7", "-7", "10", "1e-10", "1e34", "9999999999999999999999999999999999",
		"9223372036854775807", "9223372036854775808", "-9223372036854775808", "1e6144", "1e-6176", "9.999999999999999999999999999999999e6144", "1e6145", "5e-6177", "1e400"}
	n := c.n(12000, 300000)
	for k := 0; k < n; k++ {
		a, b := c.decimalText(), c.decimalText()
		if r.Chance(25) {
			a = r.Pick(special)
		}
		if r.Chance(25) {
			b = r.Pick(special)
		}
		doc := `{"a":` + a + `,"b":` + b + `,"arr":[` + a + `,` + b + `,` + c.decimalText() + `]}`
		var e string
		switch r.Intn(10) {
		case 0, 1, 2, 3, 4:
			e = "a " + r.Pick(ops) + " b"
		case 5:
			e = r.Pick([]string{"sum(arr)", "avg(arr)", "max(arr)", "min(arr)", "sort(arr)"})
		case 6:
			e = r.Pick([]string{"abs(a)", "ceil(a)", "floor(a)", "-a", "+a", "to_number(to_string(a))", "to_string(a)"})
		case 7:
			e = bt(a) + " " + r.Pick(ops) + " " + bt(b)
		case 8:
			e = "to_number('" + a + "') " + r.Pick(ops) + " b"
		default:
			e = "(a " + r.Pick(ops[:6]) + " b) " + r.Pick(ops[:6]) + " arr[2]"
		}
		c.add("numbers", e, doc)
	}
}

// ---------------------------------------------------------------------------------------------
// C13: ordering

func genSort(c *GenCtx) {
	r := c.Rng
	n := c.n(1500, 20000)
	maxLen := c.n(40, 400)
	for k := 0; k < n; k++ {
		l := r.Intn(maxLen + 1)
		if r.Chance(30) {
			l = r.Intn(6)
		}
		keyKinds := r.Intn(4)
		var elems []string
		var plain []string
		nkeys := 1 + r.Intn(4)
		for i := 0; i < l; i++ {
			var key string
			switch keyKinds {
			case 0:
				key = strconv.Itoa(r.Intn(nkeys))
			case 1:
				key = r.Pick([]string{"1", "1.0", "1e0", "2", "2.00", "0.5", "-1", "10"})
			case 2:
				key = c.jstr(r.Pick([]string{"a", "b", "é", "€", "😀", "", "ab", "B", "\uffff", "\U00010000"}))
			default:
				key = r.Pick([]string{"1", c.jstr("a"), "null", "2", "true", c.jstr(""), c.jstr("b"), "0", "-1", c.jstr("a"), c.jstr("")})
			}
			elems = append(elems, fmt.Sprintf(`{"k":%s,"i":%d}`, key, i))
			plain = append(plain, key)
		}
		doc := `{"objs":[` + strings.Join(elems, ",") + `],"plain":[` + strings.Join(plain, ",") + `]}`
		e := r.Pick([]string{"sort_by(objs, &k)[*].i", "sort_by(objs, &k)", "max_by(objs, &k)", "min_by(objs, &k)", "sort(plain)", "max(plain)", "min(plain)",
			"sort_by(objs, &k)[*].i | [0]", "reverse(sort_by(objs, &k))[*].i", "sort_by(plain, &@)", "max_by(plain, &@)", "min_by(plain, &@)", "min_by(objs, &k).i", "max_by(objs, &k).i", "group_by(objs, &to_string(k))", "sort_by(objs, &to_string(k))[*].i", "[sort_by(objs, &k), objs]"})
		c.add("sort", e, doc)
	}
	// nested sorts: a sort inside the key expression of another sort (same and different key kinds, inner arrays
	// shorter and longer than the outer one), sorts of sorts, and sorts on both sides of one expression
	nestExprs := []string{
		"sort_by(teams, &sort_by(members, &age)[0].age)[*].name", "sort_by(teams, &sort_by(members, &age)[-1].age)[*].name",
		"sort_by(teams, &max_by(members, &age).age)[*].name", "sort_by(teams, &min_by(members, &nick).nick)[*].name",
		"sort_by(teams, &sort_by(members, &nick)[0].nick)[*].name", "sort_by(teams, &sort(members[*].age)[0])[*].name",
		"sort_by(teams, &sort_by(members, &nick)[0].age)[*].name", "sort_by(teams, &name)[*].sort_by(members, &age)[*].nick",
		"sort_by(sort_by(teams, &name), &length(members))[*].name", "[sort_by(teams, &name)[*].name, sort_by(teams, &length(members))[*].name]",
		"max_by(teams, &sort_by(members, &age)[0].age).name", "sort_by(teams, &sum(sort(members[*].age)))[*].name",
		"map(&sort_by(members, &age)[0].nick, sort_by(teams, &name))", "sort_by(teams, &to_string(sort_by(members, &age)[*].age))[*].name"}
	for k := 0; k < n/3+20; k++ {
		nt := 2 + r.Intn(5)
		var teams []string
		for t := 0; t < nt; t++ {
			nm := 1 + r.Intn(6)
			var ms []string
			for m := 0; m < nm; m++ {
				ms = append(ms, fmt.Sprintf(`{"age":%d,"nick":%s}`, r.Intn(40), c.jstr(r.Pick([]string{"a", "b", "c", "é", "zz", "B", "ab"})+strconv.Itoa(r.Intn(5)))))
			}
			teams = append(teams, fmt.Sprintf(`{"name":%s,"members":[%s]}`, c.jstr(string(rune('a'+r.Intn(26)))+strconv.Itoa(t)), strings.Join(ms, ",")))
		}
		c.add("sort-nested", r.Pick(nestExprs), `{"teams":[`+strings.Join(teams, ",")+`]}`)
	}
}

// genAlias: every array- or object-consuming operation applied to operands that may be the caller's own value (or a
// literal stored in the compiled expression) rather than a copy, with the operand observed again afterwards in the
// same expression; the C06 judges additionally compare the document before and after, and repeated calls.
func genAlias(c *GenCtx) {
	r := c.Rng
	docs := []string{
		`{"x":[3,1,2],"y":[5,4],"o":{"b":2,"a":1},"s":["b","a","c"],"n":[3,null,1,null,2],"e":[],"m":[[2,1],[4,3]]}`,
		`{"x":[2,1],"y":[],"o":{"z":[3,1,2]},"s":["é","a"],"n":[null,2,1],"e":[],"m":[[1],[3,2]]}`,
		`{"x":[9,8,7,6,5,4,3,2,1,0,11,10,13,12],"y":[1],"o":{},"s":["c","b","a"],"n":[1,null],"e":[],"m":[]}`}
	operands := []string{"`{\"q\": 0}`", "`{\"q\": [2, 1]}`.q", "x", "x[*]", "x[]", "x[:]", "x[0:]", "@.x", "$.x", "(x)", "x || y", "e || x", "x && x", "[x][0]", "{a: x}.a", "not_null(x)", "not_null(e[0], x)",
		"let $v = x in $v", "`[3,1,2]`", "`[3,1,2]`[*]", "s", "s[*]", "n", "n[*]", "n[]", "m[0]", "m[]", "m[*][0]", "o.z", "values(o)", "to_array(x)", "to_array(x)[*]",
		"x[?@ > `0`]", "map(&@, x)", "merge(o, o)", "o", "sort(x)", "reverse(x)"}
	fns := []string{"merge(%s, o)", "merge(%s, @)", "merge(o, %s)", "merge(%s, {w: x})", "sort(%s)", "reverse(%s)", "sort_by(%s, &@)", "max(%s)", "min(%s)", "%s[*]", "%s[]", "%s[::-1]", "%s[1:]", "map(&@, %s)", "not_null(%s)", "to_array(%s)",
		"sort(%s)[0]", "merge(%s, {q: `1`})", "values(%s)", "keys(%s)", "items(%s)", "from_items(items(%s))", "group_by(%s, &to_string(@))", "zip(%s, %s)", "join(',', %s)",
		"sum(%s)", "avg(%s)", "length(%s)", "contains(%s, `1`)", "%s | sort(@)", "%s | reverse(@)", "sort(%s[*])", "reverse(%s[*])", "sort(%s[])", "sort(sort(%s))"}
	n := c.n(2500, 40000)
	for k := 0; k < n; k++ {
		op := r.Pick(operands)
		e := strings.ReplaceAll(r.Pick(fns), "%s", op)
		switch r.Intn(4) {
		case 0:
			e = "[" + e + ", " + op + "]"
		case 1:
			e = "[" + op + ", " + e + ", " + op + "]"
		case 2:
			e = "[" + e + ", " + e + ", @]"
		}
		c.add("alias", e, r.Pick(docs))
	}
}

// ---------------------------------------------------------------------------------------------
// C14: the same document under different Go representations of its numbers

var intKinds = []struct {
	name     string
	min, max string
}{{"i8", "-128", "127"}, {"i16", "-32768", "32767"}, {"i32", "-2147483648", "2147483647"}, {"i64", "-9223372036854775808", "9223372036854775807"},
	{"int", "-9223372036854775808", "9223372036854775807"}, {"u8", "0", "255"}, {"u16", "0", "65535"}, {"u32", "0", "4294967295"},
	{"u64", "0", "18446744073709551615"}, {"uint", "0", "18446744073709551615"}}

// retype rewrites a plain number token into a tagged value of the requested kind if the value is exactly
// representable in it; returns "" otherwise. The value must be given as an integer or a short decimal.
func retype(num string, kind string) string {
	rat, ok := new(big.Rat).SetString(num)
	if !ok {
		return ""
	}
	switch kind {
	case "jnum":
		return num
	case "dec":
		return `{"#":"dec","v":"` + num + `"}`
	case "f64", "f32":
		// exactly representable iff the denominator is a power of two and the mantissa fits
		den := rat.Denom()
		if new(big.Int).And(den, new(big.Int).Sub(den, big.NewInt(1))).Sign() != 0 {
			return ""
		}
		m := new(big.Int).Set(rat.Num())
		neg := m.Sign() < 0
		m.Abs(m)
		e := -(den.BitLen() - 1)
		for m.Sign() != 0 && m.Bit(0) == 0 {
			m.Rsh(m, 1)
			e++
		}
		limit := 53
		if kind == "f32" {
			limit = 24
		}
		if m.BitLen() > limit || e < -100 || e > 100 {
			return ""
		}
		s := m.String() + "p" + strconv.Itoa(e)
		if m.Sign() == 0 {
			s = "0p0"
		}
		if neg {
			s = "-" + s
		}
		return `{"#":"` + kind + `","v":"` + s + `"}`
	}
	if !rat.IsInt() {
		return ""
	}
	for _, ik := range intKinds {
		if ik.name == kind {
			lo, _ := new(big.Int).SetString(ik.min, 10)
			hi, _ := new(big.Int).SetString(ik.max, 10)
			if rat.Num().Cmp(lo) < 0 || rat.Num().Cmp(hi) > 0 {
				return ""
			}
			return `{"#":"` + kind + `","v":"` + rat.Num().String() + `"}`
		}
	}
	return ""
}

var allKinds = []string{"jnum", "dec", "f64", "f32", "i8", "i16", "i32", "i64", "int", "u8", "u16", "u32", "u64", "uint"}

// typedNum picks a random representation that holds the value exactly.
func (c *GenCtx) typedNum(num string) string {
	for tries := 0; tries < 8; tries++ {
		if t := retype(num, c.Rng.Pick(allKinds)); t != "" {
			return t
		}
	}
	return num
}

func genRepr(c *GenCtx) {
	r := c.Rng
	nums := []string{"0", "1", "2", "3", "-1", "-7", "7", "10", "100", "0.5", "1.5", "2.5", "-0.25", "255", "256", "65536", "2147483648", "-3", "4", "1024"}
	exprs := []string{"a + b", "a - b", "a * b", "a / b", "a // b", "a % b", "a == b", "a != b", "a < b", "a <= b", "a > b", "a >= b",
		"sort(arr)", "max(arr)", "min(arr)", "sum(arr)", "avg(arr)", "abs(a)", "ceil(a)", "floor(a)", "-a", "+a", "type(a)", "!a", "a && b", "a || b",
		"contains(arr, a)", "arr[?@ == a]", "arr[?@ > b]", "sort_by(objs, &k)[*].i", "max_by(objs, &k).i", "min_by(objs, &k).i", "to_number(a)", "to_array(a)",
		"pad_left('x', a)", "pad_right('x', b, '-')", "find_first('abcabc', 'b', a)", "split('a,b,c,d', ',', a)", "replace('aaaa', 'a', 'b', a)",
		"[a, b] == [b, a]", "{x: a} == {x: b}", "length(arr)", "arr[a]", "not_null(a, b)", "zip(arr, arr)", "arr == arr", "group_by(objs, &to_string(type(k)))",
		"a // b * b + a % b == a", "-a // b", "(-a) // b", "sum(arr) / `2`", "avg(arr) == sum(arr) / length(arr)"}
	n := c.n(6000, 150000)
	for k := 0; k < n; k++ {
		a, b, x := r.Pick(nums), r.Pick(nums), r.Pick(nums)
		mk := func() string {
			return `{"a":` + c.typedNum(a) + `,"b":` + c.typedNum(b) + `,"arr":[` + c.typedNum(a) + `,` + c.typedNum(x) + `,` + c.typedNum(b) + `],"objs":[{"k":` +
				c.typedNum(a) + `,"i":0},{"k":` + c.typedNum(b) + `,"i":1},{"k":` + c.typedNum(x) + `,"i":2}]}`
		}
		e := r.Pick(exprs)
		if strings.Contains(e, "pad_") {
			a, b = r.Pick(nums[:9]), r.Pick(nums[:9])
		}
		c.add("repr", e, mk())
	}
	// the ends of the integer kinds (no float representations here: the float fast path is inexact up there by design)
	big := []string{"127", "128", "-128", "-129", "255", "32767", "32768", "-32768", "65535", "2147483647", "2147483648", "-2147483648", "4294967295", "4294967296",
		"9007199254740992", "9007199254740993", "9223372036854775807", "9223372036854775808", "-9223372036854775808", "18446744073709551615", "18446744073709551614", "1", "0", "-1", "2"}
	exact := []string{"jnum", "dec", "i8", "i16", "i32", "i64", "int", "u8", "u16", "u32", "u64", "uint"}
	tn := func(num string) string {
		for tries := 0; tries < 12; tries++ {
			if t := retype(num, r.Pick(exact)); t != "" {
				return t
			}
		}
		return num
	}
	for k := 0; k < n/3; k++ {
		a, b, x := r.Pick(big), r.Pick(big), r.Pick(big)
		e := r.Pick(exprs)
		if strings.Contains(e, "pad_") {
			continue
		}
		c.add("repr-ends", e, `{"a":`+tn(a)+`,"b":`+tn(b)+`,"arr":[`+tn(a)+`,`+tn(x)+`,`+tn(b)+`],"objs":[{"k":`+tn(a)+`,"i":0},{"k":`+tn(b)+`,"i":1},{"k":`+tn(x)+`,"i":2}]}`)
	}
	// integer arguments at the ends of the int64 range in every representation that holds them, floats included
	// (no arithmetic here, so the float fast path is not involved)
	intArgExprs := []string{"find_first('abcabc', 'b', a)", "find_last('abcabc', 'b', a)", "find_first('abcabc', 'b', `0`, a)", "pad_left('x', a)", "pad_right('x', a, '-')",
		"split('a,b,c', ',', a)", "replace('aaa', 'a', 'b', a)", "to_number(a)", "a == b", "a < b", "abs(a)", "ceil(a)", "floor(a)", "-a", "type(a)", "[a, b] | sort(@)", "max([a, b])", "contains([a], b)"}
	ends := []string{"9223372036854775808", "-9223372036854775808", "9223372036854775807", "4611686018427387904", "-4611686018427387904", "2147483648", "18446744073709551616", "-9223372036854777856",
		"9007199254740992", "0", "1", "-1", "3"}
	for k := 0; k < n/4; k++ {
		a, b := r.Pick(ends), r.Pick(ends)
		e := r.Pick(intArgExprs)
		if strings.Contains(e, "pad_") && len(a) > 3 && a[0] != '-' {
			continue // a huge positive width is a legitimate huge result
		}
		c.add("repr-intarg", e, `{"a":`+c.typedNum(a)+`,"b":`+c.typedNum(b)+`}`)
	}
}

// ---------------------------------------------------------------------------------------------
// C16: literals

func jsonEscape(c *GenCtx, s string, policy int) string {
	var sb strings.Builder
	sb.WriteByte('"')
	for _, ru := range s {
		switch {
		case ru == '"':
			sb.WriteString(`\"`)
		case ru == '\\':
			sb.WriteString(`\\`)
		case ru < 0x20:
			switch {
			case ru == '\n' && policy != 2:
				sb.WriteString(`\n`)
			case ru == '\t' && policy != 2:
				sb.WriteString(`\t`)
			default:
				fmt.Fprintf(&sb, `\u%04x`, ru)
			}
		case policy == 1 && ru > 0x7e && ru < 0x10000:
			fmt.Fprintf(&sb, `\u%04X`, ru)
		case policy == 1 && ru >= 0x10000:
			r1 := 0xD800 + ((ru - 0x10000) >> 10)
			r2 := 0xDC00 + ((ru - 0x10000) & 0x3FF)
			fmt.Fprintf(&sb, `\u%04x\u%04X`, r1, r2)
		case ru == '/' && policy == 2:
			sb.WriteString(`\/`)
		default:
			sb.WriteRune(ru)
		}
	}
	sb.WriteByte('"')
	return sb.String()
}

var litAlphabet = []string{"'", "\"", "`", "\\", "\n", "\t", "\x00", "\x1f", "é", "😀", "\ufffd", "\uffff", "a", "b", " ", "/", "u", "n", "\\\\", "\\'", "\\`", "{", "}", "[", "]", ":", ",", "\u2028", "\x7f", "$"}

func genLiterals(c *GenCtx) {
	genLitPositions(c)
	genLitPadded(c)
	genLitAdjacent(c)
	r := c.Rng
	n := c.n(6000, 150000)
	for k := 0; k < n; k++ {
		l := r.Intn(7)
		var sb strings.Builder
		for i := 0; i < l; i++ {
			sb.WriteString(r.Pick(litAlphabet))
		}
		s := sb.String()
		switch r.Intn(5) {
		case 0: // raw string
			c.add("lit-raw", rawLit(s), "null")
		case 1: // JSON string literal
			c.add("lit-json-str", bt(jsonEscape(c, s, r.Intn(3))), "null")
		case 2: // quoted identifier selecting the member named s
			doc := `{` + c.jstr(s) + `:1,"other":2}`
			c.add("lit-qid", jsonEscape(c, s, r.Intn(3)), doc)
		case 3: // JSON value literal
			v := c.doc(3)
			c.add("lit-json-val", bt(v), "null")
			if r.Chance(30) {
				c.add("lit-json-val", "`  "+strings.ReplaceAll(v, ",", " , ")+"\n`", "null")
			}
		default: // numbers at full precision
			num := c.decimalText()
			c.add("lit-json-num", bt(num), "null")
			c.add("lit-json-num", bt("["+num+", {\"k\": "+num+"}]"), "null")
		}
	}
	// mutations of well-formed literals: trailing junk, deleted / inserted / swapped characters, truncation
	junk := []string{"]", "}", ",", ":", "x", "1", " 1", "\"", "'", "\\", "[", "{", "`", " ", "]]", "} x", "null", "e", ".", "-"}
	for k := 0; k < c.n(6000, 150000); k++ {
		var body, open, close string
		switch r.Intn(4) {
		case 0:
			body, open, close = c.doc(2), "`", "`"
		case 1:
			body, open, close = c.decimalText(), "`", "`"
		case 2:
			body, open, close = jsonEscape(c, r.Pick(strPool)+r.Pick(litAlphabet), r.Intn(3)), "`", "`"
			body = strings.ReplaceAll(body, "`", "\\`")
		default:
			b := jsonEscape(c, r.Pick(strPool)+r.Pick(litAlphabet), r.Intn(3))
			body, open, close = b[1:len(b)-1], "\"", "\""
		}
		bs := []byte(body)
		switch r.Intn(6) {
		case 0:
			bs = append(bs, r.Pick(junk)...)
		case 1:
			if len(bs) > 0 {
				i := r.Intn(len(bs))
				bs = append(bs[:i], bs[i+1:]...)
			}
		case 2:
			i := r.Intn(len(bs) + 1)
			bs = append(bs[:i], append([]byte(r.Pick(junk)), bs[i:]...)...)
		case 3:
			if len(bs) > 1 {
				i, j := r.Intn(len(bs)), r.Intn(len(bs))
				bs[i], bs[j] = bs[j], bs[i]
			}
		case 4:
			bs = bs[:r.Intn(len(bs)+1)]
		default:
			bs = append([]byte(r.Pick(junk)), bs...)
		}
		c.add("lit-mutated", open+string(bs)+close, `{"":1,"a":2,"abc":3}`)
	}
	// malformed literals must be rejected (C04) — compared with the model's verdict
	bad := []string{"`\"abc`", "`\"abc\"x`", "`[1,`", "`{\"a\":}`", "`01`", "`1.`", "`.5`", "`+1`", "`tru`", "`nul`", "``", "` `", "`1 2`", "`\"\\x\"`", "`\"\\u12\"`", "`'a'`",
		"\"\\uD83D\\u!!!!\"", "\"\\uD83Dxu0041\"", "\"\\ud83d\"", "\"\\u12\"", "\"\\x\"", "\"a\tb\"", "\"\"", "'abc", "\"abc", "`abc", "'a\\'", "\"\\uDC00\\uD83D\"", "\"\\ud83d\\ude00\"", "`\"\\ud83d\"`", "`\"\\udc00x\"`"}
	for _, b := range bad {
		c.add("lit-malformed", b, `{"":1,"a\tb":2}`)
	}
	// \u followed by four characters of which one is not a hex digit (signs, blanks, x, underscore, g), in each position,
	// for the first and the second half of a surrogate pair, in quoted identifiers and JSON literals
	for _, junk := range []string{"+", "-", " ", "x", "_", "g", "G", ".", "０"} {
		for pos := 0; pos < 4; pos++ {
			hex := []string{"0", "0", "4", "1"}
			hex[pos] = junk
			h := strings.Join(hex, "")
			sur := []string{"d", "e", "0", "0"}
			sur[pos] = junk
			hs := strings.Join(sur, "")
			for _, form := range []string{`"\u` + h + `"`, "`\"\\u" + h + "\"`", `"a\u` + h + `b"`, `"\ud83d\u` + hs + `"`, "`\"\\ud83d\\u" + hs + "\"`", `{"\u` + h + `": a}`, `a."\u` + h + `"`} {
				c.add("lit-malformed", form, `{"A":1,"a":2}`)
			}
		}
	}
	// every character after a backslash, in each kind of literal and in each position (bounded-exhaustive)
	var after []string
	for ch := 0x20; ch < 0x7f; ch++ {
		after = append(after, string(rune(ch)))
	}
	after = append(after, "\n", "\t", "\x00", "\x7f", "é", "€", "😀", "\u0301", "\ufffd", "\uffff", "\U00010000", "\u2028", "ÿ", "\u0080", "\xff", "\xc3", "\xa9")
	for _, x := range after {
		for _, q := range []string{"'", "\"", "`"} {
			for _, pre := range []string{"", "a", "é"} {
				for _, post := range []string{"", "b", "é", "\\\\"} {
					body := pre + "\\" + x + post
					if q == "`" {
						c.add("lit-escape", "`\""+body+"\"`", "null")
						c.add("lit-escape", "`"+body+"`", "null")
					} else {
						c.add("lit-escape", q+body+q, `{"":1,"a":2}`)
					}
				}
			}
		}
	}
}

// JSON literals with white space inside the backticks, before and after the value, in every operand position: a
// parser that treats `` ` 1` `` or `` `1 ` `` differently from `` `1` `` (a fast path keyed on the first byte, a number kept
// with its padding) shows in arithmetic, comparison, as an argument, and when the result is serialised (seeded K04, K09)
func genLitPadded(c *GenCtx) {
	vals := []string{"1", "-2", "0.5", "10", "1e2", "21", "0", "\"s\"", "[1,2]", "{\"a\":1}", "true", "null", "\"\""}
	pads := []string{" ", "\t", "\n", "\r", "  ", " \n\t"}
	doc := `{"a":21,"b":2,"s":"s","items":[{"p":1},{"p":2.5},{"p":10}],"n":null}`
	for _, v := range vals {
		for _, pd := range pads {
			for _, lit := range []string{"`" + pd + v + "`", "`" + v + pd + "`", "`" + pd + v + pd + "`"} {
				for _, form := range []string{"%s", "%s + `2`", "`2` + %s", "a * %s", "%s - b", "`1` / %s", "a %% %s", "a // %s", "%s > `5`", "a == %s", "%s == a", "a != %s",
					"items[?p >= %s].p", "abs(%s)", "[%s, %s]", "{k: %s}", "to_string(%s)", "type(%s)", "%s || a", "-%s", "sum([%s, `1`])", "max([%s, a])",
					"%s | @ + `1`", "let $v = %s in $v * `2`", "sort([%s, `3`, `1`])", "pad_left(s, %s)", "[%s][?@ < `100`]", "contains(`[1,10,21]`, %s)"} {
					c.add("lit-padded", strings.ReplaceAll(form, "%s", lit), doc)
				}
			}
		}
	}
}

// every kind of literal with a body that is special to exactly one syntax (raw control characters, a lone quote of
// another kind, invalid UTF-8, the empty body) in every syntactic position a primary expression can take: a fast path
// keyed on the position (an element of a multi-select, a hash value, an argument) that skips the literal's validation
// or decoding shows here (seeded L02)
func genLitPositions(c *GenCtx) {
	bodies := []string{"a\tb", "a\nb", "\x01", "a\x7fb", "", "a b", "é", "a'b", "a`b", "\xff", "a\\tb", "a\\\"b", "a\\u0009b", "\r", "a\x00b", "a\x1fb", "k"}
	positions := []string{"%s", "foo.%s", "[%s]", "[k, %s]", "[%s, k]", "{k: %s}", "{k: k, j: %s}", "foo.{k: %s}", "foo.[%s]", "foo.[k, %s]", "length(%s)", "not_null(k, %s)", "%s.a", "[%s.c]", "%s || k",
		"[?%s]", "foo[?%s == k]", "sort_by(arr, &%s)", "(%s)", "[*].%s", "foo | %s", "!%s", "%s[0]", "let $v = %s in $v", "{k: %s}.k", "[[%s]]", "%s == %s"}
	doc := `{"foo":{"a\tb":1,"k":2,"a b":3,"é":4,"":5},"a\tb":{"a":6,"c":7},"k":"K","arr":[{"k":2},{"k":1}],"a b":[8],"":9,"é":{"a":10}}`
	for _, b := range bodies {
		for _, lit := range []string{"\"" + b + "\"", "'" + b + "'", "`\"" + b + "\"`"} {
			for _, pos := range positions {
				c.add("lit-positions", strings.ReplaceAll(pos, "%s", lit), doc)
			}
		}
	}
}

// a builtin applied directly to the result of another, for every ordered pair of the one-argument builtins and every
// type of the innermost argument: a parse-time fusion of two calls (`length(keys(x))` → the length of `x`) must keep the
// inner call's type check and its result type (seeded L01)
func genArgsNest(c *GenCtx) {
	un := []string{"abs", "avg", "ceil", "floor", "keys", "values", "items", "length", "max", "min", "reverse", "sort", "sum", "to_array", "to_number", "to_string", "type",
		"not_null", "lower", "upper", "trim", "trim_left", "trim_right", "from_items", "merge"}
	vals := []string{`null`, `true`, `1`, `-2.5`, `"s"`, `"12"`, `[3,1,2]`, `["b","a"]`, `{"a":1,"b":2}`, `[]`, `{}`, `[["k",1],["j",2]]`, `[{"a":1},{"b":2}]`, `""`, `[null,1]`}
	for _, f := range un {
		for _, g := range un {
			for _, v := range vals {
				c.add("args-nest", f+"("+g+"(x))", `{"x":`+v+`}`)
			}
		}
	}
	for _, f := range un {
		for _, v := range vals {
			for _, form := range []string{"%s(x[*])", "%s(x[])", "%s(x.*)", "%s(x[?@])", "%s(x | @)", "%s([x])", "%s({a: x})", "%s(x[0])", "%s(x.a)", "%s(&x)", "%s(@).x", "x.%s(@)", "x[*].%s(@)", "%s(%s(%s(x)))"} {
				c.add("args-nest", strings.ReplaceAll(form, "%s", f), `{"x":`+v+`}`)
			}
		}
	}
}

// two literals next to each other in the token stream with one punctuation token between them, in every context that
// allows it, every ordered pair of a pool whose members have their first backslash at different offsets or none: state
// that a lexer or parser keeps from one literal to the next (an escape offset, a buffer) shows here (seeded J09)
func genLitAdjacent(c *GenCtx) {
	pool := []string{"'hello'", "'it\\'s'", "'\\'x'", "'ab\\\\'", "\"name\"", "\"a\\\"b\"", "\"\\\"ab\"", "\"ab\\\"\"", "\"n\\u0061me\"", "\"hello\"",
		"`\"x\"`", "`\"a\\`b\"`", "`\"\\\\n\"`", "`[\"a\\\"b\"]`", "name", "`1`"}
	keys := []string{"k", "\"k\"", "\"a\\\"b\"", "\"\\\"ab\"", "\"ab\\\"\"", "\"\\u006b\"", "\"a\\\\b\"", "\"\\n\""}
	doc := `{"name":"N","hello":"H","a\"b":"Q","\"ab":"R","ab\"":"S","k":"K","x":"X","a\\b":"B"}`
	for _, k := range keys {
		for _, v := range pool {
			c.add("lit-adjacent", "{"+k+": "+v+"}", doc)
			c.add("lit-adjacent", "{"+k+":"+v+", z: "+v+"}", doc)
			c.add("lit-adjacent", "@.{"+k+": "+v+"}", doc)
			c.add("lit-adjacent", "[@][*].{"+k+": "+v+"}", doc)
		}
	}
	for _, a := range pool {
		for _, b := range pool {
			c.add("lit-adjacent", "["+a+", "+b+"]", doc)
			c.add("lit-adjacent", a+" == "+b, doc)
			c.add("lit-adjacent", "not_null("+a+","+b+")", doc)
			c.add("lit-adjacent", "{p: "+a+", \"q\\\"\": "+b+"}", doc)
			c.add("lit-adjacent", a+" || "+b, doc)
			c.add("lit-adjacent", "@."+a+" | "+b, doc)
		}
	}
}

// ---------------------------------------------------------------------------------------------
// C17: identities — both spellings are run; the judge compares them

type identPair struct{ a, b, doc string }

func genIdentities(c *GenCtx) []identPair {
	r := c.Rng
	var pairs []identPair
	n := c.n(4000, 100000)
	// selectors that do not themselves open a projection
	simple := func() string {
		return r.Pick([]string{".a", ".b", "[0]", ".a.b", ".b[0]", "[0].a", ".foo", ".{x: a}", ".[a, b]", ".length(@)", "[-1]", ".k", ".to_array(@)"})
	}
	// selectors that map null to null (the identities need this of the part moved behind the pipe)
	sel := func() string {
		return r.Pick([]string{".a", ".b", "[0]", ".a.b", ".b[0]", "[0].a", ".foo", "[-1]", ".k", ".[a, b]", ".a[1:]", ".a.*", "[?a]", "[*]", ".b[*].a", "[]", ".*"})
	}
	base := func() string {
		return r.Pick([]string{"foo", "bar", "a", "b", "foo.bar", "foo[0]", "@", "c.a", "k"})
	}
	// index literals around the sizes of the small integer types, applied to a child expression on one side and to the
	// current node (after a pipe, at the head of a right-hand side, in parentheses) on the other, over arrays long enough
	// for every one of them to select an element from either end (seeded K08: an `int8` node for small indices)
	{
		var nums []string
		for i := 0; i < 300; i++ {
			nums = append(nums, strconv.Itoa(i))
		}
		long := "[" + strings.Join(nums, ",") + "]"
		doc := `{"big":` + long + `,"rows":[{"cells":` + long + `},{"cells":[1,2,3]},{"cells":` + long + `}],"top":{"list":` + long + `}}`
		for _, i := range []int{0, 1, 126, 127, 128, 129, 130, 200, 254, 255, 256, 257, 299, 300, -1, -2, -127, -128, -129, -130, -255, -256, -257, -300, -301, 32767, 32768, 65535, 65536} {
			ix := "[" + strconv.Itoa(i) + "]"
			pairs = append(pairs,
				identPair{"big" + ix, "big | " + ix, doc},
				identPair{"top.list" + ix, "top.list | " + ix, doc},
				identPair{"(big)" + ix, "big | " + ix, doc},
				identPair{"rows[*].cells" + ix, "rows[*].cells | [*]" + ix, doc},
				identPair{"rows[*].cells" + ix, "map(&cells" + ix + ", rows)[?@ != `null`]", doc},
				identPair{"(rows[*].cells[0])" + ix, "rows[*].cells[0] | " + ix, doc},
				identPair{"rows[].cells" + ix, "rows[].cells | [*]" + ix, doc},
				identPair{"rows[?cells].cells" + ix, "rows[?cells].cells | [*]" + ix, doc},
				identPair{"[big" + ix + ", big | " + ix + "]", "[big" + ix + ", big" + ix + "]", doc},
				identPair{"(big[" + strconv.Itoa(i) + ":])[0]", "big[" + strconv.Itoa(i) + ":] | [0]", doc})
		}
	}
	for k := 0; k < n; k++ {
		doc := c.objDoc(4)
		x := base()
		e1, e2 := simple(), sel()
		var p identPair
		which := r.Intn(14)
		if which >= 2 && which <= 4 {
			e1 = sel() // moved behind a pipe: must map null to null
		}
		switch which {
		case 0: // projection followed by selectors = pipe into a new projection
			p = identPair{x + "[*]" + e1 + e2, x + "[*]" + e1 + " | [*]" + e2, doc}
		case 1: // x[*].e = map(&e, x) without nulls, for arrays
			ee := r.Pick([]string{"a", "b", "a.b", "foo", "length(@)", "[0]", "{x: a}.x"})
			dot := "."
			if strings.HasPrefix(ee, "[") {
				dot = ""
			}
			amp := ee
			p = identPair{x + "[*]" + dot + ee, "(" + x + "[*] && map(&" + amp + ", " + x + ")[?@ != `null`]) || " + x + "[*]" + dot + ee, doc}
		case 2: // filter projection = unprojected | [*]
			p = identPair{x + "[?a]" + e1, x + "[?a] | [*]" + e1, doc}
		case 3: // flatten
			p = identPair{x + "[]" + e1, x + "[] | [*]" + e1, doc}
		case 4: // slice (arrays): compare only when x is not a string — the judge skips string inputs via the doc
			p = identPair{"to_array(" + x + ")[1:]" + e1, "to_array(" + x + ")[1:] | [*]" + e1, doc}
		case 5: // a.b = a | b when a is not a projection
			id := r.Pick(idPool)
			p = identPair{x + "." + id, x + " | " + id, doc}
		case 6: // parentheses end a projection
			p = identPair{"(" + x + "[*]" + e1 + ")" + e2, x + "[*]" + e1 + " | @" + e2, doc}
		case 7: // pipe ends a projection
			p = identPair{x + "[*]" + e1 + " | [0]", "(" + x + "[*]" + e1 + ")[0]", doc}
		case 8: // multiselect list = the single selections side by side (non-null current)
			a, b := base(), base()
			p = identPair{x + " && " + x + ".[" + a + ", " + b + "]", x + " && [" + x + ".[" + a + "][0], " + x + ".[" + b + "][0]]", doc}
		case 9: // {k: e}.k = e (non-null current)
			a := base()
			p = identPair{"{k: " + a + "}.k", a, `{"foo":` + c.doc(2) + `,"bar":` + c.doc(2) + `,"a":1,"b":2,"c":{"a":3},"k":0}`}
		case 10: // object projection
			p = identPair{x + ".*" + e1 + e2, x + ".*" + e1 + " | [*]" + e2, doc}
		case 11: // filter projection followed by two selectors (the second one may itself be a filter or a projection)
			e1 = r.Pick([]string{".a", ".b", "[0]", ".foo", ".k", ".c.a"})
			p = identPair{x + "[?a]" + e1 + e2, x + "[?a]" + e1 + " | [*]" + e2, doc}
		case 12: // flatten projection followed by two selectors
			e1 = r.Pick([]string{".a", ".b", "[0]", ".foo", ".k", ".c.a"})
			p = identPair{x + "[]" + e1 + e2, x + "[]" + e1 + " | [*]" + e2, doc}
		default: // a filter inside the right-hand side of each kind of projection
			open := r.Pick([]string{"[*]", "[?a]", "[]", ".*", "[?k]"})
			e1 = r.Pick([]string{".a", ".b", ".foo", ".bar", ".c"})
			f := r.Pick([]string{"[?a]", "[?k]", "[?@]", "[?a == `1`]", "[?b]"})
			p = identPair{x + open + e1 + f, x + open + " | [*]" + e1 + f, doc}
		}
		pairs = append(pairs, p)
		c.add("ident-a", p.a, p.doc)
		c.add("ident-b", p.b, p.doc)
	}
	return pairs
}

// ---------------------------------------------------------------------------------------------
// C19: let scoping

func genLet(c *GenCtx) {
	r := c.Rng
	n := c.n(8000, 200000)
	vars := []string{"$x", "$y", "$z"}
	var body func(d int) string
	body = func(d int) string {
		if d <= 0 {
			return r.Pick([]string{"$x", "$y", "$z", "a", "b", "@", "foo", "`1`", "$x.a", "$y[0]"})
		}
		switch r.Intn(14) {
		case 0:
			return "let " + r.Pick(vars) + " = " + body(d-1) + " in " + body(d-1)
		case 1:
			return "let " + r.Pick(vars) + " = " + body(d-1) + ", " + r.Pick(vars) + " = " + body(d-1) + " in " + body(d-1)
		case 2:
			return "foo[*].[" + body(d-1) + ", a]"
		case 3:
			return "foo[?" + body(d-1) + " == a]"
		case 4:
			return body(d-1) + " | " + body(d-1)
		case 5:
			return "[" + body(d-1) + ", " + body(d-1) + "]"
		case 6:
			return "{p: " + body(d-1) + ", q: " + body(d-1) + "}"
		case 7:
			return "sort_by(foo, &(" + body(d-1) + " && a))"
		case 8:
			return "map(&[" + body(d-1) + ", @], foo)"
		case 9:
			return "(" + body(d-1) + ")." + r.Pick(idPool)
		case 10:
			return "bar.*.[" + body(d-1) + "]"
		case 11:
			return body(d-1) + " || " + body(d-1)
		case 12:
			return "let $x = " + body(d-1) + " in (let $x = " + body(d-1) + " in $x) && $x"
		default:
			return r.Pick([]string{"$x", "$y", "a", "@"})
		}
	}
	for k := 0; k < n; k++ {
		doc := `{"a":` + c.doc(1) + `,"b":` + c.doc(1) + `,"foo":[{"a":1,"b":"x"},{"a":2,"b":"y"},{"a":null}],"bar":{"p":{"a":5},"q":{"a":6}}}`
		e := body(3)
		if r.Chance(70) {
			e = "let $x = " + r.Pick([]string{"a", "foo", "@", "`7`", "b"}) + " in " + e
		}
		c.add("let", e, doc)
	}
	// a let-bound variable inside the key expression of every expression-reference builtin, numeric and string keys,
	// arrays of 0–4 elements (the first element and the later ones may take different code paths)
	byExprs := []string{"min_by(pts, &abs(x - $t)).name", "max_by(pts, &abs(x - $t)).name", "sort_by(pts, &abs(x - $t))[*].name", "map(&(x - $t), pts)",
		"group_by(pts, &to_string(x > $t))", "min_by(pts, &join('', [name, $s])).name", "max_by(pts, &join('', [$s, name])).name", "sort_by(pts, &join('', [name, $s]))[*].name",
		"pts[?x > $t].name", "pts[*].[name, $t]", "pts[?x > $t] | min_by(@, &(x - $t)).name", "let $u = $t in min_by(pts, &abs(x - $u)).name",
		"min_by(pts, &(let $t = x in $t)).name", "max_by(pts, &(x * $t - $undefined)).name", "min_by(pts, &$t).name", "sort_by(pts, &$s)[*].name"}
	for k := 0; k < c.n(1500, 20000); k++ {
		np := r.Intn(5)
		var pts []string
		for i := 0; i < np; i++ {
			pts = append(pts, fmt.Sprintf(`{"name":"p%d","x":%d}`, i, r.Intn(20)))
		}
		doc := fmt.Sprintf(`{"target":%d,"suffix":"z","pts":[%s]}`, r.Intn(20), strings.Join(pts, ","))
		c.add("let-by", "let $t = target, $s = suffix in "+r.Pick(byExprs), doc)
	}
}

// ---------------------------------------------------------------------------------------------
// C20: equality and truthiness

func (c *GenCtx) eqValue(d int) string {
	r := c.Rng
	k := r.Intn(100)
	if d <= 0 {
		k = r.Intn(60)
	}
	switch {
	case k < 8:
		return "null"
	case k < 16:
		return r.Pick([]string{"true", "false"})
	case k < 40:
		return r.Pick([]string{"0", "0.0", "-0", "1", "1.0", "1e0", "10e-1", "2", "1.5", "15e-1", "100", "1e2", "1.00"})
	case k < 60:
		return c.jstr(r.Pick([]string{"", "a", "1", "0", "false", "null", "é", "a "}))
	case k < 80:
		n := r.Intn(4)
		parts := make([]string, n)
		for i := range parts {
			parts[i] = c.eqValue(d - 1)
		}
		return "[" + strings.Join(parts, ",") + "]"
	default:
		n := r.Intn(4)
		var parts []string
		seen := map[string]bool{}
		for i := 0; i < n; i++ {
			key := r.Pick([]string{"a", "b", "c"})
			if seen[key] {
				continue
			}
			seen[key] = true
			parts = append(parts, c.jstr(key)+":"+c.eqValue(d-1))
		}
		// member order varies
		if len(parts) > 1 && r.Bool() {
			parts[0], parts[len(parts)-1] = parts[len(parts)-1], parts[0]
		}
		return "{" + strings.Join(parts, ",") + "}"
	}
}

// respell rewrites the numbers of a JSON text into equal values with different spellings.
func (c *GenCtx) respell(v string) string {
	repl := map[string][]string{"0": {"0.0", "0e5", "-0"}, "1": {"1.0", "1e0", "10e-1"}, "2": {"2.0", "20e-1"}, "1.5": {"15e-1", "1.50"}, "100": {"1e2", "100.0"}, "1e2": {"100"}, "1.0": {"1"}}
	var sb strings.Builder
	i := 0
	for i < len(v) {
		ch := v[i]
		if ch == '"' {
			j := i + 1
			for j < len(v) && v[j] != '"' {
				if v[j] == '\\' {
					j++
				}
				j++
			}
			sb.WriteString(v[i : j+1])
			i = j + 1
			continue
		}
		if ch == '-' || (ch >= '0' && ch <= '9') {
			j := i
			for j < len(v) && strings.IndexByte("-+.eE0123456789", v[j]) >= 0 {
				j++
			}
			tok := v[i:j]
			if alts, ok := repl[tok]; ok && c.Rng.Bool() {
				tok = c.Rng.Pick(alts)
			}
			sb.WriteString(tok)
			i = j
			continue
		}
		sb.WriteByte(ch)
		i++
	}
	return sb.String()
}

// nearMiss derives from a JSON text a value that differs from it in one small way (or is equal but reordered /
// respelled).
func (c *GenCtx) nearMiss(v string) string {
	r := c.Rng
	switch r.Intn(8) {
	case 0: // rename one key
		for _, k := range []string{"a", "b", "c"} {
			if strings.Contains(v, `"`+k+`":`) {
				return strings.Replace(v, `"`+k+`":`, `"`+r.Pick([]string{"d", "a ", "A", ""})+`":`, 1)
			}
		}
	case 1: // a member becomes null
		if i := strings.Index(v, `":`); i >= 0 {
			j := i + 2
			depth := 0
			k := j
			for k < len(v) {
				ch := v[k]
				if ch == '[' || ch == '{' {
					depth++
				} else if ch == ']' || ch == '}' {
					if depth == 0 {
						break
					}
					depth--
				} else if ch == ',' && depth == 0 {
					break
				} else if ch == '"' {
					k++
					for k < len(v) && v[k] != '"' {
						if v[k] == '\\' {
							k++
						}
						k++
					}
				}
				k++
			}
			if k <= len(v) {
				return v[:j] + "null" + v[k:]
			}
		}
	case 2: // extra element
		if strings.HasPrefix(v, "[") && len(v) > 2 {
			return "[" + r.Pick([]string{"null", "0", `""`, "[]"}) + "," + v[1:]
		}
	case 3:
		return c.respell(v)
	case 4:
		return "[" + v + "]"
	case 5: // null-valued member under another name
		if strings.HasPrefix(v, "{") && len(v) > 2 {
			return `{"zz":null,` + v[1:]
		}
	case 6:
		if strings.HasPrefix(v, "{") && len(v) > 2 {
			return `{"yy":null,` + v[1:]
		}
	}
	return v
}

func genEquality(c *GenCtx) {
	r := c.Rng
	n := c.n(6000, 150000)
	exprs := []string{"x == y", "x != y", "y == x", "x == x", "[x == y, y == z, x == z]", "contains([x, z], y)", "contains(`[]`, x)", "[!x, !!x]", "x && y", "x || y",
		"[x, y, z][?@]", "[x, y, z][?@ == `null`]", "[x,y,z][?!@]", "(x == y) == !(x != y)", "x && y || z", "!x || y", "[x, y][?@ == $.z]", "type(x) == type(y)",
		"[x][?@ == $.y]", "not_null(x, y, z)", "x == y && y == z", "[x == `0`, x == `false`, x == `\"\"`, x == `[]`, x == `{}`, x == `null`]", "y[?@ == $.x]",
		"length([x, y, z][?@]) == length([x, y, z][?!(!@)])",
		// membership in heterogeneous arrays, the element sought behind elements of other types
		"contains([z, y, x], x)", "contains([`\"s\"`, `null`, x], x)", "contains([`[]`, `{}`, `true`, x, y], y)", "contains([`\"n/a\"`, z, x, y], y)",
		"contains([`null`, `false`, `\"\"`, y], x)", "[x, y, z][?contains([`\"a\"`, `null`, $.z, $.y, $.x], @)]", "contains([[x], `1`, x], x)", "contains([{a: x}, x], x)",
		"contains([`\"1\"`, `1`], x)", "contains([z, `\"k\"`, y], x) == (z == x || y == x)",
		// truthiness applied to the result of every comparison (ordering comparisons of non-numbers are null, and !null is true)
		"!(x < y)", "!(x <= y)", "!(x > y)", "!(x >= y)", "!(x == y)", "!(x != y)", "[!(x < y), x >= y]", "[!(x > y), x <= y]", "!(x < y) == (x >= y)",
		"(x < y) || z", "(x > y) && z", "(x <= y) || (y <= x)", "[x, y, z][?!(@ < $.y)]", "[x, y, z][?!(@ >= $.x)]", "[x, y, z][?@ < $.y || @ >= $.y]",
		"!(x < y) && !(x >= y)", "!!(x < y)", "!(!x)", "!(x && y)", "!(x || y)", "!(x == y) == (x != y)", "!(-x)", "!(x + y)", "[x, y, z][?!(@ == $.x)]",
		"(x - x) || 'zero is true'", "(x - x) && 'zero is true'", "[x, y, z][?@ - @]", "!(x - x)", "!(x * `0`)", "(`1` - `1`) || 'z'", "[`0`, `1`, `-1`][?@ - `1`]"}
	// all pairs of a pool of small containers that differ in one respect only: a member that is null on one side and
	// absent (or under another name) on the other, member order, a trailing null, nil against empty, nesting
	pool := []string{`{}`, `{"a":null}`, `{"b":null}`, `{"a":1}`, `{"a":null,"n":1}`, `{"b":null,"n":1}`, `{"n":1,"a":null}`, `{"n":1}`, `{"n":1,"a":1}`,
		`{"a":{"x":null}}`, `{"a":{"y":null}}`, `{"a":{}}`, `{"a":[null]}`, `{"a":[]}`, `[]`, `[null]`, `[null,null]`, `[1]`, `[1,null]`, `[null,1]`, `[{}]`, `[{"a":null}]`,
		`[{"b":null}]`, `[[]]`, `[[null]]`, `null`, `{"":null}`, `{"a":false}`, `{"a":""}`, `{"a":0}`, `{"#":"nilslice"}`}
	for _, x := range pool {
		for _, y := range pool {
			doc := `{"x":` + x + `,"y":` + y + `,"z":[` + y + `]}`
			for _, e := range []string{"x == y", "x != y", "contains(z, x)", "[x] == z", "{k: x} == {k: y}", "z[?@ == $.x]"} {
				c.add("eq-pairs", e, doc)
			}
		}
	}
	// a predicate-like sub-expression compared with a literal, in both orders: `(a < b) == `false`` is false when the
	// ordering comparison is null, `contains(x, y) != `true``, `!x == `null`` … — a parser or evaluator that folds such a
	// comparison into the predicate or its negation is wrong exactly where the predicate is not a boolean (seeded K10)
	{
		inner := []string{"x < y", "x <= y", "x > y", "x >= y", "x == y", "x != y", "!x", "x && y", "x || y", "x", "contains(z, x)", "starts_with(x, y)",
			"ends_with(x, y)", "type(x) == 'string'", "x < `1`", "`1` >= x", "not_null(x, y)", "x == `true`", "!(x < y)"}
		lits := []string{"`true`", "`false`", "`null`", "`0`", "`\"\"`", "`[]`"}
		vals := []string{`"x"`, `"y"`, `1`, `2`, `null`, `true`, `false`, `[]`, `[1]`, `""`, `{}`}
		var docs []string
		for i, a := range vals {
			for j, b := range vals {
				if (i+2*j)%3 == 0 || i == j {
					docs = append(docs, `{"x":`+a+`,"y":`+b+`,"z":[`+a+`,`+b+`]}`)
				}
			}
		}
		for _, in := range inner {
			for _, op := range []string{"==", "!="} {
				for _, l := range lits {
					for fi, form := range []string{"(" + in + ") " + op + " " + l, l + " " + op + " (" + in + ")", "[x, y, z][?(" + strings.ReplaceAll(strings.ReplaceAll(strings.ReplaceAll(in, "x", "@"), "y", "$.y"), "z", "$.z") + ") " + op + " " + l + "]",
						"(" + in + ") " + op + " " + l + " && 'then'", "!((" + in + ") " + op + " " + l + ")"} {
						for di, d := range docs {
							if fi >= 2 && di%3 != 0 {
								continue
							}
							c.add("cmp-lit", form, d)
						}
					}
				}
			}
		}
	}
	for k := 0; k < n; k++ {
		x := c.eqValue(3)
		y := c.eqValue(3)
		z := c.eqValue(3)
		switch r.Intn(8) {
		case 0:
			y = c.respell(x)
		case 1:
			y = c.respell(x)
			z = c.respell(y)
		case 2:
			z = x
		case 3, 4:
			y = c.nearMiss(x)
		case 5:
			x = c.nearMiss(x)
			y = c.nearMiss(x)
			z = c.nearMiss(y)
		}
		doc := `{"x":` + x + `,"y":` + y + `,"z":` + z + `}`
		c.add("equality", r.Pick(exprs), doc)
	}
}

// ---------------------------------------------------------------------------------------------
// C04 / C10: token strings, bounded-exhaustive

var tokAlphabet = []string{"a", "b", `"k"`, "'s'", "`1`", "`[1,2]`", "@", "$", "$x", "1", "-1", "0", "(", ")", "[", "]", "{", "}", "[*]", "[]", "[?", ".", ".*", "*", ",", ":", "|", "||", "&&", "&", "!", "==", "<", "+", "-", "/", "//", "%", "let", "in", "=", "abs", "sort_by", "foo", "×", "÷", "−"}

func genTokens(c *GenCtx) {
	doc := `{"a":[{"a":1,"b":[1,2]},{"a":2,"b":[3]},null],"b":{"a":{"b":3},"k":[4,5]},"k":"kv","foo":7}`
	maxLen := c.n(3, 4)
	var rec func(prefix []string, depth int)
	rec = func(prefix []string, depth int) {
		if depth > 0 {
			e := strings.Join(prefix, " ")
			c.add("tokens", e, doc)
		}
		if depth == maxLen {
			return
		}
		for _, t := range tokAlphabet {
			rec(append(prefix, t), depth+1)
		}
	}
	rec(nil, 0)
	// longer random token strings, with and without separating blanks
	r := c.Rng
	n := c.n(20000, 600000)
	for k := 0; k < n; k++ {
		l := 2 + r.Intn(9)
		parts := make([]string, l)
		for i := range parts {
			parts[i] = r.Pick(tokAlphabet)
		}
		sep := " "
		if r.Chance(40) {
			sep = ""
		}
		c.add("tokens-rand", strings.Join(parts, sep), doc)
	}
	// character classes: every ASCII byte (and a few runes beyond) at the start and in the middle of an identifier, a variable
	// name, a function name and a number
	var chars []string
	for b := 1; b < 0x80; b++ {
		chars = append(chars, string(rune(b)))
	}
	chars = append(chars, "é", "\u00d7", "\u2212", "\u00f7", "\u0660", "\uff21", "\u200b")
	for _, ch := range chars {
		for _, f := range []string{"%sx", "x%sy", "x%s", "let $%sx = a in $%sx", "let $x%sy = a in $x%sy", "$%sx", "%sabs(foo)", "abs%s(foo)", "a[1%s]", "a[%s1]", "b.%sa", "b.a%s"} {
			c.add("tokens-charclass", strings.ReplaceAll(f, "%s", ch), doc)
		}
	}
	// what may and may not follow a projection in brackets: every opener × every bracket content × a suffix
	openers := []string{"a[*]", "a[]", "a[?a]", "b.*", "a[1:]", "a[0]", "a", "[*]", "[]", "*", "a[*].b", "b.a", "@", "a[::2]"}
	contents := []string{"a", "'x'", "a, b", "*", " * ", "?a", "@", "`1`", "0", ":", "-1", "a.b", "&a", "", " ", "0:1", "::", "a:b", "1,2", "$", "$x", "abs(a)", "\"k\"", "?", "* ]", "[0]"}
	for _, o := range openers {
		for _, k := range contents {
			for _, suf := range []string{"", ".a", "[0]", " | [0]"} {
				c.add("tokens-bracket", o+"["+k+"]"+suf, doc)
				c.add("tokens-bracket", o+".["+k+"]"+suf, doc)
				c.add("tokens-bracket", o+"{"+k+"}"+suf, doc)
			}
		}
	}
}

// operator pairs and triples around operands (C10)
func genOperators(c *GenCtx) {
	r := c.Rng
	docs := []string{
		`{"a":7,"b":2,"c":3,"d":0,"t":true,"f":false,"n":null,"s":"x","arr":[1,2,3],"o":{"a":1}}`,
		`{"a":-7,"b":2,"c":-3,"d":1.5,"t":[],"f":"","n":{},"s":"","arr":[],"o":{"a":[{"a":5}]}}`,
		`{"a":0,"b":1,"c":2,"d":-1,"t":"t","f":null,"n":0,"s":"s","arr":[0],"o":null}`,
	}
	operands := []string{"a", "b", "c", "d", "t", "f", "n", "s", "arr[0]", "o.a", "`2`", "`0`", "`true`", "`null`", "length(arr)", "arr[*]", "o.*", "(a)", "!t", "-b", "+c", "arr[?@ > `1`]", "[a, b]"}
	pick := func() string { return r.Pick(operands) }
	// all ordered pairs and triples of operators
	for _, o1 := range binOps {
		for _, o2 := range binOps {
			for k := 0; k < c.n(2, 8); k++ {
				x, y, z := pick(), pick(), pick()
				d := r.Pick(docs)
				c.add("op-pair", x+" "+o1+" "+y+" "+o2+" "+z, d)
				c.add("op-pair-l", "("+x+" "+o1+" "+y+") "+o2+" "+z, d)
				c.add("op-pair-r", x+" "+o1+" ("+y+" "+o2+" "+z+")", d)
				if r.Chance(40) {
					u := r.Pick([]string{"!", "-", "+"})
					c.add("op-unary", u+x+" "+o1+" "+y+" "+o2+" "+u+z, d)
					c.add("op-unary", "("+u+x+") "+o1+" "+y, d)
				}
			}
			if c.thorough() {
				for _, o3 := range binOps {
					w, x, y, z := pick(), pick(), pick(), pick()
					c.add("op-triple", w+" "+o1+" "+x+" "+o2+" "+y+" "+o3+" "+z, r.Pick(docs))
				}
			}
		}
	}
	if !c.thorough() {
		for k := 0; k < 3000; k++ {
			w, x, y, z := pick(), pick(), pick(), pick()
			c.add("op-triple", w+" "+r.Pick(binOps)+" "+x+" "+r.Pick(binOps)+" "+y+" "+r.Pick(binOps)+" "+z, r.Pick(docs))
		}
	}
}

// ---------------------------------------------------------------------------------------------
// C03: arbitrary bytes, mutations, the whole value zoo

func genBytes(c *GenCtx) {
	r := c.Rng
	corpus := loadCorpus(c.Repo)
	doc := `{"foo":{"bar":[1,2,{"baz":"x"}]},"a":[1,2,3],"b":"str"}`
	n := c.n(15000, 400000)
	for k := 0; k < n; k++ {
		var e []byte
		switch r.Intn(4) {
		case 0: // random bytes biased to the interesting ASCII
			l := r.Intn(12)
			for i := 0; i < l; i++ {
				if r.Chance(75) {
					{
						const alpha = "abfo.[]*?{}()&|!<>=`'\"\\,:@$-+/%0123456789 \t\n_"
						e = append(e, alpha[r.Intn(len(alpha))])
					}
				} else {
					e = append(e, byte(r.Intn(256)))
				}
			}
		default: // mutation of a corpus expression
			if len(corpus) == 0 {
				continue
			}
			e = []byte(corpus[r.Intn(len(corpus))].Expr)
			for m := 0; m < 1+r.Intn(3) && len(e) > 0; m++ {
				i := r.Intn(len(e))
				switch r.Intn(5) {
				case 0:
					e = append(e[:i], e[i+1:]...)
				case 1:
					e = append(e[:i], append([]byte{byte(r.Intn(256))}, e[i:]...)...)
				case 2:
					{
						const punct = "[]{}()`'\"\\.*?|&,:"
						e[i] = punct[r.Intn(len(punct))]
					}
				case 3:
					e = e[:i]
				default:
					j := r.Intn(len(e))
					e[i], e[j] = e[j], e[i]
				}
			}
		}
		c.ops = append(c.ops, Op{Kind: "S", Expr: e, Data: doc, Family: "bytes"})
	}
	// nesting: parentheses, brackets, braces, unary operators, pipes, functions
	depths := []int{10, 100, 1000, 5000}
	if c.thorough() {
		depths = append(depths, 20000, 100000)
	}
	for _, d := range depths {
		nest := []string{
			strings.Repeat("(", d) + "a" + strings.Repeat(")", d),
			strings.Repeat("[", d) + "a" + strings.Repeat("]", d),
			strings.Repeat("!", d) + "a",
			strings.Repeat("-", d) + "a",
			strings.Repeat("{a:", d) + "a" + strings.Repeat("}", d),
			strings.Repeat("abs(", d) + "a" + strings.Repeat(")", d),
			"a" + strings.Repeat(".a", d),
			"a" + strings.Repeat("[0]", d),
			"a" + strings.Repeat("[*]", d),
			"a" + strings.Repeat(" | a", d),
			"a" + strings.Repeat(" || a", d),
			strings.Repeat("(", d),
			strings.Repeat("[?", d) + "a",
			"`" + strings.Repeat("[", d) + strings.Repeat("]", d) + "`",
		}
		for _, e := range nest {
			c.ops = append(c.ops, Op{Kind: "S", Expr: []byte(e), Data: `{"a":{"a":[[1]]}}`, Family: "nesting", Risky: d >= 5000})
		}
	}
	// the value zoo
	zoo := []string{`{"#":"f64","v":"nan"}`, `{"#":"f64","v":"+inf"}`, `{"#":"f64","v":"-inf"}`, `{"#":"f64","v":"-0p0"}`, `{"#":"f32","v":"3p-1"}`, `{"#":"dec","v":"NaN"}`,
		`{"#":"dec","v":"Inf"}`, `{"#":"dec","v":"-Inf"}`, `{"#":"dec","v":"-0"}`, `{"#":"dec","v":"2.5"}`, `{"#":"jnum","x":""}`, `{"#":"jnum","x":"` + hex.EncodeToString([]byte("abc")) + `"}`,
		`{"#":"jnum","x":"` + hex.EncodeToString([]byte("1e400")) + `"}`, `{"#":"jnum","x":"` + hex.EncodeToString([]byte("NaN")) + `"}`, `{"#":"jnum","x":"` + hex.EncodeToString([]byte("1_0")) + `"}`,
		`{"#":"jnum","x":"` + hex.EncodeToString([]byte("+5")) + `"}`, `{"#":"jnum","x":"` + hex.EncodeToString([]byte(".5")) + `"}`, `{"#":"bytes","x":"c328"}`, `{"#":"bytes","x":"ff"}`, `{"#":"bytes","x":"e282"}`,
		`{"#":"f32","v":"1p1"}`, `{"#":"f32","v":"-3p0"}`, `{"#":"f32","v":"1p70"}`, `{"#":"f32","v":"nan"}`, `{"#":"f64","v":"1p1"}`, `{"#":"f64","v":"5p-1"}`, `{"#":"f64","v":"1p63"}`, `{"#":"f64","v":"0p0"}`,
		`{"#":"foreign","t":1}`, `{"#":"foreign","t":2}`, `{"#":"foreign","t":7}`, `[{"#":"foreign","t":8}]`, `{"#":"nilslice"}`, `{"#":"i8","v":"-128"}`, `{"#":"u64","v":"18446744073709551615"}`, `{"#":"uint","v":"9223372036854775808"}`,
		`{"#":"i64","v":"-9223372036854775808"}`, `{"#":"cap","v":[1,2]}`, `[{"#":"f64","v":"nan"},1]`, `{"k":{"#":"foreign","t":3}}`, `"plain"`, `3`, `null`, `[]`, `{}`}
	zexprs := []string{"v", "abs(v)", "ceil(v)", "floor(v)", "-v", "+v", "v + v", "v - `1`", "v * w", "v / w", "v // w", "v % w", "v == v", "v == w", "v != w", "v < w", "v >= w", "!v", "v && w", "v || w", "type(v)",
		"to_string(v)", "to_number(v)", "to_array(v)", "length(v)", "reverse(v)", "sort([v, w])", "sort_by([v, w], &@)", "max([v, w])", "min_by([v, w], &@)", "sum([v, w])", "avg([v, w])",
		"contains([w], v)", "contains(v, w)", "pad_left('x', v)", "pad_left('x', `3`, v)", "find_first('abc', 'b', v)", "find_first('abc', 'b', v, w)", "find_last('abc', 'b', w, v)", "split('a,b', ',', v)", "replace('aa', 'a', 'b', v)",
		"join(',', [v])", "join(v, ['a','b'])", "keys(v)", "values(v)", "items(v)", "from_items([[v, w]])", "from_items([v])", "merge(v, w)", "zip(v, w)", "not_null(v, w)", "map(&@, v)", "group_by([v], &@)", "group_by([v], &to_string(@))",
		"v[0]", "v[1:]", "v[::-1]", "v.k", "v[*]", "v.*", "v[]", "v[?@]", "[v, w]", "{a: v}", "v | w", "lower(v)", "upper(v)", "trim(v)", "trim(v, w)", "starts_with(v, w)", "ends_with(v, 'a')", "v[?@ == $.w]", "let $x = v in [$x, w]"}
	for _, e := range zexprs {
		for _, v := range zoo {
			w := zoo[r.Intn(len(zoo))]
			c.add("zoo", e, `{"v":`+v+`,"w":`+w+`}`)
		}
	}
}

// ---------------------------------------------------------------------------------------------
// C09: magnitudes

func genCost(c *GenCtx) {
	r := c.Rng
	big := []string{"0", "1", "-1", "2147483648", "-2147483648", "4611686018427387904", "-4611686018427387904", "9223372036854775807", "-9223372036854775808", "100000000", "-100000000"}
	doc := `{"s":"héllo wörld","a":[1,2,3,4,5],"e":""}`
	for _, x := range big {
		for _, y := range big {
			for _, z := range big {
				if z != "0" {
					c.add("cost-slice", "s["+x+":"+y+":"+z+"]", doc)
					c.add("cost-slice", "a["+x+":"+y+":"+z+"]", doc)
				}
			}
			c.add("cost-find", "find_first(s, 'l', `"+x+"`, `"+y+"`)", doc)
			c.add("cost-find", "find_last(s, 'o', `"+x+"`, `"+y+"`)", doc)
			c.add("cost-index", "a["+x+"]", doc)
		}
		c.add("cost-split", "split(s, 'l', `"+x+"`)", doc)
		c.add("cost-split", "split(s, '', `"+x+"`)", doc)
		c.add("cost-split", "split(e, '', `"+x+"`)", doc)
		c.add("cost-replace", "replace(s, 'l', 'L', `"+x+"`)", doc)
		c.add("cost-replace", "replace(s, '', '-', `"+x+"`)", doc)
		c.add("cost-find", "find_first(s, 'l', `"+x+"`)", doc)
	}
	// every expression-reference builtin nested in its own key expression (and in each other's), 1–30 levels, over
	// one-element arrays: one evaluation of the key per element per level, anything more is exponential
	wraps := []string{"min_by($, &%s)", "max_by($, &%s)", "sort_by($, &%s)[0]", "map(&%s, $)[0]", "min_by(@, &%s)", "max_by(@, &%s)", "sort_by(@, &%s)[0]",
		"group_by($, &type(%s))", "min_by($, &%s) && `1`", "[?%s]", "$[?%s == `7`] | [0]"}
	for _, d := range []string{`[7]`, `["k"]`, `[{"a":1}]`} { // one element: with two, 2^depth evaluations are inherent (KF05 family)
		for _, w := range wraps {
			for _, depth := range []int{1, 2, 5, 12, 20, 30} {
				e := "@"
				if strings.Contains(w, "[?") {
					e = "`true`"
				}
				for i := 0; i < depth; i++ {
					e = strings.ReplaceAll(w, "%s", e)
				}
				if len(e) < 19000 {
					c.ops = append(c.ops, Op{Kind: "S", Expr: []byte(e), Data: d, Family: "cost-nest", Risky: depth >= 20})
				}
			}
		}
	}
	// numeric text over the decimal range
	for k := 0; k < c.n(500, 5000); k++ {
		e := strconv.Itoa(r.Intn(14000) - 7000)
		c.add("cost-numtext", "[a + b, a * b, a / b, a == b, a < b, to_number('1e"+e+"'), abs(a), floor(a), to_string(a)]", `{"a":1.5e`+e+`,"b":7e`+strconv.Itoa(r.Intn(14000)-7000)+`}`)
	}
}

// ---------------------------------------------------------------------------------------------
// skeletons: every small expression shape — a unary form applied to a binary form of two atoms, a binary form of a
// binary form and an atom, each as a filter predicate too — over one document that holds a value of every kind.
// Pattern lists miss interactions nobody thought of (`!` applied to an ordering comparison of non-numbers); this family
// is exhaustive over its small alphabet. `sample` > 1 keeps one shape in `sample`.

func genSkeleton(c *GenCtx, sample int) {
	r := c.Rng
	doc := `{"n":3,"m":-2,"q":2.50,"zero":0,"s":"abc","u":"","z":null,"t":true,"f":false,"a":[3,1,2],"b":["b","a"],"e":[],"o":{"k":1},"p":{},"objs":[{"k":1,"v":"x"},{"k":null},{"v":"y"},{"k":"s"}],"big":9223372036854775807}`
	atoms := []string{"n", "m", "q", "zero", "s", "u", "z", "missing", "t", "f", "a", "e", "o", "p", "big", "`1`", "'abc'", "a[0]", "o.k", "@", "objs[*].k", "objs[0]"}
	bins := []string{"==", "!=", "<", "<=", ">", ">=", "&&", "||", "+", "-", "*", "/", "//", "%", "|"}
	unaries := []string{"!(%s)", "-(%s)", "+(%s)", "not_null(%s, 'alt')", "type(%s)", "[%s]", "{r: %s}.r", "to_array(%s)", "(%s) && 'yes'", "(%s) || 'no'", "[n, s, z, a][?%s]", "objs[?%s]", "length(to_array(%s))", "let $v = %s in [$v, !$v]"}
	i := 0
	emit := func(e string) {
		i++
		if sample <= 1 || r.Intn(sample) == 0 {
			c.add("skeleton", e, doc)
		}
	}
	for _, x := range atoms {
		for _, op := range bins {
			for _, y := range atoms {
				b := x + " " + op + " " + y
				emit(b)
				u := unaries[(i*7+len(x)+len(y))%len(unaries)]
				emit(strings.ReplaceAll(u, "%s", b))
				if sample <= 1 {
					u2 := unaries[(i*13+3)%len(unaries)]
					emit(strings.ReplaceAll(u2, "%s", b))
				}
			}
		}
	}
	// every unary form over every comparison / boolean form of the element inside a filter
	for _, u := range unaries[:3] {
		for _, op := range bins[:8] {
			for _, y := range atoms[:10] {
				emit("objs[?" + strings.ReplaceAll(u, "%s", "k "+op+" $."+y) + "].v")
				emit("[n, m, q, zero, s, z, t][?" + strings.ReplaceAll(u, "%s", "@ "+op+" $."+y) + "]")
			}
		}
	}
	// binary of binary
	for k := 0; k < 4000/max(sample, 1); k++ {
		x, y, z := r.Pick(atoms), r.Pick(atoms), r.Pick(atoms)
		o1, o2 := r.Pick(bins), r.Pick(bins)
		emit(x + " " + o1 + " " + y + " " + o2 + " " + z)
		emit("(" + x + " " + o1 + " " + y + ") " + o2 + " " + z)
		emit(x + " " + o1 + " (" + y + " " + o2 + " " + z + ")")
	}
}
