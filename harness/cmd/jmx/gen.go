package main

// Generators. Every random choice comes from one splitmix64 stream seeded by VERIF_SEED (xor a hash of the
// property id), so a run is reproducible from (property, tier, seed).

import (
	"encoding/json"
	"fmt"
	"os"
	"path/filepath"
	"sort"
	"strconv"
	"strings"
)

type Rng struct{ s uint64 }

func NewRng(seed uint64) *Rng {
	// the state advances by a constant, so the seed goes through the output mix first: otherwise seed+1 would be the
	// same stream one step later
	r := &Rng{s: seed}
	r.s = r.U64() ^ 0x1234567
	return r
}

func (r *Rng) U64() uint64 {
	r.s += 0x9E3779B97F4A7C15
	z := r.s
	z = (z ^ (z >> 30)) * 0xBF58476D1CE4E5B9
	z = (z ^ (z >> 27)) * 0x94D049BB133111EB
	return z ^ (z >> 31)
}
func (r *Rng) Intn(n int) int {
	if n <= 0 {
		return 0
	}
	return int(r.U64() % uint64(n))
}
func (r *Rng) Bool() bool              { return r.U64()&1 == 1 }
func (r *Rng) Chance(p int) bool       { return r.Intn(100) < p }
func (r *Rng) Pick(xs []string) string { return xs[r.Intn(len(xs))] }

func hashString(s string) uint64 {
	var h uint64 = 1469598103934665603
	for i := 0; i < len(s); i++ {
		h ^= uint64(s[i])
		h *= 1099511628211
	}
	return h
}

type GenCtx struct {
	Rng   *Rng
	Tier  string
	Repo  string
	Prop  string
	ops   []Op
	pairs []identPair
	div   int
}

func (c *GenCtx) thorough() bool { return c.Tier == "thorough" }

// n scales a quick budget to the thorough tier.
func (c *GenCtx) n(quick, thorough int) int {
	v := quick
	if c.thorough() {
		v = thorough
	} else if 3*quick < thorough {
		// quick runs take seconds: afford three times the nominal quick budget where that stays below the thorough one
		v = 3 * quick
	}
	if c.div > 1 {
		v = v/c.div + 1
	}
	return v
}

func (c *GenCtx) add(family, expr, data string) {
	c.ops = append(c.ops, Op{Kind: "S", Expr: []byte(expr), Data: data, Family: family})
}
func (c *GenCtx) addC(family, expr string) {
	c.ops = append(c.ops, Op{Kind: "C", Expr: []byte(expr), Data: "-", Family: family})
}

// ---------------------------------------------------------------------------------------------
// corpus

type corpusCase struct {
	Expr  string
	Given string
	File  string
	Error string
	Has   bool
	Want  string
}

func loadCorpus(repo string) []corpusCase {
	var out []corpusCase
	for _, dir := range []string{"compliance", "extra"} {
		files, _ := filepath.Glob(filepath.Join(repo, "testdata", dir, "*.json"))
		sort.Strings(files)
		for _, f := range files {
			b, err := os.ReadFile(f)
			if err != nil {
				continue
			}
			var suites []struct {
				Given json.RawMessage `json:"given"`
				Cases []struct {
					Expression string          `json:"expression"`
					Result     json.RawMessage `json:"result"`
					Error      string          `json:"error"`
				} `json:"cases"`
			}
			d := json.NewDecoder(strings.NewReader(string(b)))
			d.UseNumber()
			if err := d.Decode(&suites); err != nil {
				continue
			}
			for _, s := range suites {
				given := compactJSON(s.Given)
				for _, cs := range s.Cases {
					out = append(out, corpusCase{Expr: cs.Expression, Given: given, File: filepath.Base(f), Error: cs.Error,
						Has: cs.Result != nil, Want: compactJSON(cs.Result)})
				}
			}
		}
	}
	return out
}

func compactJSON(raw json.RawMessage) string {
	if raw == nil {
		return "null"
	}
	var sb strings.Builder
	// keep number spellings: re-encode through a UseNumber decode
	d := json.NewDecoder(strings.NewReader(string(raw)))
	d.UseNumber()
	var v any
	if err := d.Decode(&v); err != nil {
		return "null"
	}
	b, _ := json.Marshal(v)
	sb.Write(b)
	return sb.String()
}

func genCorpus(c *GenCtx) {
	for _, cs := range loadCorpus(c.Repo) {
		c.add("corpus:"+cs.File, cs.Expr, cs.Given)
	}
}

// ---------------------------------------------------------------------------------------------
// documents

var idPool = []string{"a", "b", "c", "foo", "bar", "k"}
var strPool = []string{"", "a", "b", "ab", "abc", "héllo", "€", "😀x", "a b", "1", "foo", "z"}
var numPool = []string{"0", "1", "2", "-1", "3", "10", "1.5", "2.50", "1e2", "-0.5", "100", "7"}

func (c *GenCtx) jstr(s string) string {
	b, _ := json.Marshal(s)
	return string(b)
}

// doc builds a random JSON document (as text) of bounded depth.
func (c *GenCtx) doc(depth int) string {
	r := c.Rng
	k := r.Intn(100)
	if depth <= 0 {
		k = r.Intn(55)
	}
	switch {
	case k < 8:
		return "null"
	case k < 14:
		if r.Bool() {
			return "true"
		}
		return "false"
	case k < 34:
		return r.Pick(numPool)
	case k < 55:
		return c.jstr(r.Pick(strPool))
	case k < 78:
		n := r.Intn(5)
		parts := make([]string, n)
		for i := range parts {
			parts[i] = c.doc(depth - 1)
		}
		return "[" + strings.Join(parts, ",") + "]"
	default:
		n := r.Intn(4)
		seen := map[string]bool{}
		var parts []string
		for i := 0; i < n; i++ {
			key := r.Pick(idPool)
			if seen[key] {
				continue
			}
			seen[key] = true
			parts = append(parts, c.jstr(key)+":"+c.doc(depth-1))
		}
		return "{" + strings.Join(parts, ",") + "}"
	}
}

// objDoc: a document whose top level is an object mentioning most identifiers of the pool.
func (c *GenCtx) objDoc(depth int) string {
	r := c.Rng
	var parts []string
	for _, key := range idPool {
		if r.Chance(75) {
			parts = append(parts, c.jstr(key)+":"+c.doc(depth-1))
		}
	}
	return "{" + strings.Join(parts, ",") + "}"
}

// ---------------------------------------------------------------------------------------------
// expressions (string level; the grammar is followed loosely so that most, not all, are well-formed)

var binOps = []string{"|", "||", "&&", "==", "!=", "<", "<=", ">", ">=", "+", "-", "*", "/", "//", "%", "×", "÷", "−"}
var fn1 = []string{"abs", "avg", "ceil", "floor", "keys", "values", "length", "lower", "upper", "max", "min", "reverse", "sort", "sum",
	"to_array", "to_number", "to_string", "type", "items", "from_items", "trim", "trim_left", "trim_right", "not_null", "merge", "zip"}
var fn2 = []string{"contains", "ends_with", "starts_with", "join", "find_first", "find_last", "pad_left", "pad_right", "split", "trim", "merge", "zip", "not_null"}
var fnBy = []string{"sort_by", "max_by", "min_by", "group_by"}

func (c *GenCtx) ident() string {
	r := c.Rng
	if r.Chance(8) {
		return `"` + r.Pick(idPool) + `"`
	}
	return r.Pick(idPool)
}

func (c *GenCtx) literal() string {
	r := c.Rng
	switch r.Intn(6) {
	case 0:
		return "`" + r.Pick(numPool) + "`"
	case 1:
		return "'" + r.Pick(strPool) + "'"
	case 2:
		return "`" + strings.ReplaceAll(c.doc(1), "`", "\\`") + "`"
	case 3:
		return "`null`"
	case 4:
		return "`" + c.jstr(r.Pick(strPool)) + "`"
	default:
		return "`" + r.Pick(numPool) + "`"
	}
}

func (c *GenCtx) intLit() string {
	return strconv.Itoa(c.Rng.Intn(7) - 3)
}

func (c *GenCtx) selector(depth int) string {
	r := c.Rng
	switch r.Intn(14) {
	case 0, 1, 2, 3:
		return "." + c.ident()
	case 4:
		return "[" + c.intLit() + "]"
	case 5:
		return "[*]"
	case 6:
		return ".*"
	case 7:
		return "[]"
	case 8:
		return "[?" + c.expr(depth-1) + "]"
	case 9:
		a, b, s := "", "", ""
		if r.Bool() {
			a = c.intLit()
		}
		if r.Bool() {
			b = c.intLit()
		}
		if r.Chance(40) {
			s = ":" + c.intLit()
			if s == ":0" && r.Chance(90) {
				s = ":2"
			}
		}
		return "[" + a + ":" + b + s + "]"
	case 10:
		return ".[" + c.exprList(depth-1, 1+r.Intn(2)) + "]"
	case 11:
		return ".{" + c.hashBody(depth-1) + "}"
	case 12:
		return "." + c.call(depth-1)
	default:
		return "." + c.ident()
	}
}

func (c *GenCtx) exprList(depth, n int) string {
	parts := make([]string, n)
	for i := range parts {
		parts[i] = c.expr(depth)
	}
	return strings.Join(parts, ", ")
}

func (c *GenCtx) hashBody(depth int) string {
	n := 1 + c.Rng.Intn(2)
	parts := make([]string, n)
	for i := range parts {
		parts[i] = c.ident() + ": " + c.expr(depth)
	}
	return strings.Join(parts, ", ")
}

func (c *GenCtx) call(depth int) string {
	r := c.Rng
	switch r.Intn(6) {
	case 0, 1, 2:
		return r.Pick(fn1) + "(" + c.expr(depth) + ")"
	case 3, 4:
		return r.Pick(fn2) + "(" + c.expr(depth) + ", " + c.expr(depth) + ")"
	default:
		if r.Bool() {
			return "map(&" + c.expr(depth) + ", " + c.expr(depth) + ")"
		}
		return r.Pick(fnBy) + "(" + c.expr(depth) + ", &" + c.expr(depth) + ")"
	}
}

func (c *GenCtx) primary(depth int) string {
	r := c.Rng
	k := r.Intn(100)
	if depth <= 0 {
		k = r.Intn(50)
	}
	switch {
	case k < 30:
		return c.ident()
	case k < 36:
		return "@"
	case k < 40:
		return "$"
	case k < 50:
		return c.literal()
	case k < 55:
		return "(" + c.expr(depth-1) + ")"
	case k < 60:
		return "[" + c.exprList(depth-1, 1+r.Intn(3)) + "]"
	case k < 65:
		return "{" + c.hashBody(depth-1) + "}"
	case k < 75:
		return c.call(depth - 1)
	case k < 79:
		return "!" + c.expr(depth-1)
	case k < 82:
		return "-" + c.expr(depth-1)
	case k < 85:
		return "[*]"
	case k < 88:
		return "*"
	case k < 90:
		return "[]"
	case k < 93:
		return "[?" + c.expr(depth-1) + "]"
	case k < 95:
		return "[" + c.intLit() + "]"
	case k < 97:
		return "[" + c.intLit() + ":]"
	default:
		v := "$" + r.Pick([]string{"x", "y"})
		return "let " + v + " = " + c.expr(depth-1) + " in " + c.expr(depth-1) + " " + r.Pick([]string{"", "| " + v, "&& " + v})
	}
}

func (c *GenCtx) postfix(depth int) string {
	s := c.primary(depth)
	n := c.Rng.Intn(4)
	for i := 0; i < n; i++ {
		s += c.selector(depth)
	}
	return s
}

func (c *GenCtx) expr(depth int) string {
	r := c.Rng
	if depth <= 0 || r.Chance(55) {
		return c.postfix(depth)
	}
	l := c.expr(depth - 1)
	op := r.Pick(binOps)
	rr := c.expr(depth - 1)
	sp := " "
	if r.Chance(10) {
		sp = ""
	}
	return l + sp + op + sp + rr
}

func genRandom(c *GenCtx, family string, n int, depth int) {
	for i := 0; i < n; i++ {
		e := c.expr(depth)
		c.add(family, e, c.objDoc(3))
	}
}

// ---------------------------------------------------------------------------------------------

// projection-heavy expressions: chains of wildcards, filters, flattens, slices and selectors
func genProjections(c *GenCtx, n int) {
	genPipeIndex(c)
	r := c.Rng
	heads := []string{"foo", "bar", "@", "*", "[*]", "[]", "a", "foo.bar", "[?a]", "[0:]", "$"}
	sels := []string{"[*]", "[*]", ".*", "[]", "[?a]", "[?@]", "[0]", "[-1]", "[1:]", "[::2]", ".a", ".b", ".foo", ".bar", ".{k: a}", ".[a, b]", ".k", ".*", "[*]", ".length(@)", ".a.b", "[?b == `1`]", ".keys(@)", ".[*]"}
	tails := []string{"", "", "", " | [0]", " | [*]", " | length(@)", " || `0`", " == `[]`", " | [0].a", " && foo"}
	for i := 0; i < n; i++ {
		e := r.Pick(heads)
		if e == "foo" || e == "bar" || e == "a" || e == "foo.bar" || e == "$" || e == "@" {
			// ok as is
		}
		k := 1 + r.Intn(4)
		for j := 0; j < k; j++ {
			e += r.Pick(sels)
		}
		if r.Chance(15) {
			e = "(" + e + ")" + r.Pick(sels)
		}
		e += r.Pick(tails)
		c.add("proj", e, c.projDoc())
	}
}

// documents rich in arrays of objects, nested arrays, nulls and non-containers where containers are expected
func (c *GenCtx) projDoc() string {
	r := c.Rng
	elem := func() string {
		switch r.Intn(9) {
		case 0:
			return "null"
		case 1:
			return r.Pick(numPool)
		case 2:
			return c.jstr(r.Pick(strPool))
		case 3:
			return "[" + c.doc(1) + "," + c.doc(1) + "]"
		case 4:
			return `[{"a":` + c.doc(1) + `,"b":1},null,{"a":[1,2],"k":"x"}]`
		default:
			return `{"a":` + c.doc(2) + `,"b":` + r.Pick([]string{"1", "null", "[1,null,2]", `{"a":null,"b":2}`}) + `,"k":` + c.jstr(r.Pick(strPool)) + `}`
		}
	}
	arr := func() string {
		n := r.Intn(5)
		parts := make([]string, n)
		for i := range parts {
			parts[i] = elem()
		}
		return "[" + strings.Join(parts, ",") + "]"
	}
	return `{"foo":` + r.Pick([]string{arr(), arr(), `{"bar":` + arr() + `,"a":null,"b":` + elem() + `}`, "null", `"str"`}) + `,"bar":` + r.Pick([]string{arr(), `{"a":` + elem() + `,"b":null,"k":` + elem() + `}`, "7"}) +
		`,"a":` + elem() + `,"b":` + elem() + `,"k":` + elem() + `}`
}

// scaled runs a family with its budgets divided by k (the base mix every property's check includes).
func (c *GenCtx) scaled(k int, f func(*GenCtx)) {
	c.div = k
	f(c)
	c.div = 0
}

// genBase: a modest mix of every family. A change that breaks property X often shows through operations that X's own
// families do not generate (an error-contract bug inside `let`, a scoping bug inside `sort_by`), so every check
// also runs this mix.
func genBase(c *GenCtx) {
	if c.Prop == "C07" {
		return // the race build is an order of magnitude slower
	}
	c.scaled(6, func(c *GenCtx) {
		genTyped(c, c.n(12000, 240000), 3)
		genRandom(c, "rand", c.n(6000, 120000), 3)
		genProjections(c, c.n(6000, 120000))
		genLet(c)
		genEquality(c)
		genNumbers(c)
		genOverflow(c)
		genStrings(c)
		genSort(c)
		genLiterals(c)
		genRepr(c)
		genAlias(c)
		genSkeleton(c, 6)
	})
	c.scaled(12, func(c *GenCtx) {
		genArgs(c)
		genOperators(c)
	})
}

func generate(c *GenCtx) []Op {
	genBase(c)
	switch c.Prop {
	case "C01":
		genCorpus(c)
		genRandom(c, "rand", c.n(15000, 300000), 3)
		genProjections(c, c.n(25000, 500000))
		genTyped(c, c.n(30000, 600000), 3)
		genEquality(c)
		genLet(c)
		genSkeleton(c, 2)
		genSlices(c)
		genBoundaryLengths(c)
		genWrapPairs(c)
	case "C02":
		genArgs(c)
		genTyped(c, c.n(20000, 400000), 3)
		genSort(c)
		genStrings(c)
		genByteWindow(c)
	case "C03":
		genSlices(c)
		genStrings(c)
		genOverflow(c)
		genArgs(c)
		genBytes(c)
		genRandom(c, "rand", c.n(5000, 100000), 3)
		genTyped(c, c.n(10000, 200000), 4)
	case "C04":
		genTokens(c)
		genLiterals(c)
	case "C05":
		genNumbers(c)
		genOverflow(c)
		genSumBatch(c)
		genWrapPairs(c)
	case "C06":
		genAlias(c)
		genRandom(c, "rand", c.n(3000, 50000), 2)
		genTyped(c, c.n(10000, 200000), 3)
	case "C07":
		genRandom(c, "rand", c.n(2000, 20000), 2)
	case "C08":
		genCorpus(c)
		genTokens(c)
		genArgs(c)
		genOverflow(c)
		genRandom(c, "rand", c.n(5000, 100000), 3)
		genLet(c)
		genTyped(c, c.n(10000, 200000), 3)
	case "C09":
		genCost(c)
		genDeepData(c)
	case "C10":
		genOperators(c)
		genSkeleton(c, 2)
	case "C11":
		genStrings(c)
		genByteWindow(c)
	case "C12":
		genSlices(c)
	case "C13":
		genSort(c)
		genWrapPairs(c)
	case "C14":
		genRepr(c)
		genWrapPairs(c)
	case "C15":
		genCorpus(c)
		genRandom(c, "rand", c.n(10000, 200000), 3)
		genProjections(c, c.n(5000, 100000))
		genTyped(c, c.n(15000, 300000), 3)
		genBoundaryLengths(c)
	case "C16":
		genLiterals(c)
	case "C17":
		c.pairs = genIdentities(c)
	case "C18":
		genRandom(c, "rand", c.n(5000, 100000), 3)
		genTyped(c, c.n(20000, 400000), 3)
		genOverflow(c)
		genArgs(c)
		genBoundaryLengths(c)
	case "C19":
		genLet(c)
	case "C20":
		genEquality(c)
		genSkeleton(c, 1)
		genWrapPairs(c)
		genDeepData(c)
	default:
		genCorpus(c)
		genRandom(c, "rand", c.n(20000, 400000), 3)
	}
	if c.Prop != "C07" {
		full := map[string]bool{"C01": true, "C02": true, "C03": true, "C04": true, "C09": true, "C11": true, "C12": true, "C13": true, "C16": true}
		if full[c.Prop] {
			genHarvest(c, 1)
		} else {
			genHarvest(c, 4)
		}
	}
	genObservers(c)
	return c.ops
}

// genObservers re-runs a sample of the searches as `[E, @]`: the second element observes the document after E has been
// evaluated in the same call, so an operation that writes into its input shows up as a wrong second element.
func genObservers(c *GenCtx) {
	n := len(c.ops)
	for i := 0; i < n; i++ {
		o := c.ops[i]
		if o.Kind != "S" || o.Risky || len(o.Expr) > 400 || len(o.Data) > 4000 || i%10 != 3 {
			continue
		}
		w := "[" + string(o.Expr) + ", @]"
		if i%20 == 3 {
			w = "[@, " + string(o.Expr) + ", @]"
		}
		c.ops = append(c.ops, Op{Kind: "S", Expr: []byte(w), Data: o.Data, Family: "observe"})
	}
}

func judges(c *GenCtx, ops []Op, model map[int]string) []Diff {
	switch c.Prop {
	case "C06":
		return judgeHistories(c)
	case "C07":
		return judgeConcurrent(c)
	case "C08":
		return append(judgeStatic(c, ops), judgeForeignConv()...)
	case "C03":
		return judgeForeignConv()
	case "C09":
		return judgeCost(c, ops)
	case "C13":
		return judgeSort(c, ops)
	case "C14":
		return judgeRepr(c, ops)
	case "C15":
		return judgeDeterminism(c, ops, model)
	case "C17":
		return judgeIdentities(c.pairs)
	case "C18":
		return judgeFeedback(c)
	}
	return nil
}

var _ = fmt.Sprintf

// a projection piped into an index or a slice: the projection drops its null results BEFORE the pipe sees the array, so
// `x[?c].f | [0]` is the first non-null `f` among the matches, not `f` of the first match — over arrays whose first
// (last) matching element lacks the field, has it null, or is not an object (seeded L08: "first match" fusion)
func genPipeIndex(c *GenCtx) {
	docs := []string{
		`{"x":[{"k":1},{"k":2,"f":null},{"k":3,"f":"c"},{"k":4,"f":"d"},{"k":5}]}`,
		`{"x":[{"k":1,"f":"a"},{"k":2},{"k":3,"f":"c"}]}`,
		`{"x":[{"k":9},{"k":8,"f":{"g":null}},{"k":7,"f":{"g":1}}]}`,
		`{"x":[1,"s",null,{"k":3,"f":"c"},[{"k":4,"f":"d"}]]}`,
		`{"x":[]}`, `{"x":null}`, `{"x":{"a":{"k":2},"b":{"k":3,"f":"c"}}}`,
		`{"x":[[{"k":1}],[{"k":2,"f":"b"}],[]]}`,
	}
	lefts := []string{"x[?k > `1`].f", "x[?k].f", "x[*].f", "x[].f", "x[?k >= `2`].f.g", "x[?k][].f", "x[1:].f", "x[::-1].f", "x.*.f", "x[?k > `1`]", "x[?!f]", "x[*]", "x[?k].{v: f}.v",
		"x[?k > `1`].[f][]", "x[?f == `null`].k", "x[?k].f[?@]", "[x][0][?k > `1`].f", "x[?k > `1`].f.length(@)", "x[?k && !f].k", "x[*][0].f", "x[][?k].f"}
	rights := []string{"[0]", "[-1]", "[1]", "[:1]", "[-1:]", "[0].g", "[0] || 'none'", "length(@)", "[?@]", "[*]", "[0][0]", "reverse(@)[0]", "not_null(@)", "[::-1][0]"}
	for _, d := range docs {
		for _, l := range lefts {
			for _, r := range rights {
				c.add("pipe-index", l+" | "+r, d)
				if r == "[0]" || r == "[-1]" {
					c.add("pipe-index", "("+l+")"+r, d)
					c.add("pipe-index", "[@][*]."+l+" | [*]"+r, d)
				}
			}
		}
	}
}
