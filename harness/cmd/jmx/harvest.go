package main

// Boundary inputs harvested from the code under test: the fact extractor lists every integer and rune constant of the
// four packages (constants.json, rewritten on every run); this family probes each value from both sides as an array
// length, a string length, an index, a count, a width and a character. A threshold or character class in the code —
// whatever its value, including one a change has just introduced — then has inputs on both sides of it.

import (
	"encoding/json"
	"fmt"
	"os"
	"strconv"
	"strings"
	"unicode/utf8"
)

var constsPath string

type harvested struct {
	Ints  []string `json:"ints"`
	Runes []int    `json:"runes"`
}

func genHarvest(c *GenCtx, sample int) {
	if constsPath == "" {
		return
	}
	raw, err := os.ReadFile(constsPath)
	if err != nil {
		return
	}
	var h harvested
	if json.Unmarshal(raw, &h) != nil {
		return
	}
	r := c.Rng
	emit := func(family, e, d string) {
		if sample <= 1 || r.Intn(sample) == 0 {
			c.add(family, e, d)
		}
	}
	seenLen := map[int]bool{}
	for _, ks := range h.Ints {
		k, err := strconv.Atoi(ks)
		if err != nil {
			continue
		}
		// as a literal: index, slice bound, count, width
		for _, d := range []int{-1, 0, 1} {
			v := k + d
			if (d > 0 && v < k) || (d < 0 && v > k) {
				continue // wrapped
			}
			lit := strconv.Itoa(v)
			emit("harvest-lit", "["+lit+"]", `[10,11,12]`)
			emit("harvest-lit", "a[*]["+lit+"]", `{"a":[[10,11,12],[13]]}`)
			emit("harvest-lit", "[:"+lit+"] | length(@)", `[10,11,12]`)
			emit("harvest-lit", "s["+lit+":]", `{"s":"héllo"}`)
			emit("harvest-lit", "s[::"+lit+"]", `{"s":"héllo"}`)
			emit("harvest-lit", "split(s, 'l', `"+lit+"`)", `{"s":"héllo wörld"}`)
			emit("harvest-lit", "replace(s, 'l', 'L', `"+lit+"`)", `{"s":"héllo wörld"}`)
			emit("harvest-lit", "find_first(s, 'l', `"+lit+"`)", `{"s":"héllo wörld"}`)
			emit("harvest-lit", "find_last(s, 'o', `0`, `"+lit+"`)", `{"s":"héllo wörld"}`)
			if v >= -5 && v <= 3000 {
				emit("harvest-lit", "length(pad_left(s, `"+lit+"`))", `{"s":"hé"}`)
				emit("harvest-lit", "pad_right(s, `"+lit+"`, '-') | length(@)", `{"s":"hé"}`)
			}
			emit("harvest-lit", "n == `"+lit+"` || n < `"+lit+"`", `{"n":`+strconv.Itoa(k)+`}`)
			emit("harvest-lit", "[n + `1`, n - `1`, n * `2`, -n, abs(n)]", `{"n":`+lit+`}`)
		}
		// as a length
		for _, n := range []int{k - 1, k, k + 1} {
			if n < 0 || n > 1500 || seenLen[n] {
				continue
			}
			seenLen[n] = true
			var nums, strs, objs, nested []string
			for i := 0; i < n; i++ {
				v := (i*7919 + 13) % (n + 3)
				nums = append(nums, strconv.Itoa(v))
				strs = append(strs, `"s`+strconv.Itoa(v)+`"`)
				objs = append(objs, fmt.Sprintf(`{"k":%d,"i":%d}`, v%5, i))
				nested = append(nested, `[`+strconv.Itoa(i)+`,null]`)
			}
			doc := `{"n":[` + strings.Join(nums, ",") + `],"s":[` + strings.Join(strs, ",") + `],"o":[` + strings.Join(objs, ",") + `],"m":[` + strings.Join(nested, ",") + `],"t":"` + strings.Repeat("é", n) + `","u":"` + strings.Repeat("ab", n/2) + strings.Repeat("c", n%2) + `"}`
			for _, e := range []string{"sort(n)", "[sort(n), n]", "sort(s)", "sort_by(o, &k)[*].i", "max_by(o, &k).i", "min_by(o, &k).i", "reverse(n)", "max(n)", "min(s)", "sum(n)", "avg(n)", "length(n)",
				"n[::-1]", "n[*]", "m[]", "m[*][0]", "join(',', s)", "group_by(o, &to_string(k))", "zip(n, s)", "map(&@, n)", "to_array(n)", "n[?@ > `1`]", "length(t)", "reverse(t)", "t[1:]", "t[::2]",
				"pad_left(t, `" + strconv.Itoa(n+1) + "`)", "split(u, '')", "split(u, 'b')", "replace(u, 'a', 'xy')", "find_last(u, 'a')", "upper(u)", "trim(u, 'a')", "contains(n, `1`)", "n == n", "from_items(zip(s, n))",
				"keys(from_items(zip(s, n))) | length(@)", "o[*].k | sort(@)", "not_null(n)", "[n, s] | [0]", "let $v = n in sort($v)", "sort(n[*])", "sort(n)[0]", "n | [0]"} {
				emit("harvest-len", e, doc)
			}
		}
	}
	// characters: the rune and its neighbours, in every literal syntax, as data, and bare in the expression
	seenR := map[int]bool{}
	for _, k := range h.Runes {
		for _, v := range []int{k - 1, k, k + 1} {
			if v < 0 || v > 0x10FFFF || (v >= 0xD800 && v <= 0xDFFF) || seenR[v] {
				continue
			}
			seenR[v] = true
			ch := string(rune(v))
			if !utf8.ValidString(ch) {
				continue
			}
			js, _ := json.Marshal("a" + ch + "b")
			doc := `{"s":` + string(js) + `,"k":{` + string(js) + `:1},"a":{"b":1}}`
			emit("harvest-rune", "'a"+strings.ReplaceAll(strings.ReplaceAll(ch, `\`, `\\`), `'`, `\'`)+"b'", doc)
			emit("harvest-rune", "'\\"+ch+"'", doc)
			emit("harvest-rune", "`"+strings.ReplaceAll(string(js), "`", "\\`")+"`", doc)
			emit("harvest-rune", "k."+string(js), doc)
			emit("harvest-rune", "\"\\"+ch+"\"", doc)
			emit("harvest-rune", "[upper(s), lower(s), trim(s, 'ab'), reverse(s), length(s), find_first(s, 'b'), split(s, ''), s > 'a', pad_left(s, `5`), trim(s), s[1:2]]", doc)
			emit("harvest-rune", "a"+ch+"b", doc)
			emit("harvest-rune", "a "+ch+" b", doc)
			emit("harvest-rune", ch+"a", doc)
			emit("harvest-rune", "a."+ch, doc)
			emit("harvest-rune", "a"+ch, doc)
			emit("harvest-rune", ch, doc)
			emit("harvest-rune", "$"+ch+"x", doc)
			emit("harvest-rune", "a"+ch+ch+"b", doc)
			emit("harvest-rune", "a"+ch+"=b", doc)
			emit("harvest-rune", "`1"+ch+"`", doc)
			emit("harvest-rune", "a[1"+ch+"]", doc)
			emit("harvest-rune", "to_number('1"+strings.ReplaceAll(ch, "'", "")+"2')", doc)
		}
	}
}
