package main

// Canonical text for Go values and outcomes (DESIGN.md Appendix C), the tagged-JSON ("xjson") document
// format, and the structural comparison of implementation outcomes with model outcomes.

import (
	"bytes"
	"encoding/hex"
	"encoding/json"
	"errors"
	"fmt"
	"math"
	"math/big"
	"sort"
	"strconv"
	"strings"

	"github.com/woodsbury/decimal128"
	"github.com/woodsbury/jmespath"
)

// Foreign is the family of "opaque foreign Go values" the harness feeds in.
type Foreign struct{ T int }

// ForeignPanics is a foreign value whose own MarshalJSON method panics (t = 7); ForeignBadErr one whose MarshalJSON
// returns an error whose Error method panics (t = 8).
type ForeignPanics struct{ T int }

func (ForeignPanics) MarshalJSON() ([]byte, error) { panic("ForeignPanics.MarshalJSON") }

type badErr struct{}

func (badErr) Error() string { panic("badErr.Error") }

type ForeignBadErr struct{ T int }

func (ForeignBadErr) MarshalJSON() ([]byte, error) { return nil, badErr{} }

func hexs(b []byte) string { return hex.EncodeToString(b) }

func decCanon(d decimal128.Decimal) string {
	if d.IsNaN() {
		return "nan"
	}
	if d.IsInf(1) {
		return "+inf"
	}
	if d.IsInf(-1) {
		return "-inf"
	}
	_, neg, coef, exp := d.Decompose(nil)
	c := new(big.Int).SetBytes(coef)
	sign := ""
	if neg {
		sign = "-"
	}
	if c.Sign() == 0 {
		return sign + "0"
	}
	ten := big.NewInt(10)
	q, r := new(big.Int), new(big.Int)
	e := int64(exp)
	for {
		q.QuoRem(c, ten, r)
		if r.Sign() != 0 {
			break
		}
		c.Set(q)
		e++
	}
	return sign + c.String() + "e" + strconv.FormatInt(e, 10)
}

func f64Canon(f float64) string {
	if math.IsNaN(f) {
		return "nan"
	}
	if math.IsInf(f, 1) {
		return "+inf"
	}
	if math.IsInf(f, -1) {
		return "-inf"
	}
	sign := ""
	if math.Signbit(f) {
		sign = "-"
	}
	if f == 0 {
		return sign + "0p0"
	}
	bits := math.Float64bits(f)
	mant := bits & 0x000f_ffff_ffff_ffff
	e := int64(bits >> 52 & 0x7ff)
	if e == 0 {
		e = -1074
	} else {
		mant |= 1 << 52
		e -= 1075
	}
	for mant&1 == 0 {
		mant >>= 1
		e++
	}
	return sign + strconv.FormatUint(mant, 10) + "p" + strconv.FormatInt(e, 10)
}

// maxDepth bounds the recursion of the canonicalisers: a value nested deeper (or cyclic, which only a defective
// library can produce from tree-shaped input) is rendered as GO<too-deep-or-cyclic>, which never compares equal.
const maxDepth = 120000

func canon(v any, sb *strings.Builder) { canonD(v, sb, 0) }

func canonD(v any, sb *strings.Builder, depth int) {
	if depth > maxDepth {
		sb.WriteString("GO<too-deep-or-cyclic>")
		return
	}
	switch v := v.(type) {
	case nil:
		sb.WriteString("null")
	case bool:
		if v {
			sb.WriteString("true")
		} else {
			sb.WriteString("false")
		}
	case string:
		sb.WriteString("s")
		sb.WriteString(hexs([]byte(v)))
	case json.Number:
		sb.WriteString("nj:")
		sb.WriteString(hexs([]byte(v)))
	case decimal128.Decimal:
		sb.WriteString("nd:")
		sb.WriteString(decCanon(v))
	case float64:
		sb.WriteString("nf64:")
		sb.WriteString(f64Canon(v))
	case float32:
		sb.WriteString("nf32:")
		sb.WriteString(f64Canon(float64(v)))
	case int8:
		fmt.Fprintf(sb, "ni8:%d", v)
	case int16:
		fmt.Fprintf(sb, "ni16:%d", v)
	case int32:
		fmt.Fprintf(sb, "ni32:%d", v)
	case int64:
		fmt.Fprintf(sb, "ni64:%d", v)
	case int:
		fmt.Fprintf(sb, "nint:%d", v)
	case uint8:
		fmt.Fprintf(sb, "nu8:%d", v)
	case uint16:
		fmt.Fprintf(sb, "nu16:%d", v)
	case uint32:
		fmt.Fprintf(sb, "nu32:%d", v)
	case uint64:
		fmt.Fprintf(sb, "nu64:%d", v)
	case uint:
		fmt.Fprintf(sb, "nuint:%d", v)
	case []any:
		if v == nil {
			sb.WriteString("nil[]")
			return
		}
		sb.WriteString("[")
		for i, x := range v {
			if i > 0 {
				sb.WriteString(",")
			}
			canonD(x, sb, depth+1)
		}
		sb.WriteString("]")
	case map[string]any:
		if v == nil {
			sb.WriteString("nil{}")
			return
		}
		keys := make([]string, 0, len(v))
		for k := range v {
			keys = append(keys, k)
		}
		sort.Strings(keys)
		sb.WriteString("{")
		for i, k := range keys {
			if i > 0 {
				sb.WriteString(",")
			}
			sb.WriteString("s")
			sb.WriteString(hexs([]byte(k)))
			sb.WriteString(":")
			canonD(v[k], sb, depth+1)
		}
		sb.WriteString("}")
	case Foreign:
		fmt.Fprintf(sb, "foreign:%d", v.T)
	case ForeignPanics:
		fmt.Fprintf(sb, "foreign:%d", v.T)
	case ForeignBadErr:
		fmt.Fprintf(sb, "foreign:%d", v.T)
	default:
		fmt.Fprintf(sb, "GO<%T>", v)
	}
}

func canonString(v any) string {
	var sb strings.Builder
	canon(v, &sb)
	return sb.String()
}

// ---- xjson → Go value ----

func parseF64Text(s string) (float64, error) {
	switch s {
	case "nan":
		return math.NaN(), nil
	case "+inf":
		return math.Inf(1), nil
	case "-inf":
		return math.Inf(-1), nil
	}
	neg := false
	if strings.HasPrefix(s, "-") {
		neg = true
		s = s[1:]
	}
	parts := strings.Split(s, "p")
	if len(parts) != 2 {
		return 0, fmt.Errorf("bad f64 %q", s)
	}
	m, err := strconv.ParseUint(parts[0], 10, 64)
	if err != nil {
		return 0, err
	}
	e, err := strconv.Atoi(parts[1])
	if err != nil {
		return 0, err
	}
	f := math.Ldexp(float64(m), e)
	if float64(uint64(float64(m))) != float64(m) || m >= 1<<53 {
		return 0, fmt.Errorf("mantissa too wide %q", s)
	}
	if neg {
		f = math.Copysign(f, -1)
	}
	return f, nil
}

func untag(v any) (any, error) {
	switch v := v.(type) {
	case []any:
		for i := range v {
			x, err := untag(v[i])
			if err != nil {
				return nil, err
			}
			v[i] = x
		}
		return v, nil
	case map[string]any:
		tag, ok := v["#"].(string)
		if !ok {
			for k := range v {
				x, err := untag(v[k])
				if err != nil {
					return nil, err
				}
				v[k] = x
			}
			return v, nil
		}
		sv, _ := v["v"].(string)
		switch tag {
		case "f64":
			return parseF64Text(sv)
		case "f32":
			f, err := parseF64Text(sv)
			if err != nil {
				return nil, err
			}
			if float64(float32(f)) != f && !math.IsNaN(f) {
				return nil, fmt.Errorf("not a float32: %q", sv)
			}
			return float32(f), nil
		case "dec":
			d, err := decimal128.Parse(sv)
			if err != nil && !errors.Is(err, strconv.ErrRange) {
				return nil, err
			}
			return d, nil
		case "jnum":
			b, err := hex.DecodeString(v["x"].(string))
			if err != nil {
				return nil, err
			}
			return json.Number(string(b)), nil
		case "bytes":
			b, err := hex.DecodeString(v["x"].(string))
			if err != nil {
				return nil, err
			}
			return string(b), nil
		case "foreign":
			t, err := strconv.Atoi(string(v["t"].(json.Number)))
			if err != nil {
				return nil, err
			}
			switch t {
			case 7:
				return ForeignPanics{T: t}, nil
			case 8:
				return ForeignBadErr{T: t}, nil
			}
			return Foreign{T: t}, nil
		case "nilslice":
			return []any(nil), nil
		case "cap":
			a, ok := v["v"].([]any)
			if !ok {
				return nil, fmt.Errorf("cap without array")
			}
			for i := range a {
				x, err := untag(a[i])
				if err != nil {
					return nil, err
				}
				a[i] = x
			}
			// spare capacity holding sentinels
			r := make([]any, len(a), len(a)+3)
			copy(r, a)
			spare := r[:cap(r)]
			for i := len(a); i < cap(r); i++ {
				spare[i] = sentinel
			}
			return r, nil
		case "i8", "i16", "i32", "i64", "int":
			i, err := strconv.ParseInt(sv, 10, 64)
			if err != nil {
				return nil, err
			}
			switch tag {
			case "i8":
				return int8(i), nil
			case "i16":
				return int16(i), nil
			case "i32":
				return int32(i), nil
			case "i64":
				return i, nil
			}
			return int(i), nil
		case "u8", "u16", "u32", "u64", "uint":
			i, err := strconv.ParseUint(sv, 10, 64)
			if err != nil {
				return nil, err
			}
			switch tag {
			case "u8":
				return uint8(i), nil
			case "u16":
				return uint16(i), nil
			case "u32":
				return uint32(i), nil
			case "u64":
				return i, nil
			}
			return uint(i), nil
		}
		return nil, fmt.Errorf("unknown tag %q", tag)
	}
	return v, nil
}

const sentinel = "\x00SENTINEL\x00"

func parseXJSON(s string) (any, error) {
	d := json.NewDecoder(strings.NewReader(s))
	d.UseNumber()
	var v any
	if err := d.Decode(&v); err != nil {
		return nil, err
	}
	return untag(v)
}

// ---- outcomes ----

var sentinels = []struct {
	name string
	err  error
}{
	{"syntax", jmespath.ErrSyntax},
	{"arity", jmespath.ErrInvalidArity},
	{"unknown-function", jmespath.ErrUnknownFunction},
	{"invalid-type", jmespath.ErrInvalidType},
	{"invalid-value", jmespath.ErrInvalidValue},
	{"not-a-number", jmespath.ErrNotANumber},
	{"undefined-variable", jmespath.ErrUndefinedVariable},
	{"evaluation-failed", jmespath.ErrEvaluationFailed},
}

// errOutcome classifies an error: "err <cat>" when exactly one sentinel matches, otherwise a contract violation
// string. It also formats the error (C03: every returned error can be formatted).
func errOutcome(err error, result any) (out string) {
	defer func() {
		if r := recover(); r != nil {
			out = fmt.Sprintf("panic formatting error: %v", r)
		}
	}()
	_ = err.Error()
	var cats []string
	for _, s := range sentinels {
		if errors.Is(err, s.err) {
			cats = append(cats, s.name)
		}
	}
	if len(cats) != 1 {
		return fmt.Sprintf("errcontract matches=%d %v", len(cats), cats)
	}
	if result != nil {
		return "errcontract non-nil result with error " + cats[0]
	}
	return "err " + cats[0]
}

// ---- canon parsing and comparison ----

type cnode struct {
	kind     byte // 'l' leaf, 'a' array, 'e' enum array, 'o' object
	text     string
	children []*cnode
	keys     []string
}

type cparser struct {
	s string
	i int
}

func (p *cparser) parse() (*cnode, error) {
	if p.i >= len(p.s) {
		return nil, fmt.Errorf("eof")
	}
	switch {
	case p.s[p.i] == '[' || strings.HasPrefix(p.s[p.i:], "E["):
		kind := byte('a')
		if p.s[p.i] == 'E' {
			kind = 'e'
			p.i++
		}
		p.i++
		n := &cnode{kind: kind}
		if p.i < len(p.s) && p.s[p.i] == ']' {
			p.i++
			return n, nil
		}
		for {
			c, err := p.parse()
			if err != nil {
				return nil, err
			}
			n.children = append(n.children, c)
			if p.i >= len(p.s) {
				return nil, fmt.Errorf("eof in array")
			}
			if p.s[p.i] == ',' {
				p.i++
				continue
			}
			if p.s[p.i] == ']' {
				p.i++
				return n, nil
			}
			return nil, fmt.Errorf("bad array at %d", p.i)
		}
	case p.s[p.i] == '{':
		p.i++
		n := &cnode{kind: 'o'}
		if p.i < len(p.s) && p.s[p.i] == '}' {
			p.i++
			return n, nil
		}
		for {
			j := strings.IndexByte(p.s[p.i:], ':')
			if j < 0 {
				return nil, fmt.Errorf("bad object")
			}
			n.keys = append(n.keys, p.s[p.i:p.i+j])
			p.i += j + 1
			c, err := p.parse()
			if err != nil {
				return nil, err
			}
			n.children = append(n.children, c)
			if p.i >= len(p.s) {
				return nil, fmt.Errorf("eof in object")
			}
			if p.s[p.i] == ',' {
				p.i++
				continue
			}
			if p.s[p.i] == '}' {
				p.i++
				return n, nil
			}
			return nil, fmt.Errorf("bad object at %d", p.i)
		}
	case strings.HasPrefix(p.s[p.i:], "nil[]"), strings.HasPrefix(p.s[p.i:], "nil{}"):
		// a nil slice / nil map: leaves whose spelling contains brackets
		t := p.s[p.i : p.i+5]
		p.i += 5
		return &cnode{kind: 'l', text: t}, nil
	case strings.HasPrefix(p.s[p.i:], "GO<"):
		// a foreign Go value: GO<type>, where the type may contain brackets and nested angle brackets
		depth, j := 0, p.i+2
		for ; j < len(p.s); j++ {
			if p.s[j] == '<' {
				depth++
			} else if p.s[j] == '>' {
				depth--
				if depth == 0 {
					j++
					break
				}
			}
		}
		n := &cnode{kind: 'l', text: p.s[p.i:j]}
		p.i = j
		return n, nil
	default:
		j := p.i
		for j < len(p.s) && p.s[j] != ',' && p.s[j] != ']' && p.s[j] != '}' {
			j++
		}
		n := &cnode{kind: 'l', text: p.s[p.i:j]}
		p.i = j
		return n, nil
	}
}

func parseCanon(s string) (*cnode, error) {
	p := &cparser{s: s}
	n, err := p.parse()
	if err != nil {
		return nil, err
	}
	if p.i != len(s) {
		return nil, fmt.Errorf("trailing canon text")
	}
	return n, nil
}

// loose renders a node with every array treated as a multiset.
func loose(n *cnode) string {
	switch n.kind {
	case 'l':
		return n.text
	case 'o':
		var sb bytes.Buffer
		sb.WriteString("{")
		for i, k := range n.keys {
			if i > 0 {
				sb.WriteString(",")
			}
			sb.WriteString(k + ":" + loose(n.children[i]))
		}
		sb.WriteString("}")
		return sb.String()
	}
	parts := make([]string, len(n.children))
	for i, c := range n.children {
		parts[i] = loose(c)
	}
	sort.Strings(parts)
	return "[" + strings.Join(parts, ",") + "]"
}

// sameValue compares an implementation value with a model value; arrays the model marks E (element order taken
// from a Go map) are compared as multisets.
func sameValue(impl, model *cnode) bool {
	switch model.kind {
	case 'l':
		if impl.kind != 'l' {
			return false
		}
		if impl.text == model.text {
			return true
		}
		// the model does not track the sign of a decimal zero through every operation
		return false
	case 'e':
		if impl.kind != 'a' || len(impl.children) != len(model.children) {
			return false
		}
		return loose(impl) == loose(model)
	case 'a':
		if impl.kind != 'a' || len(impl.children) != len(model.children) {
			return false
		}
		for i := range impl.children {
			if !sameValue(impl.children[i], model.children[i]) {
				return false
			}
		}
		return true
	case 'o':
		if impl.kind != 'o' || len(impl.keys) != len(model.keys) {
			return false
		}
		for i := range impl.keys {
			if impl.keys[i] != model.keys[i] || !sameValue(impl.children[i], model.children[i]) {
				return false
			}
		}
		return true
	}
	return false
}

// agree decides whether an implementation outcome is consistent with a model outcome.
// skip = the model declined (nondet / unmodelled).
func agree(impl, model string) (ok bool, skip bool) {
	switch {
	case model == "nondet" || strings.HasPrefix(model, "unmodelled"):
		return true, true
	case impl == "unrun":
		return true, true
	case strings.HasPrefix(model, "ok "):
		if !strings.HasPrefix(impl, "ok ") {
			return false, false
		}
		if impl == model {
			return true, false
		}
		in, err1 := parseCanon(impl[3:])
		mn, err2 := parseCanon(model[3:])
		if err1 != nil || err2 != nil {
			return false, false
		}
		return sameValue(in, mn), false
	case model == "ok":
		return impl == "ok", false
	case strings.HasPrefix(model, "err "):
		if !strings.HasPrefix(impl, "err ") {
			return false, false
		}
		for _, c := range strings.Split(model[4:], "+") {
			if impl[4:] == c {
				return true, false
			}
		}
		return false, false
	case strings.HasPrefix(model, "panic"):
		return strings.HasPrefix(impl, "panic"), false
	}
	return false, false
}
