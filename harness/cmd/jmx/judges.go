package main

// Property judges that need more than "implementation outcome = model outcome": call histories and input
// snapshots (C06), concurrency (C07), repeated evaluation (C15), feed-back (C18), identities (C17), representation
// independence (C14), static-error contract (C08), cost budgets (C09).

import (
	"encoding/json"
	"fmt"
	"math/big"
	"runtime"
	"sort"
	"strconv"
	"strings"
	"sync"
	"syscall"
	"time"
	"unsafe"

	"github.com/woodsbury/decimal128"
	"github.com/woodsbury/jmespath"
)

func jf(family, expr, data, impl, model, why string) Diff {
	return Diff{Op: Op{Kind: "S", Data: data, Family: family}, Expr: expr, Impl: impl, Model: model, Why: why}
}

// ---------------------------------------------------------------------------------------------
// deep snapshots that also see the spare capacity of slices

func snapshot(v any, sb *strings.Builder) { snapshotD(v, sb, 0) }

func snapshotD(v any, sb *strings.Builder, depth int) {
	if depth > maxDepth {
		sb.WriteString("GO<too-deep-or-cyclic>")
		return
	}
	switch v := v.(type) {
	case []any:
		if v == nil {
			sb.WriteString("nil[]")
			return
		}
		fmt.Fprintf(sb, "[len=%d cap=%d:", len(v), cap(v))
		full := v[:cap(v)]
		for i, x := range full {
			if i > 0 {
				sb.WriteString(",")
			}
			snapshotD(x, sb, depth+1)
		}
		sb.WriteString("]")
	case map[string]any:
		keys := make([]string, 0, len(v))
		for k := range v {
			keys = append(keys, k)
		}
		sort.Strings(keys)
		sb.WriteString("{")
		for _, k := range keys {
			fmt.Fprintf(sb, "%q:", k)
			snapshotD(v[k], sb, depth+1)
			sb.WriteString(",")
		}
		sb.WriteString("}")
	default:
		canon(v, sb)
	}
}

func snap(v any) string {
	var sb strings.Builder
	snapshot(v, &sb)
	return sb.String()
}

// withSpareCapacity rebuilds every slice of a document with unused capacity holding sentinels.
func withSpareCapacity(v any) any {
	switch v := v.(type) {
	case []any:
		if v == nil {
			return v
		}
		r := make([]any, len(v), len(v)+2)
		for i, x := range v {
			r[i] = withSpareCapacity(x)
		}
		full := r[:cap(r)]
		for i := len(v); i < cap(r); i++ {
			full[i] = sentinel
		}
		return r
	case map[string]any:
		m := make(map[string]any, len(v))
		for k, x := range v {
			m[k] = withSpareCapacity(x)
		}
		return m
	}
	return v
}

func searchOutcome(e *jmespath.Expression, data any) (out string, res any) {
	defer func() {
		if r := recover(); r != nil {
			out = fmt.Sprintf("panic %v", r)
		}
	}()
	res, err := e.Search(data)
	if err != nil {
		return errOutcome(err, res), nil
	}
	return "ok " + canonString(res), res
}

// ---------------------------------------------------------------------------------------------
// C06

var histExprs = []string{"group_by(objs, &g)", "sort_by(objs, &g)[*].i", "max_by(objs, &g).i", "min_by(objs, &g).i", "sort_by(objs, &sort_by(m, &g)[0].g)[*].i", "sort_by(objs, &sort_by($.objs, &g)[0].g)[*].i",
	"group_by(objs, &sort_by(m, &g)[0].g)", "group_by(objs, &g) | keys(@) | sort(@)", "sort_by(objs, &g) | group_by(@, &g)", "map(&sort_by(m, &g)[0].g, objs)", "sort_by(objs, &max_by(m, &g).g)[*].i", "sort(a)", "sort_by(objs, &k)", "reverse(a)", "to_array(a)", "a[1:3]", "a[::-1]", "a[*]", "a[?@ > `1`]", "`[3,1,2]`", "sort(`[3,1,2]`)", "merge(o, o2)", "group_by(objs, &to_string(k))",
	"a[]", "objs[*].k", "a[*]", "[a[*], a]", "s[*]", "a[*] | [0]", "`[1,null,2,null,3]`[*]", "a[?@]", "a[:3]", "a[1:]", "[a[1:], a]", "a[*][]", "flatten_me[]", "not_null(a[*])", "max_by(objs, &k)", "a", "o", "keys(o)", "values(o)", "items(o)", "from_items(items(o))", "zip(a, a)", "map(&@, a)", "not_null(a)", "[a, a]", "{x: a, y: o}",
	"let $v = a in sort($v)", "a[0:2] | reverse(@)", "sort(a)[0]", "objs[?k > `1`] | sort_by(@, &k)", "join(',', s)", "sort(s)", "a || objs", "objs[].k", "o.*", "*", "avg(a)", "sum(a)", "a[:2]", "to_array(o)", "@", "$",
	"@ == `null`", "type(@)", "a || `\"none\"`", "length(@)", "to_array(@)", "!@", "not_null(@, `1`)", "[@]", "{k: @}", "@ && a", "`1`", "'lit'"}

func judgeHistories(c *GenCtx) []Diff {
	var out []Diff
	r := c.Rng
	nh := c.n(1500, 40000)
	mkDoc := func() string {
		n := r.Intn(6)
		var a, objs, s []string
		for i := 0; i < n; i++ {
			if r.Chance(25) {
				a = append(a, "null")
			} else {
				a = append(a, fmt.Sprint(r.Intn(9)))
			}
			// "g": a string key, now and then a number after the first element (a by-function then fails midway: whatever
			// it had collected must not show in a later call); "m": members for a by-function nested in a key expression
			g := c.jstr(r.Pick([]string{"x", "y", "z", "w"}))
			if i > 0 && r.Chance(12) {
				g = fmt.Sprint(r.Intn(9))
			}
			objs = append(objs, fmt.Sprintf(`{"k":%d,"i":%d,"g":%s,"m":[{"g":%s},{"g":%s}]}`, r.Intn(3), i, g, c.jstr(r.Pick([]string{"p", "q", "r", "s", "t"})), c.jstr(r.Pick([]string{"p", "q", "r", "s", "t"}))))
			s = append(s, c.jstr(r.Pick(strPool)))
		}
		var u []string
		for i := r.Intn(5); i >= 0; i-- {
			u = append(u, fmt.Sprint(r.Intn(20)))
		}
		return `{"a":[` + strings.Join(a, ",") + `],"u":[` + strings.Join(u, ",") + `],"objs":[` + strings.Join(objs, ",") + `],"s":[` + strings.Join(s, ",") + `],"o":{"p":1,"q":[1,2]},"o2":{"q":5,"r":null}}`
	}
	aliasOperands := []string{"`{\"role\": \"guest\"}`", "`{\"z\": [2, 1]}`", "`{\"z\": [2, 1]}`.z", "{k: u, z: `1`}", "u", "u[*]", "u[]", "u[:]", "@.u", "(u)", "u || a", "[u][0]", "{k: u}.k", "not_null(u)", "let $v = u in $v", "`[3,1,2]`", "`[3,1,2]`[*]", "s", "s[*]",
		"a", "a[*]", "to_array(u)", "map(&@, u)", "o", "o.q", "o.q[*]", "values(o)", "objs", "objs[*]"}
	aliasFns := []string{"merge(%s, @)", "merge(%s, o)", "merge(%s, o, o2)", "merge(o, %s)", "merge(%s, {n: length(a)})", "sort(%s)", "reverse(%s)", "sort_by(%s, &@)", "%s[*]", "%s[]", "%s[::-1]", "map(&@, %s)", "to_array(%s)", "merge(%s, {z: `1`})", "values(%s)", "items(%s)",
		"sort(%s[*])", "reverse(%s[*])", "sort(%s[])", "sort(sort(%s))", "%s | sort(@)", "[sort(%s), %s]", "[%s, reverse(%s)]", "sort_by(%s, &k)", "max_by(%s, &k)", "group_by(%s, &to_string(@))"}
	for h := 0; h < nh; h++ {
		expr := r.Pick(histExprs)
		if r.Chance(25) {
			expr = c.expr(2)
		} else if r.Chance(40) {
			expr = strings.ReplaceAll(r.Pick(aliasFns), "%s", r.Pick(aliasOperands))
		}
		// MustCompile panics exactly when Compile fails
		_, cerr := jmespath.Compile(expr)
		mustPanicked := func() (p bool) {
			defer func() {
				if recover() != nil {
					p = true
				}
			}()
			jmespath.MustCompile(expr)
			return false
		}()
		if mustPanicked != (cerr != nil) {
			out = append(out, jf("hist", expr, "-", fmt.Sprintf("MustCompile panicked=%v", mustPanicked), fmt.Sprintf("Compile err=%v", cerr), "MustCompile panics exactly when Compile fails"))
		}
		if cerr != nil {
			continue
		}
		ce := jmespath.MustCompile(expr)
		ncalls := 2 + r.Intn(6)
		docs := make([]string, 0, ncalls)
		pool := []string{mkDoc(), mkDoc(), mkDoc(), r.Pick([]string{"null", "1", `"s"`, "[]", "{}", "true", "[null]"})}
		for i := 0; i < ncalls; i++ {
			docs = append(docs, pool[r.Intn(len(pool))])
		}
		type past struct {
			res  any
			snap string
			doc  string
		}
		var earlier []past
		shared := map[string]any{} // documents reused across calls (same Go value passed twice)
		for i, d := range docs {
			var data any
			if sd, ok := shared[d]; ok && r.Bool() {
				data = sd
			} else {
				v, err := parseXJSON(d)
				if err != nil {
					continue
				}
				data = withSpareCapacity(v)
				shared[d] = data
			}
			before := snap(data)
			got, res := searchOutcome(ce, data)
			after := snap(data)
			if before != after {
				out = append(out, jf("hist", expr, d, after, before, fmt.Sprintf("call %d modified the caller's data (snapshot incl. spare capacity differs)", i)))
			}
			fv, _ := parseXJSON(d)
			want := runSearch(expr, fv)
			if !sameOutcome(expr, got, want) {
				out = append(out, jf("hist", expr, d, got, want, fmt.Sprintf("call %d on a reused Expression differs from a fresh one-shot Search", i)))
			}
			for j, p := range earlier {
				if s := snap(p.res); s != p.snap {
					out = append(out, jf("hist", expr, p.doc, s, p.snap, fmt.Sprintf("result of call %d changed after call %d", j, i)))
					earlier[j].snap = s
				}
			}
			if res != nil {
				earlier = append(earlier, past{res, snap(res), d})
			}
		}
		if len(out) > 50 {
			break
		}
	}
	return out
}

// mayEnumerate: the expression may range over an object's members (object wildcard, keys, values, items), so
// that anything order-sensitive downstream legitimately varies from run to run.
func mayEnumerate(e string) bool {
	t := strings.ReplaceAll(e, "[*]", "")
	return strings.Contains(t, "*") || strings.Contains(t, "keys(") || strings.Contains(t, "values(") || strings.Contains(t, "items(")
}

// sameOutcome: equal up to array order; two failures count as equal (which fault is reported may vary); where an
// object is enumerated a difference is not held against the implementation.
func sameOutcome(expr, a, b string) bool {
	if ok, _ := agreeLoose(a, b); ok {
		return true
	}
	if strings.HasPrefix(a, "err ") && strings.HasPrefix(b, "err ") {
		return true
	}
	return mayEnumerate(expr) && !badAlone(a) && !badAlone(b)
}

// agreeLoose: outcomes equal up to the order of arrays (used where object enumeration may be involved).
func agreeLoose(a, b string) (bool, bool) {
	if a == b {
		return true, false
	}
	if strings.HasPrefix(a, "ok ") && strings.HasPrefix(b, "ok ") {
		an, e1 := parseCanon(a[3:])
		bn, e2 := parseCanon(b[3:])
		if e1 == nil && e2 == nil {
			return loose(an) == loose(bn), false
		}
	}
	return false, false
}

// ---------------------------------------------------------------------------------------------
// C07 (run from a -race build: the race detector reports on stderr and vf scans for it)

func judgeConcurrent(c *GenCtx) []Diff {
	var out []Diff
	r := c.Rng
	rounds := c.n(150, 3000)
	litFirst := []string{"merge(`{\"role\": \"guest\"}`, @)", "merge(`{\"role\": \"guest\"}`, o)", "merge(`{}`, o, o2)", "[`[3,1,2]`, sort(`[3,1,2]`)]", "`{\"z\": [2, 1]}`.z | sort(@)",
		"merge({k: a}, o2)", "sort(a[?@])", "sort(s[*])", "reverse(s[*])", "sort_by(objs[*], &k)", "let $v = `{\"n\": 1}` in merge($v, o)"}
	for k := 0; k < rounds; k++ {
		expr := r.Pick(histExprs)
		if r.Chance(30) {
			expr = c.expr(2)
		} else if r.Chance(30) {
			expr = r.Pick(litFirst)
		}
		if _, err := jmespath.Compile(expr); err != nil {
			continue
		}
		// two shared documents with different members: state leaking from a call on one into a call on the other shows
		ds := []string{`{"a":[5,3,null,1,4],"objs":[{"k":2,"i":0},{"k":1,"i":1},{"k":2,"i":2}],"s":["b","a"],"o":{"p":1,"q":[1,2]},"o2":{"q":5}}`,
			`{"a":[2,9],"objs":[{"k":"x","i":7}],"s":["z","y","x"],"o":{"r":true,"role":"admin"},"o2":{"w":null},"extra":1}`,
			`{"a":[1,"s",2],"objs":[{"k":"x","i":0,"g":"x"},{"k":1,"i":1,"g":3},{"k":"y","i":2,"g":"y"}],"s":["b",1,"a"],"o":{"p":1},"o2":{}}`}
		for j := range ds[:2] {
			ds[j] = strings.Replace(ds[j], `"objs":[`, `"objs":[{"k":0,"i":9,"g":"m","m":[{"g":"q"},{"g":"p"}]},{"k":0,"i":8,"g":"c","m":[{"g":"z"},{"g":"r"}]},{"k":0,"i":7,"g":"h","m":[{"g":"a"},{"g":"s"}]},`, 1)
		}
		var shared [3]any
		var want [3]string
		for j, d := range ds {
			fresh, _ := parseXJSON(d)
			want[j] = runSearch(expr, fresh) // a fresh one-shot search on a private copy, before anything is shared
			v, _ := parseXJSON(d)
			shared[j] = withSpareCapacity(v)
		}
		ce := jmespath.MustCompile(expr)
		var wg sync.WaitGroup
		var mu sync.Mutex
		g := 16
		for i := 0; i < g; i++ {
			wg.Add(1)
			go func(i int) {
				defer wg.Done()
				j := (i / 3) % 3
				var got string
				switch i % 3 {
				case 0:
					got, _ = searchOutcome(ce, shared[j])
				case 1:
					got = runSearch(expr, shared[j])
				default:
					e2, err := jmespath.Compile(expr)
					if err != nil {
						got = "err compile"
					} else {
						got, _ = searchOutcome(e2, shared[j])
					}
				}
				if !sameOutcome(expr, got, want[j]) {
					mu.Lock()
					out = append(out, jf("par", expr, ds[j], got, want[j], "concurrent call differs from the outcome of a fresh call run alone"))
					mu.Unlock()
				}
			}(i)
		}
		wg.Wait()
		if len(out) > 20 {
			break
		}
	}
	return out
}

// ---------------------------------------------------------------------------------------------
// C15

func judgeDeterminism(c *GenCtx, ops []Op, model map[int]string) []Diff {
	var out []Diff
	for i, op := range ops {
		if op.Kind != "S" || i%3 != 0 {
			continue
		}
		m := model[i]
		var first string
		for rep := 0; rep < 3; rep++ {
			v, err := parseXJSON(op.Data)
			if err != nil {
				break
			}
			got := runSearch(string(op.Expr), v)
			if rep == 0 {
				first = got
				continue
			}
			if got == first {
				continue
			}
			// variation is allowed only inside arrays the model marks as object enumerations, or where the model declines
			if m == "nondet" || strings.Contains(m, "E[") || strings.HasPrefix(m, "err ") && strings.Contains(m, "+") {
				if ok, _ := agreeLoose(got, first); ok || m == "nondet" || strings.HasPrefix(m, "err ") {
					continue
				}
			}
			out = append(out, jf("det", string(op.Expr), op.Data, got, first, "two evaluations of the same expression on equal documents differ"))
			break
		}
		if len(out) > 20 {
			break
		}
	}
	return out
}

// ---------------------------------------------------------------------------------------------
// C18

func plainJSON(v any) string { return plainJSOND(v, 0) }

func plainJSOND(v any, depth int) string {
	if depth > maxDepth {
		return "a value nested deeper than any input (cyclic?)"
	}
	switch v := v.(type) {
	case nil, bool, string, json.Number, float64, int64, decimal128.Decimal:
		return ""
	case []any:
		if v == nil {
			return "nil []any"
		}
		for _, x := range v {
			if s := plainJSOND(x, depth+1); s != "" {
				return s
			}
		}
		return ""
	case map[string]any:
		if v == nil {
			return "nil map"
		}
		for _, x := range v {
			if s := plainJSOND(x, depth+1); s != "" {
				return s
			}
		}
		return ""
	}
	return fmt.Sprintf("%T", v)
}

func judgeFeedback(c *GenCtx) []Diff {
	var out []Diff
	r := c.Rng
	n := c.n(5000, 120000)
	for k := 0; k < n; k++ {
		e1 := c.expr(2)
		e2 := c.expr(2)
		if r.Chance(20) {
			e1 = r.Pick([]string{"a * `1e6000`", "a * `-1e6000`", "[a * `9e6144`]", "{p: a / `1e-6000`}", "a + b", "a - `9e6144`", "to_number('1e6145')", "avg([a, `9e6144`])", "sum([a, `-9e6144`, `-9e6144`])"})
			e2 = r.Pick([]string{"type(@)", "@", "to_string(@)", "[@]", "p", "[0]"})
		}
		if strings.Contains(e2, "$") || strings.Contains(e1, "let") {
			continue
		}
		d := c.objDoc(3)
		if r.Chance(20) {
			d = `{"a":` + r.Pick([]string{"-1e200", "1e200", "-9e6144", "9e6144", "2", "-2"}) + `,"b":` + r.Pick([]string{"9e6144", "-9e6144", "1"}) + `}`
		}
		v, _ := parseXJSON(d)
		r1, err := jmespath.Search(e1, v)
		if err != nil {
			continue
		}
		if s := plainJSON(r1); s != "" {
			out = append(out, jf("feed", e1, d, "result contains "+s, "plain JSON values only", "result is not built from nil, bool, string, number, []any, map[string]any"))
			continue
		}
		if _, err := json.Marshal(r1); err != nil {
			out = append(out, jf("feed", e1, d, "json.Marshal: "+err.Error(), "serialisable", "result does not serialise with encoding/json"))
			continue
		}
		got := runSearch(e2, r1)
		v2, _ := parseXJSON(d)
		want := runSearch("("+e1+") | ("+e2+")", v2)
		if strings.HasPrefix(want, "err syntax") {
			continue
		}
		if !sameOutcome(e1+" "+e2, got, want) {
			out = append(out, jf("feed", e1+"  ;then;  "+e2, d, got, want, "search(e2, search(e1, d)) differs from search(e1 | e2, d)"))
		}
		if len(out) > 20 {
			break
		}
		_ = r
	}
	return out
}

// ---------------------------------------------------------------------------------------------
// C17

func judgeIdentities(pairs []identPair) []Diff {
	var out []Diff
	for _, p := range pairs {
		va, err := parseXJSON(p.doc)
		if err != nil {
			continue
		}
		vb, _ := parseXJSON(p.doc)
		a := runSearch(p.a, va)
		b := runSearch(p.b, vb)
		if strings.HasPrefix(a, "err syntax") || strings.HasPrefix(b, "err syntax") {
			continue
		}
		if strings.HasPrefix(a, "err ") && strings.HasPrefix(b, "err ") {
			continue // multi-fault expressions may report either fault
		}
		if !sameOutcome(p.a, a, b) {
			out = append(out, jf("ident", p.a+"   ≡   "+p.b, p.doc, a, b, "two spellings the language identities equate give different outcomes"))
			if len(out) > 20 {
				break
			}
		}
	}
	return out
}

// ---------------------------------------------------------------------------------------------
// C14: value-level canon (numbers by mathematical value)

func numValue(v any) (*big.Rat, bool) {
	switch v := v.(type) {
	case json.Number:
		r, ok := new(big.Rat).SetString(string(v))
		return r, ok
	case decimal128.Decimal:
		if v.IsNaN() || v.IsInf(0) {
			return nil, false
		}
		r, ok := new(big.Rat).SetString(v.String())
		return r, ok
	case float64:
		r := new(big.Rat)
		if r.SetFloat64(v) == nil {
			return nil, false
		}
		return r, true
	case float32:
		r := new(big.Rat)
		if r.SetFloat64(float64(v)) == nil {
			return nil, false
		}
		return r, true
	case int8:
		return new(big.Rat).SetInt64(int64(v)), true
	case int16:
		return new(big.Rat).SetInt64(int64(v)), true
	case int32:
		return new(big.Rat).SetInt64(int64(v)), true
	case int64:
		return new(big.Rat).SetInt64(v), true
	case int:
		return new(big.Rat).SetInt64(int64(v)), true
	case uint8:
		return new(big.Rat).SetUint64(uint64(v)), true
	case uint16:
		return new(big.Rat).SetUint64(uint64(v)), true
	case uint32:
		return new(big.Rat).SetUint64(uint64(v)), true
	case uint64:
		return new(big.Rat).SetUint64(v), true
	case uint:
		return new(big.Rat).SetUint64(uint64(v)), true
	}
	return nil, false
}

func valueCanon(v any, sb *strings.Builder) { valueCanonD(v, sb, 0) }

func valueCanonD(v any, sb *strings.Builder, depth int) {
	if depth > maxDepth {
		sb.WriteString("GO<too-deep-or-cyclic>")
		return
	}
	if r, ok := numValue(v); ok {
		sb.WriteString("num:" + r.RatString())
		return
	}
	switch v := v.(type) {
	case []any:
		sb.WriteString("[")
		for i, x := range v {
			if i > 0 {
				sb.WriteString(",")
			}
			valueCanonD(x, sb, depth+1)
		}
		sb.WriteString("]")
	case map[string]any:
		keys := make([]string, 0, len(v))
		for k := range v {
			keys = append(keys, k)
		}
		sort.Strings(keys)
		sb.WriteString("{")
		for _, k := range keys {
			fmt.Fprintf(sb, "%q:", k)
			valueCanonD(v[k], sb, depth+1)
			sb.WriteString(",")
		}
		sb.WriteString("}")
	default:
		canon(v, sb)
	}
}

func valueOutcome(expr string, data any) (out string) {
	defer func() {
		if r := recover(); r != nil {
			out = fmt.Sprintf("panic %v", r)
		}
	}()
	res, err := jmespath.Search(expr, data)
	if err != nil {
		return errOutcome(err, res)
	}
	var sb strings.Builder
	valueCanon(res, &sb)
	return "ok " + sb.String()
}

// approxSame: two value-canonical outcomes that differ only in numbers, each pair within 1e-15 relative error.
// Such a difference is rounding of an intermediate result that is not exactly representable in one of the
// representations (0.5/3 as binary64 and as decimal) — outside the precondition of the property.
func approxSame(a, b string) bool {
	split := func(s string) (skel string, nums []*big.Rat) {
		var sb strings.Builder
		for {
			i := strings.Index(s, "num:")
			if i < 0 {
				sb.WriteString(s)
				break
			}
			sb.WriteString(s[:i])
			sb.WriteString("num:#")
			j := i + 4
			for j < len(s) && (s[j] == '-' || s[j] == '/' || (s[j] >= '0' && s[j] <= '9')) {
				j++
			}
			r, ok := new(big.Rat).SetString(s[i+4 : j])
			if !ok {
				r = new(big.Rat)
			}
			nums = append(nums, r)
			s = s[j:]
		}
		return sb.String(), nums
	}
	sa, na := split(a)
	sb2, nb := split(b)
	if sa != sb2 || len(na) != len(nb) {
		return false
	}
	eps := big.NewRat(1, 1000000000000000)
	for i := range na {
		d := new(big.Rat).Sub(na[i], nb[i])
		d.Abs(d)
		m := new(big.Rat).Abs(na[i])
		if m2 := new(big.Rat).Abs(nb[i]); m2.Cmp(m) > 0 {
			m = m2
		}
		if d.Sign() != 0 && (na[i].IsInt() && nb[i].IsInt() || d.Cmp(new(big.Rat).Mul(m, eps)) > 0) {
			return false
		}
	}
	return true
}

// stripTags renders a tagged document with every number as a plain JSON number (json.Number).
func judgeRepr(c *GenCtx, ops []Op) []Diff {
	var out []Diff
	// group ops of the repr family by expression + untyped document; within a group all outcomes must agree in value
	groups := map[string][]Op{}
	for _, op := range ops {
		if !strings.HasPrefix(op.Family, "repr") {
			continue
		}
		v, err := parseXJSON(op.Data)
		if err != nil {
			continue
		}
		var sb strings.Builder
		valueCanon(v, &sb)
		key := string(op.Expr) + "\x00" + sb.String()
		groups[key] = append(groups[key], op)
	}
	for _, g := range groups {
		if len(g) < 2 {
			continue
		}
		var first string
		var firstOp Op
		for i, op := range g {
			v, _ := parseXJSON(op.Data)
			got := valueOutcome(string(op.Expr), v)
			if i == 0 {
				first, firstOp = got, op
				continue
			}
			if got != first && !approxSame(got, first) {
				d := jf("repr", string(op.Expr), op.Data, got, first, "same values under a different Go representation give a different result (other document: "+firstOp.Data+")")
				out = append(out, d)
				break
			}
		}
		if len(out) > 20 {
			break
		}
	}
	return out
}

// ---------------------------------------------------------------------------------------------
// C08

func judgeStatic(c *GenCtx, ops []Op) []Diff {
	var out []Diff
	docs := []string{"null", `{"a":1}`, `[1,2,3]`, `"s"`, `{"foo":{"bar":[1,{"a":"x"}]}}`}
	seen := map[string]bool{}
	for _, op := range ops {
		e := string(op.Expr)
		if seen[e] {
			continue
		}
		seen[e] = true
		if len(seen) > c.n(6000, 100000) {
			break
		}
		comp := runCompile(e)
		if comp != "ok" {
			for _, d := range docs {
				v, _ := parseXJSON(d)
				got := runSearch(e, v)
				if got != comp {
					out = append(out, jf("static", e, d, got, comp, "one-shot Search reports a statically invalid expression differently from Compile"))
					break
				}
			}
			continue
		}
		ce, err := jmespath.Compile(e)
		if err != nil {
			continue
		}
		for _, d := range docs {
			v, _ := parseXJSON(d)
			got, _ := searchOutcome(ce, v)
			for _, static := range []string{"err syntax", "err arity", "err unknown-function"} {
				if got == static {
					out = append(out, jf("static", e, d, got, "compiled", "a compiled Expression reports a static fault"))
				}
			}
			v2, _ := parseXJSON(d)
			one := runSearch(e, v2)
			if !sameOutcome(e, got, one) {
				out = append(out, jf("static", e, d, got, one, "Expression.Search differs from one-shot Search"))
			}
		}
		if len(out) > 20 {
			break
		}
	}
	return out
}

// ---------------------------------------------------------------------------------------------
// C08 / C03: a string conversion that fails inside a foreign value's MarshalJSON is an evaluation-failed fault whatever
// the foreign error looks like (the model declines foreign values in `to_string`, so this is judged here; the formal
// counterpart is C03C's `EErr.is (.stringConversion _) _ = false` and Tie.Shape.evaluator_errors_only_is)

type anyIsErr struct{}

func (anyIsErr) Error() string   { return "any-is" }
func (anyIsErr) Is(error) bool   { return true }
func (anyIsErr) As(any) bool     { return false }
func (anyIsErr) Unwrap() []error { return []error{jmespath.ErrInvalidType, jmespath.ErrSyntax} }

type failingMarshal struct{ err error }

func (f failingMarshal) MarshalJSON() ([]byte, error) { return nil, f.err }

func judgeForeignConv() []Diff {
	var out []Diff
	errs := []error{anyIsErr{}, jmespath.ErrInvalidType, jmespath.ErrNotANumber, fmt.Errorf("wrapped: %w", jmespath.ErrInvalidValue),
		fmt.Errorf("plain"), &json.UnsupportedValueError{Str: "x"}}
	_, nested := jmespath.Search("abs('x')", nil)
	errs = append(errs, nested)
	exprs := []string{"to_string(@)", "to_string(a)", "a | to_string(@)", "[a][*].to_string(@)", "join(',', [to_string(a)])", "to_string([a, `1`])", "to_string({k: a})",
		"map(&to_string(@), [a])", "let $v = a in to_string($v)", "to_string(a) || 'x'", "sort_by([a], &to_string(@))"}
	for _, fe := range errs {
		f := failingMarshal{fe}
		docs := []any{f, map[string]any{"a": f}, map[string]any{"a": []any{f}}, map[string]any{"a": map[string]any{"b": f}}}
		for _, d := range docs {
			for _, e := range exprs {
				ce, err := jmespath.Compile(e)
				if err != nil {
					continue
				}
				got, _ := searchOutcome(ce, d)
				// `to_string(a)` on a document without `a` answers "null": only failures are judged
				if strings.HasPrefix(got, "ok ") {
					continue
				}
				if got != "err evaluation-failed" {
					out = append(out, jf("foreign-conv", e, fmt.Sprintf("%#v", d), got, "err evaluation-failed",
						"a string conversion failing inside a foreign MarshalJSON must be an evaluation-failed fault"))
				}
			}
		}
	}
	if len(out) > 20 {
		out = out[:20]
	}
	return out
}

// ---------------------------------------------------------------------------------------------
// C09: time and allocation budgets on the cost family (sequential, so measurements are not disturbed)

// measure runs one search on an OS thread of its own and reports the outcome, the PROCESSOR time that thread used (a
// wall clock would measure the load of the machine, not the cost of the call) and the bytes allocated meanwhile. A call
// that has not returned after 20 s of wall time is a `timeout`.
func measure(expr string, v any) (string, time.Duration, uint64) {
	type res struct {
		got   string
		cpu   time.Duration
		alloc uint64
	}
	done := make(chan res, 1)
	go func() {
		runtime.LockOSThread()
		defer runtime.UnlockOSThread()
		var ms runtime.MemStats
		runtime.ReadMemStats(&ms)
		a0 := ms.TotalAlloc
		c0 := threadCPU()
		got := runSearch(expr, v)
		c1 := threadCPU()
		runtime.ReadMemStats(&ms)
		done <- res{got, c1 - c0, ms.TotalAlloc - a0}
	}()
	select {
	case r := <-done:
		return r.got, r.cpu, r.alloc
	case <-time.After(20 * time.Second):
		return "timeout", 20 * time.Second, 0
	}
}

func threadCPU() time.Duration {
	var ts syscall.Timespec
	const clockThreadCPUTimeID = 3
	syscall.Syscall(syscall.SYS_CLOCK_GETTIME, clockThreadCPUTimeID, uintptr(unsafe.Pointer(&ts)), 0)
	return time.Duration(ts.Sec)*time.Second + time.Duration(ts.Nsec)
}

func judgeCost(c *GenCtx, ops []Op) []Diff {
	var out []Diff
	timeouts := 0
	for _, op := range ops {
		if timeouts >= 3 {
			break
		}
		if !strings.HasPrefix(op.Family, "cost-") || op.Family == "cost-pad" {
			continue
		}
		v, err := parseXJSON(op.Data)
		if err != nil {
			continue
		}
		got, el, alloc := measure(string(op.Expr), v)
		if got == "timeout" {
			timeouts++
		}
		// inputs and results are a few dozen bytes: 50 ms of processor time and 8 MiB are more than 1000x what they need
		if got == "timeout" || el > 50*time.Millisecond || alloc > 8<<20 {
			// re-measure twice before believing it
			slow := 1
			for rep := 0; rep < 2 && got != "timeout"; rep++ {
				v2, _ := parseXJSON(op.Data)
				_, el2, alloc2 := measure(string(op.Expr), v2)
				if el2 > 50*time.Millisecond || alloc2 > 8<<20 {
					slow++
				}
			}
			if slow == 3 || got == "timeout" {
				out = append(out, jf(op.Family, string(op.Expr), op.Data, fmt.Sprintf("%s after %v of processor time, %d bytes allocated", outcomeClass(got), el, alloc), "≤ 50ms, ≤ 8MiB",
					"the magnitude of an integer parameter drives running time or allocation"))
			}
		}
		if len(out) > 20 {
			break
		}
	}
	return out
}

// ---------------------------------------------------------------------------------------------
// C13: an oracle for the sort family that does not go through the model (which declines — `nondet` — whenever two
// numbers are equal in value but differ in spelling): the implementation's result must be a permutation of the input
// in non-decreasing order of value, sort_by must keep equal keys in input order, max/min must be extremal.

func sortKeyCmp(a, b any) (int, bool) {
	switch x := a.(type) {
	case json.Number:
		y, ok := b.(json.Number)
		if !ok {
			return 0, false
		}
		rx, ok1 := new(big.Rat).SetString(string(x))
		ry, ok2 := new(big.Rat).SetString(string(y))
		if !ok1 || !ok2 {
			return 0, false
		}
		return rx.Cmp(ry), true
	case string:
		y, ok := b.(string)
		if !ok {
			return 0, false
		}
		return strings.Compare(x, y), true // bytewise = code point order for valid UTF-8
	}
	return 0, false
}

func judgeSort(c *GenCtx, ops []Op) []Diff {
	var out []Diff
	for _, op := range ops {
		if op.Family != "sort" || op.Kind != "S" {
			continue
		}
		e := string(op.Expr)
		if e != "sort(plain)" && e != "sort_by(objs, &k)[*].i" && e != "max(plain)" && e != "min(plain)" && e != "sort_by(objs, &k)" {
			continue
		}
		data, err := parseXJSON(op.Data)
		if err != nil {
			continue
		}
		doc, _ := data.(map[string]any)
		plain, _ := doc["plain"].([]any)
		objs, _ := doc["objs"].([]any)
		res, serr := func() (r any, e error) {
			defer func() {
				if p := recover(); p != nil {
					e = fmt.Errorf("panic: %v", p)
				}
			}()
			return jmespath.Search(string(op.Expr), data)
		}()
		// comparable input? (all numbers with short spellings, or all strings)
		comparable := len(plain) > 0
		for i := range plain {
			if _, ok := sortKeyCmp(plain[0], plain[i]); !ok {
				comparable = false
			}
		}
		fail := func(why string) {
			out = append(out, jf("sort-oracle", e, op.Data, fmt.Sprintf("%v / %v", res, serr), "-", why))
		}
		if !comparable {
			continue // mixed or exotic keys: the model decides those
		}
		if serr != nil {
			fail("sorting an array of comparable values failed")
			continue
		}
		switch e {
		case "sort(plain)":
			rs, ok := res.([]any)
			if !ok || len(rs) != len(plain) {
				fail("sort: result is not an array of the input's length")
				continue
			}
			cnt := map[string]int{}
			for _, v := range plain {
				cnt[fmt.Sprintf("%T:%v", v, v)]++
			}
			for _, v := range rs {
				cnt[fmt.Sprintf("%T:%v", v, v)]--
			}
			for _, n := range cnt {
				if n != 0 {
					fail("sort: result is not a permutation of the input (spellings included)")
					break
				}
			}
			for i := 1; i < len(rs); i++ {
				if cmp, ok := sortKeyCmp(rs[i-1], rs[i]); !ok || cmp > 0 {
					fail(fmt.Sprintf("sort: element %d is smaller in value than element %d", i, i-1))
					break
				}
			}
		case "sort_by(objs, &k)[*].i", "sort_by(objs, &k)":
			rs, ok := res.([]any)
			if !ok || len(rs) != len(objs) {
				fail("sort_by: result is not an array of the input's length")
				continue
			}
			idx := make([]int, len(rs))
			seen := map[int]bool{}
			bad := false
			for j, v := range rs {
				if m, ok := v.(map[string]any); ok {
					v = m["i"]
				}
				n, ok := v.(json.Number)
				if !ok {
					bad = true
					break
				}
				k, err := strconv.Atoi(string(n))
				if err != nil || k < 0 || k >= len(objs) || seen[k] {
					bad = true
					break
				}
				seen[k] = true
				idx[j] = k
			}
			if bad {
				fail("sort_by: result is not a permutation of the input elements")
				continue
			}
			for j := 1; j < len(idx); j++ {
				cmp, ok := sortKeyCmp(plain[idx[j-1]], plain[idx[j]])
				if !ok || cmp > 0 {
					fail(fmt.Sprintf("sort_by: key at position %d is smaller than the key before it", j))
					break
				}
				if cmp == 0 && idx[j-1] > idx[j] {
					fail(fmt.Sprintf("sort_by: elements %d and %d have equal keys but changed their relative order (not stable)", idx[j], idx[j-1]))
					break
				}
			}
		case "max(plain)", "min(plain)":
			want := plain[0]
			for _, v := range plain[1:] {
				cmp, _ := sortKeyCmp(v, want)
				if (e == "max(plain)" && cmp > 0) || (e == "min(plain)" && cmp < 0) {
					want = v
				}
			}
			got := res
			if d, ok := got.(decimal128.Decimal); ok {
				got = json.Number(d.String())
			}
			if cmp, ok := sortKeyCmp(got, want); !ok || cmp != 0 {
				fail(fmt.Sprintf("%s: result differs in value from the extremal element %v", e, want))
			}
		}
		if len(out) > 20 {
			break
		}
	}
	return out
}
