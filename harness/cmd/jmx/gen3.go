package main

// Type-directed expression generator: expressions are built together with the JSON type they (mostly) produce on
// documents of a known schema, so that most sub-expressions evaluate to something other than null or a type
// error (Cedar's lesson: measure it — the outcome histogram goes into the evidence).

import (
	"strconv"
	"strings"
)

// typedDoc builds a document of the fixed schema with random contents.
func (c *GenCtx) typedDoc() string {
	r := c.Rng
	num := func() string {
		return r.Pick([]string{"0", "1", "2", "3", "5", "-1", "10", "2.5", "1.0", "7", "100", "-3"})
	}
	str := func() string {
		return c.jstr(r.Pick([]string{"a", "b", "hello", "héllo", "", "x y", "abc", "B", "zz", "10"}))
	}
	list := func(f func() string, max int) string {
		n := r.Intn(max + 1)
		parts := make([]string, n)
		for i := range parts {
			parts[i] = f()
			if r.Chance(8) {
				parts[i] = "null"
			}
		}
		return "[" + strings.Join(parts, ",") + "]"
	}
	obj := func() string {
		var parts []string
		if r.Chance(90) {
			parts = append(parts, `"n":`+num())
		}
		if r.Chance(90) {
			parts = append(parts, `"s":`+str())
		}
		if r.Chance(70) {
			parts = append(parts, `"tags":`+list(str, 3))
		}
		if r.Chance(50) {
			parts = append(parts, `"sub":{"k":`+num()+`,"l":`+list(num, 2)+`}`)
		}
		if r.Chance(20) {
			parts = append(parts, `"z":null`)
		}
		return "{" + strings.Join(parts, ",") + "}"
	}
	return `{"nums":` + list(num, 6) + `,"strs":` + list(str, 5) + `,"objs":` + list(obj, 5) + `,"o":{"a":` + num() + `,"b":{"c":` + list(num, 3) + `},"d":` + str() + `},"n":` + num() + `,"m":` + num() +
		`,"s":` + str() + `,"u":` + str() + `,"t":true,"f":false,"z":null,"nested":[` + list(num, 3) + `,` + list(num, 2) + `,[]],"mixed":[1,"a",null,[1],{"a":1}]}`
}

func (c *GenCtx) smallInt() string { return strconv.Itoa(c.Rng.Intn(6) - 1) }

func (c *GenCtx) tNum(d int) string {
	r := c.Rng
	if d <= 0 || r.Chance(35) {
		return r.Pick([]string{"n", "m", "o.a", "`2`", "`1.5`", "`0`", "`-1`", "nums[0]", "objs[0].n", "length(nums)", "o.b.c[1]", "objs[-1].sub.k"})
	}
	switch r.Intn(16) {
	case 0, 1, 2:
		return c.tNum(d-1) + " " + r.Pick([]string{"+", "-", "*", "/", "//", "%"}) + " " + c.tNum(d-1)
	case 3:
		return "length(" + c.tAny(d-1) + ")"
	case 4:
		return r.Pick([]string{"sum", "avg", "max", "min"}) + "(" + c.tArr("num", d-1) + ")"
	case 5:
		return r.Pick([]string{"abs", "ceil", "floor"}) + "(" + c.tNum(d-1) + ")"
	case 6:
		return "to_number(" + c.tStr(d-1) + ")"
	case 7:
		return "find_first(" + c.tStr(d-1) + ", " + c.tStr(0) + ")"
	case 8:
		return c.tArr("num", d-1) + "[" + c.smallInt() + "]"
	case 9:
		return "-" + c.tNum(d-1)
	case 10:
		return "(" + c.tNum(d-1) + ")"
	case 11:
		return r.Pick([]string{"max_by", "min_by"}) + "(" + c.tArr("obj", d-1) + ", &n).n"
	case 12:
		return c.tObj(d-1) + ".n"
	case 13:
		return "let $v = " + c.tNum(d-1) + " in $v * " + c.tNum(d-1)
	case 14:
		return "not_null(z, " + c.tNum(d-1) + ")"
	default:
		return c.tNum(d-1) + " || " + c.tNum(d-1)
	}
}

func (c *GenCtx) tStr(d int) string {
	r := c.Rng
	if d <= 0 || r.Chance(35) {
		return r.Pick([]string{"s", "u", "o.d", "'a'", "'héllo'", "''", "strs[0]", "objs[0].s", "`\"x y\"`", "objs[1].tags[0]"})
	}
	switch r.Intn(15) {
	case 0:
		return r.Pick([]string{"upper", "lower", "trim", "trim_left", "reverse", "to_string"}) + "(" + c.tStr(d-1) + ")"
	case 1:
		return "join(" + c.tStr(0) + ", " + c.tArr("str", d-1) + ")"
	case 2:
		return "to_string(" + c.tAny(d-1) + ")"
	case 3:
		return "type(" + c.tAny(d-1) + ")"
	case 4:
		return c.tStr(d-1) + "[" + c.smallInt() + ":" + c.smallInt() + "]"
	case 5:
		return r.Pick([]string{"pad_left", "pad_right"}) + "(" + c.tStr(d-1) + ", `" + strconv.Itoa(r.Intn(8)) + "`)"
	case 6:
		return "replace(" + c.tStr(d-1) + ", " + c.tStr(0) + ", " + c.tStr(0) + ")"
	case 7:
		return c.tArr("str", d-1) + "[" + c.smallInt() + "]"
	case 8:
		return r.Pick([]string{"max", "min"}) + "(" + c.tArr("str", d-1) + ")"
	case 9:
		return c.tObj(d-1) + ".s"
	case 10:
		return "split(" + c.tStr(d-1) + ", " + c.tStr(0) + ")[0]"
	case 11:
		return c.tStr(d-1) + " || " + c.tStr(d-1)
	case 12:
		return c.tStr(d-1) + "[::-1]"
	case 13:
		return "keys(" + c.tObj(d-1) + ") | sort(@)[0]"
	default:
		return "(" + c.tStr(d-1) + ")"
	}
}

func (c *GenCtx) tBool(d int) string {
	r := c.Rng
	if d <= 0 || r.Chance(25) {
		return r.Pick([]string{"t", "f", "`true`", "`false`", "n > `1`", "s == 'a'", "z == `null`"})
	}
	switch r.Intn(10) {
	case 0, 1:
		return c.tNum(d-1) + " " + r.Pick([]string{"<", "<=", ">", ">=", "==", "!="}) + " " + c.tNum(d-1)
	case 2:
		return c.tStr(d-1) + " " + r.Pick([]string{"==", "!="}) + " " + c.tStr(d-1)
	case 3:
		return r.Pick([]string{"contains", "starts_with", "ends_with"}) + "(" + c.tStr(d-1) + ", " + c.tStr(0) + ")"
	case 4:
		return "contains(" + c.tArr(r.Pick([]string{"num", "str"}), d-1) + ", " + c.tAny(0) + ")"
	case 5:
		return "!" + c.tAny(d-1)
	case 6:
		return c.tBool(d-1) + " && " + c.tBool(d-1)
	case 7:
		return c.tBool(d-1) + " || " + c.tBool(d-1)
	case 8:
		return c.tAny(d-1) + " == " + c.tAny(d-1)
	default:
		return "(" + c.tBool(d-1) + ")"
	}
}

func (c *GenCtx) tArr(elem string, d int) string {
	r := c.Rng
	base := map[string][]string{
		"num": {"nums", "o.b.c", "objs[*].n", "nested[0]", "nested[]", "objs[0].sub.l", "`[3,1,2]`"},
		"str": {"strs", "objs[0].tags", "objs[*].s", "objs[].tags[]", "keys(o)", "`[\"b\",\"a\"]`"},
		"obj": {"objs", "objs[?n]", "[o, objs[0]]", "objs[*]"},
		"any": {"mixed", "nested", "values(o)", "[n, s, t]", "objs[*].sub", "items(o)"},
	}[elem]
	if d <= 0 || r.Chance(35) {
		return r.Pick(base)
	}
	switch r.Intn(14) {
	case 0:
		if elem == "num" || elem == "str" {
			return "sort(" + c.tArr(elem, d-1) + ")"
		}
		return "sort_by(" + c.tArr("obj", d-1) + ", &" + r.Pick([]string{"n", "s", "length(tags)"}) + ")"
	case 1:
		return "reverse(" + c.tArr(elem, d-1) + ")"
	case 2:
		return c.tArr(elem, d-1) + "[" + c.smallInt() + ":" + r.Pick([]string{"", c.smallInt()}) + "]"
	case 3:
		return c.tArr(elem, d-1) + "[::" + r.Pick([]string{"2", "-1", "-2", "1"}) + "]"
	case 4:
		switch elem {
		case "num":
			return c.tArr("num", d-1) + "[?@ " + r.Pick([]string{">", "<", "==", "!="}) + " " + c.tNum(0) + "]"
		case "str":
			return c.tArr("str", d-1) + "[?@ != " + c.tStr(0) + "]"
		case "obj":
			return c.tArr("obj", d-1) + "[?" + r.Pick([]string{"n > `1`", "s == 'a'", "tags", "sub.k", "!z"}) + "]"
		}
		return c.tArr("any", d-1) + "[?@]"
	case 5:
		switch elem {
		case "num":
			return "map(&(@ " + r.Pick([]string{"*", "+", "-"}) + " " + c.tNum(0) + "), " + c.tArr("num", d-1) + ")"
		case "str":
			return "map(&upper(@), " + c.tArr("str", d-1) + ")"
		case "obj":
			return "map(&merge(@, {k: n}), " + c.tArr("obj", d-1) + ")"
		}
		return "map(&[@], " + c.tArr("any", d-1) + ")"
	case 6:
		switch elem {
		case "num":
			return c.tArr("obj", d-1) + "[*].n"
		case "str":
			return c.tArr("obj", d-1) + "[*].s"
		case "obj":
			return c.tArr("obj", d-1) + "[*].{n: n, s: s, c: length(tags)}"
		}
		return c.tArr("obj", d-1) + "[*].[n, s]"
	case 7:
		return "[" + c.tOf(elem, d-1) + ", " + c.tOf(elem, d-1) + "]"
	case 8:
		return c.tArr(elem, d-1) + "[*]"
	case 9:
		return "(" + c.tArr(elem, d-1) + ")"
	case 10:
		if elem == "str" {
			return "split(" + c.tStr(d-1) + ", " + c.tStr(0) + ")"
		}
		return "to_array(" + c.tArr(elem, d-1) + ")"
	case 11:
		return c.tArr(elem, d-1) + " | @[*]"
	case 12:
		return "[" + c.tArr(elem, d-1) + ", " + c.tArr(elem, d-1) + "][]"
	default:
		return "let $a = " + c.tArr(elem, d-1) + " in $a[?@ == $a[0]]"
	}
}

func (c *GenCtx) tObj(d int) string {
	r := c.Rng
	if d <= 0 || r.Chance(35) {
		return r.Pick([]string{"o", "o.b", "objs[0]", "objs[-1]", "objs[0].sub", "@", "`{\"n\":1,\"s\":\"q\"}`"})
	}
	switch r.Intn(8) {
	case 0:
		return "merge(" + c.tObj(d-1) + ", " + c.tObj(d-1) + ")"
	case 1:
		return "{n: " + c.tNum(d-1) + ", s: " + c.tStr(d-1) + "}"
	case 2:
		return "from_items(items(" + c.tObj(d-1) + "))"
	case 3:
		return r.Pick([]string{"max_by", "min_by"}) + "(" + c.tArr("obj", d-1) + ", &" + r.Pick([]string{"n", "s"}) + ")"
	case 4:
		return c.tArr("obj", d-1) + "[" + c.smallInt() + "]"
	case 5:
		return "group_by(" + c.tArr("obj", d-1) + ", &s)"
	case 6:
		return "(" + c.tObj(d-1) + ")"
	default:
		return c.tObj(d-1) + " | {n: n, s: s, k: sub.k}"
	}
}

func (c *GenCtx) tAny(d int) string {
	switch c.Rng.Intn(7) {
	case 0:
		return c.tNum(d)
	case 1:
		return c.tStr(d)
	case 2:
		return c.tBool(d)
	case 3:
		return c.tArr(c.Rng.Pick([]string{"num", "str", "obj", "any"}), d)
	case 4:
		return c.tObj(d)
	case 5:
		return c.Rng.Pick([]string{"z", "missing", "`null`", "o.nope", "nums[99]"})
	default:
		return c.Rng.Pick([]string{"n", "s", "nums", "o", "objs", "t"})
	}
}

func (c *GenCtx) tOf(elem string, d int) string {
	switch elem {
	case "num":
		return c.tNum(d)
	case "str":
		return c.tStr(d)
	case "obj":
		return c.tObj(d)
	}
	return c.tAny(d)
}

func genTyped(c *GenCtx, n int, depth int) {
	for i := 0; i < n; i++ {
		e := c.tAny(depth)
		// a share of deliberately ill-typed expressions keeps the error paths exercised
		if c.Rng.Chance(7) {
			e = c.Rng.Pick([]string{"length", "abs", "sort", "keys", "upper", "sum"}) + "(" + e + ")"
		}
		c.add("typed", e, c.typedDoc())
	}
}
