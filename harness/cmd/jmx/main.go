package main

// jmx: the correspondence harness. It generates operations for a property, runs them on the real
// implementation (in-process, public API only) and on the Lean model (the compiled driver, a subprocess speaking
// the line protocol), compares canonical outcomes and writes a JSON report for bin/vf.

import (
	"bufio"
	"encoding/hex"
	"encoding/json"
	"flag"
	"fmt"
	"io"
	"os"
	"os/exec"
	"runtime"
	"sort"
	"strings"
	"sync"
	"sync/atomic"
	"syscall"
	"time"

	"github.com/woodsbury/jmespath"
)

type Op struct {
	ID     int      `json:"id"`
	Kind   string   `json:"kind"` // S search, C compile
	Expr   []byte   `json:"-"`
	Data   string   `json:"data"` // xjson, "-" for C
	Family string   `json:"family"`
	Note   string   `json:"note,omitempty"`
	Risky  bool     `json:"-"` // run in a child process (may kill the process)
	Tags   []string `json:"-"`
}

func (o Op) Line() string {
	d := o.Data
	if o.Kind == "C" {
		d = "-"
	}
	return fmt.Sprintf("%d\t%s\t%s\t%s", o.ID, o.Kind, hex.EncodeToString(o.Expr), d)
}

type Diff struct {
	Op    Op     `json:"op"`
	Expr  string `json:"expr"`
	Impl  string `json:"impl"`
	Model string `json:"model"`
	Why   string `json:"why"`
}

type Report struct {
	Property    string         `json:"property"`
	Tier        string         `json:"tier"`
	Seed        uint64         `json:"seed"`
	Evaluations int            `json:"evaluations"`
	Distinct    int            `json:"distinct_nontrivial"`
	Skipped     int            `json:"skipped_by_model"`
	SkipReasons map[string]int `json:"skip_reasons"`
	Families    map[string]int `json:"families"`
	Outcomes    map[string]int `json:"outcome_histogram"`
	Samples     []any          `json:"samples"`
	Diffs       []Diff         `json:"diffs"`
	Judge       []Diff         `json:"judge_failures"`
	WallS       float64        `json:"wall_s"`
	Notes       []string       `json:"notes"`
}

// runSearch executes one op on the implementation and returns its canonical outcome.
func runSearch(expr string, data any) (out string) {
	defer func() {
		if r := recover(); r != nil {
			out = fmt.Sprintf("panic %v", r)
		}
	}()
	res, err := jmespath.Search(expr, data)
	if err != nil {
		return errOutcome(err, res)
	}
	return "ok " + canonString(res)
}

func runCompile(expr string) (out string) {
	defer func() {
		if r := recover(); r != nil {
			out = fmt.Sprintf("panic %v", r)
		}
	}()
	e, err := jmespath.Compile(expr)
	if err != nil {
		if e != nil {
			return "errcontract non-nil expression with error"
		}
		return errOutcome(err, nil)
	}
	return "ok"
}

var opTimeout = 3 * time.Second

// runImpl runs an op with a deadline; a call that does not return in time is reported as "timeout" (the goroutine
// is abandoned).
func runImpl(op Op) string {
	if op.Risky {
		return runChild(op)
	}
	var data any
	if op.Kind == "S" {
		var err error
		data, err = parseXJSON(op.Data)
		if err != nil {
			return "bad-op data: " + err.Error()
		}
	}
	ch := make(chan string, 1)
	go func() {
		if op.Kind == "C" {
			ch <- runCompile(string(op.Expr))
		} else {
			ch <- runSearch(string(op.Expr), data)
		}
	}()
	select {
	case s := <-ch:
		return s
	case <-time.After(opTimeout):
		return "timeout"
	}
}

// runChild re-executes this binary for a single op, so that a fatal runtime error (stack overflow, out of memory)
// is observed instead of killing the harness.
func runChild(op Op) string { return runChildFor(op, 60*time.Second) }

func runChildFor(op Op, limit time.Duration) string {
	cmd := exec.Command(os.Args[0], "single")
	cmd.Stdin = strings.NewReader(op.Kind + "\n" + hex.EncodeToString(op.Expr) + "\n" + op.Data + "\n")
	cmd.Env = append(os.Environ(), "GOMEMLIMIT=2GiB")
	var outb strings.Builder
	cmd.Stdout = &outb
	done := make(chan error, 1)
	if err := cmd.Start(); err != nil {
		return "bad-op child: " + err.Error()
	}
	go func() { done <- cmd.Wait() }()
	select {
	case err := <-done:
		if err != nil {
			return "crash " + err.Error()
		}
		return strings.TrimSpace(outb.String())
	case <-time.After(limit):
		_ = cmd.Process.Kill()
		return "timeout"
	}
}

// runDriver pipes ops through the Lean driver, sharded over n processes.
func runDriver(driver string, ops []Op, n int) (map[int]string, error) {
	if n < 1 {
		n = 1
	}
	res := make(map[int]string, len(ops))
	var mu sync.Mutex
	var wg sync.WaitGroup
	errs := make(chan error, n)
	for sh := 0; sh < n; sh++ {
		wg.Add(1)
		go func(sh int) {
			defer wg.Done()
			cmd := exec.Command(driver)
			stdin, err := cmd.StdinPipe()
			if err != nil {
				errs <- err
				return
			}
			stdout, err := cmd.StdoutPipe()
			if err != nil {
				errs <- err
				return
			}
			cmd.Stderr = os.Stderr
			if err := cmd.Start(); err != nil {
				errs <- err
				return
			}
			go func() {
				w := bufio.NewWriterSize(stdin, 1<<20)
				for i := sh; i < len(ops); i += n {
					w.WriteString(ops[i].Line())
					w.WriteByte('\n')
				}
				w.Flush()
				stdin.Close()
			}()
			sc := bufio.NewScanner(stdout)
			sc.Buffer(make([]byte, 1<<20), 1<<28)
			local := make(map[int]string)
			for sc.Scan() {
				line := sc.Text()
				j := strings.IndexByte(line, '\t')
				if j < 0 {
					continue
				}
				var id int
				fmt.Sscanf(line[:j], "%d", &id)
				local[id] = line[j+1:]
			}
			if err := cmd.Wait(); err != nil {
				errs <- fmt.Errorf("driver shard %d: %v", sh, err)
			}
			mu.Lock()
			for k, v := range local {
				res[k] = v
			}
			mu.Unlock()
		}(sh)
	}
	wg.Wait()
	select {
	case err := <-errs:
		return res, err
	default:
	}
	return res, nil
}

// runImplAll runs the implementation on every op in n worker processes (this binary re-executed as `jmx worker`), so
// that a fatal runtime error (out of memory, stack overflow: not recoverable in-process) is attributed to the op that
// caused it instead of killing the harness: the worker is restarted and the op's outcome is `crash`.
func runImplAll(ops []Op, n int) []string {
	out := make([]string, len(ops))
	var timeouts int64
	var wg sync.WaitGroup
	for sh := 0; sh < n; sh++ {
		wg.Add(1)
		go func(sh int) {
			defer wg.Done()
			var w *worker
			defer func() {
				if w != nil {
					w.kill()
				}
			}()
			for i := sh; i < len(ops); i += n {
				// a tree on which hundreds of operations run out of time has established its violation: the rest is
				// not run (outcome `unrun`, skipped by the comparer) so that the check still ends in minutes
				if atomic.LoadInt64(&timeouts) >= 300 {
					out[i] = "unrun"
					continue
				}
				if ops[i].Risky {
					out[i] = runChild(ops[i])
					continue
				}
				if w == nil {
					w = startWorker()
					if w == nil {
						out[i] = runImpl(ops[i]) // could not start a worker: in-process
						continue
					}
				}
				res, alive := w.run(ops[i])
				out[i] = res
				if res == "timeout" {
					atomic.AddInt64(&timeouts, 1)
				}
				if !alive {
					w.kill()
					w = nil
				}
			}
		}(sh)
	}
	wg.Wait()
	// a wall-clock deadline says nothing on a loaded machine: every op that timed out is run again alone, in a process
	// of its own with a deadline ten times longer, and keeps the outcome `timeout` only if it runs out of time again
	// (after three confirmed ones the rest is left as it is: the violation is established)
	confirmed := 0
	for i := range out {
		if out[i] != "timeout" || confirmed >= 3 {
			continue
		}
		out[i] = runChildFor(ops[i], 30*time.Second)
		if out[i] == "timeout" {
			confirmed++
		}
	}
	return out
}

type worker struct {
	cmd   *exec.Cmd
	stdin io.WriteCloser
	rd    *bufio.Reader
	lines chan string
}

func startWorker() *worker {
	cmd := exec.Command(os.Args[0], "worker")
	cmd.Env = append(os.Environ(), "GOMEMLIMIT=3GiB")
	stdin, err := cmd.StdinPipe()
	if err != nil {
		return nil
	}
	stdout, err := cmd.StdoutPipe()
	if err != nil {
		return nil
	}
	if err := cmd.Start(); err != nil {
		return nil
	}
	w := &worker{cmd: cmd, stdin: stdin, rd: bufio.NewReaderSize(stdout, 1<<20), lines: make(chan string, 1)}
	go func() {
		for {
			line, err := w.rd.ReadString('\n')
			if err != nil {
				close(w.lines)
				return
			}
			w.lines <- strings.TrimRight(line, "\n")
		}
	}()
	return w
}

func (w *worker) kill() {
	_ = w.stdin.Close()
	_ = w.cmd.Process.Kill()
	go w.cmd.Wait()
}

// run sends one op; the second result is false when the worker must be replaced (it died, or it timed out and still
// has the runaway evaluation inside)
func (w *worker) run(op Op) (string, bool) {
	if _, err := io.WriteString(w.stdin, op.Kind+"\t"+hex.EncodeToString(op.Expr)+"\t"+op.Data+"\n"); err != nil {
		return "crash (worker gone before the op was sent)", false
	}
	select {
	case line, ok := <-w.lines:
		if !ok {
			return "crash (fatal runtime error in the implementation: the process evaluating this op died)", false
		}
		return line, line != "timeout"
	case <-time.After(opTimeout + 20*time.Second):
		return "timeout", false
	}
}

// workerMain: one op per line on stdin (kind, hex expression, xjson), one outcome per line on stdout
func workerMain() {
	// a runaway allocation should fail fast instead of exhausting the machine
	var lim syscall.Rlimit
	lim.Cur, lim.Max = 12<<30, 12<<30
	_ = syscall.Setrlimit(syscall.RLIMIT_AS, &lim)
	rd := bufio.NewReaderSize(os.Stdin, 1<<20)
	wr := bufio.NewWriter(os.Stdout)
	for {
		line, err := rd.ReadString('\n')
		if line == "" && err != nil {
			return
		}
		parts := strings.SplitN(strings.TrimRight(line, "\n"), "\t", 3)
		if len(parts) != 3 {
			fmt.Fprintln(wr, "bad-op line")
			wr.Flush()
			continue
		}
		expr, _ := hex.DecodeString(parts[1])
		res := runImpl(Op{Kind: parts[0], Expr: expr, Data: parts[2]})
		fmt.Fprintln(wr, strings.ReplaceAll(res, "\n", " "))
		wr.Flush()
		if res == "timeout" {
			os.Exit(0)
		}
	}
}

func trivialOutcome(s string) bool {
	return s == "ok null" || s == "err syntax" || s == "ok" || strings.HasPrefix(s, "unmodelled") || s == "nondet"
}

func outcomeClass(s string) string {
	switch {
	case strings.HasPrefix(s, "ok "), s == "ok":
		if s == "ok null" {
			return "ok-null"
		}
		return "ok"
	case strings.HasPrefix(s, "err "):
		return s
	case strings.HasPrefix(s, "panic"):
		return "panic"
	case strings.HasPrefix(s, "unmodelled"):
		return "unmodelled"
	}
	if i := strings.IndexByte(s, ' '); i > 0 {
		return s[:i]
	}
	return s
}

func main() {
	if len(os.Args) < 2 {
		fmt.Fprintln(os.Stderr, "usage: jmx check|single|replay …")
		os.Exit(2)
	}
	switch os.Args[1] {
	case "single":
		// jmx single: three lines on stdin — kind, hex of the expression, document
		opTimeout = 100 * time.Second // the parent enforces the deadline
		rd := bufio.NewReaderSize(os.Stdin, 1<<20)
		line := func() string {
			s, _ := rd.ReadString('\n')
			return strings.TrimRight(s, "\n")
		}
		kind := line()
		expr, _ := hex.DecodeString(line())
		op := Op{Kind: kind, Expr: expr, Data: line()}
		fmt.Println(runImpl(op))
	case "worker":
		workerMain()
	case "check":
		check(os.Args[2:])
	case "replay":
		replay(os.Args[2:])
	default:
		fmt.Fprintln(os.Stderr, "unknown subcommand")
		os.Exit(2)
	}
}

func check(args []string) {
	fs := flag.NewFlagSet("check", flag.ExitOnError)
	prop := fs.String("prop", "", "property id")
	tier := fs.String("tier", "quick", "quick|thorough")
	seed := fs.Uint64("seed", 1, "seed")
	driver := fs.String("driver", "", "path to the Lean driver")
	out := fs.String("out", "", "report file")
	repo := fs.String("repo", "/repo", "repository root (for the corpus)")
	consts := fs.String("consts", "", "constants.json written by the fact extractor (harvested boundary values)")
	fs.Parse(args)
	constsPath = *consts

	start := time.Now()
	rng := NewRng(*seed ^ hashString(*prop))
	ctx := &GenCtx{Rng: rng, Tier: *tier, Repo: *repo, Prop: *prop}
	ops := generate(ctx)
	for i := range ops {
		ops[i].ID = i
	}
	ncpu := runtime.NumCPU()
	rep := Report{Property: *prop, Tier: *tier, Seed: *seed, Families: map[string]int{}, Outcomes: map[string]int{},
		SkipReasons: map[string]int{}}

	var model map[int]string
	var derr error
	var wg sync.WaitGroup
	wg.Add(1)
	go func() {
		defer wg.Done()
		model, derr = runDriver(*driver, ops, ncpu)
	}()
	impl := runImplAll(ops, ncpu)
	wg.Wait()
	if derr != nil {
		rep.Notes = append(rep.Notes, "driver error: "+derr.Error())
	}

	seen := map[string]bool{}
	for i, op := range ops {
		rep.Evaluations++
		rep.Families[op.Family]++
		m, ok := model[i]
		if !ok {
			rep.Diffs = append(rep.Diffs, Diff{Op: op, Expr: string(op.Expr), Impl: impl[i], Model: "<no answer>", Why: "driver gave no answer"})
			continue
		}
		rep.Outcomes[outcomeClass(m)]++
		okk, skip := agree(impl[i], m)
		if skip {
			rep.Skipped++
			reason := m
			if len(reason) > 40 {
				reason = reason[:40]
			}
			rep.SkipReasons[reason]++
			// even where the model declines, the implementation must not panic, crash, hang or break the error contract
			if badAlone(impl[i]) {
				rep.Diffs = append(rep.Diffs, Diff{Op: op, Expr: string(op.Expr), Impl: impl[i], Model: m, Why: "implementation outcome is never acceptable"})
			}
			continue
		}
		if !okk {
			rep.Diffs = append(rep.Diffs, Diff{Op: op, Expr: string(op.Expr), Impl: impl[i], Model: m, Why: "implementation and model disagree"})
			continue
		}
		if badAlone(impl[i]) {
			rep.Diffs = append(rep.Diffs, Diff{Op: op, Expr: string(op.Expr), Impl: impl[i], Model: m, Why: "implementation outcome is never acceptable"})
			continue
		}
		key := op.Kind + "\x00" + string(op.Expr) + "\x00" + op.Data
		if !trivialOutcome(m) && !seen[key] {
			seen[key] = true
			rep.Distinct++
		}
		if len(rep.Samples) < 12 && !trivialOutcome(m) && i%(len(ops)/12+1) == 0 {
			rep.Samples = append(rep.Samples, map[string]any{"family": op.Family, "expr": string(op.Expr), "data": op.Data, "impl": impl[i], "model": m})
		}
	}
	// property-specific judges that need more than one call
	rep.Judge = append(rep.Judge, judges(ctx, ops, model)...)
	if len(rep.Samples) == 0 && len(ops) > 0 {
		rep.Samples = append(rep.Samples, map[string]any{"family": ops[0].Family, "expr": string(ops[0].Expr), "data": ops[0].Data, "impl": impl[0], "model": model[0]})
	}
	sort.Slice(rep.Diffs, func(i, j int) bool {
		return len(rep.Diffs[i].Op.Expr)+len(rep.Diffs[i].Op.Data) < len(rep.Diffs[j].Op.Expr)+len(rep.Diffs[j].Op.Data)
	})
	if len(rep.Diffs) > 200 {
		rep.Notes = append(rep.Notes, fmt.Sprintf("%d diffs truncated to 200", len(rep.Diffs)))
		rep.Diffs = rep.Diffs[:200]
	}
	rep.WallS = time.Since(start).Seconds()
	b, _ := json.MarshalIndent(rep, "", " ")
	if *out != "" {
		os.WriteFile(*out, b, 0o644)
	} else {
		os.Stdout.Write(b)
	}
	if len(rep.Diffs) > 0 || len(rep.Judge) > 0 {
		os.Exit(1)
	}
}

func badAlone(impl string) bool {
	return strings.HasPrefix(impl, "panic") || strings.HasPrefix(impl, "crash") || impl == "timeout" ||
		strings.HasPrefix(impl, "errcontract") || strings.Contains(impl, "GO<")
}

// replay re-runs the ops of a replay file against the current tree and the driver.
func replay(args []string) {
	fs := flag.NewFlagSet("replay", flag.ExitOnError)
	driver := fs.String("driver", "", "path to the Lean driver")
	fs.Parse(args)
	b, err := os.ReadFile(fs.Arg(0))
	if err != nil {
		fmt.Fprintln(os.Stderr, err)
		os.Exit(2)
	}
	var rf struct {
		Family string `json:"family"`
		Ops    []struct {
			Kind string `json:"kind"`
			Expr string `json:"expr"`
			Data string `json:"data"`
		} `json:"ops"`
	}
	if err := json.Unmarshal(b, &rf); err != nil {
		fmt.Fprintln(os.Stderr, err)
		os.Exit(2)
	}
	if rf.Family == "foreign-conv" {
		// the document of this judge is a Go value with methods, not text: the judge itself is the replay
		ds := judgeForeignConv()
		for _, d := range ds {
			fmt.Printf("%q on %s\n  impl    : %s\n  expected: %s\n", d.Expr, d.Op.Data, d.Impl, d.Model)
		}
		if len(ds) > 0 {
			os.Exit(1)
		}
		fmt.Println("foreign-conv: every failing string conversion is an evaluation-failed fault")
		return
	}
	var ops []Op
	for i, o := range rf.Ops {
		ops = append(ops, Op{ID: i, Kind: o.Kind, Expr: []byte(o.Expr), Data: o.Data})
	}
	model, _ := runDriver(*driver, ops, 1)
	bad := false
	for i, op := range ops {
		im := runImpl(op)
		ok, skip := agree(im, model[i])
		fmt.Printf("op %d: %s %q data=%s\n  impl : %s\n  model: %s\n  agree=%v skip=%v\n", i, op.Kind, string(op.Expr), op.Data, im, model[i], ok, skip)
		if !ok || badAlone(im) {
			bad = true
		}
	}
	if bad {
		os.Exit(1)
	}
}
