#!/bin/bash
for pf in "$@"; do
  d=/tmp/bt_$$
  git -C /repo worktree add --detach $d HEAD >/dev/null 2>&1
  if git -C $d apply $pf 2>/dev/null; then
    mkdir -p /tmp/bt_out_$$
    /verif/harness/bin/facts -repo $d -out /tmp/bt_out_$$ >/dev/null 2>&1
    echo "$(echo $pf | awk -F/ '{print $(NF-1)"/"$NF}'): $(grep 'def nodeDispatchFuncs' /tmp/bt_out_$$/Tables.lean | sed 's/.*:= //')"
    rm -rf /tmp/bt_out_$$
  else echo "$pf no-apply"; fi
  git -C /repo worktree remove --force $d
done
