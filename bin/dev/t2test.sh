#!/bin/bash
# for each patch: regenerate Transl2 from the patched tree and compile shape + tie against it (standalone file)
for pf in "$@"; do
  d=/tmp/t2_$$
  git -C /repo worktree add --detach $d HEAD >/dev/null 2>&1
  if git -C $d apply $pf 2>/dev/null; then
    mkdir -p /tmp/t2_out_$$
    /verif/harness/bin/facts -repo $d -out /tmp/t2_out_$$ >/dev/null 2>&1
    python3 - /tmp/t2_out_$$/Transl2.lean <<'PY'
import sys
gen=open(sys.argv[1]).read()
def strip(s): return "\n".join(l for l in s.split("\n") if not l.startswith("import "))
shape=strip(open('/verif/lean/Jmes/Tie/TranslShape2.lean').read())
body=strip(open('/verif/lean/Jmes/Tie/Transl2.lean').read())
open('/verif/.work/wip/WipShape.lean','w').write("import Jmes.Tie.TranslBase\nset_option linter.unusedVariables false\n"+strip(gen)+"\n"+shape)
open('/verif/.work/wip/WipAll.lean','w').write("import Jmes.Tie.TranslBase\nimport Jmes.Model.String\nset_option linter.unusedVariables false\n"+strip(gen)+"\n"+shape+"\n"+body)
PY
    cd /verif/lean
    if lake env lean /verif/.work/wip/WipShape.lean 2>&1 | grep -q 'error'; then echo "$(basename $pf): shape NOT APPLICABLE"; else
      if lake env lean /verif/.work/wip/WipAll.lean 2>&1 | grep -q 'error'; then echo "$(basename $pf): shape ok, tie RED"; lake env lean /verif/.work/wip/WipAll.lean 2>&1 | grep error | head -3; else echo "$(basename $pf): shape ok, tie green"; fi
    fi
    rm -rf /tmp/t2_out_$$
  else echo "$pf no-apply"; fi
  git -C /repo worktree remove --force $d
done
