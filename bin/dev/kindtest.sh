#!/bin/bash
# apply each patch to a scratch worktree, run facts, report kind-dispatch confinement
for pf in "$@"; do
  d=/tmp/kt_$$
  git -C /repo worktree add --detach $d HEAD >/dev/null 2>&1
  if git -C $d apply $pf 2>/dev/null; then
    mkdir -p /tmp/kt_out_$$
    if /verif/harness/bin/facts -repo $d -out /tmp/kt_out_$$ >/dev/null 2>&1; then
      python3 - /tmp/kt_out_$$/Tables.lean $pf <<'PY'
import re,sys
s=open(sys.argv[1]).read()
fam=["toDecimal","toFloat","toFloatPair","toInt","isNumber","isTrue","typeName","toNumber"]
m=re.search(r'def kindSwitchFuncs : List String := \[(.*?)\]',s)
fs=re.findall(r'"([^"]+)"',m.group(1))
m=re.search(r'def kindCallers : List \(String × List String\) := \[(.*?)\n\ndef sliceNodes',s,re.S)
cal={}
for r in re.findall(r'\("([^"]+)", \[(.*?)\]\)',m.group(1)):
    cal[r[0]]=re.findall(r'"([^"]+)"',r[1])
def conf(n,f):
    if f in fam: return True
    if n==0: return False
    cs=cal.get(f,[])
    return bool(cs) and all(conf(n-1,c) for c in cs)
bad=[f for f in fs if not conf(8,f)]
print(sys.argv[2].split('/')[-2:] , "RED" if bad else "green", bad, {k:v for k,v in cal.items()} if bad else "")
PY
    else echo "$pf facts-failed"; fi
    rm -rf /tmp/kt_out_$$
  else echo "$pf no-apply"; fi
  git -C /repo worktree remove --force $d
done
