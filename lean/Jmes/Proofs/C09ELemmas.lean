/-
  C09, fourth wave — helpers for the instrumented evaluator `ievalT` (`Jmes/Proofs/C09EEval.lean`).

  * `vsize` — the size of a value (nodes, bytes of strings and keys);
  * `onOk`, `bindR`, `chg` — sequencing of computations `T (Res α)` (the tick-writer monad of
    `Jmes/Proofs/C09CTick.lean` around the model's outcome type) with the cost of what follows an `ok`;
  * the loops of the evaluator that the third wave did not instrument (`objectValues`, `projectObject`, `groupBy`,
    the rows of `zip` without the `math.MaxInt` start value);
  * `applyFnT` / `applyBinOpT` — the eager builtins: the third-wave instrumented functions where they exist, and ONE
    tick, marked `uninstrumented`, where they do not;
  * for each of them the "S-form" of its cost: at most `K·(1 + sizes of the operands + size of the result)`.
-/
import Jmes.Proofs.C09CTick
import Jmes.Proofs.C09CTickStr
import Jmes.Proofs.C09CTickStr2
import Jmes.Proofs.C09CTickSplit
import Jmes.Proofs.C09CTickSplit2
import Jmes.Proofs.C09CTickArr
import Jmes.Proofs.C09CTickArr2
set_option linter.unusedSimpArgs false
set_option linter.unusedVariables false
namespace Jmes.C09E
open Jmes Jmes.C09C

/-! ## the size of a value -/

/-- size of a number: the digits of a `json.Number`, one cell for the fixed-width kinds -/
def numSize : Num → Nat
  | .jnum t => t.length
  | _ => 0

mutual
/-- the size of a value: one per node, plus the bytes of strings, of `json.Number` texts and of object keys -/
def vsize : Val → Nat
  | .null => 1
  | .bool _ => 1
  | .str s => 1 + s.length
  | .num n => 1 + numSize n
  | .arr _ xs => 1 + vsizeL xs
  | .obj kvs => 1 + vsizeF kvs
  | .foreign _ => 1
/-- total size of the elements of an array -/
def vsizeL : List Val → Nat
  | [] => 0
  | x :: xs => vsize x + vsizeL xs
/-- total size of the members of an object (key bytes + 1 + value) -/
def vsizeF : List (Bytes × Val) → Nat
  | [] => 0
  | (k, v) :: rest => 1 + k.length + vsize v + vsizeF rest
end

theorem vsize_pos (v : Val) : 1 ≤ vsize v := by
  cases v <;> simp [vsize] <;> omega

theorem length_le_vsizeL : ∀ xs : List Val, xs.length ≤ vsizeL xs
  | [] => by simp [vsizeL]
  | x :: xs => by
    have := length_le_vsizeL xs
    have := vsize_pos x
    simp only [vsizeL, List.length_cons]; omega

theorem vsizeL_append : ∀ xs ys : List Val, vsizeL (xs ++ ys) = vsizeL xs + vsizeL ys
  | [], ys => by simp [vsizeL]
  | x :: xs, ys => by simp only [List.cons_append, vsizeL, vsizeL_append xs ys]; omega

theorem vsizeL_filter_le (p : Val → Bool) : ∀ xs : List Val, vsizeL (xs.filter p) ≤ vsizeL xs
  | [] => by simp [vsizeL]
  | x :: xs => by
    have := vsizeL_filter_le p xs
    cases h : p x <;> simp only [List.filter_cons, h, vsizeL, if_true, Bool.false_eq_true, if_false] <;> omega

theorem vsize_le_of_mem : ∀ (xs : List Val) (x : Val), x ∈ xs → vsize x ≤ vsizeL xs
  | [], x, h => by cases h
  | y :: ys, x, h => by
    simp only [vsizeL]
    cases List.mem_cons.mp h with
    | inl e => subst e; omega
    | inr e => have := vsize_le_of_mem ys x e; omega

theorem length_le_vsizeF : ∀ kvs : List (Bytes × Val), kvs.length ≤ vsizeF kvs
  | [] => by simp [vsizeF]
  | (k, v) :: rest => by
    have := length_le_vsizeF rest
    simp only [vsizeF, List.length_cons]; omega

theorem vsizeL_values_le : ∀ kvs : List (Bytes × Val), vsizeL (kvs.map Prod.snd) ≤ vsizeF kvs
  | [] => by simp [vsizeL, vsizeF]
  | (k, v) :: rest => by
    have := vsizeL_values_le rest
    simp only [List.map_cons, vsizeL, vsizeF]; omega

/-- the sum of `g` over a list -/
def sumMap {α : Type} (g : α → Nat) (xs : List α) : Nat := (xs.map g).sum

@[simp] theorem sumMap_nil {α} (g : α → Nat) : sumMap g [] = 0 := rfl
@[simp] theorem sumMap_cons {α} (g : α → Nat) (x : α) (xs : List α) : sumMap g (x :: xs) = g x + sumMap g xs := by
  simp [sumMap]
theorem sumMap_append {α} (g : α → Nat) (xs ys : List α) : sumMap g (xs ++ ys) = sumMap g xs + sumMap g ys := by
  simp [sumMap]

theorem sumMap_le {α} (g h : α → Nat) (K : Nat) : ∀ xs : List α, (∀ x, g x ≤ K * h x) → sumMap g xs ≤ K * sumMap h xs
  | [], _ => by simp
  | x :: xs, hx => by
    have := sumMap_le g h K xs hx
    have := hx x
    simp only [sumMap_cons, Nat.mul_add]; omega

theorem evalCost_eq_sumMap {α β} (fT : α → T β) (xs : List α) : evalCost fT xs = sumMap (fun x => (fT x).2) xs := rfl

theorem vsizeL_eq_sumMap : ∀ xs : List Val, vsizeL xs = sumMap vsize xs
  | [] => rfl
  | x :: xs => by simp only [vsizeL, sumMap_cons, vsizeL_eq_sumMap xs]

example : vsize (.arr .plain [.str [0x61, 0x62], .null, .obj [([0x6B], .bool true)]]) = 1 + (3 + 1 + (1 + (1 + 1 + 1))) := by
  decide

/-! ## sequencing `T (Res α)` -/

/-- `g` of the value of an `ok` outcome, `0` for any other outcome -/
def onOk {α : Type} (r : Res α) (g : α → Nat) : Nat :=
  match r with
  | .ok a => g a
  | _ => 0

@[simp] theorem onOk_ok {α} (a : α) (g : α → Nat) : onOk (.ok a) g = g a := rfl

theorem onOk_le {α} (r : Res α) (g h : α → Nat) (K : Nat) (hx : ∀ a, g a ≤ K * h a) : onOk r g ≤ K * onOk r h := by
  cases r <;> simp [onOk]
  exact hx _

theorem onOk_le_of {α} (r : Res α) (g : α → Nat) (c : Nat) (hx : ∀ a, r = .ok a → g a ≤ c) : onOk r g ≤ c := by
  cases r <;> simp [onOk]
  exact hx _ rfl

/-- size of the value of an `ok` outcome -/
def outSize (r : Res Val) : Nat := onOk r vsize

@[simp] theorem outSize_ok (v : Val) : outSize (.ok v) = vsize v := rfl

/-- run `x`; on `ok a` continue with `f a` (its ticks are added), on any other outcome stop with that outcome: the Go
    pattern `a, err := …; if err != nil { return nil, err }; …` -/
def bindR {α β : Type} (x : T (Res α)) (f : α → T (Res β)) : T (Res β) :=
  ⟨x.1 >>= (fun a => (f a).1), x.2 + onOk x.1 (fun a => (f a).2)⟩

/-- `k` more ticks -/
def chg {α : Type} (k : Nat) (x : T α) : T α := ⟨x.1, x.2 + k⟩

@[simp] theorem bindR_fst {α β} (x : T (Res α)) (f : α → T (Res β)) : (bindR x f).1 = (x.1 >>= fun a => (f a).1) := rfl
@[simp] theorem bindR_snd {α β} (x : T (Res α)) (f : α → T (Res β)) :
    (bindR x f).2 = x.2 + onOk x.1 (fun a => (f a).2) := rfl
@[simp] theorem chg_fst {α} (k : Nat) (x : T α) : (chg k x).1 = x.1 := rfl
@[simp] theorem chg_snd {α} (k : Nat) (x : T α) : (chg k x).2 = x.2 + k := rfl

example : bindR (⟨.ok 3, 5⟩ : T (Res Nat)) (fun a => ⟨.ok (a + 1), 7⟩) = ⟨.ok 4, 12⟩ := rfl
example : bindR (⟨errType, 5⟩ : T (Res Nat)) (fun a => (⟨.ok (a + 1), 7⟩ : T (Res Nat))) = ⟨errType, 5⟩ := rfl

/-- elements of an array value (nothing for any other value) -/
def elems : Val → List Val
  | .arr _ xs => xs
  | _ => []

/-- member values of an object value -/
def members : Val → List Val
  | .obj kvs => kvs.map Prod.snd
  | _ => []

theorem elems_length_le (v : Val) : (elems v).length ≤ vsize v := by
  cases v <;> simp [elems, vsize]
  rename_i t xs; have := length_le_vsizeL xs; omega

theorem vsizeL_elems_le (v : Val) : vsizeL (elems v) ≤ vsize v := by
  cases v <;> simp [elems, vsize, vsizeL]

theorem members_length_le (v : Val) : (members v).length ≤ vsize v := by
  cases v <;> simp [members, vsize]
  rename_i kvs; have := length_le_vsizeF kvs; omega

theorem strLen_le_vsize (v : Val) : strLen v ≤ vsize v := by
  cases v <;> simp [strLen, vsize]

/-! ## the loops of the evaluator that the third wave left out -/

/-- a pure computation with its ticks, as an `ok` outcome -/
def okT (x : T Val) : T (Res Val) := ⟨.ok x.1, x.2⟩
@[simp] theorem okT_fst (x : T Val) : (okT x).1 = .ok x.1 := rfl
@[simp] theorem okT_snd (x : T Val) : (okT x).2 = x.2 := rfl

/-- `objectValues(v)`, object.go:152-169: `r := make([]any, 0, len(m)); for _, v := range m { if v == nil { continue };
    r = append(r, v) }` — the loop body is that of the inner loop of `flatten` (`flattenInnerBody`) -/
def objectValuesT (v : Val) : T Val :=
  match v with
  | .obj kvs => do
    allocT kvs.length                                     -- object.go:158
    let r ← flattenInnerT (kvs.map Prod.snd) []           -- object.go:159
    pure (.arr .enum r)
  | _ => pure .null

/-- the instrumented `objectValues` computes the model's -/
theorem objectValuesT_fst (v : Val) : (objectValuesT v).1 = objectValues v := by
  cases v <;> simp [objectValuesT, objectValues, flattenInnerT_eq]

/-- at most three ticks per member (`make`, iteration, `append`) -/
theorem objectValuesT_snd_le (v : Val) : (objectValuesT v).2 ≤ 3 * (members v).length := by
  cases v <;> simp [objectValuesT, members, flattenInnerT_eq]
  rename_i kvs
  have := List.length_filter_le (fun y : Val => !y.isNull) (kvs.map Prod.snd)
  simp at this; omega

example : objectValuesT (.obj [([0x61], .null), ([0x62], .bool true)]) = ⟨.arr .enum [.bool true], 2 + (2 + 1)⟩ := by rfl

/-- `projectObject(value, node)`, object.go:49-70: `r := make([]any, 0, len(m)); for _, v := range m { p, err :=
    e.evaluate(node, v, variables); …; if p == nil { continue }; r = append(r, p) }` — the loop of `projectArray`
    (`mapPruneT`) over the member values -/
def projectObjectT (fT : Val → T (Res Val)) (v : Val) : T (Res Val) :=
  match v with
  | .obj kvs => do
    allocT kvs.length                                     -- object.go:55
    let r ← mapPruneT fT (kvs.map Prod.snd)               -- object.go:56
    pure (widen .enum (kvs.map Prod.snd) [fun x => (fT x).1] [] (do let r ← r; pure (.arr .enum r)))
  | _ => pure (.ok .null)

/-- the instrumented `projectObject` returns the model's -/
theorem projectObjectT_fst (fT : Val → T (Res Val)) (v : Val) :
    (projectObjectT fT v).1 = projectObject (fun x => (fT x).1) v := by
  cases v <;> simp [projectObjectT, projectObject, mapPruneT_fst]

/-- at most three ticks per member plus the evaluations -/
theorem projectObjectT_snd_le (fT : Val → T (Res Val)) (v : Val) :
    (projectObjectT fT v).2 ≤ 3 * (members v).length + evalCost fT (members v) := by
  cases v <;> simp [projectObjectT, members]
  rename_i kvs
  have := mapPruneT_snd_le fT (kvs.map Prod.snd)
  simp at this; omega

example : projectObjectT demoT (.obj [([0x61], .bool false), ([0x62], .bool true)])
    = ⟨.ok (.arr .enum [.bool false]), 2 + (2 + 1) + 2 * 7⟩ := by rfl

/-- the body of object.go:24 (`groupBy`): `rv, err := e.evaluate(node, v, variables); if err != nil { return nil, err };
    s, ok := rv.(string); if !ok { return … }; r[s] = append(r[s], v)` (one tick for the map store) -/
def groupBody (fT : Val → T (Res Val)) (v : Val) (acc : List (Bytes × List Val)) :
    T (List (Bytes × List Val) ⊕ Res (List (Bytes × List Val))) := do
  match ← fT v with
  | .ok rv =>
    match rv with
    | .str s => do tick; pure (.inl (groupInsert s v acc))
    | _ => pure (.inr errType)
  | e => pure (.inr (failAs e))

/-- object.go:24 `for _, v := range a { … }` -/
def groupLoopT (fT : Val → T (Res Val)) (xs : List Val) (acc : List (Bytes × List Val)) :
    T (List (Bytes × List Val) ⊕ Res (List (Bytes × List Val))) :=
  rangeBrkT (groupBody fT) xs acc

theorem groupLoopT_fst (fT : Val → T (Res Val)) : ∀ (xs : List Val) (acc : List (Bytes × List Val)),
    loopOut (groupLoopT fT xs acc).1 = groupLoop (fun x => (fT x).1) xs acc := by
  intro xs
  induction xs with
  | nil => intro acc; simp [groupLoopT, rangeBrkT_nil, groupLoop, loopOut]
  | cons x xs ih =>
    intro acc
    unfold groupLoopT at ih ⊢
    rw [rangeBrkT_cons_fst]
    simp only [groupBody, bind_fst, groupLoop]
    cases h : (fT x).1 with
    | ok rv =>
      cases rv with
      | str s => simp only [bind_fst, pure_fst, Res.ok_bind]; exact ih _
      | _ => simp [loopOut, Res.ok_bind, errType]
    | _ => simp [failAs, loopOut]

theorem groupLoopT_snd_le (fT : Val → T (Res Val)) : ∀ (xs : List Val) (acc : List (Bytes × List Val)),
    (groupLoopT fT xs acc).2 ≤ 2 * xs.length + evalCost fT xs := by
  intro xs
  induction xs with
  | nil => intro acc; simp [groupLoopT, rangeBrkT_nil]
  | cons x xs ih =>
    intro acc
    unfold groupLoopT at ih ⊢
    rw [rangeBrkT_cons_snd, evalCost_cons, List.length_cons]
    simp only [groupBody, bind_fst, bind_snd]
    cases h : (fT x).1 with
    | ok rv =>
      cases rv with
      | str s => simp only [bind_fst, bind_snd, pure_fst, pure_snd, tick_snd]; have := ih (groupInsert s x acc); omega
      | _ => simp only [pure_fst, pure_snd]; omega
    | _ => simp only [pure_fst, pure_snd]; omega

/-- `groupBy(value, node)`, object.go:9-47 (`widen`, `derived`: model bookkeeping about map order) -/
def groupByT (fT : Val → T (Res Val)) (v : Val) : T (Res Val) :=
  match v with
  | .arr t xs =>
    if xs.isEmpty then pure (.ok .null)                   -- object.go:18
    else do
      allocT xs.length                                    -- object.go:22 `make(map[string]any, len(a))`
      let o ← groupLoopT fT xs []                         -- object.go:24
      pure (widen t xs [fun x => (fT x).1] [Cat.invalidType] (do
        let gs ← loopOut o
        pure (.obj (gs.map (fun kg => (kg.1, Val.arr t.derived kg.2))))))
  | _ => pure errType

/-- the instrumented `groupBy` returns the model's -/
theorem groupByT_fst (fT : Val → T (Res Val)) (v : Val) : (groupByT fT v).1 = groupBy (fun x => (fT x).1) v := by
  cases v <;> simp only [groupByT, groupBy, pure_fst]
  rename_i t xs
  cases xs.isEmpty <;> simp [groupLoopT_fst]

/-- at most three ticks per element plus the evaluations of the key expression -/
theorem groupByT_snd_le (fT : Val → T (Res Val)) (v : Val) :
    (groupByT fT v).2 ≤ 3 * (elems v).length + evalCost fT (elems v) := by
  cases v <;> simp only [groupByT, elems, pure_snd, List.length_nil, evalCost_nil, Nat.le_refl]
  rename_i t xs
  cases xs.isEmpty <;> simp
  have := groupLoopT_snd_le fT xs []; omega

example : groupByT demoKeyT (.arr .plain [.str [0x62], .str [0x61], .str [0x62]])
    = ⟨.ok (.obj [([0x61], .arr .plain [.str [0x61]]), ([0x62], .arr .plain [.str [0x62], .str [0x62]])]),
       3 + (3 + 3) + 3 * 7⟩ := by rfl

/-- number of rows of `zip`: the least length (evaluator.go:1062 `if l := len(a); l < count { count = l }`) -/
def zipCount : List (List Val) → Nat
  | [] => 0
  | c :: cs => cs.foldl (fun m x => min m x.length) c.length

/-- the `zip` builtin after its argument loop, evaluator.go:1070-1078 (the rows: `zipRowsT` of the third wave).  The
    count is the least length of the arguments, as the argument loop has computed it; the last line applies the
    model's `zipArgs` check (an argument in map order makes the result order-dependent) — model bookkeeping. -/
def zipTailT (vs : List Val) : T (Res Val) := do
  let rows ← zipRowsT (zipCount (vs.map zipElems)) (vs.map zipElems)
  pure (do let _ ← zipArgs vs; pure (.arr .plain rows))

/-- the rows are the model's -/
theorem zipTailT_fst (vs : List Val) : (zipTailT vs).1 = (do
    let cols ← zipArgs vs
    match cols with
    | [] => pure (.arr .plain [])
    | c :: cs =>
      let count := cs.foldl (fun m x => min m x.length) c.length
      pure (.arr .plain (zipRows count cols))) := by
  simp only [zipTailT, bind_fst, pure_fst, zipRowsT_fst]
  cases hz : zipArgs vs with
  | ok cols =>
    have hc := zipArgs_ok vs cols hz
    subst hc
    simp only [Res.ok_bind, Res.pure_eq]
    cases h : vs.map zipElems with
    | nil => simp [zipCount, zipRows]
    | cons c cs => simp [zipCount]
  | _ => rfl

/-- `count·(2 + 2·m)` ticks for `count` rows of `m` cells -/
theorem zipTailT_snd (vs : List Val) :
    (zipTailT vs).2 = zipCount (vs.map zipElems) + zipCount (vs.map zipElems) * (1 + 2 * vs.length) := by
  simp [zipTailT, zipRowsT_snd]

theorem zipCount_le_head (c : List Val) (cs : List (List Val)) : zipCount (c :: cs) ≤ c.length := by
  simp only [zipCount]
  generalize c.length = n
  induction cs generalizing n with
  | nil => simp
  | cons d ds ih => simp only [List.foldl_cons]; have := ih (min n d.length); omega

theorem zipCount_le_of_mem : ∀ (cols : List (List Val)) (c : List Val), c ∈ cols → zipCount cols ≤ c.length := by
  intro cols c hc
  cases cols with
  | nil => cases hc
  | cons c0 cs =>
    simp only [zipCount]
    have key : ∀ (ds : List (List Val)) (n : Nat), ds.foldl (fun m x => min m x.length) n ≤ n ∧
        ∀ d ∈ ds, ds.foldl (fun m x => min m x.length) n ≤ d.length := by
      intro ds
      induction ds with
      | nil => intro n; exact ⟨Nat.le_refl _, fun d hd => by cases hd⟩
      | cons e es ih =>
        intro n
        simp only [List.foldl_cons]
        obtain ⟨h1, h2⟩ := ih (min n e.length)
        refine ⟨by omega, fun d hd => ?_⟩
        cases List.mem_cons.mp hd with
        | inl e' => subst e'; omega
        | inr e' => exact h2 d e'
    cases List.mem_cons.mp hc with
    | inl e => subst e; exact (key cs _).1
    | inr e => exact (key cs _).2 c e

/-- the cost of the rows against the sizes of the arguments: every row takes one element of every argument -/
theorem zipTailT_snd_le (vs : List Val) : (zipTailT vs).2 ≤ 4 * vsizeL vs := by
  rw [zipTailT_snd]
  have key : ∀ vs : List Val, zipCount (vs.map zipElems) * vs.length ≤ vsizeL vs := by
    intro vs
    have h : ∀ (ws : List Val) (n : Nat), (∀ w ∈ ws, n ≤ (zipElems w).length) → n * ws.length ≤ vsizeL ws := by
      intro ws
      induction ws with
      | nil => intro n _; simp [vsizeL]
      | cons w ws ih =>
        intro n hn
        have h1 := ih n (fun w' hw' => hn w' (List.mem_cons_of_mem _ hw'))
        have h2 := hn w List.mem_cons_self
        have h3 : (zipElems w).length ≤ vsize w := by
          cases w <;> simp [zipElems, vsize]
          rename_i t xs; have := length_le_vsizeL xs; omega
        simp only [List.length_cons, vsizeL, Nat.mul_succ]; omega
    apply h
    intro w hw
    exact zipCount_le_of_mem _ _ (List.mem_map_of_mem hw)
  have h1 := key vs
  have h2 : zipCount (vs.map zipElems) ≤ vsizeL vs := by
    cases vs with
    | nil => simp [zipCount]
    | cons v vs =>
      have := zipCount_le_head (zipElems v) (vs.map zipElems)
      have h3 : (zipElems v).length ≤ vsize v := by
        cases v <;> simp [zipElems, vsize]
        rename_i t xs; have := length_le_vsizeL xs; omega
      simp only [List.map_cons, vsizeL]; omega
  rw [Nat.mul_add, Nat.mul_one]
  have e : zipCount (vs.map zipElems) * (2 * vs.length) = 2 * (zipCount (vs.map zipElems) * vs.length) := by
    rw [Nat.mul_left_comm]
  omega

example : zipTailT [.arr .plain [.bool true, .bool false, .null], .arr .plain [.null, .bool true]]
    = ⟨.ok (.arr .plain [.arr .plain [.bool true, .null], .arr .plain [.bool false, .bool true]]),
       2 + 2 * (1 + 2 * 2)⟩ := by rfl


/-! ## deep equality (compare.go:39 `equal`) and `contains` -/

/-- `a && b` where `b` is only run (and charged) when `a` holds: `if !equal(…) { return false }` inside a loop -/
def andT (a b : T Bool) : T Bool := if a.1 then ⟨b.1, a.2 + b.2⟩ else ⟨false, a.2⟩

mutual
/-- `equal(x, y)`, compare.go:39-120: one tick per call; arrays and objects compare their lengths first and then
    loop (one tick per iteration) until the first difference; the comparison of two strings / two decimals is one
    library call and is not charged further -/
def equalT : Val → Val → T Bool
  | .arr _ xs, .arr _ ys => if xs.length = ys.length then chg 1 (equalLT xs ys) else ⟨false, 1⟩
  | .obj xs, .obj ys => if xs.length = ys.length then chg 1 (equalFT xs ys) else ⟨false, 1⟩
  | x, y => ⟨equal x y, 1⟩
/-- compare.go:77 `for i, xi := range x { if !equal(xi, y[i]) { return false } }` -/
def equalLT : List Val → List Val → T Bool
  | [], [] => pure true
  | x :: xs, y :: ys => chg 1 (andT (equalT x y) (equalLT xs ys))
  | _, _ => pure false
/-- compare.go:95 `for k, xv := range x { yv, ok := y[k]; if !ok { return false }; if !equal(xv, yv) { return false } }` -/
def equalFT : List (Bytes × Val) → List (Bytes × Val) → T Bool
  | [], _ => pure true
  | (k, x) :: xs, ys =>
    chg 1 (andT (match objLookup k ys with
      | some y => equalT x y
      | none => pure false) (equalFT xs ys))
end

theorem equalL_length_ne : ∀ (xs ys : List Val), xs.length ≠ ys.length → equalL xs ys = false
  | [], [], h => absurd rfl h
  | [], _ :: _, _ => by simp [equalL]
  | _ :: _, [], _ => by simp [equalL]
  | x :: xs, y :: ys, h => by
    have := equalL_length_ne xs ys (by simpa using h)
    simp [equalL, this]

@[simp] theorem andT_fst (a b : T Bool) : (andT a b).1 = (a.1 && b.1) := by
  unfold andT; cases a.1 <;> simp

theorem andT_snd_le (a b : T Bool) : (andT a b).2 ≤ a.2 + b.2 := by
  unfold andT; cases a.1 <;> simp

mutual
theorem equalT_fst : (a b : Val) → (equalT a b).1 = equal a b
  | .arr t xs, .arr u ys => by
    simp only [equalT, equal]
    split
    · simp only [chg_fst, equalLT_fst xs ys]
    · rename_i h; simp only [equalL_length_ne xs ys h]
  | .obj xs, .obj ys => by
    simp only [equalT, equal]
    split
    · rename_i h; simp only [chg_fst, equalFT_fst xs ys, h, beq_self_eq_true, Bool.true_and]
    · rename_i h; simp [h]
  | .null, b => by simp only [equalT]
  | .bool _, b => by simp only [equalT]
  | .str _, b => by simp only [equalT]
  | .num _, b => by simp only [equalT]
  | .foreign _, b => by simp only [equalT]
  | .arr _ _, .null => by simp only [equalT]
  | .arr _ _, .bool _ => by simp only [equalT]
  | .arr _ _, .str _ => by simp only [equalT]
  | .arr _ _, .num _ => by simp only [equalT]
  | .arr _ _, .obj _ => by simp only [equalT]
  | .arr _ _, .foreign _ => by simp only [equalT]
  | .obj _, .null => by simp only [equalT]
  | .obj _, .bool _ => by simp only [equalT]
  | .obj _, .str _ => by simp only [equalT]
  | .obj _, .num _ => by simp only [equalT]
  | .obj _, .arr _ _ => by simp only [equalT]
  | .obj _, .foreign _ => by simp only [equalT]
theorem equalLT_fst : (xs ys : List Val) → (equalLT xs ys).1 = equalL xs ys
  | [], [] => by simp only [equalLT, equalL, pure_fst]
  | x :: xs, y :: ys => by simp only [equalLT, equalL, chg_fst, andT_fst, equalT_fst x y, equalLT_fst xs ys]
  | [], _ :: _ => by simp only [equalLT, equalL, pure_fst]
  | _ :: _, [] => by simp only [equalLT, equalL, pure_fst]
theorem equalFT_fst : (xs ys : List (Bytes × Val)) → (equalFT xs ys).1 = equalF xs ys
  | [], ys => by simp only [equalFT, equalF, pure_fst]
  | (k, x) :: xs, ys => by
    simp only [equalFT, equalF, chg_fst, andT_fst, equalFT_fst xs ys]
    cases objLookup k ys with
    | none => simp
    | some y => simp only [equalT_fst x y]
end

mutual
/-- deep equality costs at most twice the size of its LEFT operand, whatever the right one -/
theorem equalT_snd_le : (a b : Val) → (equalT a b).2 + 1 ≤ 2 * vsize a
  | .arr t xs, .arr u ys => by
    simp only [equalT, vsize]
    have := equalLT_snd_le xs ys
    split <;> simp only [chg_snd, mk_snd] <;> omega
  | .obj xs, .obj ys => by
    simp only [equalT, vsize]
    have := equalFT_snd_le xs ys
    split <;> simp only [chg_snd, mk_snd] <;> omega
  | .null, b => by simp only [equalT, vsize, mk_snd]; omega
  | .bool _, b => by simp only [equalT, vsize, mk_snd]; omega
  | .str _, b => by simp only [equalT, vsize, mk_snd]; omega
  | .num _, b => by simp only [equalT, vsize, mk_snd]; omega
  | .foreign _, b => by simp only [equalT, vsize, mk_snd]; omega
  | .arr _ _, .null => by simp only [equalT, vsize, mk_snd]; omega
  | .arr _ _, .bool _ => by simp only [equalT, vsize, mk_snd]; omega
  | .arr _ _, .str _ => by simp only [equalT, vsize, mk_snd]; omega
  | .arr _ _, .num _ => by simp only [equalT, vsize, mk_snd]; omega
  | .arr _ _, .obj _ => by simp only [equalT, vsize, mk_snd]; omega
  | .arr _ _, .foreign _ => by simp only [equalT, vsize, mk_snd]; omega
  | .obj _, .null => by simp only [equalT, vsize, mk_snd]; omega
  | .obj _, .bool _ => by simp only [equalT, vsize, mk_snd]; omega
  | .obj _, .str _ => by simp only [equalT, vsize, mk_snd]; omega
  | .obj _, .num _ => by simp only [equalT, vsize, mk_snd]; omega
  | .obj _, .arr _ _ => by simp only [equalT, vsize, mk_snd]; omega
  | .obj _, .foreign _ => by simp only [equalT, vsize, mk_snd]; omega
theorem equalLT_snd_le : (xs ys : List Val) → (equalLT xs ys).2 ≤ 2 * vsizeL xs
  | [], [] => by simp [equalLT]
  | x :: xs, y :: ys => by
    have h1 := equalT_snd_le x y
    have h2 := equalLT_snd_le xs ys
    have h3 := andT_snd_le (equalT x y) (equalLT xs ys)
    simp only [equalLT, chg_snd, vsizeL]; omega
  | [], _ :: _ => by simp [equalLT]
  | _ :: _, [] => by simp [equalLT]
theorem equalFT_snd_le : (xs ys : List (Bytes × Val)) → (equalFT xs ys).2 ≤ 2 * vsizeF xs
  | [], ys => by simp [equalFT]
  | (k, x) :: xs, ys => by
    have h2 := equalFT_snd_le xs ys
    simp only [equalFT, chg_snd, vsizeF]
    cases objLookup k ys with
    | none =>
      have h3 := andT_snd_le (pure false) (equalFT xs ys)
      simp only [pure_snd] at h3 ⊢; omega
    | some y =>
      have h1 := equalT_snd_le x y
      have h3 := andT_snd_le (equalT x y) (equalFT xs ys)
      simp only at h3 ⊢; omega
end

/-- `[[1,2],[3]] == [[1,2],[4]]`: the call, two iterations, the inner arrays element by element until the difference -/
example : equalT (.arr .plain [.arr .plain [.bool true, .bool false], .arr .plain [.null]])
    (.arr .plain [.arr .plain [.bool true, .bool false], .arr .plain [.bool true]]) = ⟨false, 11⟩ := by decide

/-- `==` / `!=` (evaluator.go:133, :523): the deep comparison with its ticks; `hasEnum2` (would the answer depend on a
    map order?) is model bookkeeping -/
def eqOpT (neg : Bool) (a b : Val) : T (Res Val) := do
  let r ← equalT a b
  pure (if a.hasEnum2 || b.hasEnum2 then .nondet else .ok (.bool (r != neg)))

theorem eqOpT_fst (neg : Bool) (a b : Val) :
    (eqOpT neg a b).1 = (do let x ← equalR a b; pure (.bool (x != neg))) := by
  simp only [eqOpT, bind_fst, pure_fst, equalT_fst, equalR]
  split <;> rfl

theorem eqOpT_snd_le (neg : Bool) (a b : Val) : (eqOpT neg a b).2 + 1 ≤ 2 * vsize a := by
  have := equalT_snd_le a b
  simp only [eqOpT, bind_snd, pure_snd]; omega

/-- the body of compare.go:23 `for _, xi := range x { if equal(xi, y) { return true, nil } }` -/
def containsLoopT (y : Val) : List Val → T Bool
  | [] => pure false
  | x :: xs => chg 1 (let r := equalT x y; if r.1 then ⟨true, r.2⟩ else ⟨(containsLoopT y xs).1, r.2 + (containsLoopT y xs).2⟩)

theorem containsLoopT_fst (y : Val) : ∀ xs : List Val, (containsLoopT y xs).1 = xs.any (fun xi => equal xi y)
  | [] => rfl
  | x :: xs => by
    simp only [containsLoopT, chg_fst, List.any_cons, ← equalT_fst x y, ← containsLoopT_fst y xs]
    cases (equalT x y).1 <;> simp

theorem containsLoopT_snd_le (y : Val) : ∀ xs : List Val, (containsLoopT y xs).2 ≤ 2 * vsizeL xs
  | [] => by simp [containsLoopT]
  | x :: xs => by
    have h1 := equalT_snd_le x y
    have h2 := containsLoopT_snd_le y xs
    simp only [containsLoopT, chg_snd, vsizeL]
    cases (equalT x y).1 <;> simp only [if_true, Bool.false_eq_true, if_false, mk_snd] <;> omega

theorem bytesContains_eq_indexOfAux (p : Bytes) : ∀ (s : Bytes) (off : Nat),
    bytesContains s p = (indexOfAux off s p).isSome := by
  intro s
  induction s with
  | nil =>
    intro off
    unfold indexOfAux
    cases p <;> simp [bytesContains, List.isPrefixOf]
  | cons c t ih =>
    intro off
    unfold indexOfAux
    simp only [bytesContains]
    cases h : p.isPrefixOf (c :: t)
    · simp [ih (off + 1)]
    · simp

/-- `contains(x, y)`, compare.go:11-37: `strings.Contains` (the candidate offsets of `strings.Index`) on strings, the
    loop of deep comparisons on an array; `hasEnum2`: model bookkeeping -/
def containsT (x y : Val) : T (Res Val) :=
  match x with
  | .str s =>
    match y with
    | .str p => do let r ← findIndexT s p; pure (.ok (.bool r.isSome))
    | _ => pure (.ok (.bool false))
  | .arr _ xs => do
    let r ← containsLoopT y xs
    pure (if Val.hasEnum2L xs || y.hasEnum2 then .nondet else .ok (.bool r))
  | _ => pure errType

theorem containsT_fst (x y : Val) : (containsT x y).1 = contains x y := by
  cases x <;> simp only [containsT, contains, pure_fst]
  · cases y <;> simp only [pure_fst, bind_fst, findIndexT_fst]
    rename_i s p
    rw [bytesContains_eq_indexOfAux p s 0]; rfl
  · simp only [bind_fst, pure_fst, containsLoopT_fst]

theorem containsT_snd_le (x y : Val) : (containsT x y).2 ≤ 2 * vsize x := by
  cases x <;> simp only [containsT, pure_snd, Nat.zero_le]
  · cases y <;> simp only [pure_snd, bind_snd, Nat.zero_le]
    rename_i s p
    have := findIndexT_snd_le s p
    simp only [vsize]; omega
  · rename_i t xs
    have := containsLoopT_snd_le y xs
    simp only [bind_snd, pure_snd, vsize]; omega

example : containsT (.arr .plain [.null, .bool true, .bool false]) (.bool true) = ⟨.ok (.bool true), 4⟩ := by rfl

/-! ## the eager builtins -/

/-- the builtins WITHOUT an instrumented mirror: `applyFnT` charges each of them ONE tick, whatever its arguments
    (`abs`/`ceil`/`floor`, `sort`, case mapping, trimming, `to_string`, `to_number`, `starts_with`/`ends_with`) -/
def uninstrumented : Fn → Bool
  | .abs | .ceil | .endsWith | .floor | .lower | .sort | .startsWith
  | .toNumber | .toString | .trim | .trimLeft | .trimRight | .trimSpace | .trimSpaceLeft | .trimSpaceRight
  | .upper => true
  | _ => false

/-- `length(v)`, functions.go: `utf8.RuneCountInString` on a string, `len` otherwise -/
def lengthT (v : Val) : T (Res Val) :=
  match v with
  | .str s => do let n ← runeCountT s; pure (.ok (.num (.int .i64 n)))
  | v => pure (length v)

theorem lengthT_fst (v : Val) : (lengthT v).1 = length v := by
  cases v <;> simp [lengthT, length, runeCountT_fst]

theorem lengthT_snd_le (v : Val) : (lengthT v).2 ≤ strLen v := by
  cases v <;> simp [lengthT, strLen, runeCountT_snd]
  exact C09.runeCount_le_length _ _ (Nat.le_refl _)

/-- `keys`, `values`, `items` (object.go:112, :171, :92): `r := make([]any, len(m)); for … range m { r[i] = …; i++ }`
    — `len(m)` cells and `len(m)` iterations (for `items` one more cell pair per member) -/
def membersT (g : Val → Res Val) (k : Nat) (v : Val) : T (Res Val) := chg (k * (members v).length) (pure (g v))

/-- `sum`, `avg` (number.go:397, :71), `max`, `min` (array.go:421, :477), `from_items` (object.go:72): ONE loop over
    the array that leaves at the first element of the wrong type — charged its FULL trip count `len(a)` (`k` ticks
    per element: iteration, and the map store of `from_items`), an upper bound on the iterations Go makes; the
    decimal additions / comparisons inside are not charged -/
def elemsT (g : Val → Res Val) (k : Nat) (v : Val) : T (Res Val) := chg (k * (elems v).length) (pure (g v))

/-- `evaluate` of an eager builtin once its arguments are values: the instrumented functions of the third wave where
    they exist; `contains`, `length`, `keys`, `values`, `items`, `to_array`, `type` (instrumented here); `sum`, `avg`,
    `max`, `min`, `from_items` charged their trip count (`elemsT`);
    ONE tick for the `uninstrumented` ones -/
def applyFnT (f : Fn) (args : List Val) : T (Res Val) :=
  match f, args with
  | .findFirst, [a, b] => findFirstT a b
  | .findFirstBetween, [a, b, c, d] => findBetweenT false a b c d
  | .findFirstFrom, [a, b, c] => findFromT false a b c
  | .findLast, [a, b] => findLastT a b
  | .findLastBetween, [a, b, c, d] => findBetweenT true a b c d
  | .findLastFrom, [a, b, c] => findFromT true a b c
  | .join, [a, b] => joinT a b
  | .padLeft, [a, b, c] => padT true a b c
  | .padRight, [a, b, c] => padT false a b c
  | .padSpaceLeft, [a, b] => padSpaceT true a b
  | .padSpaceRight, [a, b] => padSpaceT false a b
  | .replace, [a, b, c] => replaceT a b c
  | .replaceCount, [a, b, c, d] => replaceCountT a b c d
  | .reverse, [a] => reverseT a
  | .split, [a, b] => splitT a b
  | .splitCount, [a, b, c] => splitCountT a b c
  | .length, [a] => lengthT a
  | .keys, [a] => membersT keys 2 a
  | .values, [a] => membersT values 2 a
  | .items, [a] => membersT items 3 a
  | .toArray, [a] => pure (.ok (toArray a))
  | .type, [a] => pure (typeName a)
  | .contains, [a, b] => containsT a b
  | .sum, [a] => elemsT numSum 1 a
  | .avg, [a] => elemsT numAvg 1 a
  | .max, [a] => elemsT arrayMax 1 a
  | .min, [a] => elemsT arrayMin 1 a
  | .fromItems, [a] => elemsT fromItems 2 a
  | f, args => ⟨applyFn f args, 1⟩

/-- the instrumented builtins return the model's `applyFn` -/
theorem applyFnT_fst (f : Fn) (args : List Val) : (applyFnT f args).1 = applyFn f args := by
  unfold applyFnT
  split <;> simp only [applyFn, findFirstT_fst, findFirstBetweenT_fst, findFirstFromT_fst, findLastT_fst,
    findLastBetweenT_fst, findLastFromT_fst, joinT_fst, padLeftT_fst, padRightT_fst, padSpaceLeftT_fst,
    padSpaceRightT_fst, replaceT_fst, replaceCountT_fst, reverseT_fst, splitT_fst, splitCountT_fst, lengthT_fst,
    containsT_fst, membersT, elemsT, chg_fst, pure_fst]

/-- the binary operators: `==` and `!=` are the instrumented deep comparison `equalT`; arithmetic on decimals and the
    four ordering operators (two `toDecimal` and one decimal comparison) are NOT instrumented: ONE tick each -/
def applyBinOpT (op : BinOp) (a b : Val) : T (Res Val) :=
  match op with
  | .eq => eqOpT false a b
  | .ne => eqOpT true a b
  | op => ⟨applyBinOp op a b, 1⟩

@[simp] theorem applyBinOpT_fst (op : BinOp) (a b : Val) : (applyBinOpT op a b).1 = applyBinOp op a b := by
  cases op <;> simp only [applyBinOpT, applyBinOp, eqOpT_fst, Bool.bne_false, Bool.bne_true]

/-- a binary operator costs at most twice the size of its left operand -/
theorem applyBinOpT_cost (op : BinOp) (a b : Val) : (applyBinOpT op a b).2 ≤ 2 * vsize a := by
  have h1 := eqOpT_snd_le false a b
  have h2 := eqOpT_snd_le true a b
  have h3 := vsize_pos a
  cases op <;> simp only [applyBinOpT, mk_snd] <;> omega

example : applyFnT .reverse [.str [0x68, 0xC3, 0xA9]] = ⟨.ok (.str [0xC3, 0xA9, 0x68]), 3 + (2 + 3)⟩ :=
  T.ext (by rfl) (by decide)
example : applyFnT .abs [.num (.int .i64 (-3))] = ⟨applyFn .abs [.num (.int .i64 (-3))], 1⟩ := rfl

/-! ## the S-form of the cost of the builtins -/

/-- the width of a `pad` whose result the model declines to materialise (more than `padLimit` pad characters) -/
def declined (r : Res Val) (w : Nat) : Nat :=
  match r with
  | .unmodelled _ => w
  | _ => 0

/-- the outcomes of `padWith`: an error only from the two argument checks, never a panic or `nondet` -/
theorem padWith_outcomes (left : Bool) (s p : Bytes) (w : Int) (orig : Val) :
    (∀ c, padWith left s w p orig = .err c → w < 0 ∨ runeCount p ≠ 1) ∧
    (∀ m, padWith left s w p orig ≠ .panic m) ∧ padWith left s w p orig ≠ .nondet := by
  unfold padWith
  by_cases h1 : w < 0
  · simp [h1, errValue]
  · by_cases h2 : runeCount p = 1
    · by_cases h3 : w - (runeCount s : Int) ≤ 0
      · simp [h1, h2, h3]
      · simp only [h1, h2, h3, if_false, ne_eq, not_true_eq_false]
        split <;> simp
    · simp [h1, h2, errValue]

theorem padWithT_cost (left : Bool) (s p : Bytes) (w : Int) :
    (padWithT left s w p (.str s)).2 ≤ 5 * (s.length + p.length + 1 + outSize (padWith left s w p (.str s))
      + declined (padWith left s w p (.str s)) w.toNat) := by
  have hp := C09.runeCount_le_length _ p (Nat.le_refl _)
  have hs := C09.runeCount_le_length _ s (Nat.le_refl _)
  obtain ⟨o1, o2, o3⟩ := padWith_outcomes left s p w (.str s)
  cases h : padWith left s w p (.str s) with
  | ok r =>
    obtain ⟨b, hb, hl⟩ := C09.padWith_size left s p w r h
    subst hb
    simp only [outSize_ok, vsize, declined]
    unfold Cost.padCost at hl
    rw [padWithT_snd]
    split
    · omega
    · split
      · omega
      · rename_i h2
        have h4 : runeCount p = 1 := by omega
        have hpos : 1 ≤ p.length := by omega
        split
        · omega
        · have := Nat.le_mul_of_pos_right (w - (runeCount s : Int)).toNat hpos
          rw [Nat.mul_add, Nat.mul_one]
          omega
  | unmodelled m =>
    have := padWithT_snd_le left s p (.str s) w
    simp only [declined, outSize, onOk]; omega
  | err c =>
    simp only [declined, outSize, onOk]
    rw [padWithT_snd]
    cases o1 c h with
    | inl h1 => simp [h1]
    | inr h2 => split <;> simp [h2]; omega
  | panic m => exact absurd h (o2 m)
  | nondet => exact absurd h o3

theorem padT_cost (left : Bool) (a b c : Val) :
    (padT left a b c).2 ≤ 5 * (vsize a + vsize c + 1 + outSize (padT left a b c).1
      + declined (padT left a b c).1 (padWidth b)) := by
  cases a with
  | str s =>
    cases c with
    | str p =>
      cases h : intArg b with
      | ok w =>
        have e : padT left (.str s) b (.str p) = padWithT left s w p (.str s) := by simp [padT, strArg, h]
        have e2 : padWidth b = w.toNat := by simp [padWidth, h]
        rw [e, e2, padWithT_fst]
        have := padWithT_cost left s p w
        simp only [vsize]; omega
      | _ => simp [padT, strArg, h, argT]
    | _ => simp [padT, strArg, argT, errType]
  | _ => simp [padT, strArg, argT, errType]

theorem padSpaceT_cost (left : Bool) (a b : Val) :
    (padSpaceT left a b).2 ≤ 5 * (vsize a + 2 + outSize (padSpaceT left a b).1
      + declined (padSpaceT left a b).1 (padWidth b)) := by
  cases a with
  | str s =>
    cases h : intArg b with
    | ok w =>
      have e : padSpaceT left (.str s) b = padSpaceWithT left s w (.str s) := by simp [padSpaceT, strArg, h]
      have e2 : padWidth b = w.toNat := by simp [padWidth, h]
      rw [e, e2, padSpaceWithT_fst]
      have h1 := padWithT_cost left s [0x20] w
      have h2 : (padSpaceWithT left s w (.str s)).2 ≤ (padWithT left s w [0x20] (.str s)).2 := by
        rw [padSpaceWithT_snd, padWithT_snd]
        have e3 : runeCount [0x20] = 1 := by decide
        simp only [e3, ne_eq, not_true_eq_false, if_false, List.length_singleton]
        split
        · omega
        · split <;> omega
      simp only [vsize, List.length_singleton] at h1 ⊢; omega
    | _ => simp [padSpaceT, strArg, h, argT]
  | _ => simp [padSpaceT, strArg, argT, errType]

/-- `replace` on ANY values: at most `4·(|value| + |result| + 1)` ticks (a failing call costs nothing) -/
theorem replaceT_cost (a b c : Val) : (replaceT a b c).2 ≤ 4 * (strLen a + outSize (replaceT a b c).1 + 1) := by
  unfold replaceT
  split
  · rename_i s po pn
    obtain ⟨r, h1, h2⟩ := replaceT_snd_le s po pn
    simp only [replaceT] at h1 h2
    rw [h1]; simp only [outSize_ok, vsize, strLen]; omega
  · simp

theorem replaceCountT_cost (a b c d : Val) :
    (replaceCountT a b c d).2 ≤ 4 * (strLen a + outSize (replaceCountT a b c d).1 + 1) := by
  cases a with
  | str s =>
    cases b with
    | str po =>
      cases c with
      | str pn =>
        cases replaceCountT_snd_le s po pn d with
        | inl h => obtain ⟨r, h1, h2⟩ := h; rw [h1]; simp only [outSize_ok, vsize, strLen]; omega
        | inr h => omega
      | _ => simp [replaceCountT]
    | _ => simp [replaceCountT]
  | _ => simp [replaceCountT]

theorem splitT_cost (a b : Val) : (splitT a b).2 ≤ 5 * (strLen a + 1) := by
  unfold splitT
  split
  · rename_i s p; exact splitT_snd_le s p
  · simp

theorem splitCountT_cost (a b c : Val) : (splitCountT a b c).2 ≤ 5 * (strLen a + 1) := by
  cases a with
  | str s =>
    cases b with
    | str p => exact splitCountT_snd_le s p c
    | _ => simp [splitCountT]
  | _ => simp [splitCountT]

theorem joinStrBytes_le : ∀ xs : List Val, joinStrBytes xs ≤ vsizeL xs
  | [] => by simp [joinStrBytes, vsizeL]
  | x :: xs => by
    have := joinStrBytes_le xs
    have := strLen_le_vsize x
    simp only [joinStrBytes, vsizeL]; omega

theorem joinT_cost (sep value : Val) :
    (joinT sep value).2 ≤ 2 * vsize value + strLen sep * (elems value).length + 1 := by
  have := joinT_snd_le sep value
  cases value <;> simp only [joinInputSize, elems, List.length_nil, Nat.mul_zero] at this ⊢ <;> try omega
  rename_i t xs
  have h1 := joinStrBytes_le xs
  have h2 := length_le_vsizeL xs
  simp only [vsize]
  rw [Nat.mul_add, Nat.mul_one, Nat.mul_comm xs.length] at this
  omega

theorem revSize_le_vsize (v : Val) : revSize v ≤ vsize v := by
  cases v <;> simp [revSize, vsize]
  rename_i t xs; have := length_le_vsizeL xs; omega

/-- what the sizes of operands and result do not cover: the separator bytes `join` writes before it may fail on a
    late non-string element (`|sep| · len`; at most the size of the result when it succeeds), and the width of a `pad`
    whose result the model declines to materialise -/
def fnExtra (f : Fn) (vs : List Val) : Nat :=
  match f, vs with
  | .join, [sep, value] => strLen sep * (elems value).length
  | .padLeft, [a, w, c] => declined (padLeft a w c) (padWidth w)
  | .padRight, [a, w, c] => declined (padRight a w c) (padWidth w)
  | .padSpaceLeft, [a, w] => declined (padSpaceLeft a w) (padWidth w)
  | .padSpaceRight, [a, w] => declined (padSpaceRight a w) (padWidth w)
  | _, _ => 0

/-- the S-form of the cost of a builtin: at most `6·(1 + sizes of the arguments + size of the result + fnExtra)` -/
theorem applyFnT_cost (f : Fn) (vs : List Val) :
    (applyFnT f vs).2 ≤ 6 * (1 + vsizeL vs + outSize (applyFn f vs) + fnExtra f vs) := by
  rw [← applyFnT_fst]
  unfold applyFnT
  split
  · rename_i a b; have := findFirstT_snd_le a b; have := strLen_le_vsize a; simp only [vsizeL]; omega
  · rename_i a b c d; have := findBetweenT_snd_le false a b c d; have := strLen_le_vsize a; simp only [vsizeL]; omega
  · rename_i a b c; have := findFromT_snd_le false a b c; have := strLen_le_vsize a; simp only [vsizeL]; omega
  · rename_i a b; have := findLastT_snd_le a b; have := strLen_le_vsize a; simp only [vsizeL]; omega
  · rename_i a b c d; have := findBetweenT_snd_le true a b c d; have := strLen_le_vsize a; simp only [vsizeL]; omega
  · rename_i a b c; have := findFromT_snd_le true a b c; have := strLen_le_vsize a; simp only [vsizeL]; omega
  · rename_i a b; have := joinT_cost a b; simp only [vsizeL, fnExtra]; omega
  · rename_i a b c; have := padT_cost true a b c; rw [padLeftT_fst] at this; simp only [vsizeL, fnExtra, padLeftT_fst]; omega
  · rename_i a b c; have := padT_cost false a b c; rw [padRightT_fst] at this; simp only [vsizeL, fnExtra, padRightT_fst]; omega
  · rename_i a b; have := padSpaceT_cost true a b; rw [padSpaceLeftT_fst] at this
    have := vsize_pos b; simp only [vsizeL, fnExtra, padSpaceLeftT_fst]; omega
  · rename_i a b; have := padSpaceT_cost false a b; rw [padSpaceRightT_fst] at this
    have := vsize_pos b; simp only [vsizeL, fnExtra, padSpaceRightT_fst]; omega
  · rename_i a b c; have := replaceT_cost a b c; have := strLen_le_vsize a; simp only [vsizeL]; omega
  · rename_i a b c d; have := replaceCountT_cost a b c d; have := strLen_le_vsize a; simp only [vsizeL]; omega
  · rename_i a; have := reverseT_snd_le a; have := revSize_le_vsize a; simp only [vsizeL]; omega
  · rename_i a b; have := splitT_cost a b; have := strLen_le_vsize a; simp only [vsizeL]; omega
  · rename_i a b c; have := splitCountT_cost a b c; have := strLen_le_vsize a; simp only [vsizeL]; omega
  · rename_i a; have := lengthT_snd_le a; have := strLen_le_vsize a; simp only [vsizeL]; omega
  · rename_i a; have := members_length_le a; simp only [vsizeL, membersT, chg_snd, pure_snd]; omega
  · rename_i a; have := members_length_le a; simp only [vsizeL, membersT, chg_snd, pure_snd]; omega
  · rename_i a; have := members_length_le a; simp only [vsizeL, membersT, chg_snd, pure_snd]; omega
  · simp
  · simp
  · rename_i a b; have := containsT_snd_le a b; simp only [vsizeL]; omega
  · rename_i a; have := elems_length_le a; simp only [vsizeL, elemsT, chg_snd, pure_snd]; omega
  · rename_i a; have := elems_length_le a; simp only [vsizeL, elemsT, chg_snd, pure_snd]; omega
  · rename_i a; have := elems_length_le a; simp only [vsizeL, elemsT, chg_snd, pure_snd]; omega
  · rename_i a; have := elems_length_le a; simp only [vsizeL, elemsT, chg_snd, pure_snd]; omega
  · rename_i a; have := elems_length_le a; simp only [vsizeL, elemsT, chg_snd, pure_snd]; omega
  · simp only [mk_snd]; omega

example : (applyFnT .padLeft [.str [0x61], .num (.int .i64 (2 ^ 62)), .str [0x2E]]).2 ≤ 6 * (1 + (2 + (1 + (2 + 0))) + 0 + 2 ^ 62) := by
  have := applyFnT_cost .padLeft [.str [0x61], .num (.int .i64 (2 ^ 62)), .str [0x2E]]
  have e : fnExtra .padLeft [.str [0x61], .num (.int .i64 (2 ^ 62)), .str [0x2E]] = 2 ^ 62 := by rfl
  have e2 : outSize (applyFn .padLeft [.str [0x61], .num (.int .i64 (2 ^ 62)), .str [0x2E]]) = 0 := by rfl
  rw [e, e2] at this
  exact this

end Jmes.C09E
