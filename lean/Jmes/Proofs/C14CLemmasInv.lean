/-
  Helper for property C14 (third round): the unary invariant `AllF P` ("every float inside the value satisfies `P`")
  through the structural helpers and the builtins of the evaluator.  The statements mirror those of
  `Jmes/Proofs/NoFloat.lean` (which treats the special case "there is no float at all").
-/
import Jmes.Proofs.C14CLemmasOp
namespace Jmes
namespace C14C
open C14 C14B

section
variable {P P' : F64 → Prop}

/-- `f` maps values whose floats satisfy `P` to values whose floats satisfy `P'` -/
def PF (P P' : F64 → Prop) (f : Val → Res Val) : Prop := ∀ x, AllF P x → ∀ v, f x = .ok v → AllF P' v

/-- every float inside the groups satisfies `P` -/
def GroupsAF (P : F64 → Prop) (gs : List (Bytes × List Val)) : Prop := ∀ k g, (k, g) ∈ gs → ∀ x ∈ g, AllF P x

theorem getD_af {xs : List Val} (h : ∀ x ∈ xs, AllF P x) (n : Nat) : AllF P (xs.getD n .null) := by
  rw [List.getD_eq_getElem?_getD]
  cases hx : xs[n]? with
  | none => simp
  | some x => simp; exact h x (List.mem_of_getElem? hx)

theorem field_af {v : Val} (k : Bytes) (h : AllF P v) : AllF P (field k v) := by
  unfold field
  split
  · next kvs =>
    cases hl : objLookup k kvs with
    | none => simp
    | some x => simp; exact allF_obj.mp h k x (objLookup_mem hl)
  · simp

theorem index_af {v w : Val} {i : Int} (h : AllF P v) (hw : index v i = .ok w) : AllF P w := by
  cases v with
  | arr t xs =>
    simp only [index] at hw
    generalize (if i < 0 then i + (xs.length : Int) else i) = j at hw
    by_cases h1 : j < 0 ∨ j ≥ (xs.length : Int)
    · simp only [h1, if_true, Res.ok.injEq] at hw; subst hw; simp
    · simp only [h1, if_false] at hw
      by_cases h2 : enum2 t xs = true
      · simp [h2] at hw
      · simp only [h2, if_false, Res.ok.injEq, Bool.false_eq_true] at hw
        subst hw; exact getD_af (allF_arr.mp h) _
  | _ => simp only [index, Res.ok.injEq] at hw; subst hw; simp

theorem pickStep_af {xs : List Val} (h : ∀ x ∈ xs, AllF P x) (step : Int) : ∀ (n : Nat) (start : Int),
    ∀ y ∈ pickStep xs start step n, AllF P y
  | 0, _ => by simp [pickStep]
  | n + 1, start => by
    intro y hy
    simp only [pickStep, List.mem_cons] at hy
    rcases hy with rfl | hy
    · exact getD_af h _
    · exact pickStep_af h step n _ y hy

theorem slice_af {v w : Val} {a b : Int} (h : AllF P v) (hw : slice v a b = .ok w) : AllF P w := by
  unfold slice at hw
  split at hw
  · next t xs =>
    split at hw
    · cases hw; simp [allF_arr]
    · split at hw
      · cases hw; simp [allF_arr]
      · split at hw
        · simp at hw
        · cases hw
          rw [allF_arr]
          intro x hx
          exact allF_arr.mp h x (List.mem_of_mem_drop (List.mem_of_mem_take hx))
  · split at hw <;> (cases hw; simp)
  · cases hw; simp

theorem sliceStep_af {v w : Val} {a b s : Int} (h : AllF P v) (hw : sliceStep v a b s = .ok w) : AllF P w := by
  unfold sliceStep at hw
  split at hw
  · next t xs =>
    split at hw
    · cases hw; simp [allF_arr]
    · split at hw
      · simp at hw
      · cases hw
        rw [allF_arr]
        exact pickStep_af (allF_arr.mp h) _ _ _
  · simp only at hw
    split at hw
    · cases hw; simp
    · split at hw <;> (cases hw; simp)
  · cases hw; simp

theorem pruneArray_af {v : Val} (h : AllF P v) : AllF P (pruneArray v) := by
  unfold pruneArray
  split
  · next t xs =>
    split
    · rw [allF_arr]; intro x hx; exact allF_arr.mp h x (List.mem_filter.mp hx).1
    · exact h
  · simp


theorem mapPrune_af {f : Val → Res Val} (hf : PF P P' f) : ∀ {xs r : List Val}, (∀ x ∈ xs, AllF P x) →
    mapPrune f xs = .ok r → ∀ y ∈ r, AllF P' y
  | [], r, _, h => by simp [mapPrune] at h; subst h; simp
  | x :: xs, r, hx, h => by
    simp only [mapPrune, Res.bind_eq_ok, Res.pure_eq, Res.ok.injEq] at h
    obtain ⟨p, hp, rest, hrest, hr⟩ := h
    have ih := mapPrune_af hf (fun y hy => hx y (List.mem_cons_of_mem _ hy)) hrest
    have hpn := hf x (hx x (List.mem_cons_self ..)) p hp
    subst hr
    intro y hy
    split at hy
    · exact ih y hy
    · rcases List.mem_cons.mp hy with rfl | hy
      · exact hpn
      · exact ih y hy

theorem mapAll_af {f : Val → Res Val} (hf : PF P P' f) : ∀ {xs r : List Val}, (∀ x ∈ xs, AllF P x) →
    mapAll f xs = .ok r → ∀ y ∈ r, AllF P' y
  | [], r, _, h => by simp [mapAll] at h; subst h; simp
  | x :: xs, r, hx, h => by
    simp only [mapAll, Res.bind_eq_ok, Res.pure_eq, Res.ok.injEq] at h
    obtain ⟨p, hp, rest, hrest, hr⟩ := h
    have ih := mapAll_af hf (fun y hy => hx y (List.mem_cons_of_mem _ hy)) hrest
    have hpn := hf x (hx x (List.mem_cons_self ..)) p hp
    subst hr
    intro y hy
    rcases List.mem_cons.mp hy with rfl | hy
    · exact hpn
    · exact ih y hy

theorem filterMapPrune_af {c f : Val → Res Val} (hf : PF P P' f) : ∀ {xs r : List Val}, (∀ x ∈ xs, AllF P x) →
    filterMapPrune c f xs = .ok r → ∀ y ∈ r, AllF P' y
  | [], r, _, h => by simp [filterMapPrune] at h; subst h; simp
  | x :: xs, r, hx, h => by
    simp only [filterMapPrune, Res.bind_eq_ok] at h
    obtain ⟨b, hb, h⟩ := h
    have hx' : ∀ y ∈ xs, AllF P y := fun y hy => hx y (List.mem_cons_of_mem _ hy)
    split at h
    · simp only [Res.bind_eq_ok, Res.pure_eq, Res.ok.injEq] at h
      obtain ⟨p, hp, rest, hrest, hr⟩ := h
      have ih := filterMapPrune_af hf hx' hrest
      have hpn := hf x (hx x (List.mem_cons_self ..)) p hp
      subst hr
      intro y hy
      split at hy
      · exact ih y hy
      · rcases List.mem_cons.mp hy with rfl | hy
        · exact hpn
        · exact ih y hy
    · exact filterMapPrune_af hf hx' h

theorem projectArray_af {f : Val → Res Val} (hf : PF P P' f) {v w : Val} (h : AllF P v)
    (hw : projectArray f v = .ok w) : AllF P' w := by
  unfold projectArray at hw
  split at hw
  · next t xs =>
    rw [widen_eq_ok] at hw
    simp only [Res.bind_eq_ok, Res.pure_eq, Res.ok.injEq] at hw
    obtain ⟨r, hr, rfl⟩ := hw
    exact allF_arr.mpr (mapPrune_af hf (allF_arr.mp h) hr)
  · cases hw; simp

theorem mapArray_af {f : Val → Res Val} (hf : PF P P' f) {v w : Val} (h : AllF P v)
    (hw : mapArray f v = .ok w) : AllF P' w := by
  unfold mapArray at hw
  split at hw
  · next t xs =>
    rw [widen_eq_ok] at hw
    simp only [Res.bind_eq_ok, Res.pure_eq, Res.ok.injEq] at hw
    obtain ⟨r, hr, rfl⟩ := hw
    exact allF_arr.mpr (mapAll_af hf (allF_arr.mp h) hr)
  · simp [errType] at hw

theorem filterAndProjectArray_af {c f : Val → Res Val} (hf : PF P P' f) {v w : Val} (h : AllF P v)
    (hw : filterAndProjectArray c f v = .ok w) : AllF P' w := by
  unfold filterAndProjectArray at hw
  split at hw
  · next t xs =>
    rw [widen_eq_ok] at hw
    simp only [Res.bind_eq_ok, Res.pure_eq, Res.ok.injEq] at hw
    obtain ⟨r, hr, rfl⟩ := hw
    exact allF_arr.mpr (filterMapPrune_af hf (allF_arr.mp h) hr)
  · cases hw; simp

theorem flattenForProject_af : ∀ {xs : List Val}, (∀ x ∈ xs, AllF P x) → ∀ y ∈ flattenForProject xs, AllF P y
  | [], _ => by simp [flattenForProject]
  | x :: xs, hx => by
    have ih := flattenForProject_af (fun y hy => hx y (List.mem_cons_of_mem _ hy))
    have h0 := hx x (List.mem_cons_self ..)
    intro y hy
    cases x with
    | arr t ys =>
      simp only [flattenForProject, List.mem_append] at hy
      rcases hy with hy | hy
      · exact allF_arr.mp h0 y hy
      · exact ih y hy
    | _ =>
      simp only [flattenForProject, List.mem_cons] at hy
      rcases hy with rfl | hy
      · exact h0
      · exact ih y hy

theorem flattenAndProjectArray_af {f : Val → Res Val} (hf : PF P P' f) {v w : Val} (h : AllF P v)
    (hw : flattenAndProjectArray f v = .ok w) : AllF P' w := by
  unfold flattenAndProjectArray at hw
  split at hw
  · next t xs =>
    rw [widen_eq_ok] at hw
    simp only [Res.bind_eq_ok, Res.pure_eq, Res.ok.injEq] at hw
    obtain ⟨r, hr, rfl⟩ := hw
    exact allF_arr.mpr (mapPrune_af hf (flattenForProject_af (allF_arr.mp h)) hr)
  · cases hw; simp

theorem obj_values_af {kvs : List (Bytes × Val)} (h : AllF P (.obj kvs)) : ∀ x ∈ kvs.map Prod.snd, AllF P x := by
  intro x hx
  obtain ⟨⟨k, x'⟩, hm, rfl⟩ := List.mem_map.mp hx
  exact allF_obj.mp h k x' hm

theorem projectObject_af {f : Val → Res Val} (hf : PF P P' f) {v w : Val} (h : AllF P v)
    (hw : projectObject f v = .ok w) : AllF P' w := by
  unfold projectObject at hw
  split at hw
  · next kvs =>
    simp only at hw
    rw [widen_eq_ok] at hw
    simp only [Res.bind_eq_ok, Res.pure_eq, Res.ok.injEq] at hw
    obtain ⟨r, hr, rfl⟩ := hw
    exact allF_arr.mpr (mapPrune_af hf (obj_values_af h) hr)
  · cases hw; simp


theorem groupInsert_af {s : Bytes} {v : Val} (hv : AllF P v) : ∀ {gs : List (Bytes × List Val)}, GroupsAF P gs →
    GroupsAF P (groupInsert s v gs)
  | [], _ => by
    intro k g hm x hx
    simp only [groupInsert, List.mem_singleton, Prod.mk.injEq] at hm
    obtain ⟨_, rfl⟩ := hm
    simp at hx; subst hx; exact hv
  | (k', g') :: rest, h => by
    have hrest : GroupsAF P rest := fun k g hm => h k g (List.mem_cons_of_mem _ hm)
    have hhead := h k' g' (List.mem_cons_self ..)
    intro k g hm x hx
    simp only [groupInsert] at hm
    split at hm
    · rcases List.mem_cons.mp hm with e | hm
      · cases e
        rcases List.mem_append.mp hx with hx | hx
        · exact hhead x hx
        · simp at hx; subst hx; exact hv
      · exact hrest k g hm x hx
    · split at hm
      · rcases List.mem_cons.mp hm with e | hm
        · cases e; simp at hx; subst hx; exact hv
        · exact h k g hm x hx
      · rcases List.mem_cons.mp hm with e | hm
        · cases e; exact hhead x hx
        · exact groupInsert_af hv hrest k g hm x hx

theorem groupLoop_af {f : Val → Res Val} : ∀ {xs : List Val} {acc r : List (Bytes × List Val)},
    (∀ x ∈ xs, AllF P x) → GroupsAF P acc → groupLoop f xs acc = .ok r → GroupsAF P r
  | [], acc, r, _, hacc, h => by simp [groupLoop] at h; subst h; exact hacc
  | x :: xs, acc, r, hx, hacc, h => by
    simp only [groupLoop, Res.bind_eq_ok] at h
    obtain ⟨rv, _, h⟩ := h
    split at h
    · exact groupLoop_af (fun y hy => hx y (List.mem_cons_of_mem _ hy))
        (groupInsert_af (hx x (List.mem_cons_self ..)) hacc) h
    · simp [errType] at h

theorem groupBy_af {f : Val → Res Val} {v w : Val} (h : AllF P v) (hw : groupBy f v = .ok w) : AllF P w := by
  unfold groupBy at hw
  split at hw
  · next t xs =>
    split at hw
    · cases hw; simp
    · rw [widen_eq_ok] at hw
      simp only [Res.bind_eq_ok, Res.pure_eq, Res.ok.injEq] at hw
      obtain ⟨gs, hgs, rfl⟩ := hw
      have := groupLoop_af (allF_arr.mp h) (fun _ _ hm => by simp at hm) hgs
      rw [allF_obj]
      intro k x hm
      obtain ⟨⟨k', g⟩, hm', e⟩ := List.mem_map.mp hm
      cases e
      exact allF_arr.mpr (this k' g hm')
  · simp [errType] at hw

theorem arrayPickBy_af {better : Key → Key → Bool} {f : Val → Res Val} {v w : Val} (h : AllF P v)
    (hw : arrayPickBy better f v = .ok w) : AllF P w := by
  unfold arrayPickBy at hw
  split at hw
  · next t xs =>
    split at hw
    · cases hw; simp
    · next x0 rest =>
      rw [widen_eq_ok] at hw
      simp only [Res.bind_eq_ok] at hw
      obtain ⟨ks, _, hw⟩ := hw
      split at hw
      · cases hw; simp
      · next k0 krest _ =>
        split at hw
        · simp at hw
        · cases hw
          have hall := allF_arr.mp h
          rcases pickBy_mem better (rest.zip krest) x0 k0 with e | ⟨p, hp, e⟩
          · rw [e]; exact hall x0 (List.mem_cons_self ..)
          · rw [e]; exact hall p.1 (List.mem_cons_of_mem _ (List.of_mem_zip (show (p.1, p.2) ∈ rest.zip krest from hp)).1)
  · simp [errType] at hw

theorem sortArrayBy_af {f : Val → Res Val} {v w : Val} (h : AllF P v)
    (hw : sortArrayBy f v = .ok w) : AllF P w := by
  unfold sortArrayBy at hw
  split at hw
  · next t xs =>
    split at hw
    · cases hw; exact h
    · rw [widen_eq_ok] at hw
      simp only [Res.bind_eq_ok] at hw
      obtain ⟨ks, _, hw⟩ := hw
      split at hw
      · simp at hw
      · cases hw
        rw [allF_arr]
        intro x hx
        simp only [sortByKeys] at hx
        obtain ⟨p, hp, rfl⟩ := List.mem_map.mp hx
        have := List.mem_mergeSort.mp hp
        exact allF_arr.mp h p.1 (List.of_mem_zip (show (p.1, p.2) ∈ xs.zip ks from this)).1
  · simp [errType] at hw

/-! objects -/
theorem objInsert_af {k : Bytes} {v : Val} (hv : AllF P v) : ∀ {acc : List (Bytes × Val)},
    (∀ k' x, (k', x) ∈ acc → AllF P x) → ∀ k' x, (k', x) ∈ objInsert k v acc → AllF P x
  | [], _ => by
    intro k' x hm
    simp only [objInsert, List.mem_singleton, Prod.mk.injEq] at hm
    obtain ⟨_, rfl⟩ := hm; exact hv
  | (k0, v0) :: rest, h => by
    intro k' x hm
    simp only [objInsert] at hm
    split at hm
    · rcases List.mem_cons.mp hm with e | hm
      · cases e; exact hv
      · exact h k' x (List.mem_cons_of_mem _ hm)
    · split at hm
      · rcases List.mem_cons.mp hm with e | hm
        · cases e; exact hv
        · exact h k' x hm
      · rcases List.mem_cons.mp hm with e | hm
        · cases e; exact h k0 v0 (List.mem_cons_self ..)
        · exact objInsert_af hv (fun k'' x' hm' => h k'' x' (List.mem_cons_of_mem _ hm')) k' x hm

theorem foldl_objInsert_af : ∀ {kvs acc : List (Bytes × Val)}, (∀ k x, (k, x) ∈ kvs → AllF P x) →
    (∀ k x, (k, x) ∈ acc → AllF P x) →
    ∀ k x, (k, x) ∈ kvs.foldl (fun a kv => objInsert kv.1 kv.2 a) acc → AllF P x
  | [], acc, _, hacc => by simpa using hacc
  | (k0, v0) :: rest, acc, hk, hacc => by
    simp only [List.foldl_cons]
    exact foldl_objInsert_af (fun k x hm => hk k x (List.mem_cons_of_mem _ hm))
      (objInsert_af (hk k0 v0 (List.mem_cons_self ..)) hacc)

theorem combineUnordered_af {acc : Res (List (Bytes × Val))} {k : Bytes} {r : Res Val} {out : List (Bytes × Val)}
    (hacc : ∀ kvs, acc = .ok kvs → ∀ k x, (k, x) ∈ kvs → AllF P x) (hr : ∀ v, r = .ok v → AllF P v)
    (h : combineUnordered acc k r = .ok out) : ∀ k x, (k, x) ∈ out → AllF P x := by
  cases acc <;> cases r <;> simp [combineUnordered] at h
  subst h
  exact objInsert_af (hr _ rfl) (hacc _ rfl)

/-! zip -/
theorem zipArgs_af : ∀ {vs : List Val} {cols : List (List Val)}, (∀ v ∈ vs, AllF P v) → zipArgs vs = .ok cols →
    ∀ c ∈ cols, ∀ x ∈ c, AllF P x
  | [], cols, _, h => by simp [zipArgs] at h; subst h; simp
  | .arr t xs :: rest, cols, hv, h => by
    simp only [zipArgs, Res.bind_eq_ok] at h
    obtain ⟨cols', hc, h⟩ := h
    split at h
    · simp at h
    · simp only [Res.pure_eq, Res.ok.injEq] at h
      subst h
      have ih := zipArgs_af (fun v hv' => hv v (List.mem_cons_of_mem _ hv')) hc
      intro c hc'
      rcases List.mem_cons.mp hc' with rfl | hc'
      · exact allF_arr.mp (hv _ (List.mem_cons_self ..))
      · exact ih c hc'
  | .null :: _, _, _, h => by simp [zipArgs, errType] at h
  | .bool _ :: _, _, _, h => by simp [zipArgs, errType] at h
  | .str _ :: _, _, _, h => by simp [zipArgs, errType] at h
  | .num _ :: _, _, _, h => by simp [zipArgs, errType] at h
  | .obj _ :: _, _, _, h => by simp [zipArgs, errType] at h
  | .foreign _ :: _, _, _, h => by simp [zipArgs, errType] at h

theorem zipRows_af : ∀ (n : Nat) {cols : List (List Val)}, (∀ c ∈ cols, ∀ x ∈ c, AllF P x) →
    ∀ y ∈ zipRows n cols, AllF P y
  | 0, _, _ => by simp [zipRows]
  | n + 1, cols, h => by
    intro y hy
    simp only [zipRows, List.mem_cons] at hy
    rcases hy with rfl | hy
    · rw [allF_arr]
      intro x hx
      obtain ⟨c, hc, rfl⟩ := List.mem_map.mp hx
      cases c with
      | nil => simp
      | cons a c' => exact h _ hc a (List.mem_cons_self ..)
    · refine zipRows_af n ?_ y hy
      intro c hc x hx
      obtain ⟨c0, hc0, rfl⟩ := List.mem_map.mp hc
      exact h c0 hc0 x (List.mem_of_mem_tail hx)

theorem padWith_af {l : Bool} {s : Bytes} {n : Int} {p : Bytes} {orig w : Val} (ho : AllF P orig)
    (hw : padWith l s n p orig = .ok w) : AllF P w := by
  unfold padWith at hw
  split at hw
  · simp [errValue] at hw
  · split at hw
    · simp [errValue] at hw
    · simp only at hw
      split at hw
      · cases hw; exact ho
      · split at hw
        · simp at hw
        · cases hw; simp
theorem padLeft_af {a b c w : Val} (ha : AllF P a) (hw : padLeft a b c = .ok w) : AllF P w := by
  unfold padLeft at hw
  simp only [Res.bind_eq_ok] at hw
  obtain ⟨_, _, _, _, _, _, hw⟩ := hw
  exact padWith_af ha hw
theorem padRight_af {a b c w : Val} (ha : AllF P a) (hw : padRight a b c = .ok w) : AllF P w := by
  unfold padRight at hw
  simp only [Res.bind_eq_ok] at hw
  obtain ⟨_, _, _, _, _, _, hw⟩ := hw
  exact padWith_af ha hw
theorem padSpaceLeft_af {a b w : Val} (ha : AllF P a) (hw : padSpaceLeft a b = .ok w) : AllF P w := by
  unfold padSpaceLeft at hw
  simp only [Res.bind_eq_ok] at hw
  obtain ⟨_, _, _, _, hw⟩ := hw
  exact padWith_af ha hw
theorem padSpaceRight_af {a b w : Val} (ha : AllF P a) (hw : padSpaceRight a b = .ok w) : AllF P w := by
  unfold padSpaceRight at hw
  simp only [Res.bind_eq_ok] at hw
  obtain ⟨_, _, _, _, hw⟩ := hw
  exact padWith_af ha hw

theorem values_af {a w : Val} (h : AllF P a) (hw : values a = .ok w) : AllF P w := by
  unfold values at hw
  split at hw
  · cases hw
    rw [allF_arr]; intro x hx
    obtain ⟨⟨k, x'⟩, hm, rfl⟩ := List.mem_map.mp hx
    exact allF_obj.mp h k x' hm
  · simp [errType] at hw

theorem items_af {a w : Val} (h : AllF P a) (hw : items a = .ok w) : AllF P w := by
  unfold items at hw
  split at hw
  · cases hw
    rw [allF_arr]; intro x hx
    obtain ⟨⟨k, x'⟩, hm, rfl⟩ := List.mem_map.mp hx
    rw [allF_arr]; intro y hy
    simp only [List.mem_cons, List.not_mem_nil, or_false] at hy
    rcases hy with hy | hy
    · subst hy; simp
    · subst hy; exact allF_obj.mp h k _ hm
  · simp [errType] at hw

theorem fromItemsLoop_af : ∀ {xs : List Val} {acc r : List (Bytes × Val)}, (∀ x ∈ xs, AllF P x) →
    (∀ k x, (k, x) ∈ acc → AllF P x) → fromItemsLoop xs acc = .ok r → ∀ k x, (k, x) ∈ r → AllF P x
  | [], acc, r, _, hacc, h => by simp [fromItemsLoop] at h; subst h; exact hacc
  | .arr t ia :: xs, acc, r, hx, hacc, h => by
    have hx' : ∀ y ∈ xs, AllF P y := fun y hy => hx y (List.mem_cons_of_mem _ hy)
    have h0 := hx _ (List.mem_cons_self ..)
    simp only [fromItemsLoop] at h
    split at h
    · next k v =>
      split at h
      · simp at h
      · split at h
        · next s =>
          have hv : AllF P v := allF_arr.mp h0 v (by simp)
          exact fromItemsLoop_af hx' (objInsert_af hv hacc) h
        · simp [errValue] at h
    · simp [errValue] at h
  | .null :: _, _, _, _, _, h => by simp [fromItemsLoop, errType] at h
  | .bool _ :: _, _, _, _, _, h => by simp [fromItemsLoop, errType] at h
  | .str _ :: _, _, _, _, _, h => by simp [fromItemsLoop, errType] at h
  | .num _ :: _, _, _, _, _, h => by simp [fromItemsLoop, errType] at h
  | .obj _ :: _, _, _, _, _, h => by simp [fromItemsLoop, errType] at h
  | .foreign _ :: _, _, _, _, _, h => by simp [fromItemsLoop, errType] at h

theorem fromItems_af {a w : Val} (h : AllF P a) (hw : fromItems a = .ok w) : AllF P w := by
  unfold fromItems at hw
  split at hw
  · next t xs =>
    split at hw
    · next kvs hl =>
      split at hw
      · simp at hw
      · cases hw
        exact allF_obj.mpr (fromItemsLoop_af (allF_arr.mp h) (by simp) hl)
    · split at hw <;> simp at hw
    · simp at hw
    · simp at hw
    · simp at hw
  · simp [errType] at hw

theorem reverse_af {a w : Val} (h : AllF P a) (hw : reverse a = .ok w) : AllF P w := by
  unfold reverse at hw
  split at hw
  · cases hw; simp
  · cases hw
    rw [allF_arr]; intro x hx
    exact allF_arr.mp h x (List.mem_reverse.mp hx)
  · simp [errType] at hw

theorem toArray_af {a : Val} (h : AllF P a) : AllF P (toArray a) := by
  unfold toArray
  split
  · exact h
  · rw [allF_arr]; intro x hx; simp at hx; subst hx; exact h

theorem sortArray_af {a w : Val} (h : AllF P a) (hw : sortArray a = .ok w) : AllF P w := by
  unfold sortArray at hw
  split at hw
  · next t xs =>
    split at hw
    · cases hw; exact h
    · split at hw
      · cases hw
        rw [allF_arr]; intro x hx
        obtain ⟨_, _, rfl⟩ := List.mem_map.mp hx; simp
      · simp [errType] at hw
    · split at hw
      · next ds _ =>
        simp only at hw
        split at hw
        · simp at hw
        · cases hw
          rw [allF_arr]; intro x hx
          obtain ⟨p, hp, rfl⟩ := List.mem_map.mp hx
          have := List.mem_mergeSort.mp hp
          exact allF_arr.mp h p.1 (List.of_mem_zip (show (p.1, p.2) ∈ xs.zip ds from this)).1
      · simp [errType] at hw
  · simp [errType] at hw

/-! ### the numeric builtins and unary minus: they need `P` to be closed under the float operation -/

theorem toNumber_af {x : Val} (h : AllF P x) : AllF P (toNumber x) := by
  unfold toNumber
  split
  · exact h
  · split
    · split <;> simp
    · simp
  · simp

theorem numAbs_af (hP : ∀ f, P f → P f.abs) {x w : Val} (h : AllF P x) (hw : numAbs x = .ok w) : AllF P w := by
  unfold numAbs at hw
  rcases toFloat_cases x with ⟨f, e1, _, q⟩ | e1
  · simp only [e1, Res.ok.injEq] at hw; subst hw
    simp only [allF_f64]; exact hP f (q _ h)
  · simp only [e1] at hw
    cases hd : toDecimal x with
    | none => simp [hd, errType] at hw
    | some d => simp only [hd, Res.ok.injEq] at hw; subst hw; simp

theorem numCeil_af (hP : ∀ f, P f → P f.ceil) {x w : Val} (h : AllF P x) (hw : numCeil x = .ok w) : AllF P w := by
  unfold numCeil at hw
  rcases toFloat_cases x with ⟨f, e1, _, q⟩ | e1
  · simp only [e1, Res.ok.injEq] at hw; subst hw
    simp only [allF_f64]; exact hP f (q _ h)
  · simp only [e1] at hw
    cases hd : toDecimal x with
    | none => simp [hd, errType] at hw
    | some d => simp only [hd, Res.ok.injEq] at hw; subst hw; simp

theorem numFloor_af (hP : ∀ f, P f → P f.floor) {x w : Val} (h : AllF P x) (hw : numFloor x = .ok w) : AllF P w := by
  unfold numFloor at hw
  rcases toFloat_cases x with ⟨f, e1, _, q⟩ | e1
  · simp only [e1, Res.ok.injEq] at hw; subst hw
    simp only [allF_f64]; exact hP f (q _ h)
  · simp only [e1] at hw
    cases hd : toDecimal x with
    | none => simp [hd, errType] at hw
    | some d => simp only [hd, Res.ok.injEq] at hw; subst hw; simp

theorem negateVal_af (hP : ∀ f, P f → P f.neg) {x : Val} (h : AllF P x) : AllF P (negateVal x) := by
  unfold negateVal
  rcases toFloat_cases x with ⟨f, e1, _, q⟩ | e1
  · simp only [e1, allF_f64]; exact hP f (q _ h)
  · simp only [e1]
    cases hd : toDecimal x with
    | none => simp
    | some d => simp only []; split <;> simp

/-- `P` is closed under the four exact unary float operations -/
structure UnClosed (P : F64 → Prop) : Prop where
  neg : ∀ f, P f → P f.neg
  abs : ∀ f, P f → P f.abs
  ceil : ∀ f, P f → P f.ceil
  floor : ∀ f, P f → P f.floor

theorem unClosed_intF (k : Nat) : UnClosed (IntF k) :=
  ⟨fun _ h => h.neg, fun _ h => h.abs, fun _ h => h.ceil, fun _ h => h.floor⟩

/-- **every builtin maps arguments whose floats satisfy `P` to a result whose floats satisfy `P`** (the results of most
    builtins contain no float at all; `abs`, `ceil`, `floor` apply an exact float operation; the others pass parts of
    their arguments on) -/
theorem applyFn_af (hP : UnClosed P) {f : Fn} {args : List Val} {w : Val} (ha : ∀ a ∈ args, AllF P a)
    (hw : applyFn f args = .ok w) : AllF P w := by
  have h0 : ∀ {a : Val} {l : List Val}, args = a :: l → AllF P a := fun e => ha _ (e ▸ List.mem_cons_self ..)
  unfold applyFn at hw
  split at hw
  · exact numAbs_af hP.abs (h0 rfl) hw
  · exact allF_of_noFloat _ (numAvg_result_noFloat hw)
  · exact numCeil_af hP.ceil (h0 rfl) hw
  · exact allF_of_noFloat _ (contains_nf hw)
  · exact allF_of_noFloat _ (endsWith_nf hw)
  · exact allF_of_noFloat _ (findFirst_nf hw)
  · exact allF_of_noFloat _ (findBetween_nf hw)
  · exact allF_of_noFloat _ (findFrom_nf hw)
  · exact allF_of_noFloat _ (findLast_nf hw)
  · exact allF_of_noFloat _ (findBetween_nf hw)
  · exact allF_of_noFloat _ (findFrom_nf hw)
  · exact numFloor_af hP.floor (h0 rfl) hw
  · exact fromItems_af (h0 rfl) hw
  · exact items_af (h0 rfl) hw
  · exact allF_of_noFloat _ (join_nf hw)
  · exact allF_of_noFloat _ (keys_nf hw)
  · exact allF_of_noFloat _ (length_nf hw)
  · exact allF_of_noFloat _ (lower_nf hw)
  · exact allF_of_noFloat _ (arrayMax_result_noFloat hw)
  · exact allF_of_noFloat _ (arrayMin_result_noFloat hw)
  · exact padLeft_af (h0 rfl) hw
  · exact padRight_af (h0 rfl) hw
  · exact padSpaceLeft_af (h0 rfl) hw
  · exact padSpaceRight_af (h0 rfl) hw
  · exact allF_of_noFloat _ (replace_nf hw)
  · exact allF_of_noFloat _ (replaceCount_nf hw)
  · exact reverse_af (h0 rfl) hw
  · exact sortArray_af (h0 rfl) hw
  · exact allF_of_noFloat _ (split_nf hw)
  · exact allF_of_noFloat _ (splitCount_nf hw)
  · exact allF_of_noFloat _ (startsWith_nf hw)
  · exact allF_of_noFloat _ (numSum_result_noFloat hw)
  · cases hw; exact toArray_af (h0 rfl)
  · cases hw; exact toNumber_af (h0 rfl)
  · exact allF_of_noFloat _ (toStringV_nf hw)
  · exact allF_of_noFloat _ (trim_nf hw)
  · exact allF_of_noFloat _ (trimLeft_nf hw)
  · exact allF_of_noFloat _ (trimRight_nf hw)
  · exact allF_of_noFloat _ (trimSpace_nf hw)
  · exact allF_of_noFloat _ (trimSpaceLeft_nf hw)
  · exact allF_of_noFloat _ (trimSpaceRight_nf hw)
  · exact allF_of_noFloat _ (typeName_nf hw)
  · exact allF_of_noFloat _ (upper_nf hw)
  · exact values_af (h0 rfl) hw
  · simp at hw

end

-- `abs` of the float -7 (an integer < 2^3) is a float holding an integer < 2^3
example : ∀ w, applyFn .abs [.num (.f64 (F64.mk true 7 0))] = .ok w → AllF (IntF 3) w :=
  fun _ h => applyFn_af (unClosed_intF 3) (by simp; exact ⟨true, 7, by decide, rfl⟩) h

end C14C
end Jmes
