/-
  C11 (third wave), helper file F1: the string builtins commute with a renaming, for ARBITRARY argument values
  (a non-string where a string is expected gives the same error in both runs; integer arguments are read through
  `intArg`/`toInt`, which the renaming does not touch).

  All statements are phrased with the logical relation `RRV f` of `C11CLemmas`.
-/
import Jmes.Proofs.C11CLemmas
namespace Jmes.C11C
open Jmes Jmes.Utf8 Jmes.C11 Jmes.C11S Jmes.C11R Jmes.C11V Jmes.Invar
set_option linter.unusedVariables false

/-! ## argument readers -/

/-- reading a string argument: a non-string is `invalid-type` in both runs -/
theorem sfn_strArg_rr {f : Nat → Nat} {a : Val} (ha : RnV f a = true) :
    RR (fun s => rnB f s = true) (renB f) (strArg a) (strArg (renV f a)) := by
  cases a with
  | str s => rw [renV_str]; exact RR.ok (rn_str.mp ha)
  | _ => simp only [renV]; exact RR.errType

theorem sfn_rr_refl {α} (r : Res α) : RR (fun _ : α => True) id r r :=
  ⟨by cases r <;> rfl, fun _ _ => trivial⟩

/-- reading an integer argument: untouched by the renaming -/
theorem sfn_intArg_rr (f : Nat → Nat) (c : Val) : RR (fun _ : Int => True) id (intArg c) (intArg (renV f c)) := by
  rw [intArg_ren]; exact sfn_rr_refl _

/-! ## shapes of results -/

/-- a result without strings -/
theorem sfn_ok_plain {f : Nat → Nat} {v : Val} (h1 : RnV f v = true) (h2 : renV f v = v) : RRV f (.ok v) (.ok v) := by
  have := RR.ok (g := renV f) (P := fun v => RnV f v = true) h1
  rwa [h2] at this

theorem sfn_ok_bool {f : Nat → Nat} {b b' : Bool} (e : b' = b) : RRV f (.ok (.bool b)) (.ok (.bool b')) := by
  subst e; exact sfn_ok_plain rfl (renV_bool f _)

theorem sfn_ok_null {f : Nat → Nat} : RRV f (.ok .null) (.ok .null) := sfn_ok_plain rfl (renV_null f)

theorem sfn_ok_num {f : Nat → Nat} {n : Num} : RRV f (.ok (.num n)) (.ok (.num n)) := sfn_ok_plain rfl (renV_num f n)

/-- both runs give the same outcome, which is null or a number -/
theorem sfn_plain {f : Nat → Nat} {r r' : Res Val} (e : r' = r)
    (h : ∀ v, r = .ok v → RnV f v = true ∧ renV f v = v) : RRV f r r' := by
  subst e; exact RR.same h

/-- a string result, given by its code points -/
theorem sfn_ok_str {f : Nat → Nat} {cs : List Nat} (h : Scalars cs) (h' : Scalars (cs.map f)) :
    RRV f (.ok (.str (encodeAll cs))) (.ok (.str (encodeAll (cs.map f)))) := by
  have := RR.ok (g := renV f) (P := fun v => RnV f v = true) (a := .str (encodeAll cs)) (rn_str.mpr (rnB_enc h h'))
  rwa [renV_str, renB_encodeAll f cs h] at this

/-- a string result equal to one of the (renamable) inputs -/
theorem sfn_ok_strB {f : Nat → Nat} {s : Bytes} (h : rnB f s = true) :
    RRV f (.ok (.str s)) (.ok (.str (renB f s))) := by
  have := RR.ok (g := renV f) (P := fun v => RnV f v = true) (a := .str s) (rn_str.mpr h)
  rwa [renV_str] at this

/-- an array-of-strings result, given by the code points of its elements -/
theorem sfn_ok_strs {f : Nat → Nat} {l : List (List Nat)} (h : ∀ o ∈ l, Scalars o)
    (h' : ∀ o ∈ l, Scalars (o.map f)) :
    RRV f (.ok (strsToArr (l.map encodeAll))) (.ok (strsToArr ((l.map (List.map f)).map encodeAll))) := by
  have hr : RnV f (strsToArr (l.map encodeAll)) = true := by
    apply rn_strsToArr
    intro s hs
    obtain ⟨o, ho, rfl⟩ := List.mem_map.1 hs
    exact rnB_enc (h o ho) (h' o ho)
  have := RR.ok (g := renV f) (P := fun v => RnV f v = true) hr
  rwa [renV_strsToArr, map_renB_encodeAll f l h] at this

/-- the pieces of the renamed list are the renamed pieces: scalar values again -/
theorem sfn_scalars_of_map {f : Nat → Nat} {l l' : List (List Nat)} (e : l' = l.map (List.map f))
    (h : ∀ o ∈ l', Scalars o) : ∀ o ∈ l, Scalars (o.map f) := by
  intro o ho
  exact h _ (e ▸ List.mem_map.2 ⟨o, ho, rfl⟩)

/-! ## `starts_with`, `ends_with` -/

theorem startsWith_rr {f : Nat → Nat} (hm : Mono f) {a b : Val} (ha : RnV f a = true) (hb : RnV f b = true) :
    RRV f (startsWith a b) (startsWith (renV f a) (renV f b)) := by
  unfold startsWith
  refine RR.bind (sfn_strArg_rr ha) fun s hs => RR.bind (sfn_strArg_rr hb) fun p hp => ?_
  obtain ⟨cs, h1, h2, rfl, e1⟩ := rn_cases hs
  obtain ⟨ps, h3, h4, rfl, e2⟩ := rn_cases hp
  rw [e1, e2]
  refine sfn_ok_bool ?_
  unfold hasPrefix
  rw [isPrefixOf_encodeAll _ _ h4 h2, isPrefixOf_encodeAll _ _ h3 h1, isPrefixOf_map hm.toInj]

theorem endsWith_rr {f : Nat → Nat} (hm : Mono f) {a b : Val} (ha : RnV f a = true) (hb : RnV f b = true) :
    RRV f (endsWith a b) (endsWith (renV f a) (renV f b)) := by
  unfold endsWith
  refine RR.bind (sfn_strArg_rr ha) fun s hs => RR.bind (sfn_strArg_rr hb) fun p hp => ?_
  obtain ⟨cs, h1, h2, rfl, e1⟩ := rn_cases hs
  obtain ⟨ps, h3, h4, rfl, e2⟩ := rn_cases hp
  rw [e1, e2]
  refine sfn_ok_bool ?_
  rw [C11R.hasSuffix_encodeAll _ _ h2 h4, C11R.hasSuffix_encodeAll _ _ h1 h3, hasSuffix_map hm.toInj]

/-! ## `find_first`, `find_last` -/

/-- null or a number: what the `find_*` functions return -/
def sfnPlain (v : Val) : Prop := v = .null ∨ ∃ n, v = .num n

theorem sfn_of_plain {f : Nat → Nat} {v : Val} (h : sfnPlain v) : RnV f v = true ∧ renV f v = v := by
  rcases h with rfl | ⟨n, rfl⟩
  · exact ⟨rfl, renV_null f⟩
  · exact ⟨rfl, renV_num f n⟩

theorem sfn_findFirst_plain (s p : Bytes) (v : Val) (h : findFirst (.str s) (.str p) = .ok v) : sfnPlain v := by
  change (if s.isEmpty || p.isEmpty then Res.ok Val.null else
    match indexOf s p with | none => Res.ok Val.null | some r => Res.ok (runeIndexVal s r)) = _ at h
  split at h
  · cases h; exact .inl rfl
  · split at h <;> cases h
    · exact .inl rfl
    · exact .inr ⟨_, rfl⟩

theorem sfn_findLast_plain (s p : Bytes) (v : Val) (h : findLast (.str s) (.str p) = .ok v) : sfnPlain v := by
  change (if s.isEmpty || p.isEmpty then Res.ok Val.null else
    match lastIndexOf s p with | none => Res.ok Val.null | some r => Res.ok (runeIndexVal s r)) = _ at h
  split at h
  · cases h; exact .inl rfl
  · split at h <;> cases h
    · exact .inl rfl
    · exact .inr ⟨_, rfl⟩

theorem findFirst_rr {f : Nat → Nat} (hm : Mono f) {a b : Val} (ha : RnV f a = true) (hb : RnV f b = true) :
    RRV f (findFirst a b) (findFirst (renV f a) (renV f b)) := by
  unfold findFirst
  refine RR.bind (sfn_strArg_rr ha) fun s hs => RR.bind (sfn_strArg_rr hb) fun p hp => ?_
  obtain ⟨cs, h1, h2, rfl, e1⟩ := rn_cases hs
  obtain ⟨ps, h3, h4, rfl, e2⟩ := rn_cases hp
  rw [e1, e2]
  exact sfn_plain (find_first_rename hm.toInj cs ps h1 h2 h3 h4)
    (fun v hv => sfn_of_plain (sfn_findFirst_plain _ _ v hv))

theorem findLast_rr {f : Nat → Nat} (hm : Mono f) {a b : Val} (ha : RnV f a = true) (hb : RnV f b = true) :
    RRV f (findLast a b) (findLast (renV f a) (renV f b)) := by
  unfold findLast
  refine RR.bind (sfn_strArg_rr ha) fun s hs => RR.bind (sfn_strArg_rr hb) fun p hp => ?_
  obtain ⟨cs, h1, h2, rfl, e1⟩ := rn_cases hs
  obtain ⟨ps, h3, h4, rfl, e2⟩ := rn_cases hp
  rw [e1, e2]
  exact sfn_plain (find_last_rename hm.toInj cs ps h1 h2 h3 h4)
    (fun v hv => sfn_of_plain (sfn_findLast_plain _ _ v hv))

/-! ## `contains` -/

theorem contains_rr {f : Nat → Nat} (hm : Mono f) {a b : Val} (ha : RnV f a = true) (hb : RnV f b = true) :
    RRV f (contains a b) (contains (renV f a) (renV f b)) := by
  cases a with
  | str s =>
    cases b with
    | str p =>
      obtain ⟨cs, h1, h2, rfl, e1⟩ := rn_cases (rn_str.mp ha)
      obtain ⟨ps, h3, h4, rfl, e2⟩ := rn_cases (rn_str.mp hb)
      rw [renV_str, renV_str, e1, e2]
      show RRV f (.ok (.bool (bytesContains _ _))) (.ok (.bool (bytesContains _ _)))
      refine sfn_ok_bool ?_
      rw [C11R.bytesContains_encodeAll _ _ h2 h4, C11R.bytesContains_encodeAll _ _ h1 h3, bytesContains_map hm.toInj]
    | _ => simp only [renV]; exact sfn_ok_bool rfl
  | arr t xs =>
    rw [renV_arr]
    show RRV f (if Val.hasEnum2L xs || b.hasEnum2 then .nondet else .ok (.bool (xs.any (fun xi => equal xi b))))
      (if Val.hasEnum2L (renVL f xs) || (renV f b).hasEnum2 then .nondet
       else .ok (.bool ((renVL f xs).any (fun xi => equal xi (renV f b)))))
    rw [hasEnum2L_ren, hasEnum2_ren]
    split
    · exact RR.nondet
    · exact sfn_ok_bool (any_renVL f _ _ xs (fun x hx => equal_ren hm x b (rnVL_iff.mp (rn_arr.mp ha) x hx) hb))
  | _ => simp only [renV]; exact RR.errType

/-! ## `split` -/

/-- code point level `splitRunes`: one piece per code point, after `k` cuts the remainder is kept whole -/
def sfnCpRunes (cs : List Nat) : Option Nat → List (List Nat)
  | none => cs.map (fun c => [c])
  | some k => if k + 1 ≥ cs.length then cs.map (fun c => [c]) else (cs.take k).map (fun c => [c]) ++ [cs.drop k]

theorem sfn_map_singleton_enc (cs : List Nat) : (cs.map (fun c => [c])).map encodeAll = cs.map encodeRune := by
  rw [List.map_map]; apply List.map_congr_left; intro c _; exact encodeAll_singleton c

theorem sfn_splitRunes_enc (cs : List Nat) (h : Scalars cs) (n : Option Nat) :
    splitRunes (encodeAll cs) n = (sfnCpRunes cs n).map encodeAll := by
  unfold splitRunes sfnCpRunes
  simp only [runePieces_encodeAll cs h]
  cases n with
  | none => exact (sfn_map_singleton_enc cs).symm
  | some k =>
    simp only [List.length_map]
    split
    · exact (sfn_map_singleton_enc cs).symm
    · rw [List.map_append, sfn_map_singleton_enc, ← List.map_take, ← List.map_drop, concat_pieces]; rfl

theorem sfnCpRunes_map (f : Nat → Nat) (cs : List Nat) (n : Option Nat) :
    sfnCpRunes (cs.map f) n = (sfnCpRunes cs n).map (List.map f) := by
  have e : ∀ l : List Nat, (l.map f).map (fun c => [c]) = (l.map (fun c => [c])).map (List.map f) := by
    intro l; rw [List.map_map, List.map_map]; rfl
  cases n with
  | none => exact e cs
  | some k =>
    simp only [sfnCpRunes, List.length_map]
    split
    · exact e cs
    · rw [List.map_append, ← List.map_take, e, ← List.map_drop]; rfl

theorem sfnCpRunes_scalars {cs : List Nat} (h : Scalars cs) (n : Option Nat) : ∀ o ∈ sfnCpRunes cs n, Scalars o := by
  have e : ∀ l : List Nat, (∀ c ∈ l, c ∈ cs) → ∀ o ∈ l.map (fun c => [c]), Scalars o := by
    intro l hl o ho
    obtain ⟨c, hc, rfl⟩ := List.mem_map.1 ho
    exact Scalars.cons (h c (hl c hc)) Scalars.nil
  cases n with
  | none => exact e cs (fun _ hc => hc)
  | some k =>
    simp only [sfnCpRunes]
    split
    · exact e cs (fun _ hc => hc)
    · intro o ho
      rcases List.mem_append.1 ho with ho | ho
      · exact e _ (fun c hc => List.mem_of_mem_take hc) o ho
      · rw [List.mem_singleton.1 ho]; exact h.drop k

/-- splitting into code points -/
theorem sfn_splitRunes_rr {f : Nat → Nat} {s : Bytes} (hs : rnB f s = true) (n : Option Nat) :
    RRV f (.ok (strsToArr (splitRunes s n))) (.ok (strsToArr (splitRunes (renB f s) n))) := by
  obtain ⟨cs, h1, h2, rfl, e1⟩ := rn_cases hs
  rw [e1, sfn_splitRunes_enc _ h1, sfn_splitRunes_enc _ h2, sfnCpRunes_map]
  exact sfn_ok_strs (sfnCpRunes_scalars h1 n)
    (sfn_scalars_of_map (sfnCpRunes_map f cs n) (sfnCpRunes_scalars h2 n))

/-- splitting on a non-empty separator -/
theorem sfn_splitOn_rr {f : Nat → Nat} (hm : Mono f) {s p : Bytes} (hs : rnB f s = true) (hp : rnB f p = true)
    (hne : p.isEmpty = false) (n : Option Nat) :
    RRV f (.ok (strsToArr (splitOn s p n))) (.ok (strsToArr (splitOn (renB f s) (renB f p) n))) := by
  obtain ⟨cs, h1, h2, rfl, e1⟩ := rn_cases hs
  obtain ⟨ps, h3, h4, rfl, e2⟩ := rn_cases hp
  have hps : ps ≠ [] := by rintro rfl; simp [encodeAll_nil] at hne
  rw [e1, e2, splitOn_encodeAll _ _ h1 h3 hps, splitOn_encodeAll _ _ h2 h4 (map_ne_nil hps), splitOn_map hm.toInj]
  exact sfn_ok_strs (splitOn_scalars cs ps h1 n)
    (sfn_scalars_of_map (splitOn_map hm.toInj cs ps n) (splitOn_scalars _ _ h2 n))

theorem sfn_ok_arr_nil {f : Nat → Nat} : RRV f (.ok (.arr .plain [])) (.ok (.arr .plain [])) :=
  sfn_ok_plain rfl (by rw [renV_arr, renVL_nil])

theorem split_rr {f : Nat → Nat} (hm : Mono f) {a b : Val} (ha : RnV f a = true) (hb : RnV f b = true) :
    RRV f (split a b) (split (renV f a) (renV f b)) := by
  unfold split
  refine RR.bind (sfn_strArg_rr ha) fun s hs => RR.bind (sfn_strArg_rr hb) fun p hp => ?_
  rw [renB_isEmpty hs, renB_isEmpty hp]
  by_cases h1 : s.isEmpty = true
  · simp only [h1, if_true]; exact sfn_ok_arr_nil
  · by_cases h2 : p.isEmpty = true
    · simp only [h1, h2, if_true]; exact sfn_splitRunes_rr hs none
    · simp only [h1, h2]; exact sfn_splitOn_rr hm hs hp (by simpa using h2) none

/-! ## `replace` -/

theorem sfn_replace_rr {f : Nat → Nat} (hm : Mono f) {s o n : Bytes} (hs : rnB f s = true) (ho : rnB f o = true)
    (hn : rnB f n = true) (k : Option Nat) :
    RRV f (.ok (.str (stringsReplace s o n k))) (.ok (.str (stringsReplace (renB f s) (renB f o) (renB f n) k))) := by
  obtain ⟨cs, h1, h2, rfl, e1⟩ := rn_cases hs
  obtain ⟨os, h3, h4, rfl, e2⟩ := rn_cases ho
  obtain ⟨ns, h5, h6, rfl, e3⟩ := rn_cases hn
  rw [e1, e2, e3, stringsReplace_encodeAll _ _ _ h1 h3 h5, stringsReplace_encodeAll _ _ _ h2 h4 h6,
    cpReplace_map hm.toInj]
  refine sfn_ok_str (cpReplace_scalars cs os ns h1 h3 h5 k) ?_
  rw [← cpReplace_map hm.toInj]
  exact cpReplace_scalars _ _ _ h2 h4 h6 k

theorem replace_rr {f : Nat → Nat} (hm : Mono f) {a b c : Val} (ha : RnV f a = true) (hb : RnV f b = true)
    (hc : RnV f c = true) : RRV f (replace a b c) (replace (renV f a) (renV f b) (renV f c)) := by
  unfold replace
  refine RR.bind (sfn_strArg_rr ha) fun s hs => RR.bind (sfn_strArg_rr hb) fun o ho =>
    RR.bind (sfn_strArg_rr hc) fun n hn => ?_
  exact sfn_replace_rr hm hs ho hn none

/-! ## `trim`, `trim_left`, `trim_right` with an explicit, non-empty cutset -/

theorem sfn_trimLeftF_rr {f : Nat → Nat} (hm : Mono f) {s p : Bytes} (hs : rnB f s = true) (hp : rnB f p = true) :
    RRV f (.ok (.str (trimLeftF (inCutset p) s))) (.ok (.str (trimLeftF (inCutset (renB f p)) (renB f s)))) := by
  obtain ⟨cs, h1, h2, rfl, e1⟩ := rn_cases hs
  obtain ⟨cut, h3, h4, rfl, e2⟩ := rn_cases hp
  rw [e1, e2, inCutset_eq _ h3, inCutset_eq _ h4, trimLeftF_encodeAll _ _ h1, trimLeftF_encodeAll _ _ h2]
  have e := cpTrimLeft_map hm.toInj cut cs
  unfold cpTrimLeft at e
  rw [e]
  refine sfn_ok_str (scalars_dropWhile _ h1) ?_
  rw [← e]
  exact scalars_dropWhile _ h2

theorem sfn_trimRightF_rr {f : Nat → Nat} (hm : Mono f) {s p : Bytes} (hs : rnB f s = true) (hp : rnB f p = true) :
    RRV f (.ok (.str (trimRightF (inCutset p) s))) (.ok (.str (trimRightF (inCutset (renB f p)) (renB f s)))) := by
  obtain ⟨cs, h1, h2, rfl, e1⟩ := rn_cases hs
  obtain ⟨cut, h3, h4, rfl, e2⟩ := rn_cases hp
  rw [e1, e2, inCutset_eq _ h3, inCutset_eq _ h4, trimRightF_encodeAll _ _ h1, trimRightF_encodeAll _ _ h2]
  have e := cpTrimRight_map hm.toInj cut cs
  unfold cpTrimRight at e
  rw [e]
  refine sfn_ok_str (cpTrimRight_scalars cut h1) ?_
  rw [← e]
  exact cpTrimRight_scalars _ h2

/-- the trimmed string can be renamed again (to chain `trim_left` and `trim_right`) -/
theorem sfn_rnB_of_rr {f : Nat → Nat} {s s' : Bytes} (h : RRV f (.ok (.str s)) (.ok (.str s'))) :
    rnB f s = true ∧ s' = renB f s := by
  have h1 := rn_str.mp (h.inv _ rfl)
  have h2 := h.eq
  rw [mapO_ok, renV_str] at h2
  injection h2 with h2
  injection h2 with h2
  exact ⟨h1, h2⟩

theorem trimLeft_rr {f : Nat → Nat} (hm : Mono f) {a : Val} {p : Bytes} (ha : RnV f a = true) (hp : rnB f p = true)
    (hne : p.isEmpty = false) : RRV f (trimLeft a (.str p)) (trimLeft (renV f a) (renV f (.str p))) := by
  rw [renV_str]
  unfold trimLeft
  refine RR.bind (sfn_strArg_rr ha) fun s hs => ?_
  show RRV f (if p.isEmpty then _ else _) (if (renB f p).isEmpty then _ else _)
  rw [renB_isEmpty hp, hne]
  exact sfn_trimLeftF_rr hm hs hp

theorem trimRight_rr {f : Nat → Nat} (hm : Mono f) {a : Val} {p : Bytes} (ha : RnV f a = true) (hp : rnB f p = true)
    (hne : p.isEmpty = false) : RRV f (trimRight a (.str p)) (trimRight (renV f a) (renV f (.str p))) := by
  rw [renV_str]
  unfold trimRight
  refine RR.bind (sfn_strArg_rr ha) fun s hs => ?_
  show RRV f (if p.isEmpty then _ else _) (if (renB f p).isEmpty then _ else _)
  rw [renB_isEmpty hp, hne]
  exact sfn_trimRightF_rr hm hs hp

theorem trim_rr {f : Nat → Nat} (hm : Mono f) {a : Val} {p : Bytes} (ha : RnV f a = true) (hp : rnB f p = true)
    (hne : p.isEmpty = false) : RRV f (trim a (.str p)) (trim (renV f a) (renV f (.str p))) := by
  rw [renV_str]
  unfold trim
  refine RR.bind (sfn_strArg_rr ha) fun s hs => ?_
  show RRV f (if p.isEmpty then _ else _) (if (renB f p).isEmpty then _ else _)
  rw [renB_isEmpty hp, hne]
  obtain ⟨h1, h2⟩ := sfn_rnB_of_rr (sfn_trimLeftF_rr hm hs hp)
  have := sfn_trimRightF_rr hm h1 hp
  rw [← h2] at this
  exact this

/-! ## concatenation of renamable strings, `join` -/

theorem sfn_rnB_append {f : Nat → Nat} {a b : Bytes} (ha : rnB f a = true) (hb : rnB f b = true) :
    rnB f (a ++ b) = true ∧ renB f (a ++ b) = renB f a ++ renB f b := by
  obtain ⟨as, h1, h2, rfl, e1⟩ := rn_cases ha
  obtain ⟨bs, h3, h4, rfl, e2⟩ := rn_cases hb
  have h5 : Scalars ((as ++ bs).map f) := by rw [List.map_append]; exact h2.append h4
  rw [e1, e2, ← encodeAll_append, ← encodeAll_append, renB_encodeAll f _ (h1.append h3), List.map_append]
  exact ⟨rnB_enc (h1.append h3) h5, rfl⟩

theorem sfn_joinStrs {f : Nat → Nat} {sep : Bytes} (hsep : rnB f sep = true) : ∀ ss : List Bytes,
    (∀ x ∈ ss, rnB f x = true) →
    rnB f (joinStrs sep ss) = true ∧ joinStrs (renB f sep) (ss.map (renB f)) = renB f (joinStrs sep ss)
  | [], _ => ⟨rfl, rfl⟩
  | [s], h => ⟨h s List.mem_cons_self, rfl⟩
  | s :: t :: rest, h => by
    have ih := sfn_joinStrs hsep (t :: rest) (fun x hx => h x (List.mem_cons_of_mem _ hx))
    have h1 := sfn_rnB_append (h s List.mem_cons_self) hsep
    have h2 := sfn_rnB_append h1.1 ih.1
    rw [List.map_cons, List.map_cons, joinStrs_cons_cons, joinStrs_cons_cons, ← List.map_cons, ih.2, h2.2, h1.2]
    exact ⟨h2.1, rfl⟩

theorem join_rr {f : Nat → Nat} (hm : Mono f) {a b : Val} (ha : RnV f a = true) (hb : RnV f b = true) :
    RRV f (join a b) (join (renV f a) (renV f b)) := by
  cases b with
  | arr t xs =>
    cases a with
    | str s =>
      rw [renV_arr, renV_str]
      show RRV f (match allStrings xs with
          | some ss => if enum2 t xs then .nondet else .ok (.str (joinStrs s ss))
          | none => errType)
        (match allStrings (renVL f xs) with
          | some ss => if enum2 t (renVL f xs) then .nondet else .ok (.str (joinStrs (renB f s) ss))
          | none => errType)
      rw [allStrings_ren, enum2_ren]
      cases h : allStrings xs with
      | none => exact RR.errType
      | some ss =>
        simp only [Option.map_some]
        split
        · exact RR.nondet
        · obtain ⟨h1, h2⟩ := sfn_joinStrs (rn_str.mp ha) ss (allStrings_rn (rn_arr.mp hb) h)
          rw [h2]
          exact sfn_ok_strB h1
    | _ => simp only [renV]; exact RR.errType
  | _ => simp only [renV]; exact RR.errType

/-! ## `find_first` / `find_last` with `start` (and `finish`) -/

theorem sfn_findFrom_core {f : Nat → Nat} (hm : Mono f) (last : Bool) {s p : Bytes} (hs : rnB f s = true)
    (hp : rnB f p = true) (i : Int) :
    RRV f (findFrom last (.str s) (.str p) (.num (.int .i64 i)))
      (findFrom last (.str (renB f s)) (.str (renB f p)) (.num (.int .i64 i))) := by
  obtain ⟨cs, h1, h2, rfl, e1⟩ := rn_cases hs
  obtain ⟨ps, h3, h4, rfl, e2⟩ := rn_cases hp
  rw [e1, e2]
  refine sfn_plain (find_from_rename hm.toInj last cs ps h1 h2 h3 h4 i) (fun v hv => sfn_of_plain ?_)
  rw [C11R.find_from_codepoints_any last cs ps h1 h3 i] at hv
  split at hv <;> cases hv
  · exact .inl rfl
  · exact .inr ⟨_, rfl⟩

theorem findFrom_rr {f : Nat → Nat} (hm : Mono f) (last : Bool) {a b c : Val} (ha : RnV f a = true)
    (hb : RnV f b = true) (hc : RnV f c = true) :
    RRV f (findFrom last a b c) (findFrom last (renV f a) (renV f b) (renV f c)) := by
  unfold findFrom
  refine RR.bind (sfn_strArg_rr ha) fun s hs => RR.bind (sfn_strArg_rr hb) fun p hp =>
    RR.bind (sfn_intArg_rr f c) fun i _ => ?_
  exact sfn_findFrom_core hm last hs hp i

theorem sfn_findBetween_core {f : Nat → Nat} (hm : Mono f) (last : Bool) {s p : Bytes} (hs : rnB f s = true)
    (hp : rnB f p = true) (i j : Int) :
    RRV f (findBetween last (.str s) (.str p) (.num (.int .i64 i)) (.num (.int .i64 j)))
      (findBetween last (.str (renB f s)) (.str (renB f p)) (.num (.int .i64 i)) (.num (.int .i64 j))) := by
  obtain ⟨cs, h1, h2, rfl, e1⟩ := rn_cases hs
  obtain ⟨ps, h3, h4, rfl, e2⟩ := rn_cases hp
  rw [e1, e2]
  refine sfn_plain (find_between_rename hm.toInj last cs ps h1 h2 h3 h4 i j) (fun v hv => sfn_of_plain ?_)
  rw [C11R.find_between_codepoints_any last cs ps h1 h3 i j] at hv
  split at hv <;> cases hv
  · exact .inl rfl
  · exact .inr ⟨_, rfl⟩

theorem findBetween_rr {f : Nat → Nat} (hm : Mono f) (last : Bool) {a b c d : Val} (ha : RnV f a = true)
    (hb : RnV f b = true) (hc : RnV f c = true) (hd : RnV f d = true) :
    RRV f (findBetween last a b c d) (findBetween last (renV f a) (renV f b) (renV f c) (renV f d)) := by
  unfold findBetween
  refine RR.bind (sfn_strArg_rr ha) fun s hs => RR.bind (sfn_strArg_rr hb) fun p hp =>
    RR.bind (?_ : RR (fun _ : Int => True) id _ _) fun i _ => RR.bind (sfn_intArg_rr f d) fun j _ => ?_
  · rw [toInt_ren, toInt_ren, toDecimal_ren]; exact sfn_rr_refl _
  · exact sfn_findBetween_core hm last hs hp i j

/-! ## `split` and `replace` with a count -/

theorem sfn_ok_arr1 {f : Nat → Nat} {s : Bytes} (hs : rnB f s = true) :
    RRV f (.ok (.arr .plain [.str s])) (.ok (.arr .plain [.str (renB f s)])) := by
  have hr : RnV f (.arr .plain [.str s]) = true := rn_arr.mpr (rnVL_cons.mpr ⟨rn_str.mpr hs, rfl⟩)
  have := RR.ok (g := renV f) (P := fun v => RnV f v = true) hr
  rwa [renV_arr, renVL_cons, renV_str, renVL_nil] at this

theorem splitCount_rr {f : Nat → Nat} (hm : Mono f) {a b c : Val} (ha : RnV f a = true) (hb : RnV f b = true)
    (hc : RnV f c = true) : RRV f (splitCount a b c) (splitCount (renV f a) (renV f b) (renV f c)) := by
  unfold splitCount
  refine RR.bind (sfn_strArg_rr ha) fun s hs => RR.bind (sfn_strArg_rr hb) fun p hp =>
    RR.bind (sfn_intArg_rr f c) fun n _ => ?_
  simp only [id_eq]
  rw [renB_isEmpty hs, renB_isEmpty hp]
  by_cases h0 : n < 0
  · simp only [h0, if_true]; exact RR.errValue
  · by_cases h00 : n = 0
    · simp only [h00, if_true]; exact sfn_ok_arr1 hs
    · by_cases h1 : s.isEmpty = true
      · simp only [h0, h00, h1, if_true, if_false]; exact sfn_ok_arr_nil
      · by_cases h2 : p.isEmpty = true
        · simp only [h0, h00, h1, h2, if_true, if_false]; exact sfn_splitRunes_rr hs _
        · simp only [h0, h00, h1, h2, if_false]; exact sfn_splitOn_rr hm hs hp (by simpa using h2) _

theorem replaceCount_rr {f : Nat → Nat} (hm : Mono f) {a b c d : Val} (ha : RnV f a = true) (hb : RnV f b = true)
    (hc : RnV f c = true) (hd : RnV f d = true) :
    RRV f (replaceCount a b c d) (replaceCount (renV f a) (renV f b) (renV f c) (renV f d)) := by
  unfold replaceCount
  refine RR.bind (sfn_strArg_rr ha) fun s hs => RR.bind (sfn_strArg_rr hb) fun o ho =>
    RR.bind (sfn_strArg_rr hc) fun n hn => RR.bind (sfn_intArg_rr f d) fun k _ => ?_
  simp only [id_eq]
  split
  · exact RR.errValue
  · exact sfn_replace_rr hm hs ho hn _

/-! ## `pad_left`, `pad_right` with an explicit pad string -/

/-- every branch of `padWith`: negative width and a pad string that is not one code point (`invalid-value`),
    nothing to add, beyond `padLimit` (`.unmodelled` in both runs), and the padded string -/
theorem sfn_padWith_rr {f : Nat → Nat} (left : Bool) {s p : Bytes} (hs : rnB f s = true) (hp : rnB f p = true)
    (w : Int) :
    RRV f (padWith left s w p (.str s)) (padWith left (renB f s) w (renB f p) (.str (renB f s))) := by
  obtain ⟨cs, h1, h2, rfl, e1⟩ := rn_cases hs
  obtain ⟨ps, h3, h4, rfl, e2⟩ := rn_cases hp
  rw [e1, e2]
  by_cases hw : w < 0
  · rw [pad_negative_width left _ w hw, pad_negative_width left _ w hw]; exact RR.errValue
  · by_cases hl : ps.length = 1
    · match ps, hl, h3, h4 with
      | [q], _, h3, h4 =>
        have hq : isScalar q = true := h3.head
        have hq' : isScalar (f q) = true := h4.head
        rw [List.map_cons, List.map_nil, encodeAll_singleton, encodeAll_singleton]
        by_cases hlim : w - cs.length ≤ padLimit
        · rw [pad_codepoints left cs h1 q hq w (by omega) hlim,
            pad_codepoints left _ h2 (f q) hq' w (by omega) (by rw [List.length_map]; exact hlim), List.length_map]
          split
          · exact sfn_ok_str h1 h2
          · rw [padded_map]
            refine sfn_ok_str (padded_scalars left cs w q h1 hq) ?_
            rw [← padded_map]
            exact padded_scalars left _ w (f q) h2 hq'
        · rw [Jmes.C11B.pad_unmodelled_above_limit left cs h1 q hq w (by omega),
            Jmes.C11B.pad_unmodelled_above_limit left _ h2 (f q) hq' w (by rw [List.length_map]; omega)]
          exact RR.unmodelled _
    · rw [pad_string_not_one_codepoint left _ w ps h3 hl,
        pad_string_not_one_codepoint left _ w _ h4 (by rw [List.length_map]; exact hl)]
      exact RR.errValue

theorem padLeft_rr {f : Nat → Nat} (hm : Mono f) {a b c : Val} (ha : RnV f a = true) (hb : RnV f b = true)
    (hc : RnV f c = true) : RRV f (padLeft a b c) (padLeft (renV f a) (renV f b) (renV f c)) := by
  cases a with
  | str s =>
    rw [renV_str]
    show RRV f (strArg c >>= fun p => intArg b >>= fun w => padWith true s w p (.str s))
      (strArg (renV f c) >>= fun p => intArg (renV f b) >>= fun w => padWith true (renB f s) w p (.str (renB f s)))
    refine RR.bind (sfn_strArg_rr hc) fun p hp => RR.bind (sfn_intArg_rr f b) fun w _ => ?_
    exact sfn_padWith_rr true (rn_str.mp ha) hp w
  | _ => simp only [renV]; exact RR.errType

theorem padRight_rr {f : Nat → Nat} (hm : Mono f) {a b c : Val} (ha : RnV f a = true) (hb : RnV f b = true)
    (hc : RnV f c = true) : RRV f (padRight a b c) (padRight (renV f a) (renV f b) (renV f c)) := by
  cases a with
  | str s =>
    rw [renV_str]
    show RRV f (strArg c >>= fun p => intArg b >>= fun w => padWith false s w p (.str s))
      (strArg (renV f c) >>= fun p => intArg (renV f b) >>= fun w => padWith false (renB f s) w p (.str (renB f s)))
    refine RR.bind (sfn_strArg_rr hc) fun p hp => RR.bind (sfn_intArg_rr f b) fun w _ => ?_
    exact sfn_padWith_rr false (rn_str.mp ha) hp w
  | _ => simp only [renV]; exact RR.errType

/-! ## examples (Latin → Greek / Cyrillic, `shift c = c + 0x350`) -/

/-- a non-string subject: `invalid-type` in both runs -/
example : RRV shift (startsWith (.num (.int .i64 1)) (.str [0x68]))
    (startsWith (renV shift (.num (.int .i64 1))) (renV shift (.str [0x68]))) :=
  startsWith_rr shift_mono rfl (by decide)

/-- starts_with("θй", "θ") is starts_with("hé", "h") = true -/
example : startsWith (renV shift (.str [0x68, 0xC3, 0xA9])) (renV shift (.str [0x68])) = .ok (.bool true) :=
  (startsWith_rr shift_mono (a := .str [0x68, 0xC3, 0xA9]) (b := .str [0x68]) (by decide) (by decide)).eq

/-- find_last("θйμμο", "μ", `1`) = 3, the start given as a JSON number -/
example : findFrom true (renV shift (.str [0x68, 0xC3, 0xA9, 0x6C, 0x6C, 0x6F])) (renV shift (.str [0x6C]))
    (renV shift (.num (.jnum [0x31]))) = .ok (.num (.int .i64 3)) :=
  (findFrom_rr shift_mono true (a := .str [0x68, 0xC3, 0xA9, 0x6C, 0x6C, 0x6F]) (b := .str [0x6C])
    (c := .num (.jnum [0x31])) (by decide) (by decide) rfl).eq

/-- contains(["h", "é"], "é") on renamed data -/
example : contains (renV shift (.arr .plain [.str [0x68], .str [0xC3, 0xA9]])) (renV shift (.str [0xC3, 0xA9]))
    = .ok (.bool true) :=
  (contains_rr shift_mono (a := .arr .plain [.str [0x68], .str [0xC3, 0xA9]]) (b := .str [0xC3, 0xA9])
    (by decide) (by decide)).eq

/-- split("θйμμο", "μ") is the renamed split("héllo", "l") = ["hé", "", "o"] -/
example : split (renV shift (.str [0x68, 0xC3, 0xA9, 0x6C, 0x6C, 0x6F])) (renV shift (.str [0x6C]))
    = .ok (renV shift (.arr .plain [.str [0x68, 0xC3, 0xA9], .str [], .str [0x6F]])) :=
  (split_rr shift_mono (a := .str [0x68, 0xC3, 0xA9, 0x6C, 0x6C, 0x6F]) (b := .str [0x6C])
    (by decide) (by decide)).eq

/-- join("l", ["h", "é"]) = "hlé", renamed -/
example : join (renV shift (.str [0x6C])) (renV shift (.arr .plain [.str [0x68], .str [0xC3, 0xA9]]))
    = .ok (renV shift (.str [0x68, 0x6C, 0xC3, 0xA9])) :=
  (join_rr shift_mono (a := .str [0x6C]) (b := .arr .plain [.str [0x68], .str [0xC3, 0xA9]])
    (by decide) (by decide)).eq

/-- pad_left("hé", `4`, "é") = "ééhé", renamed; a two-code-point pad string is `invalid-value` in both runs -/
example : padLeft (renV shift (.str [0x68, 0xC3, 0xA9])) (renV shift (.num (.jnum [0x34])))
    (renV shift (.str [0xC3, 0xA9])) = .ok (renV shift (.str [0xC3, 0xA9, 0xC3, 0xA9, 0x68, 0xC3, 0xA9])) :=
  (padLeft_rr shift_mono (a := .str [0x68, 0xC3, 0xA9]) (b := .num (.jnum [0x34])) (c := .str [0xC3, 0xA9])
    (by decide) rfl (by decide)).eq
example : padRight (renV shift (.str [0x68])) (renV shift (.num (.int .i64 4))) (renV shift (.str [0x68, 0x68]))
    = errValue :=
  (padRight_rr shift_mono (a := .str [0x68]) (b := .num (.int .i64 4)) (c := .str [0x68, 0x68])
    (by decide) rfl (by decide)).eq

/-- trim("θйμμο", "οθ") = renamed trim("héllo", "oh") = "éll" -/
example : trim (renV shift (.str [0x68, 0xC3, 0xA9, 0x6C, 0x6C, 0x6F])) (renV shift (.str [0x6F, 0x68]))
    = .ok (renV shift (.str [0xC3, 0xA9, 0x6C, 0x6C])) :=
  (trim_rr shift_mono (a := .str [0x68, 0xC3, 0xA9, 0x6C, 0x6C, 0x6F]) (p := [0x6F, 0x68])
    (by decide) (by decide) rfl).eq

/-- replace(s, old, new, -1): a negative count is `invalid-value` in both runs -/
example : replaceCount (renV shift (.str [0x68, 0xC3, 0xA9, 0x6C, 0x6C, 0x6F])) (renV shift (.str [0x6C]))
    (renV shift (.str [0xC3, 0xA9])) (renV shift (.num (.int .i64 (-1)))) = errValue :=
  (replaceCount_rr shift_mono (a := .str [0x68, 0xC3, 0xA9, 0x6C, 0x6C, 0x6F]) (b := .str [0x6C])
    (c := .str [0xC3, 0xA9]) (d := .num (.int .i64 (-1))) (by decide) (by decide) (by decide) rfl).eq


end Jmes.C11C
