/-
  Helper lemmas for property C14 (second round): the builtins.  Every eager builtin except `to_string`, `sum`,
  `avg`, `sort` (and, when floats are present, `abs`, `ceil`, `floor`) maps related arguments to related outcomes.
-/
import Jmes.Proofs.C14BLemmasNum
namespace Jmes
namespace C14B
open C14

section
variable {nf : Bool}

theorem RR.refl_eq {α : Type} (r : Res α) : RR (fun a b : α => a = b) r r := by
  cases r <;> simp [RR]

theorem vr_strsToArr (ss : List Bytes) : VR nf (strsToArr ss) (strsToArr ss) := by
  unfold strsToArr; exact vr_arr (vrl_strs ss)

theorem vr_runeIndexVal (s : Bytes) (n : Nat) : VR nf (runeIndexVal s n) (runeIndexVal s n) := by
  unfold runeIndexVal; exact vr_int _ _

theorem vr_strVal (s : String) : VR nf (strVal s) (strVal s) := by unfold strVal; exact vr_str _

/-! ## string builtins: the outcome is a function of the string and integer readings of the arguments -/

set_option hygiene false in
/-- peel binds / matches off a hypothesis `hw : … = .ok w` and close the leaves `VR nf w w` -/
macro "sr_leaves" : tactic => `(tactic|
  (repeat' (first
     | (simp only [Res.bind_eq_ok, Res.pure_eq] at hw)
     | (obtain ⟨_, _, hw⟩ := hw)
     | (split at hw))
   all_goals (first
     | (simp [errType, errValue] at hw; done)
     | ((try simp only [Res.ok.injEq] at hw); (try subst hw);
        first | exact vr_null | exact vr_bool _ | exact vr_str _ | exact vr_int _ _ | exact vr_strsToArr _ | exact vr_runeIndexVal _ _ | exact vr_strVal _ | exact vr_arr vrl_nil | exact vr_arr (vrl_cons (vr_str _) vrl_nil) | assumption))))

theorem startsWith_rr {a a' b b' : Val} (ha : VR nf a a') (hb : VR nf b b') :
    RR (VR nf) (startsWith a b) (startsWith a' b') := by
  refine RR.of_eq (by simp only [startsWith, strArg_vr ha, strArg_vr hb]) (fun w hw => ?_)
  unfold startsWith at hw; sr_leaves

theorem endsWith_rr {a a' b b' : Val} (ha : VR nf a a') (hb : VR nf b b') :
    RR (VR nf) (endsWith a b) (endsWith a' b') := by
  refine RR.of_eq (by simp only [endsWith, strArg_vr ha, strArg_vr hb]) (fun w hw => ?_)
  unfold endsWith at hw; sr_leaves

theorem findFirst_rr {a a' b b' : Val} (ha : VR nf a a') (hb : VR nf b b') :
    RR (VR nf) (findFirst a b) (findFirst a' b') := by
  refine RR.of_eq (by simp only [findFirst, strArg_vr ha, strArg_vr hb]) (fun w hw => ?_)
  unfold findFirst at hw; sr_leaves

theorem findLast_rr {a a' b b' : Val} (ha : VR nf a a') (hb : VR nf b b') :
    RR (VR nf) (findLast a b) (findLast a' b') := by
  refine RR.of_eq (by simp only [findLast, strArg_vr ha, strArg_vr hb]) (fun w hw => ?_)
  unfold findLast at hw; sr_leaves

theorem findFrom_rr (l : Bool) {a a' b b' c c' : Val} (ha : VR nf a a') (hb : VR nf b b') (hc : VR nf c c') :
    RR (VR nf) (findFrom l a b c) (findFrom l a' b' c') := by
  refine RR.of_eq (by simp only [findFrom, strArg_vr ha, strArg_vr hb, intArg_vr hc]) (fun w hw => ?_)
  unfold findFrom at hw; sr_leaves

theorem toDecimal_isNone_vr {x x' : Val} (h : VR nf x x') :
    (match toDecimal x with | none => (errType : Res Int) | some _ => errValue) =
    (match toDecimal x' with | none => (errType : Res Int) | some _ => errValue) := by
  rcases toDecimal_vr h with ⟨e1, e2⟩ | ⟨d, d', e1, e2, _⟩ <;> simp only [e1, e2]

theorem findBetween_rr (l : Bool) {a a' b b' c c' d d' : Val} (ha : VR nf a a') (hb : VR nf b b') (hc : VR nf c c')
    (hd : VR nf d d') : RR (VR nf) (findBetween l a b c d) (findBetween l a' b' c' d') := by
  refine RR.of_eq ?_ (fun w hw => ?_)
  · simp only [findBetween, strArg_vr ha, strArg_vr hb, intArg_vr hd, toInt_vr hc, toInt_vr hd]
    rcases toDecimal_vr hc with ⟨e1, e2⟩ | ⟨x, x', e1, e2, _⟩ <;> simp only [e1, e2]
  · unfold findBetween at hw; sr_leaves

theorem replace_rr {a a' b b' c c' : Val} (ha : VR nf a a') (hb : VR nf b b') (hc : VR nf c c') :
    RR (VR nf) (replace a b c) (replace a' b' c') := by
  refine RR.of_eq (by simp only [replace, strArg_vr ha, strArg_vr hb, strArg_vr hc]) (fun w hw => ?_)
  unfold replace at hw; sr_leaves

theorem replaceCount_rr {a a' b b' c c' d d' : Val} (ha : VR nf a a') (hb : VR nf b b') (hc : VR nf c c')
    (hd : VR nf d d') : RR (VR nf) (replaceCount a b c d) (replaceCount a' b' c' d') := by
  refine RR.of_eq (by simp only [replaceCount, strArg_vr ha, strArg_vr hb, strArg_vr hc, intArg_vr hd]) (fun w hw => ?_)
  unfold replaceCount at hw; sr_leaves

theorem split_rr {a a' b b' : Val} (ha : VR nf a a') (hb : VR nf b b') :
    RR (VR nf) (split a b) (split a' b') := by
  refine RR.of_eq (by simp only [split, strArg_vr ha, strArg_vr hb]) (fun w hw => ?_)
  unfold split at hw; sr_leaves

theorem splitCount_rr {a a' b b' c c' : Val} (ha : VR nf a a') (hb : VR nf b b') (hc : VR nf c c') :
    RR (VR nf) (splitCount a b c) (splitCount a' b' c') := by
  refine RR.of_eq (by simp only [splitCount, strArg_vr ha, strArg_vr hb, intArg_vr hc]) (fun w hw => ?_)
  unfold splitCount at hw; sr_leaves

theorem trim_rr {a a' b b' : Val} (ha : VR nf a a') (hb : VR nf b b') : RR (VR nf) (trim a b) (trim a' b') := by
  refine RR.of_eq (by simp only [trim, strArg_vr ha, strArg_vr hb]) (fun w hw => ?_)
  unfold trim at hw; sr_leaves

theorem trimLeft_rr {a a' b b' : Val} (ha : VR nf a a') (hb : VR nf b b') :
    RR (VR nf) (trimLeft a b) (trimLeft a' b') := by
  refine RR.of_eq (by simp only [trimLeft, strArg_vr ha, strArg_vr hb]) (fun w hw => ?_)
  unfold trimLeft at hw; sr_leaves

theorem trimRight_rr {a a' b b' : Val} (ha : VR nf a a') (hb : VR nf b b') :
    RR (VR nf) (trimRight a b) (trimRight a' b') := by
  refine RR.of_eq (by simp only [trimRight, strArg_vr ha, strArg_vr hb]) (fun w hw => ?_)
  unfold trimRight at hw; sr_leaves

theorem trimSpace_rr {a a' : Val} (ha : VR nf a a') : RR (VR nf) (trimSpace a) (trimSpace a') := by
  refine RR.of_eq (by simp only [trimSpace, strArg_vr ha]) (fun w hw => ?_)
  unfold trimSpace at hw; sr_leaves

theorem trimSpaceLeft_rr {a a' : Val} (ha : VR nf a a') : RR (VR nf) (trimSpaceLeft a) (trimSpaceLeft a') := by
  refine RR.of_eq (by simp only [trimSpaceLeft, strArg_vr ha]) (fun w hw => ?_)
  unfold trimSpaceLeft at hw; sr_leaves

theorem trimSpaceRight_rr {a a' : Val} (ha : VR nf a a') : RR (VR nf) (trimSpaceRight a) (trimSpaceRight a') := by
  refine RR.of_eq (by simp only [trimSpaceRight, strArg_vr ha]) (fun w hw => ?_)
  unfold trimSpaceRight at hw; sr_leaves

theorem caseMap_self (f : Nat → Option Nat) (s : Bytes) : RR (VR nf) (caseMap f s) (caseMap f s) := by
  refine RR.of_eq rfl (fun w hw => ?_)
  unfold caseMap at hw; sr_leaves

theorem lower_rr {a a' : Val} (ha : VR nf a a') : RR (VR nf) (lower a) (lower a') := by
  cases a <;> cases a' <;> simp only [VR] at ha <;> try (simp only [lower]; exact rr_errType)
  subst ha; exact caseMap_self _ _

theorem upper_rr {a a' : Val} (ha : VR nf a a') : RR (VR nf) (upper a) (upper a') := by
  cases a <;> cases a' <;> simp only [VR] at ha <;> try (simp only [upper]; exact rr_errType)
  subst ha; exact caseMap_self _ _

theorem padWith_rr (l : Bool) (s : Bytes) (w : Int) (p : Bytes) {o o' : Val} (ho : VR nf o o') :
    RR (VR nf) (padWith l s w p o) (padWith l s w p o') := by
  unfold padWith
  split
  · exact rr_errValue
  · split
    · exact rr_errValue
    · simp only []
      split
      · exact RR.ok' ho
      · split
        · simp [RR]
        · exact RR.ok' (vr_str _)

theorem padLeft_rr {a a' b b' c c' : Val} (ha : VR nf a a') (hb : VR nf b b') (hc : VR nf c c') :
    RR (VR nf) (padLeft a b c) (padLeft a' b' c') := by
  simp only [padLeft, strArg_vr ha, strArg_vr hc, intArg_vr hb]
  refine RR.bind (RR.refl_eq _) (fun s s' hs => RR.bind (RR.refl_eq _) (fun p p' hp => RR.bind (RR.refl_eq _) (fun w w' hw => ?_)))
  subst hs; subst hp; subst hw
  exact padWith_rr _ _ _ _ ha

theorem padRight_rr {a a' b b' c c' : Val} (ha : VR nf a a') (hb : VR nf b b') (hc : VR nf c c') :
    RR (VR nf) (padRight a b c) (padRight a' b' c') := by
  simp only [padRight, strArg_vr ha, strArg_vr hc, intArg_vr hb]
  refine RR.bind (RR.refl_eq _) (fun s s' hs => RR.bind (RR.refl_eq _) (fun p p' hp => RR.bind (RR.refl_eq _) (fun w w' hw => ?_)))
  subst hs; subst hp; subst hw
  exact padWith_rr _ _ _ _ ha

theorem padSpaceLeft_rr {a a' b b' : Val} (ha : VR nf a a') (hb : VR nf b b') :
    RR (VR nf) (padSpaceLeft a b) (padSpaceLeft a' b') := by
  simp only [padSpaceLeft, strArg_vr ha, intArg_vr hb]
  refine RR.bind (RR.refl_eq _) (fun s s' hs => RR.bind (RR.refl_eq _) (fun w w' hw => ?_))
  subst hs; subst hw
  exact padWith_rr _ _ _ _ ha

theorem padSpaceRight_rr {a a' b b' : Val} (ha : VR nf a a') (hb : VR nf b b') :
    RR (VR nf) (padSpaceRight a b) (padSpaceRight a' b') := by
  simp only [padSpaceRight, strArg_vr ha, intArg_vr hb]
  refine RR.bind (RR.refl_eq _) (fun s s' hs => RR.bind (RR.refl_eq _) (fun w w' hw => ?_))
  subst hs; subst hw
  exact padWith_rr _ _ _ _ ha

/-! ## structural builtins -/

theorem length_rr {a a' : Val} (h : VR nf a a') : RR (VR nf) (length a) (length a') := by
  cases a <;> cases a' <;> simp only [VR] at h <;> try (simp only [length]; exact rr_errType)
  · subst h; exact RR.ok' (vr_int _ _)
  · simp only [length, vrl_length h.2]; exact RR.ok' (vr_int _ _)
  · simp only [length, vrf_length h]; exact RR.ok' (vr_int _ _)

theorem reverse_rr {a a' : Val} (h : VR nf a a') : RR (VR nf) (reverse a) (reverse a') := by
  cases a <;> cases a' <;> simp only [VR] at h <;> try (simp only [reverse]; exact rr_errType)
  · subst h; exact RR.ok' (vr_str _)
  · obtain ⟨rfl, h⟩ := h
    exact RR.ok' (vr_arr (vrl_reverse h))

theorem toArray_vr {a a' : Val} (h : VR nf a a') : VR nf (toArray a) (toArray a') := by
  cases a <;> cases a' <;> simp only [VR] at h <;> simp only [toArray]
  · exact vr_arr (vrl_cons vr_null vrl_nil)
  · exact vr_arr (vrl_cons (by simp only [VR]; exact h) vrl_nil)
  · exact vr_arr (vrl_cons (by simp only [VR]; exact h) vrl_nil)
  · exact vr_arr (vrl_cons (by simp only [VR]; exact h) vrl_nil)
  · simp only [VR]; exact h
  · exact vr_arr (vrl_cons (by simp only [VR]; exact h) vrl_nil)
  · exact vr_arr (vrl_cons (by simp only [VR]; exact h) vrl_nil)

theorem typeName_rr {a a' : Val} (h : VR nf a a') : RR (VR nf) (typeName a) (typeName a') := by
  refine RR.of_eq (typeName_congr (vr_equiv _ _ h)) (fun w hw => ?_)
  unfold typeName at hw; sr_leaves

theorem keys_rr {a a' : Val} (h : VR nf a a') : RR (VR nf) (keys a) (keys a') := by
  cases a <;> cases a' <;> simp only [VR] at h <;> try (simp only [keys]; exact rr_errType)
  next xs ys =>
  simp only [keys]
  have : xs.map (fun kv => Val.str kv.1) = ys.map (fun kv => Val.str kv.1) := by
    have := vrf_keys h
    rw [show xs.map (fun kv => Val.str kv.1) = (xs.map Prod.fst).map Val.str by simp,
      show ys.map (fun kv => Val.str kv.1) = (ys.map Prod.fst).map Val.str by simp, this]
  rw [this, show ys.map (fun kv => Val.str kv.1) = (ys.map Prod.fst).map Val.str by simp]
  exact RR.ok' (vr_arr (vrl_strs _))

theorem values_rr {a a' : Val} (h : VR nf a a') : RR (VR nf) (values a) (values a') := by
  cases a <;> cases a' <;> simp only [VR] at h <;> try (simp only [values]; exact rr_errType)
  exact RR.ok' (vr_arr (vrf_values h))

theorem items_vrl : ∀ {xs ys : List (Bytes × Val)}, VRF nf xs ys →
    VRL nf (xs.map (fun kv => Val.arr .plain [Val.str kv.1, kv.2])) (ys.map (fun kv => Val.arr .plain [Val.str kv.1, kv.2]))
  | [], [], _ => by simp
  | [], _ :: _, h => by simp [VRF] at h
  | _ :: _, [], h => by simp [VRF] at h
  | (k, x) :: xs, (l, y) :: ys, h => by
    simp only [VRF] at h
    obtain ⟨rfl, hxy, hr⟩ := h
    simp only [List.map_cons]
    exact vrl_cons (vr_arr (vrl_cons (vr_str _) (vrl_cons hxy vrl_nil))) (items_vrl hr)

theorem items_rr {a a' : Val} (h : VR nf a a') : RR (VR nf) (items a) (items a') := by
  cases a <;> cases a' <;> simp only [VR] at h <;> try (simp only [items]; exact rr_errType)
  exact RR.ok' (vr_arr (items_vrl h))

theorem pairKey_vr {x x' : Val} (h : VR nf x x') : pairKey x = pairKey x' := by
  cases x <;> cases x' <;> simp only [VR] at h <;> try rfl
  next t xs u ys =>
  obtain ⟨rfl, h⟩ := h
  rcases xs with _ | ⟨a, _ | ⟨b, _ | ⟨c, r⟩⟩⟩ <;> rcases ys with _ | ⟨a', _ | ⟨b', _ | ⟨c', r'⟩⟩⟩ <;>
    simp only [VRL, and_false, and_true] at h
  · rfl
  · cases a <;> cases a' <;> rfl
  · obtain ⟨ha, _⟩ := h
    cases a <;> cases a' <;> simp only [VR] at ha <;> try rfl
    subst ha; rfl
  · cases a <;> cases a' <;> rfl

theorem filterMap_pairKey_vrl : ∀ {xs ys : List Val}, VRL nf xs ys → xs.filterMap pairKey = ys.filterMap pairKey
  | [], [], _ => rfl
  | [], _ :: _, h => by simp [VRL] at h
  | _ :: _, [], h => by simp [VRL] at h
  | x :: xs, y :: ys, h => by
    simp only [VRL] at h
    simp only [List.filterMap_cons, pairKey_vr h.1, filterMap_pairKey_vrl h.2]

theorem fromItemsLoop_rr : ∀ {xs ys : List Val} {acc acc' : List (Bytes × Val)}, VRL nf xs ys → VRF nf acc acc' →
    RR (VRF nf) (fromItemsLoop xs acc) (fromItemsLoop ys acc')
  | [], [], _, _, _, ha => by simp only [fromItemsLoop]; exact RR.ok' ha
  | [], _ :: _, _, _, h, _ => by simp [VRL] at h
  | _ :: _, [], _, _, h, _ => by simp [VRL] at h
  | x :: xs, y :: ys, acc, acc', h, ha => by
    simp only [VRL] at h
    have hxy := h.1
    cases x <;> cases y <;> simp only [VR] at hxy <;> try (simp only [fromItemsLoop]; exact rr_errType)
    next t ia u ib =>
    obtain ⟨rfl, hi⟩ := hxy
    rcases ia with _ | ⟨k, _ | ⟨v, _ | ⟨c, r⟩⟩⟩ <;> rcases ib with _ | ⟨k', _ | ⟨v', _ | ⟨c', r'⟩⟩⟩ <;>
      simp only [VRL, and_true, and_false] at hi <;> try (simp only [fromItemsLoop]; exact rr_errValue)
    have he : enum2 t [k, v] = enum2 t [k', v'] := rfl
    simp only [fromItemsLoop, he]
    by_cases hc : enum2 t [k', v'] = true
    · simp only [hc, if_true]; trivial
    · simp only [hc]
      obtain ⟨hk, hv⟩ := hi
      cases k <;> cases k' <;> simp only [VR] at hk <;> try exact rr_errValue
      subst hk
      exact fromItemsLoop_rr h.2 (objInsert_vrf hv ha)

theorem fromItems_rr {a a' : Val} (h : VR nf a a') : RR (VR nf) (fromItems a) (fromItems a') := by
  cases a <;> cases a' <;> simp only [VR] at h <;> try (simp only [fromItems]; exact rr_errType)
  next t xs u ys =>
  obtain ⟨rfl, h⟩ := h
  simp only [fromItems, enum2_vrl t h, filterMap_pairKey_vrl h]
  have := fromItemsLoop_rr h (vrf_nil (nf := nf))
  cases h1 : fromItemsLoop xs [] <;> cases h2 : fromItemsLoop ys [] <;> rw [h1, h2] at this <;>
    simp only [RR] at this <;> simp only []
  · split
    · trivial
    · exact RR.ok' (vr_obj this)
  · subst this; split <;> simp [RR]
  · exact this
  · trivial
  · exact this

theorem join_rr {a a' b b' : Val} (ha : VR nf a a') (hb : VR nf b b') : RR (VR nf) (join a b) (join a' b') := by
  cases b <;> cases b' <;> simp only [VR] at hb <;> try (simp only [join]; exact rr_errType)
  next t xs u ys =>
  obtain ⟨rfl, hb⟩ := hb
  cases a <;> cases a' <;> simp only [VR] at ha <;> try (simp only [join]; exact rr_errType)
  subst ha
  simp only [join, allStrings_equiv (vrl_equiv _ _ hb), enum2_vrl t hb]
  split
  · split
    · trivial
    · exact RR.ok' (vr_str _)
  · exact rr_errType

/-! ## `max`, `min` -/

/-- decimals of equal value, both within the format or identical -/
def DR (d d' : Dec) : Prop := Dec.cmp d d' = some 0 ∧ ((d.Bounded ∧ d'.Bounded) ∨ d = d')

theorem dr_of_nr {a b : Num} {da db : Dec} (h : NR nf a b) (h1 : toDecimal (.num a) = some da)
    (h2 : toDecimal (.num b) = some db) : DR da db := by
  obtain ⟨da', db', e1, e2, h3, h4⟩ := h.dec
  rw [h1] at e1; rw [h2] at e2; cases e1; cases e2
  refine ⟨h3, ?_⟩
  rcases h4 with hb | e
  · exact .inl hb
  · subst e; rw [h1] at h2; cases h2; exact .inr rfl

theorem toDecimal_dr {x x' : Val} (h : VR nf x x') :
    (toDecimal x = none ∧ toDecimal x' = none) ∨ ∃ d d', toDecimal x = some d ∧ toDecimal x' = some d' ∧ DR d d' := by
  rcases toDecimal_vr h with e | ⟨d, d', e1, e2, e3⟩
  · exact .inl e
  · cases x <;> cases x' <;> simp only [VR] at h <;> try (simp [toDecimal] at e1)
    exact .inr ⟨d, d', e1, e2, dr_of_nr h e1 e2⟩

theorem allDecimals_dr : ∀ {xs xs' : List Val}, VRL nf xs xs' →
    (allDecimals xs = none ∧ allDecimals xs' = none) ∨
    ∃ ds ds', allDecimals xs = some ds ∧ allDecimals xs' = some ds' ∧ L2 DR ds ds'
  | [], [], _ => .inr ⟨[], [], rfl, rfl, l2_nil⟩
  | [], _ :: _, h => by simp [VRL] at h
  | _ :: _, [], h => by simp [VRL] at h
  | x :: xs, x' :: xs', h => by
    simp only [VRL] at h
    rcases toDecimal_dr h.1 with ⟨e1, e2⟩ | ⟨d, d', e1, e2, e3⟩
    · left; simp [allDecimals, e1, e2]
    · rcases allDecimals_dr h.2 with ⟨g1, g2⟩ | ⟨ds, ds', g1, g2, g3⟩
      · left; simp [allDecimals, e1, e2, g1, g2]
      · right
        exact ⟨d :: ds, d' :: ds', by simp [allDecimals, e1, g1], by simp [allDecimals, e2, g2], l2_cons e3 g3⟩

theorem decsOrderFree_dr : ∀ {ds ds' : List Dec}, L2 DR ds ds' → decsOrderFree ds = true ∧ decsOrderFree ds' = true
  | [], [], _ => ⟨rfl, rfl⟩
  | [], _ :: _, h => by simp [L2] at h
  | _ :: _, [], h => by simp [L2] at h
  | d :: ds, d' :: ds', h => by
    simp only [L2] at h
    have ih := decsOrderFree_dr h.2
    have hd : d.isNaN = false := by
      cases d <;> simp [Dec.isNaN]
      have := h.1.1; simp [Dec.cmp_nan_left] at this
    have hd' : d'.isNaN = false := by
      cases d' <;> simp [Dec.isNaN]
      have := h.1.1; simp [Dec.cmp_nan_right] at this
    simp only [decsOrderFree, List.any_cons, hd, hd', Bool.false_or] at ih ⊢
    exact ih

theorem maxDec_dr : ∀ {ds ds' : List Dec} {m m' : Dec}, DR m m' → L2 DR ds ds' → DR (maxDec m ds) (maxDec m' ds')
  | [], [], _, _, hm, _ => hm
  | [], _ :: _, _, _, _, h => by simp [L2] at h
  | _ :: _, [], _, _, _, h => by simp [L2] at h
  | d :: ds, d' :: ds', m, m', hm, h => by
    simp only [L2] at h
    simp only [maxDec, Dec.greater_congr h.1.1 hm.1]
    split
    · exact maxDec_dr h.1 h.2
    · exact maxDec_dr hm h.2

theorem minDec_dr : ∀ {ds ds' : List Dec} {m m' : Dec}, DR m m' → L2 DR ds ds' → DR (minDec m ds) (minDec m' ds')
  | [], [], _, _, hm, _ => hm
  | [], _ :: _, _, _, _, h => by simp [L2] at h
  | _ :: _, [], _, _, _, h => by simp [L2] at h
  | d :: ds, d' :: ds', m, m', hm, h => by
    simp only [L2] at h
    simp only [minDec, Dec.less_congr h.1.1 hm.1]
    split
    · exact minDec_dr h.1 h.2
    · exact minDec_dr hm h.2

theorem extremeTail_rr (pick : Dec → List Dec → Dec)
    (hp : ∀ {ds ds' : List Dec} {m m' : Dec}, DR m m' → L2 DR ds ds' → DR (pick m ds) (pick m' ds'))
    (t : ATag) {xs xs' : List Val} (h : VRL nf xs xs') :
    RR (VR nf) (extremeTail pick t xs) (extremeTail pick t xs') := by
  unfold extremeTail
  rcases allDecimals_dr h with ⟨g1, g2⟩ | ⟨ds, ds', g1, g2, g3⟩
  · simp only [g1, g2]; exact rr_errType
  · simp only [g1, g2]
    cases ds with
    | nil => cases ds' with
      | nil => exact rr_errType
      | cons _ _ => simp [L2] at g3
    | cons d ds => cases ds' with
      | nil => simp [L2] at g3
      | cons d' ds' =>
        simp only [(decsOrderFree_dr g3).1, (decsOrderFree_dr g3).2, Bool.not_true, Bool.and_false,
          Bool.false_eq_true, if_false]
        simp only [L2] at g3
        have := hp g3.1 g3.2
        exact RR.ok' (vr_dec this.1 this.2)

theorem arrayMax_rr {x x' : Val} (h : VR nf x x') : RR (VR nf) (arrayMax x) (arrayMax x') := by
  cases x <;> cases x' <;> simp only [VR] at h <;> try (simp only [arrayMax]; exact rr_errType)
  next t xs u xs' =>
  obtain ⟨rfl, h⟩ := h
  cases xs with
  | nil => cases xs' with
    | nil => exact RR.ok' vr_null
    | cons _ _ => simp [VRL] at h
  | cons x0 rest => cases xs' with
    | nil => simp [VRL] at h
    | cons x0' rest' =>
      by_cases hs : ∃ s, x0 = .str s
      · obtain ⟨s, rfl⟩ := hs
        simp only [VRL] at h
        obtain ⟨h0, h⟩ := h
        cases x0' <;> simp only [VR] at h0
        subst h0
        simp only [arrayMax, allStrings_equiv (vrl_equiv _ _ h)]
        cases allStrings rest' with
        | none => exact rr_errType
        | some ss => exact RR.ok' (vr_str _)
      · have hx : ∀ s, x0 ≠ .str s := fun s e => hs ⟨s, e⟩
        have hx' := equiv_not_str (vr_equiv _ _ (by simp only [VRL] at h; exact h.1)) hx
        rw [arrayMax_tail t x0 rest hx, arrayMax_tail t x0' rest' hx']
        exact extremeTail_rr maxDec maxDec_dr t h

theorem arrayMin_rr {x x' : Val} (h : VR nf x x') : RR (VR nf) (arrayMin x) (arrayMin x') := by
  cases x <;> cases x' <;> simp only [VR] at h <;> try (simp only [arrayMin]; exact rr_errType)
  next t xs u xs' =>
  obtain ⟨rfl, h⟩ := h
  cases xs with
  | nil => cases xs' with
    | nil => exact RR.ok' vr_null
    | cons _ _ => simp [VRL] at h
  | cons x0 rest => cases xs' with
    | nil => simp [VRL] at h
    | cons x0' rest' =>
      by_cases hs : ∃ s, x0 = .str s
      · obtain ⟨s, rfl⟩ := hs
        simp only [VRL] at h
        obtain ⟨h0, h⟩ := h
        cases x0' <;> simp only [VR] at h0
        subst h0
        simp only [arrayMin, allStrings_equiv (vrl_equiv _ _ h)]
        cases allStrings rest' with
        | none => exact rr_errType
        | some ss => exact RR.ok' (vr_str _)
      · have hx : ∀ s, x0 ≠ .str s := fun s e => hs ⟨s, e⟩
        have hx' := equiv_not_str (vr_equiv _ _ (by simp only [VRL] at h; exact h.1)) hx
        rw [arrayMin_tail t x0 rest hx, arrayMin_tail t x0' rest' hx']
        exact extremeTail_rr minDec minDec_dr t h

end
end C14B
end Jmes
