/-
  Helper lemmas for Jmes/Properties/C15B.lean.

  Part 1: a multi-select hash / `let` evaluates its members in Go map order and stops at the first failure.
          `seqFields` is that loop for one given order; `ievalFields` (the model) is related to it.
  Part 2: `Res.Def`: "definite up to the reported fault" (never `nondet`, values without map-ordered arrays, any
          error), and the evaluator preserves it for expressions that do not enumerate object members — multi-select
          hashes and `let`s of any size included.
-/
import Jmes.Proofs.Invariants
import Jmes.Proofs.Scope
import Jmes.Proofs.C15BOracle
namespace Jmes
open Invar

/-! ## Part 1: evaluation order of multi-select hashes and `let` bindings -/

/-- the outcome is a value or an error (not `nondet`, `panic`, `unmodelled`) -/
def Res.Settled {α} : Res α → Prop
  | .ok _ => True
  | .err _ => True
  | _ => False

/-- What Go does for ONE iteration order of the map of sub-expressions: evaluate the members in that order, store
    each value under its key, stop at the first failure. -/
def seqFields (root : Val) : List (Bytes × INode) → Val → Env → List (Bytes × Val) → Res (List (Bytes × Val))
  | [], _, _, acc => .ok acc
  | (k, n) :: rest, cur, env, acc => do
    let v ← ieval root n cur env
    seqFields root rest cur env (objInsert k v acc)

theorem Cat.mem_dedup {c : Cat} : ∀ {l : List Cat}, c ∈ Cat.dedup l ↔ c ∈ l
  | [] => by simp [Cat.dedup]
  | a :: l => by
    simp only [Cat.dedup]
    split
    · rename_i h
      rw [Cat.mem_dedup (l := l), List.mem_cons]
      constructor
      · exact .inr
      · rintro (rfl | h')
        · simpa using h
        · exact h'
    · rw [List.mem_cons, List.mem_cons, Cat.mem_dedup (l := l)]

/-- first element of a list with a property -/
theorem exists_first {α} {P : α → Prop} : ∀ {l : List α}, (∃ p ∈ l, P p) →
    ∃ pre p post, l = pre ++ p :: post ∧ P p ∧ ∀ q ∈ pre, ¬ P q
  | [], ⟨_, h, _⟩ => by cases h
  | a :: l, ⟨p, hp, hP⟩ => by
    classical
    by_cases ha : P a
    · exact ⟨[], a, l, rfl, ha, fun _ h => by cases h⟩
    · have : ∃ p ∈ l, P p := by
        rcases List.mem_cons.mp hp with rfl | h
        · exact absurd hP ha
        · exact ⟨p, h, hP⟩
      obtain ⟨pre, q, post, e, hq, hpre⟩ := exists_first this
      refine ⟨a :: pre, q, post, by rw [e]; rfl, hq, ?_⟩
      intro r hr
      rcases List.mem_cons.mp hr with rfl | h
      · exact ha
      · exact hpre r h

/-- the model's treatment of the member outcomes: combined without regard to order -/
def combineAll : List (Bytes × Res Val) → Res (List (Bytes × Val))
  | [] => .ok []
  | (k, r) :: rest => combineUnordered (combineAll rest) k r

/-- the outcomes of the members of a hash / `let` in the model, in syntactic order -/
def memberOutcomes (root : Val) (fs : List (Bytes × INode)) (cur : Val) (env : Env) : List (Bytes × Res Val) :=
  fs.map (fun p => (p.1, ieval root p.2 cur env))

theorem ievalFields_eq_combineAll (root : Val) : ∀ (fs : List (Bytes × INode)) (cur : Val) (env : Env),
    ievalFields root fs cur env = combineAll (memberOutcomes root fs cur env)
  | [], _, _ => rfl
  | (k, n) :: rest, cur, env => by
    simp only [ievalFields, memberOutcomes, List.map_cons, combineAll]
    rw [ievalFields_eq_combineAll root rest cur env]
    rfl

theorem seqFields_eq_firstFailure (root : Val) : ∀ (fs : List (Bytes × INode)) (cur : Val) (env : Env)
    (acc : List (Bytes × Val)), seqFields root fs cur env acc = firstFailure (memberOutcomes root fs cur env) acc
  | [], _, _, _ => rfl
  | (k, n) :: rest, cur, env, acc => by
    simp only [seqFields, memberOutcomes, List.map_cons, firstFailure]
    cases ieval root n cur env <;> simp only [Res.ok_bind, Res.err_bind, Res.panic_bind, Res.nondet_bind,
      Res.unmodelled_bind]
    exact seqFields_eq_firstFailure root rest cur env _

/-- the outcome list of a member map all of whose members succeeded -/
def okOutcomes (kvs : List (Bytes × Val)) : List (Bytes × Res Val) := kvs.map (fun kv => (kv.1, Res.ok kv.2))

theorem combineAll_ok_iff : ∀ (os : List (Bytes × Res Val)) (bs : List (Bytes × Val)),
    combineAll os = .ok bs ↔ ∃ kvs, os = okOutcomes kvs ∧ bs = insertAll kvs
  | [], bs => by
    simp only [combineAll, Res.ok.injEq]
    constructor
    · intro h; exact ⟨[], rfl, h.symm⟩
    · rintro ⟨kvs, h, rfl⟩
      cases kvs with
      | nil => rfl
      | cons a l => simp [okOutcomes] at h
  | (k, r) :: rest, bs => by
    simp only [combineAll, combineUnordered_ok_iff]
    constructor
    · rintro ⟨kvs', v, h1, rfl, rfl⟩
      obtain ⟨kvs, rfl, rfl⟩ := (combineAll_ok_iff rest kvs').mp h1
      exact ⟨(k, v) :: kvs, rfl, rfl⟩
    · rintro ⟨kvs, h, rfl⟩
      cases kvs with
      | nil => simp [okOutcomes] at h
      | cons a l =>
        simp only [okOutcomes, List.map_cons, List.cons.injEq, Prod.mk.injEq] at h
        obtain ⟨⟨rfl, rfl⟩, rfl⟩ := h
        exact ⟨insertAll l, a.2, (combineAll_ok_iff _ _).mpr ⟨l, rfl, rfl⟩, rfl, rfl⟩

/-- The model's outcome for a member map is an error exactly when no member is `nondet`/`panic`/`unmodelled` and
    some member fails; the reported set is the union of the failing members' categories. -/
theorem combineAll_err : ∀ (os : List (Bytes × Res Val)) (cs : List Cat), combineAll os = .err cs →
    (∀ o ∈ os, o.2.Settled) ∧ (∀ c, c ∈ cs ↔ ∃ o ∈ os, ∃ cl, o.2 = .err cl ∧ c ∈ cl)
  | [], cs, h => by simp [combineAll] at h
  | (k, r) :: rest, cs, h => by
    simp only [combineAll] at h
    cases hacc : combineAll rest with
    | ok kvs =>
      rw [hacc] at h
      obtain ⟨kvs', rfl, -⟩ := (combineAll_ok_iff rest kvs).mp hacc
      have hrest : ∀ o ∈ okOutcomes kvs', ∃ v, o.2 = .ok v := by
        intro o ho
        obtain ⟨kv, _, rfl⟩ := List.mem_map.mp ho
        exact ⟨_, rfl⟩
      cases r with
      | ok v => simp [combineUnordered] at h
      | err b =>
        simp only [combineUnordered, Res.err.injEq] at h
        subst h
        refine ⟨?_, ?_⟩
        · intro o ho
          rcases List.mem_cons.mp ho with rfl | ho
          · simp [Res.Settled]
          · obtain ⟨v, hv⟩ := hrest o ho
            simp [hv, Res.Settled]
        · intro c
          constructor
          · intro hc; exact ⟨(k, .err b), by simp, b, rfl, hc⟩
          · rintro ⟨o, ho, cl, hcl, hc⟩
            rcases List.mem_cons.mp ho with rfl | ho
            · cases hcl; exact hc
            · obtain ⟨v, hv⟩ := hrest o ho
              rw [hv] at hcl; cases hcl
      | panic w => simp [combineUnordered] at h
      | nondet => simp [combineUnordered] at h
      | unmodelled w => simp [combineUnordered] at h
    | err a =>
      rw [hacc] at h
      obtain ⟨ih1, ih2⟩ := combineAll_err rest a hacc
      cases r with
      | ok v =>
        simp only [combineUnordered, Res.err.injEq] at h
        subst h
        refine ⟨?_, ?_⟩
        · intro o ho
          rcases List.mem_cons.mp ho with rfl | ho
          · simp [Res.Settled]
          · exact ih1 o ho
        · intro c
          rw [ih2 c]
          constructor
          · rintro ⟨o, ho, x⟩; exact ⟨o, List.mem_cons_of_mem _ ho, x⟩
          · rintro ⟨o, ho, cl, hcl, hc⟩
            rcases List.mem_cons.mp ho with rfl | ho
            · cases hcl
            · exact ⟨o, ho, cl, hcl, hc⟩
      | err b =>
        simp only [combineUnordered, Res.err.injEq] at h
        subst h
        refine ⟨?_, ?_⟩
        · intro o ho
          rcases List.mem_cons.mp ho with rfl | ho
          · simp [Res.Settled]
          · exact ih1 o ho
        · intro c
          rw [Cat.mem_dedup, List.mem_append, ih2 c]
          constructor
          · rintro (⟨o, ho, x⟩ | hc)
            · exact ⟨o, List.mem_cons_of_mem _ ho, x⟩
            · exact ⟨(k, .err b), by simp, b, rfl, hc⟩
          · rintro ⟨o, ho, cl, hcl, hc⟩
            rcases List.mem_cons.mp ho with rfl | ho
            · cases hcl; exact .inr hc
            · exact .inl ⟨o, ho, cl, hcl, hc⟩
      | panic w => simp [combineUnordered] at h
      | nondet => simp [combineUnordered] at h
      | unmodelled w => simp [combineUnordered] at h
    | panic w => rw [hacc] at h; cases r <;> simp [combineUnordered] at h
    | nondet => rw [hacc] at h; cases r <;> simp [combineUnordered] at h
    | unmodelled w => rw [hacc] at h; cases r <;> simp [combineUnordered] at h

/-- the model answers `nondet` only if some member does -/
theorem combineAll_nondet : ∀ (os : List (Bytes × Res Val)), combineAll os = .nondet → ∃ o ∈ os, o.2 = .nondet
  | [], h => by simp [combineAll] at h
  | (k, r) :: rest, h => by
    simp only [combineAll] at h
    cases r with
    | nondet => exact ⟨(k, .nondet), by simp, rfl⟩
    | ok v =>
      cases hacc : combineAll rest <;> rw [hacc] at h <;> simp [combineUnordered] at h
      obtain ⟨o, ho, e⟩ := combineAll_nondet rest hacc
      exact ⟨o, List.mem_cons_of_mem _ ho, e⟩
    | err b =>
      cases hacc : combineAll rest <;> rw [hacc] at h <;> simp [combineUnordered] at h
      obtain ⟨o, ho, e⟩ := combineAll_nondet rest hacc
      exact ⟨o, List.mem_cons_of_mem _ ho, e⟩
    | panic w => cases hacc : combineAll rest <;> rw [hacc] at h <;> simp [combineUnordered] at h
    | unmodelled w => cases hacc : combineAll rest <;> rw [hacc] at h <;> simp [combineUnordered] at h

theorem combineAll_ok_of_all_ok : ∀ (os : List (Bytes × Res Val)), (∀ o ∈ os, ∃ v, o.2 = .ok v) →
    ∀ {cs : List Cat}, combineAll os = .err cs → False
  | [], _, cs, h => by simp [combineAll] at h
  | (k, r) :: rest, hall, cs, h => by
    obtain ⟨v, hv⟩ := hall (k, r) (by simp)
    simp only at hv
    subst hv
    simp only [combineAll] at h
    cases hacc : combineAll rest with
    | err a => exact combineAll_ok_of_all_ok rest (fun o ho => hall o (List.mem_cons_of_mem _ ho)) hacc
    | ok kvs => rw [hacc] at h; simp [combineUnordered] at h
    | panic w => rw [hacc] at h; simp [combineUnordered] at h
    | nondet => rw [hacc] at h; simp [combineUnordered] at h
    | unmodelled w => rw [hacc] at h; simp [combineUnordered] at h

/-- Go's loop stops at the first failing member: members before it succeeded, so its error is the outcome -/
theorem firstFailure_first_err {k : Bytes} {cl : List Cat} (post : List (Bytes × Res Val)) :
    ∀ (pre : List (Bytes × Res Val)) (acc : List (Bytes × Val)), (∀ o ∈ pre, ∃ v, o.2 = .ok v) →
      firstFailure (pre ++ (k, .err cl) :: post) acc = .err cl
  | [], acc, _ => by simp [firstFailure]
  | (k', r) :: pre, acc, h => by
    obtain ⟨v, hv⟩ := h (k', r) (by simp)
    simp only at hv
    subst hv
    simp only [List.cons_append, firstFailure, Res.ok_bind]
    exact firstFailure_first_err post pre _ fun o ho => h o (List.mem_cons_of_mem _ ho)

/-- when every member succeeds the loop returns the fold of the insertions -/
theorem firstFailure_all_ok : ∀ (kvs acc : List (Bytes × Val)),
    firstFailure (okOutcomes kvs) acc = .ok (kvs.foldl (fun a kv => objInsert kv.1 kv.2 a) acc)
  | [], _ => rfl
  | (k, v) :: kvs, acc => by
    simp only [okOutcomes, List.map_cons, firstFailure, Res.ok_bind, List.foldl_cons]
    exact firstFailure_all_ok kvs _

/-! ### key-sorted association lists are canonical -/

theorem objLookup_none_of_lt {x : Bytes} : ∀ {l : List (Bytes × Val)},
    (∀ p ∈ l, bytesLt x p.1 = true) → objLookup x l = none
  | [], _ => rfl
  | (k, v) :: l, h => by
    have hk : bytesLt x k = true := h (k, v) (by simp)
    have hne : x ≠ k := fun e => by rw [e, bytesLt_irrefl] at hk; cases hk
    simp only [objLookup, hne, if_false]
    exact objLookup_none_of_lt fun p hp => h p (List.mem_cons_of_mem _ hp)

/-- two strictly key-sorted member lists with the same lookups are the same list -/
theorem keySorted_ext : ∀ {l1 l2 : List (Bytes × Val)}, KeySorted l1 → KeySorted l2 →
    (∀ x, objLookup x l1 = objLookup x l2) → l1 = l2
  | [], [], _, _, _ => rfl
  | [], (k, v) :: l2, _, _, h => by have := h k; simp [objLookup] at this
  | (k, v) :: l1, [], _, _, h => by have := h k; simp [objLookup] at this
  | (k1, v1) :: l1, (k2, v2) :: l2, s1, s2, h => by
    unfold KeySorted at s1 s2
    rw [List.pairwise_cons] at s1 s2
    rcases bytesLt_total k1 k2 with hlt | heq | hgt
    · exfalso
      have := h k1
      have hne : k1 ≠ k2 := fun e => by rw [e, bytesLt_irrefl] at hlt; cases hlt
      simp only [objLookup, if_true, hne, if_false] at this
      rw [objLookup_none_of_lt (fun p hp => bytesLt_trans hlt (s2.1 p hp))] at this
      cases this
    · subst heq
      have hv := h k1
      simp only [objLookup, if_true, Option.some.injEq] at hv
      subst hv
      have : l1 = l2 := by
        apply keySorted_ext s1.2 s2.2
        intro x
        have hx := h x
        simp only [objLookup] at hx
        by_cases e : x = k1
        · subst e
          rw [objLookup_none_of_lt s1.1, objLookup_none_of_lt s2.1]
        · simpa [e] using hx
      rw [this]
    · exfalso
      have := h k2
      have hne : k2 ≠ k1 := fun e => by rw [e, bytesLt_irrefl] at hgt; cases hgt
      simp only [objLookup, if_true, hne, if_false] at this
      rw [objLookup_none_of_lt (fun p hp => bytesLt_trans hgt (s1.1 p hp))] at this
      cases this

theorem keySorted_foldInsert : ∀ (kvs acc : List (Bytes × Val)), KeySorted acc →
    KeySorted (kvs.foldl (fun a kv => objInsert kv.1 kv.2 a) acc)
  | [], _, h => h
  | (k, v) :: kvs, _, h => keySorted_foldInsert kvs _ (KeySorted_objInsert k v h)

/-- lookup after inserting a duplicate-free list of pairs (in any order) into `acc` -/
theorem objLookup_foldInsert (x : Bytes) : ∀ (kvs acc : List (Bytes × Val)), (kvs.map Prod.fst).Nodup →
    objLookup x (kvs.foldl (fun a kv => objInsert kv.1 kv.2 a) acc) =
      (match objLookup x kvs with | some v => some v | none => objLookup x acc)
  | [], acc, _ => rfl
  | (k, v) :: kvs, acc, hn => by
    simp only [List.map_cons, List.nodup_cons] at hn
    simp only [List.foldl_cons]
    rw [objLookup_foldInsert x kvs _ hn.2, objLookup_objInsert]
    simp only [objLookup]
    by_cases e : x = k
    · subst e
      have : objLookup x kvs = none := (objLookup_eq_none_iff x kvs).mpr hn.1
      simp [this]
    · simp [e]

/-- for pairwise distinct keys the object built does not depend on the insertion order -/
theorem foldInsert_perm {kvs kvs' : List (Bytes × Val)} (hn : (kvs.map Prod.fst).Nodup) (hp : kvs'.Perm kvs) :
    kvs'.foldl (fun a kv => objInsert kv.1 kv.2 a) [] = insertAll kvs := by
  have hn' : (kvs'.map Prod.fst).Nodup := (hp.map Prod.fst).nodup_iff.mpr hn
  apply keySorted_ext (keySorted_foldInsert kvs' [] List.Pairwise.nil) (KeySorted_insertAll kvs)
  intro x
  rw [objLookup_foldInsert x kvs' [] hn', objLookup_insertAll]
  cases h1 : objLookup x kvs' with
  | some v =>
    have := objLookup_mem h1
    exact (objLookup_of_mem_nodup hn (hp.mem_iff.mp this)).symm
  | none =>
    simp only [objLookup]
    symm
    rw [objLookup_eq_none_iff] at h1 ⊢
    intro hx
    exact h1 ((hp.map Prod.fst).mem_iff.mpr hx)

/-- among settled outcomes one of which is an error, Go's loop ends with the error of the first failing member -/
theorem firstFailure_settled {os : List (Bytes × Res Val)} (hset : ∀ o ∈ os, o.2.Settled)
    (hex : ∃ o ∈ os, ∃ cl, o.2 = .err cl) (acc : List (Bytes × Val)) :
    ∃ o ∈ os, ∃ cl, o.2 = .err cl ∧ firstFailure os acc = .err cl := by
  obtain ⟨pre, o, post, e, ⟨cl, hcl⟩, hpre⟩ :=
    exists_first (P := fun o : Bytes × Res Val => ∃ cl, o.2 = .err cl) hex
  refine ⟨o, by rw [e]; simp, cl, hcl, ?_⟩
  rw [e]
  obtain ⟨k, r⟩ := o
  simp only at hcl
  subst hcl
  apply firstFailure_first_err
  intro q hq
  have hs := hset q (by rw [e]; simp [hq])
  cases hq2 : q.2 with
  | ok v => exact ⟨v, rfl⟩
  | err cl' => exact absurd ⟨cl', hq2⟩ (hpre q hq)
  | panic w => rw [hq2] at hs; exact hs.elim
  | nondet => rw [hq2] at hs; exact hs.elim
  | unmodelled w => rw [hq2] at hs; exact hs.elim

/-- forget that a member outcome is a success -/
def unOk (o : Bytes × Res Val) : Bytes × Val := (o.1, match o.2 with | .ok v => v | _ => .null)

theorem okOutcomes_of_perm {kvs : List (Bytes × Val)} {os' : List (Bytes × Res Val)}
    (hp : os'.Perm (okOutcomes kvs)) : ∃ kvs', os' = okOutcomes kvs' ∧ kvs'.Perm kvs := by
  refine ⟨os'.map unOk, ?_, ?_⟩
  · unfold okOutcomes
    rw [List.map_map]
    have : ∀ o ∈ os', ((fun kv : Bytes × Val => (kv.1, Res.ok kv.2)) ∘ unOk) o = id o := by
      intro o ho
      obtain ⟨kv, _, rfl⟩ := List.mem_map.mp (hp.mem_iff.mp ho)
      rfl
    rw [List.map_congr_left this, List.map_id]
  · have := hp.map unOk
    have e : (okOutcomes kvs).map unOk = kvs := by
      unfold okOutcomes
      rw [List.map_map]
      have : ∀ kv ∈ kvs, (unOk ∘ fun kv : Bytes × Val => (kv.1, Res.ok kv.2)) kv = id kv := fun _ _ => rfl
      rw [List.map_congr_left this, List.map_id]
    rwa [e] at this

/-- **Soundness of the model's treatment of member maps** (generic form). Let `os` be the members' outcomes and
    `os'` the same outcomes in the order of some run.
    * If the model answers `.ok bs` (keys distinct), the run answers `.ok bs`.
    * If the model answers `.err cs`, the run stops at a failing member whose categories are all in `cs`. -/
theorem firstFailure_sound {os os' : List (Bytes × Res Val)} (hp : os'.Perm os) :
    (∀ bs, combineAll os = .ok bs → (os.map Prod.fst).Nodup → firstFailure os' [] = .ok bs) ∧
    (∀ cs, combineAll os = .err cs → ∃ cl, firstFailure os' [] = .err cl ∧ (∃ o ∈ os, o.2 = .err cl) ∧
      ∀ c ∈ cl, c ∈ cs) := by
  constructor
  · intro bs h hn
    obtain ⟨kvs, rfl, rfl⟩ := (combineAll_ok_iff os bs).mp h
    obtain ⟨kvs', rfl, hp'⟩ := okOutcomes_of_perm hp
    rw [firstFailure_all_ok]
    congr 1
    apply foldInsert_perm _ hp'
    have : (okOutcomes kvs).map Prod.fst = kvs.map Prod.fst := by
      unfold okOutcomes; rw [List.map_map]; rfl
    rwa [this] at hn
  · intro cs h
    obtain ⟨hset, hcs⟩ := combineAll_err os cs h
    -- some member fails
    have hex : ∃ o ∈ os', ∃ cl, o.2 = .err cl := by
      refine Classical.byContradiction fun hno => ?_
      refine combineAll_ok_of_all_ok os ?_ h
      intro o ho
      have hs := hset o ho
      cases ho2 : o.2 with
      | ok v => exact ⟨v, rfl⟩
      | err cl => exact absurd ⟨o, hp.mem_iff.mpr ho, cl, ho2⟩ hno
      | panic w => rw [ho2] at hs; exact hs.elim
      | nondet => rw [ho2] at hs; exact hs.elim
      | unmodelled w => rw [ho2] at hs; exact hs.elim
    obtain ⟨pre, o, post, e, ⟨cl, hcl⟩, hpre⟩ := exists_first (P := fun o : Bytes × Res Val => ∃ cl, o.2 = .err cl) hex
    have ho : o ∈ os := hp.mem_iff.mp (by rw [e]; simp)
    refine ⟨cl, ?_, ⟨o, ho, hcl⟩, fun c hc => (hcs c).mpr ⟨o, ho, cl, hcl, hc⟩⟩
    rw [e]
    obtain ⟨k, r⟩ := o
    simp only at hcl
    subst hcl
    apply firstFailure_first_err
    intro q hq
    have hq' : q ∈ os := hp.mem_iff.mp (by rw [e]; simp [hq])
    have hs := hset q hq'
    cases hq2 : q.2 with
    | ok v => exact ⟨v, rfl⟩
    | err cl' => exact absurd ⟨cl', hq2⟩ (hpre q hq)
    | panic w => rw [hq2] at hs; exact hs.elim
    | nondet => rw [hq2] at hs; exact hs.elim
    | unmodelled w => rw [hq2] at hs; exact hs.elim

/-- conversely every reported category is the first failure of some order -/
theorem firstFailure_complete {os : List (Bytes × Res Val)} {cs : List Cat} (h : combineAll os = .err cs) :
    ∀ c ∈ cs, ∃ os', os'.Perm os ∧ ∃ cl, firstFailure os' [] = .err cl ∧ c ∈ cl := by
  intro c hc
  obtain ⟨-, hcs⟩ := combineAll_err os cs h
  obtain ⟨o, ho, cl, hcl, hccl⟩ := (hcs c).mp hc
  obtain ⟨s, t, rfl⟩ := List.append_of_mem ho
  refine ⟨o :: (s ++ t), List.perm_middle.symm, cl, ?_, hccl⟩
  obtain ⟨k, r⟩ := o
  simp only at hcl
  subst hcl
  exact firstFailure_first_err (s ++ t) [] [] (fun _ h => by cases h)

/-- `EvalAll` transports along a permutation of the member list -/
theorem EvalAll.perm {root cur : Val} {env : Env} : ∀ {fs fs' : List (Bytes × INode)} {kvs : List (Bytes × Val)},
    fs'.Perm fs → EvalAll root cur env fs kvs → ∃ kvs', EvalAll root cur env fs' kvs' ∧ kvs'.Perm kvs := by
  intro fs fs' kvs hp
  induction hp generalizing kvs with
  | nil => intro h; exact ⟨kvs, h, List.Perm.refl _⟩
  | cons x _ ih =>
    intro h
    cases h with
    | cons h1 h2 =>
      obtain ⟨kvs', h3, h4⟩ := ih h2
      exact ⟨_ :: kvs', .cons h1 h3, h4.cons _⟩
  | swap x y l =>
    intro h
    cases h with
    | cons h1 h2 =>
      cases h2 with
      | cons h3 h4 => exact ⟨_, .cons h3 (.cons h1 h4), List.Perm.swap _ _ _⟩
  | trans _ _ ih1 ih2 =>
    intro h
    obtain ⟨k1, h1, p1⟩ := ih2 h
    obtain ⟨k2, h2, p2⟩ := ih1 h1
    exact ⟨k2, h2, p2.trans p1⟩

/-! ## Part 2: definite up to the reported fault -/

/-- the outcome is never `nondet`; a value satisfies `P`; an error may name any categories -/
def Res.Def {α} (P : α → Prop) : Res α → Prop
  | .ok a => P a
  | .nondet => False
  | _ => True

namespace Invar

theorem Def.of_sat {α} {P : α → Prop} {r : Res α} (h : Res.Sat true P r) : Res.Def P r := by
  cases r with
  | ok a => exact h
  | nondet => simp [Res.Sat] at h
  | _ => trivial

theorem Def.ok {α} {P : α → Prop} {a : α} (h : P a) : Res.Def P (Res.ok a) := h
theorem Def.pure {α} {P : α → Prop} {a : α} (h : P a) : Res.Def P (pure a) := h
theorem Def.err {α} {P : α → Prop} (cs : List Cat) : Res.Def P (Res.err cs : Res α) := trivial
theorem Def.errType {α} {P : α → Prop} : Res.Def P (errType : Res α) := trivial

theorem Def.bind {α β} {P : α → Prop} {Q : β → Prop} {r : Res α} {f : α → Res β}
    (h : Res.Def P r) (hf : ∀ a, P a → Res.Def Q (f a)) : Res.Def Q (r >>= f) := by
  cases r with
  | ok a => exact hf a h
  | nondet => exact h
  | _ => trivial

theorem Def.mono {α} {P Q : α → Prop} {r : Res α} (h : Res.Def P r) (hpq : ∀ a, P a → Q a) : Res.Def Q r := by
  cases r with
  | ok a => exact hpq a h
  | nondet => exact h
  | _ => trivial

theorem Def.iff {α} {P : α → Prop} {r : Res α} : Res.Def P r ↔ r ≠ .nondet ∧ ∀ a, r = .ok a → P a := by
  cases r <;> simp [Res.Def]

theorem Def.widen {α} {P : α → Prop} {t : ATag} {xs : List Val} {fs : List (Val → Res Val)}
    {extra : List Cat} {r : Res α} (ht : tagOk true t = true) (h : Res.Def P r) :
    Res.Def P (widen t xs fs extra r) := by
  rw [widen_of_not_enum2 r (enum2_of_tagOk xs ht)]
  exact h

abbrev DefR (r : Res Val) : Prop := Res.Def (fun v => v.Good true = true) r
abbrev DefLR (r : Res (List Val)) : Prop := Res.Def (fun vs => Val.GoodL true vs = true) r
abbrev DefFR (r : Res (List (Bytes × Val))) : Prop := Res.Def (fun kvs => Val.GoodF true kvs = true) r
abbrev DefFn (f : Val → Res Val) : Prop := ∀ v, v.Good true = true → DefR (f v)

theorem widenArr_def {t t' : ATag} {xs : List Val} {fs : List (Val → Res Val)} {extra : List Cat}
    {loop : Res (List Val)} (ht : tagOk true t = true) (ht' : tagOk true t' = true) (h : DefLR loop) :
    DefR (widen t xs fs extra (loop >>= fun r => pure (Val.arr t' r))) :=
  Def.widen ht (Def.bind h fun _ hr => Def.pure (good_arr.mpr ⟨ht', hr⟩))

theorem mapPrune_def {f : Val → Res Val} (hf : DefFn f) :
    ∀ {xs : List Val}, Val.GoodL true xs = true → DefLR (mapPrune f xs)
  | [], _ => goodL_nil
  | x :: xs, h => by
    have ⟨hx, hr⟩ := goodL_cons.mp h
    simp only [mapPrune]
    refine Def.bind (hf x hx) fun p hp => Def.bind (mapPrune_def hf hr) fun rest hrest => Def.pure ?_
    split
    · exact hrest
    · exact goodL_cons.mpr ⟨hp, hrest⟩

theorem mapAll_def {f : Val → Res Val} (hf : DefFn f) :
    ∀ {xs : List Val}, Val.GoodL true xs = true → DefLR (mapAll f xs)
  | [], _ => goodL_nil
  | x :: xs, h => by
    have ⟨hx, hr⟩ := goodL_cons.mp h
    simp only [mapAll]
    exact Def.bind (hf x hx) fun p hp => Def.bind (mapAll_def hf hr) fun rest hrest =>
      Def.pure (goodL_cons.mpr ⟨hp, hrest⟩)

theorem filterLoop_def {c : Val → Res Val} (hc : DefFn c) :
    ∀ {xs : List Val}, Val.GoodL true xs = true → DefLR (filterLoop c xs)
  | [], _ => goodL_nil
  | x :: xs, h => by
    have ⟨hx, hr⟩ := goodL_cons.mp h
    simp only [filterLoop]
    refine Def.bind (hc x hx) fun b _ => Def.bind (filterLoop_def hc hr) fun rest hrest => Def.pure ?_
    split
    · exact goodL_cons.mpr ⟨hx, hrest⟩
    · exact hrest

theorem filterMapPrune_def {c f : Val → Res Val} (hc : DefFn c) (hf : DefFn f) :
    ∀ {xs : List Val}, Val.GoodL true xs = true → DefLR (filterMapPrune c f xs)
  | [], _ => goodL_nil
  | x :: xs, h => by
    have ⟨hx, hr⟩ := goodL_cons.mp h
    simp only [filterMapPrune]
    refine Def.bind (hc x hx) fun b _ => ?_
    split
    · refine Def.bind (hf x hx) fun p hp => Def.bind (filterMapPrune_def hc hf hr) fun rest hrest => Def.pure ?_
      split
      · exact hrest
      · exact goodL_cons.mpr ⟨hp, hrest⟩
    · exact filterMapPrune_def hc hf hr

theorem projectArray_def {f : Val → Res Val} {v : Val} (hf : DefFn f) (h : v.Good true = true) :
    DefR (projectArray f v) := by
  cases v with
  | arr t xs =>
    have ⟨ht, hx⟩ := good_arr.mp h
    exact widenArr_def ht (tagOk_derived ht) (mapPrune_def hf hx)
  | _ => exact good_null

theorem filterArray_def {c : Val → Res Val} {v : Val} (hc : DefFn c) (h : v.Good true = true) :
    DefR (filterArray c v) := by
  cases v with
  | arr t xs =>
    have ⟨ht, hx⟩ := good_arr.mp h
    exact widenArr_def ht (tagOk_derived ht) (filterLoop_def hc hx)
  | _ => exact good_null

theorem filterAndProjectArray_def {c f : Val → Res Val} {v : Val} (hc : DefFn c) (hf : DefFn f)
    (h : v.Good true = true) : DefR (filterAndProjectArray c f v) := by
  cases v with
  | arr t xs =>
    have ⟨ht, hx⟩ := good_arr.mp h
    exact widenArr_def ht (tagOk_derived ht) (filterMapPrune_def hc hf hx)
  | _ => exact good_null

theorem flattenAndProjectArray_def {f : Val → Res Val} {v : Val} (hf : DefFn f)
    (h : v.Good true = true) : DefR (flattenAndProjectArray f v) := by
  cases v with
  | arr t xs =>
    have ⟨ht, hx⟩ := good_arr.mp h
    exact widenArr_def (flattenTag_ok ht hx) (flattenTag_ok ht hx) (mapPrune_def hf (goodL_flattenForProject hx))
  | _ => exact good_null

theorem mapArray_def {f : Val → Res Val} {v : Val} (hf : DefFn f) (h : v.Good true = true) :
    DefR (mapArray f v) := by
  cases v with
  | arr t xs =>
    have ⟨ht, hx⟩ := good_arr.mp h
    exact widenArr_def ht (tagOk_derived ht) (mapAll_def hf hx)
  | _ => exact Def.errType

theorem keysFrom_def {f : Val → Res Val} (hf : DefFn f) (b : Bool) :
    ∀ {xs : List Val}, Val.GoodL true xs = true → Res.Def (fun _ => True) (keysFrom f b xs)
  | [], _ => trivial
  | x :: xs, h => by
    have ⟨hx, hr⟩ := goodL_cons.mp h
    simp only [keysFrom]
    refine Def.bind (hf x hx) fun rv _ => Def.bind (P := fun _ => True) ?_ fun k _ =>
      Def.bind (keysFrom_def hf b hr) fun _ _ => trivial
    split
    · split
      · trivial
      · exact Def.errType
    · split
      · trivial
      · exact Def.errType

theorem keysOf_def {f : Val → Res Val} (hf : DefFn f) :
    ∀ {xs : List Val}, Val.GoodL true xs = true → Res.Def (fun _ => True) (keysOf f xs)
  | [], _ => trivial
  | x :: xs, h => by
    have ⟨hx, hr⟩ := goodL_cons.mp h
    simp only [keysOf]
    refine Def.bind (hf x hx) fun first _ => ?_
    split
    · exact Def.bind (keysFrom_def hf true hr) fun _ _ => trivial
    · split
      · exact Def.errType
      · exact Def.bind (keysFrom_def hf false hr) fun _ _ => trivial

theorem arrayPickBy_def (better : Key → Key → Bool) {f : Val → Res Val} {v : Val} (hf : DefFn f)
    (h : v.Good true = true) : DefR (arrayPickBy better f v) := by
  cases v with
  | arr t xs =>
    have ⟨ht, hx⟩ := good_arr.mp h
    cases xs with
    | nil => exact good_null
    | cons x0 rest =>
      have ⟨hx0, hrest⟩ := goodL_cons.mp hx
      simp only [arrayPickBy]
      refine Def.widen ht (Def.bind (keysOf_def hf hx) fun ks _ => ?_)
      split
      · exact good_null
      · rw [enum2_of_tagOk _ ht]
        simp only [Bool.false_and, Bool.false_eq_true, if_false]
        next k0 krest =>
        show (pickBy better x0 k0 (rest.zip krest)).Good true = true
        rcases pickBy_mem better (rest.zip krest) x0 k0 with h | ⟨p, hp, h⟩
        · rw [h]; exact hx0
        · rw [h]
          have : p.1 ∈ rest := by
            cases p with
            | mk a b => exact (List.of_mem_zip hp).1
          exact goodL_iff.mp hrest _ this
  | _ => exact Def.errType

theorem sortArrayBy_def {f : Val → Res Val} {v : Val} (hf : DefFn f) (h : v.Good true = true) :
    DefR (sortArrayBy f v) := by
  cases v with
  | arr t xs =>
    have ⟨ht, hx⟩ := good_arr.mp h
    simp only [sortArrayBy]
    split
    · exact h
    · refine Def.widen ht (Def.bind (keysOf_def hf hx) fun ks _ => ?_)
      rw [enum2_of_tagOk _ ht]
      simp only [Bool.false_and, Bool.false_eq_true, if_false]
      exact good_plainArr (goodL_sortByKeys ks hx)
  | _ => exact Def.errType

theorem groupLoop_def {f : Val → Res Val} (hf : DefFn f) :
    ∀ {xs : List Val} {acc : List (Bytes × List Val)}, Val.GoodL true xs = true →
      (∀ kg ∈ acc, Val.GoodL true kg.2 = true) →
      Res.Def (fun gs => ∀ kg ∈ gs, Val.GoodL true kg.2 = true) (groupLoop f xs acc)
  | [], _, _, ha => ha
  | x :: rest, acc, h, ha => by
    have ⟨hx, hr⟩ := goodL_cons.mp h
    simp only [groupLoop]
    refine Def.bind (hf x hx) fun rv _ => ?_
    split
    · exact groupLoop_def hf hr (groupInsert_inv hx ha)
    · exact Def.errType

theorem groupBy_def {f : Val → Res Val} {v : Val} (hf : DefFn f) (h : v.Good true = true) :
    DefR (groupBy f v) := by
  cases v with
  | arr t xs =>
    have ⟨ht, hx⟩ := good_arr.mp h
    simp only [groupBy]
    split
    · exact good_null
    · refine Def.widen ht (Def.bind (groupLoop_def hf hx (acc := []) (fun _ h => by cases h)) fun gs hgs => Def.pure ?_)
      refine good_obj.mpr (goodF_iff.mpr fun kv hkv => ?_)
      obtain ⟨kg, hkg, rfl⟩ := List.mem_map.mp hkv
      exact good_arr.mpr ⟨tagOk_derived ht, hgs kg hkg⟩
  | _ => exact Def.errType

theorem combineUnordered_def {acc : Res (List (Bytes × Val))} (k : Bytes) {r : Res Val}
    (ha : DefFR acc) (hr : DefR r) : DefFR (combineUnordered acc k r) := by
  cases acc <;> cases r <;> simp only [combineUnordered] <;>
    first
      | exact goodF_objInsert hr ha
      | trivial
      | exact ha
      | exact hr

/-! ### the evaluator preserves `Def` when nothing enumerates object members -/

/-- the node does not range over the members of an object and is not the unstable `sort`; multi-select hashes and
    `let`s of ANY size are allowed (compare `INode.noEnumHead`) -/
def _root_.Jmes.INode.noEnumHeadD : INode → Bool
  | .objectValues _ | .objectValuesCurrent | .projectObject _ _ | .projectObjectCurrent _ => false
  | .call .keys _ | .call .values _ | .call .items _ => false
  | .call .sort _ => false
  | _ => true

/-- literals without map-ordered arrays, and no object enumeration -/
def nodeOkD (n : INode) : Bool := INode.litOk (Val.Good true) n && INode.noEnumHeadD n

theorem nodeOkD_lit {v : Val} (h : nodeOkD (.lit v) = true) : v.Good true = true := by
  simp only [nodeOkD, INode.litOk, Bool.and_eq_true] at h
  exact h.1

theorem nodeOkD_call {f : Fn} {args : List INode} (h : nodeOkD (.call f args) = true) :
    Fn.enumerates f = false := by
  cases f <;> first | rfl | simp [nodeOkD, INode.noEnumHeadD, INode.litOk] at h

mutual
theorem ieval_def {root : Val} (hroot : root.Good true = true) :
    ∀ (n : INode) (cur : Val) (env : Env), n.all nodeOkD = true → cur.Good true = true → Val.GoodF true env = true →
      DefR (ieval root n cur env)
  | .lit v, cur, env, h, hc, hv => by
    simp only [INode.all] at h
    exact nodeOkD_lit h
  | .current, cur, env, h, hc, hv => hc
  | .root, cur, env, h, hc, hv => hroot
  | .field k, cur, env, h, hc, hv => field_good k hc
  | .variable name, cur, env, h, hc, hv => by
    simp only [ieval, Env.get]
    cases hl : objLookup name env with
    | none => exact Def.err _
    | some v => exact good_objLookup hv hl
  | .binop op l r, cur, env, h, hc, hv => by
    simp only [INode.all, Bool.and_eq_true] at h
    simp only [ieval]
    exact Def.bind (ieval_def hroot l cur env h.1.2 hc hv) fun a ha =>
      Def.bind (ieval_def hroot r cur env h.2 hc hv) fun b hb => Def.of_sat (applyBinOp_sat op ha hb)
  | .and l r, cur, env, h, hc, hv => by
    simp only [INode.all, Bool.and_eq_true] at h
    simp only [ieval]
    refine Def.bind (ieval_def hroot l cur env h.1.2 hc hv) fun a ha => ?_
    split
    · exact Def.pure ha
    · exact ieval_def hroot r cur env h.2 hc hv
  | .or l r, cur, env, h, hc, hv => by
    simp only [INode.all, Bool.and_eq_true] at h
    simp only [ieval]
    refine Def.bind (ieval_def hroot l cur env h.1.2 hc hv) fun a ha => ?_
    split
    · exact Def.pure ha
    · exact ieval_def hroot r cur env h.2 hc hv
  | .not c, cur, env, h, hc, hv => by
    simp only [INode.all, Bool.and_eq_true] at h
    simp only [ieval]
    exact Def.bind (ieval_def hroot c cur env h.2 hc hv) fun a ha => Def.pure good_bool
  | .negate c, cur, env, h, hc, hv => by
    simp only [INode.all, Bool.and_eq_true] at h
    simp only [ieval]
    exact Def.bind (ieval_def hroot c cur env h.2 hc hv) fun a ha => Def.pure (negateVal_good a)
  | .assertNumber c, cur, env, h, hc, hv => by
    simp only [INode.all, Bool.and_eq_true] at h
    simp only [ieval]
    refine Def.bind (ieval_def hroot c cur env h.2 hc hv) fun a ha => Def.pure ?_
    split
    · exact ha
    · rfl
  | .call f args, cur, env, h, hc, hv => by
    simp only [INode.all, Bool.and_eq_true] at h
    simp only [ieval]
    exact Def.bind (ievalList_def hroot args cur env h.2 hc hv) fun vs hvs => Def.of_sat (applyFn_sat f (fun _ => nodeOkD_call h.1) hvs)
  | .defineVariables vars child, cur, env, h, hc, hv => by
    simp only [INode.all, Bool.and_eq_true] at h
    simp only [ieval]
    exact Def.bind (ievalFields_def hroot vars cur env h.1.2 hc hv) fun bs hbs =>
      ieval_def hroot child cur (bs ++ env) h.2 hc (goodF_append hbs hv)
  | .filter c f, cur, env, h, hc, hv => by
    simp only [INode.all, Bool.and_eq_true] at h
    simp only [ieval]
    exact Def.bind (ieval_def hroot c cur env h.1.2 hc hv) fun a ha =>
      filterArray_def (fun v hv' => ieval_def hroot f v env h.2 hv' hv) ha
  | .filterCurrent f, cur, env, h, hc, hv => by
    simp only [INode.all, Bool.and_eq_true] at h
    simp only [ieval]
    exact filterArray_def (fun v hv' => ieval_def hroot f v env h.2 hv' hv) hc
  | .filterAndProject l f r, cur, env, h, hc, hv => by
    simp only [INode.all, Bool.and_eq_true] at h
    simp only [ieval]
    exact Def.bind (ieval_def hroot l cur env h.1.1.2 hc hv) fun a ha =>
      filterAndProjectArray_def (fun v hv' => ieval_def hroot f v env h.1.2 hv' hv)
        (fun v hv' => ieval_def hroot r v env h.2 hv' hv) ha
  | .filterAndProjectCurrent f c, cur, env, h, hc, hv => by
    simp only [INode.all, Bool.and_eq_true] at h
    simp only [ieval]
    exact filterAndProjectArray_def (fun v hv' => ieval_def hroot f v env h.1.2 hv' hv)
        (fun v hv' => ieval_def hroot c v env h.2 hv' hv) hc
  | .flatten c, cur, env, h, hc, hv => by
    simp only [INode.all, Bool.and_eq_true] at h
    simp only [ieval]
    exact Def.bind (ieval_def hroot c cur env h.2 hc hv) fun a ha => Def.pure (flatten_good ha)
  | .flattenCurrent, cur, env, h, hc, hv => flatten_good hc
  | .flattenAndProject l r, cur, env, h, hc, hv => by
    simp only [INode.all, Bool.and_eq_true] at h
    simp only [ieval]
    exact Def.bind (ieval_def hroot l cur env h.1.2 hc hv) fun a ha =>
      flattenAndProjectArray_def (fun v hv' => ieval_def hroot r v env h.2 hv' hv) ha
  | .flattenAndProjectCurrent c, cur, env, h, hc, hv => by
    simp only [INode.all, Bool.and_eq_true] at h
    simp only [ieval]
    exact flattenAndProjectArray_def (fun v hv' => ieval_def hroot c v env h.2 hv' hv) hc
  | .index c i, cur, env, h, hc, hv => by
    simp only [INode.all, Bool.and_eq_true] at h
    simp only [ieval]
    exact Def.bind (ieval_def hroot c cur env h.2 hc hv) fun a ha => Def.of_sat (index_sat i ha)
  | .indexCurrent i, cur, env, h, hc, hv => Def.of_sat (index_sat i hc)
  | .smallIndexCurrent i, cur, env, h, hc, hv => Def.of_sat (index_sat _ hc)
  | .objectValues c, cur, env, h, hc, hv => by
    simp only [INode.all, Bool.and_eq_true] at h
    exact absurd h.1 (by simp [nodeOkD, INode.noEnumHeadD])
  | .objectValuesCurrent, cur, env, h, hc, hv => by
    simp only [INode.all] at h
    exact absurd h (by simp [nodeOkD, INode.noEnumHeadD])
  | .pipe l r, cur, env, h, hc, hv => by
    simp only [INode.all, Bool.and_eq_true] at h
    simp only [ieval]
    exact Def.bind (ieval_def hroot l cur env h.1.2 hc hv) fun a ha => ieval_def hroot r a env h.2 ha hv
  | .projectArray l r, cur, env, h, hc, hv => by
    simp only [INode.all, Bool.and_eq_true] at h
    simp only [ieval]
    refine Def.bind (ieval_def hroot l cur env h.1.2 hc hv) fun a ha => ?_
    split
    · split
      · exact ieval_def hroot r _ env h.2 ha hv
      · exact projectArray_def (fun v hv' => ieval_def hroot r v env h.2 hv' hv) ha
    · exact projectArray_def (fun v hv' => ieval_def hroot r v env h.2 hv' hv) ha
  | .projectArrayCurrent c, cur, env, h, hc, hv => by
    simp only [INode.all, Bool.and_eq_true] at h
    simp only [ieval]
    exact projectArray_def (fun v hv' => ieval_def hroot c v env h.2 hv' hv) hc
  | .projectObject l r, cur, env, h, hc, hv => by
    simp only [INode.all, Bool.and_eq_true] at h
    exact absurd h.1.1 (by simp [nodeOkD, INode.noEnumHeadD])
  | .projectObjectCurrent c, cur, env, h, hc, hv => by
    simp only [INode.all, Bool.and_eq_true] at h
    exact absurd h.1 (by simp [nodeOkD, INode.noEnumHeadD])
  | .pruneArray c, cur, env, h, hc, hv => by
    simp only [INode.all, Bool.and_eq_true] at h
    simp only [ieval]
    exact Def.bind (ieval_def hroot c cur env h.2 hc hv) fun a ha => Def.pure (pruneArray_good ha)
  | .pruneArrayCurrent, cur, env, h, hc, hv => pruneArray_good hc
  | .selectArray c fs, cur, env, h, hc, hv => by
    simp only [INode.all, Bool.and_eq_true] at h
    simp only [ieval]
    refine Def.bind (ieval_def hroot c cur env h.1.2 hc hv) fun a ha => ?_
    split
    · exact Def.pure good_null
    · exact Def.bind (ievalList_def hroot fs a env h.2 ha hv) fun vs hvs => Def.pure (good_plainArr hvs)
  | .selectArrayCurrent fs, cur, env, h, hc, hv => by
    simp only [INode.all, Bool.and_eq_true] at h
    simp only [ieval]
    split
    · exact good_null
    · exact Def.bind (ievalList_def hroot fs cur env h.2 hc hv) fun vs hvs => Def.pure (good_plainArr hvs)
  | .selectArraySingle c f, cur, env, h, hc, hv => by
    simp only [INode.all, Bool.and_eq_true] at h
    simp only [ieval]
    refine Def.bind (ieval_def hroot c cur env h.1.2 hc hv) fun a ha => ?_
    split
    · exact Def.pure good_null
    · exact Def.bind (ieval_def hroot f a env h.2 ha hv) fun v hv' =>
        Def.pure (good_plainArr (goodL_cons.mpr ⟨hv', rfl⟩))
  | .selectArraySingleCurrent f, cur, env, h, hc, hv => by
    simp only [INode.all, Bool.and_eq_true] at h
    simp only [ieval]
    exact Def.bind (ieval_def hroot f cur env h.2 hc hv) fun v hv' =>
      Def.pure (good_plainArr (goodL_cons.mpr ⟨hv', rfl⟩))
  | .selectObject c fs, cur, env, h, hc, hv => by
    simp only [INode.all, Bool.and_eq_true] at h
    simp only [ieval]
    refine Def.bind (ieval_def hroot c cur env h.1.2 hc hv) fun a ha => ?_
    split
    · exact Def.pure good_null
    · exact Def.bind (ievalFields_def hroot fs a env h.2 ha hv) fun kvs hk =>
        Def.pure (good_obj.mpr hk)
  | .selectObjectCurrent fs, cur, env, h, hc, hv => by
    simp only [INode.all, Bool.and_eq_true] at h
    simp only [ieval]
    split
    · exact good_null
    · exact Def.bind (ievalFields_def hroot fs cur env h.2 hc hv) fun kvs hk =>
        Def.pure (good_obj.mpr hk)
  | .selectObjectSingle c k f, cur, env, h, hc, hv => by
    simp only [INode.all, Bool.and_eq_true] at h
    simp only [ieval]
    refine Def.bind (ieval_def hroot c cur env h.1.2 hc hv) fun a ha => ?_
    split
    · exact Def.pure good_null
    · exact Def.bind (ieval_def hroot f a env h.2 ha hv) fun v hv' =>
        Def.pure (good_obj.mpr (goodF_cons.mpr ⟨hv', rfl⟩))
  | .selectObjectSingleCurrent k f, cur, env, h, hc, hv => by
    simp only [INode.all, Bool.and_eq_true] at h
    simp only [ieval]
    exact Def.bind (ieval_def hroot f cur env h.2 hc hv) fun v hv' =>
      Def.pure (good_obj.mpr (goodF_cons.mpr ⟨hv', rfl⟩))
  | .slice c a b, cur, env, h, hc, hv => by
    simp only [INode.all, Bool.and_eq_true] at h
    simp only [ieval]
    exact Def.bind (ieval_def hroot c cur env h.2 hc hv) fun v hv' => Def.of_sat (slice_sat a b hv')
  | .sliceCurrent a b, cur, env, h, hc, hv => Def.of_sat (slice_sat a b hc)
  | .sliceStep c a b st, cur, env, h, hc, hv => by
    simp only [INode.all, Bool.and_eq_true] at h
    simp only [ieval]
    exact Def.bind (ieval_def hroot c cur env h.2 hc hv) fun v hv' => Def.of_sat (sliceStep_sat a b st hv')
  | .sliceStepCurrent a b st, cur, env, h, hc, hv => Def.of_sat (sliceStep_sat a b st hc)
  | .groupBy a e, cur, env, h, hc, hv => by
    simp only [INode.all, Bool.and_eq_true] at h
    simp only [ieval]
    exact Def.bind (ieval_def hroot a cur env h.1.2 hc hv) fun v hv' =>
      groupBy_def (fun x hx => ieval_def hroot e x env h.2 hx hv) hv'
  | .map e a, cur, env, h, hc, hv => by
    simp only [INode.all, Bool.and_eq_true] at h
    simp only [ieval]
    exact Def.bind (ieval_def hroot a cur env h.2 hc hv) fun v hv' =>
      mapArray_def (fun x hx => ieval_def hroot e x env h.1.2 hx hv) hv'
  | .maxBy a e, cur, env, h, hc, hv => by
    simp only [INode.all, Bool.and_eq_true] at h
    simp only [ieval]
    exact Def.bind (ieval_def hroot a cur env h.1.2 hc hv) fun v hv' =>
      arrayPickBy_def _ (fun x hx => ieval_def hroot e x env h.2 hx hv) hv'
  | .minBy a e, cur, env, h, hc, hv => by
    simp only [INode.all, Bool.and_eq_true] at h
    simp only [ieval]
    exact Def.bind (ieval_def hroot a cur env h.1.2 hc hv) fun v hv' =>
      arrayPickBy_def _ (fun x hx => ieval_def hroot e x env h.2 hx hv) hv'
  | .sortBy a e, cur, env, h, hc, hv => by
    simp only [INode.all, Bool.and_eq_true] at h
    simp only [ieval]
    exact Def.bind (ieval_def hroot a cur env h.1.2 hc hv) fun v hv' =>
      sortArrayBy_def (fun x hx => ieval_def hroot e x env h.2 hx hv) hv'
  | .merge args, cur, env, h, hc, hv => by
    simp only [INode.all, Bool.and_eq_true] at h
    simp only [ieval]
    exact Def.bind (ievalMerge_def hroot args cur env [] h.2 hc hv rfl) fun kvs hk => Def.pure (good_obj.mpr hk)
  | .notNull args, cur, env, h, hc, hv => by
    simp only [INode.all, Bool.and_eq_true] at h
    simp only [ieval]
    exact ievalNotNull_def hroot args cur env h.2 hc hv
  | .zip args, cur, env, h, hc, hv => by
    simp only [INode.all, Bool.and_eq_true] at h
    simp only [ieval]
    refine Def.bind (ievalZip_def hroot args cur env h.2 hc hv) fun vs hvs =>
      Def.bind (Def.of_sat (zipArgs_sat hvs)) fun cols hcols => ?_
    split
    · exact Def.pure (good_plainArr rfl)
    · exact Def.pure (good_plainArr (goodL_zipRows _ hcols))
theorem ievalList_def {root : Val} (hroot : root.Good true = true) :
    ∀ (ns : List INode) (cur : Val) (env : Env), INode.allL nodeOkD ns = true → cur.Good true = true →
      Val.GoodF true env = true → DefLR (ievalList root ns cur env)
  | [], cur, env, h, hc, hv => goodL_nil
  | n :: ns, cur, env, h, hc, hv => by
    simp only [INode.allL, Bool.and_eq_true] at h
    simp only [ievalList]
    exact Def.bind (ieval_def hroot n cur env h.1 hc hv) fun v hv' =>
      Def.bind (ievalList_def hroot ns cur env h.2 hc hv) fun vs hvs => Def.pure (goodL_cons.mpr ⟨hv', hvs⟩)
theorem ievalFields_def {root : Val} (hroot : root.Good true = true) :
    ∀ (fs : List (Bytes × INode)) (cur : Val) (env : Env), INode.allF nodeOkD fs = true → cur.Good true = true →
      Val.GoodF true env = true → DefFR (ievalFields root fs cur env)
  | [], cur, env, h, hc, hv => goodF_nil
  | (k, n) :: rest, cur, env, h, hc, hv => by
    simp only [INode.allF, Bool.and_eq_true] at h
    simp only [ievalFields]
    exact combineUnordered_def k (ievalFields_def hroot rest cur env h.2 hc hv) (ieval_def hroot n cur env h.1 hc hv)
theorem ievalMerge_def {root : Val} (hroot : root.Good true = true) :
    ∀ (ns : List INode) (cur : Val) (env : Env) (acc : List (Bytes × Val)), INode.allL nodeOkD ns = true →
      cur.Good true = true → Val.GoodF true env = true → Val.GoodF true acc = true →
      DefFR (ievalMerge root ns cur env acc)
  | [], cur, env, acc, h, hc, hv, ha => ha
  | n :: ns, cur, env, acc, h, hc, hv, ha => by
    simp only [INode.allL, Bool.and_eq_true] at h
    simp only [ievalMerge]
    refine Def.bind (ieval_def hroot n cur env h.1 hc hv) fun v hv' => ?_
    split
    · exact ievalMerge_def hroot ns cur env _ h.2 hc hv (goodF_foldInsert (good_obj.mp hv') ha)
    · exact Def.errType
theorem ievalNotNull_def {root : Val} (hroot : root.Good true = true) :
    ∀ (ns : List INode) (cur : Val) (env : Env), INode.allL nodeOkD ns = true → cur.Good true = true →
      Val.GoodF true env = true → DefR (ievalNotNull root ns cur env)
  | [], cur, env, h, hc, hv => good_null
  | n :: ns, cur, env, h, hc, hv => by
    simp only [INode.allL, Bool.and_eq_true] at h
    simp only [ievalNotNull]
    refine Def.bind (ieval_def hroot n cur env h.1 hc hv) fun v hv' => ?_
    split
    · exact ievalNotNull_def hroot ns cur env h.2 hc hv
    · exact Def.pure hv'
theorem ievalZip_def {root : Val} (hroot : root.Good true = true) :
    ∀ (ns : List INode) (cur : Val) (env : Env), INode.allL nodeOkD ns = true → cur.Good true = true →
      Val.GoodF true env = true → DefLR (ievalZip root ns cur env)
  | [], cur, env, h, hc, hv => goodL_nil
  | n :: ns, cur, env, h, hc, hv => by
    simp only [INode.allL, Bool.and_eq_true] at h
    simp only [ievalZip]
    refine Def.bind (ieval_def hroot n cur env h.1 hc hv) fun v hv' => ?_
    split
    · exact Def.bind (ievalZip_def hroot ns cur env h.2 hc hv) fun vs hvs => Def.pure (goodL_cons.mpr ⟨hv', hvs⟩)
    · exact Def.errType
end

end Invar
end Jmes
