/-
  Helper for property C14, fourth round: the binary induction over expressions for an ARBITRARY accounting of exactly
  representable floats (`Grading`, `Jmes/Proofs/C14EGrade.lean`) and EVERY builtin but `to_string` — `sum`, `avg`,
  `sort` included, which may decline (`.nondet`) on one side only.

   * `seval_rnwG`: if every arithmetic operator of `t` meets its operands within budget (`budget Γ t g`), evaluation on
     two related inputs (`VR false`: same values, any mix of representations) whose floats are of grade `g` gives
     outcomes in `RNW`: either run declines, or both end in a panic / unmodelled outcome, or the outcomes are related.
     It is `seval_rrG` (`C14EGradeEval.lean`) with the outcome relation of `seval_rnw` (`C14ENondet2.lean`).
   * `evaluate_congr_graded_all`, `evaluate_graded_exact_all`, `evaluate_value_graded_all`, `ieval_congr_graded_all`: the
     statements on `evaluate` / `ieval`.
-/
import Jmes.Proofs.C14EGradeN
namespace Jmes
namespace C14E
open C14 C14B C14C

variable {G : Type}

mutual
/-- **the binary induction, up to declining.**  Two runs of `t` on related roots, current values and environments
    (`InpG`: same values in any mix of representations, every float of grade `g` on both sides), every arithmetic
    operator of `t` within budget, any builtin but `to_string`: either run declines (`.nondet`), or both end in a
    panic / unmodelled outcome, or the two outcomes are the same failure or values equal up to representation.
    Wherever a sub-result is fed to a further sub-expression, the unary invariant `seval_fbGN` supplies the grade of
    its floats (through the equations of `rng_bind_eq`). -/
theorem seval_rnwG (Γ : Grading G) (B : G) {root root' : Val} (hroot : VR false root root')
    (hr : AllF (Γ.P B) root) (hr' : AllF (Γ.P B) root') : (t : Tree) → FragEN t →
      ∀ (g : G) (cur cur' : Val) (env env' : Env), InpG Γ B g root root' cur cur' env env' → budget Γ t g = true →
      RNW (VR false) (seval root t cur env) (seval root' t cur' env')
  | .lit v, hl, _, _, _, _, _, _, _ => by
    simp only [Tree.Ops] at hl
    simp only [seval]; exact RNG.ok' (vr_self v hl.1 (fun e => by cases e))
  | .current, _, _, _, _, _, _, I, _ => by simp only [seval]; exact RNG.ok' I.c
  | .root, _, _, _, _, _, _, _, _ => by simp only [seval]; exact RNG.ok' hroot
  | .field x, _, _, _, _, _, _, I, _ => by simp only [seval]; exact RNG.ok' (field_vr x I.c)
  | .var x, _, _, _, _, env, env', I, _ => by simp only [seval]; exact RNG.of_rr (envGet_rr' I.e x)
  | .index i, _, _, _, _, _, _, I, _ => by simp only [seval]; exact RNG.of_rr (index_rr I.c i)
  | .slice a b, _, _, _, _, _, _, I, _ => by simp only [seval]; exact RNG.of_rr (slice_rr I.c a b)
  | .sliceStep a b s, _, _, _, _, _, _, I, _ => by simp only [seval]; exact RNG.of_rr (sliceStep_rr I.c a b s)
  | .sub l r, hl, g, cur, cur', env, env', I, hb => by
    simp only [Tree.Ops] at hl
    simp only [budget, Bool.and_eq_true] at hb
    simp only [seval]
    refine rng_bind_eq (seval_rnwG Γ B hroot hr hr' l hl.1 g cur cur' env env' I hb.1) (fun a a' ea ea' ha => ?_)
    have f1 := seval_fbGN Γ B root hr l cur env g hl.1 I.hB hb.1 I.fc I.fe a ea
    have f1' := seval_fbGN Γ B root' hr' l cur' env' g hl.1 I.hB hb.1 I.fc' I.fe' a' ea'
    exact seval_rnwG Γ B hroot hr hr' r hl.2 (grade Γ l g) a a' env env' (I.lift (le_grade Γ l g) ha f1 f1') hb.2
  | .binop op l r, hl, g, cur, cur', env, env', I, hb => by
    simp only [Tree.Ops] at hl
    simp only [budget, Bool.and_eq_true, Bool.or_eq_true] at hb
    simp only [seval]
    refine rng_bind_eq (seval_rnwG Γ B hroot hr hr' l hl.2.1 g cur cur' env env' I hb.1.1) (fun a a' ea ea' ha => ?_)
    refine rng_bind_eq (seval_rnwG Γ B hroot hr hr' r hl.2.2 g cur cur' env env' I hb.1.2) (fun b b' eb eb' hb2 => ?_)
    by_cases hcmp : op.isCmp = true
    · exact RNG.of_rr (opCongr_cmp hcmp a a' b b' ha hb2)
    · have f1 := seval_fbGN Γ B root hr l cur env g hl.2.1 I.hB hb.1.1 I.fc I.fe a ea
      have f1' := seval_fbGN Γ B root' hr' l cur' env' g hl.2.1 I.hB hb.1.1 I.fc' I.fe' a' ea'
      have f2 := seval_fbGN Γ B root hr r cur env g hl.2.2 I.hB hb.1.2 I.fc I.fe b eb
      have f2' := seval_fbGN Γ B root' hr' r cur' env' g hl.2.2 I.hB hb.1.2 I.fc' I.fe' b' eb'
      exact RNG.of_rr (Γ.op_rr ((Bool.not_eq_true _).mp hcmp) (hb.2.resolve_left hcmp) ha hb2 f1 f1' f2 f2')
  | .and l r, hl, g, cur, cur', env, env', I, hb => by
    simp only [Tree.Ops] at hl
    simp only [budget, Bool.and_eq_true] at hb
    simp only [seval]
    refine RNG.bind (seval_rnwG Γ B hroot hr hr' l hl.1 g cur cur' env env' I hb.1) (fun a a' ha => ?_)
    rw [isTrue_vr ha]
    split
    · exact RNG.ok' ha
    · exact seval_rnwG Γ B hroot hr hr' r hl.2 g cur cur' env env' I hb.2
  | .or l r, hl, g, cur, cur', env, env', I, hb => by
    simp only [Tree.Ops] at hl
    simp only [budget, Bool.and_eq_true] at hb
    simp only [seval]
    refine RNG.bind (seval_rnwG Γ B hroot hr hr' l hl.1 g cur cur' env env' I hb.1) (fun a a' ha => ?_)
    rw [isTrue_vr ha]
    split
    · exact RNG.ok' ha
    · exact seval_rnwG Γ B hroot hr hr' r hl.2 g cur cur' env env' I hb.2
  | .not c, hl, g, cur, cur', env, env', I, hb => by
    simp only [Tree.Ops] at hl
    simp only [budget] at hb
    simp only [seval]
    refine RNG.bind (seval_rnwG Γ B hroot hr hr' c hl g cur cur' env env' I hb) (fun a a' ha => ?_)
    rw [isTrue_vr ha]; exact RNG.ok' (vr_bool _)
  | .neg c, hl, g, cur, cur', env, env', I, hb => by
    simp only [Tree.Ops] at hl
    simp only [budget] at hb
    simp only [seval]
    exact RNG.bind (seval_rnwG Γ B hroot hr hr' c hl.2 g cur cur' env env' I hb)
      (fun a a' ha => RNG.ok' (negCongr a a' ha))
  | .pos c, hl, g, cur, cur', env, env', I, hb => by
    simp only [Tree.Ops] at hl
    simp only [budget] at hb
    simp only [seval]
    refine RNG.bind (seval_rnwG Γ B hroot hr hr' c hl g cur cur' env env' I hb) (fun a a' ha => ?_)
    simp only [Res.pure_eq, isNumber_vr ha]
    split
    · exact RNG.ok' ha
    · exact RNG.ok' vr_null
  | .call f args, hl, g, cur, cur', env, env', I, hb => by
    simp only [Tree.Ops] at hl
    simp only [budget] at hb
    simp only [seval]
    exact RNG.bind (sevalList_rnwG Γ B hroot hr hr' args hl.2 g cur cur' env env' I hb)
      (fun vs vs' hvs => (fnCongrN_of_ne_toString hl.1 vs vs' hvs).toG)
  | .prune l, hl, g, cur, cur', env, env', I, hb => by
    simp only [Tree.Ops] at hl
    simp only [budget] at hb
    simp only [seval]
    exact RNG.bind (seval_rnwG Γ B hroot hr hr' l hl g cur cur' env env' I hb) (fun a a' ha => RNG.ok' (pruneArray_vr ha))
  | .proj l r, hl, g, cur, cur', env, env', I, hb => by
    simp only [Tree.Ops] at hl
    simp only [budget, Bool.and_eq_true] at hb
    simp only [seval]
    refine rng_bind_eq (seval_rnwG Γ B hroot hr hr' l hl.1 g cur cur' env env' I hb.1) (fun a a' ea ea' ha => ?_)
    have f1 := seval_fbGN Γ B root hr l cur env g hl.1 I.hB hb.1 I.fc I.fe a ea
    have f1' := seval_fbGN Γ B root' hr' l cur' env' g hl.1 I.hB hb.1 I.fc' I.fe' a' ea'
    exact projectArray_rgp (P := Γ.P (grade Γ l g))
      (fun x x' hx fx fx' => seval_rnwG Γ B hroot hr hr' r hl.2 (grade Γ l g) x x' env env'
        (I.lift (le_grade Γ l g) hx fx fx') hb.2) ha f1 f1'
  | .sliceProj l r, hl, g, cur, cur', env, env', I, hb => by
    simp only [Tree.Ops] at hl
    simp only [budget, Bool.and_eq_true] at hb
    simp only [seval]
    refine rng_bind_eq (seval_rnwG Γ B hroot hr hr' l hl.1 g cur cur' env env' I hb.1) (fun a a' ea ea' ha => ?_)
    have f1 := seval_fbGN Γ B root hr l cur env g hl.1 I.hB hb.1 I.fc I.fe a ea
    have f1' := seval_fbGN Γ B root' hr' l cur' env' g hl.1 I.hB hb.1 I.fc' I.fe' a' ea'
    have hf : FRGp true false (Γ.P (grade Γ l g)) (fun x => seval root r x env) (fun x => seval root' r x env') :=
      fun x x' hx fx fx' => seval_rnwG Γ B hroot hr hr' r hl.2 (grade Γ l g) x x' env env'
        (I.lift (le_grade Γ l g) hx fx fx') hb.2
    have hp := projectArray_rgp hf ha f1 f1'
    cases a <;> cases a' <;> simp only [VR] at ha <;> try exact hp
    exact hf _ _ (by simp only [VR]; exact ha) f1 f1'
  | .flatProj l r, hl, g, cur, cur', env, env', I, hb => by
    simp only [Tree.Ops] at hl
    simp only [budget, Bool.and_eq_true] at hb
    simp only [seval]
    refine rng_bind_eq (seval_rnwG Γ B hroot hr hr' l hl.1 g cur cur' env env' I hb.1) (fun a a' ea ea' ha => ?_)
    have f1 := seval_fbGN Γ B root hr l cur env g hl.1 I.hB hb.1 I.fc I.fe a ea
    have f1' := seval_fbGN Γ B root' hr' l cur' env' g hl.1 I.hB hb.1 I.fc' I.fe' a' ea'
    exact flattenAndProjectArray_rgp (P := Γ.P (grade Γ l g))
      (fun x x' hx fx fx' => seval_rnwG Γ B hroot hr hr' r hl.2 (grade Γ l g) x x' env env'
        (I.lift (le_grade Γ l g) hx fx fx') hb.2) ha f1 f1'
  | .filterProj l c r, hl, g, cur, cur', env, env', I, hb => by
    simp only [Tree.Ops] at hl
    simp only [budget, Bool.and_eq_true] at hb
    simp only [seval]
    refine rng_bind_eq (seval_rnwG Γ B hroot hr hr' l hl.1 g cur cur' env env' I hb.1.1) (fun a a' ea ea' ha => ?_)
    have f1 := seval_fbGN Γ B root hr l cur env g hl.1 I.hB hb.1.1 I.fc I.fe a ea
    have f1' := seval_fbGN Γ B root' hr' l cur' env' g hl.1 I.hB hb.1.1 I.fc' I.fe' a' ea'
    exact filterAndProjectArray_rgp (P := Γ.P (grade Γ l g))
      (fun x x' hx fx fx' => seval_rnwG Γ B hroot hr hr' c hl.2.1 (grade Γ l g) x x' env env'
        (I.lift (le_grade Γ l g) hx fx fx') hb.1.2)
      (fun x x' hx fx fx' => seval_rnwG Γ B hroot hr hr' r hl.2.2 (grade Γ l g) x x' env env'
        (I.lift (le_grade Γ l g) hx fx fx') hb.2)
      ha f1 f1'
  | .valueProj l r, hl, g, cur, cur', env, env', I, hb => by
    simp only [Tree.Ops] at hl
    simp only [budget, Bool.and_eq_true] at hb
    simp only [seval]
    refine rng_bind_eq (seval_rnwG Γ B hroot hr hr' l hl.1 g cur cur' env env' I hb.1) (fun a a' ea ea' ha => ?_)
    have f1 := seval_fbGN Γ B root hr l cur env g hl.1 I.hB hb.1 I.fc I.fe a ea
    have f1' := seval_fbGN Γ B root' hr' l cur' env' g hl.1 I.hB hb.1 I.fc' I.fe' a' ea'
    exact projectObject_rgp (P := Γ.P (grade Γ l g))
      (fun x x' hx fx fx' => seval_rnwG Γ B hroot hr hr' r hl.2 (grade Γ l g) x x' env env'
        (I.lift (le_grade Γ l g) hx fx fx') hb.2) ha f1 f1'
  | .multiList chk es, hl, g, cur, cur', env, env', I, hb => by
    simp only [Tree.Ops] at hl
    simp only [budget] at hb
    simp only [seval, isNull_vr I.c]
    split
    · exact RNG.ok' vr_null
    · exact RNG.bind (sevalList_rnwG Γ B hroot hr hr' es hl g cur cur' env env' I hb)
        (fun vs vs' hvs => RNG.ok' (vr_arr hvs))
  | .multiHash chk kvs, hl, g, cur, cur', env, env', I, hb => by
    simp only [Tree.Ops] at hl
    simp only [budget] at hb
    simp only [seval, isNull_vr I.c]
    split
    · exact RNG.ok' vr_null
    · exact RNG.bind (sevalFields_rnwG Γ B hroot hr hr' kvs hl g cur cur' env env' I hb)
        (fun fs fs' hfs => RNG.ok' (vr_obj hfs))
  | .letIn bs body, hl, g, cur, cur', env, env', I, hb => by
    simp only [Tree.Ops] at hl
    simp only [budget, Bool.and_eq_true] at hb
    simp only [seval]
    refine rng_bind_eq (sevalFields_rnwG Γ B hroot hr hr' bs hl.1 g cur cur' env env' I hb.1)
      (fun vs vs' e1 e1' hvs => ?_)
    have f1 := sevalFields_fbGQ Γ B root hr bs cur env g hl.1 I.hB hb.1 I.fc I.fe vs e1
    have f1' := sevalFields_fbGQ Γ B root' hr' bs cur' env' g hl.1 I.hB hb.1 I.fc' I.fe' vs' e1'
    have hle := le_gradeF Γ bs g
    refine seval_rnwG Γ B hroot hr hr' body hl.2 (gradeF Γ bs g) cur cur' (vs ++ env) (vs' ++ env')
      ⟨Γ.le_trans I.hB hle, I.c, upG Γ hle I.fc, upG Γ hle I.fc', vrf_append hvs I.e, ?_, ?_⟩ hb.2
    · intro k' x hm
      rcases List.mem_append.mp hm with hm | hm
      · exact f1 k' x hm
      · exact upG Γ hle (I.fe k' x hm)
    · intro k' x hm
      rcases List.mem_append.mp hm with hm | hm
      · exact f1' k' x hm
      · exact upG Γ hle (I.fe' k' x hm)
  | .groupBy a e, hl, g, cur, cur', env, env', I, hb => by
    simp only [Tree.Ops] at hl
    simp only [budget, Bool.and_eq_true] at hb
    simp only [seval]
    refine rng_bind_eq (seval_rnwG Γ B hroot hr hr' a hl.1 g cur cur' env env' I hb.1) (fun v v' ev ev' hv => ?_)
    have f1 := seval_fbGN Γ B root hr a cur env g hl.1 I.hB hb.1 I.fc I.fe v ev
    have f1' := seval_fbGN Γ B root' hr' a cur' env' g hl.1 I.hB hb.1 I.fc' I.fe' v' ev'
    exact groupBy_rgp (P := Γ.P (grade Γ a g))
      (fun x x' hx fx fx' => seval_rnwG Γ B hroot hr hr' e hl.2 (grade Γ a g) x x' env env'
        (I.lift (le_grade Γ a g) hx fx fx') hb.2) hv f1 f1'
  | .map e a, hl, g, cur, cur', env, env', I, hb => by
    simp only [Tree.Ops] at hl
    simp only [budget, Bool.and_eq_true] at hb
    simp only [seval]
    refine rng_bind_eq (seval_rnwG Γ B hroot hr hr' a hl.2 g cur cur' env env' I hb.1) (fun v v' ev ev' hv => ?_)
    have f1 := seval_fbGN Γ B root hr a cur env g hl.2 I.hB hb.1 I.fc I.fe v ev
    have f1' := seval_fbGN Γ B root' hr' a cur' env' g hl.2 I.hB hb.1 I.fc' I.fe' v' ev'
    exact mapArray_rgp (P := Γ.P (grade Γ a g))
      (fun x x' hx fx fx' => seval_rnwG Γ B hroot hr hr' e hl.1 (grade Γ a g) x x' env env'
        (I.lift (le_grade Γ a g) hx fx fx') hb.2) hv f1 f1'
  | .maxBy a e, hl, g, cur, cur', env, env', I, hb => by
    simp only [Tree.Ops] at hl
    simp only [budget, Bool.and_eq_true] at hb
    simp only [seval]
    refine rng_bind_eq (seval_rnwG Γ B hroot hr hr' a hl.1 g cur cur' env env' I hb.1) (fun v v' ev ev' hv => ?_)
    have f1 := seval_fbGN Γ B root hr a cur env g hl.1 I.hB hb.1 I.fc I.fe v ev
    have f1' := seval_fbGN Γ B root' hr' a cur' env' g hl.1 I.hB hb.1 I.fc' I.fe' v' ev'
    exact arrayMaxBy_rgp (P := Γ.P (grade Γ a g))
      (fun x x' hx fx fx' => seval_rnwG Γ B hroot hr hr' e hl.2 (grade Γ a g) x x' env env'
        (I.lift (le_grade Γ a g) hx fx fx') hb.2) hv f1 f1'
  | .minBy a e, hl, g, cur, cur', env, env', I, hb => by
    simp only [Tree.Ops] at hl
    simp only [budget, Bool.and_eq_true] at hb
    simp only [seval]
    refine rng_bind_eq (seval_rnwG Γ B hroot hr hr' a hl.1 g cur cur' env env' I hb.1) (fun v v' ev ev' hv => ?_)
    have f1 := seval_fbGN Γ B root hr a cur env g hl.1 I.hB hb.1 I.fc I.fe v ev
    have f1' := seval_fbGN Γ B root' hr' a cur' env' g hl.1 I.hB hb.1 I.fc' I.fe' v' ev'
    exact arrayMinBy_rgp (P := Γ.P (grade Γ a g))
      (fun x x' hx fx fx' => seval_rnwG Γ B hroot hr hr' e hl.2 (grade Γ a g) x x' env env'
        (I.lift (le_grade Γ a g) hx fx fx') hb.2) hv f1 f1'
  | .sortBy a e, hl, g, cur, cur', env, env', I, hb => by
    simp only [Tree.Ops] at hl
    simp only [budget, Bool.and_eq_true] at hb
    simp only [seval]
    refine rng_bind_eq (seval_rnwG Γ B hroot hr hr' a hl.1 g cur cur' env env' I hb.1) (fun v v' ev ev' hv => ?_)
    have f1 := seval_fbGN Γ B root hr a cur env g hl.1 I.hB hb.1 I.fc I.fe v ev
    have f1' := seval_fbGN Γ B root' hr' a cur' env' g hl.1 I.hB hb.1 I.fc' I.fe' v' ev'
    exact sortArrayBy_rgp (P := Γ.P (grade Γ a g))
      (fun x x' hx fx fx' => seval_rnwG Γ B hroot hr hr' e hl.2 (grade Γ a g) x x' env env'
        (I.lift (le_grade Γ a g) hx fx fx') hb.2) hv f1 f1'
  | .merge args, hl, g, cur, cur', env, env', I, hb => by
    simp only [Tree.Ops] at hl
    simp only [budget] at hb
    simp only [seval]
    exact RNG.bind (sevalMerge_rnwG Γ B hroot hr hr' args hl g cur cur' env env' [] [] I hb vrf_nil)
      (fun kvs kvs' hk => RNG.ok' (vr_obj hk))
  | .notNull args, hl, g, cur, cur', env, env', I, hb => by
    simp only [Tree.Ops] at hl
    simp only [budget] at hb
    simp only [seval]
    exact sevalNotNull_rnwG Γ B hroot hr hr' args hl g cur cur' env env' I hb
  | .zip args, hl, g, cur, cur', env, env', I, hb => by
    simp only [Tree.Ops] at hl
    simp only [budget] at hb
    simp only [seval]
    refine RNG.bind (sevalZip_rnwG Γ B hroot hr hr' args hl g cur cur' env env' I hb) (fun vs vs' hvs =>
      RNG.bind (RNG.of_rr (zipArgs_rr hvs)) (fun cols cols' hcols => ?_))
    cases cols with
    | nil => cases cols' with
      | nil => exact RNG.ok' (vr_arr vrl_nil)
      | cons _ _ => simp [L2] at hcols
    | cons c cs => cases cols' with
      | nil => simp [L2] at hcols
      | cons c' cs' =>
        have hcols' := hcols
        simp only [L2] at hcols
        simp only [vrl_length hcols.1, minLen_cols _ hcols.2]
        exact RNG.ok' (vr_arr (zipRows_vrl _ hcols'))
theorem sevalList_rnwG (Γ : Grading G) (B : G) {root root' : Val} (hroot : VR false root root')
    (hr : AllF (Γ.P B) root) (hr' : AllF (Γ.P B) root') : (ts : List Tree) → FragENL ts →
      ∀ (g : G) (cur cur' : Val) (env env' : Env), InpG Γ B g root root' cur cur' env env' →
      budgetL Γ ts g = true → RNW (VRL false) (sevalList root ts cur env) (sevalList root' ts cur' env')
  | [], _, _, _, _, _, _, _, _ => by simp only [sevalList]; exact RNG.ok' vrl_nil
  | t :: ts, hl, g, cur, cur', env, env', I, hb => by
    simp only [Tree.OpsL] at hl
    simp only [budgetL, Bool.and_eq_true] at hb
    simp only [sevalList]
    exact RNG.bind (seval_rnwG Γ B hroot hr hr' t hl.1 g cur cur' env env' I hb.1)
      (fun v v' hv => RNG.bind (sevalList_rnwG Γ B hroot hr hr' ts hl.2 g cur cur' env env' I hb.2)
        (fun vs vs' hvs => RNG.ok' (vrl_cons hv hvs)))
theorem sevalFields_rnwG (Γ : Grading G) (B : G) {root root' : Val} (hroot : VR false root root')
    (hr : AllF (Γ.P B) root) (hr' : AllF (Γ.P B) root') : (fs : List (Bytes × Tree)) → FragENF fs →
      ∀ (g : G) (cur cur' : Val) (env env' : Env), InpG Γ B g root root' cur cur' env env' →
      budgetF Γ fs g = true → RNW (VRF false) (sevalFields root fs cur env) (sevalFields root' fs cur' env')
  | [], _, _, _, _, _, _, _, _ => by simp only [sevalFields]; exact RNG.ok' vrf_nil
  | (k0, t) :: rest, hl, g, cur, cur', env, env', I, hb => by
    simp only [Tree.OpsF] at hl
    simp only [budgetF, Bool.and_eq_true] at hb
    simp only [sevalFields]
    exact combineUnordered_rnw k0
      (sevalFields_rnwG Γ B hroot hr hr' rest hl.2 g cur cur' env env' I hb.2)
      (seval_rnwG Γ B hroot hr hr' t hl.1 g cur cur' env env' I hb.1)
theorem sevalMerge_rnwG (Γ : Grading G) (B : G) {root root' : Val} (hroot : VR false root root')
    (hr : AllF (Γ.P B) root) (hr' : AllF (Γ.P B) root') : (ts : List Tree) → FragENL ts →
      ∀ (g : G) (cur cur' : Val) (env env' : Env) (acc acc' : List (Bytes × Val)),
      InpG Γ B g root root' cur cur' env env' → budgetL Γ ts g = true → VRF false acc acc' →
      RNW (VRF false) (sevalMerge root ts cur env acc) (sevalMerge root' ts cur' env' acc')
  | [], _, _, _, _, _, _, _, _, _, _, ha => by simp only [sevalMerge]; exact RNG.ok' ha
  | t :: ts, hl, g, cur, cur', env, env', acc, acc', I, hb, ha => by
    simp only [Tree.OpsL] at hl
    simp only [budgetL, Bool.and_eq_true] at hb
    simp only [sevalMerge]
    refine RNG.bind (seval_rnwG Γ B hroot hr hr' t hl.1 g cur cur' env env' I hb.1) (fun v v' hv => ?_)
    cases v <;> cases v' <;> simp only [VR] at hv <;> try exact rg_errType
    exact sevalMerge_rnwG Γ B hroot hr hr' ts hl.2 g cur cur' env env' _ _ I hb.2 (foldInsert_vrf hv ha)
theorem sevalNotNull_rnwG (Γ : Grading G) (B : G) {root root' : Val} (hroot : VR false root root')
    (hr : AllF (Γ.P B) root) (hr' : AllF (Γ.P B) root') : (ts : List Tree) → FragENL ts →
      ∀ (g : G) (cur cur' : Val) (env env' : Env), InpG Γ B g root root' cur cur' env env' →
      budgetL Γ ts g = true → RNW (VR false) (sevalNotNull root ts cur env) (sevalNotNull root' ts cur' env')
  | [], _, _, _, _, _, _, _, _ => by simp only [sevalNotNull]; exact RNG.ok' vr_null
  | t :: ts, hl, g, cur, cur', env, env', I, hb => by
    simp only [Tree.OpsL] at hl
    simp only [budgetL, Bool.and_eq_true] at hb
    simp only [sevalNotNull]
    refine RNG.bind (seval_rnwG Γ B hroot hr hr' t hl.1 g cur cur' env env' I hb.1) (fun v v' hv => ?_)
    rw [isNull_vr hv]
    split
    · exact sevalNotNull_rnwG Γ B hroot hr hr' ts hl.2 g cur cur' env env' I hb.2
    · exact RNG.ok' hv
theorem sevalZip_rnwG (Γ : Grading G) (B : G) {root root' : Val} (hroot : VR false root root')
    (hr : AllF (Γ.P B) root) (hr' : AllF (Γ.P B) root') : (ts : List Tree) → FragENL ts →
      ∀ (g : G) (cur cur' : Val) (env env' : Env), InpG Γ B g root root' cur cur' env env' →
      budgetL Γ ts g = true → RNW (VRL false) (sevalZip root ts cur env) (sevalZip root' ts cur' env')
  | [], _, _, _, _, _, _, _, _ => by simp only [sevalZip]; exact RNG.ok' vrl_nil
  | t :: ts, hl, g, cur, cur', env, env', I, hb => by
    simp only [Tree.OpsL] at hl
    simp only [budgetL, Bool.and_eq_true] at hb
    simp only [sevalZip]
    refine RNG.bind (seval_rnwG Γ B hroot hr hr' t hl.1 g cur cur' env env' I hb.1) (fun v v' hv => ?_)
    have hv' := hv
    cases v <;> cases v' <;> simp only [VR] at hv <;> try exact rg_errType
    exact RNG.bind (sevalZip_rnwG Γ B hroot hr hr' ts hl.2 g cur cur' env env' I hb.2)
      (fun vs vs' hvs => RNG.ok' (vrl_cons hv' hvs))
end

/-! ## corollaries on `evaluate` / `ieval` -/

/-- **Every intermediate value is of the computed grade**, for an expression with any builtin but `to_string`
    (`sum`, `avg`, `sort` included).  Evaluated on a document whose floats are of grade `B`, if every arithmetic operator
    meets its operands within budget: every float of the result is of grade `grade Γ (desugar n) B` — and the same
    holds of every intermediate value (the statement is the invariant of the induction, `seval_fbGN`). -/
theorem evaluate_graded_exact_all (Γ : Grading G) {n : INode} (hn : FragEN (desugar n)) {B : G}
    (hb : budget Γ (desugar n) B = true) {d w : Val} (hf : AllF (Γ.P B) d) (h : evaluate n d = .ok w) :
    AllF (Γ.P (grade Γ (desugar n) B)) w := by
  unfold evaluate at h
  rw [ieval_desugar] at h
  exact seval_fbGN Γ B d hf (desugar n) d [] B hn (Γ.le_refl _) hb hf (fun _ _ hm => by cases hm) w h

/-- **Representation independence under an arbitrary accounting of exact representability, every builtin but
    `to_string`**: two documents that differ only in the Go types carrying their numbers, floats of grade `B` on both
    sides, every arithmetic operator within its budget along the flow of values.  Then either run declines
    (`.nondet`: `sum`, `avg`, `sort`, `max_by`, … could not show their answer independent of the map order), or both
    runs end in a panic / unmodelled outcome, or the two runs end in the same failure or in results equal up to
    representation. -/
theorem evaluate_congr_graded_all (Γ : Grading G) {n : INode} (hn : FragEN (desugar n)) {B : G}
    (hb : budget Γ (desugar n) B = true) {d d' : Val} (h : VR false d d') (hf : AllF (Γ.P B) d)
    (hf' : AllF (Γ.P B) d') : RNW (VR false) (evaluate n d) (evaluate n d') := by
  unfold evaluate
  rw [ieval_desugar, ieval_desugar]
  exact seval_rnwG Γ B h hf hf' (desugar n) hn B d d' [] []
    ⟨Γ.le_refl _, h, hf, hf', vrf_nil, (fun _ _ hm => by cases hm), (fun _ _ hm => by cases hm)⟩ hb

/-- … for `ieval` with arbitrary related current values and environments -/
theorem ieval_congr_graded_all (Γ : Grading G) {n : INode} (hn : FragEN (desugar n)) {B : G}
    (hb : budget Γ (desugar n) B = true) {root root' cur cur' : Val} {env env' : Env}
    (hr : VR false root root') (fr : AllF (Γ.P B) root) (fr' : AllF (Γ.P B) root')
    (hc : VR false cur cur') (fc : AllF (Γ.P B) cur) (fc' : AllF (Γ.P B) cur')
    (he : VRF false env env') (fe : EnvAF (Γ.P B) env) (fe' : EnvAF (Γ.P B) env') :
    RNW (VR false) (ieval root n cur env) (ieval root' n cur' env') := by
  rw [ieval_desugar, ieval_desugar]
  exact seval_rnwG Γ B hr fr fr' (desugar n) hn B cur cur' env env' ⟨Γ.le_refl _, hc, fc, fc', he, fe, fe'⟩ hb

/-- … with the conclusion `RN` (either run declines, or the outcomes are related) when one of the two runs does not
    end in a panic / unmodelled outcome -/
theorem evaluate_rn_graded_all (Γ : Grading G) {n : INode} (hn : FragEN (desugar n)) {B : G}
    (hb : budget Γ (desugar n) B = true) {d d' : Val} (h : VR false d d') (hf : AllF (Γ.P B) d)
    (hf' : AllF (Γ.P B) d') (hbad : ¬ (Bad (evaluate n d) ∧ Bad (evaluate n d'))) :
    RN (VR false) (evaluate n d) (evaluate n d') :=
  RN.of_rnw (evaluate_congr_graded_all Γ hn hb h hf hf') hbad

/-- **a value on one side is matched by a related value on the other side, unless that side declines** -/
theorem evaluate_value_graded_all (Γ : Grading G) {n : INode} (hn : FragEN (desugar n)) {B : G}
    (hb : budget Γ (desugar n) B = true) {d d' : Val} (h : VR false d d') (hf : AllF (Γ.P B) d)
    (hf' : AllF (Γ.P B) d') {v : Val} (hv : evaluate n d = .ok v) :
    evaluate n d' = .nondet ∨ ∃ v', evaluate n d' = .ok v' ∧ VR false v v' := by
  have := evaluate_congr_graded_all Γ hn hb h hf hf'
  rw [hv] at this
  rcases this with e | e | e | e
  · cases e
  · exact .inl e
  · exact absurd e.2.1 (by simp [Bad])
  · cases h2 : evaluate n d' <;> rw [h2] at e <;> simp only [RR] at e
    exact .inr ⟨_, rfl, e⟩

/-- … and both values are of the computed grade -/
theorem evaluate_value_graded_all_exact (Γ : Grading G) {n : INode} (hn : FragEN (desugar n)) {B : G}
    (hb : budget Γ (desugar n) B = true) {d d' : Val} (h : VR false d d') (hf : AllF (Γ.P B) d)
    (hf' : AllF (Γ.P B) d') {v : Val} (hv : evaluate n d = .ok v) :
    AllF (Γ.P (grade Γ (desugar n) B)) v ∧ (evaluate n d' = .nondet ∨
      ∃ v', evaluate n d' = .ok v' ∧ VR false v v' ∧ AllF (Γ.P (grade Γ (desugar n) B)) v') := by
  refine ⟨evaluate_graded_exact_all Γ hn hb hf hv, ?_⟩
  rcases evaluate_value_graded_all Γ hn hb h hf hf' hv with e | ⟨v', e, hvv⟩
  · exact .inl e
  · exact .inr ⟨v', e, hvv, evaluate_graded_exact_all Γ hn hb hf' e⟩

/-- **an error on one side is matched by the same error on the other side, unless that side declines** -/
theorem evaluate_error_graded_all (Γ : Grading G) {n : INode} (hn : FragEN (desugar n)) {B : G}
    (hb : budget Γ (desugar n) B = true) {d d' : Val} (h : VR false d d') (hf : AllF (Γ.P B) d)
    (hf' : AllF (Γ.P B) d') {c : List Cat} (hv : evaluate n d = .err c) :
    evaluate n d' = .nondet ∨ evaluate n d' = .err c := by
  have := evaluate_congr_graded_all Γ hn hb h hf hf'
  rw [hv] at this
  rcases this with e | e | e | e
  · cases e
  · exact .inl e
  · exact absurd e.2.1 (by simp [Bad])
  · cases h2 : evaluate n d' <;> rw [h2] at e <;> simp only [RR] at e
    exact .inr (by rw [e])

/-- the theorems for `FragE` (`C14EGradeEval.lean`) concern a part of `FragEN` -/
theorem fragEN_of_nd {t : Tree} (h : ND t) : FragEN t := fragEN_of_fragE (fragE_of_nd h)

/-! ## instances with the accounting of `C14C` (`intGrading`: floats hold integers `< 2^k`, every operator but `/`
    doubles `k`, budget `2·k ≤ 53`) on the documents of `C14C`:
    `{a: 7.0 (float64), b: 5 (float32), c: 11.0 (float64)}` and `{a: "7" (json.Number), b: 5 (uint8), c: 1.1e1}` -/

/-- `sum([a * b, c])` -/
def exNodeSum : INode := .call .sum [.selectArrayCurrent [.binop .mul (.field [0x61]) (.field [0x62]), .field [0x63]]]

/-- `sort([c, a * b])` -/
def exNodeSort : INode := .call .sort [.selectArrayCurrent [.field [0x63], .binop .mul (.field [0x61]) (.field [0x62])]]

/-- `avg([a * b, c]) + max_by([a, b], &(@ * @))` -/
def exNodeAvg : INode :=
  .binop .add (.call .avg [.selectArrayCurrent [.binop .mul (.field [0x61]) (.field [0x62]), .field [0x63]]])
    (.maxBy (.selectArrayCurrent [.field [0x61], .field [0x62]]) (.binop .mul .current .current))

theorem exNodeSum_frag : FragEN (desugar exNodeSum) := by
  simp [exNodeSum, desugar, desugarList, Tree.Ops, Tree.OpsL]

theorem exNodeSort_frag : FragEN (desugar exNodeSort) := by
  simp [exNodeSort, desugar, desugarList, Tree.Ops, Tree.OpsL]

theorem exNodeAvg_frag : FragEN (desugar exNodeAvg) := by
  simp [exNodeAvg, desugar, desugarList, Tree.Ops, Tree.OpsL]

-- … and not in the fragment `FragE` of `seval_rrG`
example : ¬ FragE (desugar exNodeSum) := by
  simp [exNodeSum, desugar, desugarList, Tree.Ops, Tree.OpsL, Fn.plain, Fn.isRound]

/-- on floats below `2^6` the product is below `2^12`, and so are the sum and every element of the sorted array;
    the last sum of `exNodeAvg` is below `2^24` -/
theorem exNodes_budget : budget intGrading (desugar exNodeSum) 6 = true ∧ grade intGrading (desugar exNodeSum) 6 = 12 ∧
    budget intGrading (desugar exNodeSort) 6 = true ∧ grade intGrading (desugar exNodeSort) 6 = 12 ∧
    budget intGrading (desugar exNodeAvg) 6 = true ∧ grade intGrading (desugar exNodeAvg) 6 = 24 := by
  decide

-- with 27-bit floats the product is out of budget
example : budget intGrading (desugar exNodeSum) 27 = false := by decide

example : RNW (VR false) (evaluate exNodeSum exDocA) (evaluate exNodeSum exDocA') :=
  evaluate_congr_graded_all intGrading exNodeSum_frag exNodes_budget.1 exDocA_vr exDocA_small.1 exDocA_small.2

example : RNW (VR false) (evaluate exNodeSort exDocA) (evaluate exNodeSort exDocA') :=
  evaluate_congr_graded_all intGrading exNodeSort_frag exNodes_budget.2.2.1 exDocA_vr exDocA_small.1 exDocA_small.2

example : RNW (VR false) (evaluate exNodeAvg exDocA) (evaluate exNodeAvg exDocA') :=
  evaluate_congr_graded_all intGrading exNodeAvg_frag exNodes_budget.2.2.2.2.1 exDocA_vr exDocA_small.1 exDocA_small.2

example : ∀ w, evaluate exNodeSort exDocA = .ok w → AllF (IntF 12) w := fun w h => by
  have := evaluate_graded_exact_all intGrading exNodeSort_frag exNodes_budget.2.2.1 exDocA_small.1 h
  rw [exNodes_budget.2.2.2.1] at this; exact this

example : RNW (VR false) (ieval exDocA exNodeSum exDocA []) (ieval exDocA' exNodeSum exDocA' []) :=
  ieval_congr_graded_all intGrading exNodeSum_frag exNodes_budget.1 exDocA_vr exDocA_small.1 exDocA_small.2
    exDocA_vr exDocA_small.1 exDocA_small.2 vrf_nil (fun _ _ hm => by cases hm) (fun _ _ hm => by cases hm)

-- the theorems still cover the expression of `C14C`, `(a * b + c) % a`
example : RNW (VR false) (evaluate exNodeA exDocA) (evaluate exNodeA exDocA') :=
  evaluate_congr_graded_all intGrading (fragEN_of_nd exNodeA_noDiv) exNodeA_budget.1 exDocA_vr exDocA_small.1
    exDocA_small.2

-- the runs: `sum` answers 46 on both sides (a decimal)
example : (match evaluate exNodeSum exDocA, evaluate exNodeSum exDocA' with
    | .ok (.num (.dec d)), .ok (.num (.dec d')) => Dec.cmp d d' == some 0 && Dec.cmp d (Dec.ofInt 46) == some 0
    | _, _ => false) = true := by
  unfold exDocA exDocA'; decide

-- `avg([a * b, c]) + max_by([a, b], &(@ * @))` = 23 + 7 = 30 on both sides
example : (match evaluate exNodeAvg exDocA, evaluate exNodeAvg exDocA' with
    | .ok (.num a), .ok (.num a') =>
      (match toDecimal (.num a), toDecimal (.num a') with
        | some d, some d' => Dec.cmp d (Dec.ofInt 30) == some 0 && Dec.cmp d' (Dec.ofInt 30) == some 0
        | _, _ => false)
    | _, _ => false) = true := by
  unfold exDocA exDocA'; decide

-- `sort([c, a * b])`, from the left run alone: the right run declines or answers a related value
example : ∀ v, evaluate exNodeSort exDocA = .ok v →
    evaluate exNodeSort exDocA' = .nondet ∨ ∃ v', evaluate exNodeSort exDocA' = .ok v' ∧ VR false v v' :=
  fun _ hv => evaluate_value_graded_all intGrading exNodeSort_frag exNodes_budget.2.2.1 exDocA_vr exDocA_small.1
    exDocA_small.2 hv

/-! ### the induction and the restricted helpers themselves -/

-- the induction on `sum([@.a * @.b])`-like element functions: `a * b` as an element function is congruent up to
-- declining on related elements whose floats are below `2^6`
theorem exMul_frgp : FRGp true false (IntF 6)
    (fun x => seval exDocA (.binop .mul (.field [0x61]) (.field [0x62])) x [])
    (fun x => seval exDocA' (.binop .mul (.field [0x61]) (.field [0x62])) x []) :=
  fun x x' hx a a' => seval_rnwG intGrading 6 exDocA_vr exDocA_small.1 exDocA_small.2 _ (by simp [Tree.Ops]) 6 x x'
    [] [] ⟨Nat.le_refl _, hx, a, a', vrf_nil, (fun _ _ hm => by cases hm), (fun _ _ hm => by cases hm)⟩ (by decide)

theorem exArr_vr : VR false (.arr .plain [exDocA, exDocA]) (.arr .plain [exDocA', exDocA']) :=
  vr_arr (vrl_cons exDocA_vr (vrl_cons exDocA_vr vrl_nil))

theorem exArr_small : AllF (IntF 6) (.arr .plain [exDocA, exDocA]) ∧ AllF (IntF 6) (.arr .plain [exDocA', exDocA']) :=
  ⟨allF_arr.mpr (fun x hx => by simp at hx; subst hx; exact exDocA_small.1),
    allF_arr.mpr (fun x hx => by simp at hx; subst hx; exact exDocA_small.2)⟩

example : RNW (VR false)
    (projectArray (fun x => seval exDocA (.binop .mul (.field [0x61]) (.field [0x62])) x []) (.arr .plain [exDocA, exDocA]))
    (projectArray (fun x => seval exDocA' (.binop .mul (.field [0x61]) (.field [0x62])) x [])
      (.arr .plain [exDocA', exDocA'])) :=
  projectArray_rgp exMul_frgp exArr_vr exArr_small.1 exArr_small.2

example : RNW (VR false)
    (mapArray (fun x => seval exDocA (.binop .mul (.field [0x61]) (.field [0x62])) x []) (.arr .plain [exDocA, exDocA]))
    (mapArray (fun x => seval exDocA' (.binop .mul (.field [0x61]) (.field [0x62])) x [])
      (.arr .plain [exDocA', exDocA'])) :=
  mapArray_rgp exMul_frgp exArr_vr exArr_small.1 exArr_small.2

example : RNW (VR false)
    (sortArrayBy (fun x => seval exDocA (.binop .mul (.field [0x61]) (.field [0x62])) x []) (.arr .plain [exDocA, exDocA]))
    (sortArrayBy (fun x => seval exDocA' (.binop .mul (.field [0x61]) (.field [0x62])) x [])
      (.arr .plain [exDocA', exDocA'])) :=
  sortArrayBy_rgp exMul_frgp exArr_vr exArr_small.1 exArr_small.2

example : RNW (VR false)
    (arrayMaxBy (fun x => seval exDocA (.binop .mul (.field [0x61]) (.field [0x62])) x []) (.arr .plain [exDocA, exDocA]))
    (arrayMaxBy (fun x => seval exDocA' (.binop .mul (.field [0x61]) (.field [0x62])) x [])
      (.arr .plain [exDocA', exDocA'])) :=
  arrayMaxBy_rgp exMul_frgp exArr_vr exArr_small.1 exArr_small.2

example : RNW (VR false)
    (groupBy (fun x => seval exDocA (.binop .mul (.field [0x61]) (.field [0x62])) x []) (.arr .plain [exDocA, exDocA]))
    (groupBy (fun x => seval exDocA' (.binop .mul (.field [0x61]) (.field [0x62])) x [])
      (.arr .plain [exDocA', exDocA'])) :=
  groupBy_rgp exMul_frgp exArr_vr exArr_small.1 exArr_small.2

example : RNW (VR false)
    (arrayMinBy (fun x => seval exDocA (.binop .mul (.field [0x61]) (.field [0x62])) x []) (.arr .plain [exDocA, exDocA]))
    (arrayMinBy (fun x => seval exDocA' (.binop .mul (.field [0x61]) (.field [0x62])) x [])
      (.arr .plain [exDocA', exDocA'])) :=
  arrayMinBy_rgp exMul_frgp exArr_vr exArr_small.1 exArr_small.2

example : RNW (VR false)
    (flattenAndProjectArray (fun x => seval exDocA (.binop .mul (.field [0x61]) (.field [0x62])) x [])
      (.arr .plain [exDocA, exDocA]))
    (flattenAndProjectArray (fun x => seval exDocA' (.binop .mul (.field [0x61]) (.field [0x62])) x [])
      (.arr .plain [exDocA', exDocA'])) :=
  flattenAndProjectArray_rgp exMul_frgp exArr_vr exArr_small.1 exArr_small.2

example : RNW (VR false)
    (filterAndProjectArray (fun x => seval exDocA (.binop .mul (.field [0x61]) (.field [0x62])) x [])
      (fun x => seval exDocA (.binop .mul (.field [0x61]) (.field [0x62])) x []) (.arr .plain [exDocA, exDocA]))
    (filterAndProjectArray (fun x => seval exDocA' (.binop .mul (.field [0x61]) (.field [0x62])) x [])
      (fun x => seval exDocA' (.binop .mul (.field [0x61]) (.field [0x62])) x []) (.arr .plain [exDocA', exDocA'])) :=
  filterAndProjectArray_rgp exMul_frgp exMul_frgp exArr_vr exArr_small.1 exArr_small.2

-- `*.(@ * @)`-like: the values of the two documents, doubled
example : RNW (VR false) (projectObject (fun v => applyBinOp .add v v) exDocA)
    (projectObject (fun v => applyBinOp .add v v) exDocA') :=
  projectObject_rgp (P := IntF 26)
    (FRGp.of_frp (fun _ _ h a a' => applyBinOp_small_rr (by decide) (by decide) h h a a' a a')) exDocA_vr
    (up (by decide) exDocA_small.1) (up (by decide) exDocA_small.2)

-- the unary invariant on `sum([a * b, c])`: the one value met is below `2^12`
example : ∀ w, seval exDocA (desugar exNodeSum) exDocA [] = .ok w → AllF (IntF 12) w := fun w h => by
  have := seval_fbGN intGrading 6 exDocA exDocA_small.1 _ exDocA [] 6 exNodeSum_frag (Nat.le_refl _)
    exNodes_budget.1 exDocA_small.1 (fun _ _ hm => by cases hm) w h
  rw [exNodes_budget.2.1] at this; exact this

end C14E
end Jmes

section
open Jmes Jmes.C14E
end
