/-
  C04 (third part), helpers: layouts of a token list (`layout`, `LayoutOK`, `Fuses`), the lexer reads every admissible
  layout back to the tokens (`lexAll_layout`), and conversely every text that lexes is an admissible layout of its
  tokens (`layout_of_lexAll`).
-/
import Jmes.Proofs.C18BLex
namespace Jmes.C04C
open Jmes Jmes.Utf8 Jmes.Lexical Jmes.Lex Jmes.C18BLex
set_option linter.unusedSimpArgs false

/-! ## Definitions -/

/-- the end marker -/
abbrev eot : Token := ⟨.end, []⟩

/-- **`Fuses a b`**: written without whitespace between them, the token `a` followed by the token `b` is NOT read as
    `a` then `b`: the first byte of `b` continues `a` (longest match, `Lexical.forbiddenNext`) -/
def Fuses (a b : Token) : Bool :=
  match b.value with
  | [] => false
  | c :: _ => forbiddenNext a c

/-- **`Sep a b`**: `b` may directly follow `a` -/
def Sep (a b : Token) : Prop := Fuses a b = false

instance (a b : Token) : Decidable (Sep a b) := inferInstanceAs (Decidable (_ = _))

/-- a text: `w0 t1 w1 t2 w2 … tk wk` — every token is paired with the whitespace run that follows it -/
def layout (w0 : Bytes) : List (Token × Bytes) → Bytes
  | [] => w0
  | (t, w) :: rest => w0 ++ t.value ++ layout w rest

/-- the one fusion that involves three tokens: `[`, `*`, `]` written without any whitespace are the single token `[*]`
    (here `a` is directly followed by `b`; `wb` is the whitespace after `b`, `rest` what follows) -/
def StarFuse (a b : Token) (wb : Bytes) (rest : List (Token × Bytes)) : Prop :=
  a.type = .openSqBrace ∧ b.type = .asterisk ∧ wb = [] ∧
    ∃ c wc rest', rest = (c, wc) :: rest' ∧ c.type = .closeSqBrace

/-- **admissible layouts**: every token is spelt as its type prescribes, the runs between tokens are whitespace
    (TAB, LF, CR, SPACE; possibly empty), and a run is empty only where the two neighbours do not fuse -/
def LayoutOK : List (Token × Bytes) → Prop
  | [] => True
  | (a, w) :: rest =>
    TokShape a.type a.value ∧ Ws w ∧
    (match rest with
     | [] => True
     | (b, w') :: rest' => w = [] → Sep a b ∧ ¬ StarFuse a b w' rest') ∧
    LayoutOK rest

instance (w : Bytes) : Decidable (Ws w) := by unfold Ws; infer_instance

theorem layout_eq (w : Bytes) (l : List (Token × Bytes)) : layout w l = w ++ layout [] l := by
  cases l with
  | nil => simp [layout]
  | cons p rest => obtain ⟨t, w'⟩ := p; simp [layout]

/-! ## Whitespace and first bytes -/

theorem isWsB_cases {b : Nat} (h : isWsB b = true) : b = 0x09 ∨ b = 0x0A ∨ b = 0x0D ∨ b = 0x20 := by
  simpa [isWsB, or_assoc] using h

/-- no whitespace byte is forbidden after a token -/
theorem forbiddenNext_ws (t : Token) {b : Nat} (hb : isWsB b = true) : forbiddenNext t b = false := by
  rcases isWsB_cases hb with rfl | rfl | rfl | rfl <;>
    (unfold forbiddenNext; split <;> simp [isIdCharB, isIdStartB, isDigitB])

theorem followOK_nil (t : Token) : FollowOK t [] := by
  refine ⟨?_, ?_⟩
  · intro r sz h
    rw [lexDecode_nil] at h
    cases h
  · intro _ h
    cases h

/-- whitespace may follow every token -/
theorem followOK_ws (t : Token) {w : Bytes} (hw : Ws w) (hne : w ≠ []) (x : Bytes) : FollowOK t (w ++ x) := by
  match w, hne with
  | b :: w', _ =>
    have hb := hw b (by simp)
    have hlt : b < 0x80 := by rcases isWsB_cases hb with rfl | rfl | rfl | rfl <;> omega
    refine ⟨?_, ?_⟩
    · intro r sz h
      rw [List.cons_append, lexDecode_cons_ascii hlt] at h
      cases h
      exact forbiddenNext_ws t hb
    · intro _ h
      have : b = 0x2A := by
        cases hx : w' ++ x <;> simp [hx] at h <;> exact h.1
      subst this; cases hb

/-- what starts with a well-shaped token that does not fuse with `a` may follow `a` (the `[*]` condition apart) -/
theorem followOK_tok {a : Token} {ty : TokenType} {v : Bytes} (hb : TokShape ty v) (hs : Sep a ⟨ty, v⟩) (x : Bytes)
    (hwild : a.type = .openSqBrace → (v ++ x).take 2 ≠ [0x2A, 0x5D]) : FollowOK a (v ++ x) := by
  refine ⟨?_, hwild⟩
  intro r sz h
  by_cases hr : r < 0x80
  · have h2 := (lexDecode_ok_ascii h hr).2
    match v, tokShape_ne_nil hb with
    | c :: v', _ =>
      simp only [List.cons_append] at h2
      injection h2 with h2 _
      subst h2
      exact hs
  · exact forbiddenNext_nonascii a hr

theorem delimited_head {d : Nat} {v : Bytes} (h : Delimited d v) : v.head? = some d := by
  obtain ⟨w, rfl, _⟩ := h; rfl

/-- only the token `*` starts with the byte `*` -/
theorem head_star {ty : TokenType} {v : Bytes} (h : TokShape ty v) (hc : v.head? = some 0x2A) :
    ty = .asterisk ∧ v = [0x2A] := by
  cases ty <;> simp only [TokShape] at h
  case unquotedIdentifier =>
    obtain ⟨⟨c, t, rfl, h1, _⟩, _⟩ := h
    simp at hc; subst hc; cases h1
  case integerLiteral =>
    rcases h with ⟨hne, hall⟩ | ⟨d, rfl, _⟩
    · match v, hne with
      | c :: t, _ => simp at hc; subst hc; have := hall _ (List.mem_cons_self ..); cases this
    · simp at hc
  case «variable» => obtain ⟨w, rfl, _⟩ := h; simp at hc
  case quotedIdentifier => rw [delimited_head h] at hc; cases hc
  case stringLiteral => rw [delimited_head h] at hc; cases hc
  case jsonLiteral => rw [delimited_head h] at hc; cases hc
  case subtract => rcases h with rfl | rfl <;> simp at hc
  case divide => rcases h with rfl | rfl <;> simp at hc
  case asterisk => exact ⟨rfl, h⟩
  all_goals first | (subst h; simp [kwLet, kwIn] at hc; done) | cases h

/-- only the token `]` starts with the byte `]` -/
theorem head_rbracket {ty : TokenType} {v : Bytes} (h : TokShape ty v) (hc : v.head? = some 0x5D) :
    ty = .closeSqBrace := by
  cases ty <;> simp only [TokShape] at h
  case unquotedIdentifier =>
    obtain ⟨⟨c, t, rfl, h1, _⟩, _⟩ := h
    simp at hc; subst hc; cases h1
  case integerLiteral =>
    rcases h with ⟨hne, hall⟩ | ⟨d, rfl, _⟩
    · match v, hne with
      | c :: t, _ => simp at hc; subst hc; have := hall _ (List.mem_cons_self ..); cases this
    · simp at hc
  case «variable» => obtain ⟨w, rfl, _⟩ := h; simp at hc
  case quotedIdentifier => rw [delimited_head h] at hc; cases hc
  case stringLiteral => rw [delimited_head h] at hc; cases hc
  case jsonLiteral => rw [delimited_head h] at hc; cases hc
  case subtract => rcases h with rfl | rfl <;> simp at hc
  case divide => rcases h with rfl | rfl <;> simp at hc
  case closeSqBrace => rfl
  all_goals first | (subst h; simp [kwLet, kwIn] at hc; done) | cases h

theorem layoutOK_head {a : Token} {w : Bytes} {rest : List (Token × Bytes)} (h : LayoutOK ((a, w) :: rest)) :
    TokShape a.type a.value ∧ Ws w ∧ LayoutOK rest := by
  simp only [LayoutOK] at h; exact ⟨h.1, h.2.1, h.2.2.2⟩

/-- the first byte of a whitespace run is not `]` -/
theorem ws_head_ne {w : Bytes} (hw : Ws w) {c : Nat} (hc : isWsB c = false) : w.head? ≠ some c := by
  cases w with
  | nil => simp
  | cons b t =>
    intro h; simp at h; subst h
    have := hw b (by simp); rw [this] at hc; cases hc

/-- if `*]` follows, the layout continues `*`, no whitespace, `]` -/
theorem take2_star {b : Token} {w' : Bytes} {rest : List (Token × Bytes)} (hl : LayoutOK ((b, w') :: rest))
    (h : (b.value ++ layout w' rest).take 2 = [0x2A, 0x5D]) :
    b.type = .asterisk ∧ w' = [] ∧ ∃ c wc rest', rest = (c, wc) :: rest' ∧ c.type = .closeSqBrace := by
  obtain ⟨hb, hw', hrest⟩ := layoutOK_head hl
  have hne := tokShape_ne_nil hb
  have hhead : b.value.head? = some 0x2A := by
    match hv : b.value, hne with
    | c :: t, _ => rw [hv] at h; cases t <;> simp at h <;> simp [h.1]
  obtain ⟨hty, hval⟩ := head_star hb hhead
  rw [hval, layout_eq] at h
  have h2 : (w' ++ layout [] rest).head? = some 0x5D := by
    cases hx : w' ++ layout [] rest with
    | nil => rw [hx] at h; simp at h
    | cons c t => rw [hx] at h; simp at h; simp [h]
  have hw0 : w' = [] := by
    cases w' with
    | nil => rfl
    | cons c t =>
      exfalso
      simp at h2; subst h2
      have := hw' 0x5D (by simp); cases this
  subst hw0
  refine ⟨hty, rfl, ?_⟩
  cases rest with
  | nil => simp [layout] at h2
  | cons p rest' =>
    obtain ⟨c, wc⟩ := p
    obtain ⟨hc, _, _⟩ := layoutOK_head hrest
    have hcne := tokShape_ne_nil hc
    refine ⟨c, wc, rest', rfl, head_rbracket hc ?_⟩
    simp only [layout, List.nil_append, List.append_assoc] at h2
    match hv : c.value, hcne with
    | x :: t, _ => rw [hv] at h2; simpa using h2

/-- in an admissible layout, what follows a token respects longest match -/
theorem followOK_layout {a : Token} {w : Bytes} {rest : List (Token × Bytes)} (h : LayoutOK ((a, w) :: rest)) :
    FollowOK a (layout w rest) := by
  have h' := h
  simp only [LayoutOK] at h'
  obtain ⟨_, hw, hsep, hrest⟩ := h'
  by_cases hne : w = []
  · subst hne
    cases rest with
    | nil => exact followOK_nil a
    | cons p rest' =>
      obtain ⟨b, w'⟩ := p
      obtain ⟨hs, hnf⟩ := hsep rfl
      obtain ⟨hb, _, _⟩ := layoutOK_head hrest
      simp only [layout, List.nil_append, List.append_assoc]
      refine followOK_tok (ty := b.type) (v := b.value) hb hs _ ?_
      intro ha h2
      obtain ⟨h3, h4, h5⟩ := take2_star hrest h2
      exact hnf ⟨ha, h3, h4, h5⟩
  · rw [layout_eq]; exact followOK_ws a hw hne _

/-! ## Every admissible layout lexes to its tokens -/

theorem lexAll_layout : ∀ (l : List (Token × Bytes)) (w0 : Bytes), Ws w0 → LayoutOK l →
    lexAll (layout w0 l) = (l.map (·.1) ++ [eot], none)
  | [], w0, hw0, _ => by
    have := lexAll_ws hw0 []
    rw [List.append_nil] at this
    simp only [layout, this, List.map_nil, List.nil_append]
    rfl
  | (a, w) :: rest, w0, hw0, h => by
    obtain ⟨ha, hw, hrest⟩ := layoutOK_head h
    have hf := followOK_layout h
    have htok : lexToken (a.value ++ layout w rest) = .ok (a, a.value.length) :=
      lexToken_complete' (ty := a.type) (v := a.value) ha hf
    have ih := lexAll_layout rest w hw hrest
    simp only [layout, List.append_assoc]
    rw [lexAll_ws hw0, lexAll_step htok, List.drop_left, ih]
    rfl

/-! ## Every text that lexes is an admissible layout of its tokens -/

theorem layout_of_lexAll : ∀ (k : Nat) (s : Bytes), s.length ≤ k → ∀ (ts : List Token),
    lexAll s = (ts ++ [eot], none) →
    ∃ (w0 : Bytes) (l : List (Token × Bytes)), Ws w0 ∧ LayoutOK l ∧ l.map (·.1) = ts ∧ s = layout w0 l
  | 0, s, hk, ts, hs => by
    have : s = [] := List.length_eq_zero_iff.1 (by omega)
    subst this
    rw [lexAll_nil] at hs
    have : ts = [] := by
      have := congrArg Prod.fst hs
      simpa using this.symm
    subst this
    exact ⟨[], [], Ws.nil, trivial, rfl, rfl⟩
  | k + 1, s, hk, ts, hs => by
    obtain ⟨w, hw, hsw⟩ := skipWsLex_spec s.length s
    rw [lexAll_eq] at hs
    by_cases hnil : skipWsLex s.length s = []
    · rw [if_pos hnil] at hs
      have : ts = [] := by
        have := congrArg Prod.fst hs
        simpa using this.symm
      subst this
      rw [hnil, List.append_nil] at hsw
      exact ⟨w, [], hw, trivial, rfl, hsw⟩
    · rw [if_neg hnil] at hs
      generalize hs' : skipWsLex s.length s = s' at hs hsw hnil
      cases htok : lexToken s' with
      | error e => rw [htok] at hs; have := congrArg Prod.snd hs; cases this
      | ok p =>
        obtain ⟨t, n⟩ := p
        rw [htok] at hs
        simp only [] at hs
        have g := lexToken_good htok
        rw [show max n 1 = n by have := g.pos; omega] at hs
        have h2 : (lexAll (s'.drop n)).2 = none := congrArg Prod.snd hs
        have h1 : t :: (lexAll (s'.drop n)).1 = ts ++ [eot] := congrArg Prod.fst hs
        obtain ⟨pre, hpre⟩ := lexAll_ok_ends h2
        rw [hpre, ← List.cons_append] at h1
        have hts : ts = t :: pre := (List.append_cancel_right h1).symm
        subst hts
        have hrec : lexAll (s'.drop n) = (pre ++ [eot], none) := by rw [← hpre, ← h2]
        have hlen : s'.length ≤ s.length := by
          have := congrArg List.length hsw; simp at this; omega
        obtain ⟨w1, l1, hw1, hl1, hmap, hdrop⟩ :=
          layout_of_lexAll k (s'.drop n) (by rw [List.length_drop]; have := g.pos; omega) pre hrec
        have hs'eq : s' = t.value ++ layout w1 l1 := by
          rw [g.val, ← hdrop, List.take_append_drop]
        refine ⟨w, (t, w1) :: l1, hw, ?_, by simp [hmap], ?_⟩
        · simp only [LayoutOK]
          refine ⟨g.shape, hw1, ?_, hl1⟩
          cases l1 with
          | nil => trivial
          | cons p rest' =>
            obtain ⟨b, w'⟩ := p
            intro hw1nil
            subst hw1nil
            obtain ⟨hb, _, hrest'⟩ := layoutOK_head hl1
            have hbne := tokShape_ne_nil hb
            simp only [layout, List.nil_append, List.append_assoc] at hdrop
            refine ⟨?_, ?_⟩
            · -- longest match
              match hv : b.value, hbne with
              | c :: v', _ =>
                have := g.maxi c (by rw [hdrop, hv]; rfl)
                show Fuses t b = false
                unfold Fuses; rw [hv]; exact this
            · rintro ⟨ha, hb2, hw'nil, c, wc, rest'', hr, hc⟩
              subst hw'nil hr
              obtain ⟨hcs, _, _⟩ := layoutOK_head hrest'
              have hbv : b.value = [0x2A] := by
                have := hb; rw [hb2] at this; exact this
              have hcv : c.value = [0x5D] := by
                have := hcs; rw [hc] at this; exact this
              apply g.wild ha
              rw [hdrop, hbv]
              simp only [layout, List.nil_append, List.append_assoc, hcv]
              rfl
        · rw [hsw, hs'eq]
          simp only [layout, List.append_assoc]

/-! ## Trailing whitespace -/

theorem lexAll_ws_only {w : Bytes} (hw : Ws w) : lexAll w = ([eot], none) := by
  have := lexAll_ws hw []
  rw [List.append_nil] at this
  rw [this]; rfl

/-- whitespace appended to a text that lexes changes nothing -/
theorem lexAll_trailing_ws {a : Bytes} {pa : List Token} (ha : lexAll a = (pa ++ [eot], none)) {w : Bytes} (hw : Ws w) :
    lexAll (a ++ w) = (pa ++ [eot], none) := by
  cases w with
  | nil => rw [List.append_nil]; exact ha
  | cons c0 rest =>
    have hb := hw c0 (by simp)
    have hlt : c0 < 0x80 := by rcases isWsB_cases hb with rfl | rfl | rfl | rfl <;> omega
    rw [lexAll_append_gen a.length a (Nat.le_refl _) pa ha c0 rest hlt
      (by rcases isWsB_cases hb with rfl | rfl | rfl | rfl <;> omega)
      (by rcases isWsB_cases hb with rfl | rfl | rfl | rfl <;> omega)
      (fun t _ => forbiddenNext_ws t hb), lexAll_ws_only hw]

/-! ## The table of fusing pairs -/

/-- `b` is an identifier or a keyword -/
def startsWord (b : Token) : Bool := b.type == .unquotedIdentifier || b.type == .let || b.type == .in
/-- `b` is an integer literal without sign -/
def startsDigit (b : Token) : Bool := b.type == .integerLiteral && b.value.head? != some 0x2D

/-- **the pairs of adjacent tokens that fuse**, by token type (and spelling, where a type has two) -/
def fusesBy (a b : Token) : Bool :=
  match a.type with
  -- `a` `b` → `ab`, `a` `1` → `a1`, `$x` `y` → `$xy`, `let` `x` → `letx`, `in` `1` → `in1`
  | .unquotedIdentifier | .let | .in | .variable => startsWord b || startsDigit b
  -- `1` `2` → `12`
  | .integerLiteral => startsDigit b
  -- `<` `=` → `<=`, `>` `=` → `>=`, `=` `=` → `==`, `!` `=` → `!=` (and `<` `==` → `<=` `=`, …)
  | .less | .greater | .assign | .not => b.type == .assign || b.type == .equal
  -- `|` `|` → `||` (and `|` `||` → `||` `|`)
  | .pipe => b.type == .pipe || b.type == .or
  -- `&` `&` → `&&`
  | .expression => b.type == .expression || b.type == .and
  -- `/` `/` → `//` (not after `÷`)
  | .divide => a.value == [0x2F] && (b.type == .integerDivide || (b.type == .divide && b.value == [0x2F]))
  -- `.` `*` → `.*`
  | .dot => b.type == .asterisk
  -- `[` `]` → `[]`  (`[` `?` → `[?` cannot arise: no token starts with `?`; `[` `*` `]` → `[*]` is `StarFuse`)
  | .openSqBrace => b.type == .closeSqBrace
  -- `-` `1` → `-1` (not after `−`)
  | .subtract => a.value == [0x2D] && startsDigit b
  -- `$` `x` → `$x`
  | .root => startsWord b
  | _ => false

structure HeadFacts (b : Token) (c : Nat) : Prop where
  word : startsWord b = isIdStartB c
  digit : startsDigit b = isDigitB c
  eq : (b.type == .assign || b.type == .equal) = (c == 0x3D)
  bar : (b.type == .pipe || b.type == .or) = (c == 0x7C)
  amp : (b.type == .expression || b.type == .and) = (c == 0x26)
  slash : (b.type == .integerDivide || (b.type == .divide && b.value == [0x2F])) = (c == 0x2F)
  star : (b.type == .asterisk) = (c == 0x2A)
  rb : (b.type == .closeSqBrace) = (c == 0x5D)
  q : (c == 0x3F) = false

theorem idStart_range {c : Nat} (h : isIdStartB c = true) :
    (0x41 ≤ c ∧ c ≤ 0x5A) ∨ (0x61 ≤ c ∧ c ≤ 0x7A) ∨ c = 0x5F := by
  simpa [isIdStartB, or_assoc] using h

theorem digit_range {c : Nat} (h : isDigitB c = true) : 0x30 ≤ c ∧ c ≤ 0x39 := by
  simpa [isDigitB] using h

theorem beq_false_of_ne {c k : Nat} (h : c ≠ k) : (c == k) = false := by simp [h]

theorem headFacts_word {ty : TokenType} (hty : ty = .unquotedIdentifier ∨ ty = .let ∨ ty = .in) {c : Nat} {t : Bytes}
    (hc : isIdStartB c = true) : HeadFacts ⟨ty, c :: t⟩ c := by
  have hr := idStart_range hc
  have hd : isDigitB c = false := by simp [isDigitB]; omega
  constructor
  · rw [hc]; rcases hty with rfl | rfl | rfl <;> rfl
  · rw [hd]; rcases hty with rfl | rfl | rfl <;> rfl
  all_goals first
    | exact beq_false_of_ne (by omega)
    | (rcases hty with rfl | rfl | rfl <;> (rw [beq_false_of_ne (show c ≠ _ by omega)]; rfl))

theorem headFacts_const {ty : TokenType} {c : Nat} {t : Bytes}
    (h : ∀ t', HeadFacts ⟨ty, c :: t'⟩ c) : HeadFacts ⟨ty, c :: t⟩ c := h t

macro "hf_const" : tactic => `(tactic|
  (constructor <;> simp [startsWord, startsDigit, isIdStartB, isDigitB]))

theorem headFacts {b : Token} (hb : TokShape b.type b.value) : ∃ c t, b.value = c :: t ∧ HeadFacts b c := by
  obtain ⟨ty, v⟩ := b
  simp only at hb
  cases ty <;> simp only [TokShape] at hb
  case unquotedIdentifier =>
    obtain ⟨⟨c, t, rfl, h1, _⟩, _⟩ := hb
    exact ⟨c, t, rfl, headFacts_word (Or.inl rfl) h1⟩
  case «let» => subst hb; exact ⟨_, _, rfl, headFacts_word (Or.inr (Or.inl rfl)) (by decide)⟩
  case «in» => subst hb; exact ⟨_, _, rfl, headFacts_word (Or.inr (Or.inr rfl)) (by decide)⟩
  case integerLiteral =>
    rcases hb with ⟨hne, hall⟩ | ⟨d, rfl, _⟩
    · match v, hne with
      | c :: t, _ =>
        have hc : isDigitB c = true := hall c (List.mem_cons_self ..)
        have hr := digit_range hc
        refine ⟨c, t, rfl, ?_⟩
        have hid : isIdStartB c = false := by simp [isIdStartB]; omega
        constructor
        · rw [hid]; rfl
        · rw [hc]; simp [startsDigit]; omega
        all_goals first
          | exact beq_false_of_ne (by omega)
          | (rw [beq_false_of_ne (show c ≠ _ by omega)]; rfl)
    · exact ⟨_, _, rfl, by hf_const⟩
  case «variable» => obtain ⟨w, rfl, _⟩ := hb; exact ⟨_, _, rfl, by hf_const⟩
  case quotedIdentifier => obtain ⟨w, rfl, _⟩ := hb; exact ⟨_, _, rfl, by hf_const⟩
  case stringLiteral => obtain ⟨w, rfl, _⟩ := hb; exact ⟨_, _, rfl, by hf_const⟩
  case jsonLiteral => obtain ⟨w, rfl, _⟩ := hb; exact ⟨_, _, rfl, by hf_const⟩
  case subtract => rcases hb with rfl | rfl <;> exact ⟨_, _, rfl, by hf_const⟩
  case divide => rcases hb with rfl | rfl <;> exact ⟨_, _, rfl, by hf_const⟩
  all_goals first | (subst hb; exact ⟨_, _, rfl, by hf_const⟩) | cases hb

/-- **`Fuses` is the table `fusesBy`** -/
theorem fuses_eq (a : Token) {b : Token} (hb : TokShape b.type b.value) : Fuses a b = fusesBy a b := by
  obtain ⟨c, t, hv, H⟩ := headFacts hb
  have hF : Fuses a b = forbiddenNext a c := by unfold Fuses; rw [hv]
  rw [hF]
  cases hty : a.type <;>
    simp only [forbiddenNext, fusesBy, hty, isIdCharB, H.word, H.digit, H.eq, H.bar, H.amp, H.slash, H.star, H.rb,
      H.q, Bool.false_or]

/-! ## The ends of a token are not whitespace -/

theorem idChar_not_ws {c : Nat} (h : isIdCharB c = true) : isWsB c = false := by
  simp [isIdCharB, isIdStartB, isDigitB] at h
  simp [isWsB]; omega

theorem delimBody_getLast {d : Nat} {w : Bytes} (h : DelimBody d w) : w.getLast? = some d := by
  induction h with
  | close => rfl
  | esc c w _ hw ih =>
    have hne : encodeRune c ++ w ≠ [] := by
      intro h0; have := DelimBody.length_pos hw; simp at h0; rw [h0.2] at this; simp at this
    rw [← List.singleton_append, List.getLast?_append, List.getLast?_append, ih]; rfl
  | plain c w _ _ _ _ ih => rw [List.getLast?_append, ih]; rfl

theorem tokShape_ends {ty : TokenType} {v : Bytes} (h : TokShape ty v) :
    (∀ c, v.head? = some c → isWsB c = false) ∧ (∀ c, v.getLast? = some c → isWsB c = false) := by
  have all_of : (∀ b ∈ v, isWsB b = false) →
      (∀ c, v.head? = some c → isWsB c = false) ∧ (∀ c, v.getLast? = some c → isWsB c = false) :=
    fun hall => ⟨fun c hc => hall c (List.mem_of_head? hc), fun c hc => hall c (List.mem_of_getLast? hc)⟩
  have delim : ∀ d, isWsB d = false → Delimited d v →
      (∀ c, v.head? = some c → isWsB c = false) ∧ (∀ c, v.getLast? = some c → isWsB c = false) := by
    rintro d hd ⟨w, rfl, hw⟩
    refine ⟨fun c hc => by simp at hc; subst hc; exact hd, fun c hc => ?_⟩
    have hne : w ≠ [] := by intro h0; have := DelimBody.length_pos hw; rw [h0] at this; simp at this
    rw [← List.singleton_append, List.getLast?_append, delimBody_getLast hw] at hc
    simp at hc; subst hc; exact hd
  have ident : ∀ {u : Bytes}, Ident u → ∀ b ∈ u, isWsB b = false := by
    rintro u ⟨c, t, rfl, hc, ht⟩ b hb
    simp at hb
    rcases hb with rfl | hb
    · exact idChar_not_ws (by simp [isIdCharB, hc])
    · exact idChar_not_ws (ht b hb)
  have digits : ∀ {u : Bytes}, Digits u → ∀ b ∈ u, isWsB b = false := by
    rintro u ⟨_, hall⟩ b hb
    exact idChar_not_ws (by simp [isIdCharB, hall b hb])
  cases ty <;> simp only [TokShape] at h
  case unquotedIdentifier => exact all_of (ident h.1)
  case integerLiteral =>
    rcases h with h | ⟨d, rfl, h⟩
    · exact all_of (digits h)
    · exact all_of (by intro b hb; simp at hb; rcases hb with rfl | hb; rfl; exact digits h b hb)
  case «variable» =>
    obtain ⟨w, rfl, hw⟩ := h
    exact all_of (by intro b hb; simp at hb; rcases hb with rfl | hb; rfl; exact ident hw b hb)
  case quotedIdentifier => exact delim _ (by decide) h
  case stringLiteral => exact delim _ (by decide) h
  case jsonLiteral => exact delim _ (by decide) h
  case subtract => rcases h with rfl | rfl <;> exact all_of (by decide)
  case divide => rcases h with rfl | rfl <;> exact all_of (by decide)
  all_goals first | (subst h; exact all_of (by decide)) | cases h

/-! ## Whitespace inside a token is not skipped -/

/-- **a token is a contiguous piece of the text**: if a text lexes to the single token `F`, the text is `F`'s spelling
    between two whitespace runs -/
theorem single_token_text {s : Bytes} {F : Token} (h : lexAll s = ([F] ++ [eot], none)) :
    ∃ w0 w1, Ws w0 ∧ Ws w1 ∧ TokShape F.type F.value ∧ s = w0 ++ F.value ++ w1 := by
  obtain ⟨w0, l, hw0, hl, hmap, hs⟩ := layout_of_lexAll s.length s (Nat.le_refl _) [F] h
  match l, hmap with
  | [(F', w1)], hmap =>
    simp at hmap; subst hmap
    obtain ⟨hF, hw1, _⟩ := layoutOK_head hl
    exact ⟨w0, w1, hw0, hw1, hF, by rw [hs]; simp [layout]⟩

/-- **nothing inserted inside a token is skipped** (in particular no whitespace): cut the spelling of any token `F` in
    two non-empty pieces and put any non-empty byte string between them: the result does not lex to `F` -/
theorem token_not_split {F : Token} {x y w : Bytes} (hx : x ≠ []) (hy : y ≠ [])
    (hv : F.value = x ++ y) (hne : w ≠ []) : lexAll (x ++ w ++ y) ≠ ([F] ++ [eot], none) := by
  intro h
  obtain ⟨w0, w1, hw0, hw1, hF, hs⟩ := single_token_text h
  obtain ⟨hhead, hlast⟩ := tokShape_ends hF
  rw [hv] at hs hhead hlast
  -- no leading whitespace
  have h0 : w0 = [] := by
    match x, hx, w0, hw0 with
    | c :: x', _, [], _ => rfl
    | c :: x', _, b :: w0', hw0 =>
      exfalso
      simp only [List.cons_append] at hs
      injection hs with hcb _
      have h1 := hhead c rfl
      have h2 := hw0 b (by simp)
      rw [hcb, h2] at h1; cases h1
  subst h0
  rw [List.nil_append, List.append_assoc, List.append_assoc] at hs
  have hs2 : w ++ y = y ++ w1 := List.append_cancel_left hs
  -- no trailing whitespace
  have h1 : w1 = [] := by
    cases hl : w1.getLast? with
    | none => exact List.getLast?_eq_none_iff.1 hl
    | some c =>
      exfalso
      have hyl : ∃ d, y.getLast? = some d := by
        cases hq : y.getLast? with
        | none => exact absurd (List.getLast?_eq_none_iff.1 hq) hy
        | some d => exact ⟨d, rfl⟩
      obtain ⟨d, hd⟩ := hyl
      have e1 : (w ++ y).getLast? = some d := by rw [List.getLast?_append, hd]; rfl
      have e2 : (y ++ w1).getLast? = some c := by rw [List.getLast?_append, hl]; rfl
      rw [hs2, e2] at e1
      injection e1 with e1
      have hd' : (x ++ y).getLast? = some d := by rw [List.getLast?_append, hd]; rfl
      have := hlast d hd'
      rw [← e1, hw1 c (List.mem_of_getLast? hl)] at this
      cases this
  subst h1
  rw [List.append_nil] at hs2
  have := congrArg List.length hs2
  simp at this
  exact hne this

/-! ## The spacing conditions, decidably -/

/-- `StarFuse` as a Boolean -/
def starFuseB (a b : Token) (wb : Bytes) (rest : List (Token × Bytes)) : Bool :=
  a.type == .openSqBrace && b.type == .asterisk && wb.isEmpty &&
    (match rest with
     | (c, _) :: _ => c.type == .closeSqBrace
     | [] => false)

theorem starFuseB_iff (a b : Token) (wb : Bytes) (rest : List (Token × Bytes)) :
    starFuseB a b wb rest = true ↔ StarFuse a b wb rest := by
  unfold starFuseB StarFuse
  cases rest with
  | nil => simp
  | cons p rest' => obtain ⟨c, wc⟩ := p; simp [List.isEmpty_iff, and_assoc]

/-- the part of `LayoutOK` that concerns the spacing only: the runs are whitespace, and a run is empty only between
    tokens that do not fuse -/
def spacingOK : List (Token × Bytes) → Bool
  | [] => true
  | (a, w) :: rest =>
    w.all isWsB &&
    (match rest with
     | [] => true
     | (b, w') :: rest' => !w.isEmpty || (!Fuses a b && !starFuseB a b w' rest')) &&
    spacingOK rest

theorem layoutOK_iff : ∀ (l : List (Token × Bytes)),
    LayoutOK l ↔ (∀ t ∈ l.map (·.1), TokShape t.type t.value) ∧ spacingOK l = true
  | [] => by simp [LayoutOK, spacingOK]
  | (a, w) :: rest => by
    have ih := layoutOK_iff rest
    have hws : Ws w ↔ w.all isWsB = true := by simp [Ws, List.all_eq_true]
    simp only [LayoutOK, spacingOK, ih, List.map_cons, List.mem_cons, forall_eq_or_imp, Bool.and_eq_true, hws]
    cases rest with
    | nil => simp
    | cons p rest' =>
      obtain ⟨b, w'⟩ := p
      have hsf := starFuseB_iff a b w' rest'
      have e : (w = [] → Sep a b ∧ ¬ StarFuse a b w' rest') ↔
          ((!w.isEmpty || (!Fuses a b && !starFuseB a b w' rest')) = true) := by
        rw [← hsf]
        cases w with
        | nil => simp [Sep]
        | cons c t => simp
      simp only [e]
      constructor
      · rintro ⟨h1, h2, h3, h4, h5⟩; exact ⟨⟨h1, h4⟩, ⟨h2, h3⟩, h5⟩
      · rintro ⟨⟨h1, h4⟩, ⟨h2, h3⟩, h5⟩; exact ⟨h1, h2, h3, h4, h5⟩

/-- the tokens of a text that lexes are well shaped -/
theorem shapes_of_lexAll {s : Bytes} {ts : List Token} (h : lexAll s = (ts ++ [eot], none)) :
    ∀ t ∈ ts, TokShape t.type t.value := by
  obtain ⟨pre, hp, hsh⟩ := Lexes.ends (lexAll_sound h)
  have : ts = pre := List.append_cancel_right hp
  subst this
  exact hsh

/-- two tokens that fuse, written without whitespace, are not read as these two tokens -/
theorem fused_pair_not_lexed {a b : Token} (h : Fuses a b = true) :
    lexAll (a.value ++ b.value) ≠ ([a, b] ++ [eot], none) := by
  intro hl
  obtain ⟨w0, l, hw0, hok, hmap, hs⟩ := layout_of_lexAll _ _ (Nat.le_refl _) [a, b] hl
  match l, hmap with
  | [(a', w1), (b', w2)], hmap =>
    simp at hmap
    obtain ⟨rfl, rfl⟩ := hmap
    simp only [layout, List.append_assoc] at hs
    have hlen := congrArg List.length hs
    simp only [List.length_append] at hlen
    have h1 : w1 = [] := List.length_eq_zero_iff.1 (by omega)
    subst h1
    simp only [LayoutOK] at hok
    have := (hok.2.2.1 trivial).1
    unfold Sep at this
    rw [this] at h; cases h

/-- the parser sees the text through the lexer only -/
theorem parse_congr {e1 e2 : Bytes} (h : lexAll e1 = lexAll e2) : Parser.parse e1 = Parser.parse e2 := by
  unfold Parser.parse; rw [h]

end Jmes.C04C
