/-
  Helper for C08B: an invariant of the parser.

  Every node built by `Parser.parse` satisfies, at every sub-node,

  * `INode.arityHead`: a `.call f args` node carries exactly `fnArity f` arguments (the builtin's own argument count:
    `find_first` with three arguments is the tag `findFirstFrom`, of arity 3), and the variadic nodes `merge`, `not_null`,
    `zip` carry at least one;
  * `INode.litOk Val.NoEnum`: a literal carries a value without map-ordered arrays (it was decoded from JSON text).

  The proof follows `Proofs/ParserLits.lean` (`Post`, one statement per function of the mutual block, induction on the
  fuel); the new ingredient is the post-condition of `fnArgs`: the list it returns has between `min` and `max` elements.
-/
import Jmes.Proofs.ParserLits
namespace Jmes

/-- the number of arguments of each eager builtin tag -/
def fnArity : Fn → Nat
  | .abs | .avg | .ceil | .floor | .fromItems | .items | .keys | .length | .lower | .max | .min | .reverse | .sort
  | .sum | .toArray | .toNumber | .toString | .trimSpace | .trimSpaceLeft | .trimSpaceRight | .type | .upper
  | .values => 1
  | .contains | .endsWith | .findFirst | .findLast | .join | .padSpaceLeft | .padSpaceRight | .split | .startsWith
  | .trim | .trimLeft | .trimRight => 2
  | .findFirstFrom | .findLastFrom | .padLeft | .padRight | .replace | .splitCount => 3
  | .findFirstBetween | .findLastBetween | .replaceCount => 4

/-- the node has the argument count its evaluation expects -/
def INode.arityHead : INode → Bool
  | .call f args => args.length == fnArity f
  | .merge args | .notNull args | .zip args => decide (1 ≤ args.length)
  | _ => true

/-- every call inside the node has the argument count of its builtin -/
def INode.ArityOK (n : INode) : Bool := n.all INode.arityHead

namespace ArityInv
open Parser ParserLits Invar

/-- the per-node requirement -/
def pAll (n : INode) : Bool := INode.arityHead n && INode.litOk Val.NoEnum n

abbrev AL (n : INode) : Prop := n.all pAll = true
abbrev ALL (ns : List INode) : Prop := INode.allL pAll ns = true
abbrev ALF (fs : List (Bytes × INode)) : Prop := INode.allF pAll fs = true
abbrev ALO (o : Option INode) : Prop := ∀ n, o = some n → AL n

/-! ### what `encoding/json` decodes contains no map-ordered array -/

theorem parse_noenum : ∀ fuel : Nat,
    (∀ depth s v r, Json.parseValue fuel depth s = some (v, r) → v.Good true = true) ∧
    (∀ depth s acc xs r, Val.GoodL true acc = true → Json.parseElems fuel depth s acc = some (xs, r) →
      Val.GoodL true xs = true) ∧
    (∀ depth s acc kvs r, Val.GoodF true acc = true → Json.parseMembers fuel depth s acc = some (kvs, r) →
      Val.GoodF true kvs = true)
  | 0 => ⟨by simp [Json.parseValue], by simp [Json.parseElems], by simp [Json.parseMembers]⟩
  | fuel + 1 => by
    obtain ⟨ihV, ihE, ihM⟩ := parse_noenum fuel
    refine ⟨?_, ?_, ?_⟩
    · intro depth s v r h
      simp only [Json.parseValue] at h
      split at h
      · cases h
      · cases h; rfl
      · cases h; rfl
      · cases h; rfl
      · simp only [Option.map_eq_some_iff] at h
        obtain ⟨⟨b, r'⟩, _, h⟩ := h
        cases h; rfl
      · split at h
        · cases h
        · split at h
          · cases h; rfl
          · simp only [Option.map_eq_some_iff] at h
            obtain ⟨⟨xs, r'⟩, he, h⟩ := h
            cases h
            exact good_plainArr (ihE _ _ _ _ _ rfl he)
      · split at h
        · cases h
        · split at h
          · cases h; rfl
          · simp only [Option.map_eq_some_iff] at h
            obtain ⟨⟨kvs, r'⟩, he, h⟩ := h
            cases h
            exact good_obj.mpr (ihM _ _ _ _ _ rfl he)
      · split at h
        · simp only [Option.map_eq_some_iff] at h
          obtain ⟨⟨n, r'⟩, _, h⟩ := h
          cases h; rfl
        · cases h
    · intro depth s acc xs r ha h
      simp only [Json.parseElems] at h
      split at h
      · cases h
      · next v r' hv =>
        split at h
        · exact ihE _ _ _ _ _ (Invar.goodL_snoc ha (ihV _ _ _ _ hv)) h
        · cases h
          exact Invar.goodL_snoc ha (ihV _ _ _ _ hv)
        · cases h
    · intro depth s acc kvs r ha h
      simp only [Json.parseMembers] at h
      split at h
      · split at h
        · cases h
        · split at h
          · split at h
            · cases h
            · next v r2 hv =>
              split at h
              · exact ihM _ _ _ _ _ (goodF_objInsert (ihV _ _ _ _ hv) ha) h
              · cases h
                exact goodF_objInsert (ihV _ _ _ _ hv) ha
              · cases h
          · cases h
      · cases h

theorem Json.decode_noEnum {s : Bytes} {v : Val} (h : Json.decode s = some v) : v.NoEnum = true := by
  simp only [Json.decode] at h
  split at h
  · next v' r hp =>
    split at h
    · cases h
      exact (parse_noenum _).1 _ _ _ _ hp
    · cases h
  · cases h

/-- the literal between backticks contains no map-ordered array -/
theorem parseJSONLiteral_noEnum {s : Bytes} {v : Val} (h : parseJSONLiteral s = some v) : v.NoEnum = true := by
  simp only [parseJSONLiteral] at h
  split at h
  · cases h
  · exact Json.decode_noEnum h

/-! ### the parser -/

theorem indexP_ok (child : Option INode) (h : ALO child) : Post (fun p => AL p.1) (indexP child) := by
  cases child with
  | none =>
    simp only [indexP]
    repeat (first
      | exact Post.fail
      | exact Post.fail_bind
      | (refine Post.bind (Post.any _) fun _ _ => ?_)
      | (refine Post.ite (fun _ => ?_) (fun _ => ?_))
      | exact Post.pure rfl)
  | some c =>
    have hc : AL c := h c rfl
    simp only [indexP]
    repeat (first
      | exact Post.fail
      | exact Post.fail_bind
      | (refine Post.bind (Post.any _) fun _ _ => ?_)
      | (refine Post.ite (fun _ => ?_) (fun _ => ?_))
      | (refine Post.pure ?_; show INode.all _ _ = true; simp only [INode.all, Bool.and_eq_true]; exact ⟨rfl, hc⟩))

theorem ALL_snoc {acc : List INode} {a : INode} (h : ALL acc) (ha : AL a) : ALL (acc ++ [a]) := by
  simp only [ALL, allL_snoc, Bool.and_eq_true]; exact ⟨h, ha⟩

theorem ALF_assocInsert {k : Bytes} {v : INode} (hv : AL v) : ∀ {fs : List (Bytes × INode)}, ALF fs →
    ALF (assocInsert k v fs)
  | [], _ => by simp only [ALF, assocInsert, INode.allF, Bool.and_eq_true]; exact ⟨hv, trivial⟩
  | (k', v') :: rest, h => by
    simp only [ALF, INode.allF, Bool.and_eq_true] at h
    simp only [assocInsert]
    split
    · simp only [ALF, INode.allF, Bool.and_eq_true]; exact ⟨hv, h.2⟩
    · split
      · simp only [ALF, INode.allF, Bool.and_eq_true]; exact ⟨hv, h.1, h.2⟩
      · simp only [ALF, INode.allF, Bool.and_eq_true]; exact ⟨h.1, ALF_assocInsert hv h.2⟩

/-- what the table must guarantee: with an argument list of a permitted length, the node built is well formed -/
def SpecOK : ArgSpec → Prop
  | .fixed mn mx mk => 0 < mx ∧ mn ≤ mx ∧ ∀ args, (ALL args ∧ mn ≤ args.length ∧ args.length ≤ mx) → AL (mk args)
  | .varArg mk => ∀ args, (ALL args ∧ 1 ≤ args.length) → AL (mk args)
  | .expArg mk => ∀ a b, AL a → AL b → AL (mk a b)
  | .mapArg mk => ∀ a b, AL a → AL b → AL (mk a b)

theorem AL_call (f : Fn) {args : List INode} (h : ALL args) (hl : args.length = fnArity f) : AL (.call f args) := by
  simp only [AL, INode.all, Bool.and_eq_true, pAll, INode.arityHead, INode.litOk, beq_iff_eq]
  exact ⟨⟨hl, trivial⟩, h⟩

theorem builtin_ok : ∀ e ∈ builtinTable, SpecOK e.2 := by
  simp only [builtinTable, List.forall_mem_cons]
  repeat' apply And.intro
  all_goals first
    | omega
    | (rintro args ⟨h, h1, h2⟩
       first
        | exact AL_call _ h (by simp only [fnArity]; omega)
        | (show AL (if _ then _ else _); split <;> exact AL_call _ h (by simp only [fnArity]; omega))
        | (dsimp only
           have : args.length = 2 ∨ args.length = 3 ∨ args.length = 4 := by omega
           rcases this with e | e | e <;> rw [e] <;> exact AL_call _ h (by simp only [fnArity]; omega)))
    | (rintro args ⟨h, h1⟩
       simp only [AL, INode.all, Bool.and_eq_true, pAll, INode.arityHead, INode.litOk, decide_eq_true_eq]
       exact ⟨⟨h1, trivial⟩, h⟩)
    | (intro a b ha hb; simp only [AL, INode.all, Bool.and_eq_true]; exact ⟨⟨rfl, ha⟩, hb⟩)
    | (intro a b ha hb; simp only [AL, INode.all, Bool.and_eq_true]; exact ⟨⟨rfl, hb⟩, ha⟩)
    | (intro x hx; cases hx)

theorem lookupBuiltin_ok {name : Bytes} {spec : ArgSpec} (h : lookupBuiltin name = some spec) : SpecOK spec := by
  simp only [lookupBuiltin, Option.map_eq_some_iff] at h
  obtain ⟨e, he, rfl⟩ := h
  exact builtin_ok e (List.mem_of_find?_eq_some he)

structure PIH (fuel : Nat) : Prop where
  expression : ∀ prec, Post AL (expression fuel prec)
  exprLoop : ∀ node prec, AL node → Post AL (exprLoop fuel node prec)
  filterP : Post AL (filterP fuel)
  fnArgs : ∀ mn mx acc, ALL acc → acc.length < mx → mn ≤ mx →
    Post (fun r => ALL r ∧ mn ≤ r.length ∧ r.length ≤ mx) (fnArgs fuel mn mx acc)
  fnVarArgs : ∀ acc, ALL acc → Post (fun r => ALL r ∧ 1 ≤ r.length) (fnVarArgs fuel acc)
  function : Post AL (function fuel)
  letP : ∀ vars, ALF vars → Post AL (letP fuel vars)
  primaryExpression : Post AL (primaryExpression fuel)
  projection : ∀ prec, Post ALO (projection fuel prec)
  selectArray : ∀ child, ALO child → Post AL (selectArray fuel child)
  selectArrayLoop : ∀ child fields, ALO child → ALL fields → Post AL (selectArrayLoop fuel child fields)
  selectObject : ∀ child, ALO child → Post AL (selectObject fuel child)
  selectObjectLoop : ∀ child fields, ALO child → ALF fields → Post AL (selectObjectLoop fuel child fields)

theorem ALO_none : ALO none := fun _ h => by cases h
theorem ALO_some {n : INode} (h : AL n) : ALO (some n) := fun _ e => by cases e; exact h

theorem all_getD {o : Option INode} (h : ∀ n, o = some n → INode.all pAll n = true) :
    INode.all pAll (o.getD .current) = true := by
  cases o with
  | none => rfl
  | some n => exact h n rfl

theorem allF_assocInsert {k : Bytes} {v : INode} {fs : List (Bytes × INode)}
    (hv : v.all pAll = true) (h : INode.allF pAll fs = true) :
    INode.allF pAll (assocInsert k v fs) = true :=
  ALF_assocInsert hv h

theorem AL_lit {v : Val} (h : v.NoEnum = true) : AL (.lit v) := by
  simp only [AL, INode.all, pAll, INode.arityHead, INode.litOk, Bool.true_and]; exact h

theorem AL_strLit (s : Bytes) : AL (.lit (.str s)) := AL_lit rfl

macro "al_close" : tactic => `(tactic| first
  | assumption
  | exact ALO_none
  | exact ALO_some (by assumption)
  | rfl
  | exact AL_strLit _
  | (simp_all [AL, ALL, ALF, ALO, INode.all, INode.allL, INode.allF, pAll, INode.arityHead, INode.litOk, all_getD, allL_snoc, allF_assocInsert]; done)
  | (split <;> simp_all [AL, ALL, ALF, ALO, INode.all, INode.allL, INode.allF, pAll, INode.arityHead, INode.litOk, all_getD, allL_snoc, allF_assocInsert]; done))

theorem fixed_ok {name : Bytes} {mn mx : Nat} {mk : List INode → INode}
    (h : lookupBuiltin name = some (.fixed mn mx mk)) {args : List INode}
    (ha : ALL args ∧ mn ≤ args.length ∧ args.length ≤ mx) : AL (mk args) :=
  (lookupBuiltin_ok h).2.2 args ha
theorem fixed_pos {name : Bytes} {mn mx : Nat} {mk : List INode → INode}
    (h : lookupBuiltin name = some (.fixed mn mx mk)) : ([] : List INode).length < mx := (lookupBuiltin_ok h).1
theorem fixed_le {name : Bytes} {mn mx : Nat} {mk : List INode → INode}
    (h : lookupBuiltin name = some (.fixed mn mx mk)) : mn ≤ mx := (lookupBuiltin_ok h).2.1
theorem varArg_ok {name : Bytes} {mk : List INode → INode}
    (h : lookupBuiltin name = some (.varArg mk)) {args : List INode} (ha : ALL args ∧ 1 ≤ args.length) : AL (mk args) :=
  lookupBuiltin_ok h args ha
theorem expArg_ok {name : Bytes} {mk : INode → INode → INode}
    (h : lookupBuiltin name = some (.expArg mk)) {a b : INode} (ha : AL a) (hb : AL b) : AL (mk a b) :=
  lookupBuiltin_ok h a b ha hb
theorem mapArg_ok {name : Bytes} {mk : INode → INode → INode}
    (h : lookupBuiltin name = some (.mapArg mk)) {a b : INode} (ha : AL a) (hb : AL b) : AL (mk a b) :=
  lookupBuiltin_ok h a b ha hb

macro "post_auto" ih:ident : tactic => `(tactic| repeat' (first
  | exact Post.fail
  | exact Post.fail_bind
  | (refine Post.bind (PIH.expression $ih _) fun _ _ => ?_)
  | (refine Post.bind (PIH.projection $ih _) fun _ _ => ?_)
  | (refine Post.bind (PIH.filterP $ih) fun _ _ => ?_)
  | (refine Post.bind (PIH.primaryExpression $ih) fun _ _ => ?_)
  | (refine Post.bind (PIH.exprLoop $ih _ _ (by al_close)) fun _ _ => ?_)
  | (refine Post.bind (PIH.selectObject $ih _ (by al_close)) fun _ _ => ?_)
  | (refine Post.bind (PIH.selectArray $ih _ (by al_close)) fun _ _ => ?_)
  | (refine Post.bind (PIH.fnArgs $ih _ _ _ rfl (fixed_pos (by assumption)) (fixed_le (by assumption))) fun _ _ => ?_)
  | (refine Post.bind (PIH.fnVarArgs $ih _ rfl) fun _ _ => ?_)
  | (refine Post.bind (indexP_ok _ (by al_close)) fun _ _ => ?_)
  | exact PIH.expression $ih _
  | exact PIH.function $ih
  | exact PIH.exprLoop $ih _ _ (by al_close)
  | exact PIH.selectObject $ih _ (by al_close)
  | exact PIH.selectArray $ih _ (by al_close)
  | exact PIH.letP $ih _ (by al_close)
  | exact PIH.letP $ih _ (ALF_assocInsert (by assumption) (by assumption))
  | exact PIH.fnVarArgs $ih _ (ALL_snoc (by assumption) (by assumption))
  | exact PIH.selectArrayLoop $ih _ _ (by assumption) (by al_close)
  | exact PIH.selectArrayLoop $ih _ _ (by assumption) (ALL_snoc (by assumption) (by assumption))
  | exact PIH.selectObjectLoop $ih _ _ (by assumption) (by al_close)
  | exact PIH.selectObjectLoop $ih _ _ (by assumption) (ALF_assocInsert (by assumption) (by assumption))
  | exact Post.pure ⟨ALL_snoc (by assumption) (by assumption), by simp⟩
  | exact Post.pure (AL_lit (parseJSONLiteral_noEnum (by assumption)))
  | exact Post.pure (fixed_ok (by assumption) (by assumption))
  | exact Post.pure (varArg_ok (by assumption) (by assumption))
  | exact Post.pure (expArg_ok (by assumption) (by assumption) (by assumption))
  | exact Post.pure (mapArg_ok (by assumption) (by assumption) (by assumption))
  | (refine Post.bind (Post.any _) fun _ _ => ?_)
  | (refine Post.ite (fun _ => ?_) (fun _ => ?_))
  | split
  | (refine Post.pure ?_; al_close)))

theorem step_expression {fuel : Nat} (ih : PIH fuel) (prec : Nat) : Post AL (expression (fuel+1) prec) := by
  simp only [expression]
  post_auto ih

theorem step_exprLoop {fuel : Nat} (ih : PIH fuel) (node : INode) (prec : Nat) (hn : AL node) : Post AL (exprLoop (fuel+1) node prec) := by
  simp only [exprLoop]
  post_auto ih

theorem step_filterP {fuel : Nat} (ih : PIH fuel)  : Post AL (filterP (fuel+1)) := by
  simp only [filterP]
  post_auto ih

theorem step_fnArgs {fuel : Nat} (ih : PIH fuel) (mn mx : Nat) (acc : List INode) (ha : ALL acc)
    (h1 : acc.length < mx) (h2 : mn ≤ mx) :
    Post (fun r => ALL r ∧ mn ≤ r.length ∧ r.length ≤ mx) (fnArgs (fuel+1) mn mx acc) := by
  simp only [fnArgs]
  refine Post.bind (PIH.expression ih _) fun arg harg => ?_
  refine Post.bind (Post.any _) fun t _ => ?_
  have hs := ALL_snoc ha harg
  have hl : (acc ++ [arg]).length = acc.length + 1 := by simp
  refine Post.ite (fun h => ?_) (fun h => ?_)
  · repeat' (first
      | exact Post.fail_bind
      | exact PIH.fnArgs ih _ _ _ hs (by omega) h2
      | (refine Post.ite (fun _ => ?_) (fun _ => ?_))
      | (refine Post.bind (Post.any _) fun _ _ => ?_))
  · refine Post.ite (fun h' => ?_) (fun h' => ?_)
    · repeat' (first
        | exact Post.fail_bind
        | exact PIH.fnArgs ih _ _ _ hs (by omega) h2
        | exact Post.pure ⟨hs, by omega, by omega⟩
        | (refine Post.ite (fun _ => ?_) (fun _ => ?_))
        | (refine Post.bind (Post.any _) fun _ _ => ?_))
    · repeat' (first
        | exact Post.fail_bind
        | exact Post.pure ⟨hs, by omega, by omega⟩
        | (refine Post.ite (fun _ => ?_) (fun _ => ?_))
        | (refine Post.bind (Post.any _) fun _ _ => ?_))

theorem step_fnVarArgs {fuel : Nat} (ih : PIH fuel) (acc : List INode) (ha : ALL acc) :
    Post (fun r => ALL r ∧ 1 ≤ r.length) (fnVarArgs (fuel+1) acc) := by
  simp only [fnVarArgs]
  post_auto ih

theorem step_function {fuel : Nat} (ih : PIH fuel)  : Post AL (function (fuel+1)) := by
  simp only [function]
  post_auto ih

theorem step_letP {fuel : Nat} (ih : PIH fuel) (vars : List (Bytes × INode)) (hv : ALF vars) : Post AL (letP (fuel+1) vars) := by
  simp only [letP]
  post_auto ih

theorem step_primaryExpression {fuel : Nat} (ih : PIH fuel)  : Post AL (primaryExpression (fuel+1)) := by
  simp only [primaryExpression]
  refine Post.bind (Post.any _) fun _ _ => ?_
  split <;> post_auto ih

theorem step_projection {fuel : Nat} (ih : PIH fuel) (prec : Nat) : Post ALO (projection (fuel+1) prec) := by
  simp only [projection]
  post_auto ih

theorem step_selectArray {fuel : Nat} (ih : PIH fuel) (child : Option INode) (hc : ALO child) : Post AL (selectArray (fuel+1) child) := by
  simp only [selectArray]
  post_auto ih

theorem step_selectArrayLoop {fuel : Nat} (ih : PIH fuel) (child : Option INode) (fields : List INode) (hc : ALO child) (hf : ALL fields) : Post AL (selectArrayLoop (fuel+1) child fields) := by
  simp only [selectArrayLoop]
  post_auto ih

theorem step_selectObject {fuel : Nat} (ih : PIH fuel) (child : Option INode) (hc : ALO child) : Post AL (selectObject (fuel+1) child) := by
  simp only [selectObject]
  post_auto ih

theorem step_selectObjectLoop {fuel : Nat} (ih : PIH fuel) (child : Option INode) (fields : List (Bytes × INode)) (hc : ALO child) (hf : ALF fields) : Post AL (selectObjectLoop (fuel+1) child fields) := by
  simp only [selectObjectLoop]
  post_auto ih

theorem pih : ∀ fuel, PIH fuel
  | 0 => by
    constructor <;> intros <;>
      simp only [expression, exprLoop, filterP, fnArgs, fnVarArgs, function, letP, primaryExpression, projection,
        selectArray, selectArrayLoop, selectObject, selectObjectLoop] <;> exact Post.fail
  | fuel + 1 =>
    have ih := pih fuel
    ⟨step_expression ih, step_exprLoop ih, step_filterP ih, step_fnArgs ih, step_fnVarArgs ih, step_function ih,
      step_letP ih, step_primaryExpression ih, step_projection ih, step_selectArray ih, step_selectArrayLoop ih,
      step_selectObject ih, step_selectObjectLoop ih⟩

/-- every sub-node of a parsed expression satisfies `pAll` -/
theorem parse_pAll {expr : Bytes} {n : INode} (h : Parser.parse expr = .ok n) : n.all pAll = true := by
  unfold Parser.parse at h
  simp only [] at h
  split at h
  · cases h
  · next st _ =>
    split at h
    · next n' s' hr =>
      cases h
      have hp : Post AL (do
          let node ← expression (fuelFor (lexAll expr).1.length) 1
          if (← currType) != .end then Parser.fail .unexpectedToken
          return node : PM INode) := by
        refine Post.bind ((pih _).expression _) fun node hn => ?_
        refine Post.bind (Post.any _) fun _ _ => ?_
        refine Post.ite (fun _ => ?_) (fun _ => ?_)
        · exact Post.fail_bind
        · exact Post.pure hn
      exact hp st n s' hr
    · cases h

end ArityInv

/-- **every call node of a parsed expression has the argument count of its builtin** -/
theorem parse_arityOK {expr : Bytes} {n : INode} (h : Parser.parse expr = .ok n) : n.ArityOK = true := by
  have := ArityInv.parse_pAll h
  unfold ArityInv.pAll at this
  rw [INode.all_and] at this
  simp only [Bool.and_eq_true] at this
  exact this.1

/-- **every literal of a parsed expression is free of map-ordered arrays** -/
theorem parse_noEnumLits {expr : Bytes} {n : INode} (h : Parser.parse expr = .ok n) : n.NoEnumLits = true := by
  have := ArityInv.parse_pAll h
  unfold ArityInv.pAll at this
  rw [INode.all_and] at this
  simp only [Bool.and_eq_true] at this
  exact this.2

end Jmes
