/-
  Helpers for C19B.

  Part 1: the only source of an undefined-variable error is a variable reference.  `NoUV r` := `r` is not a panic and,
          if it is an error, `undefined-variable` is not among its categories.  Every value-level function of the
          evaluator satisfies it (given that its function arguments do); same walk as `Proofs/NoPanic.lean`, whose `Sat`
          is reused with a predicate that is *not* true of every singleton (so `PeOk` is not available).
  Part 2: free variables of a node (`INode.fv`), and `ieval_noUV`: all free variables bound ⇒ `NoUV`.
          `ieval_fv_ext`: the coincidence lemma (the evaluator consults the environment on `fv` only).
  Part 3: simultaneous substitution (`substMany`, `ieval_substMany`).
  Part 4: `Reaches`: a reference on the strict evaluation path, and `Reaches.undefined`.
  (The grammar side — `let` in the declarative grammar, repeated names — is in `Proofs/C19BGrammar.lean`.)
-/
import Jmes.Proofs.Scope
import Jmes.Proofs.NoPanic
namespace Jmes

/-! ## Part 1: no undefined-variable error out of thin air -/

/-- the category list does not mention `undefined-variable` -/
abbrev NoUVp : List Cat → Prop := fun cs => Cat.undefinedVariable ∉ cs

/-- not a panic, and if an error then not an undefined-variable error -/
abbrev NoUV {α} (r : Res α) : Prop := Sat NoUVp r

/-- non-vacuity: the predicate rejects an undefined-variable error and a panic, and accepts any other error -/
example : ¬ NoUV (Res.err [Cat.invalidType, Cat.undefinedVariable] : Res Val) := fun h => h (by decide)
example : ¬ NoUV (Res.panic "x" : Res Val) := id
example : NoUV (Res.err [Cat.invalidType] : Res Val) := by show Cat.undefinedVariable ∉ _; decide

theorem uv_mem_dedup {c : Cat} : ∀ {l : List Cat}, c ∈ Cat.dedup l → c ∈ l
  | [], h => h
  | d :: l, h => by
    simp only [Cat.dedup] at h
    split at h
    · exact List.mem_cons_of_mem _ (uv_mem_dedup h)
    · rcases List.mem_cons.mp h with h | h
      · exact h ▸ List.mem_cons_self
      · exact List.mem_cons_of_mem _ (uv_mem_dedup h)

theorem uv_errType {α} : NoUV (errType : Res α) := by show Cat.undefinedVariable ∉ _; decide
theorem uv_errValue {α} : NoUV (errValue : Res α) := by show Cat.undefinedVariable ∉ _; decide
theorem uv_errNaN {α} : NoUV (errNaN : Res α) := by show Cat.undefinedVariable ∉ _; decide
theorem uv_evalFailed {α} : NoUV (Res.err [Cat.evaluationFailed] : Res α) := by show Cat.undefinedVariable ∉ _; decide

theorem uv_more {cs extra : List Cat} (h : NoUVp cs) (he : NoUVp extra) : NoUVp (Cat.dedup (cs ++ extra)) := by
  intro hm
  rcases List.mem_append.mp (uv_mem_dedup hm) with hm | hm
  · exact h hm
  · exact he hm

theorem NoUV.err_iff {α} {r : Res α} (h : NoUV r) {cs : List Cat} (hr : r = .err cs) : Cat.undefinedVariable ∉ cs :=
  h.err_pe hr

/-- one step of the walk through a `do`-block -/
macro "uv_step" : tactic => `(tactic| first
  | assumption
  | exact Sat.ok _
  | exact Sat.pure _
  | exact Sat.nondet
  | exact Sat.unmodelled _
  | exact uv_errType
  | exact uv_errValue
  | exact uv_errNaN
  | exact uv_evalFailed
  | (exfalso; exact toInt_no_panic _ ‹_›)
  | (apply Sat.bind)
  | (apply Sat.bind')
  | (show Cat.undefinedVariable ∉ _; decide)
  | (intro _)
  | (apply_assumption; done)
  | split
  | (dsimp only))

syntax "uv_auto" (" [" term,* "]")? : tactic
macro_rules
  | `(tactic| uv_auto) => `(tactic| repeat' uv_step)
  | `(tactic| uv_auto [$ts,*]) => `(tactic| repeat' (first $[| apply $ts]* | uv_step))

section fns
set_option linter.unusedSectionVars false

theorem strArg_uv (v : Val) : NoUV (strArg v) := by unfold strArg; uv_auto
theorem intArg_uv (v : Val) : NoUV (intArg v) := by unfold intArg; uv_auto
theorem checkF_uv (r : F64) : NoUV (checkF r) := by unfold checkF; uv_auto
theorem checkD_uv (r : Dec) : NoUV (checkD r) := by unfold checkD; uv_auto

/-! ### number.go -/

theorem arith_uv (fop : F64 → F64 → F64) (dop : Dec → Dec → Dec) (x y : Val) : NoUV (arith fop dop x y) := by
  unfold arith; uv_auto [checkF_uv, checkD_uv]
theorem numAbs_uv (v : Val) : NoUV (numAbs v) := by unfold numAbs; uv_auto
theorem numCeil_uv (v : Val) : NoUV (numCeil v) := by unfold numCeil; uv_auto
theorem numFloor_uv (v : Val) : NoUV (numFloor v) := by unfold numFloor; uv_auto
theorem numSum_uv (v : Val) : NoUV (numSum v) := by unfold numSum; uv_auto [checkD_uv]
theorem numAvg_uv (v : Val) : NoUV (numAvg v) := by unfold numAvg; uv_auto [checkD_uv]

/-! ### compare.go -/

theorem equalR_uv (x y : Val) : NoUV (equalR x y) := by unfold equalR; uv_auto
theorem contains_uv (x y : Val) : NoUV (contains x y) := by unfold contains; uv_auto

theorem applyBinOp_uv (op : BinOp) (l r : Val) : NoUV (applyBinOp op l r) := by
  cases op <;> simp only [applyBinOp, add, subtract, multiply, divide, integerDivide, modulo]
  all_goals uv_auto [arith_uv, equalR_uv]

/-! ### array.go -/

theorem widen_uv {α} (t : ATag) (xs : List Val) (fs : List (Val → Res Val)) (extra : List Cat) {r : Res α}
    (hfs : ∀ f ∈ fs, ∀ x, NoUV (f x)) (he : Cat.undefinedVariable ∉ extra)
    (h : NoUV r) : NoUV (widen t xs fs extra r) := by
  cases r with
  | err cs =>
    simp only [widen]
    split
    · split
      · trivial
      · show Cat.undefinedVariable ∉ _
        intro hm
        have hm := uv_mem_dedup hm
        simp only [List.mem_append, List.mem_flatMap] at hm
        rcases hm with (hm | hm) | ⟨x, _, f, hf, hm⟩
        · exact h hm
        · exact he hm
        · have := hfs f hf x
          cases hfx : f x with
          | err c => rw [hfx] at hm this; exact this hm
          | ok a => rw [hfx] at hm; cases hm
          | panic w => rw [hfx] at hm; cases hm
          | nondet => rw [hfx] at hm; cases hm
          | unmodelled w => rw [hfx] at hm; cases hm
    · exact h
  | ok a => exact h
  | panic w => exact h
  | nondet => exact h
  | unmodelled w => exact h

theorem widen_uv1 {α} (t : ATag) (xs : List Val) {f : Val → Res Val} (extra : List Cat) {r : Res α}
    (hf : ∀ x, NoUV (f x)) (he : Cat.undefinedVariable ∉ extra) (h : NoUV r) : NoUV (widen t xs [f] extra r) :=
  widen_uv t xs [f] extra (fun g hg => by simp only [List.mem_singleton] at hg; subst hg; exact hf) he h

theorem widen_uv2 {α} (t : ATag) (xs : List Val) {c f : Val → Res Val} (extra : List Cat) {r : Res α}
    (hc : ∀ x, NoUV (c x)) (hf : ∀ x, NoUV (f x)) (he : Cat.undefinedVariable ∉ extra) (h : NoUV r) :
    NoUV (widen t xs [c, f] extra r) :=
  widen_uv t xs [c, f] extra (fun g hg => by
    simp only [List.mem_cons, List.not_mem_nil, or_false] at hg
    rcases hg with rfl | rfl
    · exact hc
    · exact hf) he h

theorem index_uv (v : Val) (i : Int) : NoUV (index v i) := by unfold index; uv_auto

section hof
variable {f c : Val → Res Val} (hf : ∀ x, NoUV (f x)) (hc : ∀ x, NoUV (c x))
include hf

theorem mapPrune_uv : ∀ xs, NoUV (mapPrune f xs)
  | [] => Sat.ok _
  | x :: xs => by
    have ih := mapPrune_uv xs
    simp only [mapPrune]; uv_auto [hf]

theorem mapAll_uv : ∀ xs, NoUV (mapAll f xs)
  | [] => Sat.ok _
  | x :: xs => by
    have ih := mapAll_uv xs
    simp only [mapAll]; uv_auto [hf]

theorem filterLoop_uv : ∀ xs, NoUV (filterLoop f xs)
  | [] => Sat.ok _
  | x :: xs => by
    have ih := filterLoop_uv xs
    simp only [filterLoop]; uv_auto [hf]

theorem projectArray_uv (v : Val) : NoUV (projectArray f v) := by
  unfold projectArray; uv_auto [widen_uv1, mapPrune_uv hf]

theorem filterArray_uv (v : Val) : NoUV (filterArray f v) := by
  unfold filterArray; uv_auto [widen_uv1, filterLoop_uv hf]

theorem flattenAndProjectArray_uv (v : Val) : NoUV (flattenAndProjectArray f v) := by
  unfold flattenAndProjectArray; uv_auto [widen_uv1, mapPrune_uv hf]

theorem mapArray_uv (v : Val) : NoUV (mapArray f v) := by
  unfold mapArray; uv_auto [widen_uv1, mapAll_uv hf]

theorem projectObject_uv (v : Val) : NoUV (projectObject f v) := by
  unfold projectObject; uv_auto [widen_uv1, mapPrune_uv hf]

theorem keysFrom_uv (isStr : Bool) : ∀ xs, NoUV (keysFrom f isStr xs)
  | [] => Sat.ok _
  | x :: xs => by
    have ih := keysFrom_uv isStr xs
    simp only [keysFrom]; uv_auto [hf]

theorem keysOf_uv : ∀ xs, NoUV (keysOf f xs)
  | [] => Sat.ok _
  | x :: xs => by
    simp only [keysOf]; uv_auto [hf, keysFrom_uv hf]

theorem arrayPickBy_uv (better : Key → Key → Bool) (v : Val) : NoUV (arrayPickBy better f v) := by
  unfold arrayPickBy; uv_auto [widen_uv1, keysOf_uv hf]

theorem arrayMaxBy_uv (v : Val) : NoUV (arrayMaxBy f v) := arrayPickBy_uv hf _ v
theorem arrayMinBy_uv (v : Val) : NoUV (arrayMinBy f v) := arrayPickBy_uv hf _ v

theorem sortArrayBy_uv (v : Val) : NoUV (sortArrayBy f v) := by
  unfold sortArrayBy; uv_auto [widen_uv1, keysOf_uv hf]

theorem groupLoop_uv : ∀ xs acc, NoUV (groupLoop f xs acc)
  | [], acc => Sat.ok _
  | x :: xs, acc => by
    have ih := groupLoop_uv xs
    simp only [groupLoop]; uv_auto [hf, ih]

theorem groupBy_uv (v : Val) : NoUV (groupBy f v) := by
  unfold groupBy; uv_auto [widen_uv1, groupLoop_uv hf]

include hc
theorem filterMapPrune_uv : ∀ xs, NoUV (filterMapPrune c f xs)
  | [] => Sat.ok _
  | x :: xs => by
    have ih := filterMapPrune_uv xs
    simp only [filterMapPrune]; uv_auto [hf, hc]

theorem filterAndProjectArray_uv (v : Val) : NoUV (filterAndProjectArray c f v) := by
  unfold filterAndProjectArray; uv_auto [widen_uv2, filterMapPrune_uv hf hc]

end hof

theorem arrayMax_uv (v : Val) : NoUV (arrayMax v) := by unfold arrayMax; uv_auto
theorem arrayMin_uv (v : Val) : NoUV (arrayMin v) := by unfold arrayMin; uv_auto
theorem sortArray_uv (v : Val) : NoUV (sortArray v) := by unfold sortArray; uv_auto

/-! ### object.go -/

theorem values_uv (v : Val) : NoUV (values v) := by unfold values; uv_auto
theorem keys_uv (v : Val) : NoUV (keys v) := by unfold keys; uv_auto
theorem items_uv (v : Val) : NoUV (items v) := by unfold items; uv_auto

theorem fromItemsLoop_uv : ∀ xs acc, NoUV (fromItemsLoop xs acc)
  | [], acc => Sat.ok _
  | x :: rest, acc => by
    have ih := fromItemsLoop_uv rest
    cases x <;> simp only [fromItemsLoop] <;> uv_auto [ih]

theorem fromItems_uv (v : Val) : NoUV (fromItems v) := by
  unfold fromItems
  split
  · rename_i t xs
    have h := fromItemsLoop_uv xs []
    generalize fromItemsLoop xs [] = r at h
    cases r with
    | ok kvs => simp only []; uv_auto
    | err cs =>
      simp only []
      split
      · exact uv_more h (by decide)
      · exact h
    | panic w => exact h.elim
    | nondet => exact Sat.nondet
    | unmodelled w => exact Sat.unmodelled _
  · exact uv_errType

/-! ### slice.go -/

theorem slice_uv (v : Val) (a b : Int) : NoUV (slice v a b) := by unfold slice; uv_auto
theorem sliceStep_uv (v : Val) (a b s : Int) : NoUV (sliceStep v a b s) := by unfold sliceStep; uv_auto

/-! ### string.go -/

theorem caseMap_uv (f : Nat → Option Nat) (s : Bytes) : NoUV (caseMap f s) := by unfold caseMap; uv_auto
theorem startsWith_uv (a b : Val) : NoUV (startsWith a b) := by unfold startsWith; uv_auto [strArg_uv]
theorem endsWith_uv (a b : Val) : NoUV (endsWith a b) := by unfold endsWith; uv_auto [strArg_uv]
theorem findFirst_uv (a b : Val) : NoUV (findFirst a b) := by unfold findFirst; uv_auto [strArg_uv]
theorem findLast_uv (a b : Val) : NoUV (findLast a b) := by unfold findLast; uv_auto [strArg_uv]
theorem findFrom_uv (l : Bool) (a b c : Val) : NoUV (findFrom l a b c) := by
  unfold findFrom; uv_auto [strArg_uv, intArg_uv]
theorem findBetween_uv (l : Bool) (a b c d : Val) : NoUV (findBetween l a b c d) := by
  unfold findBetween; uv_auto [strArg_uv, intArg_uv]
theorem join_uv (a b : Val) : NoUV (join a b) := by unfold join; uv_auto
theorem padWith_uv (l : Bool) (s : Bytes) (w : Int) (p : Bytes) (o : Val) : NoUV (padWith l s w p o) := by
  unfold padWith; uv_auto
theorem padLeft_uv (a b c : Val) : NoUV (padLeft a b c) := by
  unfold padLeft; uv_auto [strArg_uv, intArg_uv, padWith_uv]
theorem padRight_uv (a b c : Val) : NoUV (padRight a b c) := by
  unfold padRight; uv_auto [strArg_uv, intArg_uv, padWith_uv]
theorem padSpaceLeft_uv (a b : Val) : NoUV (padSpaceLeft a b) := by
  unfold padSpaceLeft; uv_auto [strArg_uv, intArg_uv, padWith_uv]
theorem padSpaceRight_uv (a b : Val) : NoUV (padSpaceRight a b) := by
  unfold padSpaceRight; uv_auto [strArg_uv, intArg_uv, padWith_uv]
theorem replace_uv (a b c : Val) : NoUV (replace a b c) := by unfold replace; uv_auto [strArg_uv]
theorem replaceCount_uv (a b c d : Val) : NoUV (replaceCount a b c d) := by
  unfold replaceCount; uv_auto [strArg_uv, intArg_uv]
theorem split_uv (a b : Val) : NoUV (split a b) := by unfold split; uv_auto [strArg_uv]
theorem splitCount_uv (a b c : Val) : NoUV (splitCount a b c) := by
  unfold splitCount; uv_auto [strArg_uv, intArg_uv]
theorem trim_uv (a b : Val) : NoUV (trim a b) := by unfold trim; uv_auto [strArg_uv]
theorem trimLeft_uv (a b : Val) : NoUV (trimLeft a b) := by unfold trimLeft; uv_auto [strArg_uv]
theorem trimRight_uv (a b : Val) : NoUV (trimRight a b) := by unfold trimRight; uv_auto [strArg_uv]
theorem trimSpace_uv (a : Val) : NoUV (trimSpace a) := by unfold trimSpace; uv_auto [strArg_uv]
theorem trimSpaceLeft_uv (a : Val) : NoUV (trimSpaceLeft a) := by unfold trimSpaceLeft; uv_auto [strArg_uv]
theorem trimSpaceRight_uv (a : Val) : NoUV (trimSpaceRight a) := by unfold trimSpaceRight; uv_auto [strArg_uv]

/-! ### functions.go -/

theorem length_uv (v : Val) : NoUV (length v) := by unfold length; uv_auto
theorem lower_uv (v : Val) : NoUV (lower v) := by unfold lower; uv_auto [caseMap_uv]
theorem upper_uv (v : Val) : NoUV (upper v) := by unfold upper; uv_auto [caseMap_uv]
theorem reverse_uv (v : Val) : NoUV (reverse v) := by unfold reverse; uv_auto
theorem toStringV_uv (v : Val) : NoUV (toStringV v) := by unfold toStringV; uv_auto
theorem typeName_uv (v : Val) : NoUV (typeName v) := by unfold typeName; uv_auto

/-! ### evaluator.go: the dispatch of the eager builtins, and the helpers of merge / zip / multi-select hash -/

theorem applyFn_uv (f : Fn) (args : List Val) : NoUV (applyFn f args) := by
  unfold applyFn
  split
  all_goals first
    | exact Sat.ok _ | exact uv_evalFailed
    | apply numAbs_uv | apply numAvg_uv | apply numCeil_uv | apply contains_uv | apply endsWith_uv
    | apply findFirst_uv | apply findBetween_uv | apply findFrom_uv | apply findLast_uv
    | apply numFloor_uv | apply fromItems_uv | apply items_uv | apply join_uv | apply keys_uv
    | apply length_uv | apply lower_uv | apply arrayMax_uv | apply arrayMin_uv
    | apply padLeft_uv | apply padRight_uv | apply padSpaceLeft_uv | apply padSpaceRight_uv
    | apply replace_uv | apply replaceCount_uv | apply reverse_uv | apply sortArray_uv
    | apply split_uv | apply splitCount_uv | apply startsWith_uv | apply numSum_uv
    | apply toStringV_uv | apply trim_uv | apply trimLeft_uv | apply trimRight_uv
    | apply trimSpace_uv | apply trimSpaceLeft_uv | apply trimSpaceRight_uv
    | apply typeName_uv | apply upper_uv | apply values_uv

theorem combineUnordered_uv {acc : Res (List (Bytes × Val))} {r : Res Val} (k : Bytes)
    (ha : NoUV acc) (hr : NoUV r) : NoUV (combineUnordered acc k r) := by
  cases acc <;> cases r <;> simp only [combineUnordered] <;>
    first | exact ha.elim | exact hr.elim | exact uv_more ha hr | exact ha | exact hr | trivial

theorem zipArgs_uv : ∀ vs, NoUV (zipArgs vs)
  | [] => Sat.ok _
  | v :: rest => by
    have ih := zipArgs_uv rest
    cases v <;> simp only [zipArgs] <;> uv_auto

theorem zipCheck_uv : ∀ vs, NoUV (zipCheck vs)
  | [] => Sat.ok _
  | v :: rest => by
    have ih := zipCheck_uv rest
    cases v <;> simp only [zipCheck] <;> uv_auto

theorem mergeArgs_uv : ∀ vs acc, NoUV (mergeArgs vs acc)
  | [], acc => Sat.ok _
  | v :: rest, acc => by
    have ih := mergeArgs_uv rest
    cases v <;> simp only [mergeArgs] <;> uv_auto [ih]

end fns

/-! ## Part 2: free variables -/

mutual
/-- the free variables of a node: a reference `$y` is free; `let` binds its names in the body only (the binding
    expressions belong to the enclosing scope); an expression reference `&e` is transparent -/
def INode.fv : INode → List Bytes
  | .lit _ => []
  | .current => []
  | .root => []
  | .field _ => []
  | .variable y => [y]
  | .binop _ l r => l.fv ++ r.fv
  | .and l r => l.fv ++ r.fv
  | .or l r => l.fv ++ r.fv
  | .not c => c.fv
  | .negate c => c.fv
  | .assertNumber c => c.fv
  | .call _ args => fvList args
  | .defineVariables vars child => fvFields vars ++ child.fv.filter (fun y => !bindsName y vars)
  | .filter c f => c.fv ++ f.fv
  | .filterCurrent f => f.fv
  | .filterAndProject l f r => l.fv ++ f.fv ++ r.fv
  | .filterAndProjectCurrent f c => f.fv ++ c.fv
  | .flatten c => c.fv
  | .flattenCurrent => []
  | .flattenAndProject l r => l.fv ++ r.fv
  | .flattenAndProjectCurrent c => c.fv
  | .index c _ => c.fv
  | .indexCurrent _ => []
  | .smallIndexCurrent _ => []
  | .objectValues c => c.fv
  | .objectValuesCurrent => []
  | .pipe l r => l.fv ++ r.fv
  | .projectArray l r => l.fv ++ r.fv
  | .projectArrayCurrent c => c.fv
  | .projectObject l r => l.fv ++ r.fv
  | .projectObjectCurrent c => c.fv
  | .pruneArray c => c.fv
  | .pruneArrayCurrent => []
  | .selectArray c fs => c.fv ++ fvList fs
  | .selectArrayCurrent fs => fvList fs
  | .selectArraySingle c f => c.fv ++ f.fv
  | .selectArraySingleCurrent f => f.fv
  | .selectObject c fs => c.fv ++ fvFields fs
  | .selectObjectCurrent fs => fvFields fs
  | .selectObjectSingle c _ f => c.fv ++ f.fv
  | .selectObjectSingleCurrent _ f => f.fv
  | .slice c _ _ => c.fv
  | .sliceCurrent _ _ => []
  | .sliceStep c _ _ _ => c.fv
  | .sliceStepCurrent _ _ _ => []
  | .groupBy a e => a.fv ++ e.fv
  | .map e a => e.fv ++ a.fv
  | .maxBy a e => a.fv ++ e.fv
  | .minBy a e => a.fv ++ e.fv
  | .sortBy a e => a.fv ++ e.fv
  | .merge args => fvList args
  | .notNull args => fvList args
  | .zip args => fvList args
def fvList : List INode → List Bytes
  | [] => []
  | n :: ns => n.fv ++ fvList ns
def fvFields : List (Bytes × INode) → List Bytes
  | [] => []
  | (_, n) :: rest => n.fv ++ fvFields rest
end

/-- one constructor of `ieval`: unfold one step, then walk -/
local macro "uv_case" : tactic => `(tactic| (
  simp only [ieval]
  uv_auto [applyBinOp_uv, applyFn_uv, index_uv, slice_uv, sliceStep_uv, zipArgs_uv,
    filterArray_uv, filterAndProjectArray_uv, flattenAndProjectArray_uv, projectArray_uv, projectObject_uv,
    groupBy_uv, mapArray_uv, arrayMaxBy_uv, arrayMinBy_uv, sortArrayBy_uv]))

local macro "fv_mem" : tactic => `(tactic| (
  simp only [INode.fv, fvList, fvFields, List.mem_append, true_or, or_true, *]))

set_option linter.unusedVariables false in
mutual
/-- **No undefined-variable error without an unbound free variable.**  If every free variable of `n` is bound in `env`,
    then evaluating `n` — on any current value, with any root — is not a panic and, when it fails, `undefined-variable`
    is not among the reported categories. -/
theorem ieval_noUV (root : Val) : (n : INode) → (cur : Val) → (env : Env) →
    (∀ x ∈ n.fv, env.get x ≠ none) → NoUV (ieval root n cur env)
  | .lit w, cur, env, h => by
    uv_case
  | .current, cur, env, h => by
    uv_case
  | .root, cur, env, h => by
    uv_case
  | .field k, cur, env, h => by
    uv_case
  | .variable y, cur, env, h => by
    simp only [ieval]
    cases hg : env.get y with
    | some v => exact Sat.ok _
    | none => exact absurd hg (h y (by simp only [INode.fv, List.mem_singleton]))
  | .binop op l r, cur, env, h => by
    have hl := fun cc => ieval_noUV root l cc env (fun x hx => h x (by fv_mem))
    have hr := fun cc => ieval_noUV root r cc env (fun x hx => h x (by fv_mem))
    uv_case
  | .and l r, cur, env, h => by
    have hl := fun cc => ieval_noUV root l cc env (fun x hx => h x (by fv_mem))
    have hr := fun cc => ieval_noUV root r cc env (fun x hx => h x (by fv_mem))
    uv_case
  | .or l r, cur, env, h => by
    have hl := fun cc => ieval_noUV root l cc env (fun x hx => h x (by fv_mem))
    have hr := fun cc => ieval_noUV root r cc env (fun x hx => h x (by fv_mem))
    uv_case
  | .not c, cur, env, h => by
    have hc := fun cc => ieval_noUV root c cc env (fun x hx => h x (by fv_mem))
    uv_case
  | .negate c, cur, env, h => by
    have hc := fun cc => ieval_noUV root c cc env (fun x hx => h x (by fv_mem))
    uv_case
  | .assertNumber c, cur, env, h => by
    have hc := fun cc => ieval_noUV root c cc env (fun x hx => h x (by fv_mem))
    uv_case
  | .call f args, cur, env, h => by
    have hargs := fun cc => ievalList_noUV root args cc env (fun x hx => h x (by fv_mem))
    uv_case
  | .defineVariables vars child, cur, env, h => by
    have hvars := ievalFields_noUV root vars cur env (fun x hx => h x (by
      simp only [INode.fv, List.mem_append]; exact Or.inl hx))
    simp only [ieval]
    cases hb : ievalFields root vars cur env with
    | ok bs =>
      simp only [Res.ok_bind]
      apply ieval_noUV root child cur (bs ++ env)
      intro x hx
      simp only [Env.get]
      rw [objLookup_append]
      cases hl : objLookup x bs with
      | some w => simp
      | none =>
        have hnm : x ∉ vars.map Prod.fst := (ievalFields_lookup_none hb x).mp hl
        have hbn : bindsName x vars = false := by
          rw [← Bool.not_eq_true, bindsName_iff]; exact hnm
        exact h x (by simp only [INode.fv, List.mem_append, List.mem_filter, hx, hbn, Bool.not_false, and_self, or_true])
    | err cs => rw [hb] at hvars; exact hvars
    | panic w => rw [hb] at hvars; exact hvars
    | nondet => exact Sat.nondet
    | unmodelled w => exact Sat.unmodelled _
  | .filter c f, cur, env, h => by
    have hc := fun cc => ieval_noUV root c cc env (fun x hx => h x (by fv_mem))
    have hf := fun cc => ieval_noUV root f cc env (fun x hx => h x (by fv_mem))
    uv_case
  | .filterCurrent f, cur, env, h => by
    have hf := fun cc => ieval_noUV root f cc env (fun x hx => h x (by fv_mem))
    uv_case
  | .filterAndProject l f r, cur, env, h => by
    have hl := fun cc => ieval_noUV root l cc env (fun x hx => h x (by fv_mem))
    have hf := fun cc => ieval_noUV root f cc env (fun x hx => h x (by fv_mem))
    have hr := fun cc => ieval_noUV root r cc env (fun x hx => h x (by fv_mem))
    uv_case
  | .filterAndProjectCurrent f c, cur, env, h => by
    have hf := fun cc => ieval_noUV root f cc env (fun x hx => h x (by fv_mem))
    have hc := fun cc => ieval_noUV root c cc env (fun x hx => h x (by fv_mem))
    uv_case
  | .flatten c, cur, env, h => by
    have hc := fun cc => ieval_noUV root c cc env (fun x hx => h x (by fv_mem))
    uv_case
  | .flattenCurrent, cur, env, h => by
    uv_case
  | .flattenAndProject l r, cur, env, h => by
    have hl := fun cc => ieval_noUV root l cc env (fun x hx => h x (by fv_mem))
    have hr := fun cc => ieval_noUV root r cc env (fun x hx => h x (by fv_mem))
    uv_case
  | .flattenAndProjectCurrent c, cur, env, h => by
    have hc := fun cc => ieval_noUV root c cc env (fun x hx => h x (by fv_mem))
    uv_case
  | .index c i, cur, env, h => by
    have hc := fun cc => ieval_noUV root c cc env (fun x hx => h x (by fv_mem))
    uv_case
  | .indexCurrent i, cur, env, h => by
    uv_case
  | .smallIndexCurrent i, cur, env, h => by
    uv_case
  | .objectValues c, cur, env, h => by
    have hc := fun cc => ieval_noUV root c cc env (fun x hx => h x (by fv_mem))
    uv_case
  | .objectValuesCurrent, cur, env, h => by
    uv_case
  | .pipe l r, cur, env, h => by
    have hl := fun cc => ieval_noUV root l cc env (fun x hx => h x (by fv_mem))
    have hr := fun cc => ieval_noUV root r cc env (fun x hx => h x (by fv_mem))
    uv_case
  | .projectArray l r, cur, env, h => by
    have hl := fun cc => ieval_noUV root l cc env (fun x hx => h x (by fv_mem))
    have hr := fun cc => ieval_noUV root r cc env (fun x hx => h x (by fv_mem))
    uv_case
  | .projectArrayCurrent c, cur, env, h => by
    have hc := fun cc => ieval_noUV root c cc env (fun x hx => h x (by fv_mem))
    uv_case
  | .projectObject l r, cur, env, h => by
    have hl := fun cc => ieval_noUV root l cc env (fun x hx => h x (by fv_mem))
    have hr := fun cc => ieval_noUV root r cc env (fun x hx => h x (by fv_mem))
    uv_case
  | .projectObjectCurrent c, cur, env, h => by
    have hc := fun cc => ieval_noUV root c cc env (fun x hx => h x (by fv_mem))
    uv_case
  | .pruneArray c, cur, env, h => by
    have hc := fun cc => ieval_noUV root c cc env (fun x hx => h x (by fv_mem))
    uv_case
  | .pruneArrayCurrent, cur, env, h => by
    uv_case
  | .selectArray c fs, cur, env, h => by
    have hc := fun cc => ieval_noUV root c cc env (fun x hx => h x (by fv_mem))
    have hfs := fun cc => ievalList_noUV root fs cc env (fun x hx => h x (by fv_mem))
    uv_case
  | .selectArrayCurrent fs, cur, env, h => by
    have hfs := fun cc => ievalList_noUV root fs cc env (fun x hx => h x (by fv_mem))
    uv_case
  | .selectArraySingle c f, cur, env, h => by
    have hc := fun cc => ieval_noUV root c cc env (fun x hx => h x (by fv_mem))
    have hf := fun cc => ieval_noUV root f cc env (fun x hx => h x (by fv_mem))
    uv_case
  | .selectArraySingleCurrent f, cur, env, h => by
    have hf := fun cc => ieval_noUV root f cc env (fun x hx => h x (by fv_mem))
    uv_case
  | .selectObject c fs, cur, env, h => by
    have hc := fun cc => ieval_noUV root c cc env (fun x hx => h x (by fv_mem))
    have hfs := fun cc => ievalFields_noUV root fs cc env (fun x hx => h x (by fv_mem))
    uv_case
  | .selectObjectCurrent fs, cur, env, h => by
    have hfs := fun cc => ievalFields_noUV root fs cc env (fun x hx => h x (by fv_mem))
    uv_case
  | .selectObjectSingle c k f, cur, env, h => by
    have hc := fun cc => ieval_noUV root c cc env (fun x hx => h x (by fv_mem))
    have hf := fun cc => ieval_noUV root f cc env (fun x hx => h x (by fv_mem))
    uv_case
  | .selectObjectSingleCurrent k f, cur, env, h => by
    have hf := fun cc => ieval_noUV root f cc env (fun x hx => h x (by fv_mem))
    uv_case
  | .slice c a b, cur, env, h => by
    have hc := fun cc => ieval_noUV root c cc env (fun x hx => h x (by fv_mem))
    uv_case
  | .sliceCurrent a b, cur, env, h => by
    uv_case
  | .sliceStep c a b s, cur, env, h => by
    have hc := fun cc => ieval_noUV root c cc env (fun x hx => h x (by fv_mem))
    uv_case
  | .sliceStepCurrent a b s, cur, env, h => by
    uv_case
  | .groupBy a e, cur, env, h => by
    have ha := fun cc => ieval_noUV root a cc env (fun x hx => h x (by fv_mem))
    have he := fun cc => ieval_noUV root e cc env (fun x hx => h x (by fv_mem))
    uv_case
  | .map e a, cur, env, h => by
    have he := fun cc => ieval_noUV root e cc env (fun x hx => h x (by fv_mem))
    have ha := fun cc => ieval_noUV root a cc env (fun x hx => h x (by fv_mem))
    uv_case
  | .maxBy a e, cur, env, h => by
    have ha := fun cc => ieval_noUV root a cc env (fun x hx => h x (by fv_mem))
    have he := fun cc => ieval_noUV root e cc env (fun x hx => h x (by fv_mem))
    uv_case
  | .minBy a e, cur, env, h => by
    have ha := fun cc => ieval_noUV root a cc env (fun x hx => h x (by fv_mem))
    have he := fun cc => ieval_noUV root e cc env (fun x hx => h x (by fv_mem))
    uv_case
  | .sortBy a e, cur, env, h => by
    have ha := fun cc => ieval_noUV root a cc env (fun x hx => h x (by fv_mem))
    have he := fun cc => ieval_noUV root e cc env (fun x hx => h x (by fv_mem))
    uv_case
  | .merge args, cur, env, h => by
    have hargs := fun cc acc => ievalMerge_noUV root args cc env acc (fun x hx => h x (by fv_mem))
    uv_case
  | .notNull args, cur, env, h => by
    have hargs := fun cc => ievalNotNull_noUV root args cc env (fun x hx => h x (by fv_mem))
    uv_case
  | .zip args, cur, env, h => by
    have hargs := fun cc => ievalZip_noUV root args cc env (fun x hx => h x (by fv_mem))
    uv_case
theorem ievalList_noUV (root : Val) : (ns : List INode) → (cur : Val) → (env : Env) →
    (∀ x ∈ fvList ns, env.get x ≠ none) → NoUV (ievalList root ns cur env)
  | [], cur, env, h => Sat.ok _
  | n :: ns, cur, env, h => by
    have h1 := ieval_noUV root n cur env (fun x hx => h x (by fv_mem))
    have h2 := ievalList_noUV root ns cur env (fun x hx => h x (by fv_mem))
    simp only [ievalList]; uv_auto
theorem ievalFields_noUV (root : Val) : (fs : List (Bytes × INode)) → (cur : Val) → (env : Env) →
    (∀ x ∈ fvFields fs, env.get x ≠ none) → NoUV (ievalFields root fs cur env)
  | [], cur, env, h => Sat.ok _
  | (k, n) :: rest, cur, env, h => by
    simp only [ievalFields]
    exact combineUnordered_uv k (ievalFields_noUV root rest cur env (fun x hx => h x (by fv_mem)))
      (ieval_noUV root n cur env (fun x hx => h x (by fv_mem)))
theorem ievalMerge_noUV (root : Val) : (ns : List INode) → (cur : Val) → (env : Env) → (acc : List (Bytes × Val)) →
    (∀ x ∈ fvList ns, env.get x ≠ none) → NoUV (ievalMerge root ns cur env acc)
  | [], cur, env, acc, h => Sat.ok _
  | n :: ns, cur, env, acc, h => by
    have h1 := ieval_noUV root n cur env (fun x hx => h x (by fv_mem))
    have h2 := fun acc => ievalMerge_noUV root ns cur env acc (fun x hx => h x (by fv_mem))
    simp only [ievalMerge]; uv_auto [h2]
theorem ievalNotNull_noUV (root : Val) : (ns : List INode) → (cur : Val) → (env : Env) →
    (∀ x ∈ fvList ns, env.get x ≠ none) → NoUV (ievalNotNull root ns cur env)
  | [], cur, env, h => Sat.ok _
  | n :: ns, cur, env, h => by
    have h1 := ieval_noUV root n cur env (fun x hx => h x (by fv_mem))
    have h2 := ievalNotNull_noUV root ns cur env (fun x hx => h x (by fv_mem))
    simp only [ievalNotNull]; uv_auto
theorem ievalZip_noUV (root : Val) : (ns : List INode) → (cur : Val) → (env : Env) →
    (∀ x ∈ fvList ns, env.get x ≠ none) → NoUV (ievalZip root ns cur env)
  | [], cur, env, h => Sat.ok _
  | n :: ns, cur, env, h => by
    have h1 := ieval_noUV root n cur env (fun x hx => h x (by fv_mem))
    have h2 := ievalZip_noUV root ns cur env (fun x hx => h x (by fv_mem))
    simp only [ievalZip]; uv_auto
end

/-- `abs($x)` with `$x` bound to a string: an invalid-type error, not undefined-variable -/
example : NoUV (ieval .null (.call .abs [.variable [0x78]]) .null [([0x78], .str [])]) :=
  ieval_noUV _ _ _ _ (by simp [INode.fv, fvList, Env.get, objLookup])
/-- the hypothesis is needed: unbound, the same expression is an undefined-variable error -/
example : ¬ NoUV (ieval .null (.call .abs [.variable [0x78]]) .null []) := by
  simp [ieval, ievalList, Env.get, objLookup, Sat]

/-! ### coincidence: the evaluator looks at the environment on the free variables only -/

set_option linter.unusedVariables false in
mutual
/-- **Coincidence lemma.**  Two environments that agree on the free variables of `n` give the same outcome: `fv` does not
    miss any variable the evaluation can consult. -/
theorem ieval_fv_ext (root : Val) : (n : INode) → (cur : Val) → (env env' : Env) →
    (∀ x ∈ n.fv, env.get x = env'.get x) → ieval root n cur env = ieval root n cur env'
  | .lit w, cur, env, env', h => by
    simp only [ieval]
  | .current, cur, env, env', h => by
    simp only [ieval]
  | .root, cur, env, env', h => by
    simp only [ieval]
  | .field k, cur, env, env', h => by
    simp only [ieval]
  | .variable y, cur, env, env', h => by
    simp only [ieval, h y (by simp only [INode.fv, List.mem_singleton])]
  | .binop op l r, cur, env, env', h => by
    simp only [ieval,
      fun cc => ieval_fv_ext root l cc env env' (fun x hx => h x (by fv_mem)),
      fun cc => ieval_fv_ext root r cc env env' (fun x hx => h x (by fv_mem))]
  | .and l r, cur, env, env', h => by
    simp only [ieval,
      fun cc => ieval_fv_ext root l cc env env' (fun x hx => h x (by fv_mem)),
      fun cc => ieval_fv_ext root r cc env env' (fun x hx => h x (by fv_mem))]
  | .or l r, cur, env, env', h => by
    simp only [ieval,
      fun cc => ieval_fv_ext root l cc env env' (fun x hx => h x (by fv_mem)),
      fun cc => ieval_fv_ext root r cc env env' (fun x hx => h x (by fv_mem))]
  | .not c, cur, env, env', h => by
    simp only [ieval,
      fun cc => ieval_fv_ext root c cc env env' (fun x hx => h x (by fv_mem))]
  | .negate c, cur, env, env', h => by
    simp only [ieval,
      fun cc => ieval_fv_ext root c cc env env' (fun x hx => h x (by fv_mem))]
  | .assertNumber c, cur, env, env', h => by
    simp only [ieval,
      fun cc => ieval_fv_ext root c cc env env' (fun x hx => h x (by fv_mem))]
  | .call f args, cur, env, env', h => by
    simp only [ieval,
      fun cc => ievalList_fv_ext root args cc env env' (fun x hx => h x (by fv_mem))]
  | .defineVariables vars child, cur, env, env', h => by
    simp only [ieval, ievalFields_fv_ext root vars cur env env' (fun x hx => h x (by
      simp only [INode.fv, List.mem_append]; exact Or.inl hx))]
    cases hb : ievalFields root vars cur env' with
    | ok bs =>
      simp only [Res.ok_bind]
      apply ieval_fv_ext root child cur (bs ++ env) (bs ++ env')
      intro x hx
      simp only [Env.get]
      rw [objLookup_append, objLookup_append]
      cases hl : objLookup x bs with
      | some w => rfl
      | none =>
        have hnm : x ∉ vars.map Prod.fst := (ievalFields_lookup_none hb x).mp hl
        have hbn : bindsName x vars = false := by
          rw [← Bool.not_eq_true, bindsName_iff]; exact hnm
        exact h x (by simp only [INode.fv, List.mem_append, List.mem_filter, hx, hbn, Bool.not_false, and_self, or_true])
    | err cs => rfl
    | panic w => rfl
    | nondet => rfl
    | unmodelled w => rfl
  | .filter c f, cur, env, env', h => by
    simp only [ieval,
      fun cc => ieval_fv_ext root c cc env env' (fun x hx => h x (by fv_mem)),
      fun cc => ieval_fv_ext root f cc env env' (fun x hx => h x (by fv_mem))]
  | .filterCurrent f, cur, env, env', h => by
    simp only [ieval,
      fun cc => ieval_fv_ext root f cc env env' (fun x hx => h x (by fv_mem))]
  | .filterAndProject l f r, cur, env, env', h => by
    simp only [ieval,
      fun cc => ieval_fv_ext root l cc env env' (fun x hx => h x (by fv_mem)),
      fun cc => ieval_fv_ext root f cc env env' (fun x hx => h x (by fv_mem)),
      fun cc => ieval_fv_ext root r cc env env' (fun x hx => h x (by fv_mem))]
  | .filterAndProjectCurrent f c, cur, env, env', h => by
    simp only [ieval,
      fun cc => ieval_fv_ext root f cc env env' (fun x hx => h x (by fv_mem)),
      fun cc => ieval_fv_ext root c cc env env' (fun x hx => h x (by fv_mem))]
  | .flatten c, cur, env, env', h => by
    simp only [ieval,
      fun cc => ieval_fv_ext root c cc env env' (fun x hx => h x (by fv_mem))]
  | .flattenCurrent, cur, env, env', h => by
    simp only [ieval]
  | .flattenAndProject l r, cur, env, env', h => by
    simp only [ieval,
      fun cc => ieval_fv_ext root l cc env env' (fun x hx => h x (by fv_mem)),
      fun cc => ieval_fv_ext root r cc env env' (fun x hx => h x (by fv_mem))]
  | .flattenAndProjectCurrent c, cur, env, env', h => by
    simp only [ieval,
      fun cc => ieval_fv_ext root c cc env env' (fun x hx => h x (by fv_mem))]
  | .index c i, cur, env, env', h => by
    simp only [ieval,
      fun cc => ieval_fv_ext root c cc env env' (fun x hx => h x (by fv_mem))]
  | .indexCurrent i, cur, env, env', h => by
    simp only [ieval]
  | .smallIndexCurrent i, cur, env, env', h => by
    simp only [ieval]
  | .objectValues c, cur, env, env', h => by
    simp only [ieval,
      fun cc => ieval_fv_ext root c cc env env' (fun x hx => h x (by fv_mem))]
  | .objectValuesCurrent, cur, env, env', h => by
    simp only [ieval]
  | .pipe l r, cur, env, env', h => by
    simp only [ieval,
      fun cc => ieval_fv_ext root l cc env env' (fun x hx => h x (by fv_mem)),
      fun cc => ieval_fv_ext root r cc env env' (fun x hx => h x (by fv_mem))]
  | .projectArray l r, cur, env, env', h => by
    simp only [ieval,
      fun cc => ieval_fv_ext root l cc env env' (fun x hx => h x (by fv_mem)),
      fun cc => ieval_fv_ext root r cc env env' (fun x hx => h x (by fv_mem))]
  | .projectArrayCurrent c, cur, env, env', h => by
    simp only [ieval,
      fun cc => ieval_fv_ext root c cc env env' (fun x hx => h x (by fv_mem))]
  | .projectObject l r, cur, env, env', h => by
    simp only [ieval,
      fun cc => ieval_fv_ext root l cc env env' (fun x hx => h x (by fv_mem)),
      fun cc => ieval_fv_ext root r cc env env' (fun x hx => h x (by fv_mem))]
  | .projectObjectCurrent c, cur, env, env', h => by
    simp only [ieval,
      fun cc => ieval_fv_ext root c cc env env' (fun x hx => h x (by fv_mem))]
  | .pruneArray c, cur, env, env', h => by
    simp only [ieval,
      fun cc => ieval_fv_ext root c cc env env' (fun x hx => h x (by fv_mem))]
  | .pruneArrayCurrent, cur, env, env', h => by
    simp only [ieval]
  | .selectArray c fs, cur, env, env', h => by
    simp only [ieval,
      fun cc => ieval_fv_ext root c cc env env' (fun x hx => h x (by fv_mem)),
      fun cc => ievalList_fv_ext root fs cc env env' (fun x hx => h x (by fv_mem))]
  | .selectArrayCurrent fs, cur, env, env', h => by
    simp only [ieval,
      fun cc => ievalList_fv_ext root fs cc env env' (fun x hx => h x (by fv_mem))]
  | .selectArraySingle c f, cur, env, env', h => by
    simp only [ieval,
      fun cc => ieval_fv_ext root c cc env env' (fun x hx => h x (by fv_mem)),
      fun cc => ieval_fv_ext root f cc env env' (fun x hx => h x (by fv_mem))]
  | .selectArraySingleCurrent f, cur, env, env', h => by
    simp only [ieval,
      fun cc => ieval_fv_ext root f cc env env' (fun x hx => h x (by fv_mem))]
  | .selectObject c fs, cur, env, env', h => by
    simp only [ieval,
      fun cc => ieval_fv_ext root c cc env env' (fun x hx => h x (by fv_mem)),
      fun cc => ievalFields_fv_ext root fs cc env env' (fun x hx => h x (by fv_mem))]
  | .selectObjectCurrent fs, cur, env, env', h => by
    simp only [ieval,
      fun cc => ievalFields_fv_ext root fs cc env env' (fun x hx => h x (by fv_mem))]
  | .selectObjectSingle c k f, cur, env, env', h => by
    simp only [ieval,
      fun cc => ieval_fv_ext root c cc env env' (fun x hx => h x (by fv_mem)),
      fun cc => ieval_fv_ext root f cc env env' (fun x hx => h x (by fv_mem))]
  | .selectObjectSingleCurrent k f, cur, env, env', h => by
    simp only [ieval,
      fun cc => ieval_fv_ext root f cc env env' (fun x hx => h x (by fv_mem))]
  | .slice c a b, cur, env, env', h => by
    simp only [ieval,
      fun cc => ieval_fv_ext root c cc env env' (fun x hx => h x (by fv_mem))]
  | .sliceCurrent a b, cur, env, env', h => by
    simp only [ieval]
  | .sliceStep c a b s, cur, env, env', h => by
    simp only [ieval,
      fun cc => ieval_fv_ext root c cc env env' (fun x hx => h x (by fv_mem))]
  | .sliceStepCurrent a b s, cur, env, env', h => by
    simp only [ieval]
  | .groupBy a e, cur, env, env', h => by
    simp only [ieval,
      fun cc => ieval_fv_ext root a cc env env' (fun x hx => h x (by fv_mem)),
      fun cc => ieval_fv_ext root e cc env env' (fun x hx => h x (by fv_mem))]
  | .map e a, cur, env, env', h => by
    simp only [ieval,
      fun cc => ieval_fv_ext root e cc env env' (fun x hx => h x (by fv_mem)),
      fun cc => ieval_fv_ext root a cc env env' (fun x hx => h x (by fv_mem))]
  | .maxBy a e, cur, env, env', h => by
    simp only [ieval,
      fun cc => ieval_fv_ext root a cc env env' (fun x hx => h x (by fv_mem)),
      fun cc => ieval_fv_ext root e cc env env' (fun x hx => h x (by fv_mem))]
  | .minBy a e, cur, env, env', h => by
    simp only [ieval,
      fun cc => ieval_fv_ext root a cc env env' (fun x hx => h x (by fv_mem)),
      fun cc => ieval_fv_ext root e cc env env' (fun x hx => h x (by fv_mem))]
  | .sortBy a e, cur, env, env', h => by
    simp only [ieval,
      fun cc => ieval_fv_ext root a cc env env' (fun x hx => h x (by fv_mem)),
      fun cc => ieval_fv_ext root e cc env env' (fun x hx => h x (by fv_mem))]
  | .merge args, cur, env, env', h => by
    simp only [ieval,
      fun cc acc => ievalMerge_fv_ext root args cc env env' acc (fun x hx => h x (by fv_mem))]
  | .notNull args, cur, env, env', h => by
    simp only [ieval,
      fun cc => ievalNotNull_fv_ext root args cc env env' (fun x hx => h x (by fv_mem))]
  | .zip args, cur, env, env', h => by
    simp only [ieval,
      fun cc => ievalZip_fv_ext root args cc env env' (fun x hx => h x (by fv_mem))]
theorem ievalList_fv_ext (root : Val) : (ns : List INode) → (cur : Val) → (env env' : Env) →
    (∀ x ∈ fvList ns, env.get x = env'.get x) → ievalList root ns cur env = ievalList root ns cur env'
  | [], cur, env, env', h => by simp only [ievalList]
  | n :: ns, cur, env, env', h => by
    simp only [ievalList, ieval_fv_ext root n cur env env' (fun x hx => h x (by fv_mem)),
      ievalList_fv_ext root ns cur env env' (fun x hx => h x (by fv_mem))]
theorem ievalFields_fv_ext (root : Val) : (fs : List (Bytes × INode)) → (cur : Val) → (env env' : Env) →
    (∀ x ∈ fvFields fs, env.get x = env'.get x) → ievalFields root fs cur env = ievalFields root fs cur env'
  | [], cur, env, env', h => by simp only [ievalFields]
  | (k, n) :: rest, cur, env, env', h => by
    simp only [ievalFields, ieval_fv_ext root n cur env env' (fun x hx => h x (by fv_mem)),
      ievalFields_fv_ext root rest cur env env' (fun x hx => h x (by fv_mem))]
theorem ievalMerge_fv_ext (root : Val) : (ns : List INode) → (cur : Val) → (env env' : Env) →
    (acc : List (Bytes × Val)) →
    (∀ x ∈ fvList ns, env.get x = env'.get x) → ievalMerge root ns cur env acc = ievalMerge root ns cur env' acc
  | [], cur, env, env', acc, h => by simp only [ievalMerge]
  | n :: ns, cur, env, env', acc, h => by
    simp only [ievalMerge, ieval_fv_ext root n cur env env' (fun x hx => h x (by fv_mem)),
      fun acc => ievalMerge_fv_ext root ns cur env env' acc (fun x hx => h x (by fv_mem))]
theorem ievalNotNull_fv_ext (root : Val) : (ns : List INode) → (cur : Val) → (env env' : Env) →
    (∀ x ∈ fvList ns, env.get x = env'.get x) → ievalNotNull root ns cur env = ievalNotNull root ns cur env'
  | [], cur, env, env', h => by simp only [ievalNotNull]
  | n :: ns, cur, env, env', h => by
    simp only [ievalNotNull, ieval_fv_ext root n cur env env' (fun x hx => h x (by fv_mem)),
      ievalNotNull_fv_ext root ns cur env env' (fun x hx => h x (by fv_mem))]
theorem ievalZip_fv_ext (root : Val) : (ns : List INode) → (cur : Val) → (env env' : Env) →
    (∀ x ∈ fvList ns, env.get x = env'.get x) → ievalZip root ns cur env = ievalZip root ns cur env'
  | [], cur, env, env', h => by simp only [ievalZip]
  | n :: ns, cur, env, env', h => by
    simp only [ievalZip, ieval_fv_ext root n cur env env' (fun x hx => h x (by fv_mem)),
      ievalZip_fv_ext root ns cur env env' (fun x hx => h x (by fv_mem))]
end

/-! ## Part 3: simultaneous substitution -/

/-- substitute the values of a whole binding list, first pair first (so that, as in `objLookup`, the first
    occurrence of a name wins; the values are closed, so this *is* the simultaneous substitution) -/
def substMany (bs : List (Bytes × Val)) (n : INode) : INode := bs.foldl (fun n kv => n.subst kv.1 kv.2) n

@[simp] theorem substMany_nil (n : INode) : substMany [] n = n := rfl
@[simp] theorem substMany_cons (x : Bytes) (v : Val) (bs : List (Bytes × Val)) (n : INode) :
    substMany ((x, v) :: bs) n = substMany bs (n.subst x v) := rfl

/-- evaluating under prepended bindings = evaluating the substituted node without them -/
theorem ieval_substMany (root : Val) : ∀ (bs : List (Bytes × Val)) (n : INode) (cur : Val) (env : Env),
    ieval root (substMany bs n) cur env = ieval root n cur (bs ++ env)
  | [], _, _, _ => rfl
  | (x, v) :: bs, n, cur, env => by
    rw [substMany_cons, ieval_substMany root bs (n.subst x v) cur env]
    exact ieval_subst_gen root x v n cur ((x, v) :: (bs ++ env)) (bs ++ env)
      (by simp [Env.get, objLookup]) (by intro y hy; simp [Env.get, objLookup, hy])

example (v w : Val) : substMany [([0x78], v), ([0x79], w)] (.binop .add (.variable [0x78]) (.variable [0x79])) =
    .binop .add (.lit v) (.lit w) := by
  simp [substMany, INode.subst]
/-- a repeated name: the first pair wins, as in `objLookup` -/
example (v w : Val) : substMany [([0x78], v), ([0x78], w)] (.variable [0x78]) = .lit v := by
  simp [substMany, INode.subst]

theorem Env.get_cons_ne {env : Env} {x y : Bytes} (v : Val) (h : y ≠ x) : Env.get ((x, v) :: env) y = env.get y := by
  simp [Env.get, objLookup, h]

theorem Env.get_cons_self (env : Env) (x : Bytes) (v : Val) : Env.get ((x, v) :: env) x = some v := by
  simp [Env.get, objLookup]

theorem Env.get_append (bs : List (Bytes × Val)) (env : Env) (x : Bytes) :
    Env.get (bs ++ env) x = (objLookup x bs).or (env.get x) := by
  simp only [Env.get]
  rw [objLookup_append]
  cases objLookup x bs <;> rfl


/-! ## Part 4: a reference that is reached -/

/-- `Reaches root x n cur env`: evaluating `n` on `cur` in `env` gets to a reference `$x` before anything else can fail:
    the reference is on the strict evaluation path (first operand, first argument, left of a pipe, array argument of a
    projection, …), or to the right of operands that evaluate successfully (right of a binary operator, of `&&` when
    the left is truthy, of `||` when it is falsy, of a pipe), or in the body of a `let` whose bindings evaluate and do
    not rebind `x`. -/
inductive Reaches (root : Val) (x : Bytes) : INode → Val → Env → Prop
  | var {cur env} : Reaches root x (.variable x) cur env
  | binopL {op l r cur env} : Reaches root x l cur env → Reaches root x (.binop op l r) cur env
  | binopR {op l r cur env a} : ieval root l cur env = .ok a → Reaches root x r cur env → Reaches root x (.binop op l r) cur env
  | andL {l r cur env} : Reaches root x l cur env → Reaches root x (.and l r) cur env
  | andR {l r cur env a} : ieval root l cur env = .ok a → isTrue a = true → Reaches root x r cur env →
      Reaches root x (.and l r) cur env
  | orL {l r cur env} : Reaches root x l cur env → Reaches root x (.or l r) cur env
  | orR {l r cur env a} : ieval root l cur env = .ok a → isTrue a = false → Reaches root x r cur env →
      Reaches root x (.or l r) cur env
  | not {c cur env} : Reaches root x c cur env → Reaches root x (.not c) cur env
  | negate {c cur env} : Reaches root x c cur env → Reaches root x (.negate c) cur env
  | assertNumber {c cur env} : Reaches root x c cur env → Reaches root x (.assertNumber c) cur env
  | callHd {f a args cur env} : Reaches root x a cur env → Reaches root x (.call f (a :: args)) cur env
  | letBind {k e child cur env} : Reaches root x e cur env → Reaches root x (.defineVariables [(k, e)] child) cur env
  | letBody {vars child cur env bs} : ievalFields root vars cur env = .ok bs → x ∉ vars.map Prod.fst →
      Reaches root x child cur (bs ++ env) → Reaches root x (.defineVariables vars child) cur env
  | pipeL {l r cur env} : Reaches root x l cur env → Reaches root x (.pipe l r) cur env
  | pipeR {l r cur env a} : ieval root l cur env = .ok a → Reaches root x r a env → Reaches root x (.pipe l r) cur env
  | filter {c f cur env} : Reaches root x c cur env → Reaches root x (.filter c f) cur env
  | filterAndProject {l f r cur env} : Reaches root x l cur env → Reaches root x (.filterAndProject l f r) cur env
  | flatten {c cur env} : Reaches root x c cur env → Reaches root x (.flatten c) cur env
  | flattenAndProject {l r cur env} : Reaches root x l cur env → Reaches root x (.flattenAndProject l r) cur env
  | index {c i cur env} : Reaches root x c cur env → Reaches root x (.index c i) cur env
  | objectValues {c cur env} : Reaches root x c cur env → Reaches root x (.objectValues c) cur env
  | projectArray {l r cur env} : Reaches root x l cur env → Reaches root x (.projectArray l r) cur env
  | projectObject {l r cur env} : Reaches root x l cur env → Reaches root x (.projectObject l r) cur env
  | pruneArray {c cur env} : Reaches root x c cur env → Reaches root x (.pruneArray c) cur env
  | selectArray {c fs cur env} : Reaches root x c cur env → Reaches root x (.selectArray c fs) cur env
  | selectArraySingle {c f cur env} : Reaches root x c cur env → Reaches root x (.selectArraySingle c f) cur env
  | selectArraySingleCurrent {f cur env} : Reaches root x f cur env → Reaches root x (.selectArraySingleCurrent f) cur env
  | selectObject {c fs cur env} : Reaches root x c cur env → Reaches root x (.selectObject c fs) cur env
  | selectObjectSingle {c k f cur env} : Reaches root x c cur env → Reaches root x (.selectObjectSingle c k f) cur env
  | selectObjectSingleCurrent {k f cur env} : Reaches root x f cur env →
      Reaches root x (.selectObjectSingleCurrent k f) cur env
  | slice {c a b cur env} : Reaches root x c cur env → Reaches root x (.slice c a b) cur env
  | sliceStep {c a b s cur env} : Reaches root x c cur env → Reaches root x (.sliceStep c a b s) cur env
  | groupBy {a e cur env} : Reaches root x a cur env → Reaches root x (.groupBy a e) cur env
  | map {e a cur env} : Reaches root x a cur env → Reaches root x (.map e a) cur env
  | maxBy {a e cur env} : Reaches root x a cur env → Reaches root x (.maxBy a e) cur env
  | minBy {a e cur env} : Reaches root x a cur env → Reaches root x (.minBy a e) cur env
  | sortBy {a e cur env} : Reaches root x a cur env → Reaches root x (.sortBy a e) cur env
  | mergeHd {a args cur env} : Reaches root x a cur env → Reaches root x (.merge (a :: args)) cur env
  | notNullHd {a args cur env} : Reaches root x a cur env → Reaches root x (.notNull (a :: args)) cur env
  | zipHd {a args cur env} : Reaches root x a cur env → Reaches root x (.zip (a :: args)) cur env

set_option linter.unusedSimpArgs false in
/-- **A reached reference without a binding is an undefined-variable error** — exactly that category, whatever the
    rest of the expression is. -/
theorem Reaches.undefined {root : Val} {x : Bytes} {n : INode} {cur : Val} {env : Env} (h : Reaches root x n cur env) :
    env.get x = none → ieval root n cur env = .err [Cat.undefinedVariable] := by
  induction h with
  | var => intro hx; simp only [ieval, hx]
  | letBody hb hnm _ ih =>
    intro hx
    simp only [ieval, hb, Res.ok_bind]
    apply ih
    simp only [Env.get] at hx ⊢
    rw [objLookup_append, (ievalFields_lookup_none hb x).mpr hnm]
    exact hx
  | letBind _ ih =>
    intro hx
    simp only [ieval, ievalFields, ih hx, combineUnordered, Res.err_bind]
  | binopR hl _ ih | pipeR hl _ ih => intro hx; simp only [ieval, hl, Res.ok_bind, ih hx, Res.err_bind]
  | andR hl ht _ ih | orR hl ht _ ih =>
    intro hx; simp only [ieval, hl, Res.ok_bind, ht, ih hx, Bool.not_true, Bool.false_eq_true, if_false, if_true]
  | _ _ ih => intro hx; simp only [ieval, ievalList, ievalMerge, ievalNotNull, ievalZip, ih hx, Res.err_bind]


end Jmes
