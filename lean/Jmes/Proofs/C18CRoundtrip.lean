/-
  Property C18, third part — RE-READING a marshalled result.

  `json.Marshal` of a plain result `r` (strings valid UTF-8, finite numbers, `[]any` / `map[string]any` only) writes a
  text that DENOTES (relation `C16C.Den`, which Go's decoder is sound for: `C16C.decode_den`) the value `reread r`:
  the same value, every number re-read as the `json.Number` holding the text that was written.

  * here: `reread`, `WF` (well-formed result), `wf_of_parts`, `den_mono`, `lastWins_self`, `den_encode` (the main
    theorem);
  * in `C18CRoundtripEq.lean`: `roundtrip` (with the decoder), `roundtrip_of_sound` (the same, parametrised by the
    decoder's soundness theorem), `equal_reread` (the re-read value is `equal`, the evaluator's `==`, to the result,
    provided every number inside converts to a decimal), `roundtrip_equal`, and `equal_self_false_range` (the proviso
    is needed: `1e99999`);
  * helpers: `C18CRoundtripStr.lean` (strings), `C18CRoundtripNum.lean` (number grammar), `C18CRoundtripDec.lean`
    (decimals print and parse back).
-/
import Jmes.Proofs.C18CRoundtripStr
import Jmes.Proofs.C18CRoundtripNum
import Jmes.Proofs.C16CSound
import Jmes.Proofs.C18BDefs
import Jmes.Proofs.C11BValidLemmas
import Jmes.Proofs.C20BDecodeLemmas
namespace Jmes.C18CR
open Jmes Jmes.Utf8 Jmes.C16C Jmes.Lexical Jmes.JsonGrammar

/-! ## the value that is read back -/

/-- a number after `json.Marshal` + decoding with `UseNumber`: the `json.Number` holding the text that was written -/
def rereadNum : Num → Num
  | .jnum t => if t.isEmpty then .jnum [0x30] else .jnum t
  | .dec d => (match d.marshalJSON with
    | some b => .jnum b
    | none => .dec d)
  | .int _ v => .jnum (Json.intToBytes v)
  | .f64 f => .f64 f
  | .f32 f => .f32 f

mutual
/-- the value read back from the marshalled text of a value: strings, booleans, null unchanged; numbers become
    `json.Number`s; arrays become plain slices -/
def reread : Val → Val
  | .null => .null
  | .bool b => .bool b
  | .str s => .str s
  | .num n => .num (rereadNum n)
  | .arr _ xs => .arr .plain (rereadL xs)
  | .obj kvs => .obj (rereadF kvs)
  | .foreign t => .foreign t
/-- `reread` on every element -/
def rereadL : List Val → List Val
  | [] => []
  | x :: xs => reread x :: rereadL xs
/-- `reread` on every member value -/
def rereadF : List (Bytes × Val) → List (Bytes × Val)
  | [] => []
  | (k, x) :: kvs => (k, reread x) :: rereadF kvs
end

/-- `[1, "a"]` with the Go integer `1` is read back as `[json.Number("1"), "a"]` -/
example : reread (.arr .plain [.num (.int .i64 1), .str [0x61]]) = .arr .plain [.num (.jnum [0x31]), .str [0x61]] := by
  simp only [reread, rereadL, rereadNum]
  have : Json.intToBytes 1 = [0x31] := by decide
  rw [this]

/-- `rereadL` is `map reread` -/
theorem rereadL_eq_map : ∀ xs : List Val, rereadL xs = xs.map reread
  | [] => rfl
  | x :: xs => by simp [rereadL, rereadL_eq_map xs]

/-- `rereadF` keeps the keys and re-reads the values -/
theorem rereadF_eq_map : ∀ kvs : List (Bytes × Val), rereadF kvs = kvs.map (fun kv => (kv.1, reread kv.2))
  | [] => rfl
  | (k, x) :: kvs => by simp [rereadF, rereadF_eq_map kvs]

example : rereadL [.null, .bool true] = [Val.null, .bool true].map reread := rereadL_eq_map _
example : rereadF [([0x61], .null)] = [(([0x61] : Bytes), Val.null)].map (fun kv => (kv.1, reread kv.2)) :=
  rereadF_eq_map _

/-! ## well-formed results -/

/-- a number `json.Marshal` writes: a valid `json.Number`, a finite decimal, a Go integer -/
def WFNum : Num → Prop
  | .jnum t => Json.isValidNumber t = true
  | .dec d => d.isSpecial = false
  | .int _ _ => True
  | .f64 _ => False
  | .f32 _ => False

mutual
/-- a well-formed plain result: strings and keys valid UTF-8, numbers `WFNum`, arrays plain slices, objects with
    strictly increasing keys (the model's representation of a Go map), nothing foreign -/
def WF : Val → Prop
  | .null => True
  | .bool _ => True
  | .str s => validUTF8 s = true
  | .num n => WFNum n
  | .arr .plain xs => WFL xs
  | .arr _ _ => False
  | .obj kvs => WFF kvs
  | .foreign _ => False
/-- `WF` for every element -/
def WFL : List Val → Prop
  | [] => True
  | x :: xs => WF x ∧ WFL xs
/-- `WF` for every member value; keys valid UTF-8 and strictly increasing -/
def WFF : List (Bytes × Val) → Prop
  | [] => True
  | (k, v) :: rest => validUTF8 k = true ∧ WF v ∧ (∀ p ∈ rest, bytesLt k p.1 = true) ∧ WFF rest
end

/-- `{"a": [1.5, "x"], "b": 7}` with a decimal and a Go integer -/
example : WF (.obj [([0x61], .arr .plain [.num (.dec (.fin false 15 (-1))), .str [0x78]]), ([0x62], .num (.int .i64 7))]) := by
  simp [WF, WFF, WFL, WFNum, Dec.isSpecial]
  decide

mutual
/-- every object inside the value has strictly increasing keys (`KeySorted`): the representation invariant of Go maps
    in the model (`Val.obj`: "sorted by key, keys unique") -/
def Sorted : Val → Prop
  | .arr _ xs => SortedL xs
  | .obj kvs => KeySorted kvs ∧ SortedF kvs
  | _ => True
/-- `Sorted` for every element -/
def SortedL : List Val → Prop
  | [] => True
  | x :: xs => Sorted x ∧ SortedL xs
/-- `Sorted` for every member value -/
def SortedF : List (Bytes × Val) → Prop
  | [] => True
  | (_, x) :: kvs => Sorted x ∧ SortedF kvs
end

example : Sorted (.obj [([0x61], .null), ([0x62], .obj [])]) := by
  simp [Sorted, SortedF, KeySorted]; decide

/-- a `Num.Fin` number is `WFNum` -/
theorem wfNum_of_fin {n : Num} (h : n.Fin = true) : WFNum n := by
  cases n with
  | jnum t => simpa [Num.Fin, WFNum] using h
  | dec d => simpa [Num.Fin, WFNum] using h
  | int k v => trivial
  | f64 f => simp [Num.Fin] at h
  | f32 f => simp [Num.Fin] at h

mutual
/-- **`WF` from the existing invariants**: a `Plain`, `NoEnum`, `Fin` (properties C18/C18B: preserved by the
    evaluator), `Valid` (C11B: preserved by the evaluator) value whose objects are key-sorted is well-formed -/
theorem wf_of_parts : ∀ r : Val, r.Plain = true → r.NoEnum = true → r.Fin = true → r.Valid = true → Sorted r → WF r
  | .null, _, _, _, _, _ => trivial
  | .bool _, _, _, _, _, _ => trivial
  | .str s, _, _, _, hv, _ => by simpa [WF, Val.Valid] using hv
  | .num n, _, _, hf, _, _ => by
    simp only [WF]; exact wfNum_of_fin (by simpa [Val.Fin] using hf)
  | .arr t xs, hp, he, hf, hv, hs => by
    simp only [Val.Plain, Val.NoEnum, Val.TagsAll, Bool.and_eq_true, bne_iff_ne, ne_eq] at hp he
    cases t with
    | nil => exact absurd rfl hp.1
    | enum => exact absurd rfl he.1
    | plain =>
      simp only [WF]
      exact wfL_of_parts xs hp.2 he.2 (by simpa [Val.Fin] using hf) (by simpa [Val.Valid] using hv)
        (by simpa [Sorted] using hs)
  | .obj kvs, hp, he, hf, hv, hs => by
    simp only [Val.Plain, Val.NoEnum, Val.TagsAll] at hp he
    simp only [Sorted] at hs
    simp only [WF]
    exact wfF_of_parts kvs hp he (by simpa [Val.Fin] using hf) (by simpa [Val.Valid] using hv) hs.1 hs.2
  | .foreign _, hp, _, _, _, _ => by simp [Val.Plain, Val.TagsAll] at hp
/-- `wf_of_parts` for the elements of an array -/
theorem wfL_of_parts : ∀ xs : List Val, Val.TagsAllL (fun t => t != .nil) false xs = true →
    Val.TagsAllL (fun t => t != .enum) true xs = true → Val.FinL xs = true → Val.ValidL xs = true → SortedL xs → WFL xs
  | [], _, _, _, _, _ => trivial
  | x :: xs, hp, he, hf, hv, hs => by
    simp only [Val.TagsAllL, Val.FinL, Val.ValidL, Bool.and_eq_true] at hp he hf hv
    simp only [SortedL] at hs
    exact ⟨wf_of_parts x hp.1 he.1 hf.1 hv.1 hs.1, wfL_of_parts xs hp.2 he.2 hf.2 hv.2 hs.2⟩
/-- `wf_of_parts` for the members of a key-sorted object -/
theorem wfF_of_parts : ∀ kvs : List (Bytes × Val), Val.TagsAllF (fun t => t != .nil) false kvs = true →
    Val.TagsAllF (fun t => t != .enum) true kvs = true → Val.FinF kvs = true → Val.ValidF kvs = true →
    KeySorted kvs → SortedF kvs → WFF kvs
  | [], _, _, _, _, _, _ => trivial
  | (k, x) :: kvs, hp, he, hf, hv, hk, hs => by
    simp only [Val.TagsAllF, Val.FinF, Val.ValidF, Bool.and_eq_true] at hp he hf hv
    simp only [SortedF] at hs
    unfold KeySorted at hk
    rw [List.pairwise_cons] at hk
    exact ⟨hv.1.1, wf_of_parts x hp.1 he.1 hf.1 hv.1.2 hs.1, fun p hp' => hk.1 p hp',
      wfF_of_parts kvs hp.2 he.2 hf.2 hv.2 hk.2 hs.2⟩
end

example : WF (.arr .plain [.str [0x61], .num (.int .i64 3)]) :=
  wf_of_parts _ (by decide) (by decide) (by decide) (by decide) (by simp [Sorted, SortedL])

/-! ## `Den` is monotone in the depth bound -/

mutual
/-- the depth index of `Den` is an upper bound -/
theorem den_mono : {n : Nat} → {t : Bytes} → {v : Val} → Den n t v → ∀ m, n ≤ m → Den m t v
  | _, _, _, .null _, m, _ => .null m
  | _, _, _, .tru _, m, _ => .tru m
  | _, _, _, .fals _, m, _ => .fals m
  | _, _, _, .num _ t h, m, _ => .num m t h
  | _, _, _, .str _ s w h, m, _ => .str m s w h
  | _, _, _, .arrE n w hw, m, hm => by
    obtain ⟨m', rfl⟩ : ∃ m', m = m' + 1 := ⟨m - 1, by omega⟩
    exact .arrE m' w hw
  | _, _, _, .arr n es xs he, m, hm => by
    obtain ⟨m', rfl⟩ : ∃ m', m = m' + 1 := ⟨m - 1, by omega⟩
    exact .arr m' es xs (denElems_mono he m' (by omega))
  | _, _, _, .objE n w hw, m, hm => by
    obtain ⟨m', rfl⟩ : ∃ m', m = m' + 1 := ⟨m - 1, by omega⟩
    exact .objE m' w hw
  | _, _, _, .obj n p ms kvs hms hl, m, hm => by
    obtain ⟨m', rfl⟩ : ∃ m', m = m' + 1 := ⟨m - 1, by omega⟩
    exact .obj m' p ms kvs (denMembers_mono hms m' (by omega)) hl
/-- `den_mono` for array elements -/
theorem denElems_mono : {n : Nat} → {p : Bytes} → {xs : List Val} → DenElems n p xs → ∀ m, n ≤ m → DenElems m p xs
  | _, _, _, .last n w1 t w2 v h1 hv h2, m, hm => .last m w1 t w2 v h1 (den_mono hv m hm) h2
  | _, _, _, .cons n w1 t w2 q v vs h1 hv h2 hq, m, hm =>
    .cons m w1 t w2 q v vs h1 (den_mono hv m hm) h2 (denElems_mono hq m hm)
/-- `den_mono` for object members -/
theorem denMembers_mono : {n : Nat} → {p : Bytes} → {ms : List (Bytes × Val)} → DenMembers n p ms → ∀ m, n ≤ m →
    DenMembers m p ms
  | _, _, _, .last n w1 kw w2 w3 t w4 k v h1 hk h2 h3 hv h4, m, hm =>
    .last m w1 kw w2 w3 t w4 k v h1 hk h2 h3 (den_mono hv m hm) h4
  | _, _, _, .cons n w1 kw w2 w3 t w4 q k v ms h1 hk h2 h3 hv h4 hq, m, hm =>
    .cons m w1 kw w2 w3 t w4 q k v ms h1 hk h2 h3 (den_mono hv m hm) h4 (denMembers_mono hq m hm)
end

example : Den 5 [0x6E, 0x75, 0x6C, 0x6C] .null := den_mono (.null 0) 5 (by omega)

/-! ## objects: a key-sorted member list is its own last-wins map -/

/-- in a key-sorted member list no key is repeated, so "the last member named `k`" is "the member named `k`" -/
theorem lookup_eq_lastVal : ∀ ms : List (Bytes × Val), KeySorted ms → ∀ k, objLookup k ms = lastVal k ms
  | [], _, _ => rfl
  | (k', v) :: rest, h, k => by
    unfold KeySorted at h
    rw [List.pairwise_cons] at h
    simp only [objLookup, lastVal]
    rw [← lookup_eq_lastVal rest h.2 k]
    by_cases e : k = k'
    · subst e
      rw [objLookup_none_of_lt (fun p hp => h.1 p hp)]
    · simp only [e, if_false]
      cases objLookup k rest <;> rfl

/-- a key-sorted member list is the last-wins map of itself -/
theorem lastWins_self {ms : List (Bytes × Val)} (h : KeySorted ms) : LastWins ms ms :=
  ⟨h, lookup_eq_lastVal ms h⟩

example : LastWins [([0x61], .null), ([0x62], .bool true)] [([0x61], .null), ([0x62], .bool true)] :=
  lastWins_self (by unfold KeySorted; decide)

/-- re-reading the member values keeps the keys, hence the order -/
theorem keySorted_rereadF : ∀ kvs : List (Bytes × Val), WFF kvs → KeySorted (rereadF kvs)
  | [], _ => List.Pairwise.nil
  | (k, x) :: rest, h => by
    simp only [WFF] at h
    simp only [rereadF]
    unfold KeySorted
    rw [List.pairwise_cons]
    refine ⟨?_, keySorted_rereadF rest h.2.2.2⟩
    intro p hp
    rw [rereadF_eq_map] at hp
    obtain ⟨q, hq, rfl⟩ := List.mem_map.1 hp
    exact h.2.2.1 q hq

example : KeySorted (rereadF [([0x61], .num (.int .i64 1)), ([0x62], .null)]) :=
  keySorted_rereadF _ (by simp [WFF, WF, WFNum]; decide)

/-! ## the main theorem: the marshalled text denotes the re-read value -/

mutual
/-- **Main theorem.** What `json.Marshal` writes for a well-formed result `r` is a JSON value text that denotes
    `reread r`, nesting at most `dp r` containers. -/
theorem den_encode : ∀ (r : Val), WF r → ∀ b, Json.encode r = .ok b → Den (C16B.dp r) b (reread r)
  | .null, _, b, h => by
    simp only [Json.encode, Json.Enc.ok.injEq] at h; subst h; exact .null _
  | .bool true, _, b, h => by
    simp only [Json.encode, Json.Enc.ok.injEq] at h; subst h; exact .tru _
  | .bool false, _, b, h => by
    simp only [Json.encode, Json.Enc.ok.injEq] at h; subst h; exact .fals _
  | .str s, hw, b, h => by
    simp only [Json.encode, Json.Enc.ok.injEq] at h; subst h
    exact den_encString _ s (by simpa [WF] using hw)
  | .num (.jnum t), hw, b, h => by
    have hv : Json.isValidNumber t = true := by simpa [WF, WFNum] using hw
    have hne : t.isEmpty = false := by
      cases t with
      | nil => exact absurd hv (by decide)
      | cons a t => rfl
    simp only [Json.encode, hne, hv, if_true, Bool.false_eq_true, if_false, Json.Enc.ok.injEq] at h
    subst h
    simp only [reread, rereadNum, hne, Bool.false_eq_true, if_false]
    exact .num _ _ ((isValidNumber_iff _).1 hv)
  | .num (.dec d), _, b, h => by
    simp only [Json.encode] at h
    cases hm : d.marshalJSON with
    | none => rw [hm] at h; cases h
    | some b' =>
      rw [hm] at h; simp only [Json.Enc.ok.injEq] at h; subst h
      simp only [reread, rereadNum, hm]
      exact .num _ _ (C18CRN.jnumber_marshalJSON hm)
  | .num (.int k v), _, b, h => by
    simp only [Json.encode, Json.Enc.ok.injEq] at h; subst h
    simp only [reread, rereadNum]
    exact .num _ _ (C18CRN.jnumber_intToBytes v)
  | .num (.f64 _), hw, _, _ => by simp [WF, WFNum] at hw
  | .num (.f32 _), hw, _, _ => by simp [WF, WFNum] at hw
  | .arr .nil _, hw, _, _ => by simp [WF] at hw
  | .arr .enum _, hw, _, _ => by simp [WF] at hw
  | .arr .plain xs, hw, b, h => by
    have hw' : WFL xs := by simpa [WF] using hw
    simp only [Json.encode] at h
    cases hp : Json.encodeL xs with
    | ok parts =>
      rw [hp] at h; simp only [Json.Enc.ok.injEq] at h; subst h
      simp only [reread, C16B.dp]
      rw [Nat.add_comm]
      by_cases hx : xs = []
      · subst hx
        simp only [Json.encodeL, Json.Enc.ok.injEq] at hp; subst hp
        exact .arrE _ [] Ws.nil
      · exact .arr _ _ _ (den_encodeL xs hw' parts hp hx)
    | fail => rw [hp] at h; cases h
    | unmodelled w => rw [hp] at h; cases h
  | .obj kvs, hw, b, h => by
    have hw' : WFF kvs := by simpa [WF] using hw
    simp only [Json.encode] at h
    cases hp : Json.encodeF kvs with
    | ok parts =>
      rw [hp] at h; simp only [Json.Enc.ok.injEq] at h; subst h
      simp only [reread, C16B.dp]
      rw [Nat.add_comm]
      by_cases hx : kvs = []
      · subst hx
        simp only [Json.encodeF, Json.Enc.ok.injEq] at hp; subst hp
        exact .objE _ [] Ws.nil
      · exact .obj _ _ _ _ (den_encodeF kvs hw' parts hp hx) (lastWins_self (keySorted_rereadF kvs hw'))
    | fail => rw [hp] at h; cases h
    | unmodelled w => rw [hp] at h; cases h
  | .foreign _, hw, _, _ => by simp [WF] at hw
/-- the elements of an array, comma-separated without white space, then the closing bracket -/
theorem den_encodeL : ∀ (xs : List Val), WFL xs → ∀ p, Json.encodeL xs = .ok p → xs ≠ [] →
    DenElems (C16B.dpL xs) (p ++ [0x5D]) (rereadL xs)
  | [], _, _, _, hne => absurd rfl hne
  | [x], hw, p, h, _ => by
    simp only [WFL] at hw
    simp only [Json.encodeL] at h
    have hv := den_mono (den_encode x hw.1 p h) (C16B.dpL [x]) (by simp [C16B.dpL])
    have := DenElems.last (C16B.dpL [x]) [] p [] (reread x) Ws.nil hv Ws.nil
    simpa [rereadL] using this
  | x :: y :: rest, hw, p, h, _ => by
    simp only [WFL] at hw
    simp only [Json.encodeL] at h
    cases hx : Json.encode x with
    | ok b =>
      rw [hx] at h
      cases hr : Json.encodeL (y :: rest) with
      | ok r =>
        rw [hr] at h; simp only [Json.Enc.ok.injEq] at h; subst h
        have hv := den_mono (den_encode x hw.1 b hx) (C16B.dpL (x :: y :: rest)) (by simp only [C16B.dpL]; omega)
        have hq := denElems_mono (den_encodeL (y :: rest) (by simpa [WFL] using hw.2) r hr (by simp))
          (C16B.dpL (x :: y :: rest)) (by simp only [C16B.dpL]; omega)
        have := DenElems.cons _ [] b [] _ (reread x) _ Ws.nil hv Ws.nil hq
        simpa [rereadL] using this
      | fail => rw [hr] at h; cases h
      | unmodelled w => rw [hr] at h; cases h
    | fail => rw [hx] at h; cases h
    | unmodelled w => rw [hx] at h; cases h
/-- the members of an object in list order, comma-separated without white space, then the closing brace -/
theorem den_encodeF : ∀ (kvs : List (Bytes × Val)), WFF kvs → ∀ p, Json.encodeF kvs = .ok p → kvs ≠ [] →
    DenMembers (C16B.dpF kvs) (p ++ [0x7D]) (rereadF kvs)
  | [], _, _, _, hne => absurd rfl hne
  | [(k, x)], hw, p, h, _ => by
    simp only [WFF] at hw
    simp only [Json.encodeF] at h
    cases hx : Json.encode x with
    | ok b =>
      rw [hx] at h; simp only [Json.Enc.ok.injEq] at h; subst h
      obtain ⟨kw, hk1, hk2⟩ := encString_den k hw.1
      have hv := den_mono (den_encode x hw.2.1 b hx) (C16B.dpF [(k, x)]) (by simp [C16B.dpF])
      have := DenMembers.last _ [] kw [] [] b [] k (reread x) Ws.nil hk2 Ws.nil Ws.nil hv Ws.nil
      rw [hk1]
      simpa [rereadF] using this
    | fail => rw [hx] at h; cases h
    | unmodelled w => rw [hx] at h; cases h
  | (k, x) :: kv2 :: rest, hw, p, h, _ => by
    simp only [WFF] at hw
    simp only [Json.encodeF] at h
    cases hx : Json.encode x with
    | ok b =>
      rw [hx] at h
      cases hr : Json.encodeF (kv2 :: rest) with
      | ok r =>
        rw [hr] at h; simp only [Json.Enc.ok.injEq] at h; subst h
        obtain ⟨kw, hk1, hk2⟩ := encString_den k hw.1
        have hv := den_mono (den_encode x hw.2.1 b hx) (C16B.dpF ((k, x) :: kv2 :: rest))
          (by simp only [C16B.dpF]; omega)
        have hq := denMembers_mono (den_encodeF (kv2 :: rest) hw.2.2.2 r hr (by simp))
          (C16B.dpF ((k, x) :: kv2 :: rest)) (by simp only [C16B.dpF]; omega)
        have := DenMembers.cons _ [] kw [] [] b [] _ k (reread x) _ Ws.nil hk2 Ws.nil Ws.nil hv Ws.nil hq
        rw [hk1]
        simpa [rereadF] using this
      | fail => rw [hr] at h; cases h
      | unmodelled w => rw [hr] at h; cases h
    | fail => rw [hx] at h; cases h
    | unmodelled w => rw [hx] at h; cases h
end

end Jmes.C18CR
