/-
  Compositionality ("junction") lemmas for the lexer model `lexAll`: appending a blank or a `|` and more input
  after an expression that lexes does not change the tokens of the first part.
-/
import Jmes.Proofs.Lex
namespace Jmes.C18BLex
open Jmes Jmes.Utf8 Jmes.Lexical Jmes.Literals Jmes.Lex

/-! ### decoding is local -/

/-- a successful decoding step only looks at the bytes of the rune it decodes: it is unchanged by appending input -/
theorem lexDecode_append {s : Bytes} {r sz : Nat} (h : lexDecode s = .ok (r, sz)) (x : Bytes) :
    lexDecode (s ++ x) = .ok (r, sz) := by
  obtain ⟨h1, h2, h3⟩ := lexDecode_ok h
  rw [h3, List.append_assoc, lexDecode_enc r h1, ← h2]

example : lexDecode ([0xC3, 0x97] ++ [0x61]) = .ok (0xD7, 2) := lexDecode_append (by rfl) _

/-- a rune that is not ASCII is never forbidden after a token -/
theorem forbiddenNext_nonascii (t : Token) {r : Nat} (hr : ¬ r < 0x80) : forbiddenNext t r = false := by
  unfold forbiddenNext
  split <;> simp [isIdCharB, isIdStartB, isDigitB] <;> omega

example : forbiddenNext ⟨.dot, [0x2E]⟩ 0xD7 = false := forbiddenNext_nonascii _ (by omega)

/-- a blank is never forbidden after a token -/
theorem forbiddenNext_blank (t : Token) : forbiddenNext t 0x20 = false := by
  unfold forbiddenNext
  split <;> simp [isIdCharB, isIdStartB, isDigitB]

/-- `|` is forbidden only after `|` -/
theorem forbiddenNext_pipe (t : Token) (h : t.type ≠ .pipe) : forbiddenNext t 0x7C = false := by
  unfold forbiddenNext
  split <;> simp [isIdCharB, isIdStartB, isDigitB] <;> contradiction

example : forbiddenNext ⟨.pipe, [0x7C]⟩ 0x7C = true := by decide

/-! ### completeness of one lexer step, for an arbitrary continuation -/

/-- `spanRunes` stops exactly after a run of `p`-bytes when the next rune (if any decodes) does not satisfy `p` -/
theorem spanRunes_stop (p : Nat → Bool) (hp : ∀ r, p r = true → r < 0x80) (rest : Bytes)
    (hrest : ∀ r sz, lexDecode rest = .ok (r, sz) → p r = false) :
    ∀ (t : Bytes) (fuel : Nat), t.length ≤ fuel → (∀ b ∈ t, p b = true) → spanRunes p fuel (t ++ rest) = t.length
  | [], fuel, _, _ => by
    cases fuel with
    | zero => rfl
    | succ f =>
      simp only [List.nil_append, spanRunes, List.length_nil]
      split
      · rename_i r sz hd; rw [hrest r sz hd]; rfl
      · rfl
  | c :: t, fuel, hf, hall => by
    match fuel, hf with
    | f + 1, hf =>
      have hc := hall c (by simp)
      have ih := spanRunes_stop p hp rest hrest t f (by simpa using hf) (fun b hb => hall b (by simp [hb]))
      simp only [List.cons_append, spanRunes, lexDecode_cons_ascii (hp c hc), hc, if_true, List.drop_succ_cons,
        List.drop_zero, ih, List.length_cons]
      omega

example : spanRunes isDigitR 5 ([0x31, 0x32] ++ [0xC3, 0x97, 0x33]) = 2 :=
  spanRunes_stop _ (fun _ h => isDigitB_lt h) _ (by intro r sz h; cases h; rfl) _ _ (by simp) (by decide)

/-- what may follow a token: the next rune (if one decodes) is not forbidden by longest match, and `[` is not
    followed by `*]` -/
structure FollowOK (t : Token) (rest : Bytes) : Prop where
  maxi : ∀ r sz, lexDecode rest = .ok (r, sz) → forbiddenNext t r = false
  wild : t.type = .openSqBrace → rest.take 2 ≠ [0x2A, 0x5D]

/-- identifiers and keywords, followed by anything that does not continue the identifier -/
theorem complete_ident' {v : Bytes} (h : Ident v) {rest : Bytes}
    (hs : ∀ r sz, lexDecode rest = .ok (r, sz) → isIdCharB r = false) :
    lexToken (v ++ rest) = .ok (⟨if v = [0x69, 0x6E] then TokenType.in
            else if v = [0x6C, 0x65, 0x74] then TokenType.let else TokenType.unquotedIdentifier, v⟩, v.length) := by
  obtain ⟨c, t, rfl, hc, ht⟩ := h
  have hdec : lexDecode (c :: t ++ rest) = .ok (c, 1) := lexDecode_cons_ascii (isIdStartB_lt hc)
  have hsp : spanRunes (fun r => isAlphaR r || isDigitR r) (c :: t ++ rest).length ((c :: t ++ rest).drop 1) = t.length :=
    spanRunes_stop _ (fun r h => isIdCharB_lt h) rest hs t _ (by simp; omega) ht
  rw [lexToken_alpha hdec hc, hsp]
  have e : (c :: t ++ rest).take (1 + t.length) = c :: t := by
    rw [Nat.add_comm]; exact take_len_append (c :: t) rest
  rw [e]
  simp only [List.length_cons]
  rw [Nat.add_comm]

/-- digits, followed by anything but a digit -/
theorem complete_digits' {v : Bytes} (h : Digits v) {rest : Bytes}
    (hs : ∀ r sz, lexDecode rest = .ok (r, sz) → isDigitB r = false) :
    lexToken (v ++ rest) = .ok (⟨.integerLiteral, v⟩, v.length) := by
  obtain ⟨hne, hall⟩ := h
  match v, hne with
  | c :: t, _ =>
    have hc : isDigitB c = true := hall c (by simp)
    have hdec : lexDecode (c :: t ++ rest) = .ok (c, 1) := lexDecode_cons_ascii (isDigitB_lt hc)
    have hsp : spanRunes isDigitR (c :: t ++ rest).length ((c :: t ++ rest).drop 1) = t.length :=
      spanRunes_stop _ (fun r h => isDigitB_lt h) rest hs t _ (by simp; omega)
        (fun b hb => hall b (by simp [hb]))
    rw [lexToken_digit hdec hc, hsp]
    have e : (c :: t ++ rest).take (1 + t.length) = c :: t := by
      rw [Nat.add_comm]; exact take_len_append (c :: t) rest
    rw [e]
    simp only [List.length_cons]
    rw [Nat.add_comm]

/-- `-` and digits, followed by anything but a digit -/
theorem complete_negdigits' {d : Bytes} (h : Digits d) {rest : Bytes}
    (hs : ∀ r sz, lexDecode rest = .ok (r, sz) → isDigitB r = false) :
    lexToken (0x2D :: d ++ rest) = .ok (⟨.integerLiteral, 0x2D :: d⟩, (0x2D :: d).length) := by
  obtain ⟨hne, hall⟩ := h
  match d, hne with
  | c :: t, _ =>
    have hc : isDigitB c = true := hall c (by simp)
    have hc' : isDigitR c = true := hc
    have hpk : lexDecode (c :: (t ++ rest)) = .ok (c, 1) := lexDecode_cons_ascii (isDigitB_lt hc)
    have hsp : spanRunes isDigitR (0x2D :: c :: t ++ rest).length (t ++ rest) = t.length :=
      spanRunes_stop _ (fun r h => isDigitB_lt h) rest hs t _ (by simp; omega)
        (fun b hb => hall b (by simp [hb]))
    have e : (0x2D :: c :: t ++ rest).take (1 + 1 + t.length) = 0x2D :: c :: t := by
      rw [show 1 + 1 + t.length = (0x2D :: c :: t).length by simp; omega]; exact take_len_append _ rest
    simp only [lexToken, lexDecode_cons_ascii (show 0x2D < 0x80 by omega), List.cons_append, peek,
      List.drop_succ_cons, List.drop_zero, hpk, hc', if_true]
    simp only [List.cons_append] at hsp e
    rw [hsp, e]
    simp only [List.length_cons, Nat.reduceEqDiff, ↓reduceIte]
    congr 2; omega

/-- `$name`, followed by anything that does not continue the name -/
theorem complete_variable' {w : Bytes} (h : Ident w) {rest : Bytes}
    (hs : ∀ r sz, lexDecode rest = .ok (r, sz) → isIdCharB r = false) :
    lexToken (0x24 :: w ++ rest) = .ok (⟨.variable, 0x24 :: w⟩, (0x24 :: w).length) := by
  obtain ⟨c, t, rfl, hc, ht⟩ := h
  have hc' : isAlphaR c = true := hc
  have hpk : lexDecode (c :: (t ++ rest)) = .ok (c, 1) := lexDecode_cons_ascii (isIdStartB_lt hc)
  have hsp : spanRunes (fun r => isAlphaR r || isDigitR r) (0x24 :: c :: t ++ rest).length (t ++ rest) = t.length :=
    spanRunes_stop _ (fun r h => isIdCharB_lt h) rest hs t _ (by simp; omega) ht
  have e : (0x24 :: c :: t ++ rest).take (1 + 1 + t.length) = 0x24 :: c :: t := by
    rw [show 1 + 1 + t.length = (0x24 :: c :: t).length by simp; omega]; exact take_len_append _ rest
  simp only [lexToken, lexDecode_cons_ascii (show 0x24 < 0x80 by omega), List.cons_append, peek,
    List.drop_succ_cons, List.drop_zero, hpk, hc', if_true]
  simp only [List.cons_append] at hsp e
  rw [hsp, e]
  simp only [List.length_cons, Nat.reduceEqDiff, ↓reduceIte]
  congr 2; omega

set_option linter.unusedSimpArgs false

/-- fixed-spelling tokens: split on whether a rune decodes after the token, and let `simp` run the lexer -/
macro "lex_fixed'" hm:ident rest:ident : tactic => `(tactic| (
  cases hdec : lexDecode $rest with
  | error e => simp [lexToken, peek, hdec, lexDecode_cons_ascii, lexDecode_minus, lexDecode_times, lexDecode_div,
      isAlphaR, isDigitR]
  | ok p =>
    obtain ⟨r, sz⟩ := p
    have hf := $hm r sz hdec
    first
    | (simp [forbiddenNext, isDigitB, isIdStartB] at hf
       simp [lexToken, peek, hdec, hf, lexDecode_cons_ascii, lexDecode_minus, lexDecode_times, lexDecode_div,
         isAlphaR, isDigitR] <;> omega)
    | simp [lexToken, peek, hdec, lexDecode_cons_ascii, lexDecode_minus, lexDecode_times, lexDecode_div,
         isAlphaR, isDigitR]))

/-- `[` followed by anything but `?`, `]` and `*]` -/
theorem complete_openSq {rest : Bytes} (hf : FollowOK ⟨.openSqBrace, [0x5B]⟩ rest) :
    lexToken ([0x5B] ++ rest) = .ok (⟨.openSqBrace, [0x5B]⟩, 1) := by
  have hm := hf.maxi
  have hw := hf.wild rfl
  cases hdec : lexDecode rest with
  | error e => simp [lexToken, peek, hdec, lexDecode_cons_ascii]
  | ok p =>
    obtain ⟨r, sz⟩ := p
    have hf := hm r sz hdec
    simp [forbiddenNext] at hf
    by_cases h2A : r = 0x2A
    · subst h2A
      obtain ⟨rfl, hrest⟩ := lexDecode_ok_ascii hdec (by omega)
      obtain ⟨tl, rfl⟩ : ∃ tl, rest = 0x2A :: tl := ⟨_, hrest⟩
      cases hdec2 : lexDecode tl with
      | error e => simp [lexToken, peek, hdec, hdec2, lexDecode_cons_ascii]
      | ok p2 =>
        obtain ⟨r2, sz2⟩ := p2
        have hne : r2 ≠ 0x5D := by
          intro h; subst h
          obtain ⟨_, h2⟩ := lexDecode_ok_ascii hdec2 (by omega)
          apply hw
          rw [h2]; rfl
        simp [lexToken, peek, hdec, hdec2, hne, lexDecode_cons_ascii]
    · simp [lexToken, peek, hdec, hf, h2A, lexDecode_cons_ascii]

/-- **Completeness of one lexer step, for an arbitrary continuation**: a byte string of the shape of a token of type
    `ty`, followed by input that respects longest match (`FollowOK`), is lexed as exactly that token. -/
theorem lexToken_complete' {ty : TokenType} {v : Bytes} (h : TokShape ty v) {rest : Bytes}
    (hf : FollowOK ⟨ty, v⟩ rest) : lexToken (v ++ rest) = .ok (⟨ty, v⟩, v.length) := by
  have hm := hf.maxi
  cases ty <;> simp only [TokShape] at h
  case unquotedIdentifier =>
    obtain ⟨h1, h2, h3⟩ := h
    simp only [kwLet, kwIn] at h2 h3
    rw [complete_ident' h1 hm, if_neg h3, if_neg h2]
  case «let» => subst h; exact complete_ident' ⟨_, _, rfl, by decide, by decide⟩ hm
  case «in» => subst h; exact complete_ident' ⟨_, _, rfl, by decide, by decide⟩ hm
  case integerLiteral =>
    rcases h with h | ⟨d, rfl, h⟩
    · exact complete_digits' h hm
    · exact complete_negdigits' h hm
  case «variable» => obtain ⟨w, rfl, hw⟩ := h; exact complete_variable' hw hm
  case quotedIdentifier => exact complete_quoted h rest
  case stringLiteral => exact complete_raw h rest
  case jsonLiteral => exact complete_json h rest
  case openSqBrace => subst h; exact complete_openSq hf
  case subtract => rcases h with rfl | rfl <;> lex_fixed' hm rest
  case divide => rcases h with rfl | rfl <;> lex_fixed' hm rest
  all_goals (subst h; lex_fixed' hm rest)

example : lexToken ([0x61, 0x62] ++ [0x7C, 0x63]) = .ok (⟨.unquotedIdentifier, [0x61, 0x62]⟩, 2) :=
  lexToken_complete' (ty := .unquotedIdentifier) ⟨⟨0x61, [0x62], rfl, by decide, by decide⟩, by decide, by decide⟩
    ⟨by intro r sz h; cases h; rfl, by intro h; cases h⟩

/-! ### one lexer step is local -/

/-- **Token locality**: a successful lexer step is unchanged by appending input, provided what now follows the token
    respects longest match -/
theorem lexToken_append {s : Bytes} {t : Token} {n : Nat} (h : lexToken s = .ok (t, n)) {x : Bytes}
    (hf : FollowOK t (s.drop n ++ x)) : lexToken (s ++ x) = .ok (t, n) := by
  have g := lexToken_good h
  have e : s ++ x = t.value ++ (s.drop n ++ x) := by
    rw [g.val, ← List.append_assoc, List.take_append_drop]
  have hl : t.value.length = n := by
    rw [g.val, List.length_take]; have := g.le; omega
  rw [e, lexToken_complete' (ty := t.type) (v := t.value) g.shape hf, hl]

example : lexToken ([0x61, 0x2E, 0x62] ++ [0x7C]) = .ok (⟨.unquotedIdentifier, [0x61]⟩, 1) :=
  lexToken_append (s := [0x61, 0x2E, 0x62]) (by rfl) ⟨by intro r sz h; cases h; rfl, by intro h; cases h⟩

/-- after a good lexer step whose remainder is empty or starts with a decodable rune, appending an ASCII byte other
    than `*` and `]` (and not forbidden after the token when the remainder is empty) respects longest match -/
theorem followOK_of_good {s : Bytes} {t : Token} {n : Nat} (g : Good s t n)
    (hdec : s.drop n = [] ∨ ∃ r sz, lexDecode (s.drop n) = .ok (r, sz))
    {c0 : Nat} (hc : c0 < 0x80) (h2A : c0 ≠ 0x2A) (h5D : c0 ≠ 0x5D)
    (hlast : s.drop n = [] → forbiddenNext t c0 = false) (rest : Bytes) :
    FollowOK t (s.drop n ++ c0 :: rest) := by
  rcases hdec with hnil | ⟨r, sz, hd⟩
  · rw [hnil, List.nil_append]
    refine ⟨?_, ?_⟩
    · intro r sz h
      rw [lexDecode_cons_ascii hc] at h; cases h
      exact hlast hnil
    · intro _ hw
      simp at hw
      exact h2A hw.1
  · refine ⟨?_, ?_⟩
    · intro r' sz' h
      rw [lexDecode_append hd] at h; cases h
      by_cases hr : r < 0x80
      · have := (lexDecode_ok_ascii hd hr).2
        exact g.maxi r (by rw [this]; rfl)
      · exact forbiddenNext_nonascii t hr
    · intro ht hw
      have gw := g.wild ht
      match hu : s.drop n, hw, gw with
      | [], hw, _ => simp at hw; exact h2A hw.1
      | [a], hw, _ => simp at hw; exact h5D hw.2
      | a :: b :: u, hw, gw => simp at hw gw; exact gw hw.1 hw.2

/-! ### fuel -/

/-- skipping whitespace does not lengthen the input -/
theorem skipWsLex_length (fuel : Nat) (s : Bytes) : (skipWsLex fuel s).length ≤ s.length := by
  obtain ⟨w, _, h⟩ := skipWsLex_spec fuel s
  have := congrArg List.length h
  simp at this; omega

/-- one unfolding of `lexAllAux`, as an `if` -/
theorem lexAllAux_succ (f : Nat) (s : Bytes) :
    lexAllAux (f + 1) s =
      if skipWsLex s.length s = [] then ([⟨.end, []⟩], none)
      else match lexToken (skipWsLex s.length s) with
        | .error e => ([], some e)
        | .ok (t, n) =>
          (t :: (lexAllAux f ((skipWsLex s.length s).drop (max n 1))).1,
            (lexAllAux f ((skipWsLex s.length s).drop (max n 1))).2) := by
  rw [lexAllAux]
  split
  · rename_i h; rw [if_pos h]
  · rename_i hne
    rw [if_neg (by intro h; exact hne h)]
    split
    · rename_i e he; rw [he]
    · rename_i t n he; rw [he]

/-- **Fuel independence**: the token stream does not depend on the fuel once it exceeds the input length -/
theorem lexAllAux_fuel : ∀ (f1 f2 : Nat) (s : Bytes), s.length + 1 ≤ f1 → s.length + 1 ≤ f2 →
    lexAllAux f1 s = lexAllAux f2 s
  | 0, _, _, h, _ => by omega
  | _ + 1, 0, _, _, h => by omega
  | f1 + 1, f2 + 1, s, h1, h2 => by
    rw [lexAllAux_succ, lexAllAux_succ]
    by_cases hnil : skipWsLex s.length s = []
    · rw [if_pos hnil, if_pos hnil]
    · rw [if_neg hnil, if_neg hnil]
      have hl := skipWsLex_length s.length s
      have hpos : 0 < (skipWsLex s.length s).length := List.length_pos_iff.2 hnil
      cases lexToken (skipWsLex s.length s) with
      | error e => rfl
      | ok p =>
        obtain ⟨t, n⟩ := p
        simp only []
        rw [lexAllAux_fuel f1 f2 _ (by rw [List.length_drop]; omega) (by rw [List.length_drop]; omega)]

example : lexAllAux 4 [0x61, 0x2E, 0x62] = lexAllAux 9 [0x61, 0x2E, 0x62] := lexAllAux_fuel _ _ _ (by simp) (by simp)

/-- the fuel-free unfolding of `lexAll` -/
theorem lexAll_eq (s : Bytes) :
    lexAll s =
      if skipWsLex s.length s = [] then ([⟨.end, []⟩], none)
      else match lexToken (skipWsLex s.length s) with
        | .error e => ([], some e)
        | .ok (t, n) =>
          (t :: (lexAll ((skipWsLex s.length s).drop (max n 1))).1,
            (lexAll ((skipWsLex s.length s).drop (max n 1))).2) := by
  unfold lexAll
  rw [lexAllAux_succ]
  by_cases hnil : skipWsLex s.length s = []
  · rw [if_pos hnil, if_pos hnil]
  · rw [if_neg hnil, if_neg hnil]
    have hl := skipWsLex_length s.length s
    have hpos : 0 < (skipWsLex s.length s).length := List.length_pos_iff.2 hnil
    cases lexToken (skipWsLex s.length s) with
    | error e => rfl
    | ok p =>
      obtain ⟨t, n⟩ := p
      simp only []
      rw [lexAllAux_fuel s.length _ _ (by rw [List.length_drop]; omega) (Nat.le_refl _)]

/-- the empty input lexes to the end marker -/
theorem lexAll_nil : lexAll [] = ([⟨.end, []⟩], none) := by rfl

/-- one step of `lexAll` on an input that starts with a token -/
theorem lexAll_step {s : Bytes} {t : Token} {n : Nat} (ht : lexToken s = .ok (t, n)) :
    lexAll s = (t :: (lexAll (s.drop n)).1, (lexAll (s.drop n)).2) := by
  have g := lexToken_good ht
  have hne : s ≠ [] := by
    intro h; subst h; have := g.le; have := g.pos; simp at *; omega
  rw [lexAll_eq, skipWsLex_of_ok ht, if_neg hne, ht]
  simp only []
  rw [show max n 1 = n by have := g.pos; omega]

example : lexAll [0x61, 0x2E] = (⟨.unquotedIdentifier, [0x61]⟩ :: (lexAll [0x2E]).1, (lexAll [0x2E]).2) :=
  lexAll_step (s := [0x61, 0x2E]) (by rfl)

/-- leading whitespace is skipped -/
theorem lexAll_ws_cons {b : Nat} (hb : isWsB b = true) (x : Bytes) : lexAll (b :: x) = lexAll x := by
  have hb' : isWsR b = true := hb
  have e : skipWsLex (b :: x).length (b :: x) = skipWsLex x.length x := by
    simp [skipWsLex, lexDecode_cons_ascii (isWsR_lt hb'), hb']
  rw [lexAll_eq (b :: x), lexAll_eq x, e]

/-- a whole run of leading whitespace is skipped -/
theorem lexAll_ws : ∀ {w : Bytes}, Ws w → ∀ x : Bytes, lexAll (w ++ x) = lexAll x
  | [], _, x => rfl
  | b :: w, hw, x => by
    rw [List.cons_append, lexAll_ws_cons (hw b (by simp)), lexAll_ws (fun c hc => hw c (by simp [hc]))]

example : lexAll ([0x20, 0x09] ++ [0x61]) = lexAll [0x61] := 
  lexAll_ws (by intro b hb; simp at hb; rcases hb with rfl | rfl <;> decide) _

/-- an input that lexes without error is empty or starts with a decodable rune -/
theorem lexAll_ok_head {s : Bytes} (h : (lexAll s).2 = none) : s = [] ∨ ∃ r sz, lexDecode s = .ok (r, sz) := by
  cases s with
  | nil => exact Or.inl rfl
  | cons b tl =>
    right
    cases hd : lexDecode (b :: tl) with
    | ok p => exact ⟨p.1, p.2, rfl⟩
    | error e =>
      exfalso
      have e1 : skipWsLex (b :: tl).length (b :: tl) = b :: tl := by
        simp [skipWsLex, hd]
      have e2 : lexToken (b :: tl) = .error e := by
        simp [lexToken, hd]
      rw [lexAll_eq, e1, if_neg (by simp), e2] at h
      cases h

example : ([0x61, 0x2E] : Bytes) = [] ∨ ∃ r sz, lexDecode [0x61, 0x2E] = .ok (r, sz) := lexAll_ok_head (by decide)
-- and an input that starts with an undecodable byte does not lex
example : (lexAll [0xFF]).2 = some .invalidRune := by decide

/-! ### the junction lemma -/

/-- the tokens of an input that lexes without error end with the end marker -/
theorem lexAll_ok_ends {s : Bytes} (h : (lexAll s).2 = none) : ∃ pre, (lexAll s).1 = pre ++ [⟨.end, []⟩] := by
  have : lexAll s = ((lexAll s).1, none) := by rw [← h]
  obtain ⟨pre, hp, _⟩ := Lexes.ends (lexAll_sound this)
  exact ⟨pre, hp⟩

/-- **Junction lemma, general form**: if `a` lexes to `pa` (and the end marker), then after appending an ASCII byte
    `c0` other than `*` and `]` that longest match does not forbid after the last token of `pa`, and any further input,
    the token stream is `pa` followed by the token stream of the appended part. -/
theorem lexAll_append_gen : ∀ (k : Nat) (a : Bytes), a.length ≤ k → ∀ (pa : List Token),
    lexAll a = (pa ++ [⟨.end, []⟩], none) → ∀ (c0 : Nat) (rest : Bytes), c0 < 0x80 → c0 ≠ 0x2A → c0 ≠ 0x5D →
    (∀ t, pa.getLast? = some t → forbiddenNext t c0 = false) →
    lexAll (a ++ c0 :: rest) = (pa ++ (lexAll (c0 :: rest)).1, (lexAll (c0 :: rest)).2)
  | 0, a, hk, pa, ha, c0, rest, _, _, _, _ => by
    have : a = [] := List.length_eq_zero_iff.1 (by omega)
    subst this
    rw [lexAll_nil] at ha
    have : pa = [] := by
      have := congrArg Prod.fst ha
      simpa using this.symm
    subst this
    rfl
  | k + 1, a, hk, pa, ha, c0, rest, hc, h2A, h5D, hlast => by
    obtain ⟨w, hw, hs⟩ := skipWsLex_spec a.length a
    rw [lexAll_eq] at ha
    by_cases hnil : skipWsLex a.length a = []
    · rw [if_pos hnil] at ha
      have : pa = [] := by
        have := congrArg Prod.fst ha
        simpa using this.symm
      subst this
      rw [hnil, List.append_nil] at hs
      rw [hs, lexAll_ws hw]
      rfl
    · rw [if_neg hnil] at ha
      generalize hs' : skipWsLex a.length a = s' at ha hs hnil
      cases htok : lexToken s' with
      | error e => rw [htok] at ha; have := congrArg Prod.snd ha; cases this
      | ok p =>
        obtain ⟨t, n⟩ := p
        rw [htok] at ha
        simp only [] at ha
        have g := lexToken_good htok
        rw [show max n 1 = n by have := g.pos; omega] at ha
        have h2 : (lexAll (s'.drop n)).2 = none := congrArg Prod.snd ha
        have h1 : t :: (lexAll (s'.drop n)).1 = pa ++ [⟨.end, []⟩] := congrArg Prod.fst ha
        obtain ⟨pre, hpre⟩ := lexAll_ok_ends h2
        rw [hpre, ← List.cons_append] at h1
        have hpa : pa = t :: pre := (List.append_cancel_right h1).symm
        subst hpa
        have hrec : lexAll (s'.drop n) = (pre ++ [⟨.end, []⟩], none) := by rw [← hpre, ← h2]
        -- the token `t` is lexed in the same way in the longer input
        have hfol : FollowOK t (s'.drop n ++ c0 :: rest) := by
          refine followOK_of_good g (lexAll_ok_head h2) hc h2A h5D ?_ rest
          intro hd
          rw [hd, lexAll_nil] at hrec
          have : pre = [] := by
            have := congrArg Prod.fst hrec
            simpa using this.symm
          subst this
          exact hlast t rfl
        have htok' := lexToken_append htok hfol
        have hlen : s'.length ≤ a.length := by
          have := congrArg List.length hs; simp at this; omega
        have ih := lexAll_append_gen k (s'.drop n) (by rw [List.length_drop]; have := g.pos; omega) pre hrec c0 rest
          hc h2A h5D (by
            intro t' ht'
            apply hlast t'
            match pre, ht' with
            | b :: tl, ht' => rw [List.getLast?_cons_cons]; exact ht')
        rw [hs, List.append_assoc, lexAll_ws hw, lexAll_step htok', List.drop_append_of_le_length g.le, ih]
        rfl

-- `a` followed by `.b` (here `c0` is the dot)
example : lexAll ([0x61] ++ 0x2E :: [0x62]) =
    ([⟨.unquotedIdentifier, [0x61]⟩] ++ (lexAll (0x2E :: [0x62])).1, (lexAll (0x2E :: [0x62])).2) :=
  lexAll_append_gen 1 [0x61] (by simp) _ (by decide) 0x2E [0x62] (by omega) (by omega) (by omega)
    (by intro t h; cases h; rfl)
-- `]` is excluded for a reason: `[*` followed by `]` fuses into the single token `[*]`
example : lexAll [0x5B, 0x2A] = ([⟨.openSqBrace, [0x5B]⟩, ⟨.asterisk, [0x2A]⟩] ++ [⟨.end, []⟩], none) ∧
    forbiddenNext ⟨.asterisk, [0x2A]⟩ 0x5D = false ∧
    lexAll ([0x5B, 0x2A] ++ 0x5D :: []) = ([⟨.arrayWildcard, [0x5B, 0x2A, 0x5D]⟩, ⟨.end, []⟩], none) := by decide

/-- **Junction with a blank**: appending a space and more input after an expression that lexes leaves the tokens of
    the first part unchanged; the result is the tokens of the first part followed by the token stream (and error, if
    any) of the rest. -/
theorem lexAll_append_space {a : Bytes} {pa : List Token} (ha : lexAll a = (pa ++ [⟨.end, []⟩], none)) (rest : Bytes) :
    lexAll (a ++ 0x20 :: rest) = (pa ++ (lexAll rest).1, (lexAll rest).2) := by
  rw [lexAll_append_gen a.length a (Nat.le_refl _) pa ha 0x20 rest (by omega) (by omega) (by omega)
    (fun t _ => forbiddenNext_blank t), lexAll_ws_cons (by decide)]

-- `a.b` followed by ` c`
example : lexAll ([0x61, 0x2E, 0x62] ++ 0x20 :: [0x63]) =
    ([⟨.unquotedIdentifier, [0x61]⟩, ⟨.dot, [0x2E]⟩, ⟨.unquotedIdentifier, [0x62]⟩] ++ (lexAll [0x63]).1,
      (lexAll [0x63]).2) :=
  lexAll_append_space (by decide) _
-- the same when the rest does not lex: `a.b` followed by ` #`
example : lexAll ([0x61, 0x2E, 0x62] ++ 0x20 :: [0x23]) =
    ([⟨.unquotedIdentifier, [0x61]⟩, ⟨.dot, [0x2E]⟩, ⟨.unquotedIdentifier, [0x62]⟩], some (.unexpectedRune 0x23))
    := by
  rw [lexAll_append_space (a := [0x61, 0x2E, 0x62])
    (pa := [⟨.unquotedIdentifier, [0x61]⟩, ⟨.dot, [0x2E]⟩, ⟨.unquotedIdentifier, [0x62]⟩]) (by decide)]
  decide

/-- a `|` not followed by another `|` is a pipe token -/
theorem lexToken_pipe {rest : Bytes} (hrest : rest.head? ≠ some 0x7C) :
    lexToken (0x7C :: rest) = .ok (⟨.pipe, [0x7C]⟩, 1) := by
  refine lexToken_complete' (ty := .pipe) (v := [0x7C]) rfl ⟨?_, by intro h; cases h⟩
  intro r sz hd
  by_cases hr : r = 0x7C
  · subst hr
    have := (lexDecode_ok_ascii hd (by omega)).2
    rw [this] at hrest
    exact absurd rfl hrest
  · simp [forbiddenNext, hr]

/-- a `|` at the head of the input gives a first token of type `pipe` or `or` -/
theorem lexToken_bar (rest : Bytes) :
    ∃ t n, lexToken (0x7C :: rest) = .ok (t, n) ∧ (t.type = .pipe ∨ t.type = .or) := by
  cases hd : lexDecode rest with
  | error e => exact ⟨_, _, by simp [lexToken, peek, hd, lexDecode_cons_ascii]; exact ⟨rfl, rfl⟩, Or.inl rfl⟩
  | ok p =>
    obtain ⟨r, sz⟩ := p
    by_cases hr : r = 0x7C
    · exact ⟨_, _, by simp [lexToken, peek, hd, hr, lexDecode_cons_ascii]; exact ⟨rfl, rfl⟩, Or.inr rfl⟩
    · exact ⟨_, _, by simp [lexToken, peek, hd, hr, lexDecode_cons_ascii]; exact ⟨rfl, rfl⟩, Or.inl rfl⟩

/-- **Junction with `|`**: appending `|` and more input after an expression that lexes leaves the tokens of the first
    part unchanged and adds a pipe token, provided the last token of the first part is not itself a `|` (the two
    would fuse into `||`) and the rest does not start with `|` (same reason). -/
theorem lexAll_append_pipe {a : Bytes} {pa : List Token} (ha : lexAll a = (pa ++ [⟨.end, []⟩], none))
    (hlast : ∀ t, pa.getLast? = some t → t.type ≠ .pipe) (rest : Bytes) (hrest : rest.head? ≠ some 0x7C) :
    lexAll (a ++ 0x7C :: rest) = (pa ++ ⟨.pipe, [0x7C]⟩ :: (lexAll rest).1, (lexAll rest).2) := by
  rw [lexAll_append_gen a.length a (Nat.le_refl _) pa ha 0x7C rest (by omega) (by omega) (by omega)
    (fun t ht => forbiddenNext_pipe t (hlast t ht)), lexAll_step (lexToken_pipe hrest)]
  rfl

-- `a.b` followed by `|c`
example : lexAll ([0x61, 0x2E, 0x62] ++ 0x7C :: [0x63]) =
    ([⟨.unquotedIdentifier, [0x61]⟩, ⟨.dot, [0x2E]⟩, ⟨.unquotedIdentifier, [0x62]⟩] ++
      ⟨.pipe, [0x7C]⟩ :: (lexAll [0x63]).1, (lexAll [0x63]).2) :=
  lexAll_append_pipe (by decide) (by decide) _ (by decide)
-- both side conditions are needed: `a|` followed by `|c`, and `a` followed by `||c`, lex with an `or` token
example : lexAll [0x61, 0x7C] = ([⟨.unquotedIdentifier, [0x61]⟩, ⟨.pipe, [0x7C]⟩] ++ [⟨.end, []⟩], none) ∧
    lexAll ([0x61, 0x7C] ++ 0x7C :: [0x63]) =
      ([⟨.unquotedIdentifier, [0x61]⟩, ⟨.or, [0x7C, 0x7C]⟩, ⟨.unquotedIdentifier, [0x63]⟩, ⟨.end, []⟩], none) ∧
    lexAll ([0x61] ++ 0x7C :: [0x7C, 0x63]) =
      ([⟨.unquotedIdentifier, [0x61]⟩, ⟨.or, [0x7C, 0x7C]⟩, ⟨.unquotedIdentifier, [0x63]⟩, ⟨.end, []⟩], none) := by
  decide

/-- **Two expressions joined by `|`**: the token stream is that of the first, a pipe token, and that of the second,
    provided the first does not end with a `|` token and the second does not start with a `|` or `||` token. -/
theorem lexAll_pipe_join {e1 e2 : Bytes} {p1 p2 : List Token}
    (h1 : lexAll e1 = (p1 ++ [⟨.end, []⟩], none)) (h2 : lexAll e2 = (p2 ++ [⟨.end, []⟩], none))
    (hl : ∀ t, p1.getLast? = some t → t.type ≠ .pipe)
    (hh : ∀ t, p2.head? = some t → t.type ≠ .pipe ∧ t.type ≠ .or) :
    lexAll (e1 ++ [0x7C] ++ e2) = (p1 ++ ⟨.pipe, [0x7C]⟩ :: p2 ++ [⟨.end, []⟩], none) := by
  have hrest : e2.head? ≠ some 0x7C := by
    intro h
    match e2, h with
    | b :: tl, h =>
      simp at h; subst h
      obtain ⟨t, n, ht, hty⟩ := lexToken_bar tl
      rw [lexAll_step ht] at h2
      have hf := congrArg Prod.fst h2
      simp only [] at hf
      match p2, hf, hh with
      | [], hf, _ =>
        simp at hf
        have := (lexToken_good ht).shape
        rw [hf.1] at this
        exact this
      | t' :: tl', hf, hh =>
        simp at hf
        have := hh t' rfl
        rw [← hf.1] at this
        rcases hty with h | h
        · exact this.1 h
        · exact this.2 h
  rw [List.append_assoc, List.singleton_append, lexAll_append_pipe h1 hl e2 hrest, h2]
  simp

-- `a.b` and `c[0]` joined by `|`
example : lexAll ([0x61, 0x2E, 0x62] ++ [0x7C] ++ [0x63, 0x5B, 0x30, 0x5D]) =
    ([⟨.unquotedIdentifier, [0x61]⟩, ⟨.dot, [0x2E]⟩, ⟨.unquotedIdentifier, [0x62]⟩] ++ ⟨.pipe, [0x7C]⟩ ::
      [⟨.unquotedIdentifier, [0x63]⟩, ⟨.openSqBrace, [0x5B]⟩, ⟨.integerLiteral, [0x30]⟩, ⟨.closeSqBrace, [0x5D]⟩] ++
      [⟨.end, []⟩], none) :=
  lexAll_pipe_join (by decide) (by decide) (by decide) (by decide)

/-- **Two expressions joined by ` | `**: the token stream is that of the first, a pipe token, and that of the second;
    no side conditions. -/
theorem lexAll_spaced_pipe_join {e1 e2 : Bytes} {p1 p2 : List Token}
    (h1 : lexAll e1 = (p1 ++ [⟨.end, []⟩], none)) (h2 : lexAll e2 = (p2 ++ [⟨.end, []⟩], none)) :
    lexAll (e1 ++ [0x20, 0x7C, 0x20] ++ e2) = (p1 ++ ⟨.pipe, [0x7C]⟩ :: p2 ++ [⟨.end, []⟩], none) := by
  have e : e1 ++ [0x20, 0x7C, 0x20] ++ e2 = e1 ++ 0x20 :: ([] ++ 0x7C :: ([] ++ 0x20 :: e2)) := by simp
  rw [e, lexAll_append_space h1,
    lexAll_append_pipe (a := []) (pa := []) lexAll_nil (by intro t h; cases h) _ (by simp),
    lexAll_append_space (a := []) (pa := []) lexAll_nil, h2]
  simp

-- `a || b` and `| c` (the first ends with, the second starts with a pipe token) joined by ` | `
example : lexAll ([0x61, 0x7C] ++ [0x20, 0x7C, 0x20] ++ [0x7C, 0x63]) =
    ([⟨.unquotedIdentifier, [0x61]⟩, ⟨.pipe, [0x7C]⟩] ++ ⟨.pipe, [0x7C]⟩ ::
      [⟨.pipe, [0x7C]⟩, ⟨.unquotedIdentifier, [0x63]⟩] ++ [⟨.end, []⟩], none) :=
  lexAll_spaced_pipe_join (by decide) (by decide)

end Jmes.C18BLex
