/-
  Helpers for Jmes/Properties/C15C.lean, part 5: RUN TOTALITY. No run `ievalO π` ever panics — whatever the
  expression, the inputs and the iteration orders `π` — in particular where the model declines to answer (`.nondet`).
-/
import Jmes.Proofs.NoPanic
import Jmes.Proofs.C15BOracle
set_option linter.unusedVariables false
set_option linter.unusedSectionVars false
namespace Jmes.C15C
open Jmes

section loops
variable {pe : List Cat → Prop} [PeOk pe]
variable {f c : Nat → Val → Res Val} (hf : ∀ i x, Sat pe (f i x)) (hc : ∀ i x, Sat pe (c i x))
include hf

theorem mapPruneO_sat : ∀ i xs, Sat pe (mapPruneO f i xs)
  | _, [] => Sat.ok _
  | i, x :: xs => by
    have ih := mapPruneO_sat (i + 1) xs
    simp only [mapPruneO]; sat_auto [hf]

theorem mapAllO_sat : ∀ i xs, Sat pe (mapAllO f i xs)
  | _, [] => Sat.ok _
  | i, x :: xs => by
    have ih := mapAllO_sat (i + 1) xs
    simp only [mapAllO]; sat_auto [hf]

theorem filterLoopO_sat : ∀ i xs, Sat pe (filterLoopO f i xs)
  | _, [] => Sat.ok _
  | i, x :: xs => by
    have ih := filterLoopO_sat (i + 1) xs
    simp only [filterLoopO]; sat_auto [hf]

theorem projectArrayO_sat (v : Val) : Sat pe (projectArrayO f v) := by
  unfold projectArrayO; sat_auto [mapPruneO_sat hf]

theorem filterArrayO_sat (v : Val) : Sat pe (filterArrayO f v) := by
  unfold filterArrayO; sat_auto [filterLoopO_sat hf]

theorem flattenAndProjectArrayO_sat (v : Val) : Sat pe (flattenAndProjectArrayO f v) := by
  unfold flattenAndProjectArrayO; sat_auto [mapPruneO_sat hf]

theorem mapArrayO_sat (v : Val) : Sat pe (mapArrayO f v) := by
  unfold mapArrayO; sat_auto [mapAllO_sat hf]

theorem projectObjectO_sat (π : Oracle) (v : Val) : Sat pe (projectObjectO π f v) := by
  unfold projectObjectO; sat_auto [mapPruneO_sat hf]

theorem keysFromO_sat (isStr : Bool) : ∀ i xs, Sat pe (keysFromO f isStr i xs)
  | _, [] => Sat.ok _
  | i, x :: xs => by
    have ih := keysFromO_sat isStr (i + 1) xs
    simp only [keysFromO]; sat_auto [hf]

theorem keysOfO_sat : ∀ xs, Sat pe (keysOfO f xs)
  | [] => Sat.ok _
  | x :: xs => by
    simp only [keysOfO]; sat_auto [hf, keysFromO_sat hf]

theorem arrayPickByO_sat (better : Key → Key → Bool) (v : Val) : Sat pe (arrayPickByO better f v) := by
  unfold arrayPickByO; sat_auto [keysOfO_sat hf]

theorem sortArrayByO_sat (v : Val) : Sat pe (sortArrayByO f v) := by
  unfold sortArrayByO; sat_auto [keysOfO_sat hf]

theorem groupLoopO_sat : ∀ i xs acc, Sat pe (groupLoopO f i xs acc)
  | _, [], acc => Sat.ok _
  | i, x :: xs, acc => by
    have ih := groupLoopO_sat (i + 1) xs
    simp only [groupLoopO]; sat_auto [hf, ih]

theorem groupByO_sat (v : Val) : Sat pe (groupByO f v) := by
  unfold groupByO; sat_auto [groupLoopO_sat hf]

include hc
theorem filterMapPruneO_sat : ∀ i xs, Sat pe (filterMapPruneO c f i xs)
  | _, [] => Sat.ok _
  | i, x :: xs => by
    have ih := filterMapPruneO_sat (i + 1) xs
    simp only [filterMapPruneO]; sat_auto [hf, hc]

theorem filterAndProjectArrayO_sat (v : Val) : Sat pe (filterAndProjectArrayO c f v) := by
  unfold filterAndProjectArrayO; sat_auto [filterMapPruneO_sat hf hc]
end loops

section fns
variable {pe : List Cat → Prop} [PeOk pe]

theorem valuesO_sat (π : Oracle) (v : Val) : Sat pe (valuesO π v) := by unfold valuesO; sat_auto
theorem keysO_sat (π : Oracle) (v : Val) : Sat pe (keysO π v) := by unfold keysO; sat_auto
theorem itemsO_sat (π : Oracle) (v : Val) : Sat pe (itemsO π v) := by unfold itemsO; sat_auto

theorem applyFnO_sat (π : Oracle) (f : Fn) (args : List Val) : Sat pe (applyFnO π f args) := by
  unfold applyFnO
  split
  · exact keysO_sat π _
  · exact valuesO_sat π _
  · exact itemsO_sat π _
  · exact applyFn_sat _ _

theorem firstFailure_sat : ∀ (os : List (Bytes × Res Val)) (acc : List (Bytes × Val)),
    (∀ o ∈ os, Sat pe o.2) → Sat pe (firstFailure os acc)
  | [], acc, _ => Sat.ok _
  | (k, r) :: rest, acc, h => by
    have h1 := h (k, r) (by simp)
    have ih := fun acc => firstFailure_sat rest acc (fun o ho => h o (List.mem_cons_of_mem _ ho))
    simp only [firstFailure]
    simp only at h1
    sat_auto [ih]
end fns

section eval
variable {pe : List Cat → Prop} [PeOk pe]

local macro "evO_case" : tactic => `(tactic| (
  simp only [ievalO]
  sat_auto [applyBinOp_sat, applyFnO_sat, index_sat, slice_sat, sliceStep_sat, zipArgs_sat,
    filterArrayO_sat, filterAndProjectArrayO_sat, flattenAndProjectArrayO_sat, projectArrayO_sat, projectObjectO_sat,
    groupByO_sat, mapArrayO_sat, arrayPickByO_sat, sortArrayByO_sat, firstFailure_sat]))

mutual
theorem ievalO_sat (root : Val) : (n : INode) → (π : Oracle) → (cur : Val) → (env : Env) →
    Sat pe (ievalO π root n cur env)
  | .lit v, π, cur, env => by evO_case
  | .current, π, cur, env => by evO_case
  | .root, π, cur, env => by evO_case
  | .field k, π, cur, env => by evO_case
  | .variable name, π, cur, env => by evO_case
  | .binop op l r, π, cur, env => by have hl := ievalO_sat root l; have hr := ievalO_sat root r; evO_case
  | .and l r, π, cur, env => by have hl := ievalO_sat root l; have hr := ievalO_sat root r; evO_case
  | .or l r, π, cur, env => by have hl := ievalO_sat root l; have hr := ievalO_sat root r; evO_case
  | .not c, π, cur, env => by have hc := ievalO_sat root c; evO_case
  | .negate c, π, cur, env => by have hc := ievalO_sat root c; evO_case
  | .assertNumber c, π, cur, env => by have hc := ievalO_sat root c; evO_case
  | .call f args, π, cur, env => by have hargs := ievalListO_sat root args; evO_case
  | .defineVariables vars child, π, cur, env => by
    have hvars := ievalMembersO_sat root vars; have hchild := ievalO_sat root child
    simp only [ievalO]
    refine Sat.bind (firstFailure_sat _ _ fun o ho => ?_) fun bs => hchild _ _ _
    exact hvars _ _ _ o ((Oracle.order_perm _ _).mem_iff.mp ho)
  | .filter c f, π, cur, env => by have hc := ievalO_sat root c; have hf := ievalO_sat root f; evO_case
  | .filterCurrent f, π, cur, env => by have hf := ievalO_sat root f; evO_case
  | .filterAndProject l f r, π, cur, env => by
    have hl := ievalO_sat root l; have hf := ievalO_sat root f; have hr := ievalO_sat root r; evO_case
  | .filterAndProjectCurrent f c, π, cur, env => by have hf := ievalO_sat root f; have hc := ievalO_sat root c; evO_case
  | .flatten c, π, cur, env => by have hc := ievalO_sat root c; evO_case
  | .flattenCurrent, π, cur, env => by evO_case
  | .flattenAndProject l r, π, cur, env => by have hl := ievalO_sat root l; have hr := ievalO_sat root r; evO_case
  | .flattenAndProjectCurrent c, π, cur, env => by have hc := ievalO_sat root c; evO_case
  | .index c i, π, cur, env => by have hc := ievalO_sat root c; evO_case
  | .indexCurrent i, π, cur, env => by evO_case
  | .smallIndexCurrent i, π, cur, env => by evO_case
  | .objectValues c, π, cur, env => by have hc := ievalO_sat root c; evO_case
  | .objectValuesCurrent, π, cur, env => by evO_case
  | .pipe l r, π, cur, env => by have hl := ievalO_sat root l; have hr := ievalO_sat root r; evO_case
  | .projectArray l r, π, cur, env => by have hl := ievalO_sat root l; have hr := ievalO_sat root r; evO_case
  | .projectArrayCurrent c, π, cur, env => by have hc := ievalO_sat root c; evO_case
  | .projectObject l r, π, cur, env => by have hl := ievalO_sat root l; have hr := ievalO_sat root r; evO_case
  | .projectObjectCurrent c, π, cur, env => by have hc := ievalO_sat root c; evO_case
  | .pruneArray c, π, cur, env => by have hc := ievalO_sat root c; evO_case
  | .pruneArrayCurrent, π, cur, env => by evO_case
  | .selectArray c fs, π, cur, env => by have hc := ievalO_sat root c; have hfs := ievalListO_sat root fs; evO_case
  | .selectArrayCurrent fs, π, cur, env => by have hfs := ievalListO_sat root fs; evO_case
  | .selectArraySingle c f, π, cur, env => by have hc := ievalO_sat root c; have hf := ievalO_sat root f; evO_case
  | .selectArraySingleCurrent f, π, cur, env => by have hf := ievalO_sat root f; evO_case
  | .selectObject c fs, π, cur, env => by
    have hc := ievalO_sat root c; have hfs := ievalMembersO_sat root fs
    simp only [ievalO]
    refine Sat.bind (hc _ _ _) fun a => ?_
    split
    · exact Sat.pure _
    · refine Sat.bind (firstFailure_sat _ _ fun o ho => ?_) fun kvs => Sat.pure _
      exact hfs _ _ _ o ((Oracle.order_perm _ _).mem_iff.mp ho)
  | .selectObjectCurrent fs, π, cur, env => by
    have hfs := ievalMembersO_sat root fs
    simp only [ievalO]
    split
    · exact Sat.ok _
    · refine Sat.bind (firstFailure_sat _ _ fun o ho => ?_) fun kvs => Sat.pure _
      exact hfs _ _ _ o ((Oracle.order_perm _ _).mem_iff.mp ho)
  | .selectObjectSingle c k f, π, cur, env => by have hc := ievalO_sat root c; have hf := ievalO_sat root f; evO_case
  | .selectObjectSingleCurrent k f, π, cur, env => by have hf := ievalO_sat root f; evO_case
  | .slice c a b, π, cur, env => by have hc := ievalO_sat root c; evO_case
  | .sliceCurrent a b, π, cur, env => by evO_case
  | .sliceStep c a b s, π, cur, env => by have hc := ievalO_sat root c; evO_case
  | .sliceStepCurrent a b s, π, cur, env => by evO_case
  | .groupBy a e, π, cur, env => by have ha := ievalO_sat root a; have he := ievalO_sat root e; evO_case
  | .map e a, π, cur, env => by have he := ievalO_sat root e; have ha := ievalO_sat root a; evO_case
  | .maxBy a e, π, cur, env => by have ha := ievalO_sat root a; have he := ievalO_sat root e; evO_case
  | .minBy a e, π, cur, env => by have ha := ievalO_sat root a; have he := ievalO_sat root e; evO_case
  | .sortBy a e, π, cur, env => by have ha := ievalO_sat root a; have he := ievalO_sat root e; evO_case
  | .merge args, π, cur, env => by have hargs := ievalMergeO_sat root args; evO_case
  | .notNull args, π, cur, env => by have hargs := ievalNotNullO_sat root args; evO_case
  | .zip args, π, cur, env => by have hargs := ievalZipO_sat root args; evO_case
theorem ievalListO_sat (root : Val) : (ns : List INode) → (π : Oracle) → (cur : Val) → (env : Env) →
    Sat pe (ievalListO π root ns cur env)
  | [], π, cur, env => Sat.ok _
  | n :: ns, π, cur, env => by
    have h1 := ievalO_sat root n; have h2 := ievalListO_sat root ns
    simp only [ievalListO]; sat_auto
theorem ievalMembersO_sat (root : Val) : (fs : List (Bytes × INode)) → (π : Oracle) → (cur : Val) → (env : Env) →
    ∀ o ∈ ievalMembersO π root fs cur env, Sat pe o.2
  | [], π, cur, env => by intro o ho; simp [ievalMembersO] at ho
  | (k, n) :: rest, π, cur, env => by
    intro o ho
    simp only [ievalMembersO, List.mem_cons] at ho
    rcases ho with rfl | ho
    · exact ievalO_sat root n _ cur env
    · exact ievalMembersO_sat root rest _ cur env o ho
theorem ievalMergeO_sat (root : Val) : (ns : List INode) → (π : Oracle) → (cur : Val) → (env : Env) →
    (acc : List (Bytes × Val)) → Sat pe (ievalMergeO π root ns cur env acc)
  | [], π, cur, env, acc => Sat.ok _
  | n :: ns, π, cur, env, acc => by
    have h1 := ievalO_sat root n; have h2 := ievalMergeO_sat root ns
    simp only [ievalMergeO]; sat_auto [h2]
theorem ievalNotNullO_sat (root : Val) : (ns : List INode) → (π : Oracle) → (cur : Val) → (env : Env) →
    Sat pe (ievalNotNullO π root ns cur env)
  | [], π, cur, env => Sat.ok _
  | n :: ns, π, cur, env => by
    have h1 := ievalO_sat root n; have h2 := ievalNotNullO_sat root ns
    simp only [ievalNotNullO]; sat_auto
theorem ievalZipO_sat (root : Val) : (ns : List INode) → (π : Oracle) → (cur : Val) → (env : Env) →
    Sat pe (ievalZipO π root ns cur env)
  | [], π, cur, env => Sat.ok _
  | n :: ns, π, cur, env => by
    have h1 := ievalO_sat root n; have h2 := ievalZipO_sat root ns
    simp only [ievalZipO]; sat_auto
end
end eval

/-- **Run totality**: no run ever panics -/
theorem ievalO_noPanic (π : Oracle) (root : Val) (n : INode) (cur : Val) (env : Env) :
    NoPanic (ievalO π root n cur env) :=
  (ievalO_sat (pe := fun _ => True) root n π cur env).noPanic

end Jmes.C15C
