/-
  C03D (array part) — checked mirrors of the array / list functions of the Go evaluator.

  Every Go indexing (`a[i]`), slicing (`a[1:]`, `a[:i]`, `s[:len(s)-sz]`), writing (`r[j] = x`), `make` and unchecked
  type assertion (`r[s].([]any)`) site of

    * functions.go  `isJSONNumber`, `reverse`
    * evaluator.go  `case *parser.ZipNode`
    * array.go      `arrayMax`, `arrayMin`, `sortArray`, `index`, `pruneArray`, `flatten`, `mapArray`, `arrayMaxBy`,
                    `arrayMinBy`, `sortArrayBy`
    * string.go     `join`
    * object.go     `groupBy`, `fromItems` (the loop)

  goes through a checked primitive of `Jmes/Proofs/C03DChecked.lean`; the theorems `<goFunc>C_eq` state that the
  checked mirror equals the model function: the checks never fire.

  Conventions (in addition to those of C03DChecked): a Go `for … range` over a slice is mirrored by structural recursion
  on the list together with the Go loop variable `i : Int` where the body uses it; a Go `for cond { … }` loop is mirrored
  with fuel, running out of fuel is `.unmodelled "fuel"` (and is shown never to happen).  `a && b`, `a || b` are mirrored by
  `andC`, `orC` (the right operand is only consulted when Go evaluates it).
-/
import Jmes.Proofs.C03DChecked
import Jmes.Properties.C09
import Jmes.Proofs.C08BArity
import Jmes.Proofs.C20BClosureLemmas
namespace Jmes.C03D.ArrGo
open Jmes Jmes.C03D

/-! ## generic helpers -/

/-- Go `a && b` (short circuit) over checked operands -/
def andC (a b : Res Bool) : Res Bool := a >>= fun x => if x then b else pure false
/-- Go `a || b` (short circuit) over checked operands -/
def orC (a b : Res Bool) : Res Bool := a >>= fun x => if x then pure true else b

@[simp] theorem andC_ok_true (b : Res Bool) : andC (.ok true) b = b := rfl
@[simp] theorem andC_ok_false (b : Res Bool) : andC (.ok false) b = .ok false := rfl
@[simp] theorem orC_ok_true (b : Res Bool) : orC (.ok true) b = .ok true := rfl
@[simp] theorem orC_ok_false (b : Res Bool) : orC (.ok false) b = b := rfl

/-- the loop-fuel marker -/
def outOfFuel {α} : Res α := .unmodelled "fuel"

/- `make([]T, n)` for an element type other than `any` is `makeOf? elemSize z n` of `C03DChecked` (`[][]any`: 24-byte
   elements, limit `2^48 / 24`; `[]string`, `[]decimal128.Decimal`: 16-byte elements, limit `2^44`). -/

/-- size in bytes of a slice header (`[]any` as an element of `[][]any`) -/
def sliceHdrSize : Nat := 24
/-- size in bytes of a `string` header, of a `decimal128.Decimal` (two `uint64`) and of an `any` -/
def wordPairSize : Nat := 16

example : makeOf? wordPairSize (0 : Nat) (-1) = .panic makeMsg := rfl

theorem drop_cons_idx {α} {s : List α} {i : Nat} {b : α} {t : List α} (h : s.drop i = b :: t) :
    i < s.length ∧ idx? s (i : Int) = .ok b ∧ s.drop (i + 1) = t := by
  have hlt : i < s.length := by
    rcases Nat.lt_or_ge i s.length with h' | h'
    · exact h'
    · rw [List.drop_eq_nil_of_le h'] at h; cases h
  refine ⟨hlt, ?_, ?_⟩
  · rw [idx?_ok_nat s i hlt b]
    have := List.drop_eq_getElem_cons hlt
    rw [this] at h
    injection h with h1 h2
    simp [List.getD_eq_getElem?_getD, List.getElem?_eq_getElem hlt, h1]
  · have := List.drop_eq_getElem_cons hlt
    rw [this] at h
    injection h with h1 h2

theorem drop_nil_len {α} {s : List α} {i : Nat} (h : s.drop i = []) : s.length ≤ i := by
  simpa using h

/-! ## functions.go `isJSONNumber` -/

/-- functions.go:26 / :36 / :52 `for i < len(s) && s[i] >= '0' && s[i] <= '9' { i++ }`
    (two reads `s[i]`, both behind `i < len(s)`); returns the final `i` -/
def digitsLoopC (s : Bytes) : Nat → Int → Res Int
  | 0, _ => outOfFuel
  | fuel + 1, i => do
    let c ← andC (andC (pure (decide (i < (s.length : Int))))
                  (do let b ← idx? s i; pure (decide (b ≥ 0x30))))
                (do let b ← idx? s i; pure (decide (b ≤ 0x39)))
    if c then digitsLoopC s fuel (i + 1) else pure i

/-- functions.go:45-61, the exponent part and the final `return i == len(s)`:
    `:45 s[i] == 'e'`, `:45 s[i] == 'E'` behind `i < len(s)`; `:47 s[i] == '+'`, `:47 s[i] == '-'` behind `i < len(s)`;
    `:52` digit loop; `:56 if i == n` -/
def isJSONNumberExpC (s : Bytes) (i : Int) : Res Bool := do
  let c ← andC (pure (decide (i < (s.length : Int))))
            (orC (do let b ← idx? s i; pure (b == 0x65)) (do let b ← idx? s i; pure (b == 0x45)))
  if c then
    let i := i + 1
    let c2 ← andC (pure (decide (i < (s.length : Int))))
              (orC (do let b ← idx? s i; pure (b == 0x2B)) (do let b ← idx? s i; pure (b == 0x2D)))
    let i := if c2 then i + 1 else i
    let n := i
    let i ← digitsLoopC s (s.length + 1) i
    if i == n then pure false
    else pure (i == (s.length : Int))
  else pure (i == (s.length : Int))

/-- functions.go:33-43, the fraction part: `:33 s[i] == '.'` behind `i < len(s)`; `:36` digit loop; `:40 if i == n` -/
def isJSONNumberFracC (s : Bytes) (i : Int) : Res Bool := do
  let c ← andC (pure (decide (i < (s.length : Int)))) (do let b ← idx? s i; pure (b == 0x2E))
  if c then
    let i := i + 1
    let n := i
    let i ← digitsLoopC s (s.length + 1) i
    if i == n then pure false
    else isJSONNumberExpC s i
  else isJSONNumberExpC s i

/-- functions.go:19-31, the integer part.
    Sites: `:19 if i == len(s) { return false }` (the flag `endGuard` keeps it); `:23 s[i] == '0'`, `:25 s[i] >= '1'`,
    `:25 s[i] <= '9'` (these three are protected by the `:19` guard only); `:26` digit loop. -/
def isJSONNumberIntC (s : Bytes) (i : Int) (endGuard : Bool) : Res Bool :=
  if endGuard && i == (s.length : Int) then pure false
  else do
    let z ← (do let b ← idx? s i; pure (b == 0x30))
    if z then isJSONNumberFracC s (i + 1)
    else do
      let d ← andC (do let b ← idx? s i; pure (decide (b ≥ 0x31))) (do let b ← idx? s i; pure (decide (b ≤ 0x39)))
      if d then do
        let i ← digitsLoopC s (s.length + 1) i
        isJSONNumberFracC s i
      else pure false

/-- functions.go:13 `isJSONNumber(s)`.
    Sites: `:15 s[i] == '-'` behind `i < len(s)`; then the integer, fraction and exponent parts
    (`isJSONNumberIntC`, `isJSONNumberFracC`, `isJSONNumberExpC`). -/
def isJSONNumberC (s : Bytes) (endGuard : Bool := true) : Res Bool := do
  let i : Int := 0
  let c ← andC (pure (decide (i < (s.length : Int)))) (do let b ← idx? s i; pure (b == 0x2D))
  let i := if c then i + 1 else i
  isJSONNumberIntC s i endGuard

/-- list-level reading of the exponent part + end test -/
def expL (t : Bytes) : Bool :=
  match t with
  | [] => true
  | e :: t' =>
    if e = 0x65 ∨ e = 0x45 then
      let t'' := match t' with
        | 0x2B :: u => u
        | 0x2D :: u => u
        | _ => t'
      !(Json.takeDigits t'').1.isEmpty && (Json.takeDigits t'').2.isEmpty
    else false

/-- list-level reading of the fraction part -/
def fracL (t : Bytes) : Bool :=
  match t with
  | 0x2E :: t' => !(Json.takeDigits t').1.isEmpty && expL (Json.takeDigits t').2
  | _ => expL t

/-- list-level reading of the integer part -/
def intL (t : Bytes) : Bool :=
  match t with
  | [] => false
  | 0x30 :: t' => fracL t'
  | b :: t' => if 0x31 ≤ b ∧ b ≤ 0x39 then fracL (Json.takeDigits (b :: t')).2 else false

def numL (s : Bytes) : Bool :=
  match s with
  | 0x2D :: t => intL t
  | _ => intL s

theorem takeDigits_drop : ∀ t : Bytes, (Json.takeDigits t).2 = t.drop (Json.takeDigits t).1.length
  | [] => by simp [Json.takeDigits]
  | b :: t => by
    unfold Json.takeDigits
    by_cases h : Dec.isDigit b = true
    · simp only [h, if_true]
      simpa using takeDigits_drop t
    · simp [h]

theorem takeDigits_len_le (t : Bytes) : (Json.takeDigits t).1.length ≤ t.length := by
  induction t with
  | nil => simp [Json.takeDigits]
  | cons b t ih =>
    unfold Json.takeDigits
    by_cases h : Dec.isDigit b = true
    · simp only [h, if_true]; simp; omega
    · simp [h]

theorem digitsLoopC_eq (s : Bytes) : ∀ (fuel i : Nat), i ≤ s.length → s.length - i < fuel →
    digitsLoopC s fuel (i : Int) = .ok (((i + (Json.takeDigits (s.drop i)).1.length : Nat)) : Int)
  | 0, _, _, h => by omega
  | fuel + 1, i, hi, hf => by
    unfold digitsLoopC
    cases h : s.drop i with
    | nil =>
      have := drop_nil_len h
      have e : ¬ (i < s.length) := by omega
      simp [e, Json.takeDigits]
    | cons b t =>
      obtain ⟨hlt, hidx, hdrop⟩ := drop_cons_idx h
      have e : decide ((i : Int) < (s.length : Int)) = true := by simp; omega
      simp only [e, hidx, Res.pure_eq, Res.ok_bind, andC_ok_true]
      unfold Json.takeDigits
      by_cases h1 : b ≥ 0x30
      · by_cases h2 : b ≤ 0x39
        · have hd : Dec.isDigit b = true := by simp [Dec.isDigit]; omega
          simp only [h1, h2, decide_true, andC_ok_true, Res.ok_bind, if_true, hd]
          have ih := digitsLoopC_eq s fuel (i + 1) (by omega) (by omega)
          rw [hdrop] at ih
          have e2 : ((i : Int) + 1) = ((i + 1 : Nat) : Int) := by omega
          rw [e2, ih]
          simp; omega
        · have hd : Dec.isDigit b = false := by simp [Dec.isDigit]; omega
          simp [h1, h2, hd]
      · have hd : Dec.isDigit b = false := by simp [Dec.isDigit]; omega
        simp [h1, hd]

theorem digits_end (s : Bytes) (j : Nat) (hj : j ≤ s.length) :
    (Json.takeDigits (s.drop j)).2 = s.drop (j + (Json.takeDigits (s.drop j)).1.length) ∧
    j + (Json.takeDigits (s.drop j)).1.length ≤ s.length := by
  constructor
  · rw [takeDigits_drop (s.drop j), List.drop_drop]
  · have := takeDigits_len_le (s.drop j)
    rw [List.length_drop] at this
    omega

/-- the two tests after a digit loop that started at `j` (`i == n`, `i == len(s)`) read on the list -/
theorem digits_tests (s : Bytes) (j : Nat) (hj : j ≤ s.length) :
    ((((j + (Json.takeDigits (s.drop j)).1.length : Nat) : Int) == (j : Int)) = (Json.takeDigits (s.drop j)).1.isEmpty) ∧
    ((((j + (Json.takeDigits (s.drop j)).1.length : Nat) : Int) == (s.length : Int)) =
      (Json.takeDigits (s.drop j)).2.isEmpty) := by
  obtain ⟨h1, h2⟩ := digits_end s j hj
  constructor
  · rw [Bool.eq_iff_iff]; simp [List.isEmpty_iff, ← List.length_eq_zero_iff]; omega
  · rw [h1, Bool.eq_iff_iff]; simp [List.isEmpty_iff]; omega

theorem isJSONNumberExpC_eq (s : Bytes) (i : Nat) (hi : i ≤ s.length) :
    isJSONNumberExpC s (i : Int) = .ok (expL (s.drop i)) := by
  unfold isJSONNumberExpC
  cases h : s.drop i with
  | nil =>
    have := drop_nil_len h
    have e : ¬ (i < s.length) := by omega
    have e' : i = s.length := by omega
    simp [expL, e']
  | cons c t =>
    obtain ⟨hlt, hidx, hdrop⟩ := drop_cons_idx h
    have e : decide ((i : Int) < (s.length : Int)) = true := by simp; omega
    simp only [e, hidx, Res.pure_eq, Res.ok_bind, andC_ok_true]
    by_cases hc : c = 0x65 ∨ c = 0x45
    · have hor : orC (Res.ok (c == 0x65)) (Res.ok (c == 0x45)) = .ok true := by
        rcases hc with rfl | rfl <;> rfl
      simp only [hor, Res.ok_bind, if_true, expL, hc]
      have e1 : ((i : Int) + 1) = ((i + 1 : Nat) : Int) := by omega
      rw [e1]
      cases h2 : s.drop (i + 1) with
      | nil =>
        have := drop_nil_len h2
        have e2 : decide (((i + 1 : Nat) : Int) < (s.length : Int)) = false := by simp; omega
        rw [hdrop] at h2
        subst h2
        simp only [e2, andC_ok_false, Res.ok_bind, Bool.false_eq_true, if_false]
        rw [digitsLoopC_eq s _ (i + 1) (by omega) (by omega), hdrop]
        simp [Json.takeDigits]
      | cons b u =>
        obtain ⟨hlt2, hidx2, hdrop2⟩ := drop_cons_idx h2
        have e2 : decide (((i + 1 : Nat) : Int) < (s.length : Int)) = true := by simp; omega
        rw [hdrop] at h2
        subst h2
        simp only [e2, hidx2, andC_ok_true, Res.ok_bind]
        by_cases hb : b = 0x2B ∨ b = 0x2D
        · have hor2 : orC (Res.ok (b == 0x2B)) (Res.ok (b == 0x2D)) = .ok true := by
            rcases hb with rfl | rfl <;> rfl
          have e3 : (((i + 1 : Nat) : Int) + 1) = ((i + 2 : Nat) : Int) := by omega
          simp only [hor2, Res.ok_bind, if_true, e3]
          rw [digitsLoopC_eq s _ (i + 2) (by omega) (by omega)]
          obtain ⟨t1, t2⟩ := digits_tests s (i + 2) (by omega)
          simp only [Res.ok_bind, t1, t2]
          have : (match b :: u with | 0x2B :: u => u | 0x2D :: u => u | _ => b :: u) = s.drop (i + 2) := by
            rw [← hdrop2]; rcases hb with rfl | rfl <;> rfl
          rw [this]
          cases (Json.takeDigits (List.drop (i + 2) s)).1.isEmpty <;> simp
        · have hor2 : orC (Res.ok (b == 0x2B)) (Res.ok (b == 0x2D)) = .ok false := by
            have h1 : (b == 0x2B) = false := by simp; omega
            have h2 : (b == 0x2D) = false := by simp; omega
            rw [h1, h2]; rfl
          simp only [hor2, Res.ok_bind, Bool.false_eq_true, if_false]
          rw [digitsLoopC_eq s _ (i + 1) (by omega) (by omega)]
          obtain ⟨t1, t2⟩ := digits_tests s (i + 1) (by omega)
          simp only [Res.ok_bind, t1, t2]
          have : (match b :: u with | 0x2B :: u => u | 0x2D :: u => u | _ => b :: u) = s.drop (i + 1) := by
            rw [hdrop]
            split
            · rename_i heq; injection heq with h1 h2; exact absurd (Or.inl h1) hb
            · rename_i heq; injection heq with h1 h2; exact absurd (Or.inr h1) hb
            · rfl
          rw [this]
          cases (Json.takeDigits (List.drop (i + 1) s)).1.isEmpty <;> simp
    · have hor : orC (Res.ok (c == 0x65)) (Res.ok (c == 0x45)) = .ok false := by
        have h1 : (c == 0x65) = false := by simp; omega
        have h2 : (c == 0x45) = false := by simp; omega
        rw [h1, h2]; rfl
      have e' : ¬ ((i : Int) = (s.length : Int)) := by omega
      simp [hor, expL, hc, e']

theorem isJSONNumberFracC_eq (s : Bytes) (i : Nat) (hi : i ≤ s.length) :
    isJSONNumberFracC s (i : Int) = .ok (fracL (s.drop i)) := by
  unfold isJSONNumberFracC
  cases h : s.drop i with
  | nil =>
    have := drop_nil_len h
    have e : decide ((i : Int) < (s.length : Int)) = false := by simp; omega
    simp only [e]
    rw [isJSONNumberExpC_eq s i hi, h]; rfl
  | cons c t =>
    obtain ⟨hlt, hidx, hdrop⟩ := drop_cons_idx h
    have e : decide ((i : Int) < (s.length : Int)) = true := by simp; omega
    simp only [e, hidx, Res.pure_eq, Res.ok_bind, andC_ok_true]
    by_cases hc : c = 0x2E
    · subst hc
      have e1 : ((i : Int) + 1) = ((i + 1 : Nat) : Int) := by omega
      simp only [beq_self_eq_true, if_true, e1]
      rw [digitsLoopC_eq s _ (i + 1) (by omega) (by omega)]
      obtain ⟨t1, t2⟩ := digits_tests s (i + 1) (by omega)
      obtain ⟨d1, d2⟩ := digits_end s (i + 1) (by omega)
      simp only [Res.ok_bind, t1]
      rw [isJSONNumberExpC_eq s _ d2, ← d1, hdrop]
      simp only [fracL]
      cases (Json.takeDigits t).1.isEmpty <;> simp
    · have h1 : (c == 0x2E) = false := by simp; omega
      simp only [h1, Bool.false_eq_true, if_false]
      rw [isJSONNumberExpC_eq s i hi, h]
      simp only [fracL]
      split
      · rename_i heq; injection heq with h1 h2; exact absurd h1 hc
      · rfl

/-- the model's `Json.isValidNumber`, read phase by phase -/
def expP (s3 : Bytes) : Option (Bytes × Bytes) :=
  match s3 with
  | e :: t =>
    if e = 0x65 ∨ e = 0x45 then
      let (sg, t') := match t with
        | 0x2B :: u => ([0x2B], u)
        | 0x2D :: u => ([0x2D], u)
        | _ => ([], t)
      let (d, r) := Json.takeDigits t'
      if d.isEmpty then none else some (e :: sg ++ d, r)
    else some ([], s3)
  | [] => some ([], s3)

def fracP (s2 : Bytes) : Option (Bytes × Bytes) :=
  match s2 with
  | 0x2E :: t => let (d, r) := Json.takeDigits t; if d.isEmpty then none else some (0x2E :: d, r)
  | _ => some ([], s2)

def intP (s1 : Bytes) : Option (Bytes × Bytes) :=
  match s1 with
  | 0x30 :: t => some ([0x30], t)
  | b :: _ => if 0x31 ≤ b ∧ b ≤ 0x39 then some (Json.takeDigits s1) else none
  | [] => none

/-- `parseNumberTok` after the sign has been taken off -/
def numBody (sign s1 : Bytes) : Option (Bytes × Bytes) :=
  match intP s1 with
  | none => none
  | some (ip, s2) =>
    match fracP s2 with
    | none => none
    | some (fp, s3) =>
      match expP s3 with
      | none => none
      | some (ep, s4) => some (sign ++ ip ++ fp ++ ep, s4)

theorem parseNumberTok_minus (t : Bytes) : Json.parseNumberTok (0x2D :: t) = numBody [0x2D] t := rfl

theorem parseNumberTok_nominus (s : Bytes) (h : ∀ t, s ≠ 0x2D :: t) : Json.parseNumberTok s = numBody [] s := by
  unfold Json.parseNumberTok
  split
  rename_i heq
  split at heq
  · exact absurd rfl (h _)
  · injection heq with h1 h2
    subst h1 h2
    rfl

def endsOK (o : Option (Bytes × Bytes)) : Bool := match o with | some (_, []) => true | _ => false

theorem endsOK_ite (d x r : Bytes) :
    endsOK (if d.isEmpty = true then none else some (x, r)) = (!d.isEmpty && r.isEmpty) := by
  cases d <;> cases r <;> simp [endsOK]

theorem expL_eq (s3 : Bytes) : expL s3 = endsOK (expP s3) := by
  unfold expL expP
  cases s3 with
  | nil => rfl
  | cons e t =>
    simp only
    by_cases hc : e = 0x65 ∨ e = 0x45
    · simp only [hc, if_true]
      cases t with
      | nil => simp [endsOK, Json.takeDigits]
      | cons b u =>
        by_cases h1 : b = 0x2B
        · subst h1; simp only [endsOK_ite]
        · by_cases h2 : b = 0x2D
          · subst h2; simp only [endsOK_ite]
          · have e1 : (match b :: u with | 0x2B :: u => u | 0x2D :: u => u | _ => b :: u) = b :: u := by
              split
              · rename_i heq; injection heq with a _; exact absurd a h1
              · rename_i heq; injection heq with a _; exact absurd a h2
              · rfl
            have e2 : (match b :: u with
                | 0x2B :: u => (([0x2B] : Bytes), u) | 0x2D :: u => ([0x2D], u) | _ => ([], b :: u)) = ([], b :: u) := by
              split
              · rename_i heq; injection heq with a _; exact absurd a h1
              · rename_i heq; injection heq with a _; exact absurd a h2
              · rfl
            rw [e1, e2]
            simp only [endsOK_ite]
    · simp [hc, endsOK]

theorem fracL_eq (s2 : Bytes) (pre sign : Bytes) :
    fracL s2 = endsOK (match fracP s2 with
      | none => none
      | some (fp, s3) =>
        match expP s3 with
        | none => none
        | some (ep, s4) => some (sign ++ pre ++ fp ++ ep, s4)) := by
  have key : ∀ (fp s3 : Bytes), endsOK (match expP s3 with
        | none => none
        | some (ep, s4) => some (sign ++ pre ++ fp ++ ep, s4)) = expL s3 := by
    intro fp s3
    rw [expL_eq]
    cases expP s3 with
    | none => rfl
    | some p => obtain ⟨ep, s4⟩ := p; cases s4 <;> rfl
  unfold fracL fracP
  split
  · rename_i t
    simp only
    cases hd : (Json.takeDigits t).1.isEmpty
    · simp only [Bool.false_eq_true, if_false, key]; rfl
    · simp [endsOK]
  · simp only [key]

theorem intL_eq (s1 sign : Bytes) : intL s1 = endsOK (numBody sign s1) := by
  unfold intL numBody intP
  split
  · rfl
  · simp only; rw [← fracL_eq]
  · rename_i b t' hne
    simp only
    by_cases hb : 0x31 ≤ b ∧ b ≤ 0x39
    · simp only [hb, and_self, if_true]; rw [← fracL_eq]
    · simp only [hb, if_false]; rfl

theorem isValidNumber_eq_numL (s : Bytes) : Json.isValidNumber s = numL s := by
  unfold Json.isValidNumber numL
  show endsOK (Json.parseNumberTok s) = _
  split
  · rw [parseNumberTok_minus, intL_eq]
  · rename_i hne
    rw [parseNumberTok_nominus s (fun t h => hne t h), intL_eq]

theorem isJSONNumberIntC_eq (s : Bytes) (i : Nat) (hi : i ≤ s.length) :
    isJSONNumberIntC s (i : Int) true = .ok (intL (s.drop i)) := by
  unfold isJSONNumberIntC
  cases h : s.drop i with
  | nil =>
    have := drop_nil_len h
    have e' : i = s.length := by omega
    simp [intL, e']
  | cons c t =>
    obtain ⟨hlt, hidx, hdrop⟩ := drop_cons_idx h
    have e : ((i : Int) == (s.length : Int)) = false := by simp; omega
    have e1 : ((i : Int) + 1) = ((i + 1 : Nat) : Int) := by omega
    simp only [e, Bool.and_false, Bool.false_eq_true, if_false, hidx, Res.pure_eq, Res.ok_bind]
    by_cases hc : c = 0x30
    · subst hc
      simp only [beq_self_eq_true, if_true, e1]
      rw [isJSONNumberFracC_eq s (i + 1) (by omega), hdrop]
      rfl
    · have h1 : (c == 0x30) = false := by simp; omega
      simp only [h1, Bool.false_eq_true, if_false]
      have hi' : intL (c :: t) = if 0x31 ≤ c ∧ c ≤ 0x39 then fracL (Json.takeDigits (c :: t)).2 else false := by
        unfold intL
        split
        · rename_i heq; cases heq
        · rename_i heq; injection heq with a _; exact absurd a hc
        · rename_i heq; injection heq with a b; subst a b; rfl
      rw [hi']
      by_cases hd : 0x31 ≤ c ∧ c ≤ 0x39
      · have hd1 : c ≥ 0x31 := hd.1
        have hd2 : c ≤ 0x39 := hd.2
        simp only [hd1, hd2, decide_true, andC_ok_true, Res.ok_bind, if_true, and_self]
        rw [digitsLoopC_eq s _ i hi (by omega)]
        obtain ⟨d1, d2⟩ := digits_end s i hi
        simp only [Res.ok_bind]
        rw [isJSONNumberFracC_eq s _ d2, ← d1, h]
      · simp only [hd, if_false]
        by_cases hd1 : c ≥ 0x31
        · have hd2 : decide (c ≤ 0x39) = false := by simp; omega
          simp [hd1, hd2]
        · simp [hd1]

/-- **isJSONNumber never indexes out of range**: on every byte string (valid UTF-8 or not) the checked mirror of
    functions.go `isJSONNumber` returns, without panicking, exactly the model's `Json.isValidNumber`
    (the test `to_number` applies to a string). -/
theorem isJSONNumberC_eq (s : Bytes) : isJSONNumberC s = .ok (Json.isValidNumber s) := by
  rw [isValidNumber_eq_numL]
  unfold isJSONNumberC numL
  cases s with
  | nil => rfl
  | cons b t =>
    have e : decide ((0 : Int) < ((b :: t).length : Int)) = true := by simp
    have hidx : idx? (b :: t) 0 = .ok b := (drop_cons_idx (s := b :: t) (i := 0) rfl).2.1
    simp only [e, hidx, Res.pure_eq, Res.ok_bind, andC_ok_true]
    by_cases hb : b = 0x2D
    · subst hb
      have := isJSONNumberIntC_eq (0x2D :: t) 1 (by simp)
      simpa using this
    · have h1 : (b == 0x2D) = false := by simp; omega
      simp only [h1, Bool.false_eq_true, if_false]
      have := isJSONNumberIntC_eq (b :: t) 0 (by simp)
      rw [show ((0 : Nat) : Int) = 0 from rfl] at this
      rw [this]
      simp only [List.drop_zero]
      split
      · rename_i heq; injection heq with a _; exact absurd a hb
      · rfl

example : isJSONNumberC [0x2D, 0x31, 0x2E, 0x35, 0x65, 0x2B, 0x32] = .ok true := rfl   -- "-1.5e+2"
example : isJSONNumberC [0x2D] = .ok false := rfl                                        -- "-"
example : isJSONNumberC [0x31, 0x2E] = .ok false := rfl                                  -- "1."

/-- GUARD DELETION (functions.go:19 `if i == len(s) { return false }`): without the end test, `to_number('-')`
    (Go: `isJSONNumber("-")`) reads `s[1]` of a one-byte string at functions.go:23 and panics. -/
example : isJSONNumberC [0x2D] (endGuard := false) = .panic idxMsg := rfl
/-- the same for the empty string: `to_number('')` would read `s[0]` -/
example : isJSONNumberC [] (endGuard := false) = .panic idxMsg := rfl

/-- SIBLING of `isJSONNumberFracC` that drops the `i < len(s)` test of functions.go:33 (`if i < len(s) && s[i] == '.'`) -/
def isJSONNumberFracNoLtC (s : Bytes) (i : Int) : Res Bool := do
  let c ← (do let b ← idx? s i; pure (b == 0x2E))
  if c then
    let i := i + 1
    let n := i
    let i ← digitsLoopC s (s.length + 1) i
    if i == n then pure false
    else isJSONNumberExpC s i
  else isJSONNumberExpC s i

/-- GUARD DELETION (functions.go:33 `i < len(s) &&`): `to_number('0')` — after the integer part `i = 1 = len(s)`, and
    `s[1]` panics without the length test. -/
example : isJSONNumberFracNoLtC [0x30] 1 = .panic idxMsg := rfl
example : isJSONNumberFracC [0x30] 1 = .ok true := rfl

/-- `toNumber` of a string through the checked `isJSONNumber` (functions.go:147): same answer as the model -/
def toNumberC (v : Val) : Res Val :=
  match v with
  | .num n => pure (.num n)
  | .str s => do
    let ok ← isJSONNumberC s
    if !ok then pure .null
    else match Dec.unmarshalJSON s with
      | some d => pure (.num (.dec d))
      | none => pure .null
  | _ => pure .null

/-- `to_number` never panics on a string: the checked mirror equals the model's `toNumber`. -/
theorem toNumberC_eq (v : Val) : toNumberC v = .ok (toNumber v) := by
  unfold toNumberC toNumber
  cases v <;> try rfl
  rename_i s
  simp only [isJSONNumberC_eq, Res.ok_bind]
  cases Json.isValidNumber s <;> simp <;> split <;> simp_all

example : toNumberC (.str [0x2D]) = .ok .null := rfl

/-! ## functions.go `reverse` -/

/-- functions.go:96-100 `for len(s) > 0 { r, sz := utf8.DecodeLastRuneInString(s); b.WriteRune(r); s = s[:len(s)-sz] }`.
    Site: `:99 s[:len(s)-sz]`.  `b` is the `strings.Builder`. -/
def reverseStrLoopC : Nat → Bytes → Bytes → Res Bytes
  | 0, _, _ => outOfFuel
  | fuel + 1, s, b =>
    if (s.length : Int) > 0 then
      let (r, sz) := decodeLastRune s
      do
        let s' ← sliceTo? s ((s.length : Int) - (sz : Int))
        reverseStrLoopC fuel s' (b ++ encodeRune r)
    else pure b

/-- functions.go:108-110 `for i, j := 0, l-1; i < l; i, j = i+1, j-1 { r[j] = a[i] }`.
    Sites: `:109 a[i]` (read), `:109 r[j] = …` (write). -/
def reverseArrLoopC (a : List Val) (l : Int) : Nat → Int → Int → List Val → Res (List Val)
  | 0, _, _, _ => outOfFuel
  | fuel + 1, i, j, r =>
    if i < l then do
      let x ← idx? a i
      let r' ← set? r j x
      reverseArrLoopC a l fuel (i + 1) (j - 1) r'
    else pure r

/-- functions.go:91 `reverse(v)`.
    Sites: string branch `:94 b.Grow(len(s))` (→ `grow?`; a length is never negative: `grow?_len`),
    `:99 s[:len(s)-sz]`; array branch `:107 make([]any, l)`, `:109 r[j] = a[i]`. -/
def reverseC (v : Val) : Res Val :=
  match v with
  | .str s => do
    grow? (s.length : Int)                                  -- var b strings.Builder; b.Grow(len(s))
    let b ← reverseStrLoopC (s.length + 1) s []
    pure (.str b)
  | .arr t a => do
    let l : Int := a.length
    let r ← make? l
    let r ← reverseArrLoopC a l (a.length + 1) 0 (l - 1) r
    pure (.arr t.derived r)
  | _ => errType

theorem reverseRunes_fuel : ∀ (f1 f2 : Nat) (s : Bytes), s.length ≤ f1 → s.length ≤ f2 →
    reverseRunes f1 s = reverseRunes f2 s
  | 0, f2, s, h1, _ => by
    have : s = [] := List.length_eq_zero_iff.mp (by omega)
    subst this; rw [Utf8.reverseRunes_nil, Utf8.reverseRunes_nil]
  | f1 + 1, 0, s, _, h2 => by
    have : s = [] := List.length_eq_zero_iff.mp (by omega)
    subst this; rw [Utf8.reverseRunes_nil, Utf8.reverseRunes_nil]
  | f1 + 1, f2 + 1, s, h1, h2 => by
    by_cases hne : s = []
    · subst hne; rfl
    · rw [Utf8.reverseRunes_succ _ _ hne, Utf8.reverseRunes_succ _ _ hne]
      have hp := C09.decodeLastRune_pos s hne
      have hl : 1 ≤ s.length := C09.length_pos_of_ne_nil hne
      rw [reverseRunes_fuel f1 f2 _ (by rw [List.length_take]; omega) (by rw [List.length_take]; omega)]

theorem reverseStrLoopC_eq : ∀ (fuel : Nat) (s b : Bytes), s.length < fuel →
    reverseStrLoopC fuel s b = .ok (b ++ reverseRunes s.length s)
  | 0, _, _, h => by omega
  | fuel + 1, s, b, h => by
    unfold reverseStrLoopC
    by_cases hne : s = []
    · subst hne; simp [Utf8.reverseRunes_nil]
    · have hl : 1 ≤ s.length := C09.length_pos_of_ne_nil hne
      have hpos : (s.length : Int) > 0 := by omega
      have h1 := C09.decodeLastRune_pos s hne
      have h2 := C09.decodeLastRune_le s
      simp only [hpos, if_true]
      rw [sliceTo?_ok s _ (by omega) (by omega)]
      simp only [Res.ok_bind]
      have e : ((s.length : Int) - ((decodeLastRune s).2 : Int)).toNat = s.length - (decodeLastRune s).2 := by omega
      rw [e, reverseStrLoopC_eq fuel _ _ (by rw [List.length_take]; omega)]
      have hl' : s.length = (s.length - 1) + 1 := by omega
      have : reverseRunes s.length s =
          encodeRune (decodeLastRune s).1 ++ reverseRunes (s.length - 1) (s.take (s.length - (decodeLastRune s).2)) := by
        conv => lhs; rw [hl']
        exact Utf8.reverseRunes_succ _ _ hne
      rw [this, List.append_assoc]
      congr 2
      congr 1
      apply reverseRunes_fuel
      · exact Nat.le_refl _
      · rw [List.length_take]; omega

theorem set_replicate_append (m : Nat) (x : Val) (ys : List Val) :
    (List.replicate (m + 1) Val.null ++ ys).set m x = List.replicate m Val.null ++ x :: ys := by
  rw [List.replicate_succ', List.append_assoc, List.set_append_right _ _ (by simp)]
  simp

theorem reverseArrLoopC_eq (a : List Val) : ∀ (fuel k : Nat), k ≤ a.length → a.length - k < fuel →
    reverseArrLoopC a (a.length : Int) fuel (k : Int) ((a.length : Int) - 1 - (k : Int))
      (List.replicate (a.length - k) .null ++ (a.take k).reverse) = .ok a.reverse
  | 0, _, _, h => by omega
  | fuel + 1, k, hk, hf => by
    unfold reverseArrLoopC
    by_cases hlt : k < a.length
    · have hpos : (k : Int) < (a.length : Int) := by omega
      simp only [hpos, if_true]
      rw [idx?_ok_nat a k hlt .null]
      simp only [Res.ok_bind]
      rw [set?_ok _ _ _ (by omega) (by simp; omega)]
      simp only [Res.ok_bind]
      have e1 : ((a.length : Int) - 1 - (k : Int)).toNat = a.length - (k + 1) := by omega
      have e2 : a.length - k = (a.length - (k + 1)) + 1 := by omega
      rw [e1, e2, set_replicate_append]
      have e3 : a.getD k .null :: (a.take k).reverse = (a.take (k + 1)).reverse := by
        rw [List.take_succ_eq_append_getElem hlt, List.reverse_append]
        simp [List.getD_eq_getElem?_getD, List.getElem?_eq_getElem hlt]
      rw [e3]
      have e4 : (a.length : Int) - 1 - (k : Int) - 1 = (a.length : Int) - 1 - ((k + 1 : Nat) : Int) := by omega
      have e5 : (k : Int) + 1 = ((k + 1 : Nat) : Int) := by omega
      rw [e4, e5]
      exact reverseArrLoopC_eq a fuel (k + 1) (by omega) (by omega)
    · have hk' : k = a.length := by omega
      have hpos : ¬ ((k : Int) < (a.length : Int)) := by omega
      simp only [hpos, if_false]
      subst hk'
      simp

/-- **reverse never slices or indexes out of range.**  For every value — any byte string, valid UTF-8 or not, any
    array — the checked mirror of functions.go `reverse` returns what the model's `reverse` returns.  The only
    hypothesis concerns `make([]any, l)` (functions.go:107): `l = len(a)` is the length of a slice that exists, hence
    within the allocation limit. -/
theorem reverseC_eq (v : Val) (hmake : ∀ t a, v = .arr t a → (a.length : Int) ≤ makeLimit) : reverseC v = reverse v := by
  unfold reverseC reverse
  cases v with
  | str s =>
    simp only [grow?_len, reverseStrLoopC_eq (s.length + 1) s [] (by omega), Res.ok_bind, List.nil_append]; rfl
  | arr t a =>
    simp only
    rw [make?_ok _ (by omega) (hmake t a rfl)]
    simp only [Res.ok_bind]
    have := reverseArrLoopC_eq a (a.length + 1) 0 (by omega) (by omega)
    simp only [List.take_zero, List.reverse_nil, List.append_nil, Nat.sub_zero] at this
    rw [show ((a.length : Int)).toNat = a.length by omega]
    rw [show ((a.length : Int) - 1) = (a.length : Int) - 1 - ((0 : Nat) : Int) by simp]
    rw [show (0 : Int) = ((0 : Nat) : Int) by rfl, this]
    rfl
  | _ => rfl

/-- strings need no hypothesis at all -/
theorem reverseC_str_eq (s : Bytes) : reverseC (.str s) = reverse (.str s) :=
  reverseC_eq _ (fun _ _ h => by cases h)

example : reverseC (.arr .plain [.bool true, .null, .str [0x61]]) = .ok (.arr .plain [.str [0x61], .null, .bool true]) := rfl
-- "a\xffé" (an invalid byte in the middle): 61 FF C3 A9  ↦  C3 A9 EF BF BD 61
example : reverseC (.str [0x61, 0xFF, 0xC3, 0xA9]) = .ok (.str [0xC3, 0xA9, 0xEF, 0xBF, 0xBD, 0x61]) := rfl

/-- WITHOUT the `make` hypothesis the mirror does panic: the only panic `reverse` can raise is the allocation of
    `make([]any, l)` for an impossible length -/
example (t : ATag) (a : List Val) (h : ¬ (a.length : Int) ≤ makeLimit) : reverseC (.arr t a) = .panic makeMsg := by
  unfold reverseC
  simp only
  unfold make?
  rw [if_neg (by omega)]
  rfl

/-! ## evaluator.go `case *parser.ZipNode` (value level: the arguments are already evaluated) -/

/-- `math.MaxInt` -/
def maxInt : Int := 2 ^ 63 - 1

/-- evaluator.go:1049-1068, the first loop, over the evaluated arguments `value` (`i` = loop index):
    `:1055 a, ok := value.([]any)` (checked form: `InvalidTypeError`), `:1063 if l := len(a); l < count { count = l }`,
    `:1067 values[i] = a` (write). -/
def zipLoop1C : List Val → Int → Int → List (List Val) → Res (Int × List (List Val))
  | [], _, count, values => pure (count, values)
  | value :: rest, i, count, values =>
    match value with
    | .arr _ a => do
      let count := if (a.length : Int) < count then (a.length : Int) else count
      let values ← set? values i a
      zipLoop1C rest (i + 1) count values
    | _ => errType

/-- evaluator.go:1073-1075 `for j, value := range values { result[j] = value[i] }`:
    `:1074 value[i]` (read), `:1074 result[j] = …` (write) -/
def zipInnerC (i : Int) : List (List Val) → Int → List Val → Res (List Val)
  | [], _, result => pure result
  | value :: rest, j, result => do
    let x ← idx? value i
    let result ← set? result j x
    zipInnerC i rest (j + 1) result

/-- evaluator.go:1071-1078 `for i := 0; i < count; i++ { result := make([]any, len(values)); …; results[i] = result }`:
    `:1072 make([]any, len(values))`, `:1077 results[i] = result` (write) -/
def zipOuterC (values : List (List Val)) (count : Int) : Nat → Int → List Val → Res (List Val)
  | 0, _, _ => outOfFuel
  | fuel + 1, i, results =>
    if i < count then do
      let result ← make? (values.length : Int)
      let result ← zipInnerC i values 0 result
      let results ← set? results i (.arr .plain result)
      zipOuterC values count fuel (i + 1) results
    else pure results

/-- is this argument a map-ordered array of ≥ 2 elements (the model answers `.nondet` then) -/
def isEnum2 : Val → Bool
  | .arr t xs => enum2 t xs
  | _ => false

/-- evaluator.go:1070-1080, what follows the first loop: `results := make([]any, count)`, the two nested loops,
    `return results, nil`; `en` is the model's marker "some argument is a map-ordered array of ≥ 2 elements" -/
def zipTailC (count : Int) (values : List (List Val)) (en : Bool) : Res Val := do
  let results ← make? count                                 -- results := make([]any, count)
  let results ← zipOuterC values count (count.toNat + 1) 0 results
  if en then .nondet                                        -- (model marker, after every checked operation)
  else pure (.arr .plain results)

/-- evaluator.go:1046-1080 `case *parser.ZipNode`, on the evaluated arguments `vs`.
    Sites: `:1048 make([][]any, len(node.Arguments))`, `:1067 values[i] = a`, `:1070 make([]any, count)`
    (`count` starts as `math.MaxInt`), `:1072 make([]any, len(values))`, `:1074 result[j] = value[i]`,
    `:1077 results[i] = result`.  The `.nondet` line is the model's marker (`zipArgs`), not a Go statement; it is
    consulted AFTER the checked allocation and loops (which depend on the lengths only, not on the element order). -/
def zipC (vs : List Val) : Res Val := do
  let count := maxInt
  let values ← makeOf? sliceHdrSize ([] : List Val) (vs.length : Int)
  let p ← zipLoop1C vs 0 count values
  zipTailC p.1 p.2 (vs.any isEnum2)

/-- what the model's `.zip` node does with the evaluated arguments (the tail of `ieval … (.zip args)`) -/
def zipM (vs : List Val) : Res Val := do
  let cols ← zipArgs vs
  match cols with
  | [] => pure (.arr .plain [])
  | c :: cs =>
    let count := cs.foldl (fun m x => min m x.length) c.length
    pure (.arr .plain (zipRows count cols))

/-- `zipM` is literally the tail of the model's zip case -/
theorem ieval_zip (root : Val) (args : List INode) (cur : Val) (env : Env) :
    ieval root (.zip args) cur env = (ievalZip root args cur env >>= zipM) := by
  rw [ieval]; rfl

def isArr : Val → Bool
  | .arr _ _ => true
  | _ => false

/-- the element lists of the array arguments -/
def colsOf : List Val → List (List Val)
  | [] => []
  | .arr _ a :: r => a :: colsOf r
  | _ :: r => colsOf r

theorem colsOf_length : ∀ vs : List Val, vs.all isArr = true → (colsOf vs).length = vs.length
  | [], _ => rfl
  | .arr _ a :: r, h => by
    simp only [List.all_cons, isArr, Bool.true_and] at h
    simp [colsOf, colsOf_length r h]
  | .null :: _, h | .bool _ :: _, h | .str _ :: _, h | .num _ :: _, h | .obj _ :: _, h | .foreign _ :: _, h => by
    simp [isArr] at h

theorem zipArgs_spec : ∀ vs : List Val, zipArgs vs =
    if vs.all isArr then (if vs.any isEnum2 then .nondet else .ok (colsOf vs)) else errType
  | [] => rfl
  | .arr t xs :: rest => by
    rw [zipArgs, zipArgs_spec rest]
    simp only [List.all_cons, isArr, Bool.true_and, List.any_cons, isEnum2, colsOf]
    by_cases h1 : rest.all isArr = true
    · simp only [h1, if_true]
      by_cases h2 : rest.any isEnum2 = true
      · simp only [h2, if_true, Bool.or_true]; rfl
      · simp only [h2, Bool.or_false]
        cases enum2 t xs <;> rfl
    · simp only [h1]; rfl
  | .null :: _ | .bool _ :: _ | .str _ :: _ | .num _ :: _ | .obj _ :: _ | .foreign _ :: _ => by
    simp [zipArgs, isArr]

/-- the running minimum of evaluator.go:1063 -/
def countFold (count : Int) : List (List Val) → Int
  | [] => count
  | a :: r => countFold (if (a.length : Int) < count then (a.length : Int) else count) r

theorem countFold_nat : ∀ (cols : List (List Val)) (m : Nat),
    countFold (m : Int) cols = ((cols.foldl (fun m x => min m x.length) m : Nat) : Int)
  | [], _ => rfl
  | a :: r, m => by
    simp only [countFold, List.foldl_cons]
    have : (if (a.length : Int) < (m : Int) then (a.length : Int) else (m : Int)) = ((min m a.length : Nat) : Int) := by
      split <;> omega
    rw [this, countFold_nat r]

theorem countFold_le : ∀ (cols : List (List Val)) (m : Int), countFold m cols ≤ m ∧ ∀ c ∈ cols, countFold m cols ≤ c.length
  | [], m => ⟨Int.le_refl _, fun _ h => by cases h⟩
  | a :: r, m => by
    simp only [countFold]
    have hm : (if (a.length : Int) < m then (a.length : Int) else m) ≤ m ∧
        (if (a.length : Int) < m then (a.length : Int) else m) ≤ (a.length : Int) := by split <;> omega
    generalize (if (a.length : Int) < m then (a.length : Int) else m) = m' at hm
    obtain ⟨h1, h2⟩ := countFold_le r m'
    refine ⟨by omega, ?_⟩
    intro c hc
    rcases List.mem_cons.mp hc with rfl | hc
    · omega
    · exact h2 c hc

theorem set_append_replicate {α} (pre : List α) (z a : α) (n : Nat) :
    (pre ++ List.replicate (n + 1) z).set pre.length a = (pre ++ [a]) ++ List.replicate n z := by
  rw [List.set_append_right _ _ (Nat.le_refl _), Nat.sub_self, List.replicate_succ]
  simp

theorem zipLoop1C_eq : ∀ (vs : List Val) (i : Nat) (count : Int) (pre : List (List Val)), pre.length = i →
    zipLoop1C vs (i : Int) count (pre ++ List.replicate vs.length []) =
      if vs.all isArr then .ok (countFold count (colsOf vs), pre ++ colsOf vs) else errType
  | [], i, count, pre, _ => by simp [zipLoop1C, countFold, colsOf]
  | .arr t a :: rest, i, count, pre, hp => by
    simp only [zipLoop1C, List.length_cons, List.all_cons, isArr, Bool.true_and, colsOf, countFold]
    rw [set?_ok _ _ _ (by omega) (by simp; omega)]
    simp only [Res.ok_bind]
    rw [show ((i : Int)).toNat = pre.length by omega, set_append_replicate]
    have := zipLoop1C_eq rest (i + 1) (if (a.length : Int) < count then (a.length : Int) else count) (pre ++ [a]) (by simp; omega)
    rw [show ((i : Int) + 1) = ((i + 1 : Nat) : Int) by omega, this]
    simp
  | .null :: _, _, _, _, _ | .bool _ :: _, _, _, _, _ | .str _ :: _, _, _, _, _ | .num _ :: _, _, _, _, _
  | .obj _ :: _, _, _, _, _ | .foreign _ :: _, _, _, _, _ => by
    simp [zipLoop1C, isArr]

theorem zipInnerC_eq (i : Nat) : ∀ (rest : List (List Val)) (j : Nat) (pre : List Val), pre.length = j →
    (∀ c ∈ rest, i < c.length) →
    zipInnerC (i : Int) rest (j : Int) (pre ++ List.replicate rest.length .null) = .ok (pre ++ rest.map (·.getD i .null))
  | [], _, pre, _, _ => by simp [zipInnerC]
  | value :: rest, j, pre, hp, hlen => by
    simp only [zipInnerC, List.length_cons]
    rw [idx?_ok_nat value i (hlen value (by simp)) .null]
    simp only [Res.ok_bind]
    rw [set?_ok _ _ _ (by omega) (by simp; omega)]
    simp only [Res.ok_bind]
    rw [show ((j : Int)).toNat = pre.length by omega, set_append_replicate]
    have := zipInnerC_eq i rest (j + 1) (pre ++ [value.getD i .null]) (by simp; omega)
      (fun c hc => hlen c (by simp [hc]))
    rw [show ((j : Int) + 1) = ((j + 1 : Nat) : Int) by omega, this]
    simp

/-- row `i` of the result -/
def zipRow (cols : List (List Val)) (i : Nat) : Val := .arr .plain (cols.map (·.getD i .null))

theorem zipRows_eq_range : ∀ (n : Nat) (cols : List (List Val)), zipRows n cols = (List.range n).map (zipRow cols)
  | 0, _ => rfl
  | n + 1, cols => by
    rw [zipRows, zipRows_eq_range n, List.range_succ_eq_map, List.map_cons, List.map_map]
    congr 1
    · simp only [zipRow]
      congr 1
      apply List.map_congr_left
      intro c _
      cases c <;> rfl
    · apply List.map_congr_left
      intro i _
      simp only [zipRow, Function.comp, List.map_map]
      congr 1
      apply List.map_congr_left
      intro c _
      cases c <;> simp

theorem zipOuterC_eq (cols : List (List Val)) (count : Nat) (hc : ∀ c ∈ cols, count ≤ c.length)
    (hmk : (cols.length : Int) ≤ makeLimit) : ∀ (fuel i : Nat), i ≤ count → count - i < fuel →
    zipOuterC cols (count : Int) fuel (i : Int) ((List.range i).map (zipRow cols) ++ List.replicate (count - i) .null)
      = .ok ((List.range count).map (zipRow cols))
  | 0, _, _, h => by omega
  | fuel + 1, i, hi, hf => by
    unfold zipOuterC
    by_cases hlt : i < count
    · have hpos : (i : Int) < (count : Int) := by omega
      simp only [hpos, if_true]
      rw [make?_ok _ (by omega) hmk]
      simp only [Res.ok_bind]
      have hin := zipInnerC_eq i cols 0 [] rfl (fun c h => by have := hc c h; omega)
      simp only [List.nil_append] at hin
      rw [show ((cols.length : Int)).toNat = cols.length by omega, show (0 : Int) = ((0 : Nat) : Int) by rfl, hin]
      simp only [Res.ok_bind]
      rw [set?_ok _ _ _ (by omega) (by simp; omega)]
      simp only [Res.ok_bind]
      have e2 : count - i = (count - (i + 1)) + 1 := by omega
      have e3 : ((i : Int)).toNat = ((List.range i).map (zipRow cols)).length := by simp
      rw [e2, e3, set_append_replicate]
      have e4 : (List.range i).map (zipRow cols) ++ [Val.arr .plain (cols.map (·.getD i .null))]
          = (List.range (i + 1)).map (zipRow cols) := by
        rw [List.range_succ, List.map_append]; rfl
      rw [e4, show ((i : Int) + 1) = ((i + 1 : Nat) : Int) by omega]
      exact zipOuterC_eq cols count hc hmk fuel (i + 1) (by omega) (by omega)
    · have hk' : i = count := by omega
      have hpos : ¬ ((i : Int) < (count : Int)) := by omega
      simp only [hpos, if_false]
      subst hk'
      simp

/-- **zip never indexes out of range and never allocates a negative / absurd length**, provided it has at least one
    argument.  `vs` are the evaluated arguments.  Hypotheses:
    * `hne : vs ≠ []` — with no argument `count` stays `math.MaxInt` and `make([]any, count)` (evaluator.go:1070)
      panics; the parser establishes it (parser.go:1348 `functionVarArg` rejects `zip()` at :1349; model: `parse_zip_nonempty`
      below);
    * `hargs`, `hlen` — `make` of the argument count / of the shortest argument length: lengths of things that exist.
    Conclusion: the checked mirror equals the model's zip (`zipM`, the tail of `ieval … (.zip args)`, see `ieval_zip`). -/
theorem zipC_eq (vs : List Val) (hne : vs ≠ []) (hargs : (vs.length : Int) ≤ makeLimitOf sliceHdrSize)
    (hlen : ∀ t a, Val.arr t a ∈ vs → (a.length : Int) ≤ makeLimit) : zipC vs = zipM vs := by
  unfold zipC zipM zipTailC
  rw [makeOf?_ok _ _ _ (by omega) hargs, zipArgs_spec]
  simp only [Res.ok_bind]
  have h1 := zipLoop1C_eq vs 0 maxInt [] rfl
  simp only [List.nil_append] at h1
  rw [show ((vs.length : Int)).toNat = vs.length by omega, show (0 : Int) = ((0 : Nat) : Int) by rfl, h1]
  by_cases hall : vs.all isArr = true
  · simp only [hall, if_true, Res.ok_bind]
    cases vs with
    | nil => exact absurd rfl hne
    | cons v rest =>
      cases v with
      | arr t c =>
        simp only [colsOf, countFold]
        have hcl : (c.length : Int) ≤ makeLimit := hlen t c (by simp)
        have hlt : (c.length : Int) < maxInt := by
          have : makeLimit < maxInt := by decide
          omega
        simp only [hlt, if_true]
        rw [countFold_nat]
        generalize hcount : (colsOf rest).foldl (fun m x => min m x.length) c.length = count
        have hle := countFold_le (colsOf rest) (c.length : Int)
        rw [countFold_nat, hcount] at hle
        rw [make?_ok _ (by omega) (by omega)]
        simp only [Res.ok_bind]
        have hcols : ((c :: colsOf rest).length : Int) ≤ makeLimit := by
          have := colsOf_length (Val.arr t c :: rest) hall
          simp only [colsOf] at this
          have h24 : makeLimitOf sliceHdrSize ≤ makeLimit := by decide
          rw [this]; omega
        have := zipOuterC_eq (c :: colsOf rest) count
          (fun x hx => by
            rcases List.mem_cons.mp hx with rfl | hx
            · omega
            · have := hle.2 x hx; omega) hcols (count + 1) 0 (by omega) (by omega)
        simp only [List.range_zero, List.map_nil, List.nil_append, Nat.sub_zero] at this
        rw [show ((count : Int)).toNat = count by omega, this]
        simp only [Res.ok_bind, zipRows_eq_range]
        by_cases hen : (Val.arr t c :: rest).any isEnum2 = true
        · simp only [hen, if_true]; rfl
        · simp only [hen, Bool.false_eq_true, if_false, Res.ok_bind, hcount]
      | _ => simp [isArr] at hall
  · simp only [hall]; rfl

example : zipC [.arr .plain [.bool true, .bool false, .null], .arr .plain [.str [0x61], .str [0x62]]] =
    .ok (.arr .plain [.arr .plain [.bool true, .str [0x61]], .arr .plain [.bool false, .str [0x62]]]) := rfl
example : zipC [.arr .plain [.null], .str []] = .err [Cat.invalidType] := rfl

/-- WITHOUT `vs ≠ []` the mirror panics: `zip()` would reach `make([]any, math.MaxInt)` (evaluator.go:1070). -/
example : zipC [] = .panic makeMsg := rfl

/-! ### the caller side of `vs ≠ []`: the parser never builds a `zip` node without arguments -/

/-- a `zip` node has at least one argument -/
def zipHead : INode → Bool
  | .zip args => !args.isEmpty
  | _ => true

theorem all_mono {p q : INode → Bool} (h : ∀ m, p m = true → q m = true) (n : INode) (hn : n.all p = true) :
    n.all q = true := by
  have e : p = fun m => p m && q m := by
    funext m
    cases hp : p m
    · rfl
    · rw [h m hp]; rfl
  rw [e, INode.all_and, Bool.and_eq_true] at hn
  exact hn.2

/-- **the model parser never builds a zip node with no arguments** (Go: parser.go `functionVarArg` rejects `zip()`
    with an arity error): every `zip` sub-node of a parsed expression has ≥ 1 argument.
    From the arity invariant `parse_arityOK` of `Jmes/Proofs/C08BArity.lean`. -/
theorem parse_zip_nonempty {expr : Bytes} {n : INode} (h : Parser.parse expr = .ok n) : n.all zipHead = true := by
  have := parse_arityOK h
  unfold INode.ArityOK at this
  refine all_mono ?_ n this
  intro m hm
  cases m <;> try rfl
  rename_i args
  cases args with
  | nil => simp [INode.arityHead] at hm
  | cons a r => rfl

-- `zip()` is a parse error
example : (match Parser.parse [0x7A, 0x69, 0x70, 0x28, 0x29] with
    | .error .invalidFunctionCall => true | _ => false) = true := by decide +kernel

/-- the evaluated argument list has as many elements as the node has arguments -/
theorem ievalZip_length (root : Val) : ∀ (args : List INode) (cur : Val) (env : Env) (vs : List Val),
    ievalZip root args cur env = .ok vs → vs.length = args.length
  | [], _, _, vs, h => by
    rw [ievalZip] at h; cases h; rfl
  | n :: ns, cur, env, vs, h => by
    rw [ievalZip] at h
    cases hv : ieval root n cur env with
    | ok v =>
      rw [hv] at h
      simp only [Res.ok_bind] at h
      cases v with
      | arr t xs =>
        simp only at h
        cases hr : ievalZip root ns cur env with
        | ok vs' =>
          rw [hr] at h
          simp only [Res.ok_bind, Res.pure_eq] at h
          cases h
          simp [ievalZip_length root ns cur env vs' hr]
        | _ => rw [hr] at h; cases h
      | _ => cases h
    | _ => rw [hv] at h; cases h

/-- **a zip node with ≥ 1 argument evaluates as its checked mirror**: whenever the arguments evaluate (to `vs`), the
    model's result for the node is the result of the checked zip on `vs` — no index / make panic. -/
theorem zip_node_checked (root : Val) (args : List INode) (cur : Val) (env : Env) (vs : List Val)
    (hne : zipHead (.zip args) = true) (hvs : ievalZip root args cur env = .ok vs)
    (hargs : (args.length : Int) ≤ makeLimitOf sliceHdrSize)
    (hlen : ∀ t a, Val.arr t a ∈ vs → (a.length : Int) ≤ makeLimit) :
    ieval root (.zip args) cur env = zipC vs := by
  have hl := ievalZip_length root args cur env vs hvs
  rw [ieval_zip, hvs, Res.ok_bind, zipC_eq vs ?_ (by omega) hlen]
  intro h
  subst h
  cases args with
  | nil => simp [zipHead] at hne
  | cons a r => simp at hl

/-! ### the zip case AS IN GO: the argument nodes are evaluated INSIDE the first loop

  `zipC` above runs on arguments that are already evaluated.  In Go the `make([][]any, len(node.Arguments))` comes
  first and `e.evaluate(arg, …)` is called inside the loop, between the writes `values[i] = a`: when argument `k`
  fails, `k` writes have already happened.  `zipNodeC` mirrors exactly that; `zipNodeC_eq` shows that it is the
  model's zip node in EVERY case (all arguments fine, argument `k` fails with an error, is not an array, …). -/

/-- evaluator.go:1049-1068, the first loop as in Go; `ev arg` stands for `e.evaluate(arg, current, variables)`.
    `:1050 value, err := e.evaluate(arg, …)`, `:1051 if err != nil { return nil, err }`, `:1055 a, ok := value.([]any)`
    (comma-ok: `InvalidTypeError`), `:1063 if l := len(a); l < count { count = l }`, `:1067 values[i] = a` (→ `set?`).
    `en` accumulates the model's marker "some argument is a map-ordered array of ≥ 2 elements". -/
def zipLoop1NC (ev : INode → Res Val) : List INode → Int → Int → List (List Val) → Bool →
    Res (Int × List (List Val) × Bool)
  | [], _, count, values, en => pure (count, values, en)
  | arg :: rest, i, count, values, en => do
    let value ← ev arg                                      -- value, err := e.evaluate(arg, …); if err != nil { return }
    match value with
    | .arr t a => do                                        -- a, ok := value.([]any)
      let count := if (a.length : Int) < count then (a.length : Int) else count
      let values ← set? values i a                          -- values[i] = a
      zipLoop1NC ev rest (i + 1) count values (en || enum2 t a)
    | _ => errType                                          -- if !ok { return nil, &InvalidTypeError{…} }

/-- evaluator.go:1046-1080 `case *parser.ZipNode` on the argument NODES: `:1047 count := math.MaxInt`,
    `:1048 make([][]any, len(node.Arguments))` (24-byte elements), the first loop with the evaluations inside,
    then `:1070 make([]any, count)` and the nested loops (`zipTailC`) -/
def zipNodeC (ev : INode → Res Val) (args : List INode) : Res Val := do
  let count := maxInt                                       -- count := math.MaxInt
  let values ← makeOf? sliceHdrSize ([] : List Val) (args.length : Int)   -- values := make([][]any, len(node.Arguments))
  let p ← zipLoop1NC ev args 0 count values false
  zipTailC p.1 p.2.1 p.2.2

/-- the model's `ievalZip` over an arbitrary evaluator: evaluate left to right, stop at the first failure or the first
    non-array -/
def ievalZipG (ev : INode → Res Val) : List INode → Res (List Val)
  | [] => .ok []
  | n :: ns => do
    let v ← ev n
    match v with
    | .arr _ _ => do
      let vs ← ievalZipG ev ns
      pure (v :: vs)
    | _ => errType

/-- `ievalZip` is `ievalZipG` of the model's evaluator -/
theorem ievalZip_G (root : Val) (cur : Val) (env : Env) : ∀ args : List INode,
    ievalZip root args cur env = ievalZipG (fun n => ieval root n cur env) args
  | [] => by rw [ievalZip]; rfl
  | n :: ns => by
    rw [ievalZip, ievalZipG]
    apply Res.bind_congr; intro v
    cases v <;> first | rfl | (simp only [ievalZip_G root cur env ns])

/-- what `ievalZipG` returns consists of arrays, one per argument -/
theorem ievalZipG_spec (ev : INode → Res Val) : ∀ (args : List INode) (vs : List Val), ievalZipG ev args = .ok vs →
    vs.all isArr = true ∧ vs.length = args.length
  | [], vs, h => by rw [ievalZipG] at h; cases h; exact ⟨rfl, rfl⟩
  | n :: ns, vs, h => by
    rw [ievalZipG] at h
    cases hv : ev n with
    | ok v =>
      rw [hv] at h
      simp only [Res.ok_bind] at h
      cases v with
      | arr t xs =>
        simp only at h
        cases hr : ievalZipG ev ns with
        | ok vs' =>
          rw [hr] at h
          simp only [Res.ok_bind, Res.pure_eq] at h
          cases h
          obtain ⟨h1, h2⟩ := ievalZipG_spec ev ns vs' hr
          exact ⟨by simp [isArr, h1], by simp [h2]⟩
        | _ => rw [hr] at h; cases h
      | _ => cases h
    | _ => rw [hv] at h; cases h

/-- **the first loop with the evaluations inside**: whatever the arguments do — all fine, the `k`-th one fails after `k`
    writes `values[i] = a`, the `k`-th one is not an array — the loop never writes out of range and ends as the model's
    `ievalZip` does: with the same failure, or with the running minimum, the filled `values` and the marker -/
theorem zipLoop1NC_eq (ev : INode → Res Val) : ∀ (args : List INode) (i : Nat) (count : Int) (pre : List (List Val))
    (en : Bool), pre.length = i →
    zipLoop1NC ev args (i : Int) count (pre ++ List.replicate args.length []) en =
      (ievalZipG ev args >>= fun vs =>
        .ok (countFold count (colsOf vs), pre ++ colsOf vs, en || vs.any isEnum2))
  | [], i, count, pre, en, _ => by simp [zipLoop1NC, ievalZipG, countFold, colsOf]
  | arg :: rest, i, count, pre, en, hp => by
    rw [zipLoop1NC, ievalZipG]
    cases hv : ev arg with
    | ok value =>
      simp only [Res.ok_bind]
      cases value with
      | arr t a =>
        simp only [List.length_cons]
        rw [set?_ok _ _ _ (by omega) (by simp; omega)]
        simp only [Res.ok_bind]
        rw [show ((i : Int)).toNat = pre.length by omega, set_append_replicate]
        have := zipLoop1NC_eq ev rest (i + 1) (if (a.length : Int) < count then (a.length : Int) else count)
          (pre ++ [a]) (en || enum2 t a) (by simp; omega)
        rw [show ((i : Int) + 1) = ((i + 1 : Nat) : Int) by omega, this]
        cases ievalZipG ev rest with
        | ok vs' => simp [colsOf, countFold, isEnum2, Bool.or_assoc]
        | _ => rfl
      | _ => rfl
    | _ => rfl

/-- on evaluated array arguments the value-level mirror is the common tail -/
theorem zipC_of_allArr (vs : List Val) (hall : vs.all isArr = true)
    (hargs : (vs.length : Int) ≤ makeLimitOf sliceHdrSize) :
    zipC vs = zipTailC (countFold maxInt (colsOf vs)) (colsOf vs) (vs.any isEnum2) := by
  unfold zipC
  rw [makeOf?_ok _ _ _ (by omega) hargs]
  simp only [Res.ok_bind]
  have h1 := zipLoop1C_eq vs 0 maxInt [] rfl
  simp only [List.nil_append] at h1
  rw [show ((vs.length : Int)).toNat = vs.length by omega, show (0 : Int) = ((0 : Nat) : Int) by rfl, h1]
  simp only [hall, if_true, Res.ok_bind]

/-- **a zip node evaluates as its Go-shaped checked mirror, in every case** — success, an argument that fails (error,
    or any other outcome) after some writes, an argument that is not an array: no `make`, no `values[i] = a`,
    no `result[j] = value[i]`, no `results[i] = result` panics.
    Hypotheses: the node has an argument (`ArrGo.parse_zip_nonempty`: the parser guarantees it), at most
    `maxAlloc / 24` of them, and the arrays the arguments evaluate to are within the `[]any` allocation limit. -/
theorem zipNodeC_eq (root : Val) (args : List INode) (cur : Val) (env : Env)
    (hne : zipHead (.zip args) = true) (hargs : (args.length : Int) ≤ makeLimitOf sliceHdrSize)
    (hlen : ∀ vs, ievalZip root args cur env = .ok vs → ∀ t a, Val.arr t a ∈ vs → (a.length : Int) ≤ makeLimit) :
    zipNodeC (fun n => ieval root n cur env) args = ieval root (.zip args) cur env := by
  unfold zipNodeC
  rw [makeOf?_ok _ _ _ (by omega) hargs]
  simp only [Res.ok_bind]
  have h1 := zipLoop1NC_eq (fun n => ieval root n cur env) args 0 maxInt [] false rfl
  simp only [List.nil_append, Bool.false_or] at h1
  rw [show ((args.length : Int)).toNat = args.length by omega, show (0 : Int) = ((0 : Nat) : Int) by rfl, h1,
    ieval_zip, ievalZip_G]
  cases hz : ievalZipG (fun n => ieval root n cur env) args with
  | ok vs =>
    simp only [Res.ok_bind]
    obtain ⟨hall, hl⟩ := ievalZipG_spec _ args vs hz
    rw [← zipC_of_allArr vs hall (by omega)]
    refine zipC_eq vs ?_ (by omega) (hlen vs (by rw [ievalZip_G]; exact hz))
    intro h
    subst h
    cases args with
    | nil => simp [zipHead] at hne
    | cons a r => simp at hl
  | _ => rfl

/-- `zip(@, 'x')` on `[1]`: the first argument is evaluated and written, the second is not an array —
    `InvalidTypeError` after one write, no panic -/
example : zipNodeC (fun n => ieval .null n (.arr .plain [.null]) []) [.current, .lit (.str [0x78])]
    = .err [Cat.invalidType] := rfl
/-- an argument that fails to evaluate (here: an undefined variable) after one write -/
example : zipNodeC (fun n => ieval .null n (.arr .plain [.null]) []) [.current, .variable [0x78]]
    = ieval .null (.zip [.current, .variable [0x78]]) (.arr .plain [.null]) [] :=
  zipNodeC_eq _ _ _ _ rfl (by decide) (by
    intro vs h; rw [ievalZip_G] at h; cases h)
example : zipNodeC (fun n => ieval .null n (.arr .plain [.null, .bool true]) []) [.current, .current]
    = .ok (.arr .plain [.arr .plain [.null, .null], .arr .plain [.bool true, .bool true]]) := rfl
/-- without an argument the Go code would reach `make([]any, math.MaxInt)` -/
example : zipNodeC (fun n => ieval .null n .null []) [] = .panic makeMsg := rfl

/-! ## array.go value-level functions -/

theorem filterMap_allDecimals : ∀ (xs : List Val) (ds : List Dec), allDecimals xs = some ds → xs.filterMap toDecimal = ds
  | [], ds, h => by simp [allDecimals] at h; simp [h]
  | x :: rest, ds, h => by
    rw [allDecimals] at h
    cases hd : toDecimal x with
    | none => rw [hd] at h; cases h
    | some d =>
      rw [hd] at h
      simp only at h
      cases hr : allDecimals rest with
      | none => rw [hr] at h; cases h
      | some ds' =>
        rw [hr] at h
        simp only [Option.map_some, Option.some.injEq] at h
        subst h
        simp [hd, filterMap_allDecimals rest ds' hr]

/-! ## array.go `arrayMax` -/

/-- array.go:435-447 `for _, i := range a[1:] { s, ok := i.(string); if !ok {…InvalidTypeError}; if s > max { max = s } }` -/
def maxStrLoopC : List Val → Bytes → Res Bytes
  | [], max => pure max
  | i :: rest, max =>
    match i with
    | .str s => maxStrLoopC rest (if bytesLt max s then s else max)
    | _ => errType

/-- array.go:460-472 `for _, i := range a[1:] { d, ok := toDecimal(i); if !ok {…}; if d.Cmp(max).Greater() { max = d } }` -/
def maxDecLoopC : List Val → Dec → Res Dec
  | [], max => pure max
  | i :: rest, max =>
    match toDecimal i with
    | some d => maxDecLoopC rest (if Dec.greater d max then d else max)
    | none => errType

/-- array.go:421 `arrayMax(v)`.
    Sites: `:430 if len(a) == 0 { return nil, nil }` (the flag `lenGuard` keeps it); `:434 a[0]`, `:435 a[1:]`,
    `:452 a[0]`, `:455 a[0]` (inside `reflect.TypeOf`), `:460 a[1:]`.
    The `.nondet` line is the model's marker for map-ordered input with a NaN, not a Go statement. -/
def arrayMaxC (v : Val) (lenGuard : Bool := true) : Res Val :=
  match v with
  | .arr t a =>
    if lenGuard && (a.length : Int) == 0 then pure .null
    else do
      let a0 ← idx? a 0
      match a0 with
      | .str max => do
        let tl ← sliceFrom? a 1
        let m ← maxStrLoopC tl max
        pure (.str m)
      | _ => do
        let a0 ← idx? a 0
        match toDecimal a0 with
        | none => do
          let _ ← idx? a 0
          errType
        | some max => do
          let tl ← sliceFrom? a 1
          let m ← maxDecLoopC tl max
          if enum2 t a && !decsOrderFree (a.filterMap toDecimal) then .nondet
          else pure (.num (.dec m))
  | _ => errType

theorem maxStrLoopC_eq : ∀ (rest : List Val) (m : Bytes), maxStrLoopC rest m =
    match allStrings rest with
    | some ss => .ok (maxStr m ss)
    | none => errType
  | [], _ => rfl
  | .str s :: rest, m => by
    rw [maxStrLoopC, maxStrLoopC_eq rest, allStrings]
    cases allStrings rest with
    | none => rfl
    | some ss => simp only [Option.map_some, maxStr]; split <;> rfl
  | .null :: _, _ | .bool _ :: _, _ | .num _ :: _, _ | .arr _ _ :: _, _ | .obj _ :: _, _ | .foreign _ :: _, _ => rfl

theorem maxDecLoopC_eq : ∀ (rest : List Val) (m : Dec), maxDecLoopC rest m =
    match allDecimals rest with
    | some ds => .ok (maxDec m ds)
    | none => errType
  | [], _ => rfl
  | x :: rest, m => by
    rw [maxDecLoopC, allDecimals]
    cases toDecimal x with
    | none => rfl
    | some d =>
      simp only
      rw [maxDecLoopC_eq rest]
      cases allDecimals rest with
      | none => rfl
      | some ds => simp only [Option.map_some, maxDec]; split <;> rfl

/-- **max never indexes out of range**: for every value the checked mirror of array.go `arrayMax` equals the model's
    `arrayMax` (the `len(a) == 0` guard suffices for `a[0]`, `a[1:]`). -/
theorem arrayMaxC_eq (v : Val) : arrayMaxC v = arrayMax v := by
  unfold arrayMaxC arrayMax
  cases v with
  | arr t a =>
    cases a with
    | nil => rfl
    | cons x rest =>
      have hidx : idx? (x :: rest) 0 = .ok x := (drop_cons_idx (s := x :: rest) (i := 0) rfl).2.1
      have hsl : sliceFrom? (x :: rest) 1 = .ok rest := sliceFrom?_ok_nat (x :: rest) 1 (by simp)
      have hg : (((x :: rest).length : Int) == 0) = false := by simp; omega
      cases x with
      | str s =>
        simp only [hg, Bool.and_false, Bool.false_eq_true, if_false, hidx, hsl, Res.ok_bind]
        simp only [maxStrLoopC_eq]
        cases allStrings rest <;> rfl
      | num n =>
        cases hd : toDecimal (.num n) with
        | none =>
          simp only [hg, Bool.and_false, Bool.false_eq_true, if_false, hidx, hsl, Res.ok_bind, hd, allDecimals]
        | some d =>
          simp only [hg, Bool.and_false, Bool.false_eq_true, if_false, hidx, hsl, Res.ok_bind, hd, allDecimals,
            maxDecLoopC_eq, List.filterMap_cons]
          cases hr : allDecimals rest with
          | none => rfl
          | some ds =>
            simp only [Option.map_some, Res.ok_bind, filterMap_allDecimals rest ds hr]
            rfl
      | _ =>
        simp only [hg, Bool.and_false, Bool.false_eq_true, if_false, hidx, hsl, Res.ok_bind]
        rfl
  | _ => rfl

example : arrayMaxC (.arr .plain [.str [0x61], .str [0x63], .str [0x62]]) = .ok (.str [0x63]) := rfl
example : arrayMaxC (.arr .plain []) = .ok .null := rfl
example : arrayMaxC (.arr .plain [.str [0x61], .null]) = .err [Cat.invalidType] := rfl

/-- GUARD DELETION (array.go:430 `if len(a) == 0 { return nil, nil }`): without it ``max(`[]`)`` reads `a[0]` of an empty
    slice at array.go:434 and panics. -/
example : arrayMaxC (.arr .plain []) (lenGuard := false) = .panic idxMsg := rfl

/-! ## array.go `arrayMin` -/

/-- array.go:491-503 `for _, i := range a[1:] { s, ok := i.(string); if !ok {…InvalidTypeError}; if s < min { min = s } }` -/
def minStrLoopC : List Val → Bytes → Res Bytes
  | [], max => pure max
  | i :: rest, max =>
    match i with
    | .str s => minStrLoopC rest (if bytesLt s max then s else max)
    | _ => errType

/-- array.go:516-528 `for _, i := range a[1:] { d, ok := toDecimal(i); if !ok {…}; if d.Cmp(min).Less() { min = d } }` -/
def minDecLoopC : List Val → Dec → Res Dec
  | [], max => pure max
  | i :: rest, max =>
    match toDecimal i with
    | some d => minDecLoopC rest (if Dec.less d max then d else max)
    | none => errType

/-- array.go:477 `arrayMin(v)`.
    Sites: `:486 if len(a) == 0 { return nil, nil }` (the flag `lenGuard` keeps it); `:490 a[0]`, `:491 a[1:]`,
    `:508 a[0]`, `:511 a[0]` (inside `reflect.TypeOf`), `:516 a[1:]`.
    The `.nondet` line is the model's marker for map-ordered input with a NaN, not a Go statement. -/
def arrayMinC (v : Val) (lenGuard : Bool := true) : Res Val :=
  match v with
  | .arr t a =>
    if lenGuard && (a.length : Int) == 0 then pure .null
    else do
      let a0 ← idx? a 0
      match a0 with
      | .str max => do
        let tl ← sliceFrom? a 1
        let m ← minStrLoopC tl max
        pure (.str m)
      | _ => do
        let a0 ← idx? a 0
        match toDecimal a0 with
        | none => do
          let _ ← idx? a 0
          errType
        | some max => do
          let tl ← sliceFrom? a 1
          let m ← minDecLoopC tl max
          if enum2 t a && !decsOrderFree (a.filterMap toDecimal) then .nondet
          else pure (.num (.dec m))
  | _ => errType

theorem minStrLoopC_eq : ∀ (rest : List Val) (m : Bytes), minStrLoopC rest m =
    match allStrings rest with
    | some ss => .ok (minStr m ss)
    | none => errType
  | [], _ => rfl
  | .str s :: rest, m => by
    rw [minStrLoopC, minStrLoopC_eq rest, allStrings]
    cases allStrings rest with
    | none => rfl
    | some ss => simp only [Option.map_some, minStr]; split <;> rfl
  | .null :: _, _ | .bool _ :: _, _ | .num _ :: _, _ | .arr _ _ :: _, _ | .obj _ :: _, _ | .foreign _ :: _, _ => rfl

theorem minDecLoopC_eq : ∀ (rest : List Val) (m : Dec), minDecLoopC rest m =
    match allDecimals rest with
    | some ds => .ok (minDec m ds)
    | none => errType
  | [], _ => rfl
  | x :: rest, m => by
    rw [minDecLoopC, allDecimals]
    cases toDecimal x with
    | none => rfl
    | some d =>
      simp only
      rw [minDecLoopC_eq rest]
      cases allDecimals rest with
      | none => rfl
      | some ds => simp only [Option.map_some, minDec]; split <;> rfl

/-- **min never indexes out of range**: for every value the checked mirror of array.go `arrayMin` equals the model's
    `arrayMin` (the `len(a) == 0` guard suffices for `a[0]`, `a[1:]`). -/
theorem arrayMinC_eq (v : Val) : arrayMinC v = arrayMin v := by
  unfold arrayMinC arrayMin
  cases v with
  | arr t a =>
    cases a with
    | nil => rfl
    | cons x rest =>
      have hidx : idx? (x :: rest) 0 = .ok x := (drop_cons_idx (s := x :: rest) (i := 0) rfl).2.1
      have hsl : sliceFrom? (x :: rest) 1 = .ok rest := sliceFrom?_ok_nat (x :: rest) 1 (by simp)
      have hg : (((x :: rest).length : Int) == 0) = false := by simp; omega
      cases x with
      | str s =>
        simp only [hg, Bool.and_false, Bool.false_eq_true, if_false, hidx, hsl, Res.ok_bind]
        simp only [minStrLoopC_eq]
        cases allStrings rest <;> rfl
      | num n =>
        cases hd : toDecimal (.num n) with
        | none =>
          simp only [hg, Bool.and_false, Bool.false_eq_true, if_false, hidx, hsl, Res.ok_bind, hd, allDecimals]
        | some d =>
          simp only [hg, Bool.and_false, Bool.false_eq_true, if_false, hidx, hsl, Res.ok_bind, hd, allDecimals,
            minDecLoopC_eq, List.filterMap_cons]
          cases hr : allDecimals rest with
          | none => rfl
          | some ds =>
            simp only [Option.map_some, Res.ok_bind, filterMap_allDecimals rest ds hr]
            rfl
      | _ =>
        simp only [hg, Bool.and_false, Bool.false_eq_true, if_false, hidx, hsl, Res.ok_bind]
        rfl
  | _ => rfl

example : arrayMinC (.arr .plain [.str [0x61], .str [0x63], .str [0x62]]) = .ok (.str [0x61]) := rfl
example : arrayMinC (.arr .plain []) = .ok .null := rfl
example : arrayMinC (.arr .plain [.str [0x61], .null]) = .err [Cat.invalidType] := rfl

/-- GUARD DELETION (array.go:486 `if len(a) == 0 { return nil, nil }`): without it ``min(`[]`)`` reads `a[0]` of an empty
    slice at array.go:490 and panics. -/
example : arrayMinC (.arr .plain []) (lenGuard := false) = .panic idxMsg := rfl

/-! ## array.go `sortArray` -/

/-- array.go:631-638 `for _, i := range a[1:] { if _, ok := i.(string); !ok { …InvalidTypeError } }` -/
def checkStrsC : List Val → Res Unit
  | [] => pure ()
  | .str _ :: rest => checkStrsC rest
  | _ :: _ => errType

/-- array.go:670-677 `for _, i := range a { if _, ok := toDecimal(i); !ok { …InvalidTypeError } }` -/
def checkDecsC : List Val → Res Unit
  | [] => pure ()
  | i :: rest => match toDecimal i with
    | some _ => checkDecsC rest
    | none => errType

/-- array.go:615 `sortArray(v)`.
    Sites: `:624 if len(a) == 0 { return v, nil }` (flag `lenGuard`); `:630 a[0]`, `:631 a[1:]`.
    `slices.Clone` / `slices.SortFunc` are library calls: their effect is the model's sort expression (the comparator's
    type assertions at `:643`, `:650`, `:682`, `:689` are of the checked two-value form and set `valid = false`);
    the `.nondet` line is the model's marker for value-equal but distinguishable numbers. -/
def sortArrayC (v : Val) (lenGuard : Bool := true) : Res Val :=
  match v with
  | .arr _ a =>
    if lenGuard && (a.length : Int) == 0 then pure v
    else do
      let a0 ← idx? a 0
      match a0 with
      | .str _ => do
        let tl ← sliceFrom? a 1
        checkStrsC tl
        match allStrings a with
        | some ss => pure (.arr .plain ((ss.mergeSort (fun a b => !bytesLt b a)).map Val.str))
        | none => errType
      | _ => do
        checkDecsC a
        match allDecimals a with
        | some ds =>
          let sorted := (a.zip ds).mergeSort (fun a b => Dec.compare a.2 b.2 ≤ 0)
          if hasAmbiguousTie sorted then .nondet else pure (.arr .plain (sorted.map Prod.fst))
        | none => errType
  | _ => errType

theorem checkStrsC_eq : ∀ rest : List Val, checkStrsC rest =
    match allStrings rest with
    | some _ => .ok ()
    | none => errType
  | [] => rfl
  | .str s :: rest => by
    rw [checkStrsC, checkStrsC_eq rest, allStrings]
    cases allStrings rest <;> rfl
  | .null :: _ | .bool _ :: _ | .num _ :: _ | .arr _ _ :: _ | .obj _ :: _ | .foreign _ :: _ => rfl

theorem checkDecsC_eq : ∀ rest : List Val, checkDecsC rest =
    match allDecimals rest with
    | some _ => .ok ()
    | none => errType
  | [] => rfl
  | x :: rest => by
    rw [checkDecsC, allDecimals]
    cases toDecimal x with
    | none => rfl
    | some d =>
      simp only
      rw [checkDecsC_eq rest]
      cases allDecimals rest <;> rfl

/-- **sort never indexes out of range**: the checked mirror of array.go `sortArray` equals the model's `sortArray`. -/
theorem sortArrayC_eq (v : Val) : sortArrayC v = sortArray v := by
  unfold sortArrayC sortArray
  cases v with
  | arr t a =>
    cases a with
    | nil => rfl
    | cons x rest =>
      have hidx : idx? (x :: rest) 0 = .ok x := (drop_cons_idx (s := x :: rest) (i := 0) rfl).2.1
      have hsl : sliceFrom? (x :: rest) 1 = .ok rest := sliceFrom?_ok_nat (x :: rest) 1 (by simp)
      have hg : (((x :: rest).length : Int) == 0) = false := by simp; omega
      cases x with
      | str s =>
        simp only [hg, Bool.and_false, Bool.false_eq_true, if_false, hidx, hsl, Res.ok_bind, checkStrsC_eq, allStrings]
        cases allStrings rest <;> rfl
      | _ =>
        simp only [hg, Bool.and_false, Bool.false_eq_true, if_false, hidx, hsl, Res.ok_bind, checkDecsC_eq]
        cases allDecimals (_ :: rest) <;> rfl
  | _ => rfl

example : sortArrayC (.arr .plain [.str [0x62], .str [0x61]]) = .ok (.arr .plain [.str [0x61], .str [0x62]]) := by
  simp [sortArrayC, idx?, sliceFrom?, slice?, checkStrsC, allStrings, List.mergeSort, bytesLt]
example : sortArrayC (.arr .nil []) = .ok (.arr .nil []) := rfl

/-- GUARD DELETION (array.go:624 `if len(a) == 0`): without it ``sort(`[]`)`` reads `a[0]` at array.go:630 and panics. -/
example : sortArrayC (.arr .plain []) (lenGuard := false) = .panic idxMsg := rfl

/-! ## array.go `index` -/

/-- array.go:564 `index(v, i)`.
    Sites: `:570 if i < 0 { i += len(a); if i < 0 { return nil } }`, `:575 else if i >= len(a) { return nil }` (the flag
    `hiGuard` keeps this one), `:579 a[i]`.  The `.nondet` line is the model's marker for a map-ordered array; it is
    consulted AFTER the checked read `a[i]` (in range or not depends on `len(a)` only). -/
def indexC (v : Val) (i : Int) (hiGuard : Bool := true) : Res Val :=
  match v with
  | .arr t a =>
    if i < 0 then
      let i := i + (a.length : Int)
      if i < 0 then pure .null
      else do let x ← idx? a i; if enum2 t a then .nondet else pure x
    else if hiGuard && i ≥ (a.length : Int) then pure .null
    else do let x ← idx? a i; if enum2 t a then .nondet else pure x
  | _ => pure .null

/-- **index never reads out of range**, for every value and every integer (64-bit or not): the checked mirror of
    array.go `index` equals the model's `index`. -/
theorem indexC_eq (v : Val) (i : Int) : indexC v i = index v i := by
  unfold indexC index
  cases v with
  | arr t a =>
    simp only
    by_cases h0 : i < 0
    · simp only [h0, if_true]
      by_cases h1 : i + (a.length : Int) < 0
      · simp [h1]
      · have h2 : ¬ (i + (a.length : Int) ≥ (a.length : Int)) := by omega
        simp only [h1, h2, if_false, or_self]
        rw [idx?_ok a _ (by omega) (by omega) .null, Res.ok_bind]
        rfl
    · simp only [h0, if_false, Bool.true_and, decide_eq_true_eq]
      by_cases h1 : i ≥ (a.length : Int)
      · simp [h1]
      · simp only [h1, if_false]
        rw [idx?_ok a _ (by omega) (by omega) .null, Res.ok_bind]
        rfl
  | _ => rfl

example : indexC (.arr .plain [.bool true, .bool false]) (-1) = .ok (.bool false) := rfl
example : indexC (.arr .plain [.bool true, .bool false]) 2 = .ok .null := rfl
example : indexC (.arr .plain [.bool true]) (-9223372036854775808) = .ok .null := rfl

/-- GUARD DELETION (array.go:575 `else if i >= len(a) { return nil }`): without it ``[1][5]`` reads `a[5]` at
    array.go:579 and panics. -/
example : indexC (.arr .plain [.bool true]) 5 (hiGuard := false) = .panic idxMsg := rfl
/-- … and so does `values(@)[5]` on a two-member object (a map-ordered array): the read is checked before the marker -/
example : indexC (.arr .enum [.bool true, .null]) 5 (hiGuard := false) = .panic idxMsg := rfl
example : indexC (.arr .enum [.bool true, .null]) 5 = .ok .null := rfl
example : indexC (.arr .enum [.bool true, .null]) 1 = .nondet := rfl

/-! ## array.go `pruneArray` -/

/-- array.go:590-606 `for i, va := range a { if n { if va != nil { r = append(r, va) }; continue };
    if va == nil { if i > 0 { r = append(r, a[:i]...) }; n = true } }`.  Site: `:601 a[:i]`. -/
def pruneLoopC (a : List Val) : List Val → Int → Bool → List Val → Res (Bool × List Val)
  | [], _, n, r => pure (n, r)
  | va :: rest, i, n, r =>
    if n then pruneLoopC a rest (i + 1) n (if !va.isNull then r ++ [va] else r)
    else if va.isNull then do
      let r ← (if i > 0 then do
          let p ← sliceTo? a i
          pure (r ++ p)
        else pure r)
      pruneLoopC a rest (i + 1) true r
    else pruneLoopC a rest (i + 1) n r

/-- array.go:582 `pruneArray(v)`.  Site: `:601 a[:i]` (inside the loop, `i` the range index). -/
def pruneArrayC (v : Val) : Res Val :=
  match v with
  | .arr t a => do
    let p ← pruneLoopC a a 0 false []
    if p.1 then pure (.arr t.derived p.2) else pure (.arr t a)
  | _ => pure .null

theorem pruneLoopC_true (a : List Val) : ∀ (rest : List Val) (i : Int) (r : List Val),
    pruneLoopC a rest i true r = .ok (true, r ++ rest.filter (fun x => !x.isNull))
  | [], _, r => by simp [pruneLoopC]
  | va :: rest, i, r => by
    rw [pruneLoopC]
    simp only [if_true]
    rw [pruneLoopC_true a rest]
    cases h : va.isNull <;> simp [h]

theorem pruneLoopC_false : ∀ (rest pre : List Val), pre.any Val.isNull = false →
    pruneLoopC (pre ++ rest) rest (pre.length : Int) false [] =
      .ok (if rest.any Val.isNull then (true, (pre ++ rest).filter (fun x => !x.isNull)) else (false, []))
  | [], pre, _ => by simp [pruneLoopC]
  | va :: rest, pre, hp => by
    rw [pruneLoopC]
    simp only [Bool.false_eq_true, if_false]
    have hfil : pre.filter (fun x => !x.isNull) = pre := by
      rw [List.filter_eq_self]
      intro x hx
      have := List.any_eq_false.mp hp x hx
      simp [this]
    cases h : va.isNull with
    | true =>
      simp only [if_true, List.any_cons, h, Bool.true_or]
      have hsl : sliceTo? (pre ++ va :: rest) (pre.length : Int) = .ok pre := by
        rw [sliceTo?_ok_nat _ _ (by simp)]; simp
      by_cases hi : (pre.length : Int) > 0
      · simp only [hi, if_true, hsl, Res.ok_bind, Res.pure_eq, List.nil_append]
        rw [pruneLoopC_true]
        simp [List.filter_append, h, hfil]
      · have : pre = [] := List.length_eq_zero_iff.mp (by omega)
        subst this
        simp only [hi, if_false, Res.ok_bind, Res.pure_eq]
        rw [pruneLoopC_true]
        simp [h]
    | false =>
      simp only [Bool.false_eq_true, if_false, List.any_cons, h, Bool.false_or]
      have := pruneLoopC_false rest (pre ++ [va]) (by simp [hp, h])
      simp only [List.append_assoc, List.singleton_append, List.length_append, List.length_singleton] at this
      rw [show ((pre.length : Int) + 1) = ((pre.length + 1 : Nat) : Int) by omega, this]

/-- **pruneArray never slices out of range** (`a[:i]` with `i` the range index): the checked mirror equals the model. -/
theorem pruneArrayC_eq (v : Val) : pruneArrayC v = .ok (pruneArray v) := by
  unfold pruneArrayC pruneArray
  cases v with
  | arr t a =>
    have := pruneLoopC_false a [] rfl
    simp only [List.nil_append, List.length_nil] at this
    simp only [show (0 : Int) = ((0 : Nat) : Int) from rfl, this, Res.ok_bind]
    cases a.any Val.isNull <;> rfl
  | _ => rfl

example : pruneArrayC (.arr .plain [.bool true, .null, .bool false, .null]) = .ok (.arr .plain [.bool true, .bool false]) := rfl
example : pruneArrayC (.arr .enum [.bool true]) = .ok (.arr .enum [.bool true]) := rfl

/-! ## array.go `flatten` -/

/-- `make([]any, n, c)`: panics unless `0 ≤ n ≤ c` and `c` is allocatable -/
def makeCap? (n c : Int) : Res (List Val) :=
  if 0 ≤ n ∧ n ≤ c ∧ c ≤ makeLimit then .ok (List.replicate n.toNat .null) else .panic makeMsg

/-- array.go:543-549 `for _, i := range va { if i == nil { continue }; r = append(r, i) }` -/
def flattenInnerC : List Val → List Val → List Val
  | [], r => r
  | i :: rest, r => if i.isNull then flattenInnerC rest r else flattenInnerC rest (r ++ [i])

/-- array.go:540-559 `for _, v := range a { va, ok := v.([]any); if ok { …; continue }; if v == nil { continue };
    r = append(r, v) }` -/
def flattenLoopC : List Val → List Val → List Val
  | [], r => r
  | v :: rest, r =>
    match v with
    | .arr _ va => flattenLoopC rest (flattenInnerC va r)
    | v => if v.isNull then flattenLoopC rest r else flattenLoopC rest (r ++ [v])

/-- array.go:533 `flatten(v)`.  Site: `:539 make([]any, 0, len(a))`; no indexing (only `range` and `append`). -/
def flattenC (v : Val) : Res Val :=
  match v with
  | .arr t a => do
    let r ← makeCap? 0 (a.length : Int)
    pure (.arr (flattenTag t a) (flattenLoopC a r))
  | _ => pure .null

theorem flattenInnerC_eq : ∀ (va r : List Val), flattenInnerC va r = r ++ va.filter (fun y => !y.isNull)
  | [], r => by simp [flattenInnerC]
  | i :: rest, r => by
    rw [flattenInnerC]
    cases h : i.isNull <;> simp [flattenInnerC_eq rest, h]

theorem flattenLoopC_eq : ∀ (a r : List Val), flattenLoopC a r = r ++ flattenElems a
  | [], r => by simp [flattenLoopC, flattenElems]
  | v :: rest, r => by
    cases v with
    | arr t va => simp [flattenLoopC, flattenElems, flattenLoopC_eq rest, flattenInnerC_eq]
    | null => simp [flattenLoopC, flattenElems, flattenLoopC_eq rest, Val.isNull]
    | _ => simp [flattenLoopC, flattenElems, flattenLoopC_eq rest, Val.isNull]

/-- **flatten** has no indexing site; its `make([]any, 0, len(a))` succeeds for every slice that exists
    (`hmake`: the capacity is the length of an existing slice). -/
theorem flattenC_eq (v : Val) (hmake : ∀ t a, v = .arr t a → (a.length : Int) ≤ makeLimit) :
    flattenC v = .ok (flatten v) := by
  unfold flattenC flatten
  cases v with
  | arr t a =>
    have : makeCap? 0 (a.length : Int) = .ok [] := by
      unfold makeCap?; rw [if_pos ⟨by omega, by omega, hmake t a rfl⟩]; rfl
    simp [this, flattenLoopC_eq]
  | _ => rfl

example : flattenC (.arr .plain [.arr .plain [.bool true, .null], .null, .bool false]) =
    .ok (.arr .plain [.bool true, .bool false]) := rfl

/-! ## string.go `join` -/

/-- string.go:488-499 `for _, i := range a[1:] { e, ok := i.(string); if !ok {…}; b.WriteString(s); b.WriteString(e) }` -/
def joinLoopC (s : Bytes) : List Val → Bytes → Res Bytes
  | [], b => pure b
  | i :: rest, b =>
    match i with
    | .str e => joinLoopC s rest (b ++ s ++ e)
    | _ => errType

/-- string.go:456 `join(sep, value)`.
    Sites: `:473 if len(a) == 0 { return "", nil }` (flag `lenGuard`); `:477 a[0]`, `:480 a[0]` (inside
    `reflect.TypeOf`), `:488 a[1:]`.  The `.nondet` line is the model's marker for a map-ordered array. -/
def joinC (sep value : Val) (lenGuard : Bool := true) : Res Val :=
  match value with
  | .arr t a =>
    match sep with
    | .str s =>
      if lenGuard && (a.length : Int) == 0 then pure (.str [])
      else do
        let a0 ← idx? a 0
        match a0 with
        | .str e => do
          let tl ← sliceFrom? a 1
          let b ← joinLoopC s tl e
          if enum2 t a then .nondet else pure (.str b)
        | _ => do
          let _ ← idx? a 0
          errType
    | _ => errType
  | _ => errType

/-- the separator-prefixed tail of a join -/
def tailJoin (s : Bytes) : List Bytes → Bytes
  | [] => []
  | e :: rest => s ++ e ++ tailJoin s rest

theorem joinStrs_cons (s e : Bytes) (ss : List Bytes) : joinStrs s (e :: ss) = e ++ tailJoin s ss := by
  induction ss generalizing e with
  | nil => simp [joinStrs, tailJoin]
  | cons e' ss ih =>
    show e ++ s ++ joinStrs s (e' :: ss) = _
    rw [ih, tailJoin]; simp

theorem joinLoopC_eq (s : Bytes) : ∀ (rest : List Val) (b : Bytes), joinLoopC s rest b =
    match allStrings rest with
    | some ss => .ok (b ++ tailJoin s ss)
    | none => errType
  | [], b => by simp [joinLoopC, allStrings, tailJoin]
  | .str e :: rest, b => by
    rw [joinLoopC, joinLoopC_eq s rest, allStrings]
    cases allStrings rest with
    | none => rfl
    | some ss => simp [tailJoin]
  | .null :: _, _ | .bool _ :: _, _ | .num _ :: _, _ | .arr _ _ :: _, _ | .obj _ :: _, _ | .foreign _ :: _, _ => rfl

/-- **join never indexes out of range**: the checked mirror of string.go `join` equals the model's `join`. -/
theorem joinC_eq (sep value : Val) : joinC sep value = join sep value := by
  unfold joinC join
  cases value with
  | arr t a =>
    cases sep with
    | str s =>
      cases a with
      | nil => simp [enum2, allStrings, joinStrs]
      | cons x rest =>
        have hidx : idx? (x :: rest) 0 = .ok x := (drop_cons_idx (s := x :: rest) (i := 0) rfl).2.1
        have hsl : sliceFrom? (x :: rest) 1 = .ok rest := sliceFrom?_ok_nat (x :: rest) 1 (by simp)
        have hg : (((x :: rest).length : Int) == 0) = false := by simp; omega
        cases x with
        | str e =>
          simp only [hg, Bool.and_false, Bool.false_eq_true, if_false, hidx, hsl, Res.ok_bind, joinLoopC_eq, allStrings]
          cases allStrings rest with
          | none => rfl
          | some ss => simp only [Option.map_some, Res.ok_bind, joinStrs_cons]; rfl
        | _ =>
          simp only [hg, Bool.and_false, Bool.false_eq_true, if_false, hidx, Res.ok_bind]
          rfl
    | _ => rfl
  | _ => rfl

example : joinC (.str [0x2C]) (.arr .plain [.str [0x61], .str [0x62]]) = .ok (.str [0x61, 0x2C, 0x62]) := rfl
example : joinC (.str [0x2C]) (.arr .plain []) = .ok (.str []) := rfl

/-- GUARD DELETION (string.go:473 `if len(a) == 0`): without it ``join(',', `[]`)`` reads `a[0]` at string.go:477 and
    panics. -/
example : joinC (.str [0x2C]) (.arr .plain []) (lenGuard := false) = .panic idxMsg := rfl

/-! ## object.go `fromItems` (the loop; bonus) -/

/-- object.go:89-112 `for _, i := range a { ia, ok := i.([]any); if !ok {…}; if len(ia) != 2 {…fromItemsLengthError};
    k, ok := ia[0].(string); if !ok {…reflect.TypeOf(ia[0])…}; r[k] = ia[1] }`.
    Sites: `:98 if len(ia) != 2` (the flag `lenGuard` keeps it); `:104 ia[0]`, `:107 ia[0]`, `:111 ia[1]`.
    The `.nondet` line is the model's marker (a map-ordered pair), consulted after the checked reads. -/
def fromItemsLoopC (lenGuard : Bool) : List Val → List (Bytes × Val) → Res (List (Bytes × Val))
  | [], r => pure r
  | i :: rest, r =>
    match i with
    | .arr t ia =>
      if lenGuard && (ia.length : Int) != 2 then errValue
      else do
        let k ← idx? ia 0
        match k with
        | .str s => do
          let v ← idx? ia 1
          if enum2 t ia then .nondet                        -- (model marker, after the checked reads)
          else fromItemsLoopC lenGuard rest (objInsert s v r)
        | _ => do
          let _ ← idx? ia 0
          if enum2 t ia then .nondet else errValue
    | _ => errType

/-- **from_items never indexes out of range**: the `len(ia) != 2` guard suffices for `ia[0]`, `ia[1]`; the checked loop
    equals the model's `fromItemsLoop`. -/
theorem fromItemsLoopC_eq : ∀ (xs : List Val) (r : List (Bytes × Val)), fromItemsLoopC true xs r = fromItemsLoop xs r
  | [], _ => rfl
  | .arr t ia :: rest, r => by
    rcases ia with _ | ⟨k, _ | ⟨v, _ | ⟨w, l⟩⟩⟩
    · rfl
    · rfl
    · rw [fromItemsLoopC]; simp only [fromItemsLoop]
      have h0 : idx? [k, v] 0 = .ok k := rfl
      have h1 : idx? [k, v] 1 = .ok v := rfl
      have hg : (((([k, v] : List Val).length : Int)) != 2) = false := rfl
      simp only [hg, Bool.and_false, Bool.false_eq_true, if_false, h0, h1, Res.ok_bind]
      cases enum2 t [k, v]
      · simp only [Bool.false_eq_true, if_false]
        cases k with
        | str s => simp only; exact fromItemsLoopC_eq rest _
        | _ => rfl
      · cases k <;> rfl
    · rw [fromItemsLoopC]; simp only [fromItemsLoop]
      have hg : ((((k :: v :: w :: l).length : Int)) != 2) = true := by simp; omega
      simp only [hg, Bool.and_true, if_true]
  | .null :: _, _ | .bool _ :: _, _ | .str _ :: _, _ | .num _ :: _, _ | .obj _ :: _, _ | .foreign _ :: _, _ => rfl

example : fromItemsLoopC true [.arr .plain [.str [0x61], .null]] [] = .ok [([0x61], .null)] := rfl
/-- GUARD DELETION (object.go:98 `if len(ia) != 2`): without it ``from_items(`[[]]`)`` reads `ia[0]` at object.go:104
    and panics; ``from_items(`[["a"]]`)`` reads `ia[1]` at object.go:111 and panics. -/
example : fromItemsLoopC false [.arr .plain []] [] = .panic idxMsg := rfl
example : fromItemsLoopC false [.arr .plain [.str [0x61]]] [] = .panic idxMsg := rfl

/-! ## higher-order functions: the sub-expression is `f : Val → Res Val` (`e.evaluate(node, ·, variables)`) -/

/-! ### array.go `mapArray` -/

/-- array.go:265-272 `for i, v := range a { p, err := e.evaluate(node, v, variables); if err != nil {…}; r[i] = p }`.
    Site: `:271 r[i] = p` (write). -/
def mapLoopC (f : Val → Res Val) : List Val → Int → List Val → Res (List Val)
  | [], _, r => pure r
  | v :: rest, i, r => do
    let p ← f v
    let r ← set? r i p
    mapLoopC f rest (i + 1) r

/-- array.go:255 `mapArray(value, node, variables)`.
    Sites: `:264 make([]any, len(a))`, `:271 r[i] = p`.  `widen` is kept around the loop as in the model. -/
def mapArrayC (f : Val → Res Val) (v : Val) : Res Val :=
  match v with
  | .arr t a => widen t a [f] [] do
    let r ← make? (a.length : Int)
    let r ← mapLoopC f a 0 r
    pure (.arr t.derived r)
  | _ => errType

theorem mapLoopC_eq (f : Val → Res Val) : ∀ (rest : List Val) (i : Nat) (pre : List Val), pre.length = i →
    mapLoopC f rest (i : Int) (pre ++ List.replicate rest.length .null) = (mapAll f rest >>= fun r => .ok (pre ++ r))
  | [], _, pre, _ => by simp [mapLoopC, mapAll]
  | v :: rest, i, pre, hp => by
    simp only [mapLoopC, mapAll, List.length_cons]
    cases hf : f v with
    | ok p =>
      simp only [Res.ok_bind]
      rw [set?_ok _ _ _ (by omega) (by simp; omega)]
      simp only [Res.ok_bind]
      rw [show ((i : Int)).toNat = pre.length by omega, set_append_replicate]
      have := mapLoopC_eq f rest (i + 1) (pre ++ [p]) (by simp; omega)
      rw [show ((i : Int) + 1) = ((i + 1 : Nat) : Int) by omega, this]
      cases mapAll f rest <;> simp
    | _ => rfl

/-- **map never writes out of range**: for every sub-expression `f` and every value, the checked mirror of array.go
    `mapArray` equals the model's `mapArray` (`hmake`: `make([]any, len(a))` of an existing slice's length). -/
theorem mapArrayC_eq (f : Val → Res Val) (v : Val) (hmake : ∀ t a, v = .arr t a → (a.length : Int) ≤ makeLimit) :
    mapArrayC f v = mapArray f v := by
  unfold mapArrayC mapArray
  cases v with
  | arr t a =>
    simp only
    congr 1
    rw [make?_ok _ (by omega) (hmake t a rfl)]
    simp only [Res.ok_bind]
    have := mapLoopC_eq f a 0 [] rfl
    simp only [List.nil_append] at this
    rw [show ((a.length : Int)).toNat = a.length by omega, show (0 : Int) = ((0 : Nat) : Int) from rfl, this]
    cases mapAll f a <;> rfl
  | _ => rfl

example : mapArrayC (fun x => .ok (.arr .plain [x])) (.arr .plain [.null, .bool true]) =
    .ok (.arr .plain [.arr .plain [.null], .arr .plain [.bool true]]) := rfl
example : mapArrayC (fun _ => errType) (.arr .plain [.null]) = .err [Cat.invalidType] := rfl

/-! ### object.go `groupBy` -/

/-- object.go:23-42 `for _, v := range a { rv, err := e.evaluate(node, v, variables); …; s, ok := rv.(string); if !ok {…};
    if _, ok := r[s]; !ok { r[s] = []any{v} } else { r[s] = append(r[s].([]any), v) } }`.
    Site: `:40 r[s].([]any)` (UNCHECKED single-value type assertion).  The Go map `r` is an association list of `Val`
    (read `objLookup`, write `objInsert`); `tg` is the model's tag of the group arrays. -/
def groupLoopC (f : Val → Res Val) (tg : ATag) : List Val → List (Bytes × Val) → Res (List (Bytes × Val))
  | [], r => pure r
  | v :: rest, r => do
    let rv ← f v
    match rv with
    | .str s =>
      match objLookup s r with
      | none => groupLoopC f tg rest (objInsert s (.arr tg [v]) r)
      | some g => do
        let p ← assertArr? g
        groupLoopC f tg rest (objInsert s (.arr tg (p.2 ++ [v])) r)
    | _ => errType

/-- object.go:9 `groupBy(value, node, variables)`.
    Sites: `:18 if len(a) == 0 { return nil, nil }`; `:40 r[s].([]any)`.  (`make(map[string]any, len(a))` is a size
    hint.)  `widen` is kept around the loop as in the model. -/
def groupByC (f : Val → Res Val) (v : Val) : Res Val :=
  match v with
  | .arr t a =>
    if (a.length : Int) == 0 then pure .null
    else widen t a [f] [Cat.invalidType] do
      let r ← groupLoopC f t.derived a []
      pure (.obj r)
  | _ => errType

/-- the mirror's map for the model's groups: every value is a `[]any` -/
def groupsVal (tg : ATag) (gs : List (Bytes × List Val)) : List (Bytes × Val) := gs.map (fun kg => (kg.1, Val.arr tg kg.2))

/-- one loop step on the map: the lookup, the (never failing) assertion and the write produce the model's `groupInsert` -/
theorem group_step (tg : ATag) (s : Bytes) (v : Val) : ∀ (gs : List (Bytes × List Val)), C20B.GSorted gs →
    (match objLookup s (groupsVal tg gs) with
     | none => Res.ok (objInsert s (.arr tg [v]) (groupsVal tg gs))
     | some g => assertArr? g >>= fun p => Res.ok (objInsert s (.arr tg (p.2 ++ [v])) (groupsVal tg gs)))
      = .ok (groupsVal tg (groupInsert s v gs))
  | [], _ => rfl
  | (k, g) :: rest, h => by
    unfold C20B.GSorted at h
    rw [List.pairwise_cons] at h
    simp only [groupsVal, List.map_cons, objLookup, groupInsert]
    by_cases h1 : s = k
    · subst h1
      simp [assertArr?, objInsert]
    · simp only [h1, if_false]
      by_cases h2 : bytesLt s k = true
      · -- `s` is below every key: not in the map
        have hnone : objLookup s (rest.map (fun kg => (kg.1, Val.arr tg kg.2))) = none := by
          have : ∀ (l : List (Bytes × List Val)), (∀ p ∈ l, bytesLt s p.1 = true) →
              objLookup s (l.map (fun kg => (kg.1, Val.arr tg kg.2))) = none := by
            intro l
            induction l with
            | nil => intro _; rfl
            | cons q l ih =>
              intro hl
              have hq := hl q (by simp)
              have : s ≠ q.1 := by intro e; rw [e, bytesLt_irrefl] at hq; cases hq
              simp only [List.map_cons, objLookup, this, if_false]
              exact ih (fun p hp => hl p (by simp [hp]))
          exact this rest (fun p hp => bytesLt_trans h2 (h.1 p hp))
        simp [hnone, objInsert, h1, h2]
      · have ih := group_step tg s v rest h.2
        simp only [groupsVal] at ih
        simp only [h2, if_false, Bool.false_eq_true]
        cases hl : objLookup s (rest.map (fun kg => (kg.1, Val.arr tg kg.2))) with
        | none =>
          rw [hl] at ih
          simp only [Res.ok.injEq] at ih
          simp [objInsert, h1, h2, ih]
        | some g' =>
          rw [hl] at ih
          simp only at ih ⊢
          cases hg : assertArr? g' with
          | ok p =>
            rw [hg] at ih
            simp only [Res.ok_bind, Res.ok.injEq] at ih
            simp [objInsert, h1, h2, ih]
          | _ => rw [hg] at ih; cases ih

theorem groupLoopC_eq (f : Val → Res Val) (tg : ATag) : ∀ (rest : List Val) (gs : List (Bytes × List Val)),
    C20B.GSorted gs →
    groupLoopC f tg rest (groupsVal tg gs) = (groupLoop f rest gs >>= fun gs' => .ok (groupsVal tg gs'))
  | [], gs, _ => rfl
  | v :: rest, gs, h => by
    rw [groupLoopC, groupLoop]
    cases hf : f v with
    | ok rv =>
      simp only [Res.ok_bind]
      cases rv with
      | str s =>
        simp only
        have hs := group_step tg s v gs h
        have ih := groupLoopC_eq f tg rest (groupInsert s v gs) (C20B.groupInsert_sorted s v h)
        cases hl : objLookup s (groupsVal tg gs) with
        | none =>
          rw [hl] at hs
          simp only [Res.ok.injEq] at hs
          simp only [hs, ih]
        | some g' =>
          rw [hl] at hs
          simp only at hs ⊢
          cases hg : assertArr? g' with
          | ok p =>
            rw [hg] at hs
            simp only [Res.ok_bind, Res.ok.injEq] at hs
            simp only [Res.ok_bind, hs, ih]
          | _ => rw [hg] at hs; cases hs
      | _ => rfl
    | _ => rfl

/-- **group_by's unchecked type assertion `r[s].([]any)` never fails** (the map only ever holds `[]any` values), for
    every sub-expression `f` and every value: the checked mirror of object.go `groupBy` equals the model's `groupBy`. -/
theorem groupByC_eq (f : Val → Res Val) (v : Val) : groupByC f v = groupBy f v := by
  unfold groupByC groupBy
  cases v with
  | arr t a =>
    cases a with
    | nil => rfl
    | cons x rest =>
      have hg : (((x :: rest).length : Int) == 0) = false := by simp; omega
      simp only [hg, Bool.false_eq_true, if_false, List.isEmpty_cons]
      congr 1
      have := groupLoopC_eq f t.derived (x :: rest) [] (by simp [C20B.GSorted])
      simp only [groupsVal, List.map_nil] at this
      rw [this]
      cases groupLoop f (x :: rest) [] <;> rfl
  | _ => rfl

example : groupByC (fun x => .ok x) (.arr .plain [.str [0x62], .str [0x61], .str [0x62]]) =
    .ok (.obj [([0x61], .arr .plain [.str [0x61]]), ([0x62], .arr .plain [.str [0x62], .str [0x62]])]) := rfl

/-- the assertion CAN fail on a map holding something else (non-vacuity of the check):
    a map entry that is not a `[]any` makes the mirror's step panic -/
example : (assertArr? (.str [0x61]) >>= fun p => Res.ok p.2) = .panic assertMsg := rfl

/-! ### array.go `arrayMaxBy` / `arrayMinBy` -/

/-- the value the Go variable `index` holds after scanning keys `ks` that sit at positions `p, p+1, …` of `a`
    (`index = i + 1` whenever the key at position `i + 1` is better than the best so far) -/
def pickIdx (better : Key → Key → Bool) : Nat → Key → Nat → List Key → Nat
  | idx, _, _, [] => idx
  | idx, bk, p, k :: rest =>
    if better k bk then pickIdx better p k (p + 1) rest else pickIdx better idx bk (p + 1) rest

theorem keysFrom_length (f : Val → Res Val) (b : Bool) : ∀ (rest : List Val) (ks : List Key),
    keysFrom f b rest = .ok ks → ks.length = rest.length
  | [], ks, h => by simp [keysFrom] at h; simp [← h]
  | x :: rest, ks, h => by
    rw [keysFrom] at h
    cases hf : f x with
    | ok rv =>
      rw [hf] at h
      simp only [Res.ok_bind] at h
      generalize hk : (if b = true then
          (match rv with | .str s => (.ok (Key.s s) : Res Key) | _ => errType)
        else (match toDecimal rv with | some d => .ok (Key.n d) | none => errType)) = rk at h
      cases rk with
      | ok k =>
        simp only [Res.ok_bind] at h
        cases hr : keysFrom f b rest with
        | ok ks' =>
          rw [hr] at h
          simp only [Res.ok_bind, Res.pure_eq, Res.ok.injEq] at h
          subst h
          simp [keysFrom_length f b rest ks' hr]
        | _ => rw [hr] at h; cases h
      | _ => cases h
    | _ => rw [hf] at h; cases h

/-- `a[index]` after the scan is in range and is the element the model's `pickBy` selects -/
theorem pickIdx_spec (better : Key → Key → Bool) (a : List Val) : ∀ (ks : List Key) (rest pre : List Val) (idx : Nat) (bk : Key),
    a = pre ++ rest → idx < pre.length → ks.length = rest.length →
    pickIdx better idx bk pre.length ks < a.length ∧
    a.getD (pickIdx better idx bk pre.length ks) .null = pickBy better (a.getD idx .null) bk (rest.zip ks)
  | [], rest, pre, idx, bk, ha, hi, hl => by
    have : rest = [] := List.length_eq_zero_iff.mp (by simpa using hl.symm)
    subst this
    simp only [pickIdx, List.zip_nil_right, pickBy, and_true]
    rw [ha]; simp; omega
  | k :: ks, [], pre, idx, bk, ha, hi, hl => by simp at hl
  | k :: ks, v :: rest, pre, idx, bk, ha, hi, hl => by
    simp only [pickIdx, List.zip_cons_cons, pickBy]
    have ha' : a = (pre ++ [v]) ++ rest := by rw [ha]; simp
    have hl' : ks.length = rest.length := by simpa using hl
    have hv : a.getD pre.length .null = v := by rw [ha]; simp
    by_cases hb : better k bk = true
    · simp only [hb, if_true]
      have := pickIdx_spec better a ks rest (pre ++ [v]) pre.length k ha' (by simp) hl'
      simp only [List.length_append, List.length_singleton] at this
      rw [hv] at this
      exact this
    · simp only [hb, if_false, Bool.false_eq_true]
      have := pickIdx_spec better a ks rest (pre ++ [v]) idx bk ha' (by simp; omega) hl'
      simp only [List.length_append, List.length_singleton] at this
      exact this

theorem keysOf_nonstr (f : Val → Res Val) (x0 first : Val) (rest : List Val) (hf : f x0 = .ok first)
    (hns : ∀ s, first ≠ .str s) :
    keysOf f (x0 :: rest) = match toDecimal first with
      | none => errType
      | some d => keysFrom f false rest >>= fun r => .ok (Key.n d :: r) := by
  rw [keysOf, hf]
  simp only [Res.ok_bind]
  cases first with
  | str s => exact absurd rfl (hns s)
  | _ => rfl

/-- the model's marker of `arrayPickBy` (ghost): is the extremal key unique? -/
def ghostUnique (better : Key → Key → Bool) (f : Val → Res Val) (a : List Val) : Bool :=
  match keysOf f a with
  | .ok ks => uniqueExtremum better ks
  | _ => true

/-- array.go:34-52 `for i, v := range a[1:] { rv, err := e.evaluate(node, v, variables); …; s, ok := rv.(string);
    if !ok {…}; if s > strMax { strMax = s; index = i + 1 } }` (returns `index`) -/
def maxByStrLoopC (f : Val → Res Val) : List Val → Int → Bytes → Int → Res Int
  | [], _, _, index => pure index
  | v :: rest, i, strMax, index => do
    let rv ← f v
    match rv with
    | .str s =>
      if bytesLt strMax s then maxByStrLoopC f rest (i + 1) s (i + 1)
      else maxByStrLoopC f rest (i + 1) strMax index
    | _ => errType

/-- array.go:65-83 `for i, v := range a[1:] { …; d, ok := toDecimal(rv); if !ok {…};
    if d.Cmp(numMax).Greater() { numMax = d; index = i + 1 } }` (returns `index`) -/
def maxByNumLoopC (f : Val → Res Val) : List Val → Int → Dec → Int → Res Int
  | [], _, _, index => pure index
  | v :: rest, i, numMax, index => do
    let rv ← f v
    match toDecimal rv with
    | some d =>
      if Dec.greater d numMax then maxByNumLoopC f rest (i + 1) d (i + 1)
      else maxByNumLoopC f rest (i + 1) numMax index
    | none => errType

/-- array.go:33-55, the string branch: `:34 a[1:]`, `:54 a[index]` -/
def maxByStrTailC (f : Val → Res Val) (t : ATag) (a : List Val) (strMax : Bytes) : Res Val := do
  let tl ← sliceFrom? a 1
  let index ← maxByStrLoopC f tl 0 strMax 0
  let x ← idx? a index                                      -- return a[index]  (checked before the marker)
  if enum2 t a && !ghostUnique Key.gtMax f a then .nondet else pure x

/-- array.go:57-85, the number branch: `:65 a[1:]`, `:85 a[index]` -/
def maxByNumTailC (f : Val → Res Val) (t : ATag) (a : List Val) (max : Val) : Res Val :=
  match toDecimal max with
  | none => errType
  | some numMax => do
    let tl ← sliceFrom? a 1
    let index ← maxByNumLoopC f tl 0 numMax 0
    let x ← idx? a index                                    -- return a[index]  (checked before the marker)
    if enum2 t a && !ghostUnique Key.gtMax f a then .nondet else pure x

/-- array.go:13 `arrayMaxBy(value, node, variables)`.
    Sites: `:22 if len(a) == 0 { return nil, nil }` (flag `lenGuard`); `:26 a[0]`; `:34 a[1:]`, `:54 a[index]`
    (string keys); `:65 a[1:]`, `:85 a[index]` (number keys), `index = i + 1` at `:50`/`:81`.
    `widen` is kept around the body as in the model; the `.nondet` line is the model's marker, consulted after the checked
    `a[index]` (in `maxBy*TailC`). -/
def arrayMaxByC (f : Val → Res Val) (v : Val) (lenGuard : Bool := true) : Res Val :=
  match v with
  | .arr t a =>
    if lenGuard && (a.length : Int) == 0 then pure .null
    else widen t a [f] [Cat.invalidType] do
      let a0 ← idx? a 0
      let max ← f a0
      match max with
      | .str strMax => maxByStrTailC f t a strMax
      | _ => maxByNumTailC f t a max
  | _ => errType

theorem maxByStrLoopC_eq (f : Val → Res Val) : ∀ (rest : List Val) (i : Nat) (m : Bytes) (idx : Nat),
    maxByStrLoopC f rest (i : Int) m (idx : Int) =
      (keysFrom f true rest >>= fun ks => .ok ((pickIdx Key.gtMax idx (Key.s m) (i + 1) ks : Nat) : Int))
  | [], _, _, _ => rfl
  | v :: rest, i, m, idx => by
    rw [maxByStrLoopC, keysFrom]
    cases hf : f v with
    | ok rv =>
      simp only [Res.ok_bind, if_true]
      cases rv with
      | str s =>
        simp only [Res.ok_bind]
        rw [show ((i : Int) + 1) = ((i + 1 : Nat) : Int) by omega]
        by_cases hb : bytesLt m s = true
        · simp only [hb, if_true]
          rw [maxByStrLoopC_eq f rest (i + 1) s (i + 1)]
          cases keysFrom f true rest <;> simp [pickIdx, Key.gtMax, hb]
        · simp only [hb, if_false, Bool.false_eq_true]
          rw [maxByStrLoopC_eq f rest (i + 1) m idx]
          cases keysFrom f true rest <;> simp [pickIdx, Key.gtMax, hb]
      | _ => rfl
    | _ => rfl

theorem maxByNumLoopC_eq (f : Val → Res Val) : ∀ (rest : List Val) (i : Nat) (m : Dec) (idx : Nat),
    maxByNumLoopC f rest (i : Int) m (idx : Int) =
      (keysFrom f false rest >>= fun ks => .ok ((pickIdx Key.gtMax idx (Key.n m) (i + 1) ks : Nat) : Int))
  | [], _, _, _ => rfl
  | v :: rest, i, m, idx => by
    rw [maxByNumLoopC, keysFrom]
    cases hf : f v with
    | ok rv =>
      simp only [Res.ok_bind, Bool.false_eq_true, if_false]
      cases hd : toDecimal rv with
      | some d =>
        simp only [Res.ok_bind]
        rw [show ((i : Int) + 1) = ((i + 1 : Nat) : Int) by omega]
        by_cases hb : Dec.greater d m = true
        · simp only [hb, if_true]
          rw [maxByNumLoopC_eq f rest (i + 1) d (i + 1)]
          cases keysFrom f false rest <;> simp [pickIdx, Key.gtMax, hb]
        · simp only [hb, if_false, Bool.false_eq_true]
          rw [maxByNumLoopC_eq f rest (i + 1) m idx]
          cases keysFrom f false rest <;> simp [pickIdx, Key.gtMax, hb]
      | none => rfl
    | _ => rfl

/-- what the model does after `keysOf` -/
def maxByPick (t : ATag) (x0 : Val) (rest : List Val) (ks : List Key) : Res Val :=
  match ks with
  | [] => .ok .null
  | k0 :: krest =>
    if enum2 t (x0 :: rest) && !uniqueExtremum Key.gtMax ks then .nondet
    else .ok (pickBy Key.gtMax x0 k0 (rest.zip krest))

theorem maxBy_finish (f : Val → Res Val) (t : ATag) (x0 : Val) (rest : List Val) (k0 : Key) (ks : List Key)
    (hks : keysOf f (x0 :: rest) = .ok (k0 :: ks)) (hl : ks.length = rest.length) :
    (idx? (x0 :: rest) ((pickIdx Key.gtMax 0 k0 (0 + 1) ks : Nat) : Int) >>= fun x =>
      if enum2 t (x0 :: rest) && !ghostUnique Key.gtMax f (x0 :: rest) then Res.nondet else pure x)
      = maxByPick t x0 rest (k0 :: ks) := by
  unfold maxByPick ghostUnique
  rw [hks]
  simp only
  have := pickIdx_spec Key.gtMax (x0 :: rest) ks rest [x0] 0 k0 rfl (by simp) hl
  simp only [List.length_singleton] at this
  rw [idx?_ok_nat _ _ this.1 .null, this.2, Res.ok_bind]
  rfl

theorem maxByStrTailC_eq (f : Val → Res Val) (t : ATag) (x0 : Val) (rest : List Val) (s : Bytes)
    (hf : f x0 = .ok (.str s)) :
    maxByStrTailC f t (x0 :: rest) s = (keysOf f (x0 :: rest) >>= maxByPick t x0 rest) := by
  unfold maxByStrTailC
  have hsl : sliceFrom? (x0 :: rest) 1 = .ok rest := sliceFrom?_ok_nat (x0 :: rest) 1 (by simp)
  have hk : keysOf f (x0 :: rest) = (keysFrom f true rest >>= fun r => .ok (Key.s s :: r)) := by
    rw [keysOf, hf]; rfl
  have := maxByStrLoopC_eq f rest 0 s 0
  rw [show (((0 : Nat) : Int)) = 0 from rfl] at this
  simp only [hsl, Res.ok_bind, this]
  cases hr : keysFrom f true rest with
  | ok ks =>
    have hks : keysOf f (x0 :: rest) = .ok (Key.s s :: ks) := by rw [hk, hr]; rfl
    simp only [Res.ok_bind, hks]
    exact maxBy_finish f t x0 rest _ ks hks (keysFrom_length f true rest ks hr)
  | _ => rw [hk, hr]; rfl

theorem maxByNumTailC_eq (f : Val → Res Val) (t : ATag) (x0 first : Val) (rest : List Val)
    (hf : f x0 = .ok first) (hns : ∀ s, first ≠ .str s) :
    maxByNumTailC f t (x0 :: rest) first = (keysOf f (x0 :: rest) >>= maxByPick t x0 rest) := by
  unfold maxByNumTailC
  have hsl : sliceFrom? (x0 :: rest) 1 = .ok rest := sliceFrom?_ok_nat (x0 :: rest) 1 (by simp)
  have hk := keysOf_nonstr f x0 first rest hf hns
  cases hd : toDecimal first with
  | none => rw [hk, hd]; rfl
  | some d =>
    rw [hd] at hk
    simp only at hk
    have := maxByNumLoopC_eq f rest 0 d 0
    rw [show (((0 : Nat) : Int)) = 0 from rfl] at this
    simp only [hsl, Res.ok_bind, this]
    cases hr : keysFrom f false rest with
    | ok ks =>
      have hks : keysOf f (x0 :: rest) = .ok (Key.n d :: ks) := by rw [hk, hr]; rfl
      simp only [Res.ok_bind, hks]
      exact maxBy_finish f t x0 rest _ ks hks (keysFrom_length f false rest ks hr)
    | _ => rw [hk, hr]; rfl

/-- **max_by never indexes out of range** (`a[0]`, `a[1:]`, `a[index]` with `index = i + 1`): for every sub-expression
    `f` and every value the checked mirror of array.go `arrayMaxBy` equals the model's `arrayMaxBy`. -/
theorem arrayMaxByC_eq (f : Val → Res Val) (v : Val) : arrayMaxByC f v = arrayMaxBy f v := by
  unfold arrayMaxByC arrayMaxBy arrayPickBy
  cases v with
  | arr t a =>
    cases a with
    | nil => rfl
    | cons x0 rest =>
      have hidx : idx? (x0 :: rest) 0 = .ok x0 := (drop_cons_idx (s := x0 :: rest) (i := 0) rfl).2.1
      have hg : (((x0 :: rest).length : Int) == 0) = false := by simp; omega
      simp only [hg, Bool.and_false, Bool.false_eq_true, if_false, hidx, Res.ok_bind]
      congr 1
      show _ = (keysOf f (x0 :: rest) >>= maxByPick t x0 rest)
      cases hf : f x0 with
      | ok first =>
        simp only [Res.ok_bind]
        cases first with
        | str s => exact maxByStrTailC_eq f t x0 rest s hf
        | _ => exact maxByNumTailC_eq f t x0 _ rest hf (fun s h => by cases h)
      | _ => rw [keysOf, hf]; rfl
  | _ => rfl

example : arrayMaxByC (fun x => .ok x) (.arr .plain [.str [0x61], .str [0x63], .str [0x62]]) = .ok (.str [0x63]) := rfl
example : arrayMaxByC (fun x => .ok x) (.arr .plain []) = .ok .null := rfl

/-- GUARD DELETION (array.go:22 `if len(a) == 0 { return nil, nil }`): without it ``max_by(`[]`, &@)`` reads `a[0]` at
    array.go:26 and panics. -/
example : arrayMaxByC (fun x => .ok x) (.arr .plain []) (lenGuard := false) = .panic idxMsg := rfl

/-- array.go:109-127 `for i, v := range a[1:] { rv, err := e.evaluate(node, v, variables); …; s, ok := rv.(string);
    if !ok {…}; if s < strMin { strMin = s; index = i + 1 } }` (returns `index`) -/
def minByStrLoopC (f : Val → Res Val) : List Val → Int → Bytes → Int → Res Int
  | [], _, _, index => pure index
  | v :: rest, i, strMin, index => do
    let rv ← f v
    match rv with
    | .str s =>
      if bytesLt s strMin then minByStrLoopC f rest (i + 1) s (i + 1)
      else minByStrLoopC f rest (i + 1) strMin index
    | _ => errType

/-- array.go:140-158 `for i, v := range a[1:] { …; d, ok := toDecimal(rv); if !ok {…};
    if d.Cmp(numMin).Less() { numMin = d; index = i + 1 } }` (returns `index`) -/
def minByNumLoopC (f : Val → Res Val) : List Val → Int → Dec → Int → Res Int
  | [], _, _, index => pure index
  | v :: rest, i, numMin, index => do
    let rv ← f v
    match toDecimal rv with
    | some d =>
      if Dec.less d numMin then minByNumLoopC f rest (i + 1) d (i + 1)
      else minByNumLoopC f rest (i + 1) numMin index
    | none => errType

/-- array.go:108-130, the string branch: `:109 a[1:]`, `:129 a[index]` -/
def minByStrTailC (f : Val → Res Val) (t : ATag) (a : List Val) (strMin : Bytes) : Res Val := do
  let tl ← sliceFrom? a 1
  let index ← minByStrLoopC f tl 0 strMin 0
  let x ← idx? a index                                      -- return a[index]  (checked before the marker)
  if enum2 t a && !ghostUnique Key.ltMin f a then .nondet else pure x

/-- array.go:132-160, the number branch: `:140 a[1:]`, `:160 a[index]` -/
def minByNumTailC (f : Val → Res Val) (t : ATag) (a : List Val) (min : Val) : Res Val :=
  match toDecimal min with
  | none => errType
  | some numMin => do
    let tl ← sliceFrom? a 1
    let index ← minByNumLoopC f tl 0 numMin 0
    let x ← idx? a index                                    -- return a[index]  (checked before the marker)
    if enum2 t a && !ghostUnique Key.ltMin f a then .nondet else pure x

/-- array.go:88 `arrayMinBy(value, node, variables)`.
    Sites: `:97 if len(a) == 0 { return nil, nil }` (flag `lenGuard`); `:101 a[0]`; `:109 a[1:]`, `:129 a[index]`
    (string keys); `:140 a[1:]`, `:160 a[index]` (number keys), `index = i + 1` at `:125`/`:156`.
    `widen` is kept around the body as in the model; the `.nondet` line is the model's marker, consulted after the checked
    `a[index]` (in `minBy*TailC`). -/
def arrayMinByC (f : Val → Res Val) (v : Val) (lenGuard : Bool := true) : Res Val :=
  match v with
  | .arr t a =>
    if lenGuard && (a.length : Int) == 0 then pure .null
    else widen t a [f] [Cat.invalidType] do
      let a0 ← idx? a 0
      let min ← f a0
      match min with
      | .str strMin => minByStrTailC f t a strMin
      | _ => minByNumTailC f t a min
  | _ => errType

theorem minByStrLoopC_eq (f : Val → Res Val) : ∀ (rest : List Val) (i : Nat) (m : Bytes) (idx : Nat),
    minByStrLoopC f rest (i : Int) m (idx : Int) =
      (keysFrom f true rest >>= fun ks => .ok ((pickIdx Key.ltMin idx (Key.s m) (i + 1) ks : Nat) : Int))
  | [], _, _, _ => rfl
  | v :: rest, i, m, idx => by
    rw [minByStrLoopC, keysFrom]
    cases hf : f v with
    | ok rv =>
      simp only [Res.ok_bind, if_true]
      cases rv with
      | str s =>
        simp only [Res.ok_bind]
        rw [show ((i : Int) + 1) = ((i + 1 : Nat) : Int) by omega]
        by_cases hb : bytesLt s m = true
        · simp only [hb, if_true]
          rw [minByStrLoopC_eq f rest (i + 1) s (i + 1)]
          cases keysFrom f true rest <;> simp [pickIdx, Key.ltMin, hb]
        · simp only [hb, if_false, Bool.false_eq_true]
          rw [minByStrLoopC_eq f rest (i + 1) m idx]
          cases keysFrom f true rest <;> simp [pickIdx, Key.ltMin, hb]
      | _ => rfl
    | _ => rfl

theorem minByNumLoopC_eq (f : Val → Res Val) : ∀ (rest : List Val) (i : Nat) (m : Dec) (idx : Nat),
    minByNumLoopC f rest (i : Int) m (idx : Int) =
      (keysFrom f false rest >>= fun ks => .ok ((pickIdx Key.ltMin idx (Key.n m) (i + 1) ks : Nat) : Int))
  | [], _, _, _ => rfl
  | v :: rest, i, m, idx => by
    rw [minByNumLoopC, keysFrom]
    cases hf : f v with
    | ok rv =>
      simp only [Res.ok_bind, Bool.false_eq_true, if_false]
      cases hd : toDecimal rv with
      | some d =>
        simp only [Res.ok_bind]
        rw [show ((i : Int) + 1) = ((i + 1 : Nat) : Int) by omega]
        by_cases hb : Dec.less d m = true
        · simp only [hb, if_true]
          rw [minByNumLoopC_eq f rest (i + 1) d (i + 1)]
          cases keysFrom f false rest <;> simp [pickIdx, Key.ltMin, hb]
        · simp only [hb, if_false, Bool.false_eq_true]
          rw [minByNumLoopC_eq f rest (i + 1) m idx]
          cases keysFrom f false rest <;> simp [pickIdx, Key.ltMin, hb]
      | none => rfl
    | _ => rfl

/-- what the model does after `keysOf` -/
def minByPick (t : ATag) (x0 : Val) (rest : List Val) (ks : List Key) : Res Val :=
  match ks with
  | [] => .ok .null
  | k0 :: krest =>
    if enum2 t (x0 :: rest) && !uniqueExtremum Key.ltMin ks then .nondet
    else .ok (pickBy Key.ltMin x0 k0 (rest.zip krest))

theorem minBy_finish (f : Val → Res Val) (t : ATag) (x0 : Val) (rest : List Val) (k0 : Key) (ks : List Key)
    (hks : keysOf f (x0 :: rest) = .ok (k0 :: ks)) (hl : ks.length = rest.length) :
    (idx? (x0 :: rest) ((pickIdx Key.ltMin 0 k0 (0 + 1) ks : Nat) : Int) >>= fun x =>
      if enum2 t (x0 :: rest) && !ghostUnique Key.ltMin f (x0 :: rest) then Res.nondet else pure x)
      = minByPick t x0 rest (k0 :: ks) := by
  unfold minByPick ghostUnique
  rw [hks]
  simp only
  have := pickIdx_spec Key.ltMin (x0 :: rest) ks rest [x0] 0 k0 rfl (by simp) hl
  simp only [List.length_singleton] at this
  rw [idx?_ok_nat _ _ this.1 .null, this.2, Res.ok_bind]
  rfl

theorem minByStrTailC_eq (f : Val → Res Val) (t : ATag) (x0 : Val) (rest : List Val) (s : Bytes)
    (hf : f x0 = .ok (.str s)) :
    minByStrTailC f t (x0 :: rest) s = (keysOf f (x0 :: rest) >>= minByPick t x0 rest) := by
  unfold minByStrTailC
  have hsl : sliceFrom? (x0 :: rest) 1 = .ok rest := sliceFrom?_ok_nat (x0 :: rest) 1 (by simp)
  have hk : keysOf f (x0 :: rest) = (keysFrom f true rest >>= fun r => .ok (Key.s s :: r)) := by
    rw [keysOf, hf]; rfl
  have := minByStrLoopC_eq f rest 0 s 0
  rw [show (((0 : Nat) : Int)) = 0 from rfl] at this
  simp only [hsl, Res.ok_bind, this]
  cases hr : keysFrom f true rest with
  | ok ks =>
    have hks : keysOf f (x0 :: rest) = .ok (Key.s s :: ks) := by rw [hk, hr]; rfl
    simp only [Res.ok_bind, hks]
    exact minBy_finish f t x0 rest _ ks hks (keysFrom_length f true rest ks hr)
  | _ => rw [hk, hr]; rfl

theorem minByNumTailC_eq (f : Val → Res Val) (t : ATag) (x0 first : Val) (rest : List Val)
    (hf : f x0 = .ok first) (hns : ∀ s, first ≠ .str s) :
    minByNumTailC f t (x0 :: rest) first = (keysOf f (x0 :: rest) >>= minByPick t x0 rest) := by
  unfold minByNumTailC
  have hsl : sliceFrom? (x0 :: rest) 1 = .ok rest := sliceFrom?_ok_nat (x0 :: rest) 1 (by simp)
  have hk := keysOf_nonstr f x0 first rest hf hns
  cases hd : toDecimal first with
  | none => rw [hk, hd]; rfl
  | some d =>
    rw [hd] at hk
    simp only at hk
    have := minByNumLoopC_eq f rest 0 d 0
    rw [show (((0 : Nat) : Int)) = 0 from rfl] at this
    simp only [hsl, Res.ok_bind, this]
    cases hr : keysFrom f false rest with
    | ok ks =>
      have hks : keysOf f (x0 :: rest) = .ok (Key.n d :: ks) := by rw [hk, hr]; rfl
      simp only [Res.ok_bind, hks]
      exact minBy_finish f t x0 rest _ ks hks (keysFrom_length f false rest ks hr)
    | _ => rw [hk, hr]; rfl

/-- **min_by never indexes out of range** (`a[0]`, `a[1:]`, `a[index]` with `index = i + 1`): for every sub-expression
    `f` and every value the checked mirror of array.go `arrayMinBy` equals the model's `arrayMinBy`. -/
theorem arrayMinByC_eq (f : Val → Res Val) (v : Val) : arrayMinByC f v = arrayMinBy f v := by
  unfold arrayMinByC arrayMinBy arrayPickBy
  cases v with
  | arr t a =>
    cases a with
    | nil => rfl
    | cons x0 rest =>
      have hidx : idx? (x0 :: rest) 0 = .ok x0 := (drop_cons_idx (s := x0 :: rest) (i := 0) rfl).2.1
      have hg : (((x0 :: rest).length : Int) == 0) = false := by simp; omega
      simp only [hg, Bool.and_false, Bool.false_eq_true, if_false, hidx, Res.ok_bind]
      congr 1
      show _ = (keysOf f (x0 :: rest) >>= minByPick t x0 rest)
      cases hf : f x0 with
      | ok first =>
        simp only [Res.ok_bind]
        cases first with
        | str s => exact minByStrTailC_eq f t x0 rest s hf
        | _ => exact minByNumTailC_eq f t x0 _ rest hf (fun s h => by cases h)
      | _ => rw [keysOf, hf]; rfl
  | _ => rfl

example : arrayMinByC (fun x => .ok x) (.arr .plain [.str [0x61], .str [0x63], .str [0x62]]) = .ok (.str [0x61]) := rfl
example : arrayMinByC (fun x => .ok x) (.arr .plain []) = .ok .null := rfl

/-- GUARD DELETION (array.go:97 `if len(a) == 0 { return nil, nil }`): without it ``min_by(`[]`, &@)`` reads `a[0]` at
    array.go:101 and panics. -/
example : arrayMinByC (fun x => .ok x) (.arr .plain []) (lenGuard := false) = .panic idxMsg := rfl

/-! ### array.go `sortArrayBy` -/

/-- array.go:358-373 `for i, v := range a[1:] { rv, err := e.evaluate(node, v, variables); …; s, ok := rv.(string);
    if !ok {…}; by[i+1] = s }`.  Site: `:372 by[i+1] = s` (write).
    The Go slices `by []string` / `by []decimal128.Decimal` are both rendered as `List Key` (the model's tagged union
    of the two element types): a `[]string` holds `Key.s` entries, a `[]Decimal` holds `Key.n` entries. -/
def sortByStrLoopC (f : Val → Res Val) : List Val → Int → List Key → Res (List Key)
  | [], _, by' => pure by'
  | v :: rest, i, by' => do
    let rv ← f v
    match rv with
    | .str s => do
      let by' ← set? by' (i + 1) (Key.s s)
      sortByStrLoopC f rest (i + 1) by'
    | _ => errType

/-- array.go:395-410 `for i, v := range a[1:] { …; d, ok := toDecimal(rv); if !ok {…}; by[i+1] = d }`.
    Site: `:409 by[i+1] = d` (write). -/
def sortByNumLoopC (f : Val → Res Val) : List Val → Int → List Key → Res (List Key)
  | [], _, by' => pure by'
  | v :: rest, i, by' => do
    let rv ← f v
    match toDecimal rv with
    | some d => do
      let by' ← set? by' (i + 1) (Key.n d)
      sortByNumLoopC f rest (i + 1) by'
    | none => errType

/-- array.go:354-382, the string branch: `:355 make([]string, len(a))`, `:356 by[0] = s`, `:358 a[1:]`, `:372 by[i+1] = s`;
    then `sort.Stable(sortByString{items: slices.Clone(a), by: by})` — library code whose callbacks `Less(i, j)`
    (`:328 s.by[i] < s.by[j]`) and `Swap(i, j)` (`:332`, `:333`) are called with `0 ≤ i, j < Len() = len(items)`; they are
    in range because `len(by) = len(items) = len(a)` (`keysOf_length` below).  Its result is the model's
    `sortByKeys`; the `.nondet` line is the model's marker. -/
def sortByStrTailC (f : Val → Res Val) (t : ATag) (a : List Val) (s : Bytes) : Res Val := do
  let by' ← makeOf? wordPairSize (Key.s []) (a.length : Int)      -- make([]string, len(a)): 16-byte elements
  let by' ← set? by' 0 (Key.s s)
  let tl ← sliceFrom? a 1
  let by' ← sortByStrLoopC f tl 0 by'
  if enum2 t a && !keysDistinct by' then .nondet else pure (.arr .plain (sortByKeys a by'))

/-- array.go:384-418, the number branch: `:392 make([]decimal128.Decimal, len(a))`, `:393 by[0] = d`, `:395 a[1:]`,
    `:409 by[i+1] = d`; `sort.Stable(sortByNumber{…})` with `:310 s.by[i]`, `s.by[j]`, `:314`, `:315` as above. -/
def sortByNumTailC (f : Val → Res Val) (t : ATag) (a : List Val) (first : Val) : Res Val :=
  match toDecimal first with
  | none => errType
  | some d => do
    let by' ← makeOf? wordPairSize (Key.n (Dec.zero)) (a.length : Int)   -- make([]decimal128.Decimal, len(a)): 16 bytes
    let by' ← set? by' 0 (Key.n d)
    let tl ← sliceFrom? a 1
    let by' ← sortByNumLoopC f tl 0 by'
    if enum2 t a && !keysDistinct by' then .nondet else pure (.arr .plain (sortByKeys a by'))

/-- array.go:336 `sortArrayBy(value, node, variables)`.
    Sites: `:345 if len(a) == 0 { return value, nil }` (flag `lenGuard`); `:349 a[0]`; string keys `:355 make`,
    `:356 by[0] = s`, `:358 a[1:]`, `:372 by[i+1] = s`; number keys `:392 make`, `:393 by[0] = d`, `:395 a[1:]`,
    `:409 by[i+1] = d`.  `widen` is kept around the body as in the model. -/
def sortArrayByC (f : Val → Res Val) (v : Val) (lenGuard : Bool := true) : Res Val :=
  match v with
  | .arr t a =>
    if lenGuard && (a.length : Int) == 0 then pure v
    else widen t a [f] [Cat.invalidType] do
      let a0 ← idx? a 0
      let first ← f a0
      match first with
      | .str s => sortByStrTailC f t a s
      | _ => sortByNumTailC f t a first
  | _ => errType

theorem sortByStrLoopC_eq (f : Val → Res Val) (z : Key) : ∀ (rest : List Val) (i : Nat) (pre : List Key),
    pre.length = i + 1 →
    sortByStrLoopC f rest (i : Int) (pre ++ List.replicate rest.length z) =
      (keysFrom f true rest >>= fun ks => .ok (pre ++ ks))
  | [], _, pre, _ => by simp [sortByStrLoopC, keysFrom]
  | v :: rest, i, pre, hp => by
    rw [sortByStrLoopC, keysFrom]
    cases hf : f v with
    | ok rv =>
      simp only [Res.ok_bind, if_true]
      cases rv with
      | str s =>
        simp only [Res.ok_bind, List.length_cons]
        rw [set?_ok _ _ _ (by omega) (by simp; omega)]
        simp only [Res.ok_bind]
        rw [show ((i : Int) + 1).toNat = pre.length by omega, set_append_replicate]
        have := sortByStrLoopC_eq f z rest (i + 1) (pre ++ [Key.s s]) (by simp; omega)
        rw [show ((i : Int) + 1) = ((i + 1 : Nat) : Int) by omega, this]
        cases keysFrom f true rest <;> simp
      | _ => rfl
    | _ => rfl

theorem sortByNumLoopC_eq (f : Val → Res Val) (z : Key) : ∀ (rest : List Val) (i : Nat) (pre : List Key),
    pre.length = i + 1 →
    sortByNumLoopC f rest (i : Int) (pre ++ List.replicate rest.length z) =
      (keysFrom f false rest >>= fun ks => .ok (pre ++ ks))
  | [], _, pre, _ => by simp [sortByNumLoopC, keysFrom]
  | v :: rest, i, pre, hp => by
    rw [sortByNumLoopC, keysFrom]
    cases hf : f v with
    | ok rv =>
      simp only [Res.ok_bind, Bool.false_eq_true, if_false]
      cases hd : toDecimal rv with
      | some d =>
        simp only [Res.ok_bind, List.length_cons]
        rw [set?_ok _ _ _ (by omega) (by simp; omega)]
        simp only [Res.ok_bind]
        rw [show ((i : Int) + 1).toNat = pre.length by omega, set_append_replicate]
        have := sortByNumLoopC_eq f z rest (i + 1) (pre ++ [Key.n d]) (by simp; omega)
        rw [show ((i : Int) + 1) = ((i + 1 : Nat) : Int) by omega, this]
        cases keysFrom f false rest <;> simp
      | none => rfl
    | _ => rfl

/-- what the model does after `keysOf` -/
def sortByFinish (t : ATag) (a : List Val) (ks : List Key) : Res Val :=
  if enum2 t a && !keysDistinct ks then .nondet else .ok (.arr .plain (sortByKeys a ks))

/-- `make` + `by[0] = k` -/
theorem sortBy_init (z k : Key) (n : Nat) (hmake : ((n + 1 : Nat) : Int) ≤ makeLimit) :
    (makeOf? wordPairSize z ((n + 1 : Nat) : Int) >>= fun by' => set? by' 0 k) = .ok ([k] ++ List.replicate n z) := by
  rw [makeOf?_ok _ _ _ (by omega) (by rw [wordPairSize, ← makeLimit_eq]; exact hmake)]
  simp only [Res.ok_bind]
  rw [set?_ok _ _ _ (by omega) (by simp)]
  rw [show (((n + 1 : Nat) : Int)).toNat = n + 1 by omega]
  have := set_append_replicate ([] : List Key) z k n
  simp only [List.nil_append, List.length_nil] at this
  rw [show ((0 : Int)).toNat = 0 from rfl, this]

theorem sortByStrTailC_eq (f : Val → Res Val) (t : ATag) (x0 : Val) (rest : List Val) (s : Bytes)
    (hf : f x0 = .ok (.str s)) (hmake : (((x0 :: rest).length : Nat) : Int) ≤ makeLimit) :
    sortByStrTailC f t (x0 :: rest) s = (keysOf f (x0 :: rest) >>= sortByFinish t (x0 :: rest)) := by
  unfold sortByStrTailC
  have hsl : sliceFrom? (x0 :: rest) 1 = .ok rest := sliceFrom?_ok_nat (x0 :: rest) 1 (by simp)
  have hk : keysOf f (x0 :: rest) = (keysFrom f true rest >>= fun r => .ok (Key.s s :: r)) := by
    rw [keysOf, hf]; rfl
  have hinit := sortBy_init (Key.s []) (Key.s s) rest.length (by simpa using hmake)
  have hloop := sortByStrLoopC_eq f (Key.s []) rest 0 [Key.s s] rfl
  rw [show (((0 : Nat) : Int)) = 0 from rfl] at hloop
  rw [List.length_cons, ← Res.bind_assoc, hinit]
  simp only [Res.ok_bind, hsl, hloop, hk]
  cases keysFrom f true rest <;> rfl

theorem sortByNumTailC_eq (f : Val → Res Val) (t : ATag) (x0 first : Val) (rest : List Val)
    (hf : f x0 = .ok first) (hns : ∀ s, first ≠ .str s) (hmake : (((x0 :: rest).length : Nat) : Int) ≤ makeLimit) :
    sortByNumTailC f t (x0 :: rest) first = (keysOf f (x0 :: rest) >>= sortByFinish t (x0 :: rest)) := by
  unfold sortByNumTailC
  have hsl : sliceFrom? (x0 :: rest) 1 = .ok rest := sliceFrom?_ok_nat (x0 :: rest) 1 (by simp)
  have hk := keysOf_nonstr f x0 first rest hf hns
  cases hd : toDecimal first with
  | none => rw [hk, hd]; rfl
  | some d =>
    rw [hd] at hk
    simp only at hk
    have hinit := sortBy_init (Key.n Dec.zero) (Key.n d) rest.length (by simpa using hmake)
    have hloop := sortByNumLoopC_eq f (Key.n Dec.zero) rest 0 [Key.n d] rfl
    rw [show (((0 : Nat) : Int)) = 0 from rfl] at hloop
    simp only
    rw [List.length_cons, ← Res.bind_assoc, hinit]
    simp only [Res.ok_bind, hsl, hloop, hk]
    cases keysFrom f false rest <;> rfl

/-- **sort_by never indexes or writes out of range** (`a[0]`, `a[1:]`, `by[0]`, `by[i+1]`): for every sub-expression `f`
    and every value the checked mirror of array.go `sortArrayBy` equals the model's `sortArrayBy`
    (`hmake`: `make([]T, len(a))` of an existing slice's length). -/
theorem sortArrayByC_eq (f : Val → Res Val) (v : Val) (hmake : ∀ t a, v = .arr t a → (a.length : Int) ≤ makeLimit) :
    sortArrayByC f v = sortArrayBy f v := by
  unfold sortArrayByC sortArrayBy
  cases v with
  | arr t a =>
    cases a with
    | nil => rfl
    | cons x0 rest =>
      have hidx : idx? (x0 :: rest) 0 = .ok x0 := (drop_cons_idx (s := x0 :: rest) (i := 0) rfl).2.1
      have hg : (((x0 :: rest).length : Int) == 0) = false := by simp; omega
      have hm := hmake t (x0 :: rest) rfl
      simp only [hg, Bool.and_false, Bool.false_eq_true, if_false, hidx, Res.ok_bind, List.isEmpty_cons]
      congr 1
      show _ = (keysOf f (x0 :: rest) >>= sortByFinish t (x0 :: rest))
      cases hf : f x0 with
      | ok first =>
        simp only [Res.ok_bind]
        cases first with
        | str s => exact sortByStrTailC_eq f t x0 rest s hf hm
        | _ => exact sortByNumTailC_eq f t x0 _ rest hf (fun s h => by cases h) hm
      | _ => rw [keysOf, hf]; rfl
  | _ => rfl

/-- the `by` slice has the length of `items` (so the indices `sort.Stable` hands to `Less`/`Swap` are in range) -/
theorem keysOf_length (f : Val → Res Val) (a : List Val) (ks : List Key) (h : keysOf f a = .ok ks) :
    ks.length = a.length := by
  cases a with
  | nil => simp [keysOf] at h; simp [← h]
  | cons x0 rest =>
    rw [keysOf] at h
    cases hf : f x0 with
    | ok first =>
      rw [hf] at h
      simp only [Res.ok_bind] at h
      have key : ∀ (b : Bool) (k : Key), (keysFrom f b rest >>= fun r => Res.ok (k :: r)) = .ok ks → ks.length = (x0 :: rest).length := by
        intro b k hh
        cases hr : keysFrom f b rest with
        | ok r =>
          rw [hr] at hh
          simp only [Res.ok_bind, Res.ok.injEq] at hh
          subst hh
          simp [keysFrom_length f b rest r hr]
        | _ => rw [hr] at hh; cases hh
      cases first with
      | str s => exact key true _ h
      | _ =>
        simp only at h
        split at h
        · cases h
        · exact key false _ h
    | _ => rw [hf] at h; cases h

example : sortArrayByC (fun x => .ok x) (.arr .plain [.str [0x62], .str [0x61]]) =
    .ok (.arr .plain [.str [0x61], .str [0x62]]) := by
  rw [sortArrayByC_eq _ _ (fun _ _ h => by cases h; decide)]
  simp [sortArrayBy, widen, keysOf, keysFrom, enum2, sortByKeys, List.mergeSort, Key.lt, bytesLt]
example : sortArrayByC (fun x => .ok x) (.arr .nil []) = .ok (.arr .nil []) := rfl

/-- GUARD DELETION (array.go:345 `if len(a) == 0`): without it ``sort_by(`[]`, &@)`` reads `a[0]` at array.go:349 and
    panics. -/
example : sortArrayByC (fun x => .ok x) (.arr .plain []) (lenGuard := false) = .panic idxMsg := rfl

end Jmes.C03D.ArrGo
