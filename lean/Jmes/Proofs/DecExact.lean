/-
  Helper lemmas for property C05: the decimal128 model (`Jmes.Dec`) returns *exact* results whenever the exact
  result fits the format (`c ≤ MAXSIG`, exponent in `[EMIN, EMAX]`), and rounds within one unit of the last
  kept digit otherwise.
-/
import Jmes.Proofs.Order
import Jmes.Proofs.Equal
namespace Jmes

namespace Dec

theorem stripZeros_spec : ∀ (fuel c : Nat) (e : Int),
    ∃ k : Nat, stripZeros fuel c e = ((stripZeros fuel c e).1, e + k) ∧ c = (stripZeros fuel c e).1 * 10 ^ k
  | 0, c, e => ⟨0, by simp [stripZeros]⟩
  | fuel + 1, c, e => by
    unfold stripZeros
    split
    · next h =>
      obtain ⟨k, h1, h2⟩ := stripZeros_spec fuel (c / 10) (e + 1)
      refine ⟨k + 1, ?_, ?_⟩
      · rw [h1]; simp only [Prod.mk.injEq, true_and]; omega
      · rw [Nat.pow_succ, ← Nat.mul_assoc, ← h2]; omega
    · exact ⟨0, by simp⟩

theorem stripZeros_done : ∀ (fuel c : Nat) (e : Int), c ≠ 0 → c < 2 ^ fuel →
    (stripZeros fuel c e).1 % 10 ≠ 0
  | 0, c, e, h0, h => by simp at h; omega
  | fuel + 1, c, e, h0, h => by
    unfold stripZeros
    split
    · next hc =>
      apply stripZeros_done fuel (c / 10) (e + 1)
      · omega
      · rw [Nat.pow_succ] at h; omega
    · next hc => simp only; omega

/-- a number has one decomposition `c'·10^k` with `10 ∤ c'` -/
theorem strip_unique : ∀ (a b c' c'' : Nat), c' % 10 ≠ 0 → c'' % 10 ≠ 0 → c' * 10 ^ a = c'' * 10 ^ b →
    a = b ∧ c' = c''
  | 0, 0, c', c'', _, _, h => by simpa using h
  | 0, b + 1, c', c'', h1, _, h => by
    rw [Nat.pow_succ, ← Nat.mul_assoc] at h; simp at h; omega
  | a + 1, 0, c', c'', _, h2, h => by
    rw [Nat.pow_succ, ← Nat.mul_assoc] at h; simp at h; omega
  | a + 1, b + 1, c', c'', h1, h2, h => by
    rw [Nat.pow_succ, Nat.pow_succ, ← Nat.mul_assoc, ← Nat.mul_assoc] at h
    have := strip_unique a b c' c'' h1 h2 (Nat.eq_of_mul_eq_mul_right (by decide) h)
    omega

/-- **`normalize` computes the canonical representative**: strip all trailing zeros. -/
theorem normalize_of (n : Bool) (c c' k : Nat) (e : Int) (h0 : c' % 10 ≠ 0) (h : c = c' * 10 ^ k) :
    normalize (.fin n c e) = .fin n c' (e + k) := by
  have hc : c ≠ 0 := by
    intro hc; rw [hc] at h
    have : 0 < 10 ^ k := Nat.pow_pos (by decide)
    have : c' = 0 := by
      rcases Nat.mul_eq_zero.mp h.symm with h | h <;> omega
    omega
  unfold normalize
  simp only [hc, if_false]
  obtain ⟨k', h1, h2⟩ := stripZeros_spec (Nat.log2 c + 1) c e
  have h3 := stripZeros_done (Nat.log2 c + 1) c e hc Nat.lt_log2_self
  rw [h1]
  have := strip_unique k' k _ c' h3 h0 (h2.symm.trans h)
  simp only [this.1, this.2]

theorem normalize_zero (n : Bool) (e : Int) : normalize (.fin n 0 e) = .fin n 0 0 := by simp [normalize]


/-- every non-zero coefficient has its canonical decomposition, and `normalize` returns it -/
theorem normalize_spec (n : Bool) (c : Nat) (e : Int) (hc : c ≠ 0) :
    ∃ c' k : Nat, normalize (.fin n c e) = .fin n c' (e + k) ∧ c = c' * 10 ^ k ∧ c' % 10 ≠ 0 := by
  obtain ⟨k', h1, h2⟩ := stripZeros_spec (Nat.log2 c + 1) c e
  have h3 := stripZeros_done (Nat.log2 c + 1) c e hc Nat.lt_log2_self
  exact ⟨_, k', normalize_of n c _ k' e h3 h2, h2, h3⟩

/-- trailing zeros of the coefficient may be moved into the exponent -/
theorem normalize_shift (n : Bool) (c j : Nat) (e : Int) :
    normalize (.fin n (c * 10 ^ j) e) = normalize (.fin n c (e + j)) := by
  by_cases hc : c = 0
  · subst hc; simp [normalize_zero]
  · obtain ⟨c', k, h1, h2, h3⟩ := normalize_spec n c (e + j) hc
    rw [h1, normalize_of n (c * 10 ^ j) c' (k + j) e h3 (by rw [h2, Nat.pow_add, Nat.mul_assoc])]
    congr 1; omega

theorem normalize_idem (d : Dec) : normalize (normalize d) = normalize d := by
  cases d with
  | nan => rfl
  | inf n => rfl
  | fin n c e =>
    by_cases hc : c = 0
    · subst hc; simp [normalize_zero]
    · obtain ⟨c', k, h1, _, h3⟩ := normalize_spec n c e hc
      rw [h1, normalize_of n c' c' 0 _ h3 (by simp)]; simp

/-! ### `reduce`: a value that fits the format is returned exactly -/

theorem mul_pow_succ_div (c j : Nat) : c * 10 ^ (j + 1) / 10 = c * 10 ^ j := by
  rw [Nat.pow_succ, ← Nat.mul_assoc]; simp

theorem mul_pow_succ_mod (c j : Nat) : c * 10 ^ (j + 1) % 10 = 0 := by
  rw [Nat.pow_succ, ← Nat.mul_assoc]; simp

/-- `dropHigh` on `c·10^j` with `c ≤ MAXSIG` only removes zeros: no digit, no sticky -/
theorem dropHigh_zeros (c : Nat) (hc : c ≤ MAXSIG) : ∀ (fuel j : Nat) (e : Int), j < fuel →
    ∃ i, i ≤ j ∧ dropHigh fuel (c * 10 ^ j) e 0 false = (c * 10 ^ (j - i), e + i, 0, false) ∧
      c * 10 ^ (j - i) ≤ MAXSIG
  | 0, j, e, h => by omega
  | fuel + 1, j, e, h => by
    unfold dropHigh
    by_cases hgt : c * 10 ^ j > MAXSIG
    · simp only [hgt, if_true]
      cases j with
      | zero => simp at hgt; omega
      | succ j =>
        rw [mul_pow_succ_div, mul_pow_succ_mod]
        obtain ⟨i, hi, heq, hle⟩ := dropHigh_zeros c hc fuel j (e + 1) (by omega)
        refine ⟨i + 1, by omega, ?_, ?_⟩
        · simp only [bne_self_eq_false, Bool.or_false]
          rw [heq]
          have : j + 1 - (i + 1) = j - i := by omega
          rw [this]
          simp only [Prod.mk.injEq, true_and, and_true]
          omega
        · have : j + 1 - (i + 1) = j - i := by omega
          rw [this]; exact hle
    · simp only [hgt, if_false]
      exact ⟨0, by omega, by simp, by simpa using Nat.le_of_not_gt hgt⟩

theorem dropHigh_id (fuel c : Nat) (e : Int) (dg : Nat) (st : Bool) (hc : c ≤ MAXSIG) :
    dropHigh fuel c e dg st = (c, e, dg, st) := by
  cases fuel with
  | zero => rfl
  | succ fuel => unfold dropHigh; simp [Nat.not_lt.mpr hc]

/-- `dropLow` on `c·10^j` whose exponent after moving the zeros is ≥ EMIN only removes zeros -/
theorem dropLow_zeros (c : Nat) (hc : c ≠ 0) : ∀ (fuel j : Nat) (e : Int), EMIN ≤ e + j → (EMIN - e).toNat ≤ fuel →
    dropLow fuel (c * 10 ^ j) e 0 false = (c * 10 ^ (j - (EMIN - e).toNat), e + (EMIN - e).toNat, 0, false)
  | 0, j, e, h1, h2 => by
    have : (EMIN - e).toNat = 0 := by omega
    simp [dropLow, this]
  | fuel + 1, j, e, h1, h2 => by
    unfold dropLow
    by_cases hlt : e < EMIN
    · simp only [hlt, if_true]
      cases j with
      | zero => omega
      | succ j =>
        rw [mul_pow_succ_div, mul_pow_succ_mod]
        have hne : c * 10 ^ j ≠ 0 := Nat.mul_ne_zero hc (Nat.ne_of_gt (Nat.pow_pos (by decide)))
        simp only [hne, false_and, if_false, bne_self_eq_false, Bool.or_false]
        rw [dropLow_zeros c hc fuel j (e + 1) (by omega) (by omega)]
        have h3 : (EMIN - e).toNat = (EMIN - (e + 1)).toNat + 1 := by omega
        rw [h3]
        have : j + 1 - ((EMIN - (e + 1)).toNat + 1) = j - (EMIN - (e + 1)).toNat := by omega
        rw [this]
        simp only [Prod.mk.injEq, true_and, and_true]
        omega
    · simp only [hlt, if_false]
      have : (EMIN - e).toNat = 0 := by omega
      simp [this]

theorem dropLow_id (fuel c : Nat) (e : Int) (dg : Nat) (st : Bool) (he : EMIN ≤ e) :
    dropLow fuel c e dg st = (c, e, dg, st) := by
  cases fuel with
  | zero => rfl
  | succ fuel => unfold dropLow; simp [Int.not_lt.mpr he]

theorem scaleUp_id (fuel c : Nat) (e : Int) (he : e ≤ EMAX) : scaleUp fuel c e = (c, e) := by
  cases fuel with
  | zero => rfl
  | succ fuel => unfold scaleUp; simp [Int.not_lt.mpr he]

theorem roundEven_id (fuel c : Nat) (e : Int) : roundEven fuel c e 0 false = (c, e) := by
  cases fuel with
  | zero => rfl
  | succ fuel => unfold roundEven; simp

theorem pow10_le_MAXSIG {j : Nat} (h : 10 ^ j ≤ MAXSIG) : j < 35 := by
  apply Nat.lt_of_not_le
  intro h35
  have : 10 ^ 35 ≤ 10 ^ j := Nat.pow_le_pow_right (by decide) h35
  have : ¬ (10 ^ 35 ≤ MAXSIG) := by decide
  omega

theorem lt_log2_fuel (c j : Nat) (hc : c ≠ 0) : j < Nat.log2 (c * 10 ^ j + 1) + 2 := by
  have h1 : 2 ^ j ≤ 10 ^ j := Nat.pow_le_pow_left (by decide) j
  have h2 : 10 ^ j ≤ c * 10 ^ j := Nat.le_mul_of_pos_left _ (Nat.pos_of_ne_zero hc)
  have h3 : j ≤ Nat.log2 (c * 10 ^ j + 1) := (Nat.le_log2 (by omega)).mpr (by omega)
  omega

/-- **key lemma**: the exact value `c·10^j·10^e` with `c ≤ MAXSIG` and `e + j` in the exponent range is
    returned exactly (only zeros are dropped, nothing is rounded). -/
theorem reduce_zeros (neg : Bool) (c j : Nat) (e : Int) (hc0 : c ≠ 0) (hc : c ≤ MAXSIG)
    (hlo : EMIN ≤ e + j) (hhi : e + j ≤ EMAX) :
    reduce neg (c * 10 ^ j) e false = normalize (.fin neg c (e + j)) := by
  have hne : c * 10 ^ j ≠ 0 := Nat.mul_ne_zero hc0 (Nat.ne_of_gt (Nat.pow_pos (by decide)))
  obtain ⟨i, hi, heq, hle⟩ := dropHigh_zeros c hc (Nat.log2 (c * 10 ^ j + 1) + 2) j e (lt_log2_fuel c j hc0)
  have hji : j - i < 35 := by
    apply pow10_le_MAXSIG
    exact Nat.le_trans (Nat.le_mul_of_pos_left _ (Nat.pos_of_ne_zero hc0)) hle
  have hlow := dropLow_zeros c hc0 (min ((EMIN - (e + i)).toNat + 1) 60) (j - i) (e + i) (by omega) (by omega)
  unfold reduce
  simp only [hne, false_and, if_false]
  rw [heq]
  simp only []
  rw [hlow]
  simp only []
  have h1 : ¬ (e + ↑i + ↑(EMIN - (e + ↑i)).toNat < EMIN) := by omega
  simp only [h1, if_false]
  rw [scaleUp_id _ _ _ (by omega)]
  simp only []
  rw [roundEven_id]
  simp only []
  have h2 : ¬ (e + ↑i + ↑(EMIN - (e + ↑i)).toNat > EMAX) := by omega
  simp only [h2, if_false]
  rw [normalize_shift]
  have h3 : e + ↑i + ↑(EMIN - (e + ↑i)).toNat + ↑(j - i - (EMIN - (e + ↑i)).toNat) = e + (j : Int) := by omega
  rw [h3]

/-- **`reduce_exact`**: a value that fits (`c ≤ MAXSIG`, `EMIN ≤ e ≤ EMAX`, nothing below it) is returned exactly. -/
theorem reduce_exact (neg : Bool) (c : Nat) (e : Int) (hc : c ≤ MAXSIG) (hlo : EMIN ≤ e) (hhi : e ≤ EMAX) :
    reduce neg c e false = normalize (.fin neg c e) := by
  by_cases hc0 : c = 0
  · subst hc0; simp [reduce, normalize_zero]
  · have := reduce_zeros neg c 0 e hc0 hc (by simpa using hlo) (by simpa using hhi)
    simpa using this

theorem lt_pow34_le_MAXSIG {c : Nat} (h : c < 10 ^ 34) : c ≤ MAXSIG := by
  have : 10 ^ 34 ≤ MAXSIG := by decide
  omega

/-- in particular every coefficient of at most 34 significant digits -/
theorem reduce_exact_34 (neg : Bool) (c : Nat) (e : Int) (hc : c < 10 ^ 34) (hlo : EMIN ≤ e) (hhi : e ≤ EMAX) :
    reduce neg c e false = normalize (.fin neg c e) :=
  reduce_exact neg c e (lt_pow34_le_MAXSIG hc) hlo hhi

/-! ### the value denoted by a finite decimal -/

/-- two decimals denote the same value: for finite ones the coefficients agree at the common exponent
    `min e1 e2` and the signs agree (or both are zero); NaN / ±Inf only denote themselves -/
def SameValue : Dec → Dec → Prop
  | .fin n1 c1 e1, .fin n2 c2 e2 =>
    c1 * 10 ^ (e1 - min e1 e2).toNat = c2 * 10 ^ (e2 - min e1 e2).toNat ∧ (n1 = n2 ∨ (c1 = 0 ∧ c2 = 0))
  | a, b => a = b

/-- canonical representative: no trailing zero in the coefficient, zero has exponent 0 -/
def Canonical : Dec → Prop
  | .fin _ c e => (c = 0 ∧ e = 0) ∨ c % 10 ≠ 0
  | _ => True

theorem sval_eq_sv (n : Bool) (c : Nat) (e m : Int) : sval n c e m = sv n c e m := rfl

theorem sval_neg (n : Bool) (c : Nat) (e m : Int) : sval (!n) c e m = - sval n c e m := by
  unfold sval; cases n <;> simp

theorem sval_false (c : Nat) (e m : Int) : sval false c e m = ((c * pow10 (e - m).toNat : Nat) : Int) := by
  simp [sval]

/-- `SameValue` on finite decimals is exactly "`Cmp` says equal" -/
theorem sameValue_iff_cmpFin (n1 : Bool) (c1 : Nat) (e1 : Int) (n2 : Bool) (c2 : Nat) (e2 : Int) :
    SameValue (.fin n1 c1 e1) (.fin n2 c2 e2) ↔ cmpFin n1 c1 e1 n2 c2 e2 = 0 := by
  rw [cmpFin_eq_zero_iff]
  simp only [SameValue, sval, pow10]
  have hp1 : 0 < 10 ^ (e1 - min e1 e2).toNat := Nat.pow_pos (by decide)
  have hp2 : 0 < 10 ^ (e2 - min e1 e2).toNat := Nat.pow_pos (by decide)
  generalize 10 ^ (e1 - min e1 e2).toNat = p1 at *
  generalize 10 ^ (e2 - min e1 e2).toNat = p2 at *
  have hz1 : c1 * p1 = 0 ↔ c1 = 0 := by
    constructor
    · intro h; rcases Nat.mul_eq_zero.mp h with h | h <;> omega
    · intro h; simp [h]
  have hz2 : c2 * p2 = 0 ↔ c2 = 0 := by
    constructor
    · intro h; rcases Nat.mul_eq_zero.mp h with h | h <;> omega
    · intro h; simp [h]
  cases n1 <;> cases n2 <;> simp <;> omega

/-! ### integer core of `ceil` / `floor` -/

theorem least_ge_core (P C K : Int) (hP : 0 < P) (hub : C ≤ K * P) (hlb : (K - 1) * P < C) :
    C ≤ K * P ∧ ∀ z' : Int, C ≤ z' * P → K ≤ z' := by
  refine ⟨hub, fun z' hz => ?_⟩
  by_cases h : z' < K
  · have := Int.mul_le_mul_of_nonneg_right (show z' ≤ K - 1 by omega) (Int.le_of_lt hP)
    omega
  · omega

theorem greatest_le_core (P C K : Int) (hP : 0 < P) (hlb : K * P ≤ C) (hub : C < (K + 1) * P) :
    K * P ≤ C ∧ ∀ z' : Int, z' * P ≤ C → z' ≤ K := by
  refine ⟨hlb, fun z' hz => ?_⟩
  by_cases h : K < z'
  · have := Int.mul_le_mul_of_nonneg_right (show K + 1 ≤ z' by omega) (Int.le_of_lt hP)
    omega
  · omega

/-! ### `parseNumber` / `Parse` on texts of the JSON number grammar -/

/-- value of a digit string appended to `acc` -/
def dval (acc : Nat) (ds : Bytes) : Nat := ds.foldl (fun a b => a * 10 + (b - 0x30)) acc

theorem dval_nil (acc : Nat) : dval acc [] = acc := by simp [dval]
theorem dval_cons (acc b : Nat) (ds : Bytes) : dval acc (b :: ds) = dval (acc * 10 + (b - 0x30)) ds := by simp [dval]
theorem dval_append (acc : Nat) (a b : Bytes) : dval acc (a ++ b) = dval (dval acc a) b := by simp [dval]

theorem le_dval : ∀ (ds : Bytes) (acc : Nat), acc ≤ dval acc ds
  | [], acc => by simp [dval_nil]
  | b :: ds, acc => by
    rw [dval_cons]
    exact Nat.le_trans (by omega) (le_dval ds _)

theorem prun_append (sep : Bool) : ∀ (a b : Bytes) (s : PState),
    prun sep s (a ++ b) = (match prun sep s a with | none => none | some s' => prun sep s' b)
  | [], b, s => rfl
  | x :: a, b, s => by
    simp only [List.cons_append, prun]
    cases pstep sep s x with
    | none => rfl
    | some s' => exact prun_append sep a b s'

theorem prun_cons (sep : Bool) (s : PState) (b : Nat) (bs : Bytes) :
    prun sep s (b :: bs) = (match pstep sep s b with | none => none | some s' => prun sep s' bs) := rfl

/-- state after a run of mantissa digits -/
def afterDigits (s : PState) (ds : Bytes) : PState :=
  if ds.isEmpty then s else
  { s with c := dval s.c ds, nfrac := if s.sawdot then s.nfrac + ds.length else s.nfrac,
           caneof := true, cansep := true, cansgn := false, sawdig := true }

theorem prun_mant_digits (sep : Bool) : ∀ (ds : Bytes) (s : PState), (∀ b ∈ ds, isDigit b = true) → s.sawexp = false →
    dval s.c ds ≤ PFULL → prun sep s ds = some (afterDigits s ds)
  | [], s, _, _, _ => rfl
  | b :: ds, s, hd, hx, hle => by
    have hb : isDigit b = true := hd b (List.mem_cons_self ..)
    have hc : s.c ≤ PFULL := Nat.le_trans (le_dval _ _) hle
    have hstep : pstep sep s b = some ({ s with
        c := s.c * 10 + (b - 0x30), nfrac := (if s.sawdot then s.nfrac + 1 else s.nfrac),
        caneof := true, cansep := true, cansgn := false, sawdig := true }) := by
      simp [pstep, hb, hx, hc]
    simp only [prun, hstep]
    have ih := prun_mant_digits sep ds ({ s with
        c := s.c * 10 + (b - 0x30), nfrac := (if s.sawdot then s.nfrac + 1 else s.nfrac),
        caneof := true, cansep := true, cansgn := false, sawdig := true })
      (fun b' hb' => hd b' (List.mem_cons_of_mem _ hb')) hx (by simpa [dval_cons] using hle)
    rw [ih]
    cases ds with
    | nil => simp [afterDigits, dval]
    | cons b' ds =>
      simp only [afterDigits, List.isEmpty_cons, Bool.false_eq_true, if_false, dval_cons, List.length_cons]
      cases s.sawdot <;> simp <;> omega

/-- state after a run of exponent digits -/
def afterExpDigits (s : PState) (ds : Bytes) : PState :=
  if ds.isEmpty then s else
  { s with exp := dval s.exp ds, caneof := true, cansep := true, cansgn := false, sawdig := true }

theorem prun_exp_digits (sep : Bool) : ∀ (ds : Bytes) (s : PState), (∀ b ∈ ds, isDigit b = true) → s.sawexp = true →
    s.maxexp = false → dval s.exp ds ≤ 6189 → prun sep s ds = some (afterExpDigits s ds)
  | [], s, _, _, _, _ => rfl
  | b :: ds, s, hd, hx, hm, hle => by
    have hb : isDigit b = true := hd b (List.mem_cons_self ..)
    have hc : ¬ (s.exp > 618) := by
      have := le_dval ds (s.exp * 10 + (b - 0x30))
      rw [dval_cons] at hle
      omega
    have hstep : pstep sep s b = some ({ s with
        exp := s.exp * 10 + (b - 0x30), caneof := true, cansep := true, cansgn := false, sawdig := true }) := by
      cases s
      simp_all [pstep]
      omega
    simp only [prun, hstep]
    have ih := prun_exp_digits sep ds ({ s with
        exp := s.exp * 10 + (b - 0x30), caneof := true, cansep := true, cansgn := false, sawdig := true })
      (fun b' hb' => hd b' (List.mem_cons_of_mem _ hb')) hx hm (by simpa [dval_cons] using hle)
    rw [ih]
    cases ds with
    | nil => simp [afterExpDigits, dval]
    | cons b' ds =>
      simp only [afterExpDigits, List.isEmpty_cons, Bool.false_eq_true, if_false, dval_cons]

/-- the tail of `parseNumber` once the scan has succeeded -/
def parseFinish (s : PState) (neg : Bool) : ParseResult :=
  if !s.caneof then .syntax
  else if s.c = 0 then .ok (.fin neg 0 0)
  else if s.maxexp then (if s.eneg then .ok (.fin neg 0 0) else .range (.inf neg))
  else
    let e : Int := (if s.eneg then -(s.exp : Int) else s.exp) - s.nfrac
    if e > EMAX + 39 then .range (.inf neg)
    else if e < EMIN - 39 then .ok (.fin neg 0 0)
    else match reduce neg s.c e s.sticky with
      | .inf n => .range (.inf n)
      | r => .ok r

theorem parseNumber_eq (d : Bytes) (neg sep : Bool) :
    parseNumber d neg sep = (match prun sep {} d with | none => .syntax | some s => parseFinish s neg) := rfl

/-- a scan result that fits the format is returned exactly -/
theorem parseFinish_exact (s : PState) (neg : Bool) (h1 : s.caneof = true) (h2 : s.maxexp = false) (h3 : s.sticky = false)
    (hc : s.c ≤ MAXSIG) (hlo : EMIN ≤ (if s.eneg then -(s.exp : Int) else s.exp) - s.nfrac)
    (hhi : (if s.eneg then -(s.exp : Int) else s.exp) - s.nfrac ≤ EMAX) :
    parseFinish s neg = .ok (normalize (.fin neg s.c ((if s.eneg then -(s.exp : Int) else s.exp) - s.nfrac))) := by
  unfold parseFinish
  generalize (if s.eneg then -(s.exp : Int) else s.exp) - s.nfrac = e at *
  simp only [h1, h2, h3, Bool.not_true, Bool.false_eq_true, if_false]
  by_cases hc0 : s.c = 0
  · simp [hc0, normalize_zero]
  · have h4 : ¬ (e > EMAX + 39) := by omega
    have h5 : ¬ (e < EMIN - 39) := by omega
    simp only [hc0, if_false, h4, h5]
    rw [reduce_exact neg s.c e hc hlo hhi]
    obtain ⟨c', k, hn, _, _⟩ := normalize_spec neg s.c e hc0
    rw [hn]

/-- the scanner state after the mantissa `int[.frac]` -/
def mantState (C : Nat) (F : Int) (D : Bool) : PState :=
  { c := C, nfrac := F, caneof := true, cansep := true, sawdig := true, sawdot := D }

theorem prun_int (sep : Bool) (b : Nat) (ip : Bytes) (hd : ∀ x ∈ b :: ip, isDigit x = true)
    (hle : dval 0 (b :: ip) ≤ PFULL) : prun sep {} (b :: ip) = some (mantState (dval 0 (b :: ip)) 0 false) := by
  rw [prun_mant_digits sep (b :: ip) {} hd rfl hle]
  simp [afterDigits, mantState]

theorem prun_frac (sep : Bool) (b : Nat) (ip : Bytes) (f : Nat) (fp : Bytes) (hd : ∀ x ∈ b :: ip, isDigit x = true)
    (hf : ∀ x ∈ f :: fp, isDigit x = true) (hle : dval 0 ((b :: ip) ++ (f :: fp)) ≤ PFULL) :
    prun sep {} ((b :: ip) ++ 0x2E :: (f :: fp)) =
      some (mantState (dval 0 ((b :: ip) ++ (f :: fp))) ((f :: fp).length : Nat) true) := by
  rw [dval_append] at hle
  rw [prun_append, prun_int sep b ip hd (Nat.le_trans (le_dval _ _) hle)]
  simp only []
  rw [prun_cons]
  have hdot : pstep sep (mantState (dval 0 (b :: ip)) 0 false) 0x2E =
      some ({ mantState (dval 0 (b :: ip)) 0 false with caneof := true, cansep := false, cansgn := false, sawdot := true }) := by
    simp [pstep, mantState, isDigit]
  rw [hdot]
  simp only []
  have := prun_mant_digits sep (f :: fp) ({ mantState (dval 0 (b :: ip)) 0 false with
    caneof := true, cansep := false, cansgn := false, sawdot := true }) hf rfl hle
  rw [show prun sep _ (f :: fp) = _ from this]
  simp only [afterDigits, mantState, List.isEmpty_cons, Bool.false_eq_true, if_false, if_true, ← dval_append]
  simp

/-- the exponent part `e|E [+|-] digits` -/
def expText (upper : Bool) (sg : Option Bool) (ep : Bytes) : Bytes :=
  (if upper then 0x45 else 0x65) ::
    ((match sg with | none => [] | some false => [0x2B] | some true => [0x2D]) ++ ep)

theorem prun_exp (sep : Bool) (C : Nat) (F : Int) (D : Bool) (upper : Bool) (sg : Option Bool) (x : Nat) (ep : Bytes)
    (hd : ∀ y ∈ x :: ep, isDigit y = true) (hle : dval 0 (x :: ep) ≤ 6189) :
    prun sep (mantState C F D) (expText upper sg (x :: ep)) =
      some ({ mantState C F D with exp := dval 0 (x :: ep), eneg := (sg == some true), sawexp := true }) := by
  have he : pstep sep (mantState C F D) (if upper then 0x45 else 0x65) =
      some ({ mantState C F D with caneof := false, cansep := false, cansgn := true, sawexp := true }) := by
    cases upper <;> simp [pstep, mantState, isDigit]
  simp only [expText]
  rw [prun_cons, he]
  simp only []
  rcases sg with _ | _ | _
  · simp only [List.nil_append]
    have := prun_exp_digits sep (x :: ep) ({ mantState C F D with caneof := false, cansep := false, cansgn := true, sawexp := true })
      hd rfl rfl hle
    rw [show prun sep _ (x :: ep) = _ from this]
    simp [afterExpDigits, mantState]
  · have hs : pstep sep ({ mantState C F D with caneof := false, cansep := false, cansgn := true, sawexp := true }) 0x2B =
        some ({ mantState C F D with caneof := false, cansep := false, cansgn := false, sawexp := true }) := by
      simp [pstep, mantState, isDigit]
    simp only [List.cons_append, List.nil_append]
    rw [prun_cons, hs]
    simp only []
    have := prun_exp_digits sep (x :: ep) ({ mantState C F D with caneof := false, cansep := false, cansgn := false, sawexp := true })
      hd rfl rfl hle
    rw [show prun sep _ (x :: ep) = _ from this]
    simp [afterExpDigits, mantState]
  · have hs : pstep sep ({ mantState C F D with caneof := false, cansep := false, cansgn := true, sawexp := true }) 0x2D =
        some ({ mantState C F D with caneof := false, cansep := false, cansgn := false, sawexp := true, eneg := true }) := by
      simp [pstep, mantState, isDigit]
    simp only [List.cons_append, List.nil_append]
    rw [prun_cons, hs]
    simp only []
    have := prun_exp_digits sep (x :: ep) ({ mantState C F D with caneof := false, cansep := false, cansgn := false, sawexp := true, eneg := true })
      hd rfl rfl hle
    rw [show prun sep _ (x :: ep) = _ from this]
    simp [afterExpDigits, mantState]

theorem isDigit_iff (b : Nat) : isDigit b = true ↔ 0x30 ≤ b ∧ b ≤ 0x39 := by simp [isDigit]

/-- a string of `len` digits is below `10^len` -/
theorem dval_lt : ∀ (ds : Bytes) (acc : Nat), (∀ b ∈ ds, isDigit b = true) → dval acc ds < (acc + 1) * 10 ^ ds.length
  | [], acc, _ => by simp [dval_nil]
  | b :: ds, acc, hd => by
    have hb := (isDigit_iff b).mp (hd b (List.mem_cons_self ..))
    have ih := dval_lt ds (acc * 10 + (b - 0x30)) (fun b' hb' => hd b' (List.mem_cons_of_mem _ hb'))
    rw [dval_cons]
    refine Nat.lt_of_lt_of_le ih ?_
    rw [List.length_cons, Nat.pow_succ, Nat.mul_comm (10 ^ ds.length) 10, ← Nat.mul_assoc]
    exact Nat.mul_le_mul_right _ (by omega)

theorem dval_le_MAXSIG_of_length {ds : Bytes} (hd : ∀ b ∈ ds, isDigit b = true) (hl : ds.length ≤ 34) :
    dval 0 ds ≤ MAXSIG := by
  have h1 := dval_lt ds 0 hd
  have h2 : 10 ^ ds.length ≤ 10 ^ 34 := Nat.pow_le_pow_right (by decide) hl
  have h3 : 10 ^ 34 ≤ MAXSIG := by decide
  omega

theorem MAXSIG_le_PFULL : MAXSIG ≤ PFULL := by decide

/-- mantissa `m` scanned to `mantState C F D`, no exponent part -/
theorem parseNumber_mant (m : Bytes) (C : Nat) (F : Int) (D : Bool) (neg sep : Bool)
    (hm : prun sep {} m = some (mantState C F D)) (hC : C ≤ MAXSIG) (hlo : EMIN ≤ -F) (hhi : -F ≤ EMAX) :
    parseNumber m neg sep = .ok (normalize (.fin neg C (-F))) := by
  rw [parseNumber_eq, hm]
  simp only []
  have := parseFinish_exact (mantState C F D) neg rfl rfl rfl hC (by simpa [mantState] using hlo)
    (by simpa [mantState] using hhi)
  rw [this]
  simp [mantState]

/-- mantissa followed by an exponent part -/
theorem parseNumber_mant_exp (m : Bytes) (C : Nat) (F : Int) (D : Bool) (neg sep : Bool) (upper : Bool) (sg : Option Bool)
    (x : Nat) (ep : Bytes) (hm : prun sep {} m = some (mantState C F D)) (hC : C ≤ MAXSIG)
    (hd : ∀ y ∈ x :: ep, isDigit y = true) (hle : dval 0 (x :: ep) ≤ 6189)
    (hlo : EMIN ≤ (if sg == some true then -(dval 0 (x :: ep) : Int) else dval 0 (x :: ep)) - F)
    (hhi : (if sg == some true then -(dval 0 (x :: ep) : Int) else dval 0 (x :: ep)) - F ≤ EMAX) :
    parseNumber (m ++ expText upper sg (x :: ep)) neg sep =
      .ok (normalize (.fin neg C ((if sg == some true then -(dval 0 (x :: ep) : Int) else dval 0 (x :: ep)) - F))) := by
  rw [parseNumber_eq, prun_append, hm]
  simp only []
  rw [prun_exp sep C F D upper sg x ep hd hle]
  simp only []
  have := parseFinish_exact ({ mantState C F D with exp := dval 0 (x :: ep), eneg := (sg == some true), sawexp := true })
    neg rfl rfl rfl hC (by simpa [mantState] using hlo) (by simpa [mantState] using hhi)
  rw [this]
  simp [mantState]

/-- `Parse` of a text that starts with a digit is `parseNumber` (no sign, not `inf`/`nan`) -/
theorem parse_digit_head (b : Nat) (rest : Bytes) (hb : isDigit b = true) :
    parse (b :: rest) = parseNumber (b :: rest) false true := by
  have hb' := (isDigit_iff b).mp hb
  have h1 : b ≠ 0x2B := by omega
  have h2 : b ≠ 0x2D := by omega
  have hl : lowerByte b = b := by simp [lowerByte]; omega
  simp only [parse, h1, h2, if_false, List.isEmpty_cons, Bool.false_eq_true, List.map_cons, hl]
  have h3 : b ≠ 0x69 := by omega
  have h4 : b ≠ 0x6E := by omega
  simp [h3, h4]

theorem parse_minus_digit_head (b : Nat) (rest : Bytes) (hb : isDigit b = true) :
    parse (0x2D :: b :: rest) = parseNumber (b :: rest) true true := by
  have hb' := (isDigit_iff b).mp hb
  have hl : lowerByte b = b := by simp [lowerByte]; omega
  have h3 : b ≠ 0x69 := by omega
  have h4 : b ≠ 0x6E := by omega
  simp [parse, hl, h3, h4]

/-! ### rounding: `reduce` is within half a unit of the last kept digit -/

/-- `(c, dg, st)` after `k` dropped digits represents `V`: `V = c·10^k + (dg·10^k + t)/10`, `t < 10^k` the tail whose
    being non-zero is the sticky flag -/
def RInv (V k c dg : Nat) (st : Bool) : Prop :=
  ∃ t, 10 * V = c * 10 ^ (k + 1) + dg * 10 ^ k + t ∧ t < 10 ^ k ∧ dg < 10 ∧ (st = true ↔ t ≠ 0)

/-- `c4·10^k` is within half a unit `10^k` of `V` -/
def Close (V k c4 : Nat) : Prop := 2 * V ≤ 2 * c4 * 10 ^ k + 10 ^ k ∧ 2 * c4 * 10 ^ k ≤ 2 * V + 10 ^ k

theorem RInv_init (V : Nat) : RInv V 0 V 0 false := ⟨0, by simp; omega⟩

theorem RInv_step {V k c dg : Nat} {st : Bool} (h : RInv V k c dg st) :
    RInv V (k + 1) (c / 10) (c % 10) (st || dg != 0) := by
  obtain ⟨t, h1, h2, h3, h4⟩ := h
  refine ⟨dg * 10 ^ k + t, ?_, ?_, by omega, ?_⟩
  · have hc : c = 10 * (c / 10) + c % 10 := by omega
    generalize c / 10 = q at *
    generalize c % 10 = r at *
    subst hc
    rw [h1]
    simp only [Nat.pow_succ]
    grind
  · rw [Nat.pow_succ]
    have : dg * 10 ^ k ≤ 9 * 10 ^ k := Nat.mul_le_mul_right _ (by omega)
    omega
  · have hp : 0 < 10 ^ k := Nat.pow_pos (by decide)
    by_cases hd : dg = 0
    · subst hd; simp [h4]
    · have : 10 ^ k ≤ dg * 10 ^ k := Nat.le_mul_of_pos_left _ (by omega)
      simp [hd]; omega

theorem MAXSIG_val : MAXSIG = 12980742146337069071326240823050239 := by decide

theorem dropHigh_spec (V : Nat) : ∀ (fuel c : Nat) (e : Int) (dg : Nat) (st : Bool) (k : Nat),
    RInv V k c dg st → c < 2 ^ fuel →
    ∃ j c' dg' st', dropHigh fuel c e dg st = (c', e + (j : Nat), dg', st') ∧ RInv V (k + j) c' dg' st' ∧ c' ≤ MAXSIG ∧
      (c ≤ MAXSIG → j = 0 ∧ c' = c) ∧ (MAXSIG < c → 1 ≤ j ∧ (MAXSIG + 1) / 10 ≤ c')
  | 0, c, e, dg, st, k, h, hc => by
    have : c = 0 := by simpa using hc
    subst this
    exact ⟨0, 0, dg, st, by simp [dropHigh], by simpa using h, by simp, by simp, by simp [MAXSIG_val]⟩
  | fuel + 1, c, e, dg, st, k, h, hc => by
    unfold dropHigh
    by_cases hgt : c > MAXSIG
    · simp only [hgt, if_true]
      obtain ⟨j, c', dg', st', h1, h2, h3, h4, h5⟩ :=
        dropHigh_spec V fuel (c / 10) (e + 1) (c % 10) (st || dg != 0) (k + 1) (RInv_step h)
          (by rw [Nat.pow_succ] at hc; omega)
      refine ⟨j + 1, c', dg', st', ?_, ?_, h3, by omega, fun _ => ⟨by omega, ?_⟩⟩
      · rw [h1]; simp only [Prod.mk.injEq, true_and, and_true]; omega
      · have : k + (j + 1) = k + 1 + j := by omega
        rw [this]; exact h2
      · by_cases h10 : c / 10 ≤ MAXSIG
        · rw [(h4 h10).2]; rw [MAXSIG_val] at *; omega
        · exact (h5 (by omega)).2
    · simp only [hgt, if_false]
      exact ⟨0, c, dg, st, by simp, by simpa using h, by omega, fun _ => ⟨rfl, rfl⟩, fun h' => h'.elim⟩

/-- the decision is the correct one: the chosen neighbour is within half a unit -/
theorem round_close {V k c dg : Nat} {st : Bool} (h : RInv V k c dg st) (up : Prop)
    (hup : up ↔ (if st then dg ≥ 5 else (dg > 5 || (dg == 5 && c % 2 == 1)))) :
    (¬ up → Close V k c) ∧ (up → Close V k (c + 1)) := by
  obtain ⟨t, h1, h2, h3, h4⟩ := h
  rw [Nat.pow_succ] at h1
  have hp : 0 < 10 ^ k := Nat.pow_pos (by decide)
  unfold Close
  rw [hup]
  generalize 10 ^ k = P at *
  have e1 : c * (P * 10) = 10 * (c * P) := by grind
  have e2 : 2 * (c + 1) * P = 2 * (c * P) + 2 * P := by grind
  have e3 : 2 * c * P = 2 * (c * P) := by grind
  rw [e2, e3]
  rw [e1] at h1
  generalize c * P = cP at *
  have hub : dg * P ≤ 9 * P := Nat.mul_le_mul_right _ (by omega)
  cases st with
  | true =>
    have ht : t ≠ 0 := h4.mp rfl
    simp only [if_true]
    constructor
    · intro hd
      have : dg * P ≤ 4 * P := Nat.mul_le_mul_right _ (by omega)
      omega
    · intro hd
      have : 5 * P ≤ dg * P := Nat.mul_le_mul_right _ (by omega)
      omega
  | false =>
    have ht : t = 0 := by
      by_cases h : t = 0
      · exact h
      · exact absurd (h4.mpr h) (by simp)
    subst ht
    simp only [Bool.false_eq_true, if_false]
    constructor
    · intro hd
      have : dg ≤ 5 := by
        apply Nat.le_of_not_lt; intro h6
        exact hd (by simp; omega)
      have : dg * P ≤ 5 * P := Nat.mul_le_mul_right _ this
      omega
    · intro hd
      have : 5 ≤ dg := by
        simp only [Bool.or_eq_true, decide_eq_true_eq, Bool.and_eq_true, beq_iff_eq] at hd
        omega
      have : 5 * P ≤ dg * P := Nat.mul_le_mul_right _ this
      omega

/-- the round-half-even decision -/
def RoundUp (c dg : Nat) (st : Bool) : Prop :=
  if st = true then dg ≥ 5 else (decide (dg > 5) || (dg == 5 && c % 2 == 1)) = true

instance (c dg : Nat) (st : Bool) : Decidable (RoundUp c dg st) := by unfold RoundUp; exact inferInstance

theorem roundEven_succ (fuel c : Nat) (e : Int) (dg : Nat) (st : Bool) :
    roundEven (fuel + 1) c e dg st =
      (if RoundUp c dg st then
        (if c + 1 > MAXSIG then roundEven fuel (c / 10) (e + 1) (c % 10) (st || dg != 0) else (c + 1, e))
       else (c, e)) := by
  simp only [roundEven]; rfl

theorem roundEven_nocarry {V k c dg : Nat} {st : Bool} (fuel : Nat) (e : Int) (h : RInv V k c dg st)
    (hc : c + 1 ≤ MAXSIG) :
    ∃ c4, roundEven (fuel + 1) c e dg st = (c4, e) ∧ Close V k c4 ∧ c ≤ c4 ∧ c4 ≤ c + 1 ∧ (dg > 5 → c4 = c + 1) := by
  rw [roundEven_succ]
  by_cases hup : RoundUp c dg st
  · have := (round_close h _ Iff.rfl).2 hup
    simp only [hup, if_true, Nat.not_lt.mpr hc, if_false]
    exact ⟨c + 1, rfl, this, by omega, by omega, fun _ => rfl⟩
  · have := (round_close h _ Iff.rfl).1 hup
    simp only [hup, if_false]
    refine ⟨c, rfl, this, by omega, by omega, fun h6 => ?_⟩
    exfalso; apply hup
    unfold RoundUp
    cases st <;> simp <;> omega

theorem roundEven_spec {V k c dg : Nat} {st : Bool} (fuel : Nat) (e : Int) (h : RInv V k c dg st) (hc : c ≤ MAXSIG) :
    ∃ c4 j, roundEven (fuel + 2) c e dg st = (c4, e + (j : Nat)) ∧ Close V (k + j) c4 ∧ c4 ≤ MAXSIG ∧
      ((MAXSIG + 1) / 10 ≤ c → (MAXSIG + 1) / 10 ≤ c4) := by
  by_cases hc1 : c + 1 ≤ MAXSIG
  · obtain ⟨c4, h1, h2, h3, h4, _⟩ := roundEven_nocarry (fuel + 1) e h hc1
    exact ⟨c4, 0, by simpa using h1, by simpa using h2, by omega, by omega⟩
  · have hcM : c = MAXSIG := by omega
    rw [roundEven_succ]
    by_cases hup : RoundUp c dg st
    · have hgt : c + 1 > MAXSIG := by omega
      simp only [hup, hgt, if_true]
      have h10 : c / 10 + 1 ≤ MAXSIG := by rw [MAXSIG_val] at *; omega
      obtain ⟨c4, h1, h2, h3, h4, h5⟩ := roundEven_nocarry fuel (e + 1) (RInv_step h) h10
      have h9 : c % 10 > 5 := by rw [hcM, MAXSIG_val]; decide
      have := h5 h9
      refine ⟨c4, 1, by rw [h1]; simp, h2, by omega, fun _ => ?_⟩
      rw [this, hcM, MAXSIG_val]; decide
    · have := (round_close h _ Iff.rfl).1 hup
      simp only [hup, if_false]
      exact ⟨c, 0, by simp, by simpa using this, hc, fun h => h⟩

theorem scaleUp_full (fuel c : Nat) (e : Int) (hc : MAXSIG < c * 10) : scaleUp fuel c e = (c, e) := by
  cases fuel with
  | zero => rfl
  | succ fuel => unfold scaleUp; simp [Nat.not_le.mpr hc]

theorem lt_two_pow_fuel (c : Nat) : c < 2 ^ (Nat.log2 (c + 1) + 2) := by
  have h1 : c + 1 < 2 ^ (Nat.log2 (c + 1) + 1) := Nat.lt_log2_self
  rw [Nat.pow_succ]
  omega

/-- **`reduce_close`**: a coefficient that does not fit (`c > MAXSIG`) at an exponent `e ≥ EMIN` (no gradual
    underflow) is rounded correctly: `k ≥ 1` digits are dropped, the kept coefficient `c4` satisfies
    `10^33 ≤ c4 ≤ MAXSIG` (at least 34 significant digits are kept) and `|c − c4·10^k| ≤ 10^k / 2` — half a unit of
    the last kept digit, hence at most half a unit of the 34th significant digit.  The result is `c4·10^(e+k)`, or
    ±Inf when `e + k > EMAX`. -/
theorem reduce_close (neg : Bool) (c : Nat) (e : Int) (hc : MAXSIG < c) (he : EMIN ≤ e) :
    ∃ c4 k, 1 ≤ k ∧ c4 ≤ MAXSIG ∧ 10 ^ 33 ≤ c4 ∧ Close c k c4 ∧
      reduce neg c e false = if e + (k : Nat) > EMAX then .inf neg else normalize (.fin neg c4 (e + (k : Nat))) := by
  have hc0 : c ≠ 0 := by rw [MAXSIG_val] at hc; omega
  obtain ⟨j, c1, d1, s1, h1, h2, h3, _, h5⟩ :=
    dropHigh_spec c (Nat.log2 (c + 1) + 2) c e 0 false 0 (RInv_init c) (lt_two_pow_fuel c)
  obtain ⟨hj, hc1⟩ := h5 hc
  obtain ⟨c4, j', r1, r2, r3, r4⟩ := roundEven_spec 1 (e + (j : Nat)) h2 h3
  have hc4 := r4 hc1
  refine ⟨c4, j + j', by omega, r3, by rw [MAXSIG_val] at hc4; omega, by simpa using r2, ?_⟩
  unfold reduce
  simp only [hc0, false_and, if_false]
  rw [h1]
  simp only []
  rw [dropLow_id _ _ _ _ _ (by omega)]
  simp only []
  have hlt : ¬ (e + (j : Int) < EMIN) := by omega
  simp only [hlt, if_false]
  rw [scaleUp_full _ _ _ (by rw [MAXSIG_val] at *; omega)]
  simp only []
  rw [r1]
  simp only []
  have : e + (j : Int) + (j' : Int) = e + ((j + j' : Nat) : Int) := by omega
  rw [this]

/-! ### rounding of a quotient `X / D` -/

/-- as `RInv`, for the rational value `X / D` -/
def RInvD (X D k c dg : Nat) (st : Bool) : Prop :=
  ∃ t, 10 * X = (c * 10 ^ (k + 1) + dg * 10 ^ k) * D + t ∧ t < 10 ^ k * D ∧ dg < 10 ∧ (st = true ↔ t ≠ 0)

/-- `c4·10^k` is within half a unit `10^k` of `X / D` -/
def CloseD (X D k c4 : Nat) : Prop :=
  2 * X ≤ (2 * c4 * 10 ^ k + 10 ^ k) * D ∧ 2 * c4 * 10 ^ k * D ≤ 2 * X + 10 ^ k * D

theorem RInvD_step {X D k c dg : Nat} {st : Bool} (h : RInvD X D k c dg st) :
    RInvD X D (k + 1) (c / 10) (c % 10) (st || dg != 0) := by
  obtain ⟨t, h1, h2, h3, h4⟩ := h
  refine ⟨dg * 10 ^ k * D + t, ?_, ?_, by omega, ?_⟩
  · have hc : c = 10 * (c / 10) + c % 10 := by omega
    generalize c / 10 = q at *
    generalize c % 10 = r at *
    subst hc
    rw [h1]
    simp only [Nat.pow_succ]
    grind
  · rw [Nat.pow_succ]
    have : dg * 10 ^ k * D ≤ 9 * 10 ^ k * D := Nat.mul_le_mul_right _ (Nat.mul_le_mul_right _ (by omega))
    have e : 10 ^ k * 10 * D = 9 * 10 ^ k * D + 10 ^ k * D := by grind
    omega
  · by_cases hd : dg = 0
    · subst hd; simp [h4]
    · have hp : 0 < 10 ^ k * D := by
        rcases Nat.eq_zero_or_pos (10 ^ k * D) with h0 | h0
        · rw [h0] at h2; omega
        · exact h0
      have : 10 ^ k * D ≤ dg * (10 ^ k * D) := Nat.le_mul_of_pos_left _ (by omega)
      rw [← Nat.mul_assoc] at this
      simp [hd]; omega

theorem round_closeD {X D k c dg : Nat} {st : Bool} (h : RInvD X D k c dg st) (up : Prop)
    (hup : up ↔ (if st then dg ≥ 5 else (dg > 5 || (dg == 5 && c % 2 == 1)))) :
    (¬ up → CloseD X D k c) ∧ (up → CloseD X D k (c + 1)) := by
  obtain ⟨t, h1, h2, h3, h4⟩ := h
  rw [Nat.pow_succ] at h1
  unfold CloseD
  rw [hup]
  generalize 10 ^ k = P at *
  have e1 : (c * (P * 10) + dg * P) * D = 10 * (c * P * D) + dg * (P * D) := by grind
  have e2 : (2 * (c + 1) * P + P) * D = 2 * (c * P * D) + 3 * (P * D) := by grind
  have e3 : (2 * c * P + P) * D = 2 * (c * P * D) + P * D := by grind
  have e4 : 2 * (c + 1) * P * D = 2 * (c * P * D) + 2 * (P * D) := by grind
  have e5 : 2 * c * P * D = 2 * (c * P * D) := by grind
  rw [e2, e3, e4, e5]
  rw [e1] at h1
  generalize c * P * D = cPD at *
  generalize P * D = PD at *
  have hub : dg * PD ≤ 9 * PD := Nat.mul_le_mul_right _ (by omega)
  cases st with
  | true =>
    have ht : t ≠ 0 := h4.mp rfl
    simp only [if_true]
    constructor
    · intro hd
      have : dg * PD ≤ 4 * PD := Nat.mul_le_mul_right _ (by omega)
      omega
    · intro hd
      have : 5 * PD ≤ dg * PD := Nat.mul_le_mul_right _ (by omega)
      omega
  | false =>
    have ht : t = 0 := by
      by_cases h : t = 0
      · exact h
      · exact absurd (h4.mpr h) (by simp)
    subst ht
    simp only [Bool.false_eq_true, if_false]
    constructor
    · intro hd
      have : dg ≤ 5 := by
        apply Nat.le_of_not_lt; intro h6
        exact hd (by simp; omega)
      have : dg * PD ≤ 5 * PD := Nat.mul_le_mul_right _ this
      omega
    · intro hd
      have : 5 ≤ dg := by
        simp only [Bool.or_eq_true, decide_eq_true_eq, Bool.and_eq_true, beq_iff_eq] at hd
        omega
      have : 5 * PD ≤ dg * PD := Nat.mul_le_mul_right _ this
      omega

theorem dropHigh_specD (X D : Nat) : ∀ (fuel c : Nat) (e : Int) (dg : Nat) (st : Bool) (k : Nat),
    RInvD X D k c dg st → c < 2 ^ fuel →
    ∃ j c' dg' st', dropHigh fuel c e dg st = (c', e + (j : Nat), dg', st') ∧ RInvD X D (k + j) c' dg' st' ∧
      c' ≤ MAXSIG ∧ (c ≤ MAXSIG → j = 0 ∧ c' = c) ∧ (MAXSIG < c → 1 ≤ j ∧ (MAXSIG + 1) / 10 ≤ c')
  | 0, c, e, dg, st, k, h, hc => by
    have : c = 0 := by simpa using hc
    subst this
    exact ⟨0, 0, dg, st, by simp [dropHigh], by simpa using h, by simp, by simp, by simp [MAXSIG_val]⟩
  | fuel + 1, c, e, dg, st, k, h, hc => by
    unfold dropHigh
    by_cases hgt : c > MAXSIG
    · simp only [hgt, if_true]
      obtain ⟨j, c', dg', st', h1, h2, h3, h4, h5⟩ :=
        dropHigh_specD X D fuel (c / 10) (e + 1) (c % 10) (st || dg != 0) (k + 1) (RInvD_step h)
          (by rw [Nat.pow_succ] at hc; omega)
      refine ⟨j + 1, c', dg', st', ?_, ?_, h3, by omega, fun _ => ⟨by omega, ?_⟩⟩
      · rw [h1]; simp only [Prod.mk.injEq, true_and, and_true]; omega
      · have : k + (j + 1) = k + 1 + j := by omega
        rw [this]; exact h2
      · by_cases h10 : c / 10 ≤ MAXSIG
        · rw [(h4 h10).2]; rw [MAXSIG_val] at *; omega
        · exact (h5 (by omega)).2
    · simp only [hgt, if_false]
      exact ⟨0, c, dg, st, by simp, by simpa using h, by omega, fun _ => ⟨rfl, rfl⟩, fun h' => h'.elim⟩

theorem roundEven_nocarryD {X D k c dg : Nat} {st : Bool} (fuel : Nat) (e : Int) (h : RInvD X D k c dg st)
    (hc : c + 1 ≤ MAXSIG) :
    ∃ c4, roundEven (fuel + 1) c e dg st = (c4, e) ∧ CloseD X D k c4 ∧ c ≤ c4 ∧ c4 ≤ c + 1 ∧ (dg > 5 → c4 = c + 1) := by
  rw [roundEven_succ]
  by_cases hup : RoundUp c dg st
  · have := (round_closeD h _ Iff.rfl).2 hup
    simp only [hup, if_true, Nat.not_lt.mpr hc, if_false]
    exact ⟨c + 1, rfl, this, by omega, by omega, fun _ => rfl⟩
  · have := (round_closeD h _ Iff.rfl).1 hup
    simp only [hup, if_false]
    refine ⟨c, rfl, this, by omega, by omega, fun h6 => ?_⟩
    exfalso; apply hup
    unfold RoundUp
    cases st <;> simp <;> omega

theorem roundEven_specD {X D k c dg : Nat} {st : Bool} (fuel : Nat) (e : Int) (h : RInvD X D k c dg st)
    (hc : c ≤ MAXSIG) :
    ∃ c4 j, roundEven (fuel + 2) c e dg st = (c4, e + (j : Nat)) ∧ CloseD X D (k + j) c4 ∧ c4 ≤ MAXSIG ∧
      ((MAXSIG + 1) / 10 ≤ c → (MAXSIG + 1) / 10 ≤ c4) := by
  by_cases hc1 : c + 1 ≤ MAXSIG
  · obtain ⟨c4, h1, h2, h3, h4, _⟩ := roundEven_nocarryD (fuel + 1) e h hc1
    exact ⟨c4, 0, by simpa using h1, by simpa using h2, by omega, by omega⟩
  · have hcM : c = MAXSIG := by omega
    rw [roundEven_succ]
    by_cases hup : RoundUp c dg st
    · have hgt : c + 1 > MAXSIG := by omega
      simp only [hup, hgt, if_true]
      have h10 : c / 10 + 1 ≤ MAXSIG := by rw [MAXSIG_val] at *; omega
      obtain ⟨c4, h1, h2, h3, h4, h5⟩ := roundEven_nocarryD fuel (e + 1) (RInvD_step h) h10
      have h9 : c % 10 > 5 := by rw [hcM, MAXSIG_val]; decide
      have := h5 h9
      refine ⟨c4, 1, by rw [h1]; simp, h2, by omega, fun _ => ?_⟩
      rw [this, hcM, MAXSIG_val]; decide
    · have := (round_closeD h _ Iff.rfl).1 hup
      simp only [hup, if_false]
      exact ⟨c, 0, by simp, by simpa using this, hc, fun h => h⟩

/-- **`reduce` of an integer part `q` with a sticky fraction**: `X = q·D + r`, `0 ≤ r < D`, the exact value is `X / D`;
    when `q > MAXSIG` (digits must be dropped anyway) the result is the correctly rounded `X / D`. -/
theorem reduce_closeD (neg : Bool) (q r D : Nat) (e : Int) (hr : r < D) (hq : MAXSIG < q) (he : EMIN ≤ e) :
    ∃ c4 k, 1 ≤ k ∧ c4 ≤ MAXSIG ∧ 10 ^ 33 ≤ c4 ∧ CloseD (q * D + r) D k c4 ∧
      reduce neg q e (r != 0) = if e + (k : Nat) > EMAX then .inf neg else normalize (.fin neg c4 (e + (k : Nat))) := by
  have hq0 : q ≠ 0 := by rw [MAXSIG_val] at hq; omega
  -- the state after the first dropped digit satisfies the invariant
  have hinv : RInvD (q * D + r) D 1 (q / 10) (q % 10) (r != 0) := by
    refine ⟨10 * r, ?_, by omega, by omega, by simp; omega⟩
    have hc : q = 10 * (q / 10) + q % 10 := by omega
    generalize q / 10 = a at *
    generalize q % 10 = b at *
    subst hc
    grind
  have hfuel : q / 10 < 2 ^ (Nat.log2 (q + 1) + 1) := by
    have := lt_two_pow_fuel q
    rw [Nat.pow_succ] at this
    omega
  obtain ⟨j, c1, d1, s1, h1, h2, h3, h4, h5⟩ :=
    dropHigh_specD (q * D + r) D (Nat.log2 (q + 1) + 1) (q / 10) (e + 1) (q % 10) (r != 0) 1 hinv hfuel
  have hc1 : (MAXSIG + 1) / 10 ≤ c1 := by
    by_cases h10 : q / 10 ≤ MAXSIG
    · rw [(h4 h10).2]; rw [MAXSIG_val] at *; omega
    · exact (h5 (by omega)).2
  obtain ⟨c4, j', r1, r2, r3, r4⟩ := roundEven_specD 1 (e + 1 + (j : Nat)) h2 h3
  have hc4 := r4 hc1
  refine ⟨c4, 1 + j + j', by omega, r3, by rw [MAXSIG_val] at hc4; omega, r2, ?_⟩
  unfold reduce
  simp only [hq0, false_and, if_false]
  have hdrop : dropHigh (Nat.log2 (q + 1) + 2) q e 0 (r != 0) = (c1, e + 1 + (j : Nat), d1, s1) := by
    rw [show Nat.log2 (q + 1) + 2 = (Nat.log2 (q + 1) + 1) + 1 from rfl]
    unfold dropHigh
    simp only [hq, if_true, bne_self_eq_false, Bool.or_false]
    exact h1
  rw [hdrop]
  simp only []
  rw [dropLow_id _ _ _ _ _ (by omega)]
  simp only []
  have hlt : ¬ (e + 1 + (j : Int) < EMIN) := by omega
  simp only [hlt, if_false]
  rw [scaleUp_full _ _ _ (by rw [MAXSIG_val] at *; omega)]
  simp only []
  rw [r1]
  simp only []
  have : e + 1 + (j : Int) + (j' : Int) = e + ((1 + j + j' : Nat) : Int) := by omega
  rw [this]

theorem lt_pow_ndigitsAux : ∀ (fuel c : Nat), c < 2 ^ fuel → c < 10 ^ ndigitsAux fuel c
  | 0, c, h => by simp at h; subst h; simp [ndigitsAux]
  | fuel + 1, c, h => by
    unfold ndigitsAux
    by_cases hc : c = 0
    · simp [hc]
    · simp only [hc, if_false]
      have ih := lt_pow_ndigitsAux fuel (c / 10) (by rw [Nat.pow_succ] at h; omega)
      rw [Nat.add_comm, Nat.pow_succ]
      omega

/-- `c` has at most `ndigits c` decimal digits -/
theorem lt_pow_ndigits (c : Nat) : c < 10 ^ ndigits c := by
  unfold ndigits
  apply lt_pow_ndigitsAux
  have : c < 2 ^ (Nat.log2 c + 1) := Nat.lt_log2_self
  rw [Nat.pow_succ]; omega

/-- the scaled integer quotient used by `quoFin` always has more than 34 digits -/
theorem quoFin_q_big (c1 c2 : Nat) (h1 : c1 ≠ 0) (h2 : c2 ≠ 0) : MAXSIG < c1 * 10 ^ (40 + ndigits c2) / c2 := by
  have hlt := lt_pow_ndigits c2
  have h40 : MAXSIG < 10 ^ 40 := by decide
  refine Nat.lt_of_lt_of_le h40 ?_
  rw [Nat.le_div_iff_mul_le (Nat.pos_of_ne_zero h2), Nat.pow_add]
  have : 10 ^ 40 * c2 ≤ 10 ^ 40 * 10 ^ ndigits c2 := Nat.mul_le_mul_left _ (Nat.le_of_lt hlt)
  exact Nat.le_trans this (Nat.le_mul_of_pos_left _ (Nat.pos_of_ne_zero h1))

/-- **`quo_close`**: every quotient of non-zero finite decimals whose exponent does not underflow is the exact
    quotient `c1·10^K / c2` (`K = 40 + ndigits c2`) correctly rounded: kept coefficient `10^33 ≤ c4 ≤ MAXSIG`,
    `|c1·10^K / c2 − c4·10^k| ≤ 10^k / 2`. -/
theorem quo_close (n1 n2 : Bool) (c1 c2 : Nat) (e1 e2 : Int) (h1 : c1 ≠ 0) (h2 : c2 ≠ 0)
    (he : EMIN ≤ e1 - e2 - ((40 + ndigits c2 : Nat) : Int)) :
    ∃ c4 k, 1 ≤ k ∧ c4 ≤ MAXSIG ∧ 10 ^ 33 ≤ c4 ∧ CloseD (c1 * 10 ^ (40 + ndigits c2)) c2 k c4 ∧
      Dec.quo (.fin n1 c1 e1) (.fin n2 c2 e2) =
        if e1 - e2 - ((40 + ndigits c2 : Nat) : Int) + (k : Nat) > EMAX then .inf (n1 != n2)
        else normalize (.fin (n1 != n2) c4 (e1 - e2 - ((40 + ndigits c2 : Nat) : Int) + (k : Nat))) := by
  have hq := quoFin_q_big c1 c2 h1 h2
  have hr : c1 * 10 ^ (40 + ndigits c2) % c2 < c2 := Nat.mod_lt _ (Nat.pos_of_ne_zero h2)
  obtain ⟨c4, k, hk, hc4, hc4', hcl, hred⟩ :=
    reduce_closeD (n1 != n2) _ _ c2 (e1 - e2 - ((40 + ndigits c2 : Nat) : Int)) hr hq he
  refine ⟨c4, k, hk, hc4, hc4', ?_, ?_⟩
  · rw [Nat.div_add_mod'] at hcl; exact hcl
  · simp only [Dec.quo, h1, h2, if_false, quoFin, pow10]
    exact hred

/-! ### `sum`: a left fold of exact additions -/

/-- the accumulator `acc` holds the exact integer `P` (in units of `10^m`) -/
def Rep (m : Int) (acc : Dec) (P : Int) : Prop :=
  (P = 0 ∧ ∃ b, acc = .fin b 0 0) ∨ (P ≠ 0 ∧ acc = normalize (.fin (decide (P < 0)) P.natAbs m))

theorem sval_natAbs_le (n : Bool) (c : Nat) (e m : Int) : (sval n c e m).natAbs = c * 10 ^ (e - m).toNat := by
  unfold sval pow10
  generalize 10 ^ (e - m).toNat = p
  cases n <;> simp [Int.natAbs_neg] <;> omega

theorem sval_eq_zero_iff (n : Bool) (c : Nat) (e m : Int) : sval n c e m = 0 ↔ c = 0 := by
  have h := sval_natAbs_le n c e m
  have hp : 0 < 10 ^ (e - m).toNat := Nat.pow_pos (by decide)
  constructor
  · intro h0
    rw [h0] at h
    rcases Nat.mul_eq_zero.mp h.symm with h | h <;> omega
  · intro hc; subst hc; simp [sval]

/-- `normalize` only depends on the value: the signed coefficient may be written at any lower exponent -/
theorem normalize_sval (n : Bool) (c : Nat) (e m : Int) (hm : m ≤ e) (hc : c ≠ 0) :
    normalize (.fin (decide (sval n c e m < 0)) (sval n c e m).natAbs m) = normalize (.fin n c e) := by
  rw [sval_natAbs_le, normalize_shift]
  have : m + ((e - m).toNat : Int) = e := by omega
  rw [this]
  have hs : decide (sval n c e m < 0) = n := by
    have hp : 0 < c * 10 ^ (e - m).toNat := Nat.mul_pos (Nat.pos_of_ne_zero hc) (Nat.pow_pos (by decide))
    unfold sval pow10
    generalize 10 ^ (e - m).toNat = p at hp
    cases n <;> simp <;> omega
  rw [hs]

theorem rep_step (m : Int) (hm : EMIN ≤ m) {acc : Dec} {P : Int} (h : Rep m acc P) (n : Bool) (c : Nat) (e : Int)
    (he : m ≤ e) (he' : e ≤ EMAX) (hfit : P.natAbs + c * 10 ^ (e - m).toNat ≤ MAXSIG) :
    Rep m (Dec.add acc (.fin n c e)) (P + sval n c e m) := by
  rcases h with ⟨hP, b, rfl⟩ | ⟨hP, rfl⟩
  · subst hP
    simp only [Int.zero_add]
    by_cases hc : c = 0
    · subst hc
      left
      exact ⟨by simp [sval], b && n, by simp [Dec.add, addFin]⟩
    · right
      refine ⟨fun h0 => hc ((sval_eq_zero_iff n c e m).mp h0), ?_⟩
      rw [normalize_sval n c e m he hc]
      simp [Dec.add, addFin, hc]
  · obtain ⟨p', k, hn, hk, hp'⟩ := normalize_spec (decide (P < 0)) P.natAbs m (by omega)
    have hp0 : p' ≠ 0 := by intro h; subst h; simp at hp'
    rw [hn]
    by_cases hc : c = 0
    · subst hc
      right
      have : sval n 0 e m = 0 := by simp [sval]
      rw [this, Int.add_zero]
      refine ⟨hP, ?_⟩
      have : Dec.add (.fin (decide (P < 0)) p' (m + k)) (.fin n 0 e) = normalize (.fin (decide (P < 0)) p' (m + k)) := by
        simp [Dec.add, addFin, hp0]
      rw [this, ← hn, normalize_idem]
    · -- both non-zero: `add_exact` at the exponent `em = min (m + k) e ≥ m`
      have hem : m ≤ min (m + (k : Int)) e := by omega
      -- P as the signed value of the normalised accumulator
      have hPs : sval (decide (P < 0)) p' (m + k) m = P := by
        unfold sval pow10
        have : (m + (k : Int) - m).toNat = k := by omega
        rw [this, ← hk]
        by_cases hneg : P < 0 <;> simp [hneg] <;> omega
      have hs1 := sval_shift (decide (P < 0)) p' (m + k) (min (m + (k : Int)) e) m hem (by omega)
      have hs2 := sval_shift n c e (min (m + (k : Int)) e) m hem (by omega)
      rw [hPs] at hs1
      generalize hT : ((10 ^ (min (m + (k : Int)) e - m).toNat : Nat) : Int) = T at hs1 hs2
      have hTpos : 0 < T := by rw [← hT]; exact Int.natCast_pos.mpr (Nat.pow_pos (by decide))
      generalize hs' : sval (decide (P < 0)) p' (m + k) (min (m + (k : Int)) e) + sval n c e (min (m + (k : Int)) e) = s'
      have hP' : P + sval n c e m = s' * T := by rw [hs1, hs2, ← hs', Int.add_mul]
      have habs : (P + sval n c e m).natAbs = s'.natAbs * (10 ^ (min (m + (k : Int)) e - m).toNat) := by
        rw [hP', Int.natAbs_mul, ← hT]; simp
      have hle : s'.natAbs ≤ MAXSIG := by
        have h1 : s'.natAbs ≤ (P + sval n c e m).natAbs := by
          rw [habs]; exact Nat.le_mul_of_pos_right _ (Nat.pow_pos (by decide))
        have h2 : (P + sval n c e m).natAbs ≤ P.natAbs + (sval n c e m).natAbs := Int.natAbs_add_le _ _
        rw [sval_natAbs_le] at h2
        omega
      have hadd : Dec.add (.fin (decide (P < 0)) p' (m + k)) (.fin n c e) =
          normalize (.fin (decide (s' < 0)) s'.natAbs (min (m + (k : Int)) e)) := by
        show addFin _ _ _ _ _ _ = _
        unfold addFin
        simp only [hp0, hc, if_false]
        have := hs'
        unfold sval at this
        rw [this]
        by_cases h0 : s' = 0
        · simp [h0, normalize_zero]
        · simp only [h0, if_false]
          exact reduce_exact _ _ _ hle (by omega) (by omega)
      rw [hadd]
      by_cases h0 : s' = 0
      · left
        subst h0
        refine ⟨by rw [hP']; simp, false, by simp [normalize_zero]⟩
      · right
        have hne : P + sval n c e m ≠ 0 := by
          rw [hP']; intro h
          rcases Int.mul_eq_zero.mp h with h | h <;> omega
        refine ⟨hne, ?_⟩
        rw [habs, normalize_shift]
        have hsgn : decide (P + sval n c e m < 0) = decide (s' < 0) := by
          rw [hP']
          by_cases hneg : s' < 0
          · have : s' * T < 0 := Int.mul_neg_of_neg_of_pos hneg hTpos
            simp [hneg, this]
          · have : 0 ≤ s' * T := Int.mul_nonneg (by omega) (by omega)
            simp [hneg]; omega
        rw [hsgn]
        have : m + ((min (m + (k : Int)) e - m).toNat : Int) = min (m + (k : Int)) e := by omega
        rw [this]

/-- the exact sum of finite decimals `(neg, c, e)` as an integer in units of `10^m` -/
def exactSum (m : Int) : List (Bool × Nat × Int) → Int
  | [] => 0
  | t :: ts => sval t.1 t.2.1 t.2.2 m + exactSum m ts

/-- the sum of the magnitudes, in units of `10^m` -/
def magSum (m : Int) : List (Bool × Nat × Int) → Nat
  | [] => 0
  | t :: ts => t.2.1 * 10 ^ (t.2.2 - m).toNat + magSum m ts

theorem fold_rep (m : Int) (hm : EMIN ≤ m) : ∀ (ts : List (Bool × Nat × Int)) (acc : Dec) (P : Int), Rep m acc P →
    (∀ t ∈ ts, m ≤ t.2.2 ∧ t.2.2 ≤ EMAX) → P.natAbs + magSum m ts ≤ MAXSIG →
    Rep m (ts.foldl (fun a t => Dec.add a (.fin t.1 t.2.1 t.2.2)) acc) (P + exactSum m ts)
  | [], acc, P, h, _, _ => by simpa [exactSum] using h
  | t :: ts, acc, P, h, he, hfit => by
    simp only [List.foldl_cons, exactSum, magSum] at *
    have het := he t (List.mem_cons_self ..)
    have hstep := rep_step m hm h t.1 t.2.1 t.2.2 het.1 het.2 (by omega)
    have hle : (P + sval t.1 t.2.1 t.2.2 m).natAbs ≤ P.natAbs + t.2.1 * 10 ^ (t.2.2 - m).toNat := by
      have := Int.natAbs_add_le P (sval t.1 t.2.1 t.2.2 m)
      rw [sval_natAbs_le] at this
      exact this
    have := fold_rep m hm ts _ _ hstep (fun t' ht' => he t' (List.mem_cons_of_mem _ ht')) (by omega)
    rw [Int.add_assoc] at this
    exact this

end Dec

theorem sumDec_eq_fold : ∀ (xs : List Val) (ts : List (Bool × Nat × Int)) (acc : Dec),
    xs.map toDecimal = ts.map (fun t => some (Dec.fin t.1 t.2.1 t.2.2)) →
    sumDec xs acc = some (ts.foldl (fun a t => Dec.add a (.fin t.1 t.2.1 t.2.2)) acc)
  | [], [], acc, _ => rfl
  | [], _ :: _, _, h => by simp at h
  | _ :: _, [], _, h => by simp at h
  | x :: xs, t :: ts, acc, h => by
    simp only [List.map_cons, List.cons.injEq] at h
    simp only [sumDec, h.1, List.foldl_cons]
    exact sumDec_eq_fold xs ts _ h.2

/-- **`sum` is exact**: for an array of finite decimals `(-1)^n·c·10^e` with exponents in `[m, EMAX]`, `m ≥ EMIN`,
    whose magnitudes add up (in units of `10^m`) to at most `MAXSIG` — in particular to at most 34 digits — `sum`
    returns the mathematically exact sum `exactSum m ts · 10^m` (normalised; a zero sum is a zero). -/
theorem numSum_exact (m : Int) (hm : Dec.EMIN ≤ m) (t : ATag) (xs : List Val) (ts : List (Bool × Nat × Int))
    (hx : xs.map toDecimal = ts.map (fun t => some (Dec.fin t.1 t.2.1 t.2.2)))
    (he : ∀ t ∈ ts, m ≤ t.2.2 ∧ t.2.2 ≤ Dec.EMAX) (hfit : Dec.magSum m ts ≤ Dec.MAXSIG) (hok : enumSumOk t xs = true) :
    ∃ r, numSum (.arr t xs) = .ok (.num (.dec r)) ∧ Dec.Rep m r (Dec.exactSum m ts) := by
  have hrep := Dec.fold_rep m hm ts Dec.zero 0 (Or.inl ⟨rfl, false, rfl⟩) he (by simpa using hfit)
  rw [Int.zero_add] at hrep
  refine ⟨_, ?_, hrep⟩
  simp only [numSum, sumDec_eq_fold xs ts _ hx, hok, if_true]
  rcases hrep with ⟨_, b, hb⟩ | ⟨hne, hb⟩
  · rw [hb]; rfl
  · obtain ⟨c', k, hn, _, _⟩ := Dec.normalize_spec (decide (Dec.exactSum m ts < 0)) (Dec.exactSum m ts).natAbs m (by omega)
    rw [hb, hn]; rfl

end Jmes
