/-
  Helper for property C14 (second round): the structural induction over expressions.  If every operator occurring
  in the expression is congruent for the relation `VR` (the comparison operators and almost all builtins are,
  unconditionally: see `Jmes/Properties/C14B.lean`), evaluation maps related documents to related outcomes.
-/
import Jmes.Proofs.C14BLemmasFn
namespace Jmes

mutual
/-- every binary operator of the expression satisfies `P`, every builtin `Q`, `N` holds if unary minus occurs,
    every literal satisfies `L` -/
def Tree.Ops (P : BinOp → Prop) (Q : Fn → Prop) (N : Prop) (L : Val → Prop) : Tree → Prop
  | .lit v => L v
  | .current | .root | .field _ | .var _ | .index _ | .slice _ _ | .sliceStep _ _ _ => True
  | .binop op l r => P op ∧ l.Ops P Q N L ∧ r.Ops P Q N L
  | .sub l r | .and l r | .or l r | .proj l r | .sliceProj l r | .flatProj l r | .valueProj l r
  | .groupBy l r | .map l r | .maxBy l r | .minBy l r | .sortBy l r => l.Ops P Q N L ∧ r.Ops P Q N L
  | .neg c => N ∧ c.Ops P Q N L
  | .not c | .pos c | .prune c => c.Ops P Q N L
  | .filterProj l c r => l.Ops P Q N L ∧ c.Ops P Q N L ∧ r.Ops P Q N L
  | .call f args => Q f ∧ Tree.OpsL P Q N L args
  | .multiList _ args | .merge args | .notNull args | .zip args => Tree.OpsL P Q N L args
  | .multiHash _ kvs => Tree.OpsF P Q N L kvs
  | .letIn bs body => Tree.OpsF P Q N L bs ∧ body.Ops P Q N L
def Tree.OpsL (P : BinOp → Prop) (Q : Fn → Prop) (N : Prop) (L : Val → Prop) : List Tree → Prop
  | [] => True
  | t :: ts => t.Ops P Q N L ∧ Tree.OpsL P Q N L ts
def Tree.OpsF (P : BinOp → Prop) (Q : Fn → Prop) (N : Prop) (L : Val → Prop) : List (Bytes × Tree) → Prop
  | [] => True
  | (_, t) :: rest => t.Ops P Q N L ∧ Tree.OpsF P Q N L rest
end

mutual
theorem Tree.Ops.mono {P P' : BinOp → Prop} {Q Q' : Fn → Prop} {N N' : Prop} {L L' : Val → Prop}
    (hP : ∀ op, P op → P' op) (hQ : ∀ f, Q f → Q' f) (hN : N → N') (hL : ∀ v, L v → L' v) :
    (t : Tree) → t.Ops P Q N L → t.Ops P' Q' N' L'
  | .lit v, h => by simp only [Tree.Ops] at h ⊢; exact hL v h
  | .current, _ | .root, _ | .field _, _ | .var _, _ | .index _, _ | .slice _ _, _ | .sliceStep _ _ _, _ => by
    simp only [Tree.Ops]
  | .binop op l r, h => by
    simp only [Tree.Ops] at h ⊢
    exact ⟨hP op h.1, Tree.Ops.mono hP hQ hN hL l h.2.1, Tree.Ops.mono hP hQ hN hL r h.2.2⟩
  | .sub l r, h | .and l r, h | .or l r, h | .proj l r, h | .sliceProj l r, h | .flatProj l r, h | .valueProj l r, h
  | .groupBy l r, h | .map l r, h | .maxBy l r, h | .minBy l r, h | .sortBy l r, h => by
    simp only [Tree.Ops] at h ⊢
    exact ⟨Tree.Ops.mono hP hQ hN hL l h.1, Tree.Ops.mono hP hQ hN hL r h.2⟩
  | .neg c, h => by
    simp only [Tree.Ops] at h ⊢
    exact ⟨hN h.1, Tree.Ops.mono hP hQ hN hL c h.2⟩
  | .not c, h | .pos c, h | .prune c, h => by
    simp only [Tree.Ops] at h ⊢
    exact Tree.Ops.mono hP hQ hN hL c h
  | .filterProj l c r, h => by
    simp only [Tree.Ops] at h ⊢
    exact ⟨Tree.Ops.mono hP hQ hN hL l h.1, Tree.Ops.mono hP hQ hN hL c h.2.1, Tree.Ops.mono hP hQ hN hL r h.2.2⟩
  | .call f args, h => by
    simp only [Tree.Ops] at h ⊢
    exact ⟨hQ f h.1, Tree.OpsL.mono hP hQ hN hL args h.2⟩
  | .multiList _ args, h | .merge args, h | .notNull args, h | .zip args, h => by
    simp only [Tree.Ops] at h ⊢
    exact Tree.OpsL.mono hP hQ hN hL args h
  | .multiHash _ kvs, h => by
    simp only [Tree.Ops] at h ⊢
    exact Tree.OpsF.mono hP hQ hN hL kvs h
  | .letIn bs body, h => by
    simp only [Tree.Ops] at h ⊢
    exact ⟨Tree.OpsF.mono hP hQ hN hL bs h.1, Tree.Ops.mono hP hQ hN hL body h.2⟩
theorem Tree.OpsL.mono {P P' : BinOp → Prop} {Q Q' : Fn → Prop} {N N' : Prop} {L L' : Val → Prop}
    (hP : ∀ op, P op → P' op) (hQ : ∀ f, Q f → Q' f) (hN : N → N') (hL : ∀ v, L v → L' v) :
    (ts : List Tree) → Tree.OpsL P Q N L ts → Tree.OpsL P' Q' N' L' ts
  | [], _ => by simp only [Tree.OpsL]
  | t :: ts, h => by
    simp only [Tree.OpsL] at h ⊢
    exact ⟨Tree.Ops.mono hP hQ hN hL t h.1, Tree.OpsL.mono hP hQ hN hL ts h.2⟩
theorem Tree.OpsF.mono {P P' : BinOp → Prop} {Q Q' : Fn → Prop} {N N' : Prop} {L L' : Val → Prop}
    (hP : ∀ op, P op → P' op) (hQ : ∀ f, Q f → Q' f) (hN : N → N') (hL : ∀ v, L v → L' v) :
    (fs : List (Bytes × Tree)) → Tree.OpsF P Q N L fs → Tree.OpsF P' Q' N' L' fs
  | [], _ => by simp only [Tree.OpsF]
  | (k, t) :: rest, h => by
    simp only [Tree.OpsF] at h ⊢
    exact ⟨Tree.Ops.mono hP hQ hN hL t h.1, Tree.OpsF.mono hP hQ hN hL rest h.2⟩
end

namespace C14B
open C14

/-- the binary operator maps related operands to related outcomes -/
def OpCongr (nf : Bool) (op : BinOp) : Prop :=
  ∀ a a' b b', VR nf a a' → VR nf b b' → RR (VR nf) (applyBinOp op a b) (applyBinOp op a' b')

/-- the builtin maps related argument lists to related outcomes -/
def FnCongr (nf : Bool) (f : Fn) : Prop :=
  ∀ args args', VRL nf args args' → RR (VR nf) (applyFn f args) (applyFn f args')

/-- unary minus maps related values to related values -/
def NegCongr (nf : Bool) : Prop := ∀ a a', VR nf a a' → VR nf (negateVal a) (negateVal a')

/-- every operator of the expression is congruent for `VR nf`, every literal is related to itself -/
abbrev TCongr (nf : Bool) (t : Tree) : Prop :=
  t.Ops (OpCongr nf) (FnCongr nf) (NegCongr nf) (fun v => VR nf v v)
abbrev TCongrL (nf : Bool) (ts : List Tree) : Prop :=
  Tree.OpsL (OpCongr nf) (FnCongr nf) (NegCongr nf) (fun v => VR nf v v) ts
abbrev TCongrF (nf : Bool) (fs : List (Bytes × Tree)) : Prop :=
  Tree.OpsF (OpCongr nf) (FnCongr nf) (NegCongr nf) (fun v => VR nf v v) fs

section
variable {nf : Bool}

theorem envGet_rr {env env' : Env} (h : VRF nf env env') (x : Bytes) :
    RR (VR nf) (match env.get x with | some v => Res.ok v | none => Res.err [Cat.undefinedVariable])
      (match env'.get x with | some v => Res.ok v | none => Res.err [Cat.undefinedVariable]) := by
  unfold Env.get
  rcases objLookup_vrf x h with ⟨e1, e2⟩ | ⟨y, y', e1, e2, e3⟩
  · simp only [e1, e2, RR]
  · simp only [e1, e2]; exact RR.ok' e3

mutual
theorem seval_rr {root root' : Val} (hroot : VR nf root root') : (t : Tree) → TCongr nf t →
    ∀ (cur cur' : Val) (env env' : Env), VR nf cur cur' → VRF nf env env' →
      RR (VR nf) (seval root t cur env) (seval root' t cur' env')
  | .lit v, h, _, _, _, _, _, _ => by
    simp only [Tree.Ops] at h
    simp only [seval]; exact RR.ok' h
  | .current, _, _, _, _, _, hc, _ => by simp only [seval]; exact RR.ok' hc
  | .root, _, _, _, _, _, _, _ => by simp only [seval]; exact RR.ok' hroot
  | .field k, _, _, _, _, _, hc, _ => by simp only [seval]; exact RR.ok' (field_vr k hc)
  | .var x, _, _, _, env, env', _, he => by simp only [seval]; exact envGet_rr he x
  | .index i, _, _, _, _, _, hc, _ => by simp only [seval]; exact index_rr hc i
  | .slice a b, _, _, _, _, _, hc, _ => by simp only [seval]; exact slice_rr hc a b
  | .sliceStep a b s, _, _, _, _, _, hc, _ => by simp only [seval]; exact sliceStep_rr hc a b s
  | .sub l r, h, cur, cur', env, env', hc, he => by
    simp only [Tree.Ops] at h
    simp only [seval]
    exact RR.bind (seval_rr hroot l h.1 cur cur' env env' hc he)
      (fun a a' ha => seval_rr hroot r h.2 a a' env env' ha he)
  | .binop op l r, h, cur, cur', env, env', hc, he => by
    simp only [Tree.Ops] at h
    simp only [seval]
    exact RR.bind (seval_rr hroot l h.2.1 cur cur' env env' hc he)
      (fun a a' ha => RR.bind (seval_rr hroot r h.2.2 cur cur' env env' hc he)
        (fun b b' hb => h.1 a a' b b' ha hb))
  | .and l r, h, cur, cur', env, env', hc, he => by
    simp only [Tree.Ops] at h
    simp only [seval]
    refine RR.bind (seval_rr hroot l h.1 cur cur' env env' hc he) (fun a a' ha => ?_)
    rw [isTrue_vr ha]
    split
    · exact RR.ok' ha
    · exact seval_rr hroot r h.2 cur cur' env env' hc he
  | .or l r, h, cur, cur', env, env', hc, he => by
    simp only [Tree.Ops] at h
    simp only [seval]
    refine RR.bind (seval_rr hroot l h.1 cur cur' env env' hc he) (fun a a' ha => ?_)
    rw [isTrue_vr ha]
    split
    · exact RR.ok' ha
    · exact seval_rr hroot r h.2 cur cur' env env' hc he
  | .not c, h, cur, cur', env, env', hc, he => by
    simp only [Tree.Ops] at h
    simp only [seval]
    refine RR.bind (seval_rr hroot c h cur cur' env env' hc he) (fun a a' ha => ?_)
    rw [isTrue_vr ha]; exact RR.ok' (vr_bool _)
  | .neg c, h, cur, cur', env, env', hc, he => by
    simp only [Tree.Ops] at h
    simp only [seval]
    exact RR.bind (seval_rr hroot c h.2 cur cur' env env' hc he) (fun a a' ha => RR.ok' (h.1 a a' ha))
  | .pos c, h, cur, cur', env, env', hc, he => by
    simp only [Tree.Ops] at h
    simp only [seval]
    refine RR.bind (seval_rr hroot c h cur cur' env env' hc he) (fun a a' ha => ?_)
    simp only [Res.pure_eq, isNumber_vr ha]
    split
    · exact RR.ok' ha
    · exact RR.ok' vr_null
  | .call f args, h, cur, cur', env, env', hc, he => by
    simp only [Tree.Ops] at h
    simp only [seval]
    exact RR.bind (sevalList_rr hroot args h.2 cur cur' env env' hc he) (fun vs vs' hvs => h.1 vs vs' hvs)
  | .prune l, h, cur, cur', env, env', hc, he => by
    simp only [Tree.Ops] at h
    simp only [seval]
    exact RR.bind (seval_rr hroot l h cur cur' env env' hc he) (fun a a' ha => RR.ok' (pruneArray_vr ha))
  | .proj l r, h, cur, cur', env, env', hc, he => by
    simp only [Tree.Ops] at h
    simp only [seval]
    exact RR.bind (seval_rr hroot l h.1 cur cur' env env' hc he)
      (fun a a' ha => projectArray_rr (fun x x' hx => seval_rr hroot r h.2 x x' env env' hx he) ha)
  | .sliceProj l r, h, cur, cur', env, env', hc, he => by
    simp only [Tree.Ops] at h
    simp only [seval]
    refine RR.bind (seval_rr hroot l h.1 cur cur' env env' hc he) (fun a a' ha => ?_)
    have hp := projectArray_rr (fun x x' hx => seval_rr hroot r h.2 x x' env env' hx he) ha
    cases a <;> cases a' <;> simp only [VR] at ha <;> try exact hp
    exact seval_rr hroot r h.2 _ _ env env' (by simp only [VR]; exact ha) he
  | .flatProj l r, h, cur, cur', env, env', hc, he => by
    simp only [Tree.Ops] at h
    simp only [seval]
    exact RR.bind (seval_rr hroot l h.1 cur cur' env env' hc he)
      (fun a a' ha => flattenAndProjectArray_rr (fun x x' hx => seval_rr hroot r h.2 x x' env env' hx he) ha)
  | .filterProj l c r, h, cur, cur', env, env', hc, he => by
    simp only [Tree.Ops] at h
    simp only [seval]
    exact RR.bind (seval_rr hroot l h.1 cur cur' env env' hc he)
      (fun a a' ha => filterAndProjectArray_rr (fun x x' hx => seval_rr hroot c h.2.1 x x' env env' hx he)
        (fun x x' hx => seval_rr hroot r h.2.2 x x' env env' hx he) ha)
  | .valueProj l r, h, cur, cur', env, env', hc, he => by
    simp only [Tree.Ops] at h
    simp only [seval]
    exact RR.bind (seval_rr hroot l h.1 cur cur' env env' hc he)
      (fun a a' ha => projectObject_rr (fun x x' hx => seval_rr hroot r h.2 x x' env env' hx he) ha)
  | .multiList chk es, h, cur, cur', env, env', hc, he => by
    simp only [Tree.Ops] at h
    simp only [seval, isNull_vr hc]
    split
    · exact RR.ok' vr_null
    · exact RR.bind (sevalList_rr hroot es h cur cur' env env' hc he) (fun vs vs' hvs => RR.ok' (vr_arr hvs))
  | .multiHash chk kvs, h, cur, cur', env, env', hc, he => by
    simp only [Tree.Ops] at h
    simp only [seval, isNull_vr hc]
    split
    · exact RR.ok' vr_null
    · exact RR.bind (sevalFields_rr hroot kvs h cur cur' env env' hc he) (fun fs fs' hfs => RR.ok' (vr_obj hfs))
  | .letIn bs body, h, cur, cur', env, env', hc, he => by
    simp only [Tree.Ops] at h
    simp only [seval]
    exact RR.bind (sevalFields_rr hroot bs h.1 cur cur' env env' hc he)
      (fun vs vs' hvs => seval_rr hroot body h.2 cur cur' (vs ++ env) (vs' ++ env') hc (vrf_append hvs he))
  | .groupBy a e, h, cur, cur', env, env', hc, he => by
    simp only [Tree.Ops] at h
    simp only [seval]
    exact RR.bind (seval_rr hroot a h.1 cur cur' env env' hc he)
      (fun v v' hv => groupBy_rr (fun x x' hx => seval_rr hroot e h.2 x x' env env' hx he) hv)
  | .map e a, h, cur, cur', env, env', hc, he => by
    simp only [Tree.Ops] at h
    simp only [seval]
    exact RR.bind (seval_rr hroot a h.2 cur cur' env env' hc he)
      (fun v v' hv => mapArray_rr (fun x x' hx => seval_rr hroot e h.1 x x' env env' hx he) hv)
  | .maxBy a e, h, cur, cur', env, env', hc, he => by
    simp only [Tree.Ops] at h
    simp only [seval]
    exact RR.bind (seval_rr hroot a h.1 cur cur' env env' hc he)
      (fun v v' hv => arrayMaxBy_rr (fun x x' hx => seval_rr hroot e h.2 x x' env env' hx he) hv)
  | .minBy a e, h, cur, cur', env, env', hc, he => by
    simp only [Tree.Ops] at h
    simp only [seval]
    exact RR.bind (seval_rr hroot a h.1 cur cur' env env' hc he)
      (fun v v' hv => arrayMinBy_rr (fun x x' hx => seval_rr hroot e h.2 x x' env env' hx he) hv)
  | .sortBy a e, h, cur, cur', env, env', hc, he => by
    simp only [Tree.Ops] at h
    simp only [seval]
    exact RR.bind (seval_rr hroot a h.1 cur cur' env env' hc he)
      (fun v v' hv => sortArrayBy_rr (fun x x' hx => seval_rr hroot e h.2 x x' env env' hx he) hv)
  | .merge args, h, cur, cur', env, env', hc, he => by
    simp only [Tree.Ops] at h
    simp only [seval]
    exact RR.bind (sevalMerge_rr hroot args h cur cur' env env' [] [] hc he vrf_nil)
      (fun kvs kvs' hk => RR.ok' (vr_obj hk))
  | .notNull args, h, cur, cur', env, env', hc, he => by
    simp only [Tree.Ops] at h
    simp only [seval]
    exact sevalNotNull_rr hroot args h cur cur' env env' hc he
  | .zip args, h, cur, cur', env, env', hc, he => by
    simp only [Tree.Ops] at h
    simp only [seval]
    refine RR.bind (sevalZip_rr hroot args h cur cur' env env' hc he) (fun vs vs' hvs =>
      RR.bind (zipArgs_rr hvs) (fun cols cols' hcols => ?_))
    cases cols with
    | nil => cases cols' with
      | nil => exact RR.ok' (vr_arr vrl_nil)
      | cons _ _ => simp [L2] at hcols
    | cons c cs => cases cols' with
      | nil => simp [L2] at hcols
      | cons c' cs' =>
        have hcols' := hcols
        simp only [L2] at hcols
        simp only [vrl_length hcols.1, minLen_cols _ hcols.2]
        exact RR.ok' (vr_arr (zipRows_vrl _ hcols'))
theorem sevalList_rr {root root' : Val} (hroot : VR nf root root') : (ts : List Tree) → TCongrL nf ts →
    ∀ (cur cur' : Val) (env env' : Env), VR nf cur cur' → VRF nf env env' →
      RR (VRL nf) (sevalList root ts cur env) (sevalList root' ts cur' env')
  | [], _, _, _, _, _, _, _ => by simp only [sevalList]; exact RR.ok' vrl_nil
  | t :: ts, h, cur, cur', env, env', hc, he => by
    simp only [Tree.OpsL] at h
    simp only [sevalList]
    exact RR.bind (seval_rr hroot t h.1 cur cur' env env' hc he)
      (fun v v' hv => RR.bind (sevalList_rr hroot ts h.2 cur cur' env env' hc he)
        (fun vs vs' hvs => RR.ok' (vrl_cons hv hvs)))
theorem sevalFields_rr {root root' : Val} (hroot : VR nf root root') : (fs : List (Bytes × Tree)) → TCongrF nf fs →
    ∀ (cur cur' : Val) (env env' : Env), VR nf cur cur' → VRF nf env env' →
      RR (VRF nf) (sevalFields root fs cur env) (sevalFields root' fs cur' env')
  | [], _, _, _, _, _, _, _ => by simp only [sevalFields]; exact RR.ok' vrf_nil
  | (k, t) :: rest, h, cur, cur', env, env', hc, he => by
    simp only [Tree.OpsF] at h
    simp only [sevalFields]
    exact combineUnordered_rr k (sevalFields_rr hroot rest h.2 cur cur' env env' hc he)
      (seval_rr hroot t h.1 cur cur' env env' hc he)
theorem sevalMerge_rr {root root' : Val} (hroot : VR nf root root') : (ts : List Tree) → TCongrL nf ts →
    ∀ (cur cur' : Val) (env env' : Env) (acc acc' : List (Bytes × Val)), VR nf cur cur' → VRF nf env env' →
      VRF nf acc acc' → RR (VRF nf) (sevalMerge root ts cur env acc) (sevalMerge root' ts cur' env' acc')
  | [], _, _, _, _, _, _, _, _, _, ha => by simp only [sevalMerge]; exact RR.ok' ha
  | t :: ts, h, cur, cur', env, env', acc, acc', hc, he, ha => by
    simp only [Tree.OpsL] at h
    simp only [sevalMerge]
    refine RR.bind (seval_rr hroot t h.1 cur cur' env env' hc he) (fun v v' hv => ?_)
    cases v <;> cases v' <;> simp only [VR] at hv <;> try exact rr_errType
    exact sevalMerge_rr hroot ts h.2 cur cur' env env' _ _ hc he (foldInsert_vrf hv ha)
theorem sevalNotNull_rr {root root' : Val} (hroot : VR nf root root') : (ts : List Tree) → TCongrL nf ts →
    ∀ (cur cur' : Val) (env env' : Env), VR nf cur cur' → VRF nf env env' →
      RR (VR nf) (sevalNotNull root ts cur env) (sevalNotNull root' ts cur' env')
  | [], _, _, _, _, _, _, _ => by simp only [sevalNotNull]; exact RR.ok' vr_null
  | t :: ts, h, cur, cur', env, env', hc, he => by
    simp only [Tree.OpsL] at h
    simp only [sevalNotNull]
    refine RR.bind (seval_rr hroot t h.1 cur cur' env env' hc he) (fun v v' hv => ?_)
    rw [isNull_vr hv]
    split
    · exact sevalNotNull_rr hroot ts h.2 cur cur' env env' hc he
    · exact RR.ok' hv
theorem sevalZip_rr {root root' : Val} (hroot : VR nf root root') : (ts : List Tree) → TCongrL nf ts →
    ∀ (cur cur' : Val) (env env' : Env), VR nf cur cur' → VRF nf env env' →
      RR (VRL nf) (sevalZip root ts cur env) (sevalZip root' ts cur' env')
  | [], _, _, _, _, _, _, _ => by simp only [sevalZip]; exact RR.ok' vrl_nil
  | t :: ts, h, cur, cur', env, env', hc, he => by
    simp only [Tree.OpsL] at h
    simp only [sevalZip]
    refine RR.bind (seval_rr hroot t h.1 cur cur' env env' hc he) (fun v v' hv => ?_)
    have hv' := hv
    cases v <;> cases v' <;> simp only [VR] at hv <;> try exact rr_errType
    exact RR.bind (sevalZip_rr hroot ts h.2 cur cur' env env' hc he) (fun vs vs' hvs => RR.ok' (vrl_cons hv' hvs))
end

end
end C14B
end Jmes
