/-
  Helpers for Jmes/Properties/C15C.lean, part 4: the ERROR half of the oracle theorem — the mutual induction over the
  evaluator.

  `ieval_errH`: for every covered expression (`nodeOkE`: every node type; every builtin except `sum`, `avg`, `max`,
  `min`), if the model's outcome is the error set `cs`, every run `ievalO π` reports exactly one category, and it is
  in `cs`. The value half (`ieval_simE`) is used for the sub-expressions that succeed.
-/
import Jmes.Proofs.C15CErrLoops
set_option linter.unusedVariables false
namespace Jmes.C15C
open Jmes Invar

mutual
theorem ieval_errH {root root' : Val} (hroot : Conc root root') :
    ∀ (n : INode) (cur cur' : Val) (env env' : Env), n.all nodeOkE = true → Conc cur cur' → ConcF env env' →
      ∀ π : Oracle, ErrH (ieval root n cur env) (ievalO π root' n cur' env')
  | .lit v, cur, cur', env, env', h, hc, hv, π => .ok
  | .current, cur, cur', env, env', h, hc, hv, π => .ok
  | .root, cur, cur', env, env', h, hc, hv, π => .ok
  | .field k, cur, cur', env, env', h, hc, hv, π => .ok
  | .variable name, cur, cur', env, env', h, hc, hv, π => by
    simp only [ieval, ievalO, Env.get]
    rcases conc_objLookup name hv with ⟨h1, h2⟩ | ⟨x, x', h1, h2, hx⟩
    · rw [h1, h2]; exact .err1 _
    · rw [h1, h2]; exact .ok
  | .binop op l r, cur, cur', env, env', h, hc, hv, π => by
    simp only [INode.all, Bool.and_eq_true] at h
    simp only [ieval, ievalO]
    exact ErrH.bind (ieval_simE hroot l cur cur' env env' h.1.2 hc hv _) (ieval_errH hroot l cur cur' env env' h.1.2 hc hv _)
      fun a a' ha => ErrH.bind (ieval_simE hroot r cur cur' env env' h.2 hc hv _)
        (ieval_errH hroot r cur cur' env env' h.2 hc hv _) fun b b' hb => applyBinOp_errH op ha hb
  | .and l r, cur, cur', env, env', h, hc, hv, π => by
    simp only [INode.all, Bool.and_eq_true] at h
    simp only [ieval, ievalO]
    refine ErrH.bind (ieval_simE hroot l cur cur' env env' h.1.2 hc hv _)
      (ieval_errH hroot l cur cur' env env' h.1.2 hc hv _) fun a a' ha => ?_
    rw [conc_isTrue ha]
    cases hb : isTrue a <;> simp only [Bool.not_false, Bool.not_true, if_true, Bool.false_eq_true, if_false]
    · exact .pure
    · exact ieval_errH hroot r cur cur' env env' h.2 hc hv _
  | .or l r, cur, cur', env, env', h, hc, hv, π => by
    simp only [INode.all, Bool.and_eq_true] at h
    simp only [ieval, ievalO]
    refine ErrH.bind (ieval_simE hroot l cur cur' env env' h.1.2 hc hv _)
      (ieval_errH hroot l cur cur' env env' h.1.2 hc hv _) fun a a' ha => ?_
    rw [conc_isTrue ha]
    cases hb : isTrue a <;> simp only [if_true, Bool.false_eq_true, if_false]
    · exact ieval_errH hroot r cur cur' env env' h.2 hc hv _
    · exact .pure
  | .not c, cur, cur', env, env', h, hc, hv, π => by
    simp only [INode.all, Bool.and_eq_true] at h
    simp only [ieval, ievalO]
    exact ErrH.bind (ieval_simE hroot c cur cur' env env' h.2 hc hv _)
      (ieval_errH hroot c cur cur' env env' h.2 hc hv _) fun a a' ha => .pure
  | .negate c, cur, cur', env, env', h, hc, hv, π => by
    simp only [INode.all, Bool.and_eq_true] at h
    simp only [ieval, ievalO]
    exact ErrH.bind (ieval_simE hroot c cur cur' env env' h.2 hc hv _)
      (ieval_errH hroot c cur cur' env env' h.2 hc hv _) fun a a' ha => .pure
  | .assertNumber c, cur, cur', env, env', h, hc, hv, π => by
    simp only [INode.all, Bool.and_eq_true] at h
    simp only [ieval, ievalO]
    exact ErrH.bind (ieval_simE hroot c cur cur' env env' h.2 hc hv _)
      (ieval_errH hroot c cur cur' env env' h.2 hc hv _) fun a a' ha => .pure
  | .call f args, cur, cur', env, env', h, hc, hv, π => by
    simp only [INode.all, Bool.and_eq_true] at h
    simp only [ieval, ievalO]
    exact ErrH.bind (ievalList_simE hroot args cur cur' env env' h.2 hc hv _)
      (ievalList_errH hroot args cur cur' env env' h.2 hc hv _) fun vs vs' hvs =>
      applyFn_errH _ f (nodeOkE_call h.1) hvs
  | .defineVariables vars child, cur, cur', env, env', h, hc, hv, π => by
    simp only [INode.all, Bool.and_eq_true] at h
    simp only [ieval, ievalO]
    rw [ievalFields_eq_combineAll]
    refine ErrH.bind (members_simE (ievalMembers_simE hroot vars cur cur' env env' h.1.2 hc hv _)
      (by rw [memberOutcomes_keys]; exact nodeOkE_defineVariables h.1.1) (Oracle.order_perm _ _))
      (members_errH (ievalMembers_errH hroot vars cur cur' env env' h.1.2 hc hv _) (Oracle.order_perm _ _))
      fun bs bs' hbs => ieval_errH hroot child cur cur' (bs ++ env) (bs' ++ env') h.2 hc (concF_append hbs hv) _
  | .filter c f, cur, cur', env, env', h, hc, hv, π => by
    simp only [INode.all, Bool.and_eq_true] at h
    simp only [ieval, ievalO]
    exact ErrH.bind (ieval_simE hroot c cur cur' env env' h.1.2 hc hv _)
      (ieval_errH hroot c cur cur' env env' h.1.2 hc hv _) fun a a' ha =>
      filterArray_errH (fun i x x' hx => ieval_simE hroot f x x' env env' h.2 hx hv _)
        (fun i x x' hx => ieval_errH hroot f x x' env env' h.2 hx hv _) ha
  | .filterCurrent f, cur, cur', env, env', h, hc, hv, π => by
    simp only [INode.all, Bool.and_eq_true] at h
    simp only [ieval, ievalO]
    exact filterArray_errH (fun i x x' hx => ieval_simE hroot f x x' env env' h.2 hx hv _)
      (fun i x x' hx => ieval_errH hroot f x x' env env' h.2 hx hv _) hc
  | .filterAndProject l f r, cur, cur', env, env', h, hc, hv, π => by
    simp only [INode.all, Bool.and_eq_true] at h
    simp only [ieval, ievalO]
    exact ErrH.bind (ieval_simE hroot l cur cur' env env' h.1.1.2 hc hv _)
      (ieval_errH hroot l cur cur' env env' h.1.1.2 hc hv _) fun a a' ha =>
      filterAndProjectArray_errH (fun i x x' hx => ieval_simE hroot f x x' env env' h.1.2 hx hv _)
        (fun i x x' hx => ieval_errH hroot f x x' env env' h.1.2 hx hv _)
        (fun i x x' hx => ieval_simE hroot r x x' env env' h.2 hx hv _)
        (fun i x x' hx => ieval_errH hroot r x x' env env' h.2 hx hv _) ha
  | .filterAndProjectCurrent f c, cur, cur', env, env', h, hc, hv, π => by
    simp only [INode.all, Bool.and_eq_true] at h
    simp only [ieval, ievalO]
    exact filterAndProjectArray_errH (fun i x x' hx => ieval_simE hroot f x x' env env' h.1.2 hx hv _)
        (fun i x x' hx => ieval_errH hroot f x x' env env' h.1.2 hx hv _)
        (fun i x x' hx => ieval_simE hroot c x x' env env' h.2 hx hv _)
        (fun i x x' hx => ieval_errH hroot c x x' env env' h.2 hx hv _) hc
  | .flatten c, cur, cur', env, env', h, hc, hv, π => by
    simp only [INode.all, Bool.and_eq_true] at h
    simp only [ieval, ievalO]
    exact ErrH.bind (ieval_simE hroot c cur cur' env env' h.2 hc hv _)
      (ieval_errH hroot c cur cur' env env' h.2 hc hv _) fun a a' ha => .pure
  | .flattenCurrent, cur, cur', env, env', h, hc, hv, π => .ok
  | .flattenAndProject l r, cur, cur', env, env', h, hc, hv, π => by
    simp only [INode.all, Bool.and_eq_true] at h
    simp only [ieval, ievalO]
    exact ErrH.bind (ieval_simE hroot l cur cur' env env' h.1.2 hc hv _)
      (ieval_errH hroot l cur cur' env env' h.1.2 hc hv _) fun a a' ha =>
      flattenAndProjectArray_errH (fun i x x' hx => ieval_simE hroot r x x' env env' h.2 hx hv _)
        (fun i x x' hx => ieval_errH hroot r x x' env env' h.2 hx hv _) ha
  | .flattenAndProjectCurrent c, cur, cur', env, env', h, hc, hv, π => by
    simp only [INode.all, Bool.and_eq_true] at h
    simp only [ieval, ievalO]
    exact flattenAndProjectArray_errH (fun i x x' hx => ieval_simE hroot c x x' env env' h.2 hx hv _)
      (fun i x x' hx => ieval_errH hroot c x x' env env' h.2 hx hv _) hc
  | .index c i, cur, cur', env, env', h, hc, hv, π => by
    simp only [INode.all, Bool.and_eq_true] at h
    simp only [ieval, ievalO]
    exact ErrH.bind (ieval_simE hroot c cur cur' env env' h.2 hc hv _)
      (ieval_errH hroot c cur cur' env env' h.2 hc hv _) fun a a' ha => .of_not_err (index_noErr a i)
  | .indexCurrent i, cur, cur', env, env', h, hc, hv, π => .of_not_err (index_noErr cur i)
  | .smallIndexCurrent i, cur, cur', env, env', h, hc, hv, π => .of_not_err (index_noErr cur _)
  | .objectValues c, cur, cur', env, env', h, hc, hv, π => by
    simp only [INode.all, Bool.and_eq_true] at h
    simp only [ieval, ievalO]
    exact ErrH.bind (ieval_simE hroot c cur cur' env env' h.2 hc hv _)
      (ieval_errH hroot c cur cur' env env' h.2 hc hv _) fun a a' ha => .pure
  | .objectValuesCurrent, cur, cur', env, env', h, hc, hv, π => .ok
  | .pipe l r, cur, cur', env, env', h, hc, hv, π => by
    simp only [INode.all, Bool.and_eq_true] at h
    simp only [ieval, ievalO]
    exact ErrH.bind (ieval_simE hroot l cur cur' env env' h.1.2 hc hv _)
      (ieval_errH hroot l cur cur' env env' h.1.2 hc hv _) fun a a' ha =>
      ieval_errH hroot r a a' env env' h.2 ha hv _
  | .projectArray l r, cur, cur', env, env', h, hc, hv, π => by
    simp only [INode.all, Bool.and_eq_true] at h
    simp only [ieval, ievalO]
    refine ErrH.bind (ieval_simE hroot l cur cur' env env' h.1.2 hc hv _)
      (ieval_errH hroot l cur cur' env env' h.1.2 hc hv _) fun a a' ha => ?_
    have hproj := projectArray_errH (fun i x x' hx => ieval_simE hroot r x x' env env' h.2 hx hv (π.sub (i + 1)))
      (fun i x x' hx => ieval_errH hroot r x x' env env' h.2 hx hv (π.sub (i + 1))) ha
    cases a with
    | str s =>
      have e : a' = .str s := by simpa [Conc] using ha
      subst e
      cases hs : l.isSlice <;> simp only [if_true, Bool.false_eq_true, if_false]
      · exact hproj
      · exact ieval_errH hroot r _ _ env env' h.2 ha hv _
    | arr t xs =>
      obtain ⟨t', xs', rfl, _⟩ := conc_arr ha
      exact hproj
    | obj kvs =>
      obtain ⟨kvs', rfl, _⟩ := conc_obj ha
      exact hproj
    | null | bool _ | num _ | foreign _ =>
      have e := conc_flat ha (by intro t xs; simp) (by intro kvs; simp)
      subst e
      exact hproj
  | .projectArrayCurrent c, cur, cur', env, env', h, hc, hv, π => by
    simp only [INode.all, Bool.and_eq_true] at h
    simp only [ieval, ievalO]
    exact projectArray_errH (fun i x x' hx => ieval_simE hroot c x x' env env' h.2 hx hv _)
      (fun i x x' hx => ieval_errH hroot c x x' env env' h.2 hx hv _) hc
  | .projectObject l r, cur, cur', env, env', h, hc, hv, π => by
    simp only [INode.all, Bool.and_eq_true] at h
    simp only [ieval, ievalO]
    exact ErrH.bind (ieval_simE hroot l cur cur' env env' h.1.2 hc hv _)
      (ieval_errH hroot l cur cur' env env' h.1.2 hc hv _) fun a a' ha =>
      projectObject_errH _ (fun i x x' hx => ieval_simE hroot r x x' env env' h.2 hx hv _)
        (fun i x x' hx => ieval_errH hroot r x x' env env' h.2 hx hv _) ha
  | .projectObjectCurrent c, cur, cur', env, env', h, hc, hv, π => by
    simp only [INode.all, Bool.and_eq_true] at h
    simp only [ieval, ievalO]
    exact projectObject_errH _ (fun i x x' hx => ieval_simE hroot c x x' env env' h.2 hx hv _)
      (fun i x x' hx => ieval_errH hroot c x x' env env' h.2 hx hv _) hc
  | .pruneArray c, cur, cur', env, env', h, hc, hv, π => by
    simp only [INode.all, Bool.and_eq_true] at h
    simp only [ieval, ievalO]
    exact ErrH.bind (ieval_simE hroot c cur cur' env env' h.2 hc hv _)
      (ieval_errH hroot c cur cur' env env' h.2 hc hv _) fun a a' ha => .pure
  | .pruneArrayCurrent, cur, cur', env, env', h, hc, hv, π => .ok
  | .selectArray c fs, cur, cur', env, env', h, hc, hv, π => by
    simp only [INode.all, Bool.and_eq_true] at h
    simp only [ieval, ievalO]
    refine ErrH.bind (ieval_simE hroot c cur cur' env env' h.1.2 hc hv _)
      (ieval_errH hroot c cur cur' env env' h.1.2 hc hv _) fun a a' ha => ?_
    rw [conc_isNull ha]
    cases hn : a.isNull <;> simp only [if_true, Bool.false_eq_true, if_false]
    · exact ErrH.bind (ievalList_simE hroot fs a a' env env' h.2 ha hv _)
        (ievalList_errH hroot fs a a' env env' h.2 ha hv _) fun vs vs' hvs => .pure
    · exact .pure
  | .selectArrayCurrent fs, cur, cur', env, env', h, hc, hv, π => by
    simp only [INode.all, Bool.and_eq_true] at h
    simp only [ieval, ievalO]
    rw [conc_isNull hc]
    cases hn : cur.isNull <;> simp only [if_true, Bool.false_eq_true, if_false]
    · exact ErrH.bind (ievalList_simE hroot fs cur cur' env env' h.2 hc hv _)
        (ievalList_errH hroot fs cur cur' env env' h.2 hc hv _) fun vs vs' hvs => .pure
    · exact .ok
  | .selectArraySingle c f, cur, cur', env, env', h, hc, hv, π => by
    simp only [INode.all, Bool.and_eq_true] at h
    simp only [ieval, ievalO]
    refine ErrH.bind (ieval_simE hroot c cur cur' env env' h.1.2 hc hv _)
      (ieval_errH hroot c cur cur' env env' h.1.2 hc hv _) fun a a' ha => ?_
    rw [conc_isNull ha]
    cases hn : a.isNull <;> simp only [if_true, Bool.false_eq_true, if_false]
    · exact ErrH.bind (ieval_simE hroot f a a' env env' h.2 ha hv _)
        (ieval_errH hroot f a a' env env' h.2 ha hv _) fun v v' hv' => .pure
    · exact .pure
  | .selectArraySingleCurrent f, cur, cur', env, env', h, hc, hv, π => by
    simp only [INode.all, Bool.and_eq_true] at h
    simp only [ieval, ievalO]
    exact ErrH.bind (ieval_simE hroot f cur cur' env env' h.2 hc hv _)
      (ieval_errH hroot f cur cur' env env' h.2 hc hv _) fun v v' hv' => .pure
  | .selectObject c fs, cur, cur', env, env', h, hc, hv, π => by
    simp only [INode.all, Bool.and_eq_true] at h
    simp only [ieval, ievalO]
    refine ErrH.bind (ieval_simE hroot c cur cur' env env' h.1.2 hc hv _)
      (ieval_errH hroot c cur cur' env env' h.1.2 hc hv _) fun a a' ha => ?_
    rw [conc_isNull ha]
    cases hn : a.isNull <;> simp only [if_true, Bool.false_eq_true, if_false]
    · rw [ievalFields_eq_combineAll]
      exact ErrH.bind (members_simE (ievalMembers_simE hroot fs a a' env env' h.2 ha hv _)
        (by rw [memberOutcomes_keys]; exact nodeOkE_selectObject h.1.1) (Oracle.order_perm _ _))
        (members_errH (ievalMembers_errH hroot fs a a' env env' h.2 ha hv _) (Oracle.order_perm _ _))
        fun kvs kvs' hk => .pure
    · exact .pure
  | .selectObjectCurrent fs, cur, cur', env, env', h, hc, hv, π => by
    simp only [INode.all, Bool.and_eq_true] at h
    simp only [ieval, ievalO]
    rw [conc_isNull hc]
    cases hn : cur.isNull <;> simp only [if_true, Bool.false_eq_true, if_false]
    · rw [ievalFields_eq_combineAll]
      exact ErrH.bind (members_simE (ievalMembers_simE hroot fs cur cur' env env' h.2 hc hv _)
        (by rw [memberOutcomes_keys]; exact nodeOkE_selectObjectCurrent h.1) (Oracle.order_perm _ _))
        (members_errH (ievalMembers_errH hroot fs cur cur' env env' h.2 hc hv _) (Oracle.order_perm _ _))
        fun kvs kvs' hk => .pure
    · exact .ok
  | .selectObjectSingle c k f, cur, cur', env, env', h, hc, hv, π => by
    simp only [INode.all, Bool.and_eq_true] at h
    simp only [ieval, ievalO]
    refine ErrH.bind (ieval_simE hroot c cur cur' env env' h.1.2 hc hv _)
      (ieval_errH hroot c cur cur' env env' h.1.2 hc hv _) fun a a' ha => ?_
    rw [conc_isNull ha]
    cases hn : a.isNull <;> simp only [if_true, Bool.false_eq_true, if_false]
    · exact ErrH.bind (ieval_simE hroot f a a' env env' h.2 ha hv _)
        (ieval_errH hroot f a a' env env' h.2 ha hv _) fun v v' hv' => .pure
    · exact .pure
  | .selectObjectSingleCurrent k f, cur, cur', env, env', h, hc, hv, π => by
    simp only [INode.all, Bool.and_eq_true] at h
    simp only [ieval, ievalO]
    exact ErrH.bind (ieval_simE hroot f cur cur' env env' h.2 hc hv _)
      (ieval_errH hroot f cur cur' env env' h.2 hc hv _) fun v v' hv' => .pure
  | .slice c a b, cur, cur', env, env', h, hc, hv, π => by
    simp only [INode.all, Bool.and_eq_true] at h
    simp only [ieval, ievalO]
    exact ErrH.bind (ieval_simE hroot c cur cur' env env' h.2 hc hv _)
      (ieval_errH hroot c cur cur' env env' h.2 hc hv _) fun v v' hv' => .of_not_err (slice_noErr v a b)
  | .sliceCurrent a b, cur, cur', env, env', h, hc, hv, π => .of_not_err (slice_noErr cur a b)
  | .sliceStep c a b st, cur, cur', env, env', h, hc, hv, π => by
    simp only [INode.all, Bool.and_eq_true] at h
    simp only [ieval, ievalO]
    exact ErrH.bind (ieval_simE hroot c cur cur' env env' h.2 hc hv _)
      (ieval_errH hroot c cur cur' env env' h.2 hc hv _) fun v v' hv' => .of_not_err (sliceStep_noErr v a b st)
  | .sliceStepCurrent a b st, cur, cur', env, env', h, hc, hv, π => .of_not_err (sliceStep_noErr cur a b st)
  | .groupBy a e, cur, cur', env, env', h, hc, hv, π => by
    simp only [INode.all, Bool.and_eq_true] at h
    simp only [ieval, ievalO]
    exact ErrH.bind (ieval_simE hroot a cur cur' env env' h.1.2 hc hv _)
      (ieval_errH hroot a cur cur' env env' h.1.2 hc hv _) fun v v' hv' =>
      groupBy_errH (fun i x x' hx => ieval_simE hroot e x x' env env' h.2 hx hv _)
        (fun i x x' hx => ieval_errH hroot e x x' env env' h.2 hx hv _) hv'
  | .map e a, cur, cur', env, env', h, hc, hv, π => by
    simp only [INode.all, Bool.and_eq_true] at h
    simp only [ieval, ievalO]
    exact ErrH.bind (ieval_simE hroot a cur cur' env env' h.2 hc hv _)
      (ieval_errH hroot a cur cur' env env' h.2 hc hv _) fun v v' hv' =>
      mapArray_errH (fun i x x' hx => ieval_simE hroot e x x' env env' h.1.2 hx hv _)
        (fun i x x' hx => ieval_errH hroot e x x' env env' h.1.2 hx hv _) hv'
  | .maxBy a e, cur, cur', env, env', h, hc, hv, π => by
    simp only [INode.all, Bool.and_eq_true] at h
    simp only [ieval, ievalO]
    exact ErrH.bind (ieval_simE hroot a cur cur' env env' h.1.2 hc hv _)
      (ieval_errH hroot a cur cur' env env' h.1.2 hc hv _) fun v v' hv' =>
      arrayPickBy_errH _ (fun i x x' hx => ieval_simE hroot e x x' env env' h.2 hx hv _)
        (fun i x x' hx => ieval_errH hroot e x x' env env' h.2 hx hv _) hv'
  | .minBy a e, cur, cur', env, env', h, hc, hv, π => by
    simp only [INode.all, Bool.and_eq_true] at h
    simp only [ieval, ievalO]
    exact ErrH.bind (ieval_simE hroot a cur cur' env env' h.1.2 hc hv _)
      (ieval_errH hroot a cur cur' env env' h.1.2 hc hv _) fun v v' hv' =>
      arrayPickBy_errH _ (fun i x x' hx => ieval_simE hroot e x x' env env' h.2 hx hv _)
        (fun i x x' hx => ieval_errH hroot e x x' env env' h.2 hx hv _) hv'
  | .sortBy a e, cur, cur', env, env', h, hc, hv, π => by
    simp only [INode.all, Bool.and_eq_true] at h
    simp only [ieval, ievalO]
    exact ErrH.bind (ieval_simE hroot a cur cur' env env' h.1.2 hc hv _)
      (ieval_errH hroot a cur cur' env env' h.1.2 hc hv _) fun v v' hv' =>
      sortArrayBy_errH (fun i x x' hx => ieval_simE hroot e x x' env env' h.2 hx hv _)
        (fun i x x' hx => ieval_errH hroot e x x' env env' h.2 hx hv _) hv'
  | .merge args, cur, cur', env, env', h, hc, hv, π => by
    simp only [INode.all, Bool.and_eq_true] at h
    simp only [ieval, ievalO]
    exact ErrH.bind (ievalMerge_simE hroot args cur cur' env env' [] [] h.2 hc hv concF_nil _)
      (ievalMerge_errH hroot args cur cur' env env' [] [] h.2 hc hv concF_nil _) fun kvs kvs' hk => .pure
  | .notNull args, cur, cur', env, env', h, hc, hv, π => by
    simp only [INode.all, Bool.and_eq_true] at h
    simp only [ieval, ievalO]
    exact ievalNotNull_errH hroot args cur cur' env env' h.2 hc hv _
  | .zip args, cur, cur', env, env', h, hc, hv, π => by
    simp only [INode.all, Bool.and_eq_true] at h
    simp only [ieval, ievalO]
    refine ErrH.bind (ievalZip_simE hroot args cur cur' env env' h.2 hc hv _)
      (ievalZip_errH hroot args cur cur' env env' h.2 hc hv _) fun vs vs' hvs =>
      ErrH.bind (zipArgs_simE hvs) (zipArgs_errH hvs) fun cols cols' hcols => ?_
    cases hcols with
    | nil => exact .pure
    | cons hab t => exact .pure
theorem ievalList_errH {root root' : Val} (hroot : Conc root root') :
    ∀ (ns : List INode) (cur cur' : Val) (env env' : Env), INode.allL nodeOkE ns = true → Conc cur cur' →
      ConcF env env' → ∀ π : Oracle, ErrH (ievalList root ns cur env) (ievalListO π root' ns cur' env')
  | [], cur, cur', env, env', h, hc, hv, π => .ok
  | n :: ns, cur, cur', env, env', h, hc, hv, π => by
    simp only [INode.allL, Bool.and_eq_true] at h
    simp only [ievalList, ievalListO]
    exact ErrH.bind (ieval_simE hroot n cur cur' env env' h.1 hc hv _) (ieval_errH hroot n cur cur' env env' h.1 hc hv _)
      fun v v' hv' => ErrH.bind (ievalList_simE hroot ns cur cur' env env' h.2 hc hv _)
        (ievalList_errH hroot ns cur cur' env env' h.2 hc hv _) fun vs vs' hvs => .pure
theorem ievalMembers_errH {root root' : Val} (hroot : Conc root root') :
    ∀ (fs : List (Bytes × INode)) (cur cur' : Val) (env env' : Env), INode.allF nodeOkE fs = true → Conc cur cur' →
      ConcF env env' → ∀ π : Oracle,
      All₂ MemberSimX (memberOutcomes root fs cur env) (ievalMembersO π root' fs cur' env')
  | [], cur, cur', env, env', h, hc, hv, π => .nil
  | (k, n) :: rest, cur, cur', env, env', h, hc, hv, π => by
    simp only [INode.allF, Bool.and_eq_true] at h
    simp only [memberOutcomes, List.map_cons, ievalMembersO]
    exact .cons ⟨rfl, ieval_simE hroot n cur cur' env env' h.1 hc hv _, ieval_errH hroot n cur cur' env env' h.1 hc hv _⟩
      (ievalMembers_errH hroot rest cur cur' env env' h.2 hc hv _)
theorem ievalMerge_errH {root root' : Val} (hroot : Conc root root') :
    ∀ (ns : List INode) (cur cur' : Val) (env env' : Env) (acc acc' : List (Bytes × Val)),
      INode.allL nodeOkE ns = true → Conc cur cur' → ConcF env env' → ConcF acc acc' →
      ∀ π : Oracle, ErrH (ievalMerge root ns cur env acc) (ievalMergeO π root' ns cur' env' acc')
  | [], cur, cur', env, env', acc, acc', h, hc, hv, ha, π => .ok
  | n :: ns, cur, cur', env, env', acc, acc', h, hc, hv, ha, π => by
    simp only [INode.allL, Bool.and_eq_true] at h
    simp only [ievalMerge, ievalMergeO]
    refine ErrH.bind (ieval_simE hroot n cur cur' env env' h.1 hc hv _)
      (ieval_errH hroot n cur cur' env env' h.1 hc hv _) fun v v' hv' => ?_
    cases v with
    | obj kvs =>
      obtain ⟨kvs', rfl, hk⟩ := conc_obj hv'
      exact ievalMerge_errH hroot ns cur cur' env env' _ _ h.2 hc hv (concF_foldInsert hk ha) _
    | arr t xs => obtain ⟨t', xs', rfl, _⟩ := conc_arr hv'; exact .errType
    | null | bool _ | num _ | foreign _ | str _ => simp only [Conc] at hv'; subst hv'; exact .errType
theorem ievalZip_errH {root root' : Val} (hroot : Conc root root') :
    ∀ (ns : List INode) (cur cur' : Val) (env env' : Env), INode.allL nodeOkE ns = true → Conc cur cur' →
      ConcF env env' → ∀ π : Oracle, ErrH (ievalZip root ns cur env) (ievalZipO π root' ns cur' env')
  | [], cur, cur', env, env', h, hc, hv, π => .ok
  | n :: ns, cur, cur', env, env', h, hc, hv, π => by
    simp only [INode.allL, Bool.and_eq_true] at h
    simp only [ievalZip, ievalZipO]
    refine ErrH.bind (ieval_simE hroot n cur cur' env env' h.1 hc hv _)
      (ieval_errH hroot n cur cur' env env' h.1 hc hv _) fun v v' hv' => ?_
    cases v with
    | arr t xs =>
      obtain ⟨t', xs', rfl, _⟩ := conc_arr hv'
      exact ErrH.bind (ievalZip_simE hroot ns cur cur' env env' h.2 hc hv _)
        (ievalZip_errH hroot ns cur cur' env env' h.2 hc hv _) fun vs vs' hvs => .pure
    | obj kvs => obtain ⟨kvs', rfl, _⟩ := conc_obj hv'; exact .errType
    | null | bool _ | num _ | foreign _ | str _ => simp only [Conc] at hv'; subst hv'; exact .errType
theorem ievalNotNull_errH {root root' : Val} (hroot : Conc root root') :
    ∀ (ns : List INode) (cur cur' : Val) (env env' : Env), INode.allL nodeOkE ns = true → Conc cur cur' →
      ConcF env env' → ∀ π : Oracle, ErrH (ievalNotNull root ns cur env) (ievalNotNullO π root' ns cur' env')
  | [], cur, cur', env, env', h, hc, hv, π => .ok
  | n :: ns, cur, cur', env, env', h, hc, hv, π => by
    simp only [INode.allL, Bool.and_eq_true] at h
    simp only [ievalNotNull, ievalNotNullO]
    refine ErrH.bind (ieval_simE hroot n cur cur' env env' h.1 hc hv _)
      (ieval_errH hroot n cur cur' env env' h.1 hc hv _) fun v v' hv' => ?_
    rw [conc_isNull hv']
    cases hn : v.isNull <;> simp only [if_true, Bool.false_eq_true, if_false]
    · exact .pure
    · exact ievalNotNull_errH hroot ns cur cur' env env' h.2 hc hv _
end

end Jmes.C15C
