/-
  C03D — CHECKED primitives for Go's partial operations on slices and strings.

  The model (`Jmes/Model`) transliterates Go's `s[i:j]`, `a[i]`, `make([]any, n)`, `x.(T)` with the TOTAL Lean
  functions `List.drop`/`List.take`/`List.getD`/`List.replicate`/pattern matching, so an out-of-range index cannot
  show up as a `Res.panic`.  This file defines the same operations as Go performs them: each one checks its bounds
  and answers `Res.panic why` where the Go runtime would panic.  The files `Jmes/Proofs/C03D*.lean` re-transliterate
  the indexing / slicing Go functions over these primitives ("checked mirrors"), and prove that the checked mirror
  equals the model function: THE CHECKS NEVER FIRE.

  Conventions
  * indices are `Int` (Go `int`); a Go length `len(x)` is `(x.length : Int)`.  Lengths of Go strings and slices are
    `< 2^63`, so sums of a few lengths and small constants cannot overflow and are not wrapped; arithmetic on
    user-supplied 64-bit integers is wrapped (`wrap64`) exactly where the model wraps it.
  * a Go string is `Bytes` (any bytes, valid UTF-8 or not), a `[]any` is `List Val`.
  * Go slices of slices may extend up to the capacity; every slice the library re-slices has `cap = len`
    or is re-sliced within its length, so the checked `slice?` uses `len` (the stricter bound).
-/
import Jmes.Model.Api
import Jmes.Proofs.Refine
namespace Jmes.C03D
open Jmes

/-- the runtime panic texts -/
def idxMsg : String := "index out of range"
/-- `panic: runtime error: slice bounds out of range` -/
def sliceMsg : String := "slice bounds out of range"
/-- `panic: runtime error: makeslice: len out of range` -/
def makeMsg : String := "makeslice: len out of range"
/-- `panic: interface conversion: …` -/
def assertMsg : String := "interface conversion"
/-- `panic: runtime error: integer divide by zero` -/
def divMsg : String := "integer divide by zero"

/-- `xs[i]` (read): panics unless `0 ≤ i < len(xs)` -/
def idx? {α} (xs : List α) (i : Int) : Res α :=
  if 0 ≤ i ∧ i < xs.length then
    match xs[i.toNat]? with
    | some a => .ok a
    | none => .panic idxMsg
  else .panic idxMsg

/-- `xs[i] = a` (write): panics unless `0 ≤ i < len(xs)` -/
def set? {α} (xs : List α) (i : Int) (a : α) : Res (List α) :=
  if 0 ≤ i ∧ i < xs.length then .ok (xs.set i.toNat a) else .panic idxMsg

/-- `xs[i:j]`: panics unless `0 ≤ i ≤ j ≤ len(xs)` (`cap = len`) -/
def slice? {α} (xs : List α) (i j : Int) : Res (List α) :=
  if 0 ≤ i ∧ i ≤ j ∧ j ≤ xs.length then .ok ((xs.drop i.toNat).take (j - i).toNat) else .panic sliceMsg

/-- `xs[i:]` = `xs[i:len(xs)]` -/
def sliceFrom? {α} (xs : List α) (i : Int) : Res (List α) := slice? xs i xs.length

/-- `xs[:j]` = `xs[0:j]` -/
def sliceTo? {α} (xs : List α) (j : Int) : Res (List α) := slice? xs 0 j

/-- `maxAlloc` of the Go runtime on 64-bit platforms (linux/amd64, arm64: `heapAddrBits = 48`): the largest
    allocation `mallocgc` accepts, in bytes -/
def maxAlloc : Int := 2 ^ 48

/-- largest length `make([]T, n)` accepts for an element type of `elemSize` bytes: `runtime.makeslice` panics
    (`makeslice: len out of range`) when `n < 0` or `elemSize * n > maxAlloc`, i.e. when `n > maxAlloc / elemSize` -/
def makeLimitOf (elemSize : Nat) : Int := maxAlloc / (elemSize : Int)

/-- largest length `make([]any, n)` accepts: an `any` (interface value) takes 16 bytes, the limit is
    `maxAlloc / 16 = 2^44` elements (`makeLimit_eq`) -/
def makeLimit : Int := 2 ^ 44

/-- the `[]any` limit is the element-size-indexed limit for 16-byte elements (`any`, `string`, `decimal128.Decimal`) -/
theorem makeLimit_eq : makeLimit = makeLimitOf 16 := by decide

/-- the limit for 24-byte elements (`[]any` slice headers, the elements of a `[][]any`): `2^48 / 24` -/
theorem makeLimitOf_24 : makeLimitOf 24 = 11728124029610 := by decide

/-- `make([]any, n)`: panics when `n < 0` or `n > maxAlloc / 16` (as `runtime.makeslice` does); else `n` nils -/
def make? (n : Int) : Res (List Val) :=
  if 0 ≤ n ∧ n ≤ makeLimit then .ok (List.replicate n.toNat .null) else .panic makeMsg

/-- `make([]T, n)` for an element type `T` of `elemSize` bytes with zero value `z` (`[][]any`: 24, `[]string`: 16,
    `[]decimal128.Decimal`: 16): panics when `n < 0` or `n > maxAlloc / elemSize`; else `n` copies of `z` -/
def makeOf? {α} (elemSize : Nat) (z : α) (n : Int) : Res (List α) :=
  if 0 ≤ n ∧ n ≤ makeLimitOf elemSize then .ok (List.replicate n.toNat z) else .panic makeMsg

/-- `panic: strings.Builder.Grow: negative count` -/
def growMsg : String := "strings.Builder.Grow: negative count"

/-- `b.Grow(n)` on a `strings.Builder`: panics iff `n < 0` -/
def grow? (n : Int) : Res Unit := if n < 0 then .panic growMsg else .ok ()

/-- `v.([]any)` single-value form: panics on mismatch -/
def assertArr? (v : Val) : Res (ATag × List Val) :=
  match v with
  | .arr t xs => .ok (t, xs)
  | _ => .panic assertMsg

/-- `v.(string)` single-value form -/
def assertStr? (v : Val) : Res Bytes :=
  match v with
  | .str s => .ok s
  | _ => .panic assertMsg

/-- `a / b` on Go ints: panics when `b = 0` (truncated division otherwise) -/
def div? (a b : Int) : Res Int := if b = 0 then .panic divMsg else .ok (Int.tdiv a b)
/-- `a % b` on Go ints -/
def mod? (a b : Int) : Res Int := if b = 0 then .panic divMsg else .ok (Int.tmod a b)

/-! ## the primitives succeed exactly within bounds -/

/-- within bounds `xs[i]` succeeds with the element the model's `getD` reads -/
theorem idx?_ok {α} (xs : List α) (i : Int) (h0 : 0 ≤ i) (h1 : i < xs.length) (d : α) :
    idx? xs i = .ok (xs.getD i.toNat d) := by
  have hlt : i.toNat < xs.length := by omega
  unfold idx?
  rw [if_pos ⟨h0, h1⟩, List.getD_eq_getElem?_getD, List.getElem?_eq_getElem hlt]
  rfl

/-- the same for a natural-number index -/
theorem idx?_ok_nat {α} (xs : List α) (k : Nat) (h1 : k < xs.length) (d : α) :
    idx? xs (k : Int) = .ok (xs.getD k d) := by
  have := idx?_ok xs (k : Int) (by omega) (by omega) d
  simpa using this

/-- `xs[i]` panics exactly out of bounds -/
theorem idx?_panic_iff {α} (xs : List α) (i : Int) :
    idx? xs i = .panic idxMsg ↔ ¬ (0 ≤ i ∧ i < xs.length) := by
  constructor
  · intro h hb
    have hlt : i.toNat < xs.length := by omega
    unfold idx? at h
    rw [if_pos hb, List.getElem?_eq_getElem hlt] at h
    cases h
  · intro h; unfold idx?; rw [if_neg h]

/-- within bounds `xs[i] = a` succeeds -/
theorem set?_ok {α} (xs : List α) (i : Int) (a : α) (h0 : 0 ≤ i) (h1 : i < xs.length) :
    set? xs i a = .ok (xs.set i.toNat a) := by
  unfold set?; rw [if_pos ⟨h0, h1⟩]

/-- within bounds `xs[i:j]` succeeds with the model's `drop`/`take` -/
theorem slice?_ok {α} (xs : List α) (i j : Int) (h0 : 0 ≤ i) (h1 : i ≤ j) (h2 : j ≤ xs.length) :
    slice? xs i j = .ok ((xs.drop i.toNat).take (j - i).toNat) := by
  unfold slice?; rw [if_pos ⟨h0, h1, h2⟩]

/-- `xs[i:j]` panics exactly when `0 ≤ i ≤ j ≤ len` fails -/
theorem slice?_panic_iff {α} (xs : List α) (i j : Int) :
    slice? xs i j = .panic sliceMsg ↔ ¬ (0 ≤ i ∧ i ≤ j ∧ j ≤ xs.length) := by
  unfold slice?
  constructor
  · intro h hb; rw [if_pos hb] at h; cases h
  · intro h; rw [if_neg h]

/-- within bounds `xs[i:]` is the model's `drop` -/
theorem sliceFrom?_ok {α} (xs : List α) (i : Int) (h0 : 0 ≤ i) (h1 : i ≤ xs.length) :
    sliceFrom? xs i = .ok (xs.drop i.toNat) := by
  unfold sliceFrom?
  rw [slice?_ok xs i xs.length h0 h1 (Int.le_refl _)]
  congr 1
  apply List.take_of_length_le
  rw [List.length_drop]; omega

/-- the same for a natural-number bound -/
theorem sliceFrom?_ok_nat {α} (xs : List α) (k : Nat) (h1 : k ≤ xs.length) :
    sliceFrom? xs (k : Int) = .ok (xs.drop k) := by
  have := sliceFrom?_ok xs (k : Int) (by omega) (by omega)
  simpa using this

/-- within bounds `xs[:j]` is the model's `take` -/
theorem sliceTo?_ok {α} (xs : List α) (j : Int) (h0 : 0 ≤ j) (h1 : j ≤ xs.length) :
    sliceTo? xs j = .ok (xs.take j.toNat) := by
  unfold sliceTo?
  rw [slice?_ok xs 0 j (Int.le_refl _) h0 h1]
  simp

/-- the same for a natural-number bound -/
theorem sliceTo?_ok_nat {α} (xs : List α) (k : Nat) (h1 : k ≤ xs.length) :
    sliceTo? xs (k : Int) = .ok (xs.take k) := by
  have := sliceTo?_ok xs (k : Int) (by omega) (by omega)
  simpa using this

/-- `xs[a:b]` for natural-number bounds -/
theorem slice?_ok_nat {α} (xs : List α) (a b : Nat) (h1 : a ≤ b) (h2 : b ≤ xs.length) :
    slice? xs (a : Int) (b : Int) = .ok ((xs.drop a).take (b - a)) := by
  have := slice?_ok xs (a : Int) (b : Int) (by omega) (by omega) (by omega)
  rw [this]
  have e : ((b : Int) - (a : Int)).toNat = b - a := by omega
  simp [e]

/-- `make([]any, n)` succeeds for `0 ≤ n ≤ makeLimit` -/
theorem make?_ok (n : Int) (h0 : 0 ≤ n) (h1 : n ≤ makeLimit) : make? n = .ok (List.replicate n.toNat .null) := by
  unfold make?; rw [if_pos ⟨h0, h1⟩]

/-- `make([]T, n)` succeeds for `0 ≤ n ≤ maxAlloc / elemSize` -/
theorem makeOf?_ok {α} (elemSize : Nat) (z : α) (n : Int) (h0 : 0 ≤ n) (h1 : n ≤ makeLimitOf elemSize) :
    makeOf? elemSize z n = .ok (List.replicate n.toNat z) := by
  unfold makeOf?; rw [if_pos ⟨h0, h1⟩]

/-- `make([]any, n)` panics exactly when `n` is negative or above `maxAlloc / 16 = 2^44` -/
theorem make?_panic_iff (n : Int) : make? n = .panic makeMsg ↔ ¬ (0 ≤ n ∧ n ≤ 2 ^ 44) := by
  unfold make? makeLimit
  constructor
  · intro h hb; rw [if_pos hb] at h; cases h
  · intro h; rw [if_neg h]

/-- `Grow(n)` panics iff `n < 0` -/
theorem grow?_panic_iff (n : Int) : grow? n = .panic growMsg ↔ n < 0 := by
  unfold grow?
  constructor
  · intro h; by_cases hn : n < 0
    · exact hn
    · rw [if_neg hn] at h; cases h
  · intro h; rw [if_pos h]

/-- `Grow` of a non-negative count succeeds -/
theorem grow?_ok (n : Int) (h : 0 ≤ n) : grow? n = .ok () := by
  unfold grow?; rw [if_neg (by omega)]

/-- **`b.Grow(len(x))` cannot panic**: a length is never negative (functions.go:94 `b.Grow(len(s))`, parser.go:2201 and
    :2308 `b.Grow(len(v))`) -/
theorem grow?_len {α} (xs : List α) : grow? (xs.length : Int) = .ok () := grow?_ok _ (by omega)

/-- division by a non-zero divisor is the model's truncated division -/
theorem div?_ok (a b : Int) (h : b ≠ 0) : div? a b = .ok (Int.tdiv a b) := by unfold div?; rw [if_neg h]
/-- remainder by a non-zero divisor is the model's truncated remainder -/
theorem mod?_ok (a b : Int) (h : b ≠ 0) : mod? a b = .ok (Int.tmod a b) := by unfold mod?; rw [if_neg h]

/-! ## the primitives do panic out of bounds (non-vacuity) -/

example : idx? [10, 20, 30] 3 = .panic idxMsg := rfl
example : idx? [10, 20, 30] (-1) = .panic idxMsg := rfl
example : idx? [10, 20, 30] 2 = .ok 30 := rfl
example : slice? [1, 2, 3] 2 1 = .panic sliceMsg := rfl
example : slice? [1, 2, 3] 1 4 = .panic sliceMsg := rfl
example : slice? [1, 2, 3] 1 3 = .ok [2, 3] := rfl
example : sliceFrom? [1, 2, 3] 4 = .panic sliceMsg := rfl
example : sliceFrom? [1, 2, 3] 3 = .ok [] := rfl
example : sliceTo? [1, 2, 3] (-1) = .panic sliceMsg := rfl
example : (make? (-1)) = .panic makeMsg := rfl
/-- the limit is Go's: `make([]any, 2^44)` is accepted (Go then asks the allocator for 2^48 bytes), `2^44 + 1` is
    `panic: runtime error: makeslice: len out of range` -/
example : make? (2 ^ 44 + 1) = .panic makeMsg := (make?_panic_iff _).mpr (by decide)
example : make? (2 ^ 44) = .ok (List.replicate (2 ^ 44) .null) := make?_ok _ (by decide) (by decide)
example : makeOf? 24 ([] : List Val) (makeLimitOf 24 + 1) = .panic makeMsg := by
  unfold makeOf?; rw [if_neg (by decide)]
example : makeOf? 24 ([] : List Val) 2 = .ok [[], []] := rfl
example : grow? (-1) = .panic growMsg := rfl
example : grow? (([0x61, 0x62] : Bytes).length : Int) = .ok () := grow?_len _
example : assertArr? (.str []) = .panic assertMsg := rfl
example : div? 1 0 = .panic divMsg := rfl

end Jmes.C03D
