/-
  Property C18 (second pass), shared definitions: `Val.Fin` — the values that `encoding/json` serialises and that
  the evaluator can be fed again: every number inside is a finite `decimal128.Decimal`, a `json.Number` holding a
  valid JSON number text, or a Go integer; no binary float, no foreign Go value.
-/
import Jmes.Proofs.Invariants
namespace Jmes

/-- a number `json.Marshal` can write: a valid `json.Number`, a finite decimal, a Go integer -/
def Num.Fin : Num → Bool
  | .jnum t => Json.isValidNumber t
  | .dec d => !d.isSpecial
  | .int _ _ => true
  | .f64 _ => false
  | .f32 _ => false

mutual
/-- every number inside the value is `Num.Fin`, and there is no foreign Go value -/
def Val.Fin : Val → Bool
  | .null => true
  | .bool _ => true
  | .str _ => true
  | .num n => n.Fin
  | .arr _ xs => Val.FinL xs
  | .obj kvs => Val.FinF kvs
  | .foreign _ => false
def Val.FinL : List Val → Bool
  | [] => true
  | x :: xs => Val.Fin x && Val.FinL xs
def Val.FinF : List (Bytes × Val) → Bool
  | [] => true
  | (_, x) :: kvs => Val.Fin x && Val.FinF kvs
end

/-- every variable binding is `Val.Fin` -/
def Env.Fin (env : Env) : Bool := Val.FinF env

/-- every literal of the expression is `Val.Fin` -/
def INode.FinLits (n : INode) : Bool := n.LitsAll Val.Fin

theorem Val.finL_iff : ∀ {xs : List Val}, Val.FinL xs = true ↔ ∀ x ∈ xs, x.Fin = true
  | [] => by simp [Val.FinL]
  | x :: xs => by simp [Val.FinL, Val.finL_iff (xs := xs)]

theorem Val.finF_iff : ∀ {kvs : List (Bytes × Val)}, Val.FinF kvs = true ↔ ∀ k x, (k, x) ∈ kvs → x.Fin = true
  | [] => by simp [Val.FinF]
  | (k, x) :: kvs => by
    simp only [Val.FinF, Bool.and_eq_true, Val.finF_iff (kvs := kvs), List.mem_cons, Prod.mk.injEq]
    constructor
    · rintro ⟨h1, h2⟩ k' x' (⟨_, rfl⟩ | hm)
      · exact h1
      · exact h2 k' x' hm
    · intro h
      exact ⟨h k x (Or.inl ⟨rfl, rfl⟩), fun k' x' hm => h k' x' (Or.inr hm)⟩

theorem Val.fin_arr {t : ATag} {xs : List Val} : (Val.arr t xs).Fin = true ↔ ∀ x ∈ xs, x.Fin = true := by
  simp only [Val.Fin]; exact Val.finL_iff
theorem Val.fin_obj {kvs : List (Bytes × Val)} : (Val.obj kvs).Fin = true ↔ ∀ k x, (k, x) ∈ kvs → x.Fin = true := by
  simp only [Val.Fin]; exact Val.finF_iff
@[simp] theorem Val.fin_null : Val.null.Fin = true := by simp [Val.Fin]
@[simp] theorem Val.fin_bool (b : Bool) : (Val.bool b).Fin = true := by simp [Val.Fin]
@[simp] theorem Val.fin_str (s : Bytes) : (Val.str s).Fin = true := by simp [Val.Fin]
@[simp] theorem Val.fin_int (k : IntKind) (i : Int) : (Val.num (.int k i)).Fin = true := by simp [Val.Fin, Num.Fin]
@[simp] theorem Val.fin_f64 (f : F64) : (Val.num (.f64 f)).Fin = false := by simp [Val.Fin, Num.Fin]
@[simp] theorem Val.fin_f32 (f : F64) : (Val.num (.f32 f)).Fin = false := by simp [Val.Fin, Num.Fin]
@[simp] theorem Val.fin_foreign (t : Nat) : (Val.foreign t).Fin = false := by simp [Val.Fin]
theorem Val.fin_dec {d : Dec} : (Val.num (.dec d)).Fin = true ↔ d.isSpecial = false := by simp [Val.Fin, Num.Fin]
theorem Val.fin_jnum {t : Bytes} : (Val.num (.jnum t)).Fin = true ↔ Json.isValidNumber t = true := by
  simp [Val.Fin, Num.Fin]

/-- `{"a": [1, 2.5e3, null]}` with a decimal `-0.5` beside it -/
example : (Val.obj [([0x61], .arr .plain [.num (.jnum [0x31]), .num (.jnum [0x32, 0x2E, 0x35, 0x65, 0x33]), .null]),
    ([0x62], .num (.dec (.fin true 5 (-1))))]).Fin = true := by decide
example : (Val.num (.dec .nan)).Fin = false := by decide
example : (Val.num (.dec (.inf false))).Fin = false := by decide
example : (Val.num (.jnum [0x2D])).Fin = false := by decide
example : (Val.arr .plain [.foreign 0]).Fin = false := by decide

end Jmes
