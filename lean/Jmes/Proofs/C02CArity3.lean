/-
  C02 (nested calls), part 3: the packaging.

  * `LeftOK` — the side condition on the left operand of a postfix / infix form;
  * `fails_bin`, `fails_dotId`, … — the closure lemmas of part 2 at the level of trees, one for each form with a left
    operand (the left operand is the implicit current node, or a well-formed tree: `fails_after`);
  * `Bad E b p t` — "`t` is well formed up to and including everything to the left of one sub-tree on which the parser
    fails with `E`"; for `E` the arity error the sub-tree is a call whose argument count is outside the signature of
    the builtin.  What comes after that call is arbitrary;
  * `bad_fails : Bad E b p t → Fails E b p (flat b t)`;
  * `fails_parse`, `nested_error`, **`nested_arity`**: a text whose tokens are those of a tree `t` with
    `Bad .invalidFunctionCall false 1 t` is rejected by `Parser.parse` with the arity error;
  * examples: `a.abs(b,c)`, `[abs()]`, `x || y || abs()`, `foo[*].{k: abs(a,b)}`, `length(abs())`,
    `sort_by(abs(), &a)`, `a[?abs()]`, `let $x = abs() in $x`, ….
-/
import Jmes.Proofs.C02CArity2
namespace Jmes.C02CArity
open Jmes Jmes.Parser Jmes.Pratt Jmes.Grammar Jmes.GrammarF0
open Jmes.GrammarF2 (startsWithIdent_cons)
set_option linter.unusedSimpArgs false

/-! ## The left operand -/

/-- the left operand `l` of a postfix / infix form of level `lvl`, when the form is read at power `p` in position `b`:
    either the implicit current node (where the form allows it: `ic`), or a well-formed tree which the form may follow
    (`lvl ≤ rlevel l`) and which is itself read at power `p` (`p < lvl`, `p < llevel l`: together `p` is below the left
    level of the form) -/
def LeftOK (b : Bool) (p lvl : Nat) (ic : Bool) (l : PTree) : Prop :=
  (l = .icur ∧ ic = true) ∨
  (l.isIcur = false ∧ wp b l = true ∧ lvl ≤ rlevel l ∧ p < lvl ∧ p < llevel l ∧ (b = true → p ≤ lvlDot))

/-- a failing loop step after a well-formed left operand -/
theorem fails_left {E : PErr} {b : Bool} {p lvl : Nat} {l : PTree} {t : Token} {T : List Token}
    (hw : wp b l = true) (hle : lvl ≤ rlevel l) (hp2 : p < llevel l) (hb : b = true → p ≤ lvlDot)
    (ht : precedence t.type ≤ lvl) (hne : t.type ≠ .openParen) (h : LoopFails E p (t :: T)) :
    Fails E b p (flat b l ++ t :: T) :=
  fails_after hw hp2 hb (fun _ => ⟨Nat.le_trans ht hle, hne⟩) h

/-! ## The forms with a left operand, at the level of trees -/

/-- `l op r`: the failure is in the right operand -/
theorem fails_bin {E : PErr} {b : Bool} {p lvl : Nat} {op : Token} {l r : PTree}
    (hlvl : binLevel op.type = some lvl) (hL : LeftOK b p lvl false l) (hr : Fails E false lvl (flat false r)) :
    Fails E b p (flat b (.bin op l r)) := by
  rcases hL with ⟨_, h⟩ | ⟨_, hw, hle, hp1, hp2, hb⟩
  · cases h
  · simp only [flat]
    exact fails_left hw hle hp2 hb (by rw [binLevel_precedence hlvl]; exact Nat.le_refl _)
      (mkBin_prec (binLevel_mkBin hlvl)).2.2 (loop_bin_fails hlvl hp1 hr)

/-- `l.r` -/
theorem fails_dotId {E : PErr} {b : Bool} {p : Nat} {l r : PTree} (hL : LeftOK b p lvlDot false l)
    (hs : startsWithIdent r = true) (hr : Fails E false lvlDot (flat false r)) :
    Fails E b p (flat b (.dotId l r)) := by
  obtain ⟨t, ts, hflat, ht⟩ := startsWithIdent_cons hs
  rcases hL with ⟨_, h⟩ | ⟨_, hw, hle, hp1, hp2, hb⟩
  · cases h
  · simp only [flat]
    rw [hflat] at hr ⊢
    exact fails_left hw hle hp2 hb (Nat.le_refl _) (by decide) (loop_dotId_fails ht hp1 hr)

/-- `.r` as the first selector of a right-hand side -/
theorem fails_dotId0 {E : PErr} {p : Nat} {r : PTree} (hs : startsWithIdent r = true)
    (hr : Fails E false p (flat false r)) : Fails E true p (flat true (.dotId .icur r)) := by
  obtain ⟨t, ts, hflat, ht⟩ := startsWithIdent_cons hs
  simp only [flat, List.nil_append]
  rw [hflat] at hr ⊢
  exact proj_dotId_fails ht hr

/-- `l.[ e, …, x, …]` -/
theorem fails_dotList {E : PErr} {b : Bool} {p : Nat} {l : PTree} {pre post : List PTree} {x : PTree}
    (hL : LeftOK b p lvlDot b l) (hw : ∀ e ∈ pre, WellPrec e) (hx : Fails E false 1 (flat false x)) :
    Fails E b p (flat b (.dotList l (pre ++ x :: post))) := by
  have e : flat b (.dotList l (pre ++ x :: post)) =
      (flat b l ++ tDot :: tLBracket :: (sepPre pre ++ flat false x)) ++ (sepPost post ++ [tRBracket]) := by
    simp only [flat, flatSep_split, List.append_assoc, List.cons_append]
  rw [e]
  refine Fails.append ?_ _
  rcases hL with ⟨rfl, hb⟩ | ⟨_, hwl, hle, hp1, hp2, hb⟩
  · subst hb
    simpa only [flat, List.nil_append] using proj_dotList_fails hx hw p
  · exact fails_left hwl hle hp2 hb (Nat.le_refl _) (by decide) (loop_dotList_fails hx hw hp1)

/-- `l.{ k: e, …, k: x, …}` -/
theorem fails_dotHash {E : PErr} {b : Bool} {p : Nat} {l : PTree} {pre post : List (Token × PTree)} {k : Token}
    {x : PTree} (hL : LeftOK b p lvlDot b l) (hw : ∀ kv ∈ pre, keyOK kv.1 = true ∧ WellPrec kv.2)
    (hk : keyOK k = true) (hx : Fails E false 1 (flat false x)) :
    Fails E b p (flat b (.dotHash l (pre ++ (k, x) :: post))) := by
  have e : flat b (.dotHash l (pre ++ (k, x) :: post)) =
      (flat b l ++ tDot :: tLBrace :: (kvPre tColon pre ++ k :: tColon :: flat false x)) ++
        (kvPost tColon post ++ [tRBrace]) := by
    simp only [flat, flatKVs_split, List.append_assoc, List.cons_append]
  rw [e]
  refine Fails.append ?_ _
  rcases hL with ⟨rfl, hb⟩ | ⟨_, hwl, hle, hp1, hp2, hb⟩
  · subst hb
    simpa only [flat, List.nil_append] using proj_dotHash_fails hx hk hw p
  · exact fails_left hwl hle hp2 hb (Nat.le_refl _) (by decide) (loop_dotHash_fails hx hk hw hp1)

/-- `l[*] rhs` -/
theorem fails_star {E : PErr} {b : Bool} {p : Nat} {l rhs : PTree} (hL : LeftOK b p lvlBracket true l)
    (hr : Fails E true lvlProj (flat true rhs)) : Fails E b p (flat b (.star l rhs)) := by
  rcases hL with ⟨rfl, _⟩ | ⟨_, hwl, hle, hp1, hp2, hb⟩
  · simp only [flat, List.nil_append]
    cases b
    · exact fails_star0 hr p
    · exact proj_star_fails hr p
  · simp only [flat]
    exact fails_left hwl hle hp2 hb (Nat.le_refl _) (by decide) (loop_star_fails hr hp1)

/-- `l.* rhs`, and the leading `* rhs` -/
theorem fails_ostar {E : PErr} {b : Bool} {p : Nat} {l rhs : PTree} (hL : LeftOK b p lvlDot true l)
    (hr : Fails E true lvlProj (flat true rhs)) : Fails E b p (flat b (.ostar l rhs)) := by
  rcases hL with ⟨rfl, _⟩ | ⟨hi, hwl, hle, hp1, hp2, hb⟩
  · cases b
    · simp only [flat, PTree.isIcur, if_true, Bool.false_eq_true, if_false, List.singleton_append]
      exact fails_ostar0 hr p
    · simp only [flat, PTree.isIcur, if_true, List.singleton_append]
      exact proj_ostar_fails hr p
  · simp only [flat, hi, Bool.false_eq_true, if_false, List.append_assoc, List.singleton_append]
    exact fails_left hwl hle hp2 hb (Nat.le_refl _) (by decide) (loop_ostar_fails hr hp1)

/-- `l[] rhs` -/
theorem fails_flat {E : PErr} {b : Bool} {p : Nat} {l rhs : PTree} (hL : LeftOK b p lvlFlatten (!b) l)
    (hr : Fails E true lvlProj (flat true rhs)) : Fails E b p (flat b (.flat l rhs)) := by
  rcases hL with ⟨rfl, hb⟩ | ⟨_, hwl, hle, hp1, hp2, hb⟩
  · cases b
    · simp only [flat, List.nil_append]
      exact fails_flat0 hr p
    · cases hb
  · simp only [flat]
    exact fails_left hwl hle hp2 hb (Nat.le_refl _) (by decide) (loop_flat_fails hr hp1)

/-- `l[? c ] rhs`: the failure is in the condition -/
theorem fails_filt_cond {E : PErr} {b : Bool} {p : Nat} {l c rhs : PTree} (hL : LeftOK b p lvlFilter true l)
    (hc : Fails E false 1 (flat false c)) : Fails E b p (flat b (.filt l c rhs)) := by
  have e : flat b (.filt l c rhs) = (flat b l ++ tFilter :: flat false c) ++ (tRBracket :: flat true rhs) := by
    simp only [flat, List.append_assoc, List.cons_append]
  rw [e]
  refine Fails.append ?_ _
  rcases hL with ⟨rfl, _⟩ | ⟨_, hwl, hle, hp1, hp2, hb⟩
  · simp only [flat, List.nil_append]
    cases b
    · exact fails_filt0_cond hc p
    · exact proj_filt_cond_fails hc p
  · exact fails_left hwl hle hp2 hb (Nat.le_refl _) (by decide) (loop_filt_cond_fails hc hp1)

/-- `l[? c ] rhs`: the failure is in the right-hand side -/
theorem fails_filt_rhs {E : PErr} {b : Bool} {p : Nat} {l c rhs : PTree} (hL : LeftOK b p lvlFilter true l)
    (hc : WellPrec c) (hr : Fails E true lvlProj (flat true rhs)) : Fails E b p (flat b (.filt l c rhs)) := by
  rcases hL with ⟨rfl, _⟩ | ⟨_, hwl, hle, hp1, hp2, hb⟩
  · simp only [flat, List.nil_append]
    cases b
    · exact fails_filt0_rhs hr hc p
    · exact proj_filt_rhs_fails hr hc p
  · simp only [flat, List.append_assoc, List.cons_append]
    exact fails_left hwl hle hp2 hb (Nat.le_refl _) (by decide) (loop_filt_rhs_fails hr hc hp1)

/-- `l[a:b:c] rhs` -/
theorem fails_slice {E : PErr} {b : Bool} {p : Nat} {l rhs : PTree} {a bb : Option Token}
    {c : Option (Option Token)} (hL : LeftOK b p lvlBracket true l) (hok : sliceOK a bb c = true)
    (hr : Fails E true lvlProj (flat true rhs)) : Fails E b p (flat b (.slice l a bb c rhs)) := by
  rcases hL with ⟨rfl, _⟩ | ⟨_, hwl, hle, hp1, hp2, hb⟩
  · simp only [flat, List.nil_append]
    cases b
    · exact fails_slice0 hr hok p
    · exact proj_slice_fails hr hok p
  · simp only [flat, List.append_assoc, List.cons_append]
    exact fails_left hwl hle hp2 hb (Nat.le_refl _) (by decide) (loop_slice_fails hr hok hp1)

/-! ## Sequences, at the level of trees -/

/-- `[ e, …, x, …]` -/
theorem fails_multiList_tree {E : PErr} {p : Nat} {pre post : List PTree} {x : PTree}
    (hw : ∀ e ∈ pre, WellPrec e) (hx : Fails E false 1 (flat false x)) :
    Fails E false p (flat false (.multiList (pre ++ x :: post))) := by
  have e : flat false (.multiList (pre ++ x :: post)) =
      (tLBracket :: (sepPre pre ++ flat false x)) ++ (sepPost post ++ [tRBracket]) := by
    simp only [flat, flatSep_split, List.append_assoc, List.cons_append]
  rw [e]
  exact (fails_multiList hx hw p).append _

/-- `{ k: e, …, k: x, …}` -/
theorem fails_multiHash_tree {E : PErr} {p : Nat} {pre post : List (Token × PTree)} {k : Token} {x : PTree}
    (hw : ∀ kv ∈ pre, keyOK kv.1 = true ∧ WellPrec kv.2) (hk : keyOK k = true)
    (hx : Fails E false 1 (flat false x)) :
    Fails E false p (flat false (.multiHash (pre ++ (k, x) :: post))) := by
  have e : flat false (.multiHash (pre ++ (k, x) :: post)) =
      (tLBrace :: (kvPre tColon pre ++ k :: tColon :: flat false x)) ++ (kvPost tColon post ++ [tRBrace]) := by
    simp only [flat, flatKVs_split, List.append_assoc, List.cons_append]
  rw [e]
  exact (fails_multiHash hx hk hw p).append _

/-- the printing of a call, split at one argument -/
theorem call_flat_split (name : Token) (pre post : List PTree) (x : PTree) :
    flat false (.call name (pre ++ x :: post)) =
      (name :: tLParen :: (sepPre pre ++ flat false x)) ++ (sepPost post ++ [tRParen]) := by
  simp only [flat, flatSep_split, List.append_assoc, List.cons_append]

/-- the printing of a non-empty list: its first element and the rest -/
theorem flatSep_cons_post (x : PTree) (post : List PTree) :
    flatSep (x :: post) = flat false x ++ sepPost post := by
  simpa only [List.nil_append, sepPre] using flatSep_split x post []

/-- an argument of a builtin with plain arguments -/
theorem fails_fixedArg_tree {E : PErr} {p : Nat} {name : Token} (hn : name.type = .unquotedIdentifier)
    {mn mx : Nat} {mk : List INode → INode} (hl : lookupBuiltin name.value = some (.fixed mn mx mk))
    {pre post : List PTree} {x : PTree} (hw : ∀ e ∈ pre, WellPrec e) (hlen : pre.length < mx)
    (hx : Fails E false 1 (flat false x)) : Fails E false p (flat false (.call name (pre ++ x :: post))) := by
  rw [call_flat_split]
  exact (fails_call_fixed hx hn hl hw hlen p).append _

/-- an argument of a variadic builtin -/
theorem fails_varArg_tree {E : PErr} {p : Nat} {name : Token} (hn : name.type = .unquotedIdentifier)
    {mk : List INode → INode} (hl : lookupBuiltin name.value = some (.varArg mk))
    {pre post : List PTree} {x : PTree} (hw : ∀ e ∈ pre, WellPrec e)
    (hx : Fails E false 1 (flat false x)) : Fails E false p (flat false (.call name (pre ++ x :: post))) := by
  rw [call_flat_split]
  exact (fails_call_varArg hx hn hl hw p).append _

/-- the first argument of `sort_by` & co -/
theorem fails_expArg1_tree {E : PErr} {p : Nat} {name : Token} (hn : name.type = .unquotedIdentifier)
    {mk : INode → INode → INode} (hl : lookupBuiltin name.value = some (.expArg mk))
    {post : List PTree} {x : PTree} (hx : Fails E false 1 (flat false x)) :
    Fails E false p (flat false (.call name (x :: post))) := by
  have e := call_flat_split name [] post x
  simp only [List.nil_append, sepPre] at e
  rw [e]
  exact (fails_call_expArg1 hx hn hl p).append _

/-- the expression reference of `sort_by` & co -/
theorem fails_expArg2_tree {E : PErr} {p : Nat} {name : Token} (hn : name.type = .unquotedIdentifier)
    {mk : INode → INode → INode} (hl : lookupBuiltin name.value = some (.expArg mk))
    {post : List PTree} {a x : PTree} (ha : WellPrec a) (hx : Fails E false 1 (flat false x)) :
    Fails E false p (flat false (.call name (a :: .ref x :: post))) := by
  have e' : flat false (.call name (a :: .ref x :: post)) =
      (name :: tLParen :: (flat false a ++ tComma :: tAmp :: flat false x)) ++ (sepPost post ++ [tRParen]) := by
    simp only [flat]
    rw [flatSep_cons2, flatSep_cons_post]
    simp only [flat, List.append_assoc, List.cons_append]
  rw [e']
  exact (fails_call_expArg2 hx hn hl ha p).append _

/-- the expression reference of `map` -/
theorem fails_mapArg1_tree {E : PErr} {p : Nat} {name : Token} (hn : name.type = .unquotedIdentifier)
    {mk : INode → INode → INode} (hl : lookupBuiltin name.value = some (.mapArg mk))
    {post : List PTree} {x : PTree} (hx : Fails E false 1 (flat false x)) :
    Fails E false p (flat false (.call name (.ref x :: post))) := by
  have e' : flat false (.call name (.ref x :: post)) =
      (name :: tLParen :: tAmp :: flat false x) ++ (sepPost post ++ [tRParen]) := by
    simp only [flat]
    rw [flatSep_cons_post]
    simp only [flat, List.append_assoc, List.cons_append]
  rw [e']
  exact (fails_call_mapArg1 hx hn hl p).append _

/-- the second argument of `map` -/
theorem fails_mapArg2_tree {E : PErr} {p : Nat} {name : Token} (hn : name.type = .unquotedIdentifier)
    {mk : INode → INode → INode} (hl : lookupBuiltin name.value = some (.mapArg mk))
    {post : List PTree} {t x : PTree} (ht : WellPrec t) (hx : Fails E false 1 (flat false x)) :
    Fails E false p (flat false (.call name (.ref t :: x :: post))) := by
  have e' : flat false (.call name (.ref t :: x :: post)) =
      (name :: tLParen :: tAmp :: (flat false t ++ tComma :: flat false x)) ++ (sepPost post ++ [tRParen]) := by
    simp only [flat]
    rw [flatSep_cons2, flatSep_cons_post]
    simp only [flat, List.append_assoc, List.cons_append]
  rw [e']
  exact (fails_call_mapArg2 hx hn hl ht p).append _

/-- the expression of a binding of `let` -/
theorem fails_letBinding_tree {E : PErr} {p : Nat} {pre post : List (Token × PTree)} {k : Token} {x body : PTree}
    (hw : ∀ kv ∈ pre, isVarTok kv.1 = true ∧ WellPrec kv.2) (hk : isVarTok k = true)
    (hx : Fails E false 1 (flat false x)) :
    Fails E false p (flat false (.letIn (pre ++ (k, x) :: post) body)) := by
  have e : flat false (.letIn (pre ++ (k, x) :: post) body) =
      (tLet :: (kvPre tAssign pre ++ k :: tAssign :: flat false x)) ++
        (kvPost tAssign post ++ tIn :: flat false body) := by
    simp only [flat, flatKVs_split, List.append_assoc, List.cons_append]
  rw [e]
  exact (fails_let_binding hx hk hw p).append _

/-- the body of `let` -/
theorem fails_letBody_tree {E : PErr} {p : Nat} {bs : List (Token × PTree)} {body : PTree} (hne : bs ≠ [])
    (hw : ∀ kv ∈ bs, isVarTok kv.1 = true ∧ WellPrec kv.2) (hx : Fails E false 1 (flat false body)) :
    Fails E false p (flat false (.letIn bs body)) := by
  simp only [flat]
  exact fails_let_body hx hne hw p

/-! ## The packaging -/

/-- **`Bad E b p t`**: the tree `t`, printed in position `b` (`false`: where an expression may start, `true`: directly
    after a projection opener) and read at power `p`, is well formed up to and including everything to the left of one
    sub-tree on which the parser fails with the error `E`; what comes after that sub-tree is arbitrary.  For
    `E = invalidFunctionCall` the failing sub-tree is a call of a builtin with an argument count outside its signature
    (`noArgs`, `fixedCount`, `expArgCount`, `mapArgCount`).  The side conditions are those of the declarative grammar
    (`wp`, `WellPrec`, `llevel`, `rlevel`, the signature table). -/
inductive Bad : PErr → Bool → Nat → PTree → Prop
  /-- `name()` -/
  | noArgs {name : Token} {spec : ArgSpec} {p : Nat} :
      name.type = .unquotedIdentifier → lookupBuiltin name.value = some spec →
      Bad .invalidFunctionCall false p (.call name [])
  /-- fewer than `mn` or more than `mx` well-formed plain arguments -/
  | fixedCount {name : Token} {mn mx : Nat} {mk : List INode → INode} {args : List PTree} {p : Nat} :
      name.type = .unquotedIdentifier → lookupBuiltin name.value = some (.fixed mn mx mk) →
      (∀ a ∈ args, WellPrec a) → (args.length < mn ∨ mx < args.length) →
      Bad .invalidFunctionCall false p (.call name args)
  /-- `sort_by` & co with one argument, or three and more (the second one an expression reference) -/
  | expArgCount {name : Token} {mk : INode → INode → INode} {a : PTree} {more : List PTree} {p : Nat} :
      name.type = .unquotedIdentifier → lookupBuiltin name.value = some (.expArg mk) → WellPrec a →
      (∀ x ∈ more.head?, ∃ t, x = .ref t ∧ WellPrec t) → (a :: more).length ≠ 2 →
      Bad .invalidFunctionCall false p (.call name (a :: more))
  /-- `map` with one argument, or three and more (the first one an expression reference) -/
  | mapArgCount {name : Token} {mk : INode → INode → INode} {t : PTree} {more : List PTree} {p : Nat} :
      name.type = .unquotedIdentifier → lookupBuiltin name.value = some (.mapArg mk) → WellPrec t →
      (∀ x ∈ more.head?, WellPrec x) → (PTree.ref t :: more).length ≠ 2 →
      Bad .invalidFunctionCall false p (.call name (.ref t :: more))
  /-- the failure is in the left operand `l` of `t` (whatever `t` adds to the right of `l`) -/
  | left {E : PErr} {b : Bool} {p : Nat} {l t : PTree} {extra : List Token} :
      Bad E b p l → flat b t = flat b l ++ extra → Bad E b p t
  | paren {E : PErr} {p : Nat} {t : PTree} : Bad E false 1 t → Bad E false p (.paren t)
  | not {E : PErr} {p : Nat} {t : PTree} : Bad E false lvlNot t → Bad E false p (.not t)
  | neg {E : PErr} {p : Nat} {tok : Token} {t : PTree} :
      tok.type = .subtract → Bad E false lvlMul t → Bad E false p (.neg tok t)
  | pos {E : PErr} {p : Nat} {t : PTree} : Bad E false lvlMul t → Bad E false p (.pos t)
  /-- an element of `[ … ]`, after well-formed elements -/
  | multiList {E : PErr} {p : Nat} {pre post : List PTree} {x : PTree} :
      (∀ e ∈ pre, WellPrec e) → Bad E false 1 x → Bad E false p (.multiList (pre ++ x :: post))
  /-- a member value of `{ … }`, after well-formed members -/
  | multiHash {E : PErr} {p : Nat} {pre post : List (Token × PTree)} {k : Token} {x : PTree} :
      (∀ kv ∈ pre, keyOK kv.1 = true ∧ WellPrec kv.2) → keyOK k = true → Bad E false 1 x →
      Bad E false p (.multiHash (pre ++ (k, x) :: post))
  /-- one of the first `mx` arguments of a builtin with plain arguments, after well-formed arguments -/
  | fixedArg {E : PErr} {p : Nat} {name : Token} {mn mx : Nat} {mk : List INode → INode} {pre post : List PTree}
      {x : PTree} :
      name.type = .unquotedIdentifier → lookupBuiltin name.value = some (.fixed mn mx mk) →
      (∀ e ∈ pre, WellPrec e) → pre.length < mx → Bad E false 1 x → Bad E false p (.call name (pre ++ x :: post))
  /-- an argument of a variadic builtin, after well-formed arguments -/
  | varArg {E : PErr} {p : Nat} {name : Token} {mk : List INode → INode} {pre post : List PTree} {x : PTree} :
      name.type = .unquotedIdentifier → lookupBuiltin name.value = some (.varArg mk) →
      (∀ e ∈ pre, WellPrec e) → Bad E false 1 x → Bad E false p (.call name (pre ++ x :: post))
  /-- the first argument of `sort_by` & co -/
  | expArg1 {E : PErr} {p : Nat} {name : Token} {mk : INode → INode → INode} {post : List PTree} {x : PTree} :
      name.type = .unquotedIdentifier → lookupBuiltin name.value = some (.expArg mk) →
      Bad E false 1 x → Bad E false p (.call name (x :: post))
  /-- the expression reference of `sort_by` & co -/
  | expArg2 {E : PErr} {p : Nat} {name : Token} {mk : INode → INode → INode} {post : List PTree} {a x : PTree} :
      name.type = .unquotedIdentifier → lookupBuiltin name.value = some (.expArg mk) → WellPrec a →
      Bad E false 1 x → Bad E false p (.call name (a :: .ref x :: post))
  /-- the expression reference of `map` -/
  | mapArg1 {E : PErr} {p : Nat} {name : Token} {mk : INode → INode → INode} {post : List PTree} {x : PTree} :
      name.type = .unquotedIdentifier → lookupBuiltin name.value = some (.mapArg mk) →
      Bad E false 1 x → Bad E false p (.call name (.ref x :: post))
  /-- the second argument of `map` -/
  | mapArg2 {E : PErr} {p : Nat} {name : Token} {mk : INode → INode → INode} {post : List PTree} {t x : PTree} :
      name.type = .unquotedIdentifier → lookupBuiltin name.value = some (.mapArg mk) → WellPrec t →
      Bad E false 1 x → Bad E false p (.call name (.ref t :: x :: post))
  /-- the expression of a binding of `let`, after well-formed bindings -/
  | letBinding {E : PErr} {p : Nat} {pre post : List (Token × PTree)} {k : Token} {x body : PTree} :
      (∀ kv ∈ pre, isVarTok kv.1 = true ∧ WellPrec kv.2) → isVarTok k = true → Bad E false 1 x →
      Bad E false p (.letIn (pre ++ (k, x) :: post) body)
  /-- the body of `let`, after well-formed bindings -/
  | letBody {E : PErr} {p : Nat} {bs : List (Token × PTree)} {body : PTree} :
      bs ≠ [] → (∀ kv ∈ bs, isVarTok kv.1 = true ∧ WellPrec kv.2) → Bad E false 1 body →
      Bad E false p (.letIn bs body)
  /-- the right operand of a binary operator, of `|`, `&&`, `||` -/
  | binR {E : PErr} {b : Bool} {p lvl : Nat} {op : Token} {l r : PTree} :
      binLevel op.type = some lvl → LeftOK b p lvl false l → Bad E false lvl r → Bad E b p (.bin op l r)
  /-- the right operand of `.` -/
  | dotIdR {E : PErr} {b : Bool} {p : Nat} {l r : PTree} :
      LeftOK b p lvlDot false l → startsWithIdent r = true → Bad E false lvlDot r → Bad E b p (.dotId l r)
  /-- `.name…` as the first selector of a right-hand side -/
  | dotIdR0 {E : PErr} {p : Nat} {r : PTree} :
      startsWithIdent r = true → Bad E false p r → Bad E true p (.dotId .icur r)
  /-- an element of `l.[ … ]` -/
  | dotListE {E : PErr} {b : Bool} {p : Nat} {l : PTree} {pre post : List PTree} {x : PTree} :
      LeftOK b p lvlDot b l → (∀ e ∈ pre, WellPrec e) → Bad E false 1 x →
      Bad E b p (.dotList l (pre ++ x :: post))
  /-- a member value of `l.{ … }` -/
  | dotHashE {E : PErr} {b : Bool} {p : Nat} {l : PTree} {pre post : List (Token × PTree)} {k : Token} {x : PTree} :
      LeftOK b p lvlDot b l → (∀ kv ∈ pre, keyOK kv.1 = true ∧ WellPrec kv.2) → keyOK k = true →
      Bad E false 1 x → Bad E b p (.dotHash l (pre ++ (k, x) :: post))
  /-- the right-hand side of `l[*]` -/
  | starR {E : PErr} {b : Bool} {p : Nat} {l rhs : PTree} :
      LeftOK b p lvlBracket true l → Bad E true lvlProj rhs → Bad E b p (.star l rhs)
  /-- the right-hand side of `l.*` (of a leading `*`) -/
  | ostarR {E : PErr} {b : Bool} {p : Nat} {l rhs : PTree} :
      LeftOK b p lvlDot true l → Bad E true lvlProj rhs → Bad E b p (.ostar l rhs)
  /-- the right-hand side of `l[]` -/
  | flatR {E : PErr} {b : Bool} {p : Nat} {l rhs : PTree} :
      LeftOK b p lvlFlatten (!b) l → Bad E true lvlProj rhs → Bad E b p (.flat l rhs)
  /-- the condition of `l[? … ]` -/
  | filtC {E : PErr} {b : Bool} {p : Nat} {l c rhs : PTree} :
      LeftOK b p lvlFilter true l → Bad E false 1 c → Bad E b p (.filt l c rhs)
  /-- the right-hand side of `l[? c ]` -/
  | filtR {E : PErr} {b : Bool} {p : Nat} {l c rhs : PTree} :
      LeftOK b p lvlFilter true l → WellPrec c → Bad E true lvlProj rhs → Bad E b p (.filt l c rhs)
  /-- the right-hand side of `l[a:b:c]` -/
  | sliceR {E : PErr} {b : Bool} {p : Nat} {l rhs : PTree} {a bb : Option Token} {c : Option (Option Token)} :
      LeftOK b p lvlBracket true l → sliceOK a bb c = true → Bad E true lvlProj rhs →
      Bad E b p (.slice l a bb c rhs)

/-- **a bad tree makes the parser fail**, with the error of its failing sub-tree, whatever follows -/
theorem bad_fails {E : PErr} {b : Bool} {p : Nat} {t : PTree} (h : Bad E b p t) : Fails E b p (flat b t) := by
  induction h with
  | noArgs hn hl => simpa only [flat, flatSep, List.nil_append, List.cons_append] using fails_noArgs hn hl _
  | fixedCount hn hl hw hc => simpa only [flat, List.cons_append] using fails_fixed_count hn hl hw hc _
  | expArgCount hn hl ha hm hc => simpa only [flat, List.cons_append] using fails_expArg_count hn hl ha hm hc _
  | mapArgCount hn hl ht hm hc => simpa only [flat, List.cons_append] using fails_mapArg_count hn hl ht hm hc _
  | left _ he ih => rw [he]; exact ih.append _
  | paren _ ih => simpa only [flat, List.cons_append] using (fails_paren ih _).append [tRParen]
  | not _ ih => simpa only [flat] using fails_not ih _
  | neg ht _ ih => simpa only [flat] using fails_neg ht ih _
  | pos _ ih => simpa only [flat] using fails_pos ih _
  | multiList hw _ ih => exact fails_multiList_tree hw ih
  | multiHash hw hk _ ih => exact fails_multiHash_tree hw hk ih
  | fixedArg hn hl hw hlen _ ih => exact fails_fixedArg_tree hn hl hw hlen ih
  | varArg hn hl hw _ ih => exact fails_varArg_tree hn hl hw ih
  | expArg1 hn hl _ ih => exact fails_expArg1_tree hn hl ih
  | expArg2 hn hl ha _ ih => exact fails_expArg2_tree hn hl ha ih
  | mapArg1 hn hl _ ih => exact fails_mapArg1_tree hn hl ih
  | mapArg2 hn hl ht _ ih => exact fails_mapArg2_tree hn hl ht ih
  | letBinding hw hk _ ih => exact fails_letBinding_tree hw hk ih
  | letBody hne hw _ ih => exact fails_letBody_tree hne hw ih
  | binR hlvl hL _ ih => exact fails_bin hlvl hL ih
  | dotIdR hL hs _ ih => exact fails_dotId hL hs ih
  | dotIdR0 hs _ ih => exact fails_dotId0 hs ih
  | dotListE hL hw _ ih => exact fails_dotList hL hw ih
  | dotHashE hL hw hk _ ih => exact fails_dotHash hL hw hk ih
  | starR hL _ ih => exact fails_star hL ih
  | ostarR hL _ ih => exact fails_ostar hL ih
  | flatR hL _ ih => exact fails_flat hL ih
  | filtC hL _ ih => exact fails_filt_cond hL ih
  | filtR hL hc _ ih => exact fails_filt_rhs hL hc ih
  | sliceR hL hok _ ih => exact fails_slice hL hok ih

/-! ## From token lists to `Parser.parse` -/

/-- **token-level form**: tokens on which `expression 1` fails with `E`, followed by anything, are rejected by
    `Parser.parse` with `E` -/
theorem fails_parse {E : PErr} {toks rest : List Token} (h : Fails E false 1 toks) {e : Bytes}
    (hl : lexAll e = (toks ++ rest, none)) : Parser.parse e = .error E := by
  obtain ⟨F, hF⟩ := h.expr rest
  exact C02B.parse_error_of_expr hl hF h.1.1

/-- a text whose tokens are those of a bad tree is rejected with the error of the failing sub-tree -/
theorem nested_error {E : PErr} {t : PTree} (h : Bad E false 1 t) {e : Bytes}
    (hl : lexAll e = (Grammar.flatten t ++ [endTok], none)) : Parser.parse e = .error E :=
  fails_parse (bad_fails h) hl

/-- **C02 for nested calls**: a text whose first defect is one call of a builtin with an argument count outside the
    signature — in any context: operand, element, member, argument, binding, condition, right-hand side — is rejected
    with the arity error -/
theorem nested_arity {t : PTree} (h : Bad .invalidFunctionCall false 1 t) {e : Bytes}
    (hl : lexAll e = (Grammar.flatten t ++ [endTok], none)) : Parser.parse e = .error .invalidFunctionCall :=
  nested_error h hl

/-- the token-level variant: the suffix is arbitrary -/
theorem nested_arity_tokens {toks rest : List Token} (h : Fails .invalidFunctionCall false 1 toks) {e : Bytes}
    (hl : lexAll e = (toks ++ rest, none)) : Parser.parse e = .error .invalidFunctionCall :=
  fails_parse h hl

/-! ## Convenience: the failure is in the left operand -/

/-- `l op r`, failure in `l` -/
theorem Bad.binL {E b p op l r} (h : Bad E b p l) : Bad E b p (.bin op l r) := .left h (by simp only [flat]; rfl)
/-- `l.r`, failure in `l` -/
theorem Bad.dotIdL {E b p l r} (h : Bad E b p l) : Bad E b p (.dotId l r) := .left h (by simp only [flat]; rfl)
/-- `l.[…]`, failure in `l` -/
theorem Bad.dotListL {E b p l es} (h : Bad E b p l) : Bad E b p (.dotList l es) :=
  .left h (extra := tDot :: tLBracket :: flatSep es ++ [tRBracket]) (by simp only [flat, List.append_assoc])
/-- `l.{…}`, failure in `l` -/
theorem Bad.dotHashL {E b p l kvs} (h : Bad E b p l) : Bad E b p (.dotHash l kvs) :=
  .left h (extra := tDot :: tLBrace :: flatKVs tColon kvs ++ [tRBrace]) (by simp only [flat, List.append_assoc])
/-- `l.[*]`, failure in `l` -/
theorem Bad.dotStarListL {E b p l} (h : Bad E b p l) : Bad E b p (.dotStarList l) := .left h (by simp only [flat]; rfl)
/-- `l[n]`, failure in `l` -/
theorem Bad.indexL {E b p l n} (h : Bad E b p l) : Bad E b p (.index l n) := .left h (by simp only [flat]; rfl)
/-- `l[*] rhs`, failure in `l` -/
theorem Bad.starL {E b p l rhs} (h : Bad E b p l) : Bad E b p (.star l rhs) := .left h (by simp only [flat]; rfl)
/-- `l.* rhs`, failure in `l` -/
theorem Bad.ostarL {E b p l rhs} (hi : l.isIcur = false) (h : Bad E b p l) : Bad E b p (.ostar l rhs) :=
  .left h (extra := tDotStar :: flat true rhs)
    (by simp only [flat, hi, Bool.false_eq_true, if_false, List.append_assoc, List.singleton_append])
/-- `l[] rhs`, failure in `l` -/
theorem Bad.flatL {E b p l rhs} (h : Bad E b p l) : Bad E b p (.flat l rhs) := .left h (by simp only [flat]; rfl)
/-- `l[? c ] rhs`, failure in `l` -/
theorem Bad.filtL {E b p l c rhs} (h : Bad E b p l) : Bad E b p (.filt l c rhs) :=
  .left h (extra := tFilter :: flat false c ++ tRBracket :: flat true rhs) (by simp only [flat, List.append_assoc])
/-- `l[a:b:c] rhs`, failure in `l` -/
theorem Bad.sliceL {E b p l a bb c rhs} (h : Bad E b p l) : Bad E b p (.slice l a bb c rhs) :=
  .left h (extra := tLBracket :: sliceToks a bb c ++ tRBracket :: flat true rhs)
    (by simp only [flat, List.append_assoc])

/-- a well-formed tree in primary position, read at the top level, as the left operand of a form of level `lvl` -/
theorem leftOK_top {l : PTree} {lvl : Nat} {ic : Bool} (hi : l.isIcur = false) (hw : WellPrec l)
    (hle : lvl ≤ rlevel l) (h1 : 1 < lvl) : LeftOK false 1 lvl ic l :=
  Or.inr ⟨hi, hw, hle, h1, by have := llevel_ge false l hw; omega, fun h => by cases h⟩

/-- the implicit current node as the left operand of the first selector of a right-hand side -/
theorem leftOK_icur {b : Bool} {p lvl : Nat} : LeftOK b p lvl true .icur := Or.inl ⟨rfl, rfl⟩

/-! ## Examples -/
section examples
open Grammar.Ex

/-- an identifier token -/
private def tk (s : String) : Token := ⟨.unquotedIdentifier, bs s⟩
/-- `abs()` -/
private def abs0 : PTree := .call (tk "abs") []
/-- `abs(b,c)` and `abs(a,b)` -/
private def abs2 (x y : String) : PTree := .call (tk "abs") [idt x, idt y]

/-- `abs()` is bad at every power -/
private theorem bad_abs0 (p : Nat) : Bad .invalidFunctionCall false p abs0 :=
  .noArgs (spec := .fixed 1 1 (callN .abs)) rfl rfl
/-- `abs(x,y)` is bad at every power -/
private theorem bad_abs2 (x y : String) (p : Nat) : Bad .invalidFunctionCall false p (abs2 x y) :=
  .fixedCount (mn := 1) (mx := 1) (mk := callN .abs) rfl rfl
    (fun a ha => by
      simp only [List.mem_cons, List.not_mem_nil, or_false] at ha
      rcases ha with rfl | rfl <;> rfl)
    (Or.inr (Nat.lt_succ_self 1))

/-- `abs()` alone (the case of `C02B.fixed_arity_iff`) -/
example : Parser.parse (bs "abs()") = .error .invalidFunctionCall :=
  nested_arity (bad_abs0 1) (by decide +kernel)

/-- `!abs()` -/
example : Parser.parse (bs "!abs()") = .error .invalidFunctionCall :=
  nested_arity (t := .not abs0) (.not (bad_abs0 _)) (by decide +kernel)

/-- `(abs())` and `-abs()` -/
example : Parser.parse (bs "(abs())") = .error .invalidFunctionCall :=
  nested_arity (t := .paren abs0) (.paren (bad_abs0 _)) (by decide +kernel)
example : Parser.parse (bs "-abs()") = .error .invalidFunctionCall :=
  nested_arity (t := .neg (op .subtract "-") abs0) (.neg rfl (bad_abs0 _)) (by decide +kernel)

/-- `[abs()]` and `[a, abs(), b]` -/
example : Parser.parse (bs "[abs()]") = .error .invalidFunctionCall :=
  nested_arity (t := .multiList [abs0]) (.multiList (pre := []) (post := []) (fun _ h => by cases h) (bad_abs0 _))
    (by decide +kernel)
example : Parser.parse (bs "[a, abs(), b]") = .error .invalidFunctionCall :=
  nested_arity (t := .multiList [idt "a", abs0, idt "b"])
    (.multiList (pre := [idt "a"]) (post := [idt "b"]) (by decide) (bad_abs0 _)) (by decide +kernel)

/-- `{k: abs()}` -/
example : Parser.parse (bs "{k: abs()}") = .error .invalidFunctionCall :=
  nested_arity (t := .multiHash [(tk "k", abs0)])
    (.multiHash (pre := []) (post := []) (fun _ h => by cases h) rfl (bad_abs0 _)) (by decide +kernel)

/-- `a.abs(b,c)` -/
example : Parser.parse (bs "a.abs(b,c)") = .error .invalidFunctionCall :=
  nested_arity (t := .dotId (idt "a") (abs2 "b" "c"))
    (.dotIdR (leftOK_top rfl (by decide) (by decide) (by decide)) (by decide) (bad_abs2 _ _ _)) (by decide +kernel)

/-- `x || y || abs()` -/
example : Parser.parse (bs "x || y || abs()") = .error .invalidFunctionCall :=
  nested_arity (t := .bin (op .or "||") (.bin (op .or "||") (idt "x") (idt "y")) abs0)
    (.binR (lvl := lvlOr) rfl (leftOK_top rfl (by decide) (by decide) (by decide)) (bad_abs0 _)) (by decide +kernel)

/-- `abs() || x`: the failure is in the left operand -/
example : Parser.parse (bs "abs() || x") = .error .invalidFunctionCall :=
  nested_arity (t := .bin (op .or "||") abs0 (idt "x")) (bad_abs0 _).binL (by decide +kernel)

/-- `foo[*].{k: abs(a,b)}` -/
example : Parser.parse (bs "foo[*].{k: abs(a,b)}") = .error .invalidFunctionCall :=
  nested_arity (t := .star (idt "foo") (.dotHash .icur [(tk "k", abs2 "a" "b")]))
    (.starR (leftOK_top rfl (by decide) (by decide) (by decide))
      (.dotHashE (pre := []) (post := []) leftOK_icur (fun _ h => by cases h) rfl (bad_abs2 _ _ _)))
    (by decide +kernel)

/-- `foo[*].abs()`: the first selector of the right-hand side -/
example : Parser.parse (bs "foo[*].abs()") = .error .invalidFunctionCall :=
  nested_arity (t := .star (idt "foo") (.dotId .icur abs0))
    (.starR (leftOK_top rfl (by decide) (by decide) (by decide)) (.dotIdR0 (by decide) (bad_abs0 _)))
    (by decide +kernel)

/-- `length(abs())`: a call in a call -/
example : Parser.parse (bs "length(abs())") = .error .invalidFunctionCall :=
  nested_arity (t := .call (tk "length") [abs0])
    (.fixedArg (mn := 1) (mx := 1) (mk := callN .length) (pre := []) (post := []) rfl rfl (fun _ h => by cases h)
      (by decide) (bad_abs0 _)) (by decide +kernel)

/-- `sort_by(abs(), &a)` and `sort_by(a, &abs())` -/
example : Parser.parse (bs "sort_by(abs(), &a)") = .error .invalidFunctionCall :=
  nested_arity (t := .call (tk "sort_by") [abs0, .ref (idt "a")])
    (.expArg1 (mk := .sortBy) rfl rfl (bad_abs0 _)) (by decide +kernel)
example : Parser.parse (bs "sort_by(a, &abs())") = .error .invalidFunctionCall :=
  nested_arity (t := .call (tk "sort_by") [idt "a", .ref abs0])
    (.expArg2 (mk := .sortBy) (post := []) rfl rfl (by decide) (bad_abs0 _)) (by decide +kernel)

/-- `map(&abs(), a)` and `merge(a, abs())` -/
example : Parser.parse (bs "map(&abs(), a)") = .error .invalidFunctionCall :=
  nested_arity (t := .call (tk "map") [.ref abs0, idt "a"])
    (.mapArg1 (mk := .map) rfl rfl (bad_abs0 _)) (by decide +kernel)
example : Parser.parse (bs "merge(a, abs())") = .error .invalidFunctionCall :=
  nested_arity (t := .call (tk "merge") [idt "a", abs0])
    (.varArg (mk := .merge) (pre := [idt "a"]) (post := []) rfl rfl (by decide) (bad_abs0 _)) (by decide +kernel)

/-- `a[?abs()]` -/
example : Parser.parse (bs "a[?abs()]") = .error .invalidFunctionCall :=
  nested_arity (t := .filt (idt "a") abs0 .icur)
    (.filtC (leftOK_top rfl (by decide) (by decide) (by decide)) (bad_abs0 _)) (by decide +kernel)

/-- `let $x = abs() in $x` and `let $x = a in abs()` -/
example : Parser.parse (bs "let $x = abs() in $x") = .error .invalidFunctionCall :=
  nested_arity (t := .letIn [(⟨.variable, bs "$x"⟩, abs0)] (.atom ⟨.variable, bs "$x"⟩))
    (.letBinding (pre := []) (post := []) (fun _ h => by cases h) rfl (bad_abs0 _)) (by decide +kernel)
example : Parser.parse (bs "let $x = a in abs()") = .error .invalidFunctionCall :=
  nested_arity (t := .letIn [(⟨.variable, bs "$x"⟩, idt "a")] abs0)
    (.letBody (by simp) (by decide) (bad_abs0 _)) (by decide +kernel)

/-- the token-level variant: what follows the failing call need not even be an expression: `[abs() ) ) ,` -/
example : Parser.parse (bs "[abs() ) ) ,") = .error .invalidFunctionCall :=
  nested_arity_tokens (toks := tLBracket :: (sepPre [] ++ flat false abs0)) (rest := [tRParen, tRParen, tComma, endTok])
    (fails_multiList (bad_fails (bad_abs0 1)) (fun _ h => by cases h) 1) (by decide +kernel)

/-- the side conditions matter: `!a.abs()` is `(!a).abs()`, so the tree `!(a.abs())` is not `Bad` through `not`
    (its operand would have to be read at the power of `!`, above that of `.`), while the tree `(!a).abs()` is -/
example : Parser.parse (bs "!a.abs()") = .error .invalidFunctionCall :=
  nested_arity (t := .dotId (.not (idt "a")) abs0)
    (.dotIdR (leftOK_top rfl (by decide) (by decide) (by decide)) (by decide) (bad_abs0 _)) (by decide +kernel)

/-- `+abs()` -/
example : Parser.parse (bs "+abs()") = .error .invalidFunctionCall :=
  nested_arity (t := .pos abs0) (.pos (bad_abs0 _)) (by decide +kernel)

/-- `a.[b, abs()]` and `foo[*].[abs()]` -/
example : Parser.parse (bs "a.[b, abs()]") = .error .invalidFunctionCall :=
  nested_arity (t := .dotList (idt "a") [idt "b", abs0])
    (.dotListE (pre := [idt "b"]) (post := []) (leftOK_top rfl (by decide) (by decide) (by decide)) (by decide)
      (bad_abs0 _)) (by decide +kernel)
example : Parser.parse (bs "foo[*].[abs()]") = .error .invalidFunctionCall :=
  nested_arity (t := .star (idt "foo") (.dotList .icur [abs0]))
    (.starR (leftOK_top rfl (by decide) (by decide) (by decide))
      (.dotListE (pre := []) (post := []) leftOK_icur (fun _ h => by cases h) (bad_abs0 _))) (by decide +kernel)

/-- `a.{k: abs()}` -/
example : Parser.parse (bs "a.{k: abs()}") = .error .invalidFunctionCall :=
  nested_arity (t := .dotHash (idt "a") [(tk "k", abs0)])
    (.dotHashE (pre := []) (post := []) (leftOK_top rfl (by decide) (by decide) (by decide))
      (fun _ h => by cases h) rfl (bad_abs0 _)) (by decide +kernel)

/-- `a.*.abs()` and the leading `*.abs()` -/
example : Parser.parse (bs "a.*.abs()") = .error .invalidFunctionCall :=
  nested_arity (t := .ostar (idt "a") (.dotId .icur abs0))
    (.ostarR (leftOK_top rfl (by decide) (by decide) (by decide)) (.dotIdR0 (by decide) (bad_abs0 _)))
    (by decide +kernel)
example : Parser.parse (bs "*.abs()") = .error .invalidFunctionCall :=
  nested_arity (t := .ostar .icur (.dotId .icur abs0)) (.ostarR leftOK_icur (.dotIdR0 (by decide) (bad_abs0 _)))
    (by decide +kernel)

/-- `a[].abs()` and the leading `[].abs()` -/
example : Parser.parse (bs "a[].abs()") = .error .invalidFunctionCall :=
  nested_arity (t := .flat (idt "a") (.dotId .icur abs0))
    (.flatR (leftOK_top rfl (by decide) (by decide) (by decide)) (.dotIdR0 (by decide) (bad_abs0 _)))
    (by decide +kernel)
example : Parser.parse (bs "[].abs()") = .error .invalidFunctionCall :=
  nested_arity (t := .flat .icur (.dotId .icur abs0)) (.flatR (Or.inl ⟨rfl, rfl⟩) (.dotIdR0 (by decide) (bad_abs0 _)))
    (by decide +kernel)

/-- `a[?b].abs()` and `a[1:2].abs()` -/
example : Parser.parse (bs "a[?b].abs()") = .error .invalidFunctionCall :=
  nested_arity (t := .filt (idt "a") (idt "b") (.dotId .icur abs0))
    (.filtR (leftOK_top rfl (by decide) (by decide) (by decide)) (by decide) (.dotIdR0 (by decide) (bad_abs0 _)))
    (by decide +kernel)
example : Parser.parse (bs "a[1:2].abs()") = .error .invalidFunctionCall :=
  nested_arity (t := .slice (idt "a") (some (int "1")) (some (int "2")) none (.dotId .icur abs0))
    (.sliceR (leftOK_top rfl (by decide) (by decide) (by decide)) (by decide) (.dotIdR0 (by decide) (bad_abs0 _)))
    (by decide +kernel)

/-- `foo[*][*].abs()` and `foo[*][?abs()]`: a right-hand side inside a right-hand side -/
example : Parser.parse (bs "foo[*][*].abs()") = .error .invalidFunctionCall :=
  nested_arity (t := .star (idt "foo") (.star .icur (.dotId .icur abs0)))
    (.starR (leftOK_top rfl (by decide) (by decide) (by decide))
      (.starR leftOK_icur (.dotIdR0 (by decide) (bad_abs0 _)))) (by decide +kernel)
example : Parser.parse (bs "foo[*][?abs()]") = .error .invalidFunctionCall :=
  nested_arity (t := .star (idt "foo") (.filt .icur abs0 .icur))
    (.starR (leftOK_top rfl (by decide) (by decide) (by decide)) (.filtC leftOK_icur (bad_abs0 _)))
    (by decide +kernel)

/-- `foo[*].bar.abs()`: a well-formed selector of the right-hand side, then the call -/
example : Parser.parse (bs "foo[*].bar.abs()") = .error .invalidFunctionCall :=
  nested_arity (t := .star (idt "foo") (.dotId (.dotId .icur (idt "bar")) abs0))
    (.starR (leftOK_top rfl (by decide) (by decide) (by decide))
      (.dotIdR (Or.inr ⟨rfl, by decide, by decide, by decide, by decide, fun _ => by decide⟩) (by decide)
        (bad_abs0 _))) (by decide +kernel)

/-- `map(&a, abs())` -/
example : Parser.parse (bs "map(&a, abs())") = .error .invalidFunctionCall :=
  nested_arity (t := .call (tk "map") [.ref (idt "a"), abs0])
    (.mapArg2 (mk := .map) (post := []) rfl rfl (by decide) (bad_abs0 _)) (by decide +kernel)

/-- `a.sort_by(b)` and `[map(&a)]`: the other two kinds of count errors, nested -/
example : Parser.parse (bs "a.sort_by(b)") = .error .invalidFunctionCall :=
  nested_arity (t := .dotId (idt "a") (.call (tk "sort_by") [idt "b"]))
    (.dotIdR (leftOK_top rfl (by decide) (by decide) (by decide)) (by decide)
      (.expArgCount (mk := .sortBy) rfl rfl (by decide) (fun _ h => by cases h) (by decide))) (by decide +kernel)
example : Parser.parse (bs "[map(&a)]") = .error .invalidFunctionCall :=
  nested_arity (t := .multiList [.call (tk "map") [.ref (idt "a")]])
    (.multiList (pre := []) (post := []) (fun _ h => by cases h)
      (.mapArgCount (mk := .map) rfl rfl (by decide) (fun _ h => by cases h) (by decide))) (by decide +kernel)

/-- a longer left spine: `a.b[0] + c * abs()` -/
example : Parser.parse (bs "a.b[0] + c * abs()") = .error .invalidFunctionCall :=
  nested_arity
    (t := .bin (op .add "+") (.dotId (idt "a") (.index (idt "b") (int "0"))) (.bin (op .asterisk "*") (idt "c") abs0))
    (.binR (lvl := lvlAdd) rfl (leftOK_top rfl (by decide) (by decide) (by decide))
      (.binR (lvl := lvlMul) rfl (Or.inr ⟨rfl, by decide, by decide, by decide, by decide, fun h => by cases h⟩)
        (bad_abs0 _))) (by decide +kernel)

/-- failure in the left operand of a postfix form: `abs()[0]` and `abs().a` -/
example : Parser.parse (bs "abs()[0]") = .error .invalidFunctionCall :=
  nested_arity (t := .index abs0 (int "0")) (bad_abs0 _).indexL (by decide +kernel)
example : Parser.parse (bs "abs().a") = .error .invalidFunctionCall :=
  nested_arity (t := .dotId abs0 (idt "a")) (bad_abs0 _).dotIdL (by decide +kernel)

end examples

end Jmes.C02CArity
