/-
  C09, third wave — the lexer (/repo/internal/lexer/lexer.go) in the tick-writer monad of `C09CTick.lean`.

  THE UNIT.  In this file one tick is ONE CALL OF `(*Lexer).decodeRune` (lexer.go:396, one `utf8.DecodeRuneInString`),
  wherever Go makes it and whether or not it succeeds:
    * the decode at the head of every iteration of a `for { … }` loop (lexer.go:29, :411, :441, :459, :489, :519,
      :558) is the tick that `forBrkT` charges for the iteration (the iteration that leaves the loop included);
    * the second decode after a backslash inside a delimited token (lexer.go:429, :477, :507) is an explicit `tick`
      in `scanBody`, charged also when that decode fails;
    * every look-ahead `l.decodeRune(start+sz)` of `Next` (lexer.go:65 `&`, :126 `-`, :139 `.`, :158 `/`, :185 `<`,
      :204 `=`, :223 `>`, :250 and :253 `[`, :312 `|`, :365 `!`) and the first decode of `variable` (lexer.go:544,
      after `$`) is a `peekT` — one tick — on exactly the branches where Go performs it (the second look-ahead after
      `[` only when the first one decoded `*`).
  The rune the `switch` of `Next` dispatches on is NOT decoded again: it is the rune decoded by the last iteration of
  the whitespace loop (lexer.go:29), whose tick is the one `forBrkT` charges for the breaking iteration of
  `skipWsBody`; so the `lexDecode s` at the head of `lexTokenT` is free, and `lexTokenT` alone counts the decodes
  that `Next` makes AFTER its whitespace loop.  When the first rune is not blank the whitespace loop runs one
  iteration = one tick = that one decode.  The tests `l.position == len(l.expression)` (lexer.go:17 before the loop,
  :40 inside it) decode nothing and cost nothing: `skipWsT` on the empty input and the `.brk []` exit of `skipWsBody`.
  On top of the decodes, the token-stream loop `lexAllT` charges one tick per `Next` CALL (its `forBrkT` iteration).

  Every loop of the Go lexer is an unbounded `for { … }` whose every continuing iteration advances `next` /
  `l.position` by the size `sz ≥ 1` of a decoded rune.  The mirrors below are `forBrkT` loops with the bound
  `len(expression) + 1` (resp. `len(expression)`), which the model's functions also carry as fuel; that this bound
  is never what ends a loop is proved in `Jmes/Proofs/C09EFuelLex.lean`.  Proved here: the instrumented lexer
  returns the token stream of the model (`lexAllT_fst`), in at most `4·|expr| + 4` ticks (`lexAllT_snd_le`): a
  single forward pass — no token, literal or identifier is scanned twice; one `Next` costs at most the bytes of its
  token plus one (`lexTokenT_snd_le`, reached by `[*x`: two look-aheads for a one-byte token).
-/
import Jmes.Proofs.C09CTick
import Jmes.Proofs.Lex
set_option linter.unusedSimpArgs false
namespace Jmes.C09C
open Jmes

/-- the state a `forBrkT` loop ended in -/
def Ctl.get {σ : Type} : Ctl σ → σ
  | .next s => s
  | .brk s => s

/-! ## the scanning loops inside a token -/

/-- body of lexer.go:440 (`numberLiteral`), lexer.go:518 (`unquotedIdentifier`), lexer.go:557 (`variable`):
    `r, sz, err := l.decodeRune(next); if err == nil && p(r) { next += sz; continue }; …; return nil`;
    the state is (remaining input, bytes spanned).  One decode per iteration = the tick of the `forBrkT` iteration;
    the iteration that stops (its decode fails or yields a rune outside `p`) is charged too. -/
def spanBody (p : Nat → Bool) (st : Bytes × Nat) : T (Ctl (Bytes × Nat)) :=
  match lexDecode st.1 with
  | .ok (r, sz) => if p r then pure (.next (st.1.drop sz, st.2 + sz)) else pure (.brk st)
  | .error _ => pure (.brk st)

/-- lexer.go:440 / :518 / :557 `for { … }` -/
def spanRunesT (p : Nat → Bool) (fuel : Nat) (s : Bytes) : T Nat := do
  let r ← forBrkT (spanBody p) fuel (s, 0)
  pure r.get.2

theorem spanLoop (p : Nat → Bool) : ∀ (fuel : Nat) (s : Bytes) (n : Nat),
    (forBrkT (spanBody p) fuel (s, n)).1.get.2 = n + spanRunes p fuel s ∧
    (forBrkT (spanBody p) fuel (s, n)).2 ≤ spanRunes p fuel s + 1 := by
  intro fuel
  induction fuel with
  | zero => intro s n; exact ⟨rfl, by simp [forBrkT]⟩
  | succ fuel ih =>
    intro s n
    rw [forBrkT_succ_fst, forBrkT_succ_snd]
    simp only [spanBody, spanRunes]
    cases h : lexDecode s with
    | error e => simp [Ctl.get]
    | ok q =>
      obtain ⟨r, sz⟩ := q
      simp only
      cases hp : p r with
      | false => simp [Ctl.get]
      | true =>
        have hpos := (Lex.lexDecode_pos h).1
        have := ih (s.drop sz) (n + sz)
        simp only [if_true, pure_fst, pure_snd]
        omega

/-- the identifier / digit scan returns what the model's `spanRunes` returns … -/
theorem spanRunesT_fst (p : Nat → Bool) (fuel : Nat) (s : Bytes) : (spanRunesT p fuel s).1 = spanRunes p fuel s := by
  simp [spanRunesT, (spanLoop p fuel s 0).1]
/-- … in at most one decode per byte spanned plus the one that stops -/
theorem spanRunesT_snd_le (p : Nat → Bool) (fuel : Nat) (s : Bytes) :
    (spanRunesT p fuel s).2 ≤ spanRunes p fuel s + 1 := by
  simp only [spanRunesT, bind_snd, pure_snd]; have := (spanLoop p fuel s 0).2; omega

example : spanRunesT isDigitR 100 [0x31, 0x32, 0x33, 0x5D] = ⟨3, 4⟩ := by decide

/-- body of lexer.go:410 (`jsonLiteral`), lexer.go:458 (`quotedIdentifier`), lexer.go:488 (`stringLiteral`):
    `r, sz, err := l.decodeRune(next); if err != nil { return err }; next += sz; if r == delim { …; return nil };
    if r == '\\' { _, sz, err := l.decodeRune(next); if err != nil { return err }; next += sz }`;
    the state is ((remaining input, bytes consumed), outcome).  The first decode is the tick of the `forBrkT`
    iteration; the second decode (after a backslash; lexer.go:429 / :477 / :507) is the explicit `tick`, charged
    before its outcome is known, so also when it fails. -/
def scanBody (delim : Nat) (st : (Bytes × Nat) × Except LexErr Nat) : T (Ctl ((Bytes × Nat) × Except LexErr Nat)) :=
  match lexDecode st.1.1 with
  | .error e => pure (.brk (st.1, .error e))
  | .ok (r, sz) =>
    if r = delim then pure (.brk (st.1, .ok (st.1.2 + sz)))
    else if r = 0x5C then do
      tick                                                    -- the second `l.decodeRune(next)`
      match lexDecode (st.1.1.drop sz) with
      | .error e => pure (.brk (st.1, .error e))
      | .ok (_, sz2) => pure (.next ((st.1.1.drop (sz + sz2), st.1.2 + sz + sz2), st.2))
    else pure (.next ((st.1.1.drop sz, st.1.2 + sz), st.2))

/-- lexer.go:410 / :458 / :488 `for { … }` -/
def scanDelimT (delim : Nat) (fuel : Nat) (s : Bytes) (n : Nat) : T (Except LexErr Nat) := do
  let r ← forBrkT (scanBody delim) fuel ((s, n), .error .unexpectedEnd)
  pure r.get.2

theorem scanLoop (delim : Nat) : ∀ (fuel : Nat) (s : Bytes) (n : Nat),
    (forBrkT (scanBody delim) fuel ((s, n), .error .unexpectedEnd)).1.get.2 = scanDelim delim fuel s n ∧
    (forBrkT (scanBody delim) fuel ((s, n), .error .unexpectedEnd)).2 ≤ s.length + 1 ∧
    (∀ m, scanDelim delim fuel s n = .ok m →
      (forBrkT (scanBody delim) fuel ((s, n), .error .unexpectedEnd)).2 + n ≤ m) := by
  intro fuel
  induction fuel with
  | zero => intro s n; exact ⟨rfl, by simp [forBrkT], fun m h => by simp [scanDelim] at h⟩
  | succ fuel ih =>
    intro s n
    rw [forBrkT_succ_fst, forBrkT_succ_snd]
    simp only [scanBody, scanDelim]
    cases h : lexDecode s with
    | error e => simp [Ctl.get]
    | ok q =>
      obtain ⟨r, sz⟩ := q
      have hpos := Lex.lexDecode_pos h
      simp only
      by_cases hd : r = delim
      · simp only [hd, if_true, pure_fst, pure_snd, Ctl.get]
        refine ⟨by first | rfl | trivial, by omega, fun m hm => ?_⟩
        injection hm with hm; omega
      · simp only [hd, if_false]
        by_cases hb : r = 0x5C
        · simp only [hb, if_true, bind_fst, bind_snd, tick_snd, tick_fst]
          cases h2 : lexDecode (s.drop sz) with
          | error e => simp [Ctl.get]; omega
          | ok q2 =>
            obtain ⟨r2, sz2⟩ := q2
            have hpos2 := Lex.lexDecode_pos h2
            rw [List.length_drop] at hpos2
            have := ih (s.drop (sz + sz2)) (n + sz + sz2)
            rw [List.length_drop] at this
            simp only [pure_fst, pure_snd]
            refine ⟨this.1, by omega, fun m hm => ?_⟩
            have := this.2.2 m hm; omega
        · simp only [hb, if_false, pure_fst, pure_snd]
          have := ih (s.drop sz) (n + sz)
          rw [List.length_drop] at this
          refine ⟨this.1, by omega, fun m hm => ?_⟩
          have := this.2.2 m hm; omega

/-- the delimited-token scan returns what the model's `scanDelim` returns … -/
theorem scanDelimT_fst (delim fuel : Nat) (s : Bytes) (n : Nat) :
    (scanDelimT delim fuel s n).1 = scanDelim delim fuel s n := by
  simp [scanDelimT, (scanLoop delim fuel s n).1]
/-- … in at most one decode per byte of the remaining input, plus one (a backslash costs two decodes and, unless it
    ends the scan with an error, consumes at least two bytes) … -/
theorem scanDelimT_snd_le (delim fuel : Nat) (s : Bytes) (n : Nat) : (scanDelimT delim fuel s n).2 ≤ s.length + 1 := by
  simp only [scanDelimT, bind_snd, pure_snd]; have := (scanLoop delim fuel s n).2.1; omega
/-- … and, when the closing delimiter is found, at most one per byte of the token -/
theorem scanDelimT_snd_ok (delim fuel : Nat) (s : Bytes) (n m : Nat) (h : scanDelim delim fuel s n = .ok m) :
    (scanDelimT delim fuel s n).2 + n ≤ m := by
  simp only [scanDelimT, bind_snd, pure_snd]; have := (scanLoop delim fuel s n).2.2 m h; omega

/-- `'a\'b']` after the opening quote: 4 iterations (`a`, `\`, `b`, `'`) and the extra decode of the rune after the
    backslash — 5 decodes for the 5 bytes scanned -/
example : (scanDelimT 0x27 100 [0x61, 0x5C, 0x27, 0x62, 0x27, 0x5D] 1).1 = .ok 6 ∧
    (scanDelimT 0x27 100 [0x61, 0x5C, 0x27, 0x62, 0x27, 0x5D] 1).2 = 5 := ⟨by rfl, by decide⟩
/-- a backslash as the last byte: the failing second decode is charged (2 decodes for 1 byte) -/
example : (scanDelimT 0x27 100 [0x5C] 1).1 = .error .unexpectedEnd ∧ (scanDelimT 0x27 100 [0x5C] 1).2 = 2 :=
  ⟨by rfl, by decide⟩

/-! ## one token: `(*Lexer).Next` after the whitespace loop -/

/-- a look-ahead `nr, nsz, err := l.decodeRune(start + sz)`: ONE decode, one tick, whether or not it succeeds -/
def peekT (s : Bytes) (sz : Nat) : T (Option (Nat × Nat)) := do tick; pure (peek s sz)

@[simp] theorem peekT_fst (s : Bytes) (sz : Nat) : (peekT s sz).1 = peek s sz := rfl
@[simp] theorem peekT_snd (s : Bytes) (sz : Nat) : (peekT s sz).2 = 1 := rfl

/-- lexer.go:51-394, the `switch r` of `Next` with the scanning functions it calls: the model's `lexToken` with the
    instrumented loops in place of `scanDelim` / `spanRunes` and `peekT` (one tick) in place of `peek` at every
    look-ahead Go performs; every other branch is straight-line code without a decode.  The `lexDecode s` at the head
    is the rune ALREADY decoded by the breaking iteration of the whitespace loop (lexer.go:29) and charged there
    (`skipWsBody`); it costs nothing here. -/
def lexTokenT (s : Bytes) : T (Except LexErr (Token × Nat)) :=
  match lexDecode s with
  | .error e => pure (.error e)
  | .ok (r, sz) =>
    let tok (t : TokenType) (n : Nat) : Except LexErr (Token × Nat) := .ok (⟨t, s.take n⟩, n)
    let two (c : Nat) (t2 t1 : TokenType) : T (Except LexErr (Token × Nat)) := do
      let p ← peekT s sz                                         -- `nr, nsz, err := l.decodeRune(start + sz)`
      pure (match p with
        | some (nr, nsz) => if nr = c then tok t2 (sz + nsz) else tok t1 sz
        | none => tok t1 sz)
    if r = 0x22 then do
      let x ← scanDelimT 0x22 (s.length + 1) (s.drop sz) sz      -- lexer.go:458
      pure (match x with
       | .ok n => tok .quotedIdentifier n
       | .error e => .error e)
    else if r = 0x24 then do
      let p ← peekT s sz                                         -- lexer.go:544
      match p with
       | some (nr, nsz) =>
         if isAlphaR nr then do
           let k ← spanRunesT (fun r => isAlphaR r || isDigitR r) s.length (s.drop (sz + nsz))   -- lexer.go:557
           pure (tok .variable (sz + nsz + k))
         else pure (tok .root sz)
       | none => pure (tok .root sz)
    else if r = 0x25 then pure (tok .modulo sz)
    else if r = 0x26 then two 0x26 .and .expression              -- lexer.go:65
    else if r = 0x27 then do
      let x ← scanDelimT 0x27 (s.length + 1) (s.drop sz) sz      -- lexer.go:488
      pure (match x with
       | .ok n => tok .stringLiteral n
       | .error e => .error e)
    else if r = 0x28 then pure (tok .openParen sz)
    else if r = 0x29 then pure (tok .closeParen sz)
    else if r = 0x2A then pure (tok .asterisk sz)
    else if r = 0x2B then pure (tok .add sz)
    else if r = 0x2C then pure (tok .comma sz)
    else if r = 0x2D then do
      let p ← peekT s sz                                         -- lexer.go:126
      match p with
       | some (nr, nsz) =>
         if isDigitR nr then do
           let k ← spanRunesT isDigitR s.length (s.drop (sz + nsz))                               -- lexer.go:440
           pure (tok .integerLiteral (sz + nsz + k))
         else pure (tok .subtract sz)
       | none => pure (tok .subtract sz)
    else if r = 0x2E then two 0x2A .objectWildcard .dot          -- lexer.go:139
    else if r = 0x2F then two 0x2F .integerDivide .divide        -- lexer.go:158
    else if r = 0x3A then pure (tok .colon sz)
    else if r = 0x3C then two 0x3D .lessOrEqual .less            -- lexer.go:185
    else if r = 0x3D then two 0x3D .equal .assign                -- lexer.go:204
    else if r = 0x3E then two 0x3D .greaterOrEqual .greater      -- lexer.go:223
    else if r = 0x40 then pure (tok .current sz)
    else if r = 0x5B then do
      let p ← peekT s sz                                         -- lexer.go:250
      match p with
       | some (nr, nsz) =>
         if nr = 0x2A then do
           let q ← peekT s (sz + nsz)                            -- lexer.go:253, only after `[*`
           pure (match q with
            | some (nnr, nnsz) => if nnr = 0x5D then tok .arrayWildcard (sz + nsz + nnsz) else tok .openSqBrace sz
            | none => tok .openSqBrace sz)
         else if nr = 0x3F then pure (tok .filter (sz + nsz))
         else if nr = 0x5D then pure (tok .flatten (sz + nsz))
         else pure (tok .openSqBrace sz)
       | none => pure (tok .openSqBrace sz)
    else if r = 0x5D then pure (tok .closeSqBrace sz)
    else if r = 0x60 then do
      let x ← scanDelimT 0x60 (s.length + 1) (s.drop sz) sz      -- lexer.go:410
      pure (match x with
       | .ok n => tok .jsonLiteral n
       | .error e => .error e)
    else if r = 0x7B then pure (tok .openBrace sz)
    else if r = 0x7C then two 0x7C .or .pipe                     -- lexer.go:312
    else if r = 0x7D then pure (tok .closeBrace sz)
    else if r = 0xD7 then pure (tok .multiply sz)
    else if r = 0xF7 then pure (tok .divide sz)
    else if r = 0x2212 then pure (tok .subtract sz)
    else if r = 0x21 then two 0x3D .notEqual .not                -- lexer.go:365
    else if isDigitR r then do
      let k ← spanRunesT isDigitR s.length (s.drop sz)                                            -- lexer.go:440
      pure (tok .integerLiteral (sz + k))
    else if isAlphaR r then do
      let k ← spanRunesT (fun r => isAlphaR r || isDigitR r) s.length (s.drop sz)                -- lexer.go:518
      let n := sz + k
      let v := s.take n
      let t := if v = [0x69, 0x6E] then TokenType.in else if v = [0x6C, 0x65, 0x74] then TokenType.let
               else TokenType.unquotedIdentifier
      pure (.ok (⟨t, v⟩, n))
    else pure (.error (.unexpectedRune r))

/-- the instrumented `Next` produces the model's token -/
theorem lexTokenT_fst (s : Bytes) : (lexTokenT s).1 = lexToken s := by
  unfold lexTokenT lexToken
  cases h : lexDecode s with
  | error e => rfl
  | ok q =>
    obtain ⟨r, sz⟩ := q
    simp only []
    cases hp : peek s sz with
    | none => simp only [apply_ite T.val, bind_fst, pure_fst, scanDelimT_fst, spanRunesT_fst, peekT_fst, hp]; rfl
    | some q2 =>
      obtain ⟨nr, nsz⟩ := q2
      simp only [apply_ite T.val, bind_fst, pure_fst, scanDelimT_fst, spanRunesT_fst, peekT_fst, hp]; rfl

set_option hygiene false in
/-- closes the per-branch goals of `lexTokenT_snd_le` -/
local macro "fin" : tactic => `(tactic| first
  | omega
  | (simp only [tokBound_ok, tokBound_error]; omega)
  | (cases hs : scanDelim 34 (s.length + 1) (s.drop sz) sz <;> simp only [tokBound_ok, tokBound_error] <;> first | omega | (have := b1 _ hs; omega))
  | (cases hs : scanDelim 39 (s.length + 1) (s.drop sz) sz <;> simp only [tokBound_ok, tokBound_error] <;> first | omega | (have := b2 _ hs; omega))
  | (cases hs : scanDelim 96 (s.length + 1) (s.drop sz) sz <;> simp only [tokBound_ok, tokBound_error] <;> first | omega | (have := b3 _ hs; omega))
  | (split <;> first | omega | (simp only [tokBound_ok, tokBound_error]; omega) | (split <;> first | (simp only [tokBound_ok, tokBound_error]; omega) | (split <;> (simp only [tokBound_ok, tokBound_error]; omega))))
  | trace_state)

/-- the budget of one `Next` call after its whitespace loop, in `decodeRune` calls: the bytes of the token it returns
    plus one (reached by `[*x`: two look-aheads, a one-byte token); after a lexical error, the remaining input plus
    two -/
def tokBound (s : Bytes) : Except LexErr (Token × Nat) → Nat
  | .ok (_, n) => n + 1
  | .error _ => s.length + 2

@[simp] theorem tokBound_ok (s : Bytes) (t : Token) (n : Nat) : tokBound s (.ok (t, n)) = n + 1 := rfl
@[simp] theorem tokBound_error (s : Bytes) (e : LexErr) : tokBound s (.error e) = s.length + 2 := rfl

/-- the cost of `Next` after the whitespace loop, counting EVERY `decodeRune` call it makes (look-aheads, both decodes
    of an escaped rune, the failing decode that ends an identifier or a number): at most one tick per byte of the
    token it returns, plus one; on a lexical error at most one per remaining byte, plus two -/
theorem lexTokenT_snd_le (s : Bytes) : (lexTokenT s).2 ≤ tokBound s (lexToken s) := by
  unfold lexTokenT lexToken
  cases h : lexDecode s with
  | error e => simp
  | ok q =>
    obtain ⟨r, sz⟩ := q
    have hpos := Lex.lexDecode_pos h
    have a1 := scanDelimT_snd_le 0x22 (s.length + 1) (s.drop sz) sz
    have a2 := scanDelimT_snd_le 0x27 (s.length + 1) (s.drop sz) sz
    have a3 := scanDelimT_snd_le 0x60 (s.length + 1) (s.drop sz) sz
    have b1 := scanDelimT_snd_ok 0x22 (s.length + 1) (s.drop sz) sz
    have b2 := scanDelimT_snd_ok 0x27 (s.length + 1) (s.drop sz) sz
    have b3 := scanDelimT_snd_ok 0x60 (s.length + 1) (s.drop sz) sz
    have c1 := spanRunesT_snd_le isDigitR s.length (s.drop sz)
    have c2 := spanRunesT_snd_le (fun r => isAlphaR r || isDigitR r) s.length (s.drop sz)
    rw [List.length_drop] at a1 a2 a3
    simp only []
    cases hp : peek s sz with
    | none =>
      simp only [apply_ite T.cost, bind_snd, pure_snd, bind_fst, scanDelimT_fst, spanRunesT_fst, peekT_fst, peekT_snd, hp]
      by_cases h34 : r = 34
      · subst h34; simp only [reduceIte, Nat.reduceEqDiff]; fin
      simp only [h34, if_false]
      by_cases h36 : r = 36
      · subst h36; simp only [reduceIte, Nat.reduceEqDiff]; fin
      simp only [h36, if_false]
      by_cases h37 : r = 37
      · subst h37; simp only [reduceIte, Nat.reduceEqDiff]; fin
      simp only [h37, if_false]
      by_cases h38 : r = 38
      · subst h38; simp only [reduceIte, Nat.reduceEqDiff]; fin
      simp only [h38, if_false]
      by_cases h39 : r = 39
      · subst h39; simp only [reduceIte, Nat.reduceEqDiff]; fin
      simp only [h39, if_false]
      by_cases h40 : r = 40
      · subst h40; simp only [reduceIte, Nat.reduceEqDiff]; fin
      simp only [h40, if_false]
      by_cases h41 : r = 41
      · subst h41; simp only [reduceIte, Nat.reduceEqDiff]; fin
      simp only [h41, if_false]
      by_cases h42 : r = 42
      · subst h42; simp only [reduceIte, Nat.reduceEqDiff]; fin
      simp only [h42, if_false]
      by_cases h43 : r = 43
      · subst h43; simp only [reduceIte, Nat.reduceEqDiff]; fin
      simp only [h43, if_false]
      by_cases h44 : r = 44
      · subst h44; simp only [reduceIte, Nat.reduceEqDiff]; fin
      simp only [h44, if_false]
      by_cases h45 : r = 45
      · subst h45; simp only [reduceIte, Nat.reduceEqDiff]; fin
      simp only [h45, if_false]
      by_cases h46 : r = 46
      · subst h46; simp only [reduceIte, Nat.reduceEqDiff]; fin
      simp only [h46, if_false]
      by_cases h47 : r = 47
      · subst h47; simp only [reduceIte, Nat.reduceEqDiff]; fin
      simp only [h47, if_false]
      by_cases h58 : r = 58
      · subst h58; simp only [reduceIte, Nat.reduceEqDiff]; fin
      simp only [h58, if_false]
      by_cases h60 : r = 60
      · subst h60; simp only [reduceIte, Nat.reduceEqDiff]; fin
      simp only [h60, if_false]
      by_cases h61 : r = 61
      · subst h61; simp only [reduceIte, Nat.reduceEqDiff]; fin
      simp only [h61, if_false]
      by_cases h62 : r = 62
      · subst h62; simp only [reduceIte, Nat.reduceEqDiff]; fin
      simp only [h62, if_false]
      by_cases h64 : r = 64
      · subst h64; simp only [reduceIte, Nat.reduceEqDiff]; fin
      simp only [h64, if_false]
      by_cases h91 : r = 91
      · subst h91; simp only [reduceIte, Nat.reduceEqDiff]; fin
      simp only [h91, if_false]
      by_cases h93 : r = 93
      · subst h93; simp only [reduceIte, Nat.reduceEqDiff]; fin
      simp only [h93, if_false]
      by_cases h96 : r = 96
      · subst h96; simp only [reduceIte, Nat.reduceEqDiff]; fin
      simp only [h96, if_false]
      by_cases h123 : r = 123
      · subst h123; simp only [reduceIte, Nat.reduceEqDiff]; fin
      simp only [h123, if_false]
      by_cases h124 : r = 124
      · subst h124; simp only [reduceIte, Nat.reduceEqDiff]; fin
      simp only [h124, if_false]
      by_cases h125 : r = 125
      · subst h125; simp only [reduceIte, Nat.reduceEqDiff]; fin
      simp only [h125, if_false]
      by_cases h215 : r = 215
      · subst h215; simp only [reduceIte, Nat.reduceEqDiff]; fin
      simp only [h215, if_false]
      by_cases h247 : r = 247
      · subst h247; simp only [reduceIte, Nat.reduceEqDiff]; fin
      simp only [h247, if_false]
      by_cases h8722 : r = 8722
      · subst h8722; simp only [reduceIte, Nat.reduceEqDiff]; fin
      simp only [h8722, if_false]
      by_cases h33 : r = 33
      · subst h33; simp only [reduceIte, Nat.reduceEqDiff]; fin
      simp only [h33, if_false]
      by_cases hd : isDigitR r = true
      · simp only [hd, if_true]; fin
      simp only [hd, if_false]
      by_cases ha : isAlphaR r = true
      · simp only [ha, if_true]; fin
      simp only [ha, if_false]; fin
    | some q2 =>
      obtain ⟨nr, nsz⟩ := q2
      have hpos2 := (Lex.peek_some hp)
      have d1 := spanRunesT_snd_le isDigitR s.length (s.drop (sz + nsz))
      have d2 := spanRunesT_snd_le (fun r => isAlphaR r || isDigitR r) s.length (s.drop (sz + nsz))
      simp only [apply_ite T.cost, bind_snd, pure_snd, bind_fst, scanDelimT_fst, spanRunesT_fst, peekT_fst, peekT_snd, hp]
      by_cases h34 : r = 34
      · subst h34; simp only [reduceIte, Nat.reduceEqDiff]; fin
      simp only [h34, if_false]
      by_cases h36 : r = 36
      · subst h36; simp only [reduceIte, Nat.reduceEqDiff]; fin
      simp only [h36, if_false]
      by_cases h37 : r = 37
      · subst h37; simp only [reduceIte, Nat.reduceEqDiff]; fin
      simp only [h37, if_false]
      by_cases h38 : r = 38
      · subst h38; simp only [reduceIte, Nat.reduceEqDiff]; fin
      simp only [h38, if_false]
      by_cases h39 : r = 39
      · subst h39; simp only [reduceIte, Nat.reduceEqDiff]; fin
      simp only [h39, if_false]
      by_cases h40 : r = 40
      · subst h40; simp only [reduceIte, Nat.reduceEqDiff]; fin
      simp only [h40, if_false]
      by_cases h41 : r = 41
      · subst h41; simp only [reduceIte, Nat.reduceEqDiff]; fin
      simp only [h41, if_false]
      by_cases h42 : r = 42
      · subst h42; simp only [reduceIte, Nat.reduceEqDiff]; fin
      simp only [h42, if_false]
      by_cases h43 : r = 43
      · subst h43; simp only [reduceIte, Nat.reduceEqDiff]; fin
      simp only [h43, if_false]
      by_cases h44 : r = 44
      · subst h44; simp only [reduceIte, Nat.reduceEqDiff]; fin
      simp only [h44, if_false]
      by_cases h45 : r = 45
      · subst h45; simp only [reduceIte, Nat.reduceEqDiff]; fin
      simp only [h45, if_false]
      by_cases h46 : r = 46
      · subst h46; simp only [reduceIte, Nat.reduceEqDiff]; fin
      simp only [h46, if_false]
      by_cases h47 : r = 47
      · subst h47; simp only [reduceIte, Nat.reduceEqDiff]; fin
      simp only [h47, if_false]
      by_cases h58 : r = 58
      · subst h58; simp only [reduceIte, Nat.reduceEqDiff]; fin
      simp only [h58, if_false]
      by_cases h60 : r = 60
      · subst h60; simp only [reduceIte, Nat.reduceEqDiff]; fin
      simp only [h60, if_false]
      by_cases h61 : r = 61
      · subst h61; simp only [reduceIte, Nat.reduceEqDiff]; fin
      simp only [h61, if_false]
      by_cases h62 : r = 62
      · subst h62; simp only [reduceIte, Nat.reduceEqDiff]; fin
      simp only [h62, if_false]
      by_cases h64 : r = 64
      · subst h64; simp only [reduceIte, Nat.reduceEqDiff]; fin
      simp only [h64, if_false]
      by_cases h91 : r = 91
      · subst h91; simp only [reduceIte, Nat.reduceEqDiff]; fin
      simp only [h91, if_false]
      by_cases h93 : r = 93
      · subst h93; simp only [reduceIte, Nat.reduceEqDiff]; fin
      simp only [h93, if_false]
      by_cases h96 : r = 96
      · subst h96; simp only [reduceIte, Nat.reduceEqDiff]; fin
      simp only [h96, if_false]
      by_cases h123 : r = 123
      · subst h123; simp only [reduceIte, Nat.reduceEqDiff]; fin
      simp only [h123, if_false]
      by_cases h124 : r = 124
      · subst h124; simp only [reduceIte, Nat.reduceEqDiff]; fin
      simp only [h124, if_false]
      by_cases h125 : r = 125
      · subst h125; simp only [reduceIte, Nat.reduceEqDiff]; fin
      simp only [h125, if_false]
      by_cases h215 : r = 215
      · subst h215; simp only [reduceIte, Nat.reduceEqDiff]; fin
      simp only [h215, if_false]
      by_cases h247 : r = 247
      · subst h247; simp only [reduceIte, Nat.reduceEqDiff]; fin
      simp only [h247, if_false]
      by_cases h8722 : r = 8722
      · subst h8722; simp only [reduceIte, Nat.reduceEqDiff]; fin
      simp only [h8722, if_false]
      by_cases h33 : r = 33
      · subst h33; simp only [reduceIte, Nat.reduceEqDiff]; fin
      simp only [h33, if_false]
      by_cases hd : isDigitR r = true
      · simp only [hd, if_true]; fin
      simp only [hd, if_false]
      by_cases ha : isAlphaR r = true
      · simp only [ha, if_true]; fin
      simp only [ha, if_false]; fin

/-- `[*x`: two look-aheads (`*`, then `x` ≠ `]`) for the one-byte token `[` — the bound `bytes + 1` is attained -/
example : (lexTokenT [0x5B, 0x2A, 0x78]).1 = .ok (⟨.openSqBrace, [0x5B]⟩, 1) ∧ (lexTokenT [0x5B, 0x2A, 0x78]).2 = 2 :=
  ⟨by rfl, by decide⟩
/-- `<=`: one look-ahead; `<` at the end of the input: the look-ahead is made, fails, and is charged; `$a.`: the decode
    of `variable` :544 (`a`), then the one iteration of the loop :557 that decodes `.` and stops; `%`: no decode -/
example : (lexTokenT [0x3C, 0x3D]).2 = 1 ∧ (lexTokenT [0x3C]).2 = 1 ∧ (lexTokenT [0x24, 0x61, 0x2E]).2 = 2 ∧
    (lexTokenT [0x25]).2 = 0 := by decide

/-! ## whitespace, and the token stream -/

/-- body of lexer.go:28, the loop at the top of `Next`: `r, sz, err = l.decodeRune(l.position); if err != nil
    { return err }; if r is not blank { break }; l.position += sz; if l.position == len(l.expression) { …End }`.
    The decode at the head of the iteration is the tick of the `forBrkT` iteration.  The iteration that breaks on a
    non-blank rune `r` (or on a decoding error) is charged like the others: it is the decode whose result `Next`
    then dispatches on (`lexTokenT` re-reads it for free).  The exit `.brk []` is the test lexer.go:40 — no decode
    is made on the empty rest, and none is charged. -/
def skipWsBody (s : Bytes) : T (Ctl Bytes) :=
  match lexDecode s with
  | .ok (r, sz) =>
    if isWsR r then
      (match s.drop sz with
       | [] => pure (.brk [])                                   -- lexer.go:40
       | s' => pure (.next s'))
    else pure (.brk s)
  | .error _ => pure (.brk s)

/-- lexer.go:17 `if l.position == len(l.expression)` (no decode, no tick), then lexer.go:28 `for { … }` -/
def skipWsT (fuel : Nat) (s : Bytes) : T Bytes :=
  match s with
  | [] => pure []
  | _ => do
    let r ← forBrkT skipWsBody fuel s
    pure r.get

theorem skipWsLex_nil : ∀ fuel : Nat, skipWsLex fuel [] = []
  | 0 => rfl
  | _ + 1 => rfl

theorem skipWsLoop : ∀ (fuel : Nat) (s : Bytes), s ≠ [] →
    (forBrkT skipWsBody fuel s).1.get = skipWsLex fuel s ∧
    (forBrkT skipWsBody fuel s).2 + (skipWsLex fuel s).length ≤ s.length + 1 ∧
    (skipWsLex fuel s = [] → (forBrkT skipWsBody fuel s).2 ≤ s.length) := by
  intro fuel
  induction fuel with
  | zero => intro s _; exact ⟨rfl, by simp [forBrkT, skipWsLex], by simp [forBrkT]⟩
  | succ fuel ih =>
    intro s hne
    rw [forBrkT_succ_fst, forBrkT_succ_snd]
    cases s with
    | nil => exact absurd rfl hne
    | cons b t =>
      simp only [skipWsBody, skipWsLex]
      cases h : lexDecode (b :: t) with
      | error e => simp [Ctl.get]; omega
      | ok q =>
        obtain ⟨r, sz⟩ := q
        have hpos := Lex.lexDecode_pos h
        simp only
        cases hw : isWsR r with
        | false => simp [Ctl.get]; omega
        | true =>
          simp only [if_true]
          cases hd : (b :: t).drop sz with
          | nil =>
            simp only [pure_fst, pure_snd, Ctl.get, skipWsLex_nil]
            simp only [List.length_cons] at hpos
            simp only [List.length_nil, List.length_cons]
            exact ⟨trivial, by omega, fun _ => by omega⟩
          | cons b' t' =>
            have := ih (b' :: t') (by simp)
            have hl : (b' :: t').length = (b :: t).length - sz := by rw [← hd, List.length_drop]
            simp only [pure_fst, pure_snd]
            refine ⟨this.1, by omega, fun h0 => ?_⟩
            have := this.2.2 h0; omega

/-- the whitespace loop returns what the model's `skipWsLex` returns … -/
theorem skipWsT_fst (fuel : Nat) (s : Bytes) : (skipWsT fuel s).1 = skipWsLex fuel s := by
  cases s with
  | nil => simp [skipWsT, skipWsLex_nil]
  | cons b t => simp [skipWsT, (skipWsLoop fuel (b :: t) (by simp)).1]
/-- … in one decode per byte skipped, plus the one that stops -/
theorem skipWsT_snd_le (fuel : Nat) (s : Bytes) :
    (skipWsT fuel s).2 + (skipWsLex fuel s).length ≤ s.length + 1 := by
  cases s with
  | nil => simp [skipWsT, skipWsLex_nil]
  | cons b t =>
    simp only [skipWsT, bind_snd, pure_snd]; have := (skipWsLoop fuel (b :: t) (by simp)).2.1; omega
/-- … and when only blanks were left (the `End` token), in exactly no more decodes than bytes -/
theorem skipWsT_snd_le_end (fuel : Nat) (s : Bytes) (h : skipWsLex fuel s = []) : (skipWsT fuel s).2 ≤ s.length := by
  cases s with
  | nil => simp [skipWsT]
  | cons b t =>
    simp only [skipWsT, bind_snd, pure_snd]; have := (skipWsLoop fuel (b :: t) (by simp)).2.2 h; omega

/-- two blanks, then `a`: three decodes (the third one is the `a` that `Next` dispatches on) -/
example : skipWsT 10 [0x20, 0x20, 0x61] = ⟨[0x61], 3⟩ := by decide
/-- no blank: the loop still makes the one decode of the rune that `Next` dispatches on -/
example : skipWsT 10 [0x61] = ⟨[0x61], 1⟩ := by decide
/-- only blanks: one decode each, and the test lexer.go:40 ends the loop without another decode; the empty input:
    the test lexer.go:17, no decode -/
example : skipWsT 2 [0x20, 0x20] = ⟨[], 2⟩ ∧ skipWsT 0 [] = ⟨[], 0⟩ := by decide

/-- one round of the parser pulling a token (parser.go:20/24/39/43/47 `p.lex.Next(…)`): the whitespace loop, the end
    test, the token; the state is (remaining input, (tokens so far, outcome)).  The decodes of one `Next` are those of
    `skipWsT` (the last of which is the rune the `switch` dispatches on) plus those of `lexTokenT`. -/
def lexAllBody (st : Bytes × (List Token × Option LexErr)) : T (Ctl (Bytes × (List Token × Option LexErr))) := do
  let s' ← skipWsT st.1.length st.1                             -- lexer.go:28
  match s' with
  | [] => pure (.brk ([], (st.2.1 ++ [⟨.end, []⟩], none)))
  | _ => do
    let x ← lexTokenT s'                                        -- lexer.go:51
    match x with
    | .error e => pure (.brk (s', (st.2.1, some e)))
    | .ok (t, n) => pure (.next (s'.drop (max n 1), (st.2.1 ++ [t], st.2.2)))

/-- all the `Next` calls of one `Parse`: at most `len(expression) + 1` of them, since every token spans at least one
    byte.  The `forBrkT` tick of an iteration here is not a decode: it counts the `Next` CALL. -/
def lexAllT (s : Bytes) : T (List Token × Option LexErr) := do
  let r ← forBrkT lexAllBody (s.length + 1) (s, ([], some .unexpectedEnd))
  pure r.get.2

theorem lexAllLoop : ∀ (fuel : Nat) (s : Bytes) (acc : List Token),
    (forBrkT lexAllBody fuel (s, (acc, some .unexpectedEnd))).1.get.2
      = (acc ++ (lexAllAux fuel s).1, (lexAllAux fuel s).2) ∧
    (forBrkT lexAllBody fuel (s, (acc, some .unexpectedEnd))).2 ≤ 4 * s.length + 4 := by
  intro fuel
  induction fuel with
  | zero => intro s acc; exact ⟨by simp [forBrkT, lexAllAux, Ctl.get], by simp [forBrkT]⟩
  | succ fuel ih =>
    intro s acc
    rw [forBrkT_succ_fst, forBrkT_succ_snd]
    have hw := skipWsT_snd_le s.length s
    simp only [lexAllBody, lexAllAux, bind_fst, bind_snd, skipWsT_fst]
    cases hs : skipWsLex s.length s with
    | nil =>
      rw [hs] at hw
      simp only [pure_fst, pure_snd, Ctl.get]
      exact ⟨by first | rfl | trivial, by simp at hw; omega⟩
    | cons b t =>
      rw [hs] at hw
      have hc := lexTokenT_snd_le (b :: t)
      simp only [bind_fst, bind_snd, lexTokenT_fst]
      cases hx : lexToken (b :: t) with
      | error e =>
        rw [hx] at hc
        simp only [pure_fst, pure_snd, Ctl.get, tokBound_error] at hc ⊢
        exact ⟨by simp, by simp at hw hc ⊢; omega⟩
      | ok q =>
        obtain ⟨tk, n⟩ := q
        rw [hx] at hc
        have hg := Lex.lexToken_good hx
        have h1 := hg.pos
        have h2 := hg.le
        have hm : max n 1 = n := Nat.max_eq_left h1
        simp only [pure_fst, pure_snd, tokBound_ok] at hc ⊢
        rw [hm]
        obtain ⟨ih1, ih2⟩ := ih ((b :: t).drop n) (acc ++ [tk])
        rw [List.length_drop] at ih2
        refine ⟨?_, ?_⟩
        · rw [ih1]; simp
        · have hsuf : (b :: t).length ≤ s.length := by
            obtain ⟨w, _, hw2⟩ := Lex.skipWsLex_spec s.length s
            have := congrArg List.length hw2
            rw [hs, List.length_append] at this; omega
          generalize (b :: t).length = L' at *
          omega

/-- the instrumented lexer produces exactly the token stream of the model's `lexAll` … -/
theorem lexAllT_fst (s : Bytes) : (lexAllT s).1 = lexAll s := by
  simp [lexAllT, lexAll, (lexAllLoop (s.length + 1) s []).1]

/-- … in at most `4·|expr| + 4` ticks, where the ticks are ALL the `decodeRune` calls of all the `Next` calls (loop
    heads, look-aheads, second decodes of escapes, failing decodes) plus one per `Next` call: one forward pass;
    whitespace, identifiers, numbers and literals are each scanned once, and the position strictly increases with
    every token.  (Per `Next`: 1 for the call, `w + 1` for `w` blanks and the dispatching rune, at most `n + 1` for a
    token of `n ≥ 1` bytes: `w + n + 3 ≤ 4·(w + n)`.) -/
theorem lexAllT_snd_le (s : Bytes) : (lexAllT s).2 ≤ 4 * s.length + 4 := by
  simp only [lexAllT, bind_snd, pure_snd]; have := (lexAllLoop (s.length + 1) s []).2; omega

/-- every token spans at least one byte: at most `|expr| + 1` tokens (the `end` token included) -/
theorem lexAllAux_length : ∀ (fuel : Nat) (s : Bytes), (lexAllAux fuel s).1.length ≤ s.length + 1 := by
  intro fuel
  induction fuel with
  | zero => intro s; simp [lexAllAux]
  | succ fuel ih =>
    intro s
    simp only [lexAllAux]
    cases hs : skipWsLex s.length s with
    | nil => simp
    | cons b t =>
      have hsuf : (b :: t).length ≤ s.length := by
        obtain ⟨w, _, hw2⟩ := Lex.skipWsLex_spec s.length s
        have := congrArg List.length hw2
        rw [hs, List.length_append] at this; omega
      simp only
      cases hx : lexToken (b :: t) with
      | error e => simp
      | ok q =>
        obtain ⟨tk, n⟩ := q
        have := ih ((b :: t).drop (max n 1))
        rw [List.length_drop] at this
        simp only [List.length_cons] at this hsuf ⊢
        omega

theorem lexAll_length (s : Bytes) : (lexAll s).1.length ≤ s.length + 1 := lexAllAux_length _ s

example : (lexAll [0x61, 0x2E, 0x62]).1.length = 4 := by decide

/-- `foo[?bar > `1`]` (15 bytes) -/
example : (lexAllT [0x66, 0x6F, 0x6F, 0x5B, 0x3F, 0x62, 0x61, 0x72, 0x20, 0x3E, 0x20, 0x60, 0x31, 0x60, 0x5D]).2 ≤ 64 :=
  lexAllT_snd_le _
/-- … exactly: 7 `Next` calls making 4 (`foo`: `f`, `o`, `o`, and the `[` that stops), 2 (`[`, look-ahead `?`),
    4 (`bar` and the blank that stops), 3 (blank, `>`, look-ahead blank), 4 (blank, `` ` ``, `1`, `` ` ``), 1 (`]`) and
    0 (`End`, lexer.go:17) decodes: 18 + 7 = 25 ticks -/
example : (lexAllT [0x66, 0x6F, 0x6F, 0x5B, 0x3F, 0x62, 0x61, 0x72, 0x20, 0x3E, 0x20, 0x60, 0x31, 0x60, 0x5D]).2 = 25 := by
  decide
/-- `[*[*`: 4 `Next` calls + `End`; decodes 3 (`[`, `*`, `[`), 1, 3 (`[`, `*`, and the failing look-ahead), 1, 0 -/
example : (lexAllT [0x5B, 0x2A, 0x5B, 0x2A]).2 = 13 := by decide

end Jmes.C09C
