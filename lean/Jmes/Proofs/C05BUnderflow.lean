/-
  Property C05 (part B): gradual underflow of the decimal128 model.

  `Jmes/Proofs/DecExact.lean` proves that `Dec.reduce` rounds correctly (half-even) when the exponent stays
  `≥ EMIN`.  This file covers the remaining case: the exact result lies below `10^EMIN` granularity, digits are
  dropped until the exponent reaches `EMIN` (`dropLow`), and the value is rounded half-even to a multiple of
  `10^EMIN` (absolute error `≤ 10^EMIN / 2`), possibly to zero.

  Main results: `reduce_underflow` (U1), `reduce_underflowD` / `quo_close_general` (U2), `mul_underflow` (U3),
  `close_abs_le` / `closeD_abs_le` (U4).
-/
import Jmes.Proofs.DecExact
namespace Jmes

namespace Dec

/-! ### `dropLow`: what it returns below `EMIN` -/

/-- **What `dropLow` does below `EMIN`**, for any invariant `I k c dg st` of the state "`k` digits dropped so far"
    that is preserved by dropping one more digit.  One of three things happens:
    (a) exactly `j = EMIN - e` digits are dropped and the exponent becomes `EMIN`;
    (b) the early exit `(0, EMIN, 0, false)` is taken; this happens at a moment when the current coefficient is `0`
        and at least one more digit was still to be dropped (`kk + 1 ≤ k + (EMIN - e)`);
    (c) the fuel runs out while the exponent is still below `EMIN`; exactly `fuel` digits were dropped, so the
        remaining coefficient `c'` satisfies `c'·10^fuel ≤ c`. -/
theorem dropLow_spec (I : Nat → Nat → Nat → Bool → Prop)
    (hstep : ∀ k c dg st, I k c dg st → I (k + 1) (c / 10) (c % 10) (st || dg != 0)) :
    ∀ (fuel c : Nat) (e : Int) (dg : Nat) (st : Bool) (k : Nat), I k c dg st → e < EMIN →
      (∃ j c' dg' st', dropLow fuel c e dg st = (c', EMIN, dg', st') ∧ I (k + j) c' dg' st' ∧
          e + (j : Nat) = EMIN ∧ c' ≤ c) ∨
      (dropLow fuel c e dg st = (0, EMIN, 0, false) ∧
          ∃ kk dg' st', I kk 0 dg' st' ∧ kk + 1 ≤ k + (EMIN - e).toNat) ∨
      (∃ c' dg' st', dropLow fuel c e dg st = (c', e + (fuel : Nat), dg', st') ∧ e + (fuel : Nat) < EMIN ∧
          I (k + fuel) c' dg' st' ∧ c' * 10 ^ fuel ≤ c)
  | 0, c, e, dg, st, k, h, he => by
    right; right
    exact ⟨c, dg, st, by simp [dropLow], by simpa using he, by simpa using h, by simp⟩
  | fuel + 1, c, e, dg, st, k, h, he => by
    unfold dropLow
    simp only [he, if_true]
    by_cases hz : c / 10 = 0 ∧ c % 10 = 0
    · right; left
      simp only [hz, and_self, if_true, true_and]
      have hc0 : c = 0 := by omega
      subst hc0
      exact ⟨k, dg, st, h, by omega⟩
    · simp only [hz, if_false]
      by_cases he1 : e + 1 < EMIN
      · rcases dropLow_spec I hstep fuel (c / 10) (e + 1) (c % 10) (st || dg != 0) (k + 1) (hstep _ _ _ _ h) he1 with
          ⟨j, c', dg', st', h1, h2, h3, h4⟩ | ⟨h1, kk, dg', st', h2, h3⟩ | ⟨c', dg', st', h1, h2, h3, h4⟩
        · left
          refine ⟨j + 1, c', dg', st', h1, ?_, by omega, by omega⟩
          have : k + (j + 1) = k + 1 + j := by omega
          rw [this]; exact h2
        · right; left
          exact ⟨h1, kk, dg', st', h2, by omega⟩
        · right; right
          refine ⟨c', dg', st', ?_, by omega, ?_, ?_⟩
          · rw [h1]; simp only [Prod.mk.injEq, true_and, and_true]; omega
          · have : k + (fuel + 1) = k + 1 + fuel := by omega
            rw [this]; exact h3
          · rw [Nat.pow_succ, ← Nat.mul_assoc]
            have := Nat.mul_le_mul_right 10 h4
            omega
      · left
        rw [dropLow_id _ _ _ _ _ (by omega)]
        refine ⟨1, c / 10, c % 10, (st || dg != 0), ?_, hstep _ _ _ _ h, by omega, by omega⟩
        have : e + 1 = EMIN := by omega
        rw [this]

-- (a) two digits dropped, the exponent lands on EMIN; (b) early exit; (c) fuel exhausted below EMIN
example : dropLow 60 123 (-6178) 0 false = (1, EMIN, 2, true) := by decide
example : dropLow 60 5 (-6180) 0 false = (0, EMIN, 0, false) := by decide
example : dropLow 2 123456 (-6180) 0 false = (1234, (-6180 : Int) + (2 : Nat), 5, true) := by decide
example : ∃ j c' dg' st', dropLow 60 123 (-6178) 0 false = (c', EMIN, dg', st') ∧ RInvD 123 1 (0 + j) c' dg' st' := by
  rcases dropLow_spec (RInvD 123 1) (fun _ _ _ _ h => RInvD_step h) 60 123 (-6178) 0 false 0 ⟨0, by decide⟩
      (by decide) with ⟨j, c', dg', st', h1, h2, _⟩ | ⟨h1, _⟩ | ⟨c', dg', st', h1, h2, _⟩
  · exact ⟨j, c', dg', st', h1, h2⟩
  · exact absurd h1 (by decide)
  · exact absurd h2 (by decide)

/-- a state whose kept coefficient is `0` after `kk` dropped digits represents a value below `10^kk`; hence twice the
    value is at most `10^K` for every `K > kk` -/
theorem RInvD_zero_bound {X D kk dg K : Nat} {st : Bool} (h : RInvD X D kk 0 dg st) (hK : kk + 1 ≤ K) :
    2 * X ≤ 10 ^ K * D := by
  obtain ⟨t, h1, h2, h3, _⟩ := h
  have hle : 10 ^ (kk + 1) * D ≤ 10 ^ K * D := Nat.mul_le_mul_right _ (Nat.pow_le_pow_right (by decide) hK)
  rw [Nat.pow_succ] at hle
  have e1 : (0 * 10 ^ (kk + 1) + dg * 10 ^ kk) * D = dg * (10 ^ kk * D) := by
    rw [Nat.zero_mul, Nat.zero_add, Nat.mul_assoc]
  have e2 : 10 ^ kk * 10 * D = 10 * (10 ^ kk * D) := by
    rw [Nat.mul_comm (10 ^ kk) 10, Nat.mul_assoc]
  rw [e1] at h1
  rw [e2] at hle
  generalize 10 ^ kk * D = P at *
  have hub : dg * P ≤ 9 * P := Nat.mul_le_mul_right _ (by omega)
  omega

example : 2 * 9 ≤ 10 ^ 2 * 1 := RInvD_zero_bound (X := 9) (D := 1) (kk := 1) (dg := 9) (st := false) ⟨0, by decide⟩ (by decide)

/-- zero is within half a unit `10^K` of every value whose double is at most `10^K` -/
theorem CloseD_zero {X D K : Nat} (h : 2 * X ≤ 10 ^ K * D) : CloseD X D K 0 := by
  unfold CloseD
  simp only [Nat.mul_zero, Nat.zero_mul, Nat.zero_add]
  exact ⟨h, Nat.zero_le _⟩

example : CloseD 5 1 1 0 := CloseD_zero (by decide)

/-- `roundEven` (as `roundEven_specD`), stating in addition that a carry (`j ≠ 0`) only happens out of a full
    coefficient, so that the result then has 34 digits -/
theorem roundEven_specD' {X D k c dg : Nat} {st : Bool} (fuel : Nat) (e : Int) (h : RInvD X D k c dg st)
    (hc : c ≤ MAXSIG) :
    ∃ c4 j, roundEven (fuel + 2) c e dg st = (c4, e + (j : Nat)) ∧ CloseD X D (k + j) c4 ∧ c4 ≤ MAXSIG ∧
      (j = 0 ∨ 10 ^ 33 ≤ c4) ∧ ((MAXSIG + 1) / 10 ≤ c → 10 ^ 33 ≤ c4) := by
  by_cases hc1 : c + 1 ≤ MAXSIG
  · obtain ⟨c4, h1, h2, h3, h4, _⟩ := roundEven_nocarryD (fuel + 1) e h hc1
    refine ⟨c4, 0, by simpa using h1, by simpa using h2, by omega, Or.inl rfl, fun hb => ?_⟩
    rw [MAXSIG_val] at hb; omega
  · have hcM : c = MAXSIG := by omega
    rw [roundEven_succ]
    by_cases hup : RoundUp c dg st
    · have hgt : c + 1 > MAXSIG := by omega
      simp only [hup, hgt, if_true]
      have h10 : c / 10 + 1 ≤ MAXSIG := by rw [MAXSIG_val] at *; omega
      obtain ⟨c4, h1, h2, h3, h4, h5⟩ := roundEven_nocarryD fuel (e + 1) (RInvD_step h) h10
      have h9 : c % 10 > 5 := by rw [hcM, MAXSIG_val]; decide
      have h6 := h5 h9
      have hbig : 10 ^ 33 ≤ c4 := by rw [h6, hcM, MAXSIG_val]; decide
      exact ⟨c4, 1, by rw [h1]; simp, h2, by omega, Or.inr hbig, fun _ => hbig⟩
    · have := (round_closeD h _ Iff.rfl).1 hup
      simp only [hup, if_false]
      refine ⟨c, 0, by simp, by simpa using this, hc, Or.inl rfl, fun _ => ?_⟩
      rw [hcM, MAXSIG_val]; decide

-- a carry out of a full coefficient: one more digit is dropped, 34 digits remain
example : roundEven 3 MAXSIG EMIN 9 false = (1298074214633706907132624082305024, EMIN + (1 : Nat)) := by decide
example : ∃ c4 j, roundEven 3 MAXSIG EMIN 9 false = (c4, EMIN + (j : Nat)) ∧ (j = 0 ∨ 10 ^ 33 ≤ c4) := by
  have h : RInvD (10 * MAXSIG + 9) 1 1 MAXSIG 9 false := ⟨0, by decide⟩
  obtain ⟨c4, j, h1, _, _, h4, _⟩ := roundEven_specD' 1 EMIN h (Nat.le_refl _)
  exact ⟨c4, j, h1, h4⟩

theorem roundEven_zero_sticky : roundEven 3 0 EMIN 0 true = (0, EMIN) := by decide

/-! ### `reduce` after `dropHigh` -/

/-- **The part of `reduce` after `dropHigh`.**  If `dropHigh` returns the state `(c1, e1, d1, s1)` that represents the
    exact value `X / D` with `k` digits dropped, `c1 ≤ MAXSIG`, and the coefficient is full whenever `e1 ≥ EMIN`,
    then `reduce` returns `X / D` correctly rounded after `j` more dropped digits, where either the exponent lands
    exactly on `EMIN` (gradual underflow, error `≤ 10^EMIN / 2`) or at least 34 digits are kept. -/
theorem reduce_tail_spec (neg : Bool) (c : Nat) (e : Int) (sticky : Bool) (X D k c1 : Nat) (e1 : Int) (d1 : Nat)
    (s1 : Bool) (hne : ¬ (c = 0 ∧ ¬ sticky = true))
    (hdrop : dropHigh (Nat.log2 (c + 1) + 2) c e 0 sticky = (c1, e1, d1, s1))
    (hinv : RInvD X D k c1 d1 s1) (hc1 : c1 ≤ MAXSIG) (hbig : EMIN ≤ e1 → (MAXSIG + 1) / 10 ≤ c1) :
    ∃ c4 j : Nat, EMIN ≤ e1 + (j : Nat) ∧ c4 ≤ MAXSIG ∧ CloseD X D (k + j) c4 ∧
      (e1 + (j : Nat) = EMIN ∨ 10 ^ 33 ≤ c4) ∧
      reduce neg c e sticky = if e1 + (j : Nat) > EMAX then .inf neg else normalize (.fin neg c4 (e1 + (j : Nat))) := by
  have hEE : ¬ (EMIN > EMAX) := by decide
  have hEE' : EMIN ≤ EMAX := by decide
  unfold reduce
  rw [if_neg hne]
  simp only []
  rw [hdrop]
  simp only []
  by_cases he1 : EMIN ≤ e1
  · -- no underflow: as in `reduce_closeD`
    have hb := hbig he1
    obtain ⟨c4, j', r1, r2, r3, _, r5⟩ := roundEven_specD' 1 e1 hinv hc1
    refine ⟨c4, j', by omega, r3, r2, Or.inr (r5 hb), ?_⟩
    rw [dropLow_id _ _ _ _ _ he1]
    simp only []
    have hlt : ¬ (e1 < EMIN) := by omega
    simp only [hlt, if_false]
    rw [scaleUp_full _ _ _ (by rw [MAXSIG_val] at *; omega)]
    simp only []
    rw [r1]
  · have he1' : e1 < EMIN := by omega
    rcases dropLow_spec (RInvD X D) (fun _ _ _ _ h => RInvD_step h) (min ((EMIN - e1).toNat + 1) 60) c1 e1 d1 s1 k
        hinv he1' with
      ⟨j, c', dg', st', h1, h2, h3, h4⟩ | ⟨h1, kk, dg', st', h2, h3⟩ | ⟨c', dg', st', h1, h2, h3, h4⟩
    · -- (a) the exponent reaches EMIN with `j` digits dropped
      obtain ⟨c4, j', r1, r2, r3, r4, _⟩ := roundEven_specD' 1 EMIN h2 (by omega)
      refine ⟨c4, j + j', by omega, r3, by rw [← Nat.add_assoc]; exact r2, ?_, ?_⟩
      · rcases r4 with r4 | r4
        · left; omega
        · right; exact r4
      · rw [h1]
        simp only [Int.lt_irrefl, if_false]
        rw [scaleUp_id _ _ _ hEE']
        simp only []
        rw [r1]
        simp only []
        have : e1 + ((j + j' : Nat) : Int) = EMIN + (j' : Int) := by omega
        rw [this]
    · -- (b) early exit: the result is zero
      refine ⟨0, (EMIN - e1).toNat, by omega, Nat.zero_le _, CloseD_zero (RInvD_zero_bound h2 h3), Or.inl (by omega), ?_⟩
      rw [h1]
      simp only [Int.lt_irrefl, if_false]
      rw [scaleUp_id _ _ _ hEE', roundEven_id]
      have : e1 + (((EMIN - e1).toNat : Nat) : Int) = EMIN := by omega
      rw [this]
    · -- (c) fuel (60) exhausted: everything is dropped
      have hF : min ((EMIN - e1).toNat + 1) 60 = 60 := by omega
      rw [hF] at h1 h2 h3 h4
      have hc' : c' = 0 := by
        have hM : MAXSIG < 10 ^ 60 := by decide
        rcases Nat.eq_zero_or_pos c' with h0 | h0
        · exact h0
        · have : 10 ^ 60 ≤ c' * 10 ^ 60 := Nat.le_mul_of_pos_left _ h0
          omega
      subst hc'
      refine ⟨0, (EMIN - e1).toNat, by omega, Nat.zero_le _,
        CloseD_zero (RInvD_zero_bound h3 (by omega)), Or.inl (by omega), ?_⟩
      rw [hF, h1]
      simp only [h2, if_true]
      rw [scaleUp_id _ _ _ hEE']
      simp only []
      rw [roundEven_zero_sticky]
      have : e1 + (((EMIN - e1).toNat : Nat) : Int) = EMIN := by omega
      rw [this]

-- the three underflow branches of `reduce`: rounding at EMIN, early exit, more than 60 digits below EMIN
example : reduce false 15 (-6177) = .fin false 2 (-6176) := by decide
example : reduce false 4 (-6177) = .fin false 0 0 := by decide
example : reduce false 1 (-7000) = .fin false 0 0 := by decide

/-- `CloseD` with denominator `1` is `Close` -/
theorem CloseD_one {V k c4 : Nat} (h : CloseD V 1 k c4) : Close V k c4 := by
  unfold CloseD at h
  simpa [Close] using h

theorem RInvD_init (V : Nat) : RInvD V 1 0 V 0 false := ⟨0, by simp; omega⟩

/-! ### U1: `reduce` below `EMIN` -/

/-- **U1, gradual underflow of `reduce`.**  The exact value `c·10^e` with `e < EMIN` is rounded correctly
    (round-half-even): `k` digits are dropped, the kept coefficient `c4 ≤ MAXSIG` satisfies `|c − c4·10^k| ≤ 10^k / 2`,
    and the final exponent `e + k` is exactly `EMIN` — so the absolute error is at most half of the smallest
    subnormal step `10^EMIN` — unless `c` is so long that at least 34 digits are kept (`10^33 ≤ c4`) at an exponent
    `≥ EMIN`.  Includes `c = 0` and total underflow to zero (`c4 = 0`, `2·c ≤ 10^k`). -/
theorem reduce_underflow (neg : Bool) (c : Nat) (e : Int) (he : e < EMIN) :
    ∃ c4 k : Nat, EMIN ≤ e + (k : Nat) ∧ c4 ≤ MAXSIG ∧ Close c k c4 ∧ (e + (k : Nat) = EMIN ∨ 10 ^ 33 ≤ c4) ∧
      reduce neg c e false = if e + (k : Nat) > EMAX then .inf neg else normalize (.fin neg c4 (e + (k : Nat))) := by
  by_cases hc0 : c = 0
  · subst hc0
    have hk : e + (((EMIN - e).toNat : Nat) : Int) = EMIN := by omega
    refine ⟨0, (EMIN - e).toNat, by omega, Nat.zero_le _, ⟨by simp, by simp⟩, Or.inl hk, ?_⟩
    rw [hk, normalize_zero]
    have hEE : ¬ (EMIN > EMAX) := by decide
    simp [reduce, hEE]
  · obtain ⟨j, c1, d1, s1, h1, h2, h3, h4, h5⟩ :=
      dropHigh_specD c 1 (Nat.log2 (c + 1) + 2) c e 0 false 0 (RInvD_init c) (lt_two_pow_fuel c)
    have hbig : EMIN ≤ e + (j : Nat) → (MAXSIG + 1) / 10 ≤ c1 := by
      intro hj
      by_cases hc : c ≤ MAXSIG
      · have := (h4 hc).1; omega
      · exact (h5 (by omega)).2
    obtain ⟨c4, j', r1, r2, r3, r4, r5⟩ :=
      reduce_tail_spec neg c e false c 1 (0 + j) c1 (e + (j : Nat)) d1 s1 (by simp [hc0]) h1 h2 h3 hbig
    have hjj : e + (j : Int) + (j' : Int) = e + ((j + j' : Nat) : Int) := by omega
    rw [hjj] at r1 r4 r5
    refine ⟨c4, j + j', r1, r2, CloseD_one (by simpa [Nat.add_assoc] using r3), r4, r5⟩

-- non-vacuity: the theorem applies to `15·10^-6177`; the witnesses are `c4 = 2`, `k = 1` (tie → even)
example : ∃ c4 k : Nat, EMIN ≤ (-6177 : Int) + (k : Nat) ∧ c4 ≤ MAXSIG ∧ Close 15 k c4 ∧
    ((-6177 : Int) + (k : Nat) = EMIN ∨ 10 ^ 33 ≤ c4) ∧
    reduce false 15 (-6177) false =
      if (-6177 : Int) + (k : Nat) > EMAX then .inf false else normalize (.fin false c4 ((-6177 : Int) + (k : Nat))) :=
  reduce_underflow false 15 (-6177) (by decide)
example : Close 15 1 2 ∧ (-6177 : Int) + (1 : Nat) = EMIN ∧
    reduce false 15 (-6177) false = normalize (.fin false 2 ((-6177 : Int) + (1 : Nat))) := by
  unfold Close; decide
-- `c = 0` below EMIN
example : reduce true 0 (-7000) false = .fin true 0 0 := by decide

/-! ### U2: a quotient with a sticky remainder, any exponent -/

/-- **U2, `reduce` of an integer part `q` with a sticky fraction, at any exponent.**  `X = q·D + r`, `r < D`, the exact
    value is `X / D` (times `10^e`); `q > MAXSIG`.  The result is `X / D` correctly rounded (half-even) after `k ≥ 1`
    dropped digits: `|X/D − c4·10^k| ≤ 10^k / 2`, where the final exponent `e + k` is `≥ EMIN`, and either it is
    exactly `EMIN` (gradual underflow; `c4` may be short, even `0`) or at least 34 digits are kept.
    For `e ≥ EMIN` this is `reduce_closeD`. -/
theorem reduce_underflowD (neg : Bool) (q r D : Nat) (e : Int) (hr : r < D) (hq : MAXSIG < q) :
    ∃ c4 k : Nat, 1 ≤ k ∧ EMIN ≤ e + (k : Nat) ∧ c4 ≤ MAXSIG ∧ CloseD (q * D + r) D k c4 ∧
      (e + (k : Nat) = EMIN ∨ 10 ^ 33 ≤ c4) ∧
      reduce neg q e (r != 0) = if e + (k : Nat) > EMAX then .inf neg else normalize (.fin neg c4 (e + (k : Nat))) := by
  have hq0 : q ≠ 0 := by rw [MAXSIG_val] at hq; omega
  have hinv : RInvD (q * D + r) D 1 (q / 10) (q % 10) (r != 0) := by
    refine ⟨10 * r, ?_, by omega, by omega, by simp; omega⟩
    have hc : q = 10 * (q / 10) + q % 10 := by omega
    generalize q / 10 = a at *
    generalize q % 10 = b at *
    subst hc
    grind
  have hfuel : q / 10 < 2 ^ (Nat.log2 (q + 1) + 1) := by
    have := lt_two_pow_fuel q
    rw [Nat.pow_succ] at this
    omega
  obtain ⟨j, c1, d1, s1, h1, h2, h3, h4, h5⟩ :=
    dropHigh_specD (q * D + r) D (Nat.log2 (q + 1) + 1) (q / 10) (e + 1) (q % 10) (r != 0) 1 hinv hfuel
  have hc1 : (MAXSIG + 1) / 10 ≤ c1 := by
    by_cases h10 : q / 10 ≤ MAXSIG
    · rw [(h4 h10).2]; rw [MAXSIG_val] at *; omega
    · exact (h5 (by omega)).2
  have hdrop : dropHigh (Nat.log2 (q + 1) + 2) q e 0 (r != 0) = (c1, e + 1 + (j : Nat), d1, s1) := by
    rw [show Nat.log2 (q + 1) + 2 = (Nat.log2 (q + 1) + 1) + 1 from rfl]
    unfold dropHigh
    simp only [hq, if_true, bne_self_eq_false, Bool.or_false]
    exact h1
  obtain ⟨c4, j', r1, r2, r3, r4, r5⟩ :=
    reduce_tail_spec neg q e (r != 0) (q * D + r) D (1 + j) c1 (e + 1 + (j : Nat)) d1 s1 (by simp [hq0]) hdrop h2 h3
      (fun _ => hc1)
  have hjj : e + 1 + (j : Int) + (j' : Int) = e + ((1 + j + j' : Nat) : Int) := by omega
  rw [hjj] at r1 r4 r5
  exact ⟨c4, 1 + j + j', by omega, r1, r2, r3, r4, r5⟩

-- `q = 10^40`, remainder 1 of 3, exponent far below EMIN: `reduce` gives the six-digit subnormal
example : reduce false (10 ^ 41 / 3) (-6211) ((10 ^ 41 % 3) != 0) = .fin false 333333 (-6176) := by decide
example : CloseD (10 ^ 41) 3 35 333333 ∧ (-6211 : Int) + (35 : Nat) = EMIN := by unfold CloseD; decide

/-- **`quo_close_general`**: *every* quotient of non-zero finite decimals — including those whose exponent underflows —
    is the exact quotient `c1·10^K / c2` (`K = 40 + ndigits c2`, exponent `E = e1 − e2 − K`) correctly rounded
    (half-even): `|c1·10^K / c2 − c4·10^k| ≤ 10^k / 2` with final exponent `E + k ≥ EMIN`; either `E + k = EMIN`
    (gradual underflow: error at most half the smallest subnormal step, the result may be zero) or at least 34 digits
    are kept. -/
theorem quo_close_general (n1 n2 : Bool) (c1 c2 : Nat) (e1 e2 : Int) (h1 : c1 ≠ 0) (h2 : c2 ≠ 0) :
    ∃ c4 k : Nat, 1 ≤ k ∧ c4 ≤ MAXSIG ∧ CloseD (c1 * 10 ^ (40 + ndigits c2)) c2 k c4 ∧
      EMIN ≤ e1 - e2 - ((40 + ndigits c2 : Nat) : Int) + (k : Nat) ∧
      (e1 - e2 - ((40 + ndigits c2 : Nat) : Int) + (k : Nat) = EMIN ∨ 10 ^ 33 ≤ c4) ∧
      Dec.quo (.fin n1 c1 e1) (.fin n2 c2 e2) =
        if e1 - e2 - ((40 + ndigits c2 : Nat) : Int) + (k : Nat) > EMAX then .inf (n1 != n2)
        else normalize (.fin (n1 != n2) c4 (e1 - e2 - ((40 + ndigits c2 : Nat) : Int) + (k : Nat))) := by
  have hq := quoFin_q_big c1 c2 h1 h2
  have hr : c1 * 10 ^ (40 + ndigits c2) % c2 < c2 := Nat.mod_lt _ (Nat.pos_of_ne_zero h2)
  obtain ⟨c4, k, hk, hlo, hc4, hcl, hdis, hred⟩ :=
    reduce_underflowD (n1 != n2) _ _ c2 (e1 - e2 - ((40 + ndigits c2 : Nat) : Int)) hr hq
  refine ⟨c4, k, hk, hc4, ?_, hlo, hdis, ?_⟩
  · rw [Nat.div_add_mod'] at hcl; exact hcl
  · simp only [Dec.quo, h1, h2, if_false, quoFin, pow10]
    exact hred

-- 1e-6170 / 3 → 3.33333e-6171: six digits;  1e-6176 / 2 (exactly half the smallest subnormal) ties to even → 0
example : Dec.quo (.fin false 1 (-6170)) (.fin false 3 0) = .fin false 333333 (-6176) := by decide
example : Dec.quo (.fin false 1 (-6176)) (.fin false 2 0) = .fin false 0 0 := by decide
example : ∃ c4 k : Nat, 1 ≤ k ∧ c4 ≤ MAXSIG ∧ CloseD (1 * 10 ^ (40 + ndigits 3)) 3 k c4 ∧
    EMIN ≤ (-6170 : Int) - 0 - ((40 + ndigits 3 : Nat) : Int) + (k : Nat) ∧
    ((-6170 : Int) - 0 - ((40 + ndigits 3 : Nat) : Int) + (k : Nat) = EMIN ∨ 10 ^ 33 ≤ c4) ∧
    Dec.quo (.fin false 1 (-6170)) (.fin false 3 0) =
      if (-6170 : Int) - 0 - ((40 + ndigits 3 : Nat) : Int) + (k : Nat) > EMAX then .inf (false != false)
      else normalize (.fin (false != false) c4 ((-6170 : Int) - 0 - ((40 + ndigits 3 : Nat) : Int) + (k : Nat))) :=
  quo_close_general false false 1 3 (-6170) 0 (by decide) (by decide)

/-! ### U3: multiplication -/

/-- **U3, underflowing product.**  The product of two non-zero finite decimals whose exact exponent `e1 + e2` is below
    `EMIN` is the exact product `c1·c2·10^(e1+e2)` rounded half-even: `|c1·c2 − c4·10^k| ≤ 10^k / 2` with final
    exponent `e1 + e2 + k = EMIN` (absolute error at most half the smallest subnormal step; the result may be
    zero), or with at least 34 digits kept. -/
theorem mul_underflow (n1 n2 : Bool) (c1 c2 : Nat) (e1 e2 : Int) (h1 : c1 ≠ 0) (h2 : c2 ≠ 0) (he : e1 + e2 < EMIN) :
    ∃ c4 k : Nat, EMIN ≤ e1 + e2 + (k : Nat) ∧ c4 ≤ MAXSIG ∧ Close (c1 * c2) k c4 ∧
      (e1 + e2 + (k : Nat) = EMIN ∨ 10 ^ 33 ≤ c4) ∧
      Dec.mul (.fin n1 c1 e1) (.fin n2 c2 e2) =
        if e1 + e2 + (k : Nat) > EMAX then .inf (n1 != n2)
        else normalize (.fin (n1 != n2) c4 (e1 + e2 + (k : Nat))) := by
  obtain ⟨c4, k, r1, r2, r3, r4, r5⟩ := reduce_underflow (n1 != n2) (c1 * c2) (e1 + e2) he
  refine ⟨c4, k, r1, r2, r3, r4, ?_⟩
  simp only [Dec.mul, h1, h2, or_self, if_false]
  exact r5

-- 1e-6143 * 1e-40 → 0 (no error is raised);  1.5 and 2.5 smallest-subnormal units both round to 2 (half-even)
example : Dec.mul (.fin false 1 (-6143)) (.fin false 1 (-40)) = .fin false 0 0 := by decide
example : Dec.mul (.fin false 15 (-6177)) (.fin false 1 0) = .fin false 2 (-6176) := by decide
example : Dec.mul (.fin false 25 (-6177)) (.fin false 1 0) = .fin false 2 (-6176) := by decide
example : ∃ c4 k : Nat, EMIN ≤ (-6177 : Int) + 0 + (k : Nat) ∧ c4 ≤ MAXSIG ∧ Close (25 * 1) k c4 ∧
    ((-6177 : Int) + 0 + (k : Nat) = EMIN ∨ 10 ^ 33 ≤ c4) ∧
    Dec.mul (.fin false 25 (-6177)) (.fin false 1 0) =
      if (-6177 : Int) + 0 + (k : Nat) > EMAX then .inf (false != false)
      else normalize (.fin (false != false) c4 ((-6177 : Int) + 0 + (k : Nat))) :=
  mul_underflow false false 25 1 (-6177) 0 (by decide) (by decide) (by decide)
example : Close (25 * 1) 1 2 ∧ (-6177 : Int) + 0 + (1 : Nat) = EMIN ∧
    Dec.mul (.fin false 25 (-6177)) (.fin false 1 0) = normalize (.fin false 2 ((-6177 : Int) + 0 + (1 : Nat))) := by
  unfold Close; decide

/-! ### U4: `Close` as an absolute error -/

/-- **U4.**  `Close V k c4` read as an absolute error: `|V − c4·10^k| ≤ 10^k / 2`, written `2·|V − c4·10^k| ≤ 10^k`.
    With the final exponent `e + k = EMIN` this is "error at most half of the smallest subnormal step".
    (Same statement as `C05.close_abs` in `Jmes/Properties/C05.lean`.) -/
theorem close_abs_le {V k c4 : Nat} (h : Close V k c4) :
    2 * ((V : Int) - (c4 : Int) * (10 : Int) ^ k).natAbs ≤ 10 ^ k := by
  obtain ⟨h1, h2⟩ := h
  have e1 : ((c4 * 10 ^ k : Nat) : Int) = (c4 : Int) * (10 : Int) ^ k := by simp
  rw [← e1]
  rw [Nat.mul_assoc] at h1 h2
  generalize c4 * 10 ^ k = W at *
  omega

example : 2 * ((25 : Int) - (2 : Int) * (10 : Int) ^ 1).natAbs ≤ 10 ^ 1 :=
  close_abs_le (V := 25) (k := 1) (c4 := 2) (by unfold Close; decide)

/-- **U4 for quotients.**  `CloseD X D k c4` read as an absolute error on the numerator:
    `|X − c4·10^k·D| ≤ 10^k·D / 2`, i.e. `|X/D − c4·10^k| ≤ 10^k / 2`. -/
theorem closeD_abs_le {X D k c4 : Nat} (h : CloseD X D k c4) :
    2 * ((X : Int) - (c4 : Int) * (10 : Int) ^ k * (D : Int)).natAbs ≤ 10 ^ k * D := by
  obtain ⟨h1, h2⟩ := h
  have e1 : ((c4 * 10 ^ k * D : Nat) : Int) = (c4 : Int) * (10 : Int) ^ k * (D : Int) := by simp
  rw [← e1]
  have e2 : (2 * c4 * 10 ^ k + 10 ^ k) * D = 2 * (c4 * 10 ^ k * D) + 10 ^ k * D := by
    rw [Nat.add_mul, Nat.mul_assoc 2, Nat.mul_assoc 2]
  have e3 : 2 * c4 * 10 ^ k * D = 2 * (c4 * 10 ^ k * D) := by
    rw [Nat.mul_assoc 2, Nat.mul_assoc 2]
  rw [e2] at h1
  rw [e3] at h2
  generalize c4 * 10 ^ k * D = W at *
  generalize 10 ^ k * D = P at *
  omega

example : 2 * (((10 ^ 41 : Nat) : Int) - (333333 : Int) * (10 : Int) ^ 35 * ((3 : Nat) : Int)).natAbs ≤ 10 ^ 35 * 3 :=
  closeD_abs_le (X := 10 ^ 41) (D := 3) (k := 35) (c4 := 333333) (by unfold CloseD; decide)

end Dec
end Jmes
