/-
  Helper for property C14 (third round): the higher-order helpers of the evaluator (projections, `map`, `sort_by`,
  `max_by`, `min_by`, `group_by`) on related arrays, when the element function is known to be congruent only on
  related elements *whose floats satisfy `P`* on both sides (`FRp`).  `Jmes/Proofs/C14BLemmasArr.lean` and
  `C14BLemmasKey.lean` have the unrestricted versions (`FR`).
-/
import Jmes.Proofs.C14CLemmasInv
namespace Jmes
namespace C14C
open C14 C14B

section
variable {nf : Bool} {P : F64 → Prop}

/-- `f` and `f'` map related values whose floats satisfy `P` to related outcomes -/
def FRp (nf : Bool) (P : F64 → Prop) (f f' : Val → Res Val) : Prop :=
  ∀ x x', VR nf x x' → AllF P x → AllF P x' → RR (VR nf) (f x) (f' x')

/-- a pair of related values whose floats satisfy `P` -/
def PR (nf : Bool) (P : F64 → Prop) (p : Val × Val) : Prop := VR nf p.1 p.2 ∧ AllF P p.1 ∧ AllF P p.2

theorem pairs_of {xs xs' : List Val} (h : VRL nf xs xs') (a : ∀ x ∈ xs, AllF P x) (a' : ∀ x ∈ xs', AllF P x) :
    ∃ L : List (Val × Val), L.map Prod.fst = xs ∧ L.map Prod.snd = xs' ∧ ∀ p ∈ L, PR nf P p := by
  obtain ⟨L, rfl, rfl, hL⟩ := vrl_iff_zip.mp h
  exact ⟨L, rfl, rfl, fun p hp => ⟨hL p hp, a _ (List.mem_map_of_mem hp), a' _ (List.mem_map_of_mem hp)⟩⟩

theorem tl {L : List (Val × Val)} {p : Val × Val} (h : ∀ q ∈ p :: L, PR nf P q) : ∀ q ∈ L, PR nf P q :=
  fun q hq => h q (List.mem_cons_of_mem _ hq)

theorem vrl_pairs (L : List (Val × Val)) (h : ∀ p ∈ L, PR nf P p) : VRL nf (L.map Prod.fst) (L.map Prod.snd) :=
  vrl_of_pairs L (fun p hp => (h p hp).1)

/-! ## `widen` -/

theorem widen_pairs {α β : Type} {R : α → β → Prop} {t : ATag} (L : List (Val × Val)) (hL : ∀ p ∈ L, PR nf P p)
    {fs fs' : List (Val → Res Val)} {extra : List Cat} {r : Res α} {r' : Res β}
    (herr : ∀ p, PR nf P p → fs.flatMap (fun f => errsOf (f p.1)) = fs'.flatMap (fun f => errsOf (f p.2)))
    (huns : ∀ p, PR nf P p → fs.any (fun f => unsOf (f p.1)) = fs'.any (fun f => unsOf (f p.2)))
    (h : RR R r r') :
    RR R (widen t (L.map Prod.fst) fs extra r) (widen t (L.map Prod.snd) fs' extra r') := by
  cases r <;> cases r' <;> simp only [RR] at h <;> simp only [widen_def] <;> try exact h
  subst h
  have e1 : (L.map Prod.fst).flatMap (fun x => fs.flatMap (fun f => errsOf (f x))) =
      (L.map Prod.snd).flatMap (fun x => fs'.flatMap (fun f => errsOf (f x))) := by
    clear huns
    induction L with
    | nil => rfl
    | cons p L ih => simp only [List.map_cons, List.flatMap_cons, herr p (hL p (List.mem_cons_self ..)), ih (tl hL)]
  have e2 : (L.map Prod.fst).any (fun x => fs.any (fun f => unsOf (f x))) =
      (L.map Prod.snd).any (fun x => fs'.any (fun f => unsOf (f x))) := by
    clear herr e1
    induction L with
    | nil => rfl
    | cons p L ih => simp only [List.map_cons, List.any_cons, huns p (hL p (List.mem_cons_self ..)), ih (tl hL)]
  rw [enum2_vrl t (vrl_pairs L hL), e1, e2]
  split <;> (try split) <;> simp [RR]

theorem widen1_pairs {α β : Type} {R : α → β → Prop} {t : ATag} (L : List (Val × Val)) (hL : ∀ p ∈ L, PR nf P p)
    {f f' : Val → Res Val} {extra : List Cat} {r : Res α} {r' : Res β} (hf : FRp nf P f f') (h : RR R r r') :
    RR R (widen t (L.map Prod.fst) [f] extra r) (widen t (L.map Prod.snd) [f'] extra r') := by
  refine widen_pairs L hL (fun p hp => ?_) (fun p hp => ?_) h
  · simp only [List.flatMap_cons, List.flatMap_nil, List.append_nil]
    exact errs_of_rr (hf _ _ hp.1 hp.2.1 hp.2.2)
  · simp only [List.any_cons, List.any_nil, Bool.or_false]
    exact uns_of_rr (hf _ _ hp.1 hp.2.1 hp.2.2)

theorem widen2_pairs {α β : Type} {R : α → β → Prop} {t : ATag} (L : List (Val × Val)) (hL : ∀ p ∈ L, PR nf P p)
    {c c' f f' : Val → Res Val} {extra : List Cat} {r : Res α} {r' : Res β} (hc : FRp nf P c c')
    (hf : FRp nf P f f') (h : RR R r r') :
    RR R (widen t (L.map Prod.fst) [c, f] extra r) (widen t (L.map Prod.snd) [c', f'] extra r') := by
  refine widen_pairs L hL (fun p hp => ?_) (fun p hp => ?_) h
  · simp only [List.flatMap_cons, List.flatMap_nil, List.append_nil]
    rw [errs_of_rr (hc _ _ hp.1 hp.2.1 hp.2.2), errs_of_rr (hf _ _ hp.1 hp.2.1 hp.2.2)]
  · simp only [List.any_cons, List.any_nil, Bool.or_false]
    rw [uns_of_rr (hc _ _ hp.1 hp.2.1 hp.2.2), uns_of_rr (hf _ _ hp.1 hp.2.1 hp.2.2)]

/-! ## the projection loops -/

theorem mapPrune_pairs {f f' : Val → Res Val} (hf : FRp nf P f f') :
    ∀ (L : List (Val × Val)), (∀ p ∈ L, PR nf P p) →
      RR (VRL nf) (mapPrune f (L.map Prod.fst)) (mapPrune f' (L.map Prod.snd))
  | [], _ => by simp [mapPrune, RR]
  | p :: L, hL => by
    have hp := hL p (List.mem_cons_self ..)
    simp only [List.map_cons, mapPrune]
    refine RR.bind (hf _ _ hp.1 hp.2.1 hp.2.2)
      (fun q q' hq => RR.bind (mapPrune_pairs hf L (tl hL)) (fun r r' hr => ?_))
    simp only [Res.pure_eq, RR, isNull_vr hq]
    split
    · exact hr
    · exact vrl_cons hq hr

theorem mapAll_pairs {f f' : Val → Res Val} (hf : FRp nf P f f') :
    ∀ (L : List (Val × Val)), (∀ p ∈ L, PR nf P p) →
      RR (VRL nf) (mapAll f (L.map Prod.fst)) (mapAll f' (L.map Prod.snd))
  | [], _ => by simp [mapAll, RR]
  | p :: L, hL => by
    have hp := hL p (List.mem_cons_self ..)
    simp only [List.map_cons, mapAll]
    refine RR.bind (hf _ _ hp.1 hp.2.1 hp.2.2)
      (fun q q' hq => RR.bind (mapAll_pairs hf L (tl hL)) (fun r r' hr => ?_))
    exact vrl_cons hq hr

theorem filterMapPrune_pairs {c c' f f' : Val → Res Val} (hc : FRp nf P c c') (hf : FRp nf P f f') :
    ∀ (L : List (Val × Val)), (∀ p ∈ L, PR nf P p) →
      RR (VRL nf) (filterMapPrune c f (L.map Prod.fst)) (filterMapPrune c' f' (L.map Prod.snd))
  | [], _ => by simp [filterMapPrune, RR]
  | p :: L, hL => by
    have hp := hL p (List.mem_cons_self ..)
    simp only [List.map_cons, filterMapPrune]
    refine RR.bind (hc _ _ hp.1 hp.2.1 hp.2.2) (fun b b' hb => ?_)
    rw [isTrue_vr hb]
    split
    · refine RR.bind (hf _ _ hp.1 hp.2.1 hp.2.2)
        (fun q q' hq => RR.bind (filterMapPrune_pairs hc hf L (tl hL)) (fun r r' hr => ?_))
      simp only [Res.pure_eq, RR, isNull_vr hq]
      split
      · exact hr
      · exact vrl_cons hq hr
    · exact filterMapPrune_pairs hc hf L (tl hL)

theorem projectArray_rrp {f f' : Val → Res Val} (hf : FRp nf P f f') {v v' : Val} (h : VR nf v v')
    (a : AllF P v) (a' : AllF P v') : RR (VR nf) (projectArray f v) (projectArray f' v') := by
  cases v <;> cases v' <;> simp only [VR] at h <;> try (simp only [projectArray]; exact RR.ok' vr_null)
  next t xs u ys =>
  obtain ⟨rfl, h⟩ := h
  obtain ⟨L, rfl, rfl, hL⟩ := pairs_of h (allF_arr.mp a) (allF_arr.mp a')
  simp only [projectArray]
  exact widen1_pairs L hL hf (RR.bind (mapPrune_pairs hf L hL) (fun r r' hr => RR.ok' (vr_arr hr)))

theorem mapArray_rrp {f f' : Val → Res Val} (hf : FRp nf P f f') {v v' : Val} (h : VR nf v v')
    (a : AllF P v) (a' : AllF P v') : RR (VR nf) (mapArray f v) (mapArray f' v') := by
  cases v <;> cases v' <;> simp only [VR] at h <;> try (simp only [mapArray]; exact rr_errType)
  next t xs u ys =>
  obtain ⟨rfl, h⟩ := h
  obtain ⟨L, rfl, rfl, hL⟩ := pairs_of h (allF_arr.mp a) (allF_arr.mp a')
  simp only [mapArray]
  exact widen1_pairs L hL hf (RR.bind (mapAll_pairs hf L hL) (fun r r' hr => RR.ok' (vr_arr hr)))

theorem filterAndProjectArray_rrp {c c' f f' : Val → Res Val} (hc : FRp nf P c c') (hf : FRp nf P f f') {v v' : Val}
    (h : VR nf v v') (a : AllF P v) (a' : AllF P v') :
    RR (VR nf) (filterAndProjectArray c f v) (filterAndProjectArray c' f' v') := by
  cases v <;> cases v' <;> simp only [VR] at h <;> try (simp only [filterAndProjectArray]; exact RR.ok' vr_null)
  next t xs u ys =>
  obtain ⟨rfl, h⟩ := h
  obtain ⟨L, rfl, rfl, hL⟩ := pairs_of h (allF_arr.mp a) (allF_arr.mp a')
  simp only [filterAndProjectArray]
  exact widen2_pairs L hL hc hf (RR.bind (filterMapPrune_pairs hc hf L hL) (fun r r' hr => RR.ok' (vr_arr hr)))

theorem flattenAndProjectArray_rrp {f f' : Val → Res Val} (hf : FRp nf P f f') {v v' : Val} (h : VR nf v v')
    (a : AllF P v) (a' : AllF P v') :
    RR (VR nf) (flattenAndProjectArray f v) (flattenAndProjectArray f' v') := by
  cases v <;> cases v' <;> simp only [VR] at h <;> try (simp only [flattenAndProjectArray]; exact RR.ok' vr_null)
  next t xs u ys =>
  obtain ⟨rfl, h⟩ := h
  simp only [flattenAndProjectArray, flattenTag_vrl t h]
  have hfl := flattenForProject_vrl h
  have b := flattenForProject_af (allF_arr.mp a)
  have b' := flattenForProject_af (allF_arr.mp a')
  obtain ⟨L, l1, l2, hL⟩ := pairs_of hfl b b'
  obtain ⟨L2, m1, m2, hL2⟩ := pairs_of (P := P)
    (vrl_append hfl (vrl_cons vr_null (vrl_cons (vr_null (nf := nf)) vrl_nil)))
    (fun x hx => by
      rcases List.mem_append.mp hx with hx | hx
      · exact b x hx
      · simp at hx; subst hx; simp)
    (fun x hx => by
      rcases List.mem_append.mp hx with hx | hx
      · exact b' x hx
      · simp at hx; subst hx; simp)
  rw [← m1, ← m2, ← l1, ← l2]
  exact widen1_pairs L2 hL2 hf (RR.bind (mapPrune_pairs hf L hL) (fun r r' hr => RR.ok' (vr_arr hr)))

theorem projectObject_rrp {f f' : Val → Res Val} (hf : FRp nf P f f') {v v' : Val} (h : VR nf v v')
    (a : AllF P v) (a' : AllF P v') : RR (VR nf) (projectObject f v) (projectObject f' v') := by
  cases v <;> cases v' <;> simp only [VR] at h <;> try (simp only [projectObject]; exact RR.ok' vr_null)
  next xs ys =>
  obtain ⟨L, l1, l2, hL⟩ := pairs_of (vrf_values h) (obj_values_af a) (obj_values_af a')
  simp only [projectObject]
  rw [← l1, ← l2]
  exact widen1_pairs L hL hf (RR.bind (mapPrune_pairs hf L hL) (fun r r' hr => RR.ok' (vr_arr hr)))

/-! ## keys: `sort_by`, `max_by`, `min_by` -/

theorem keysFrom_pairs {f f' : Val → Res Val} (hf : FRp nf P f f') (isStr : Bool) :
    ∀ (L : List (Val × Val)), (∀ p ∈ L, PR nf P p) →
      RR (L2 KR) (keysFrom f isStr (L.map Prod.fst)) (keysFrom f' isStr (L.map Prod.snd))
  | [], _ => by simp [keysFrom, RR, L2]
  | p :: L, hL => by
    have hp := hL p (List.mem_cons_self ..)
    simp only [List.map_cons, keysFrom]
    refine RR.bind (hf _ _ hp.1 hp.2.1 hp.2.2) (fun rv rv' hrv => RR.bind (R := KR) ?_
      (fun k k' hk => RR.bind (keysFrom_pairs hf isStr L (tl hL)) (fun r r' hr => RR.ok' (l2_cons hk hr))))
    cases isStr
    · simp only [Bool.false_eq_true, if_false]
      rcases toDecimal_equiv (vr_equiv _ _ hrv) with ⟨e1, e2⟩ | ⟨d, d', e1, e2, e3⟩
      · simp only [e1, e2]; exact rr_errType
      · simp only [e1, e2]; exact RR.ok' (by simp only [KR]; exact e3)
    · simp only [if_true]
      cases rv <;> cases rv' <;> simp only [VR] at hrv <;> try exact rr_errType
      subst hrv
      exact RR.ok' (by simp [KR])

theorem keysOf_pairs {f f' : Val → Res Val} (hf : FRp nf P f f') :
    ∀ (L : List (Val × Val)), (∀ p ∈ L, PR nf P p) →
      RR (L2 KR) (keysOf f (L.map Prod.fst)) (keysOf f' (L.map Prod.snd))
  | [], _ => by simp [keysOf, RR, L2]
  | p :: L, hL => by
    have hp := hL p (List.mem_cons_self ..)
    simp only [List.map_cons, keysOf]
    refine RR.bind (hf _ _ hp.1 hp.2.1 hp.2.2) (fun first first' hfi => ?_)
    have hnum : ∀ (a a' : Val), VR nf a a' → (∀ s, a ≠ .str s) → (∀ s, a' ≠ .str s) →
        RR (L2 KR)
          (match toDecimal a with
            | none => errType
            | some d => do let rest ← keysFrom f false (L.map Prod.fst); pure (Key.n d :: rest))
          (match toDecimal a' with
            | none => errType
            | some d => do let rest ← keysFrom f' false (L.map Prod.snd); pure (Key.n d :: rest)) := by
      intro a a' haa _ _
      rcases toDecimal_equiv (vr_equiv _ _ haa) with ⟨e1, e2⟩ | ⟨d, d', e1, e2, e3⟩
      · simp only [e1, e2]; exact rr_errType
      · simp only [e1, e2]
        exact RR.bind (keysFrom_pairs hf false L (tl hL))
          (fun r r' hr => RR.ok' (l2_cons (by simp only [KR]; exact e3) hr))
    cases first <;> cases first' <;> simp only [VR] at hfi
    · exact hnum .null .null vr_null (by simp) (by simp)
    · next b b' => exact hnum (.bool b) (.bool b') (by simp only [VR]; exact hfi) (by simp) (by simp)
    · subst hfi
      exact RR.bind (keysFrom_pairs hf true L (tl hL)) (fun r r' hr => RR.ok' (l2_cons (by simp [KR]) hr))
    · next a a' => exact hnum (.num a) (.num a') (by simp only [VR]; exact hfi) (by simp) (by simp)
    · next t a u a' => exact hnum (.arr t a) (.arr u a') (by simp only [VR]; exact hfi) (by simp) (by simp)
    · next a a' => exact hnum (.obj a) (.obj a') (by simp only [VR]; exact hfi) (by simp) (by simp)
    · next a a' => exact hnum (.foreign a) (.foreign a') (by simp only [VR]; exact hfi) (by simp) (by simp)

theorem arrayPickBy_rrp {better : Key → Key → Bool} (hb : BetterOK better) {f f' : Val → Res Val}
    (hf : FRp nf P f f') {v v' : Val} (h : VR nf v v') (a : AllF P v) (a' : AllF P v') :
    RR (VR nf) (arrayPickBy better f v) (arrayPickBy better f' v') := by
  cases v <;> cases v' <;> simp only [VR] at h <;> try (simp only [arrayPickBy]; exact rr_errType)
  next t xs u ys =>
  obtain ⟨rfl, h⟩ := h
  obtain ⟨L, l1, l2, hL⟩ := pairs_of h (allF_arr.mp a) (allF_arr.mp a')
  cases xs with
  | nil => cases ys with
    | nil => simp only [arrayPickBy]; exact RR.ok' vr_null
    | cons _ _ => simp [VRL] at h
  | cons x0 rest => cases ys with
    | nil => simp [VRL] at h
    | cons y0 rest' =>
      simp only [arrayPickBy]
      have key : RR (L2 KR) (keysOf f (x0 :: rest)) (keysOf f' (y0 :: rest')) := by
        rw [← l1, ← l2]; exact keysOf_pairs hf L hL
      have wid : ∀ {r : Res Val} {r' : Res Val}, RR (VR nf) r r' →
          RR (VR nf) (widen t (x0 :: rest) [f] [Cat.invalidType] r) (widen t (y0 :: rest') [f'] [Cat.invalidType] r') := by
        intro r r' hr
        rw [← l1, ← l2]; exact widen1_pairs L hL hf hr
      refine wid (RR.bind key (fun ks ks' hks => ?_))
      cases ks with
      | nil => cases ks' with
        | nil => exact RR.ok' vr_null
        | cons _ _ => simp [L2] at hks
      | cons k0 krest => cases ks' with
        | nil => simp [L2] at hks
        | cons k0' krest' =>
          simp only [enum2_vrl t h, uniqueExtremum_kr hb hks]
          simp only [VRL] at h
          simp only [L2] at hks
          split
          · trivial
          · exact RR.ok' (pickBy_vr hb h.2 hks.2 h.1 hks.1)

theorem arrayMaxBy_rrp {f f' : Val → Res Val} (hf : FRp nf P f f') {v v' : Val} (h : VR nf v v')
    (a : AllF P v) (a' : AllF P v') : RR (VR nf) (arrayMaxBy f v) (arrayMaxBy f' v') :=
  arrayPickBy_rrp (fun _ _ _ _ ha hb => key_gtMax_kr ha hb) hf h a a'

theorem arrayMinBy_rrp {f f' : Val → Res Val} (hf : FRp nf P f f') {v v' : Val} (h : VR nf v v')
    (a : AllF P v) (a' : AllF P v') : RR (VR nf) (arrayMinBy f v) (arrayMinBy f' v') :=
  arrayPickBy_rrp (fun _ _ _ _ ha hb => key_ltMin_kr ha hb) hf h a a'

theorem sortArrayBy_rrp {f f' : Val → Res Val} (hf : FRp nf P f f') {v v' : Val} (h : VR nf v v')
    (a : AllF P v) (a' : AllF P v') : RR (VR nf) (sortArrayBy f v) (sortArrayBy f' v') := by
  cases v <;> cases v' <;> simp only [VR] at h <;> try (simp only [sortArrayBy]; exact rr_errType)
  next t xs u ys =>
  obtain ⟨rfl, h⟩ := h
  obtain ⟨L, l1, l2, hL⟩ := pairs_of h (allF_arr.mp a) (allF_arr.mp a')
  simp only [sortArrayBy]
  have he : xs.isEmpty = ys.isEmpty := by
    have := vrl_length h
    cases xs <;> cases ys <;> simp at this <;> rfl
  rw [he]
  split
  · exact RR.ok' (vr_arr h)
  · have key : RR (L2 KR) (keysOf f xs) (keysOf f' ys) := by
      rw [← l1, ← l2]; exact keysOf_pairs hf L hL
    have wid : ∀ {r : Res Val} {r' : Res Val}, RR (VR nf) r r' →
        RR (VR nf) (widen t xs [f] [Cat.invalidType] r) (widen t ys [f'] [Cat.invalidType] r') := by
      intro r r' hr
      rw [← l1, ← l2]; exact widen1_pairs L hL hf hr
    refine wid (RR.bind key (fun ks ks' hks => ?_))
    simp only [enum2_vrl t h, keysDistinct_kr hks]
    split
    · trivial
    · exact RR.ok' (vr_arr (sortByKeys_vrl h hks))

/-! ## `group_by` -/

theorem groupLoop_pairs {f f' : Val → Res Val} (hf : FRp nf P f f') :
    ∀ (L : List (Val × Val)), (∀ p ∈ L, PR nf P p) → ∀ {acc acc' : List (Bytes × List Val)}, L2 (GR nf) acc acc' →
      RR (L2 (GR nf)) (groupLoop f (L.map Prod.fst) acc) (groupLoop f' (L.map Prod.snd) acc')
  | [], _, _, _, ha => by simp only [List.map_nil, groupLoop]; exact RR.ok' ha
  | p :: L, hL, acc, acc', ha => by
    have hp := hL p (List.mem_cons_self ..)
    simp only [List.map_cons, groupLoop]
    refine RR.bind (hf _ _ hp.1 hp.2.1 hp.2.2) (fun rv rv' hrv => ?_)
    cases rv <;> cases rv' <;> simp only [VR] at hrv <;> try exact rr_errType
    subst hrv
    exact groupLoop_pairs hf L (tl hL) (groupInsert_gr hp.1 ha)

theorem groupBy_rrp {f f' : Val → Res Val} (hf : FRp nf P f f') {v v' : Val} (h : VR nf v v')
    (a : AllF P v) (a' : AllF P v') : RR (VR nf) (groupBy f v) (groupBy f' v') := by
  cases v <;> cases v' <;> simp only [VR] at h <;> try (simp only [groupBy]; exact rr_errType)
  next t xs u ys =>
  obtain ⟨rfl, h⟩ := h
  obtain ⟨L, l1, l2, hL⟩ := pairs_of h (allF_arr.mp a) (allF_arr.mp a')
  simp only [groupBy]
  have he : xs.isEmpty = ys.isEmpty := by
    have := vrl_length h
    cases xs <;> cases ys <;> simp at this <;> rfl
  rw [he]
  split
  · exact RR.ok' vr_null
  · rw [← l1, ← l2]
    exact widen1_pairs L hL hf (RR.bind (groupLoop_pairs hf L hL l2_nil)
      (fun gs gs' hgs => RR.ok' (vr_obj (groups_vrf _ hgs))))

/-- `>>=` on related outcomes, with the equations at hand -/
theorem rr_bind_eq {α β γ δ : Type} {R : α → β → Prop} {S : γ → δ → Prop} {x : Res α} {y : Res β}
    {f : α → Res γ} {g : β → Res δ} (h : RR R x y) (hf : ∀ a b, x = .ok a → y = .ok b → R a b → RR S (f a) (g b)) :
    RR S (x >>= f) (y >>= g) := by
  cases x <;> cases y <;> simp only [RR] at h <;>
    simp only [Res.ok_bind, Res.err_bind, Res.panic_bind, Res.nondet_bind, Res.unmodelled_bind, RR]
  · exact hf _ _ rfl rfl h
  all_goals exact h

end

-- `[*].(@ + @)`-like use: the element function is only required to be congruent on elements with small-integer floats
example : FRp false (IntF 26) (fun v => applyBinOp .add v v) (fun v => applyBinOp .add v v) :=
  fun _ _ h a a' => applyBinOp_small_rr (by decide) (by decide) h h a a' a a'

end C14C
end Jmes
