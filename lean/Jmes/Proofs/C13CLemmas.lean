/-
  Helper lemmas for C13C: the keys `keysOf` computes are, element by element, the values of the key expression; and
  the parse trees / tokens of `name(@, &K)` and `name(@)`.
-/
import Jmes.Properties.C13B
import Jmes.Properties.C01B
namespace Jmes.C13C
open Jmes Jmes.C13 Jmes.Parser Jmes.Grammar Jmes.C17B Jmes.Grammar.Ex

/-! ## keys, element by element -/

/-- the sort key a value stands for: a string, or the decimal value of a number; nothing else is a key -/
def keyOfVal : Val → Option Key
  | .str s => some (.s s)
  | v => (toDecimal v).map Key.n

theorem keysFrom_get {f : Val → Res Val} {isStr : Bool} : ∀ {xs : List Val} {ks : List Key},
    keysFrom f isStr xs = .ok ks → ∀ (i : Nat) (hi : i < xs.length) (hk : i < ks.length),
      ∃ v, f xs[i] = .ok v ∧ keyOfVal v = some ks[i]
  | [], ks, h, i, hi, _ => by simp at hi
  | x :: xs, ks, h, i, hi, hk => by
    simp only [keysFrom] at h
    obtain ⟨rv, hrv, h⟩ := bind_eq_ok h
    obtain ⟨k, hk1, h⟩ := bind_eq_ok h
    obtain ⟨rest, hrest, h⟩ := bind_eq_ok h
    cases h
    have hkv : keyOfVal rv = some k := by
      cases isStr with
      | true =>
        simp only [if_true] at hk1
        cases rv <;> first | (cases hk1; rfl) | cases hk1
      | false =>
        simp only [Bool.false_eq_true, if_false] at hk1
        cases hd : toDecimal rv with
        | none => rw [hd] at hk1; cases hk1
        | some d =>
          rw [hd] at hk1; cases hk1
          cases rv <;> first | (simp [toDecimal] at hd; done) | simp [keyOfVal, hd]
    cases i with
    | zero => exact ⟨rv, hrv, hkv⟩
    | succ j =>
      simp only [List.getElem_cons_succ]
      exact keysFrom_get hrest j (by simpa using hi) (by simpa using hk)

/-- **the keys of `sort_by` / `max_by` / `min_by` are the values of the key expression, element by element** -/
theorem keysOf_get {f : Val → Res Val} {xs : List Val} {ks : List Key} (h : keysOf f xs = .ok ks) :
    ∀ (i : Nat) (hi : i < xs.length) (hk : i < ks.length), ∃ v, f xs[i] = .ok v ∧ keyOfVal v = some ks[i] := by
  cases xs with
  | nil => intro i hi; simp at hi
  | cons x xs =>
    simp only [keysOf] at h
    obtain ⟨first, hf, h⟩ := bind_eq_ok h
    intro i hi hk
    split at h
    · rename_i s
      obtain ⟨rest, hrest, h⟩ := bind_eq_ok h
      cases h
      cases i with
      | zero => exact ⟨_, hf, rfl⟩
      | succ j =>
        simp only [List.getElem_cons_succ]
        exact keysFrom_get hrest j (by simpa using hi) (by simpa using hk)
    · rename_i hns
      split at h
      · cases h
      · rename_i d hd
        obtain ⟨rest, hrest, h⟩ := bind_eq_ok h
        cases h
        cases i with
        | zero =>
          refine ⟨_, hf, ?_⟩
          cases first <;> first | (exact absurd rfl (hns _)) | simp [keyOfVal, hd]
        | succ j =>
          simp only [List.getElem_cons_succ]
          exact keysFrom_get hrest j (by simpa using hi) (by simpa using hk)

/-! ## the trees of `name(@, &K)` and `name(@)` -/

/-- `@` -/
def tCur : Token := ⟨.current, bs "@"⟩

/-- `name(@, &K)` -/
def byTree (name : Token) (K : PTree) : PTree := .call name [.atom tCur, .ref K]

/-- `name(@)` -/
def curTree (name : Token) : PTree := .call name [.atom tCur]

theorem flatten_byTree (name : Token) (K : PTree) :
    Grammar.flatten (byTree name K) =
      name :: tLParen :: tCur :: tComma :: tAmp :: (Grammar.flatten K ++ [tRParen]) := by
  simp [byTree, Grammar.flatten, flat, flatSep]

theorem flatten_curTree (name : Token) : Grammar.flatten (curTree name) = [name, tLParen, tCur, tRParen] := by
  simp [curTree, Grammar.flatten, flat, flatSep]

theorem wp_byTree {name : Token} {mk : INode → INode → INode} (hn : name.type = .unquotedIdentifier)
    (hl : lookupBuiltin name.value = some (.expArg mk)) {K : PTree} (hK : WellPrec K) : WellPrec (byTree name K) := by
  have hK' : wp false K = true := hK
  show wp false (.call name [.atom tCur, .ref K]) = true
  simp only [wp, hn, hl, argsOK, wpArgs, hK', PTree.isRef]
  decide

theorem erase_byTree {name : Token} {mk : INode → INode → INode}
    (hl : lookupBuiltin name.value = some (.expArg mk)) (K : PTree) :
    erase (byTree name K) = mk .current (erase K) := by
  simp only [byTree, erase, hl, eraseL, callNode]
  rfl

/-- **`name(@, &K)` on expression text**, for a builtin that takes an expression reference second (`sort_by`,
    `max_by`, `min_by`, `group_by`): the node, and `search` evaluates it -/
theorem by_text {name : Token} {mk : INode → INode → INode} (hn : name.type = .unquotedIdentifier)
    (hl : lookupBuiltin name.value = some (.expArg mk)) {K : PTree} (hK : WellPrec K) {e : Bytes}
    (hlex : Lexes e (name :: tLParen :: tCur :: tComma :: tAmp :: (Grammar.flatten K ++ [tRParen]))) :
    Parser.parse e = .ok (mk .current (erase K)) ∧ ∀ d, search e d = evaluate (mk .current (erase K)) d := by
  have h := text (wp_byTree hn hl hK) (hlex.congr (flatten_byTree name K).symm)
  rw [erase_byTree hl K] at h
  exact h

end Jmes.C13C
