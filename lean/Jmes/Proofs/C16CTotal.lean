/-
  Property C16, third part — TOTALITY of the denotation relation on JSON texts that are valid UTF-8, with the exact
  nesting depth: `JsonText t → validUTF8 t → ∃ v, Denotes (textDepth t) t v`, where `textDepth` counts brackets outside
  strings by a three-state scan of the bytes (no reference to the grammar or to the decoder).
-/
import Jmes.Proofs.C16CSound
namespace Jmes.C16C
open Jmes Jmes.Utf8 Jmes.Literals Jmes.C16 Jmes.C16BL Jmes.Lexical Jmes.JsonGrammar

/-! ## the bound `n` of `Den n` is an upper bound -/

mutual
/-- `Den n t v` holds for every larger `n` as well -/
theorem Den.mono : {n : Nat} → {t : Bytes} → {v : Val} → Den n t v → ∀ {m : Nat}, n ≤ m → Den m t v
  | _, _, _, .null _, m, _ => .null m
  | _, _, _, .tru _, m, _ => .tru m
  | _, _, _, .fals _, m, _ => .fals m
  | _, _, _, .num _ t h, m, _ => .num m t h
  | _, _, _, .str _ s w h, m, _ => .str m s w h
  | _, _, _, .arrE n w h, m, hm => by
    obtain ⟨m', rfl⟩ : ∃ m', m = m' + 1 := ⟨m - 1, by omega⟩
    exact .arrE m' w h
  | _, _, _, .arr n es xs h, m, hm => by
    obtain ⟨m', rfl⟩ : ∃ m', m = m' + 1 := ⟨m - 1, by omega⟩
    exact .arr m' es xs (DenElems.mono h (by omega))
  | _, _, _, .objE n w h, m, hm => by
    obtain ⟨m', rfl⟩ : ∃ m', m = m' + 1 := ⟨m - 1, by omega⟩
    exact .objE m' w h
  | _, _, _, .obj n p ms kvs h hl, m, hm => by
    obtain ⟨m', rfl⟩ : ∃ m', m = m' + 1 := ⟨m - 1, by omega⟩
    exact .obj m' p ms kvs (DenMembers.mono h (by omega)) hl
/-- the same for element lists -/
theorem DenElems.mono : {n : Nat} → {p : Bytes} → {xs : List Val} → DenElems n p xs → ∀ {m : Nat}, n ≤ m →
    DenElems m p xs
  | _, _, _, .last n w1 t w2 v h1 hv h2, m, hm => .last m w1 t w2 v h1 (Den.mono hv hm) h2
  | _, _, _, .cons n w1 t w2 q v vs h1 hv h2 hq, m, hm =>
    .cons m w1 t w2 q v vs h1 (Den.mono hv hm) h2 (DenElems.mono hq hm)
/-- the same for member lists -/
theorem DenMembers.mono : {n : Nat} → {p : Bytes} → {ms : List (Bytes × Val)} → DenMembers n p ms →
    ∀ {m : Nat}, n ≤ m → DenMembers m p ms
  | _, _, _, .last n w1 kw w2 w3 t w4 k v h1 hk h2 h3 hv h4, m, hm =>
    .last m w1 kw w2 w3 t w4 k v h1 hk h2 h3 (Den.mono hv hm) h4
  | _, _, _, .cons n w1 kw w2 w3 t w4 q k v ms h1 hk h2 h3 hv h4 hq, m, hm =>
    .cons m w1 kw w2 w3 t w4 q k v ms h1 hk h2 h3 (Den.mono hv hm) h4 (DenMembers.mono hq hm)
end

theorem Denotes.mono {n m : Nat} {t : Bytes} {v : Val} (h : Denotes n t v) (hm : n ≤ m) : Denotes m t v := by
  obtain ⟨w1, u, w2, e, h1, hu, h2⟩ := h
  exact ⟨w1, u, w2, e, h1, hu.mono hm, h2⟩

/-! ## valid UTF-8, rune by rune -/

/-- valid UTF-8: the encoding of a list of scalar values -/
def V (a : Bytes) : Prop := ∃ cs, Scalars cs ∧ a = encodeAll cs

theorem V_iff (a : Bytes) : V a ↔ validUTF8 a = true := (validUTF8_iff a).symm

/-- a non-empty valid text starts with the encoding of a scalar value, and the rest is valid -/
theorem V.uncons {x : Nat} {t : Bytes} (h : V (x :: t)) :
    ∃ c t', isScalar c = true ∧ x :: t = encodeRune c ++ t' ∧ V t' := by
  obtain ⟨cs, hs, e⟩ := h
  cases cs with
  | nil => simp [encodeAll] at e
  | cons c cs' => exact ⟨c, encodeAll cs', hs.head, by rw [e, encodeAll_cons], cs', hs.tail, rfl⟩

/-- dropping a leading ASCII byte -/
theorem V.tail_ascii {x : Nat} {t : Bytes} (hx : x < 0x80) (h : V (x :: t)) : V t := by
  obtain ⟨c, t', hc, e, ht'⟩ := h.uncons
  by_cases h1 : c < 0x80
  · rw [encodeRune_ascii c h1] at e
    simp at e
    rw [e.2]; exact ht'
  · exfalso
    obtain ⟨y, z, hyz⟩ := List.exists_cons_of_ne_nil (encodeRune_ne_nil c)
    have := encodeRune_bytes_ge c (by omega) y (by rw [hyz]; simp)
    rw [hyz] at e; simp at e; omega

/-- dropping a leading run of ASCII bytes -/
theorem V.strip_ascii : ∀ (a : Bytes) {r : Bytes}, (∀ x ∈ a, x < 0x80) → V (a ++ r) → V r
  | [], _, _, h => h
  | x :: a, _, ha, h =>
    V.strip_ascii a (fun y hy => ha y (by simp [hy])) (V.tail_ascii (ha x (by simp)) h)

/-- a text that starts with a non-ASCII byte starts with the encoding of a non-ASCII scalar value -/
theorem V.high {x : Nat} {t : Bytes} (hx : 0x80 ≤ x) (h : V (x :: t)) :
    ∃ c t', isScalar c = true ∧ 0x80 ≤ c ∧ x :: t = encodeRune c ++ t' ∧ V t' := by
  obtain ⟨c, t', hc, e, ht'⟩ := h.uncons
  refine ⟨c, t', hc, ?_, e, ht'⟩
  apply Nat.le_of_not_lt
  intro h1
  rw [encodeRune_ascii c h1] at e
  simp at e; omega

theorem ws_ascii {w : Bytes} (hw : Ws w) : ∀ x ∈ w, x < 0x80 := by
  intro x hx; have := hw x hx; simp [isWsB] at this; omega

/-! ## the nesting depth of a text, by scanning its bytes -/

/-- where the scan is: outside strings, inside a string, just after a backslash inside a string -/
inductive Mode where
  | out | str | esc
  deriving DecidableEq, Repr

/-- scan state: mode, number of containers currently open, the maximum so far -/
structure St where
  mode : Mode
  cur : Nat
  mx : Nat
  deriving DecidableEq, Repr

/-- one byte -/
def step (s : St) (b : Nat) : St :=
  match s.mode with
  | .out =>
    if b = 0x22 then ⟨.str, s.cur, s.mx⟩
    else if b = 0x5B ∨ b = 0x7B then ⟨.out, s.cur + 1, max s.mx (s.cur + 1)⟩
    else if b = 0x5D ∨ b = 0x7D then ⟨.out, s.cur - 1, s.mx⟩
    else s
  | .str => if b = 0x22 then ⟨.out, s.cur, s.mx⟩ else if b = 0x5C then ⟨.esc, s.cur, s.mx⟩ else s
  | .esc => ⟨.str, s.cur, s.mx⟩

/-- scanning a run of bytes -/
def scan (s : St) (bs : Bytes) : St := bs.foldl step s

/-- **the nesting depth of a text**: the largest number of `[` / `{` (outside strings) open at the same time -/
def textDepth (t : Bytes) : Nat := (scan ⟨.out, 0, 0⟩ t).mx

theorem scan_nil (s : St) : scan s [] = s := rfl
theorem scan_cons (s : St) (b : Nat) (t : Bytes) : scan s (b :: t) = scan (step s b) t := rfl
theorem scan_append (s : St) (a b : Bytes) : scan s (a ++ b) = scan (scan s a) b := by simp [scan]

example : textDepth [0x5B, 0x7B, 0x22, 0x5B, 0x5C, 0x22, 0x5B, 0x22, 0x3A, 0x5B, 0x5D, 0x7D, 0x2C, 0x5B, 0x5D, 0x5D] = 3 := by
  decide   -- `[{"[\"[":[]},[]]`

/-- bytes that are neither a quote nor a bracket leave the state outside strings unchanged -/
theorem scan_plain : ∀ (a : Bytes) (c m : Nat),
    (∀ x ∈ a, x ≠ 0x22 ∧ x ≠ 0x5B ∧ x ≠ 0x7B ∧ x ≠ 0x5D ∧ x ≠ 0x7D) → scan ⟨.out, c, m⟩ a = ⟨.out, c, m⟩
  | [], _, _, _ => rfl
  | x :: a, c, m, h => by
    have hx := h x (by simp)
    have : step ⟨.out, c, m⟩ x = ⟨.out, c, m⟩ := by
      simp only [step]
      rw [if_neg hx.1, if_neg (by omega), if_neg (by omega)]
    rw [scan_cons, this]
    exact scan_plain a c m (fun y hy => h y (by simp [hy]))

theorem scan_ws {w : Bytes} (hw : Ws w) (c m : Nat) : scan ⟨.out, c, m⟩ w = ⟨.out, c, m⟩ :=
  scan_plain w c m (fun x hx => by have := hw x hx; simp [isWsB] at this; omega)

/-- the body of a string brings the scan back outside, counters untouched -/
theorem scan_str {b : Bytes} (h : JStrBody b) (c m : Nat) : scan ⟨.str, c, m⟩ b = ⟨.out, c, m⟩ := by
  have hexne : ∀ {x : Nat}, isHexB x = true → step ⟨.str, c, m⟩ x = ⟨.str, c, m⟩ := by
    intro x hx
    simp [isHexB] at hx
    simp only [step]
    rw [if_neg (by omega), if_neg (by omega)]
  induction h with
  | close => rfl
  | char x w h1 h2 h3 _ ih =>
    rw [scan_cons]
    have : step ⟨.str, c, m⟩ x = ⟨.str, c, m⟩ := by simp only [step]; rw [if_neg h2, if_neg h3]
    rw [this, ih]
  | esc e w he _ ih =>
    rw [scan_cons, scan_cons]
    have : step (step ⟨.str, c, m⟩ 0x5C) e = ⟨.str, c, m⟩ := rfl
    rw [this, ih]
  | uni a b' c' d w ha hb hc hd _ ih =>
    rw [scan_cons, scan_cons]
    have : step (step ⟨.str, c, m⟩ 0x5C) 0x75 = ⟨.str, c, m⟩ := rfl
    rw [this, scan_cons, hexne ha, scan_cons, hexne hb, scan_cons, hexne hc, scan_cons, hexne hd, ih]

/-! ## strings -/

/-- inversion: a `StrDen` writing that begins with the `\uXXXX` escape of a LOW surrogate reads it as a lone
    surrogate -/
theorem StrDen.low_inv {s w : Bytes} (h : StrDen s w) {a b c d lo : Nat} {rest : Bytes}
    (hw : w = 0x5C :: 0x75 :: a :: b :: c :: d :: rest) (hx : Json.hex4 [a, b, c, d] = some (lo, []))
    (h1 : 0xDC00 ≤ lo) (h2 : lo < 0xE000) : ∃ s2, StrDen s2 rest := by
  cases h with
  | nil => cases hw
  | raw c0 g1 g2 g3 g4 h' =>
    exfalso
    by_cases hc : c0 < 0x80
    · rw [encodeRune_ascii c0 hc] at hw; simp at hw; omega
    · obtain ⟨x, y, hxy⟩ := List.exists_cons_of_ne_nil (encodeRune_ne_nil c0)
      have := encodeRune_bytes_ge c0 (by omega) x (by rw [hxy]; simp)
      rw [hxy] at hw; simp at hw; omega
  | short e b0 he h' =>
    exfalso
    simp only [shortEsc, List.mem_cons, Prod.mk.injEq, List.not_mem_nil, or_false] at he
    simp at hw; omega
  | uni a0 b0 c0 d0 r hx0 hs h' =>
    exfalso
    simp at hw
    obtain ⟨rfl, rfl, rfl, rfl, rfl⟩ := hw
    rw [hx] at hx0; simp at hx0; subst hx0
    simp [Json.isSurrogate] at hs; omega
  | pair a0 b0 c0 d0 a' b' c' d' hi lo' hx0 hx' g1 g2 g3 g4 h' =>
    exfalso
    simp at hw
    obtain ⟨rfl, rfl, rfl, rfl, _⟩ := hw
    rw [hx] at hx0; simp at hx0; omega
  | lone a0 b0 c0 d0 r hx0 hs hn h' =>
    simp at hw
    obtain ⟨rfl, rfl, rfl, rfl, rfl⟩ := hw
    exact ⟨_, h'⟩

theorem isHexB_ascii {x : Nat} (h : isHexB x = true) : x < 0x80 := by simp [isHexB] at h; omega

/-- the byte a two-character escape stands for, as a `shortEsc` entry -/
theorem shortEsc_of_mem {e : Nat} (he : e ∈ [0x22, 0x5C, 0x2F, 0x62, 0x66, 0x6E, 0x72, 0x74]) :
    ∃ b, (e, b) ∈ shortEsc ∧ e < 0x80 := by
  simp at he
  rcases he with rfl | rfl | rfl | rfl | rfl | rfl | rfl | rfl
  · exact ⟨0x22, by decide, by decide⟩
  · exact ⟨0x5C, by decide, by decide⟩
  · exact ⟨0x2F, by decide, by decide⟩
  · exact ⟨0x08, by decide, by decide⟩
  · exact ⟨0x0C, by decide, by decide⟩
  · exact ⟨0x0A, by decide, by decide⟩
  · exact ⟨0x0D, by decide, by decide⟩
  · exact ⟨0x09, by decide, by decide⟩

/-- **every JSON string body that is valid UTF-8 denotes a string** -/
theorem strden_total : ∀ (n : Nat) (b : Bytes), b.length ≤ n → JStrBody b → ∀ rest, V (b ++ rest) →
    ∃ s w, b = w ++ [0x22] ∧ StrDen s w ∧ V rest
  | 0, b, hn, hb => by have := jstr_length_pos hb; omega
  | n + 1, b, hn, hb => by
    intro rest hv
    cases hb with
    | close => exact ⟨[], [], rfl, .nil, V.tail_ascii (by omega) hv⟩
    | char c w h1 h2 h3 hw =>
      simp only [List.length_cons] at hn
      by_cases hc : c < 0x80
      · obtain ⟨s, w', rfl, hs, hr⟩ := strden_total n w (by omega) hw rest (V.tail_ascii hc hv)
        have := StrDen.raw c (isScalar_ascii c hc) h1 h2 h3 hs
        rw [encodeRune_ascii c hc] at this
        exact ⟨_, c :: w', rfl, this, hr⟩
      · obtain ⟨r, t', hr, hr80, e, ht'⟩ := V.high (Nat.le_of_not_lt hc) hv
        have hge := encodeRune_bytes_ge r hr80
        -- the encoding of `r` lies inside the body: the body ends with a quote
        obtain ⟨b', hb'⟩ := jstr_last (JStrBody.char c w h1 h2 h3 hw)
        have e : (c :: w) ++ rest = encodeRune r ++ t' := e
        rcases List.append_eq_append_iff.mp e with ⟨a', e1, e2⟩ | ⟨c', e1, e2⟩
        · exfalso
          have : (0x22 : Nat) ∈ encodeRune r := by rw [e1, hb']; simp
          have := hge _ this; omega
        · have hj : JStrBody c' := jstr_high_strip (encodeRune r) hge (by rw [← e1]; exact JStrBody.char c w h1 h2 h3 hw)
          have hlen : c'.length ≤ n := by
            have := congrArg List.length e1
            have := encodeRune_length_pos r
            simp only [List.length_cons, List.length_append] at *
            omega
          obtain ⟨s, w', rfl, hs, hrest⟩ := strden_total n c' hlen hj rest (by rw [← e2]; exact ht')
          refine ⟨_, encodeRune r ++ w', by rw [e1]; simp, StrDen.raw r hr (by omega) (by omega) (by omega) hs, hrest⟩
    | esc e w he hw =>
      simp only [List.length_cons] at hn
      obtain ⟨x, hx, he80⟩ := shortEsc_of_mem he
      obtain ⟨s, w', rfl, hs, hr⟩ := strden_total n w (by omega) hw rest
        (V.tail_ascii he80 (V.tail_ascii (by omega) hv))
      exact ⟨_, 0x5C :: e :: w', rfl, .short e x hx hs, hr⟩
    | uni a b' c d w ha hb hc hd hw =>
      simp only [List.length_cons] at hn
      obtain ⟨r, hr⟩ := hex4_complete ha hb hc hd []
      obtain ⟨s, w', rfl, hs, hrest⟩ := strden_total n w (by omega) hw rest
        (V.tail_ascii (isHexB_ascii hd) (V.tail_ascii (isHexB_ascii hc) (V.tail_ascii (isHexB_ascii hb)
          (V.tail_ascii (isHexB_ascii ha) (V.tail_ascii (by omega) (V.tail_ascii (by omega) hv))))))
      by_cases hsur : Json.isSurrogate r = true
      · by_cases hp : r < 0xDC00 ∧ ¬ NoLowEsc w'
        · obtain ⟨hlt, hnl⟩ := hp
          unfold NoLowEsc at hnl
          have : ∃ a' b2 c' d' lo rest2, w' = 0x5C :: 0x75 :: a' :: b2 :: c' :: d' :: rest2 ∧
              Json.hex4 [a', b2, c', d'] = some (lo, []) ∧ 0xDC00 ≤ lo ∧ lo < 0xE000 := by
            apply Classical.byContradiction
            intro hcon
            apply hnl
            intro a' b2 c' d' lo rest2 e1 e2 e3
            exact hcon ⟨a', b2, c', d', lo, rest2, e1, e2, e3.1, e3.2⟩
          obtain ⟨a', b2, c', d', lo, rest2, e1, e2, e3, e4⟩ := this
          obtain ⟨s2, hs2⟩ := hs.low_inv e1 e2 e3 e4
          have h800 : 0xD800 ≤ r := by simp [Json.isSurrogate] at hsur; omega
          subst e1
          exact ⟨_, _, rfl, .pair a b' c d a' b2 c' d' r lo hr e2 h800 hlt e3 e4 hs2, hrest⟩
        · have hcond : r < 0xDC00 → NoLowEsc w' := by
            intro hlt
            apply Classical.byContradiction
            intro hnl
            exact hp ⟨hlt, hnl⟩
          exact ⟨_, _, rfl, .lone a b' c d r hr hsur hcond hs, hrest⟩
      · exact ⟨_, _, rfl, .uni a b' c d r hr (by simpa using hsur) hs, hrest⟩

/-! ## values -/

/-- a JSON number contains ASCII bytes that are neither quotes nor brackets -/
theorem jnumber_bytes {t : Bytes} (h : JNumber t) :
    ∀ x ∈ t, x < 0x80 ∧ x ≠ 0x22 ∧ x ≠ 0x5B ∧ x ≠ 0x7B ∧ x ≠ 0x5D ∧ x ≠ 0x7D := by
  intro x hx
  have := numChars_of_valid t ((isValidNumber_iff t).2 h) x hx
  unfold NumChar at this
  omega

mutual
/-- every JSON value text that is valid UTF-8 denotes a value, with the depth the scan finds -/
theorem den_total : {p : Bytes} → JValue p → ∀ rest, V (p ++ rest) →
    ∃ m v, Den m p v ∧ V rest ∧ ∀ c mx, c ≤ mx → scan ⟨.out, c, mx⟩ p = ⟨.out, c, max mx (c + m)⟩
  | _, .null, rest, hv =>
    ⟨0, _, .null 0, V.strip_ascii [0x6E, 0x75, 0x6C, 0x6C] (by decide) hv, fun c mx h => by
      rw [scan_plain _ c mx (by decide)]; congr 1; omega⟩
  | _, .true, rest, hv =>
    ⟨0, _, .tru 0, V.strip_ascii [0x74, 0x72, 0x75, 0x65] (by decide) hv, fun c mx h => by
      rw [scan_plain _ c mx (by decide)]; congr 1; omega⟩
  | _, .false, rest, hv =>
    ⟨0, _, .fals 0, V.strip_ascii [0x66, 0x61, 0x6C, 0x73, 0x65] (by decide) hv, fun c mx h => by
      rw [scan_plain _ c mx (by decide)]; congr 1; omega⟩
  | _, .num t hn, rest, hv =>
    ⟨0, _, .num 0 t hn, V.strip_ascii t (fun x hx => (jnumber_bytes hn x hx).1) hv, fun c mx h => by
      rw [scan_plain _ c mx (fun x hx => (jnumber_bytes hn x hx).2)]; congr 1; omega⟩
  | _, .str b hb, rest, hv => by
    obtain ⟨s, w, rfl, hs, hr⟩ := strden_total b.length b (Nat.le_refl _) hb rest
      (V.tail_ascii (x := 0x22) (by omega) hv)
    refine ⟨0, _, .str 0 s w hs, hr, fun c mx h => ?_⟩
    rw [scan_cons]
    have : step ⟨.out, c, mx⟩ 0x22 = ⟨.str, c, mx⟩ := rfl
    rw [this, scan_str hb]; congr 1; omega
  | _, .arrEmpty w hw, rest, hv => by
    refine ⟨1, _, .arrE 0 w hw, ?_, fun c mx h => ?_⟩
    · have : 0x5B :: (w ++ [0x5D]) ++ rest = (0x5B :: (w ++ [0x5D])) ++ rest := rfl
      exact V.strip_ascii (0x5B :: (w ++ [0x5D])) (by
        intro x hx; simp at hx
        rcases hx with rfl | hx | rfl
        · omega
        · exact ws_ascii hw x hx
        · omega) hv
    · rw [scan_cons, scan_append]
      have : step ⟨.out, c, mx⟩ 0x5B = ⟨.out, c + 1, max mx (c + 1)⟩ := rfl
      rw [this, scan_ws hw]
      rfl
  | _, .arr es he, rest, hv => by
    obtain ⟨m, xs, hd, hr, hsc⟩ := elems_total he rest (V.tail_ascii (x := 0x5B) (by omega) hv)
    refine ⟨m + 1, _, .arr m es xs hd, hr, fun c mx h => ?_⟩
    rw [scan_cons]
    have : step ⟨.out, c, mx⟩ 0x5B = ⟨.out, c + 1, max mx (c + 1)⟩ := rfl
    rw [this, hsc c _ (by omega)]
    congr 1; omega
  | _, .objEmpty w hw, rest, hv => by
    refine ⟨1, _, .objE 0 w hw, ?_, fun c mx h => ?_⟩
    · exact V.strip_ascii (0x7B :: (w ++ [0x7D])) (by
        intro x hx; simp at hx
        rcases hx with rfl | hx | rfl
        · omega
        · exact ws_ascii hw x hx
        · omega) hv
    · rw [scan_cons, scan_append]
      have : step ⟨.out, c, mx⟩ 0x7B = ⟨.out, c + 1, max mx (c + 1)⟩ := rfl
      rw [this, scan_ws hw]
      rfl
  | _, .obj p hm, rest, hv => by
    obtain ⟨m, ms, hd, hr, hsc⟩ := members_total hm rest (V.tail_ascii (x := 0x7B) (by omega) hv)
    refine ⟨m + 1, _, .obj m p ms _ hd (LastWins.of_fold ms), hr, fun c mx h => ?_⟩
    rw [scan_cons]
    have : step ⟨.out, c, mx⟩ 0x7B = ⟨.out, c + 1, max mx (c + 1)⟩ := rfl
    rw [this, hsc c _ (by omega)]
    congr 1; omega
/-- the same for the elements of an array (the scan starts with the array's bracket already counted) -/
theorem elems_total : {p : Bytes} → JElems p → ∀ rest, V (p ++ rest) →
    ∃ m xs, DenElems m p xs ∧ V rest ∧
      ∀ c mx, c + 1 ≤ mx → scan ⟨.out, c + 1, mx⟩ p = ⟨.out, c, max mx (c + 1 + m)⟩
  | _, .last w1 v w2 h1 hv h2, rest, hV => by
    have e : w1 ++ v ++ w2 ++ [0x5D] ++ rest = w1 ++ (v ++ (w2 ++ 0x5D :: rest)) := by simp
    rw [e] at hV
    obtain ⟨m, x, hd, hr, hsc⟩ := den_total hv _ (V.strip_ascii w1 (ws_ascii h1) hV)
    refine ⟨m, [x], .last m w1 v w2 x h1 hd h2, V.tail_ascii (by omega) (V.strip_ascii w2 (ws_ascii h2) hr),
      fun c mx h => ?_⟩
    rw [scan_append, scan_append, scan_append, scan_ws h1, hsc _ _ (by omega), scan_ws h2]
    rfl
  | _, .cons w1 v w2 q h1 hv h2 hq, rest, hV => by
    have e : w1 ++ v ++ w2 ++ 0x2C :: q ++ rest = w1 ++ (v ++ (w2 ++ 0x2C :: (q ++ rest))) := by simp
    rw [e] at hV
    obtain ⟨m1, x, hd, hr, hsc⟩ := den_total hv _ (V.strip_ascii w1 (ws_ascii h1) hV)
    obtain ⟨m2, xs, hd2, hr2, hsc2⟩ := elems_total hq rest
      (V.tail_ascii (by omega) (V.strip_ascii w2 (ws_ascii h2) hr))
    refine ⟨max m1 m2, x :: xs, .cons _ w1 v w2 q x xs h1 (hd.mono (by omega)) h2 (hd2.mono (by omega)), hr2,
      fun c mx h => ?_⟩
    rw [scan_append, scan_append, scan_append, scan_ws h1, hsc _ _ (by omega), scan_ws h2, scan_cons]
    have : step ⟨.out, c + 1, max mx (c + 1 + m1)⟩ 0x2C = ⟨.out, c + 1, max mx (c + 1 + m1)⟩ := rfl
    rw [this, hsc2 c _ (by omega)]
    congr 1; omega
/-- the same for the members of an object -/
theorem members_total : {p : Bytes} → JMembers p → ∀ rest, V (p ++ rest) →
    ∃ m ms, DenMembers m p ms ∧ V rest ∧
      ∀ c mx, c + 1 ≤ mx → scan ⟨.out, c + 1, mx⟩ p = ⟨.out, c, max mx (c + 1 + m)⟩
  | _, .last w1 k w2 w3 v w4 h1 hk h2 h3 hv h4, rest, hV => by
    have e : w1 ++ 0x22 :: k ++ w2 ++ 0x3A :: w3 ++ v ++ w4 ++ [0x7D] ++ rest
        = w1 ++ 0x22 :: (k ++ (w2 ++ 0x3A :: (w3 ++ (v ++ (w4 ++ 0x7D :: rest))))) := by simp
    rw [e] at hV
    obtain ⟨ks, kw, rfl, hks, hr1⟩ := strden_total k.length k (Nat.le_refl _) hk _
      (V.tail_ascii (by omega) (V.strip_ascii w1 (ws_ascii h1) hV))
    obtain ⟨m, x, hd, hr, hsc⟩ := den_total hv _
      (V.strip_ascii w3 (ws_ascii h3) (V.tail_ascii (by omega) (V.strip_ascii w2 (ws_ascii h2) hr1)))
    have e2 : w1 ++ 0x22 :: (kw ++ [0x22]) ++ w2 ++ 0x3A :: w3 ++ v ++ w4 ++ [0x7D]
        = w1 ++ 0x22 :: (kw ++ 0x22 :: (w2 ++ 0x3A :: (w3 ++ v ++ w4 ++ [0x7D]))) := by simp
    refine ⟨m, [(ks, x)], by rw [e2]; exact .last m w1 kw w2 w3 v w4 ks x h1 hks h2 h3 hd h4,
      V.tail_ascii (by omega) (V.strip_ascii w4 (ws_ascii h4) hr), fun c mx h => ?_⟩
    have e3 : w1 ++ 0x22 :: (kw ++ [0x22]) ++ w2 ++ 0x3A :: w3 ++ v ++ w4 ++ [0x7D]
        = w1 ++ (0x22 :: ((kw ++ [0x22]) ++ (w2 ++ (0x3A :: (w3 ++ (v ++ (w4 ++ [0x7D]))))))) := by simp
    rw [e3, scan_append, scan_ws h1, scan_cons]
    have s1 : step ⟨.out, c + 1, mx⟩ 0x22 = ⟨.str, c + 1, mx⟩ := rfl
    rw [s1, scan_append, scan_str hk, scan_append, scan_ws h2, scan_cons]
    have s2 : step ⟨.out, c + 1, mx⟩ 0x3A = ⟨.out, c + 1, mx⟩ := rfl
    rw [s2, scan_append, scan_ws h3, scan_append, hsc _ _ (by omega), scan_append, scan_ws h4]
    rfl
  | _, .cons w1 k w2 w3 v w4 q h1 hk h2 h3 hv h4 hq, rest, hV => by
    have e : w1 ++ 0x22 :: k ++ w2 ++ 0x3A :: w3 ++ v ++ w4 ++ 0x2C :: q ++ rest
        = w1 ++ 0x22 :: (k ++ (w2 ++ 0x3A :: (w3 ++ (v ++ (w4 ++ 0x2C :: (q ++ rest)))))) := by simp
    rw [e] at hV
    obtain ⟨ks, kw, rfl, hks, hr1⟩ := strden_total k.length k (Nat.le_refl _) hk _
      (V.tail_ascii (by omega) (V.strip_ascii w1 (ws_ascii h1) hV))
    obtain ⟨m1, x, hd, hr, hsc⟩ := den_total hv _
      (V.strip_ascii w3 (ws_ascii h3) (V.tail_ascii (by omega) (V.strip_ascii w2 (ws_ascii h2) hr1)))
    obtain ⟨m2, ms, hd2, hr2, hsc2⟩ := members_total hq rest
      (V.tail_ascii (by omega) (V.strip_ascii w4 (ws_ascii h4) hr))
    have e2 : w1 ++ 0x22 :: (kw ++ [0x22]) ++ w2 ++ 0x3A :: w3 ++ v ++ w4 ++ 0x2C :: q
        = w1 ++ 0x22 :: (kw ++ 0x22 :: (w2 ++ 0x3A :: (w3 ++ v ++ w4 ++ 0x2C :: q))) := by simp
    refine ⟨max m1 m2, (ks, x) :: ms, by
      rw [e2]
      exact .cons _ w1 kw w2 w3 v w4 q ks x ms h1 hks h2 h3 (hd.mono (by omega)) h4 (hd2.mono (by omega)),
      hr2, fun c mx h => ?_⟩
    have e3 : w1 ++ 0x22 :: (kw ++ [0x22]) ++ w2 ++ 0x3A :: w3 ++ v ++ w4 ++ 0x2C :: q
        = w1 ++ (0x22 :: ((kw ++ [0x22]) ++ (w2 ++ (0x3A :: (w3 ++ (v ++ (w4 ++ (0x2C :: q)))))))) := by simp
    rw [e3, scan_append, scan_ws h1, scan_cons]
    have s1 : step ⟨.out, c + 1, mx⟩ 0x22 = ⟨.str, c + 1, mx⟩ := rfl
    rw [s1, scan_append, scan_str hk, scan_append, scan_ws h2, scan_cons]
    have s2 : step ⟨.out, c + 1, mx⟩ 0x3A = ⟨.out, c + 1, mx⟩ := rfl
    rw [s2, scan_append, scan_ws h3, scan_append, hsc _ _ (by omega), scan_append, scan_ws h4, scan_cons]
    have s3 : step ⟨.out, c + 1, max mx (c + 1 + m1)⟩ 0x2C = ⟨.out, c + 1, max mx (c + 1 + m1)⟩ := rfl
    rw [s3, hsc2 c _ (by omega)]
    congr 1; omega
end

/-- **Totality**: every JSON text (RFC 8259 grammar `JsonText`) that is valid UTF-8 denotes a value, and the
    derivation nests exactly as deep as the byte scan `textDepth` says -/
theorem denotes_total {t : Bytes} (h : JsonText t) (hu : validUTF8 t = true) : ∃ v, Denotes (textDepth t) t v := by
  obtain ⟨w1, p, w2, rfl, h1, hp, h2⟩ := h
  have hV : V (w1 ++ (p ++ w2)) := by rw [← List.append_assoc]; exact (V_iff _).2 hu
  obtain ⟨m, v, hd, _, hsc⟩ := den_total hp w2 (V.strip_ascii w1 (ws_ascii h1) hV)
  refine ⟨v, w1, p, w2, rfl, h1, ?_, h2⟩
  have : textDepth (w1 ++ p ++ w2) = m := by
    unfold textDepth
    rw [scan_append, scan_append, scan_ws h1, hsc 0 0 (Nat.le_refl _), scan_ws h2]
    simp
  rw [this]; exact hd

end Jmes.C16C
