/-
  Helper lemmas for property C20: the decimal comparison is an equivalence on non-NaN values, and
  element-wise characterisations of `equalL` / `equalF`.
-/
import Jmes.Model.Eval
namespace Jmes

/-! ### `Dec.cmpFin` / `Dec.cmp`: equality is equality of values -/
namespace Dec

/-- the signed coefficient of `(-1)^n · c · 10^e` written at the exponent `b ≤ e` -/
def sval (n : Bool) (c : Nat) (e b : Int) : Int :=
  (if n then -1 else 1) * ((c * pow10 (e - b).toNat : Nat) : Int)

theorem cmpFin_eq_zero_iff (n1 : Bool) (c1 : Nat) (e1 : Int) (n2 : Bool) (c2 : Nat) (e2 : Int) :
    cmpFin n1 c1 e1 n2 c2 e2 = 0 ↔ sval n1 c1 e1 (min e1 e2) = sval n2 c2 e2 (min e1 e2) := by
  unfold cmpFin sval
  simp only []
  generalize ((if n1 then -1 else 1) * ((c1 * pow10 (e1 - min e1 e2).toNat : Nat) : Int)) = a
  generalize ((if n2 then -1 else 1) * ((c2 * pow10 (e2 - min e1 e2).toNat : Nat) : Int)) = b
  split
  · constructor <;> intro h <;> omega
  · split
    · simp_all
    · constructor <;> intro h <;> omega

/-- re-scaling to a smaller exponent multiplies by a power of ten -/
theorem sval_shift (n : Bool) (c : Nat) (e b m : Int) (hmb : m ≤ b) (hbe : b ≤ e) :
    sval n c e m = sval n c e b * ((10 ^ (b - m).toNat : Nat) : Int) := by
  unfold sval pow10
  have h : (e - m).toNat = (e - b).toNat + (b - m).toNat := by omega
  rw [h, Nat.pow_add, ← Nat.mul_assoc, Int.natCast_mul (c * 10 ^ (e - b).toNat), Int.mul_assoc]

/-- equality of the scaled coefficients does not depend on the common exponent chosen -/
theorem sval_eq_iff (n1 : Bool) (c1 : Nat) (e1 : Int) (n2 : Bool) (c2 : Nat) (e2 : Int) (b m : Int)
    (hmb : m ≤ b) (h1 : b ≤ e1) (h2 : b ≤ e2) :
    sval n1 c1 e1 b = sval n2 c2 e2 b ↔ sval n1 c1 e1 m = sval n2 c2 e2 m := by
  rw [sval_shift n1 c1 e1 b m hmb h1, sval_shift n2 c2 e2 b m hmb h2]
  have hne : ((10 ^ (b - m).toNat : Nat) : Int) ≠ 0 := by
    have : 0 < 10 ^ (b - m).toNat := Nat.pow_pos (by decide)
    omega
  exact (Int.mul_eq_mul_right_iff hne).symm

/-- "compares by value": two finite decimals compare equal iff their coefficients agree at any common exponent -/
theorem cmpFin_eq_zero_iff_value (n1 : Bool) (c1 : Nat) (e1 : Int) (n2 : Bool) (c2 : Nat) (e2 : Int) (m : Int)
    (h1 : m ≤ e1) (h2 : m ≤ e2) :
    cmpFin n1 c1 e1 n2 c2 e2 = 0 ↔ sval n1 c1 e1 m = sval n2 c2 e2 m := by
  rw [cmpFin_eq_zero_iff]
  exact sval_eq_iff n1 c1 e1 n2 c2 e2 (min e1 e2) m (by omega) (by omega) (by omega)

theorem cmpFin_self (n : Bool) (c : Nat) (e : Int) : cmpFin n c e n c e = 0 :=
  (cmpFin_eq_zero_iff ..).mpr rfl

theorem cmpFin_zero_symm {n1 c1 e1 n2 c2 e2} (h : cmpFin n1 c1 e1 n2 c2 e2 = 0) : cmpFin n2 c2 e2 n1 c1 e1 = 0 := by
  rw [cmpFin_eq_zero_iff_value _ _ _ _ _ _ (min e1 e2) (by omega) (by omega)] at *
  exact h.symm

theorem cmpFin_zero_trans {n1 c1 e1 n2 c2 e2 n3 c3 e3}
    (h12 : cmpFin n1 c1 e1 n2 c2 e2 = 0) (h23 : cmpFin n2 c2 e2 n3 c3 e3 = 0) : cmpFin n1 c1 e1 n3 c3 e3 = 0 := by
  rw [cmpFin_eq_zero_iff_value _ _ _ _ _ _ (min e1 (min e2 e3)) (by omega) (by omega)] at *
  exact h12.trans h23

theorem cmp_self {a : Dec} (h : a ≠ .nan) : cmp a a = some 0 := by
  cases a with
  | nan => exact absurd rfl h
  | inf n => simp [cmp]
  | fin n c e => simp [cmp, cmpFin_self]

theorem cmp_nan_left (b : Dec) : cmp .nan b = none := by cases b <;> rfl
theorem cmp_nan_right (a : Dec) : cmp a .nan = none := by cases a <;> rfl

theorem cmp_zero_symm {a b : Dec} (h : cmp a b = some 0) : cmp b a = some 0 := by
  cases a with
  | nan => simp [cmp_nan_left] at h
  | inf n => cases b with
    | nan => simp [cmp] at h
    | inf m => cases n <;> cases m <;> simp [cmp] at h ⊢
    | fin m c e => cases n <;> simp [cmp] at h
  | fin n1 c1 e1 => cases b with
    | nan => simp [cmp] at h
    | inf m => cases m <;> simp [cmp] at h
    | fin n2 c2 e2 =>
      simp only [cmp, Option.some.injEq] at h ⊢
      exact cmpFin_zero_symm h

theorem cmp_zero_trans {a b c : Dec} (h1 : cmp a b = some 0) (h2 : cmp b c = some 0) : cmp a c = some 0 := by
  cases a with
  | nan => simp [cmp_nan_left] at h1
  | inf n => cases b with
    | nan => simp [cmp] at h1
    | inf m => cases c with
      | nan => simp [cmp] at h2
      | inf k => cases n <;> cases m <;> cases k <;> simp [cmp] at h1 h2 ⊢
      | fin k c e => cases m <;> simp [cmp] at h2
    | fin m c e => cases n <;> simp [cmp] at h1
  | fin n1 c1 e1 => cases b with
    | nan => simp [cmp] at h1
    | inf m => cases m <;> simp [cmp] at h1
    | fin n2 c2 e2 => cases c with
      | nan => simp [cmp] at h2
      | inf k => cases k <;> simp [cmp] at h2
      | fin n3 c3 e3 =>
        simp only [cmp, Option.some.injEq] at h1 h2 ⊢
        exact cmpFin_zero_trans h1 h2

theorem equal_iff {a b : Dec} : Dec.equal a b = true ↔ cmp a b = some 0 := by
  simp [Dec.equal]

theorem equal_self {a : Dec} (h : a ≠ .nan) : Dec.equal a a = true := equal_iff.mpr (cmp_self h)

theorem equal_nan_self : Dec.equal .nan .nan = false := rfl

theorem equal_comm (a b : Dec) : Dec.equal a b = Dec.equal b a := by
  rw [Bool.eq_iff_iff, equal_iff, equal_iff]
  exact ⟨cmp_zero_symm, cmp_zero_symm⟩

theorem equal_trans {a b c : Dec} (h1 : Dec.equal a b = true) (h2 : Dec.equal b c = true) : Dec.equal a c = true :=
  equal_iff.mpr (cmp_zero_trans (equal_iff.mp h1) (equal_iff.mp h2))

end Dec

/-! ### induction over `Val` with membership hypotheses (the nested inductive has no usable `induction`) -/

theorem Val.ind_mem {motive : Val → Prop}
    (null : motive .null) (bool : ∀ b, motive (.bool b)) (str : ∀ s, motive (.str s)) (num : ∀ n, motive (.num n))
    (arr : ∀ t xs, (∀ x ∈ xs, motive x) → motive (.arr t xs))
    (obj : ∀ kvs, (∀ k x, (k, x) ∈ kvs → motive x) → motive (.obj kvs))
    (foreign : ∀ t, motive (.foreign t)) : ∀ v, motive v := by
  intro v
  exact Val.rec (motive_1 := motive) (motive_2 := fun xs => ∀ x ∈ xs, motive x)
    (motive_3 := fun kvs => ∀ k x, (k, x) ∈ kvs → motive x) (motive_4 := fun p => motive p.2)
    null bool str num (fun t xs ih => arr t xs ih) (fun kvs ih => obj kvs ih) foreign
    (by simp)
    (fun h t ih1 ih2 x hx => by
      cases List.mem_cons.mp hx with
      | inl e => exact e ▸ ih1
      | inr m => exact ih2 x m)
    (by simp)
    (fun h t ih1 ih2 k x hx => by
      cases List.mem_cons.mp hx with
      | inl e => subst e; exact ih1
      | inr m => exact ih2 k x m)
    (fun k v ih => ih) v

/-! ### lists: pigeonhole -/

/-- a duplicate-free list contained in a list of the same length contains it -/
theorem subset_of_nodup_length {α : Type} [BEq α] [LawfulBEq α] :
    ∀ (l1 l2 : List α), l1.Nodup → (∀ a ∈ l1, a ∈ l2) → l1.length = l2.length → ∀ a ∈ l2, a ∈ l1
  | [], l2, _, _, hlen => by
    cases l2 with
    | nil => simp
    | cons b l2 => simp at hlen
  | a :: l1, l2, hnd, hsub, hlen => by
    have ⟨hnot, hnd'⟩ := List.nodup_cons.mp hnd
    have ha : a ∈ l2 := hsub a (List.mem_cons_self ..)
    have hlen' : l1.length = (l2.erase a).length := by
      rw [List.length_erase_of_mem ha]; simp at hlen; omega
    have hsub' : ∀ b ∈ l1, b ∈ l2.erase a := by
      intro b hb
      have hne : b ≠ a := fun e => hnot (e ▸ hb)
      exact (List.mem_erase_of_ne hne).mpr (hsub b (List.mem_cons_of_mem _ hb))
    have ih := subset_of_nodup_length l1 (l2.erase a) hnd' hsub' hlen'
    intro c hc
    by_cases hca : c = a
    · subst hca; exact List.mem_cons_self ..
    · exact List.mem_cons_of_mem _ (ih c ((List.mem_erase_of_ne hca).mpr hc))

/-- a duplicate-free list contained in another is no longer than it -/
theorem length_le_of_nodup_subset {α : Type} [BEq α] [LawfulBEq α] :
    ∀ (l1 l2 : List α), l1.Nodup → (∀ a ∈ l1, a ∈ l2) → l1.length ≤ l2.length
  | [], _, _, _ => by simp
  | a :: l1, l2, hnd, hsub => by
    have ⟨hnot, hnd'⟩ := List.nodup_cons.mp hnd
    have ha : a ∈ l2 := hsub a (List.mem_cons_self ..)
    have hsub' : ∀ b ∈ l1, b ∈ l2.erase a := by
      intro b hb
      have hne : b ≠ a := fun e => hnot (e ▸ hb)
      exact (List.mem_erase_of_ne hne).mpr (hsub b (List.mem_cons_of_mem _ hb))
    have ih := length_le_of_nodup_subset l1 (l2.erase a) hnd' hsub'
    rw [List.length_erase_of_mem ha] at ih
    have : 0 < l2.length := List.length_pos_of_mem ha
    simp only [List.length_cons]; omega

/-! ### `objLookup` -/

theorem objLookup_mem {k : Bytes} {v : Val} : ∀ {xs : List (Bytes × Val)}, objLookup k xs = some v → (k, v) ∈ xs
  | [], h => by simp [objLookup] at h
  | (k', v') :: rest, h => by
    simp only [objLookup] at h
    split at h
    · next e => cases h; subst e; exact List.mem_cons_self ..
    · exact List.mem_cons_of_mem _ (objLookup_mem h)

theorem objLookup_of_mem {k : Bytes} {v : Val} :
    ∀ {xs : List (Bytes × Val)}, (xs.map Prod.fst).Nodup → (k, v) ∈ xs → objLookup k xs = some v
  | [], _, h => by simp at h
  | (k', v') :: rest, hnd, h => by
    simp only [List.map_cons, List.nodup_cons] at hnd
    simp only [objLookup]
    cases List.mem_cons.mp h with
    | inl e => cases e; simp
    | inr m =>
      have hne : k ≠ k' := by
        intro e; subst e
        exact hnd.1 (List.mem_map.mpr ⟨(k, v), m, rfl⟩)
      simp only [hne, if_false]
      exact objLookup_of_mem hnd.2 m

theorem objLookup_of_key_mem {k : Bytes} :
    ∀ {xs : List (Bytes × Val)}, k ∈ xs.map Prod.fst → ∃ v, objLookup k xs = some v
  | [], h => by simp at h
  | (k', v') :: rest, h => by
    simp only [objLookup]
    by_cases e : k = k'
    · exact ⟨v', by simp [e]⟩
    · simp only [e, if_false]
      simp only [List.map_cons, List.mem_cons] at h
      cases h with
      | inl h => exact absurd h e
      | inr h => exact objLookup_of_key_mem h

/-- looking a key up in a duplicate-free member list does not depend on the order of the members -/
theorem objLookup_perm {xs ys : List (Bytes × Val)} (hn : (xs.map Prod.fst).Nodup) (hp : xs.Perm ys) (k : Bytes) :
    objLookup k xs = objLookup k ys := by
  have hn' : (ys.map Prod.fst).Nodup := (hp.map _).nodup_iff.mp hn
  apply Option.ext
  intro v
  constructor
  · intro h; exact objLookup_of_mem hn' (hp.mem_iff.mp (objLookup_mem h))
  · intro h; exact objLookup_of_mem hn (hp.mem_iff.mpr (objLookup_mem h))

/-! ### `equal`, `equalL`, `equalF` element-wise -/

theorem toDecimal_some_num {y : Val} {d : Dec} (h : toDecimal y = some d) : ∃ m, y = .num m := by
  cases y <;> simp [toDecimal] at h
  exact ⟨_, rfl⟩

theorem equal_num_left_iff (n : Num) (y : Val) :
    equal (.num n) y = true ↔
      ∃ xd yd, toDecimal (.num n) = some xd ∧ toDecimal y = some yd ∧ Dec.equal xd yd = true := by
  simp only [equal]
  cases toDecimal (.num n) with
  | none => simp
  | some xd =>
    cases toDecimal y with
    | none => simp
    | some yd => simp

theorem equalL_refl_of : ∀ {xs : List Val}, (∀ x ∈ xs, equal x x = true) → equalL xs xs = true
  | [], _ => by simp [equalL]
  | x :: xs, h => by
    simp only [equalL, Bool.and_eq_true]
    exact ⟨h x (List.mem_cons_self ..), equalL_refl_of (fun y hy => h y (List.mem_cons_of_mem _ hy))⟩

theorem equalL_symm_of : ∀ {xs ys : List Val}, (∀ x ∈ xs, ∀ y ∈ ys, equal x y = equal y x) → equalL xs ys = equalL ys xs
  | [], [], _ => rfl
  | [], _ :: _, _ => by simp [equalL]
  | _ :: _, [], _ => by simp [equalL]
  | x :: xs, y :: ys, h => by
    simp only [equalL]
    rw [h x (List.mem_cons_self ..) y (List.mem_cons_self ..),
      equalL_symm_of (fun a ha b hb => h a (List.mem_cons_of_mem _ ha) b (List.mem_cons_of_mem _ hb))]

theorem equalL_trans_of : ∀ {xs ys zs : List Val},
    (∀ x ∈ xs, ∀ y ∈ ys, ∀ z ∈ zs, equal x y = true → equal y z = true → equal x z = true) →
    equalL xs ys = true → equalL ys zs = true → equalL xs zs = true
  | [], [], [], _, _, _ => by simp [equalL]
  | [], [], _ :: _, _, _, h => by simp [equalL] at h
  | [], _ :: _, _, _, h, _ => by simp [equalL] at h
  | _ :: _, [], _, _, h, _ => by simp [equalL] at h
  | _ :: _, _ :: _, [], _, _, h => by simp [equalL] at h
  | x :: xs, y :: ys, z :: zs, h, h1, h2 => by
    simp only [equalL, Bool.and_eq_true] at h1 h2 ⊢
    exact ⟨h x (List.mem_cons_self ..) y (List.mem_cons_self ..) z (List.mem_cons_self ..) h1.1 h2.1,
      equalL_trans_of (fun a ha b hb c hc =>
        h a (List.mem_cons_of_mem _ ha) b (List.mem_cons_of_mem _ hb) c (List.mem_cons_of_mem _ hc)) h1.2 h2.2⟩

/-- `equalF xs ys`: every member of `xs` is found under its key in `ys`, with an equal value -/
theorem equalF_iff (xs ys : List (Bytes × Val)) :
    equalF xs ys = true ↔ ∀ k x, (k, x) ∈ xs → ∃ y, objLookup k ys = some y ∧ equal x y = true := by
  induction xs with
  | nil => simp [equalF]
  | cons p xs ih =>
    obtain ⟨k, x⟩ := p
    simp only [equalF, Bool.and_eq_true, ih]
    constructor
    · rintro ⟨h1, h2⟩ k' x' hm
      cases List.mem_cons.mp hm with
      | inl e =>
        cases e
        cases hl : objLookup k ys with
        | none => simp [hl] at h1
        | some y => exact ⟨y, rfl, by simpa [hl] using h1⟩
      | inr m => exact h2 k' x' m
    · intro h
      refine ⟨?_, fun k' x' m => h k' x' (List.mem_cons_of_mem _ m)⟩
      obtain ⟨y, hl, he⟩ := h k x (List.mem_cons_self ..)
      simp [hl, he]

theorem equalF_refl_of {xs : List (Bytes × Val)} (hn : (xs.map Prod.fst).Nodup)
    (h : ∀ k x, (k, x) ∈ xs → equal x x = true) : equalF xs xs = true :=
  (equalF_iff xs xs).mpr fun k x hm => ⟨x, objLookup_of_mem hn hm, h k x hm⟩

/-- one direction of symmetry for member lists with duplicate-free keys and equal lengths -/
theorem equalF_symm_of {xs ys : List (Bytes × Val)} (hx : (xs.map Prod.fst).Nodup) (hy : (ys.map Prod.fst).Nodup)
    (hlen : xs.length = ys.length)
    (hsym : ∀ k x y, (k, x) ∈ xs → (k, y) ∈ ys → equal x y = true → equal y x = true)
    (h : equalF xs ys = true) : equalF ys xs = true := by
  rw [equalF_iff] at h ⊢
  have hsub : ∀ k ∈ xs.map Prod.fst, k ∈ ys.map Prod.fst := by
    intro k hk
    obtain ⟨⟨k', x⟩, hm, rfl⟩ := List.mem_map.mp hk
    obtain ⟨y, hl, _⟩ := h k' x hm
    exact List.mem_map.mpr ⟨(k', y), objLookup_mem hl, rfl⟩
  have hsup := subset_of_nodup_length _ _ hx hsub (by simpa using hlen)
  intro k y hm
  have hk : k ∈ xs.map Prod.fst := hsup k (List.mem_map.mpr ⟨(k, y), hm, rfl⟩)
  obtain ⟨x, hlx⟩ := objLookup_of_key_mem hk
  have hmx := objLookup_mem hlx
  obtain ⟨y', hly, he⟩ := h k x hmx
  have hy' : objLookup k ys = some y := objLookup_of_mem hy hm
  rw [hy'] at hly
  cases hly
  exact ⟨x, hlx, hsym k x y hmx hm he⟩

theorem equalF_trans_of {xs ys zs : List (Bytes × Val)}
    (htr : ∀ k x y z, (k, x) ∈ xs → (k, y) ∈ ys → (k, z) ∈ zs →
      equal x y = true → equal y z = true → equal x z = true)
    (h1 : equalF xs ys = true) (h2 : equalF ys zs = true) : equalF xs zs = true := by
  rw [equalF_iff] at h1 h2 ⊢
  intro k x hm
  obtain ⟨y, hly, hxy⟩ := h1 k x hm
  obtain ⟨z, hlz, hyz⟩ := h2 k y (objLookup_mem hly)
  exact ⟨z, hlz, htr k x y z hm (objLookup_mem hly) (objLookup_mem hlz) hxy hyz⟩

/-- the right member list may be permuted (duplicate-free keys) -/
theorem equalF_perm_right {ys ys' : List (Bytes × Val)} (hn : (ys.map Prod.fst).Nodup) (hp : ys.Perm ys')
    (xs : List (Bytes × Val)) : equalF xs ys = equalF xs ys' := by
  rw [Bool.eq_iff_iff, equalF_iff, equalF_iff]
  simp only [objLookup_perm hn hp]

/-- the left member list may be permuted -/
theorem equalF_perm_left {xs xs' : List (Bytes × Val)} (hp : xs.Perm xs') (ys : List (Bytes × Val)) :
    equalF xs ys = equalF xs' ys := by
  rw [Bool.eq_iff_iff, equalF_iff, equalF_iff]
  constructor
  · intro h k x hm; exact h k x (hp.mem_iff.mpr hm)
  · intro h k x hm; exact h k x (hp.mem_iff.mp hm)

/-- `equalL`: same length and equal elements at every index -/
theorem equalL_iff : ∀ (xs ys : List Val), equalL xs ys = true ↔
    xs.length = ys.length ∧ ∀ (i : Nat) (h1 : i < xs.length) (h2 : i < ys.length), equal xs[i] ys[i] = true
  | [], [] => by simp [equalL]
  | [], _ :: _ => by simp [equalL]
  | _ :: _, [] => by simp [equalL]
  | x :: xs, y :: ys => by
    simp only [equalL, Bool.and_eq_true, equalL_iff xs ys, List.length_cons, Nat.add_right_cancel_iff]
    constructor
    · rintro ⟨h0, hl, hi⟩
      refine ⟨hl, fun i h1 h2 => ?_⟩
      cases i with
      | zero => exact h0
      | succ i => exact hi i (by omega) (by omega)
    · rintro ⟨hl, hi⟩
      exact ⟨hi 0 (by omega) (by omega), hl, fun i h1 h2 => hi (i + 1) (by omega) (by omega)⟩

theorem objLookup_none_of_not_key {k : Bytes} {xs : List (Bytes × Val)} (h : k ∉ xs.map Prod.fst) :
    objLookup k xs = none := by
  cases hl : objLookup k xs with
  | none => rfl
  | some v => exact absurd (List.mem_map.mpr ⟨(k, v), objLookup_mem hl, rfl⟩) h

/-- with duplicate-free keys, "same number of members and every member of the left found equal in the right"
    is extensional equality of the two maps: every key is absent from both or bound to equal values in both -/
theorem equalF_ext {xs ys : List (Bytes × Val)} (hx : (xs.map Prod.fst).Nodup) (hy : (ys.map Prod.fst).Nodup) :
    (xs.length = ys.length ∧ equalF xs ys = true) ↔
      ∀ k, (objLookup k xs = none ∧ objLookup k ys = none) ∨
        ∃ x y, objLookup k xs = some x ∧ objLookup k ys = some y ∧ equal x y = true := by
  constructor
  · rintro ⟨hlen, h⟩ k
    have h' := (equalF_iff xs ys).mp h
    have hsub : ∀ k ∈ xs.map Prod.fst, k ∈ ys.map Prod.fst := by
      intro k hk
      obtain ⟨⟨k', x⟩, hm, rfl⟩ := List.mem_map.mp hk
      obtain ⟨y, hl, _⟩ := h' k' x hm
      exact List.mem_map.mpr ⟨(k', y), objLookup_mem hl, rfl⟩
    have hsup := subset_of_nodup_length _ _ hx hsub (by simpa using hlen)
    cases hlx : objLookup k xs with
    | some x =>
      obtain ⟨y, hly, he⟩ := h' k x (objLookup_mem hlx)
      exact Or.inr ⟨x, y, rfl, hly, he⟩
    | none =>
      cases hly : objLookup k ys with
      | none => exact Or.inl ⟨rfl, rfl⟩
      | some y =>
        obtain ⟨x, hx'⟩ := objLookup_of_key_mem (hsup k (List.mem_map.mpr ⟨(k, y), objLookup_mem hly, rfl⟩))
        rw [hlx] at hx'; cases hx'
  · intro h
    have hxy : ∀ k x, (k, x) ∈ xs → ∃ y, objLookup k ys = some y ∧ equal x y = true := by
      intro k x hm
      have hlx := objLookup_of_mem hx hm
      rcases h k with ⟨h1, _⟩ | ⟨x', y, h1, h2, h3⟩
      · rw [hlx] at h1; cases h1
      · rw [hlx] at h1; cases h1; exact ⟨y, h2, h3⟩
    have hyx : ∀ k ∈ ys.map Prod.fst, k ∈ xs.map Prod.fst := by
      intro k hk
      obtain ⟨⟨k', y⟩, hm, rfl⟩ := List.mem_map.mp hk
      have hly := objLookup_of_mem hy hm
      rcases h k' with ⟨_, h2⟩ | ⟨x, y', h1, _, _⟩
      · rw [hly] at h2; cases h2
      · exact List.mem_map.mpr ⟨(k', x), objLookup_mem h1, rfl⟩
    have hsub : ∀ k ∈ xs.map Prod.fst, k ∈ ys.map Prod.fst := by
      intro k hk
      obtain ⟨⟨k', x⟩, hm, rfl⟩ := List.mem_map.mp hk
      obtain ⟨y, hl, _⟩ := hxy k' x hm
      exact List.mem_map.mpr ⟨(k', y), objLookup_mem hl, rfl⟩
    have l1 := length_le_of_nodup_subset _ _ hx hsub
    have l2 := length_le_of_nodup_subset _ _ hy hyx
    simp only [List.length_map] at l1 l2
    exact ⟨by omega, (equalF_iff xs ys).mpr hxy⟩

/-! ### map-ordered arrays -/

theorem hasEnum2L_false_iff : ∀ {xs : List Val}, Val.hasEnum2L xs = false ↔ ∀ x ∈ xs, x.hasEnum2 = false
  | [] => by simp [Val.hasEnum2L]
  | x :: xs => by simp [Val.hasEnum2L, hasEnum2L_false_iff (xs := xs)]

theorem hasEnum2F_false_iff : ∀ {kvs : List (Bytes × Val)},
    Val.hasEnum2F kvs = false ↔ ∀ k x, (k, x) ∈ kvs → x.hasEnum2 = false
  | [] => by simp [Val.hasEnum2F]
  | (k, x) :: kvs => by
    simp only [Val.hasEnum2F, Bool.or_eq_false_iff, hasEnum2F_false_iff (kvs := kvs), List.mem_cons, Prod.mk.injEq]
    constructor
    · rintro ⟨h1, h2⟩ k' x' (⟨_, rfl⟩ | hm)
      · exact h1
      · exact h2 k' x' hm
    · intro h
      exact ⟨h k x (Or.inl ⟨rfl, rfl⟩), fun k' x' hm => h k' x' (Or.inr hm)⟩

end Jmes
