/-
  Helper lemmas for property C20: the decimal comparison is an equivalence on non-NaN values, and
  element-wise characterisations of `equalL` / `equalF`.
-/
import Jmes.Model.Eval
namespace Jmes

/-! ### `Dec.cmpFin` / `Dec.cmp`: equality is equality of values -/
namespace Dec

/-- the signed coefficient of `(-1)^n · c · 10^e` written at the exponent `b ≤ e` -/
def sval (n : Bool) (c : Nat) (e b : Int) : Int :=
  (if n then -1 else 1) * ((c * pow10 (e - b).toNat : Nat) : Int)

theorem cmpFin_eq_zero_iff (n1 : Bool) (c1 : Nat) (e1 : Int) (n2 : Bool) (c2 : Nat) (e2 : Int) :
    cmpFin n1 c1 e1 n2 c2 e2 = 0 ↔ sval n1 c1 e1 (min e1 e2) = sval n2 c2 e2 (min e1 e2) := by
  unfold cmpFin sval
  simp only []
  generalize ((if n1 then -1 else 1) * ((c1 * pow10 (e1 - min e1 e2).toNat : Nat) : Int)) = a
  generalize ((if n2 then -1 else 1) * ((c2 * pow10 (e2 - min e1 e2).toNat : Nat) : Int)) = b
  split
  · constructor <;> intro h <;> omega
  · split
    · simp_all
    · constructor <;> intro h <;> omega

/-- re-scaling to a smaller exponent multiplies by a power of ten -/
theorem sval_shift (n : Bool) (c : Nat) (e b m : Int) (hmb : m ≤ b) (hbe : b ≤ e) :
    sval n c e m = sval n c e b * ((10 ^ (b - m).toNat : Nat) : Int) := by
  unfold sval pow10
  have h : (e - m).toNat = (e - b).toNat + (b - m).toNat := by omega
  rw [h, Nat.pow_add, ← Nat.mul_assoc, Int.natCast_mul (c * 10 ^ (e - b).toNat), Int.mul_assoc]

/-- equality of the scaled coefficients does not depend on the common exponent chosen -/
theorem sval_eq_iff (n1 : Bool) (c1 : Nat) (e1 : Int) (n2 : Bool) (c2 : Nat) (e2 : Int) (b m : Int)
    (hmb : m ≤ b) (h1 : b ≤ e1) (h2 : b ≤ e2) :
    sval n1 c1 e1 b = sval n2 c2 e2 b ↔ sval n1 c1 e1 m = sval n2 c2 e2 m := by
  rw [sval_shift n1 c1 e1 b m hmb h1, sval_shift n2 c2 e2 b m hmb h2]
  have hne : ((10 ^ (b - m).toNat : Nat) : Int) ≠ 0 := by
    have : 0 < 10 ^ (b - m).toNat := Nat.pow_pos (by decide)
    omega
  exact (Int.mul_eq_mul_right_iff hne).symm

/-- "compares by value": two finite decimals compare equal iff their coefficients agree at any common exponent -/
theorem cmpFin_eq_zero_iff_value (n1 : Bool) (c1 : Nat) (e1 : Int) (n2 : Bool) (c2 : Nat) (e2 : Int) (m : Int)
    (h1 : m ≤ e1) (h2 : m ≤ e2) :
    cmpFin n1 c1 e1 n2 c2 e2 = 0 ↔ sval n1 c1 e1 m = sval n2 c2 e2 m := by
  rw [cmpFin_eq_zero_iff]
  exact sval_eq_iff n1 c1 e1 n2 c2 e2 (min e1 e2) m (by omega) (by omega) (by omega)

theorem cmpFin_self (n : Bool) (c : Nat) (e : Int) : cmpFin n c e n c e = 0 :=
  (cmpFin_eq_zero_iff ..).mpr rfl

theorem cmpFin_zero_symm {n1 c1 e1 n2 c2 e2} (h : cmpFin n1 c1 e1 n2 c2 e2 = 0) : cmpFin n2 c2 e2 n1 c1 e1 = 0 := by
  rw [cmpFin_eq_zero_iff_value _ _ _ _ _ _ (min e1 e2) (by omega) (by omega)] at *
  exact h.symm

theorem cmpFin_zero_trans {n1 c1 e1 n2 c2 e2 n3 c3 e3}
    (h12 : cmpFin n1 c1 e1 n2 c2 e2 = 0) (h23 : cmpFin n2 c2 e2 n3 c3 e3 = 0) : cmpFin n1 c1 e1 n3 c3 e3 = 0 := by
  rw [cmpFin_eq_zero_iff_value _ _ _ _ _ _ (min e1 (min e2 e3)) (by omega) (by omega)] at *
  exact h12.trans h23

theorem cmp_self {a : Dec} (h : a ≠ .nan) : cmp a a = some 0 := by
  cases a with
  | nan => exact absurd rfl h
  | inf n => simp [cmp]
  | fin n c e => simp [cmp, cmpFin_self]

theorem cmp_nan_left (b : Dec) : cmp .nan b = none := by cases b <;> rfl
theorem cmp_nan_right (a : Dec) : cmp a .nan = none := by cases a <;> rfl

theorem cmp_zero_symm {a b : Dec} (h : cmp a b = some 0) : cmp b a = some 0 := by
  cases a with
  | nan => simp [cmp_nan_left] at h
  | inf n => cases b with
    | nan => simp [cmp] at h
    | inf m => cases n <;> cases m <;> simp [cmp] at h ⊢
    | fin m c e => cases n <;> simp [cmp] at h
  | fin n1 c1 e1 => cases b with
    | nan => simp [cmp] at h
    | inf m => cases m <;> simp [cmp] at h
    | fin n2 c2 e2 =>
      simp only [cmp, Option.some.injEq] at h ⊢
      exact cmpFin_zero_symm h

theorem cmp_zero_trans {a b c : Dec} (h1 : cmp a b = some 0) (h2 : cmp b c = some 0) : cmp a c = some 0 := by
  cases a with
  | nan => simp [cmp_nan_left] at h1
  | inf n => cases b with
    | nan => simp [cmp] at h1
    | inf m => cases c with
      | nan => simp [cmp] at h2
      | inf k => cases n <;> cases m <;> cases k <;> simp [cmp] at h1 h2 ⊢
      | fin k c e => cases m <;> simp [cmp] at h2
    | fin m c e => cases n <;> simp [cmp] at h1
  | fin n1 c1 e1 => cases b with
    | nan => simp [cmp] at h1
    | inf m => cases m <;> simp [cmp] at h1
    | fin n2 c2 e2 => cases c with
      | nan => simp [cmp] at h2
      | inf k => cases k <;> simp [cmp] at h2
      | fin n3 c3 e3 =>
        simp only [cmp, Option.some.injEq] at h1 h2 ⊢
        exact cmpFin_zero_trans h1 h2

theorem equal_iff {a b : Dec} : Dec.equal a b = true ↔ cmp a b = some 0 := by
  simp [Dec.equal]

theorem equal_self {a : Dec} (h : a ≠ .nan) : Dec.equal a a = true := equal_iff.mpr (cmp_self h)

theorem equal_nan_self : Dec.equal .nan .nan = false := rfl

theorem equal_comm (a b : Dec) : Dec.equal a b = Dec.equal b a := by
  rw [Bool.eq_iff_iff, equal_iff, equal_iff]
  exact ⟨cmp_zero_symm, cmp_zero_symm⟩

theorem equal_trans {a b c : Dec} (h1 : Dec.equal a b = true) (h2 : Dec.equal b c = true) : Dec.equal a c = true :=
  equal_iff.mpr (cmp_zero_trans (equal_iff.mp h1) (equal_iff.mp h2))

end Dec

end Jmes
